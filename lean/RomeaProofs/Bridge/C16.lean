import RomeaModel.Window
import RomeaModel.Generated.SrcC16

/-!
# Bridge C16: `OnlineAverage`, `OnlineVariance`, `RingOfEigenVector` AS TRANSLATED FROM TODAY'S SOURCE = the model (`RomeaModel/Window.lean`)

`RomeaModel/Generated/SrcC16.lean` is regenerated on every check run from `src/monitoring/OnlineAverage.cpp`,
`src/monitoring/OnlineVariance.cpp` and `containers/Eigen/RingOfEigenVector.hpp` (instantiated with `Eigen::Vector2d`).
Encoding: `std::vector<long long>` is a `List Int` (`size()` = length, `push_back` = append at the end, `v[i]` = `getD i 0`,
`v[i] = x` = `set`, `clear()` = `[]`); the ring's `std::vector<Eigen::Vector2d>` is a `List τ` over an ABSTRACT element type (elements
are only copied), its `operator[]` the checked read `ring_[i]?`; `size_t` / `int` / `long long` are `Int`, with every `size_t`
`+`/`-` reduced modulo 2^64 and `size_t(-1)` = 2^64 − 1 (signed overflow is undefined behaviour: unbounded, see `C16.no_overflow`);
`static_cast<long long>(double)` is `Trunc.trunc`, integer → `double` is `IntCast`; `quiet_NaN()` is `0 / 0`; the `lock_guard`s are
skipped.

The model keeps the integer state (`Stat`, `RingBuf`) and leaves the `double` glue to the driver; here the glue is written once,
generically in the scalar type (`quantise`, `averageOf`, `varianceOf`: the driver's formulas with `IntCast`), and the bridge says
that a translated `update` returns exactly (glue of the model's next state, the model's next state). Every statement holds for EVERY
scalar type with the operations used — `Float` (what runs), `ℝ`, `RN`. The model's indexes are `Nat`s, the translated ones `Int`s:
statements are about the casts, under the hypotheses that the stored `size_t` values are below 2^64 (the model's `Stat` does not
reduce its index modulo 2^64: `index_ < windowSize_` always, `C16.Inv.idx_lt`). Core Lean only.
-/
set_option linter.unusedSectionVars false

namespace Romea.Bridge.C16
open Romea Romea.Window

section Stat
variable {α : Type} [Sub α] [Mul α] [Div α] [NatCast α] [IntCast α] [Trunc α]

/-- what the C++ stores for "undefined": `std::numeric_limits<double>::quiet_NaN()`, translated as `0 / 0` -/
def nan : α := ((0 : Nat) : α) / ((0 : Nat) : α)

/-- `static_cast<long long>(value * multiplier_)` -/
def quantise (m : Int) (v : α) : Int := Trunc.trunc (v * ((m : Int) : α))

/-- `static_cast<int>(1 / averagePrecision)` -/
def multiplierOf (p : α) : Int := Trunc.trunc (((1 : Nat) : α) / p)

/-- `sumOfData_ / (double(multiplier_) * data_.size())` on a model state -/
def averageOf (s : Stat) : α := ((s.sum : Int) : α) / (((s.m : Int) : α) * (((s.data.length : Nat) : Int) : α))

/-- `(sumOfSquaredData_ / double(squaredMultiplier_) - data_.size() * average * average) / windowSizeMinusOne_` on a model state -/
def varianceOf (s : Stat) : α :=
  ((((s.sumsq : Int) : α) / ((s.m2 : Int) : α)) - (((((s.data.length : Nat) : Int) : α) * averageOf s) * averageOf s))
    / ((((s.W - 1 : Nat) : Int) : Int) : α)

/-- `OnlineAverage(precision, windowSize)`: (average_, data_, index_, multiplier_, sumOfData_, windowSize_) -/
theorem average_ctor_bridge (p : α) (W : Nat) :
    Src.C16.OnlineAverage.OnlineAverage p (W : Int)
      = let s := Stat.init W (multiplierOf p)
        ((nan : α), s.data, (s.idx : Int), s.m, s.sum, (s.W : Int)) := rfl

/-- `OnlineVariance(precision, windowSize)` for `1 ≤ windowSize < 2^64`: the `OnlineAverage` members, then `squaredData_`,
    `squaredMultiplier_`, the sums, `variance_`, `windowSizeMinusOne_` -/
theorem variance_ctor_bridge (p : α) (W : Nat) (h0 : 0 < W) (h64 : W < two64) :
    Src.C16.OnlineVariance.OnlineVariance p (W : Int)
      = let s := Stat.init W (multiplierOf p)
        ((nan : α), s.data, (s.idx : Int), s.m, s.sq, s.m2, s.sum, s.sumsq, (nan : α), ((s.W - 1 : Nat) : Int), (s.W : Int)) := by
  have h : ((W : Int) - 1) % 18446744073709551616 = ((W - 1 : Nat) : Int) := by
    simp only [two64] at h64; omega
  simp only [Src.C16.OnlineVariance.OnlineVariance, Src.C16.OnlineAverage.OnlineAverage, Stat.init, h]
  rfl

private theorem idx_step (i W : Nat) (h : i + 1 < two64) :
    Int.tmod (((i : Int) + 1) % 18446744073709551616) (W : Int) = (((i + 1) % W : Nat) : Int) := by
  have h1 : ((i : Int) + 1) % 18446744073709551616 = ((i + 1 : Nat) : Int) := by
    simp only [two64] at h; omega
  rw [h1, Int.ofNat_tmod]

/-- `OnlineAverage::update(value)`: (average_, data_, index_, sumOfData_) = the model's `Stat.update` on the truncated sample, and the
    stored average is the glue formula on the NEW state -/
theorem average_update_bridge (s : Stat) (v : α) (hidx : s.idx + 1 < two64) :
    Src.C16.OnlineAverage.update s.data (s.idx : Int) s.m s.sum v (s.W : Int)
      = let s' := s.update (quantise s.m v)
        ((averageOf s' : α), s'.data, (s'.idx : Int), s'.sum) := by
  simp only [Src.C16.OnlineAverage.update, idx_step s.idx s.W hidx, Int.toNat_natCast, Stat.update, quantise, averageOf]
  by_cases h : s.data.length = s.W
  · simp [h]
  · have h' : ¬ ((s.data.length : Int) = (s.W : Int)) := by omega
    simp [h, h']

/-- `OnlineVariance::update(value)`: (average_, data_, index_, squaredData_, sumOfData_, sumOfSquaredData_, variance_) -/
theorem variance_update_bridge (s : Stat) (v : α) (hidx : s.idx + 1 < two64) :
    Src.C16.OnlineVariance.update s.data (s.idx : Int) s.m s.sq s.m2 s.sum s.sumsq v ((s.W - 1 : Nat) : Int) (s.W : Int)
      = let s' := s.update (quantise s.m v)
        ((averageOf s' : α), s'.data, (s'.idx : Int), s'.sq, s'.sum, s'.sumsq, (varianceOf s' : α)) := by
  simp only [Src.C16.OnlineVariance.update, idx_step s.idx s.W hidx, Int.toNat_natCast, Stat.update, quantise, averageOf, varianceOf]
  by_cases h : s.data.length = s.W
  · simp [h]
  · have h' : ¬ ((s.data.length : Int) = (s.W : Int)) := by omega
    simp [h, h']

/-- `OnlineAverage::reset()`: (average_, data_, index_, sumOfData_) -/
theorem average_reset_bridge (s : Stat) :
    (Src.C16.OnlineAverage.reset : α × List Int × Int × Int) = ((nan : α), s.reset.data, (s.reset.idx : Int), s.reset.sum) := rfl

/-- `OnlineVariance::reset()`: (average_, data_, index_, squaredData_, sumOfData_, sumOfSquaredData_, variance_) -/
theorem variance_reset_bridge (s : Stat) :
    (Src.C16.OnlineVariance.reset : α × List Int × Int × List Int × Int × Int × α)
      = ((nan : α), s.reset.data, (s.reset.idx : Int), s.reset.sq, s.reset.sum, s.reset.sumsq, (nan : α)) := rfl

/-- `getAverage()` / `getVariance()` return the stored member -/
theorem getters_bridge (x : α) : Src.C16.OnlineAverage.getAverage x = x ∧ Src.C16.OnlineVariance.getVariance x = x := ⟨rfl, rfl⟩

end Stat

/-- `OnlineAverage::isAvailable()` = the model's `available` -/
theorem isAvailable_bridge (s : Stat) : Src.C16.OnlineAverage.isAvailable s.data (s.W : Int) = s.available := by
  unfold Src.C16.OnlineAverage.isAvailable Stat.available
  by_cases h : s.data.length = s.W
  · simp [h]
  · have h' : ¬ ((s.data.length : Int) = (s.W : Int)) := by omega
    simp [h, h']

/-! ### RingOfEigenVector -/
section Ring
variable {T : Type}

/-- `RingOfEigenVector(ringSize)`: (ringIndex_, ringSize_, ring_); `ringIndex_(-1)` is 2^64 − 1 -/
theorem ring_ctor_bridge (cap : Nat) :
    (Src.C16.RingOfEigenVector.RingOfEigenVector (cap : Int) : Int × Int × List T)
      = (((RingBuf.init cap : RingBuf T).idx : Int), ((RingBuf.init cap : RingBuf T).cap : Int), (RingBuf.init cap : RingBuf T).buf) := by
  simp only [Src.C16.RingOfEigenVector.RingOfEigenVector, RingBuf.init, two64]
  rfl

/-- `clear()`: (ringIndex_, ring_) -/
theorem ring_clear_bridge (r : RingBuf T) :
    (Src.C16.RingOfEigenVector.clear : Int × List T) = ((r.clear.idx : Int), r.clear.buf) := by
  simp only [Src.C16.RingOfEigenVector.clear, RingBuf.clear, two64]
  rfl

/-- `size()` -/
theorem ring_size_bridge (r : RingBuf T) : Src.C16.RingOfEigenVector.size r.buf = (r.size : Int) := rfl

/-- `append(position)`: (ringIndex_, ring_), the index stepped in 64-bit unsigned arithmetic -/
theorem ring_append_bridge (r : RingBuf T) (v : T) :
    Src.C16.RingOfEigenVector.append v (r.idx : Int) (r.cap : Int) r.buf = (((r.append v).idx : Int), (r.append v).buf) := by
  have h1 : Int.tmod (((r.idx : Int) + 1) % 18446744073709551616) (r.cap : Int) = ((((r.idx + 1) % two64) % r.cap : Nat) : Int) := by
    have : ((r.idx : Int) + 1) % 18446744073709551616 = (((r.idx + 1) % two64 : Nat) : Int) := by
      simp only [two64]; omega
    rw [this, ← Int.ofNat_tmod]
  simp only [Src.C16.RingOfEigenVector.append, h1, Int.toNat_natCast, RingBuf.append]
  by_cases h : r.buf.length = r.cap
  · simp [h]
  · have h' : ¬ ((r.buf.length : Int) = (r.cap : Int)) := by omega
    simp [h, h']

/-- `operator[](n)` = the model's `get?` (for any `n`, any stored index: all the wrap-arounds agree) -/
theorem ring_index_bridge (r : RingBuf T) (n : Nat) (hn : n < two64) :
    Src.C16.RingOfEigenVector.operator_index (n : Int) (r.idx : Int) r.buf = r.get? n := by
  have e : two64 = 18446744073709551616 := by decide
  have h1 : ((((r.idx : Int) + (r.buf.length : Int)) % 18446744073709551616) - (n : Int)) % 18446744073709551616
      = ((((r.idx + r.buf.length) % two64 + two64 - n % two64) % two64 : Nat) : Int) := by
    rw [e] at hn ⊢; omega
  unfold Src.C16.RingOfEigenVector.operator_index RingBuf.get? RingBuf.slot
  rw [h1, ← Int.ofNat_tmod, Int.toNat_natCast]

end Ring

end Romea.Bridge.C16
