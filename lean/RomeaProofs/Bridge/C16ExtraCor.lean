import RomeaProofs.Bridge.C16Extra
import RomeaProofs.Bridge.C16Cor

/-!
# Bridge C16, part 4: objects built by the OTHER constructors run like the model too

`Obj.new1 p W` is an `OnlineVariance` built as `OnlineVariance v(p); v.setWindowSize(W);`, `Obj.copy o` one built by the copy constructor —
both through the translated functions. `src_new1_eq_new` / `src_copy_eq`: they are the same object (member for member) as `Obj.new p W` /
the original, so every history theorem of `Bridge/C16Cor.lean` applies: `src_run_eq_new1`, `src_run_copy`.
-/
namespace Romea.Bridge.C16
open Romea Romea.Window

variable {α : Type} [Sub α] [Mul α] [Div α] [NatCast α] [IntCast α] [Trunc α]

/-- `OnlineVariance v(p); v.setWindowSize(W);` as translated -/
def Obj.new1 (p : α) (W : Nat) : Obj α :=
  let c := Src.C16.OnlineVariance.OnlineVariance_1 p
  let w := Src.C16.OnlineVariance.setWindowSize c.2.1 c.2.2.2.2.1 (W : Int)
  { average := c.1, data := c.2.1, index := c.2.2.1, multiplier := c.2.2.2.1, squaredData := c.2.2.2.2.1,
    squaredMultiplier := c.2.2.2.2.2.1, sumOfData := c.2.2.2.2.2.2.1, sumOfSquaredData := c.2.2.2.2.2.2.2.1,
    variance := c.2.2.2.2.2.2.2.2.1, windowSizeMinusOne := w.1, windowSize := w.2 }

/-- `OnlineVariance w(o);` as translated (copy constructor) -/
def Obj.copy (o : Obj α) : Obj α :=
  let c := Src.C16.OnlineVariance.OnlineVariance_copy o.average o.data o.index o.multiplier o.squaredData o.squaredMultiplier o.sumOfData
    o.sumOfSquaredData o.variance o.windowSizeMinusOne o.windowSize
  { average := c.1, data := c.2.1, index := c.2.2.1, multiplier := c.2.2.2.1, squaredData := c.2.2.2.2.1,
    squaredMultiplier := c.2.2.2.2.2.1, sumOfData := c.2.2.2.2.2.2.1, sumOfSquaredData := c.2.2.2.2.2.2.2.1,
    variance := c.2.2.2.2.2.2.2.2.1, windowSizeMinusOne := c.2.2.2.2.2.2.2.2.2.1, windowSize := c.2.2.2.2.2.2.2.2.2.2 }

/-- one-argument constructor + `setWindowSize` builds the same object as the two-argument constructor -/
theorem src_new1_eq_new (p : α) (W : Nat) : Obj.new1 p W = Obj.new p W := rfl

/-- a copy is the same object -/
theorem src_copy_eq (o : Obj α) : Obj.copy o = o := rfl

/-- **`src_run_eq` for objects built with the one-argument constructor and `setWindowSize`** -/
theorem src_run_eq_new1 (p : α) (W : Nat) (h0 : 0 < W) (h64 : W < two64) (ops : List (SOp α)) :
    let m := multiplierOf p
    let x := ops.foldl glueStep (Stat.init W m, (nan : α), (nan : α))
    (Obj.new1 p W).run ops = Obj.of ((Stat.init W m).run (ops.map (quantOp m))) x.2.1 x.2.2 := by
  rw [src_new1_eq_new]
  exact src_run_eq p W h0 h64 ops

/-- **a copy taken after any history continues exactly like the original** (the copy shares no state with it: both are values) -/
theorem src_run_copy (p : α) (W : Nat) (ops more : List (SOp α)) :
    (Obj.copy ((Obj.new p W).run ops)).run more = (Obj.new p W).run (ops ++ more) := by
  rw [src_copy_eq]
  simp only [Obj.run, List.foldl_append]

end Romea.Bridge.C16
