import RomeaModel.Lambert
import RomeaModel.Generated.SrcC03

/-!
# Bridge C03: `LambertConverter` AS TRANSLATED FROM TODAY'S SOURCE = the model (`RomeaModel/Lambert.lean`)

`RomeaModel/Generated/SrcC03.lean` is regenerated on every check run from `src/geodesy/LambertConverter.cpp` and
`src/geodesy/EarthEllipsoid.cpp`. Statements are generic in the scalar type and `rfl`, except the `for (;;) … break` loop of
`computeLatitude`, which is a separate recursive definition on both sides and is related by induction on the fuel (same fuel on
both sides: the loop is in the same form in the source and in the model). Translator conventions that matter here: `std::pow(x, 2)`
is `x * x` (as in the model; gcc folds it), `M_PI_2` is `M_PI / 2`. Core Lean only.
-/
set_option linter.unusedSectionVars false

namespace Romea.Bridge.C03
open Romea Romea.Lambert

variable {α : Type} [Add α] [Sub α] [Mul α] [Div α] [Neg α] [LT α] [DecidableLT α] [NatCast α] [OfScientific α] [Trans α]

/-- `EarthEllipsoid::EarthEllipsoid(double, double)` = `Ellipsoid.make` (fields a, b, e, e2) -/
theorem ellipsoid_ctor (A B : α) :
    Src.C03.EarthEllipsoid.EarthEllipsoid A B
      = ((Ellipsoid.make A B).a, (Ellipsoid.make A B).b, (Ellipsoid.make A B).e, (Ellipsoid.make A B).e2) := by rfl

/-- the namespace-scope `EPSILON = 1e-12` = the model's `epsilon` -/
theorem epsilon_bridge : (Src.C03.EPSILON : α) = epsilon := by rfl

/-- `computeIsometricLatitude` = `isoLat` -/
theorem isoLat_bridge (lat e : α) : Src.C03.LambertConverter.computeIsometricLatitude e lat = isoLat lat e := by rfl

/-- `computeGrandeNormal` = `grandeNormale` -/
theorem grandeNormale_bridge (lat a e : α) : Src.C03.LambertConverter.computeGrandeNormal a e lat = grandeNormale lat a e := by rfl

/-- one pass of the translated loop: body = `latStep`, exit test `|latitude − previous| < EPSILON` -/
theorem loop_step (iso e : α) (n : Nat) (lat : α) :
    Src.C03.LambertConverter.computeLatitude.loop1 e iso (n + 1) lat
      = if Trans.abs (latStep iso e lat - lat) < (Src.C03.EPSILON : α) then some (latStep iso e lat)
        else Src.C03.LambertConverter.computeLatitude.loop1 e iso n (latStep iso e lat) := by rfl

private theorem latLoop_succ (iso e : α) (n : Nat) (lat : α) :
    latLoop iso e (n + 1) lat
      = if Trans.abs (latStep iso e lat - lat) < (Src.C03.EPSILON : α) then some (latStep iso e lat)
        else latLoop iso e n (latStep iso e lat) := by rfl

/-- the translated `for (;;) { …; if (…) break; }` = the model's `latLoop`, for every fuel -/
theorem loop_bridge (iso e : α) (n : Nat) :
    ∀ lat : α, Src.C03.LambertConverter.computeLatitude.loop1 e iso n lat = latLoop iso e n lat := by
  induction n with
  | zero => intro lat; rfl
  | succ n ih =>
    intro lat
    rw [loop_step, latLoop_succ, ih]

/-- `computeLatitude` = `latFromIso` -/
theorem computeLatitude_bridge (fuel : Nat) (iso e : α) :
    Src.C03.LambertConverter.computeLatitude fuel e iso = latFromIso fuel iso e := by
  have h : Src.C03.LambertConverter.computeLatitude fuel e iso
      = match Src.C03.LambertConverter.computeLatitude.loop1 e iso fuel (latInit iso) with
        | none => none
        | some r => some r := by rfl
  rw [h, loop_bridge]
  unfold latFromIso
  cases latLoop iso e fuel (latInit iso) <;> rfl

/-- `computeProjectionParameters(SecantProjectionParameters, EarthEllipsoid)` (fields c, longitude0, n, xs, ys) = `paramsSecant` -/
theorem paramsSecant_bridge (p : Secant α) (E : Ellipsoid α) :
    Src.C03.LambertConverter.computeProjectionParameters_secant E.a E.e p.lat0 p.lat1 p.lat2 p.lon0 p.x0 p.y0
      = ((paramsSecant p E).c, (paramsSecant p E).lon0, (paramsSecant p E).n, (paramsSecant p E).xs, (paramsSecant p E).ys) := by rfl

/-- `computeProjectionParameters(TangentProjectionParameters, EarthEllipsoid)` = `paramsTangent` -/
theorem paramsTangent_bridge (p : Tangent α) (E : Ellipsoid α) :
    Src.C03.LambertConverter.computeProjectionParameters_tangent E.a E.e p.k0 p.lat0 p.lon0 p.x0 p.y0
      = ((paramsTangent p E).c, (paramsTangent p E).lon0, (paramsTangent p E).n, (paramsTangent p E).xs, (paramsTangent p E).ys) := by rfl

/-- `toLambert` (components 0, 1) = `toLambert` -/
theorem toLambert_bridge (cv : Conv α) (lat lon : α) :
    Src.C03.LambertConverter.toLambert cv.c cv.e cv.lon0 cv.n lat lon cv.xs cv.ys = toLambert cv lat lon := by rfl

/-- `toWGS84` (latitude, longitude; `none` = the latitude loop did not exit within the fuel) = `toWGS84` -/
theorem toWGS84_bridge (fuel : Nat) (cv : Conv α) (x y : α) :
    Src.C03.LambertConverter.toWGS84 fuel cv.c cv.e cv.lon0 cv.n x y cv.xs cv.ys = toWGS84 fuel cv x y := by
  have h : Src.C03.LambertConverter.toWGS84 fuel cv.c cv.e cv.lon0 cv.n x y cv.xs cv.ys
      = match Src.C03.LambertConverter.computeLatitude fuel cv.e (invIsoLat cv x y) with
        | none => none
        | some r => some (r, invLon cv x y) := by rfl
  rw [h, computeLatitude_bridge]
  unfold toWGS84
  cases latFromIso fuel (invIsoLat cv x y) cv.e <;> rfl

end Romea.Bridge.C03
