import RomeaModel.WrapGrid
import RomeaModel.Generated.SrcC15

/-!
# Bridge C15: the index arithmetic of `Grid` / `WrappableGrid` AS TRANSLATED FROM TODAY'S SOURCE = the model (`RomeaModel/WrapGrid.lean`)

`RomeaModel/Generated/SrcC15.lean` is regenerated on every check run from `containers/grid/Grid.hpp` and `WrappableGrid.hpp`,
instantiated as `WrappableGrid<int, 2>` and `WrappableGrid<int, 3>` (the two instantiations the library and the harness use).
Encoding: an `Eigen::Matrix<size_t, DIM, 1>` is its DIM components (`v[0]` → `v_0`, …), `size_t` is `Int` with every `+`, `*` reduced
modulo 2^64, `%` is C++'s truncating `Int.tmod`, `a.dot(b)` is `(a0*b0 + a1*b1) + a2*b2`, `v.array().prod()` the product of the
components, `std::vector<int> buffer_` a `List Int` (`resize(n)` = first `n` elements, then zeros), `if (DIM == 3)` is decided per
instantiation, the `assert`s are compiled out (`-DNDEBUG`).

The model is dimension-generic over lists of `Nat`s and does NOT reduce modulo 2^64; the bridge theorems are stated for the 2- and
3-axis instances of the model's `wrap` / `coeffs` / `cellCount` / `linIdx`, under the hypotheses that make the C++'s wrap-arounds
the identity: every `cellIndexes[a] + indexOffsetsAlongAxes_[a]` and the number of cells are below 2^64 (implied by the property's
side conditions `SizeOK`, `WF`, `InRange`: `C15.accesses_in_bounds`).

`translate` (instantiation `WrappableGrid<int, 2>`) is translated too: the axis loop `for (axis < DIM)` and the inner `for (a < DIM)` are
UNROLLED (their bounds are template constants), `continue` / `break` become the two arms of an `if`, the blanking loop
`for (bool done = false; !done;)` becomes one auxiliary recursive function on fuel per place it occurs (`translate_2.loop1/2/3`,
carrying `buffer_`, `cellIndexes`, `done`). `translate_2_quantities` bridges the PER-AXIS QUANTITIES — `numberOfCells`,
`numberOfSlabs`, `firstSlab`, `lastSlab`, the start index of the odometer, `wrappedOffset`, the new accumulated offset, the `continue`
on a zero offset, the order of the axes and which offsets each blanking pass sees — to the model's `firstSlab` / `lastSlab` /
`newOffset`. The blanking loops themselves are NOT bridged to the model's `box` / `foldl` (they appear in the statement as the
translated functions): that part of `translate` remains tied by the correspondence check only.
Core Lean only.
-/
namespace Romea.Bridge.C15
open Romea Romea.WrapGrid

private theorem two64_eq : two64 = 18446744073709551616 := by decide

private theorem wrap1 (i o n : Nat) (h : i + o < two64) :
    Int.tmod (((i : Int) + (o : Int)) % 18446744073709551616) (n : Int) = (((i + o) % n : Nat) : Int) := by
  have h1 : ((i : Int) + (o : Int)) % 18446744073709551616 = ((i + o : Nat) : Int) := by
    rw [two64_eq] at h; omega
  rw [h1, Int.ofNat_tmod]

/-- `WrappableGrid<int,2>::wrapCellIndexes_` = the model's `wrap` on two axes -/
theorem wrap_2_bridge (n0 n1 o0 o1 i0 i1 : Nat) (h0 : i0 + o0 < two64) (h1 : i1 + o1 < two64) :
    let r := Src.C15.WrappableGrid.wrapCellIndexes__2 i0 i1 o0 o1 n0 n1
    [r.1, r.2] = (wrap [n0, n1] [o0, o1] [i0, i1]).map (fun (x : Nat) => (x : Int)) := by
  simp only [Src.C15.WrappableGrid.wrapCellIndexes__2, wrap1 _ _ _ h0, wrap1 _ _ _ h1, wrap, List.map]

/-- `WrappableGrid<int,3>::wrapCellIndexes_` = the model's `wrap` on three axes -/
theorem wrap_3_bridge (n0 n1 n2 o0 o1 o2 i0 i1 i2 : Nat) (h0 : i0 + o0 < two64) (h1 : i1 + o1 < two64) (h2 : i2 + o2 < two64) :
    let r := Src.C15.WrappableGrid.wrapCellIndexes__3 i0 i1 i2 o0 o1 o2 n0 n1 n2
    [r.1, r.2.1, r.2.2] = (wrap [n0, n1, n2] [o0, o1, o2] [i0, i1, i2]).map (fun (x : Nat) => (x : Int)) := by
  simp only [Src.C15.WrappableGrid.wrapCellIndexes__3, wrap1 _ _ _ h0, wrap1 _ _ _ h1, wrap1 _ _ _ h2, wrap, List.map]

/-- `Grid<int,2>::init`: the buffer gets `cellCount` cells (zeros when it was empty: the constructor's case), the index coefficients
    are the model's `coeffs`, the sizes are stored -/
theorem init_2_bridge (buf : List Int) (n0 n1 : Nat) (h : n0 * n1 < two64) :
    let r := Src.C15.Grid.init_2 buf n0 n1
    r.1.length = cellCount [n0, n1] ∧ (buf = [] → r.1 = List.replicate (cellCount [n0, n1]) 0) ∧
    [r.2.1, r.2.2.1] = (coeffs [n0, n1]).map (fun (x : Nat) => (x : Int)) ∧ [r.2.2.2.1, r.2.2.2.2] = [(n0 : Int), (n1 : Int)] := by
  have hp : ((n0 : Int) * (n1 : Int)) % 18446744073709551616 = ((n0 * n1 : Nat) : Int) := by
    rw [two64_eq] at h
    have : ((n0 * n1 : Nat) : Int) = (n0 : Int) * (n1 : Int) := by simp
    omega
  simp only [Src.C15.Grid.init_2, hp, Int.toNat_natCast, cellCount, coeffs, List.map, Nat.mul_one]
  refine ⟨?_, ?_, ?_, ?_⟩
  · simp only [List.length_append, List.length_take, List.length_replicate]; omega
  · intro hb; subst hb; simp
  · simp
  · trivial

/-- `Grid<int,3>::init` -/
theorem init_3_bridge (buf : List Int) (n0 n1 n2 : Nat) (h01 : n0 * n1 < two64) (h : n0 * n1 * n2 < two64) :
    let r := Src.C15.Grid.init_3 buf n0 n1 n2
    r.1.length = cellCount [n0, n1, n2] ∧ (buf = [] → r.1 = List.replicate (cellCount [n0, n1, n2]) 0) ∧
    [r.2.1, r.2.2.1, r.2.2.2.1] = (coeffs [n0, n1, n2]).map (fun (x : Nat) => (x : Int)) ∧
    [r.2.2.2.2.1, r.2.2.2.2.2.1, r.2.2.2.2.2.2] = [(n0 : Int), (n1 : Int), (n2 : Int)] := by
  have hp1 : ((n0 : Int) * (n1 : Int)) % 18446744073709551616 = ((n0 * n1 : Nat) : Int) := by
    rw [two64_eq] at h01
    have : ((n0 * n1 : Nat) : Int) = (n0 : Int) * (n1 : Int) := by simp
    omega
  have hp1' : ((n1 : Int) * (n0 : Int)) % 18446744073709551616 = ((n0 * n1 : Nat) : Int) := by
    rw [Int.mul_comm]; exact hp1
  have hp : (((n0 * n1 : Nat) : Int) * (n2 : Int)) % 18446744073709551616 = ((n0 * n1 * n2 : Nat) : Int) := by
    rw [two64_eq] at h
    have : ((n0 * n1 * n2 : Nat) : Int) = ((n0 * n1 : Nat) : Int) * (n2 : Int) := by simp
    omega
  have hc : n0 * (n1 * n2) = n0 * n1 * n2 := (Nat.mul_assoc _ _ _).symm
  simp only [Src.C15.Grid.init_3, hp1, hp1', hp, Int.toNat_natCast, cellCount, coeffs, List.map, Nat.mul_one, hc]
  refine ⟨?_, ?_, ?_, ?_⟩
  · simp only [List.length_append, List.length_take, List.length_replicate]; omega
  · intro hb; subst hb; simp
  · simp
  · trivial

/-- `WrappableGrid<int,2>::computeCellLinearIndex_` (with the coefficients `Grid::init` stores) = the model's `linIdx` -/
theorem linIdx_2_bridge {T : Type} (buf : List T) (n0 n1 o0 o1 i0 i1 : Nat) (hn0 : 0 < n0) (hn1 : 0 < n1) (h : n0 * n1 < two64)
    (h0 : i0 + o0 < two64) (h1 : i1 + o1 < two64) :
    Src.C15.WrappableGrid.computeCellLinearIndex__2 i0 i1 1 n0 o0 o1 n0 n1
      = (((⟨[n0, n1], [o0, o1], buf⟩ : WGrid T).linIdx [i0, i1] : Nat) : Int) := by
  have ha : (i0 + o0) % n0 < n0 := Nat.mod_lt _ hn0
  have hb : (i1 + o1) % n1 < n1 := Nat.mod_lt _ hn1
  have hb' : (i1 + o1) % n1 * n0 ≤ (n1 - 1) * n0 := Nat.mul_le_mul_right _ (by omega)
  have hs : (n1 - 1) * n0 + n0 = n0 * n1 := by
    rw [Nat.sub_mul, Nat.one_mul, Nat.mul_comm n1 n0]
    have : n0 ≤ n0 * n1 := Nat.le_mul_of_pos_right _ hn1
    omega
  simp only [Src.C15.WrappableGrid.computeCellLinearIndex__2, Src.C15.WrappableGrid.wrapCellIndexes__2, wrap1 _ _ _ h0,
    wrap1 _ _ _ h1, WGrid.linIdx, wrap, coeffs, dot, List.map, Nat.mul_one, Nat.add_zero]
  rw [two64_eq] at h
  generalize (i0 + o0) % n0 = A at *
  generalize (i1 + o1) % n1 = B at *
  have e1 : (B : Int) * (n0 : Int) = ((B * n0 : Nat) : Int) := by simp
  rw [e1]
  generalize B * n0 = C at *
  omega

/-- `WrappableGrid<int,3>::computeCellLinearIndex_` (with the coefficients `Grid::init` stores) = the model's `linIdx` -/
theorem linIdx_3_bridge {T : Type} (buf : List T) (n0 n1 n2 o0 o1 o2 i0 i1 i2 : Nat) (hn0 : 0 < n0) (hn1 : 0 < n1) (hn2 : 0 < n2)
    (h : n0 * n1 * n2 < two64) (h0 : i0 + o0 < two64) (h1 : i1 + o1 < two64) (h2 : i2 + o2 < two64) :
    Src.C15.WrappableGrid.computeCellLinearIndex__3 i0 i1 i2 1 n0 (n0 * n1 : Nat) o0 o1 o2 n0 n1 n2
      = (((⟨[n0, n1, n2], [o0, o1, o2], buf⟩ : WGrid T).linIdx [i0, i1, i2] : Nat) : Int) := by
  have ha : (i0 + o0) % n0 < n0 := Nat.mod_lt _ hn0
  have hb : (i1 + o1) % n1 < n1 := Nat.mod_lt _ hn1
  have hc : (i2 + o2) % n2 < n2 := Nat.mod_lt _ hn2
  have hb' : (i1 + o1) % n1 * n0 ≤ (n1 - 1) * n0 := Nat.mul_le_mul_right _ (by omega)
  have hs : (n1 - 1) * n0 + n0 = n0 * n1 := by
    rw [Nat.sub_mul, Nat.one_mul, Nat.mul_comm n1 n0]
    have : n0 ≤ n0 * n1 := Nat.le_mul_of_pos_right _ hn1
    omega
  have hc' : (i2 + o2) % n2 * (n0 * n1) ≤ (n2 - 1) * (n0 * n1) := Nat.mul_le_mul_right _ (by omega)
  have hs2 : (n2 - 1) * (n0 * n1) + n0 * n1 = n0 * n1 * n2 := by
    rw [Nat.sub_mul, Nat.one_mul, Nat.mul_comm n2 (n0 * n1)]
    have : n0 * n1 ≤ n0 * n1 * n2 := Nat.le_mul_of_pos_right _ hn2
    omega
  simp only [Src.C15.WrappableGrid.computeCellLinearIndex__3, Src.C15.WrappableGrid.wrapCellIndexes__3, wrap1 _ _ _ h0,
    wrap1 _ _ _ h1, wrap1 _ _ _ h2, WGrid.linIdx, wrap, coeffs, dot, List.map, Nat.mul_one, Nat.add_zero]
  rw [two64_eq] at h
  generalize (i0 + o0) % n0 = A at *
  generalize (i1 + o1) % n1 = B at *
  generalize (i2 + o2) % n2 = D at *
  have e1 : (B : Int) * (n0 : Int) = ((B * n0 : Nat) : Int) := by simp
  have e2 : (D : Int) * ((n0 * n1 : Nat) : Int) = ((D * (n0 * n1) : Nat) : Int) := by simp
  rw [e1, e2]
  generalize B * n0 = C at *
  generalize D * (n0 * n1) = E at *
  omega

/-! ### `translate`: the per-axis quantities -/

private theorem cells_cast (n : Nat) (h : n < 2 ^ 63) :
    (((n : Int) + 9223372036854775808) % 18446744073709551616) - 9223372036854775808 = (n : Int) := by omega

private theorem slabs_eq (n : Nat) (d : Int) :
    (if (n : Int) < (if 0 < d then d else -d) then (n : Int) else if 0 < d then d else -d) = numberOfSlabs n d := by
  unfold numberOfSlabs
  simp only [GT.gt, Int.min_def]
  split <;> split <;> omega

private theorem toSizeT_cast (x : Int) : ((toSizeT x : Nat) : Int) = x % 18446744073709551616 := by
  unfold toSizeT
  have : (2 : Int) ^ 64 = 18446744073709551616 := by decide
  rw [this]
  exact Int.toNat_of_nonneg (Int.emod_nonneg _ (by decide))

private theorem firstSlab_cast (n : Nat) (d : Int) :
    (if 0 < d then (0 : Int) else ((n : Int) - numberOfSlabs n d) % 18446744073709551616) = ((firstSlab n d : Nat) : Int) := by
  unfold firstSlab
  simp only [GT.gt]
  split
  · rfl
  · rw [toSizeT_cast]

private theorem lastSlab_cast (n : Nat) (d : Int) :
    (((firstSlab n d : Nat) : Int) + (numberOfSlabs n d % 18446744073709551616)) % 18446744073709551616
      = ((lastSlab n d : Nat) : Int) := by
  unfold lastSlab
  rw [two64_eq]
  have := toSizeT_cast (numberOfSlabs n d)
  omega

private theorem newOffset_cast (n o : Nat) (d : Int) :
    Int.tmod (((o : Int) + (Int.tmod ((Int.tmod d (n : Int)) + (n : Int)) (n : Int)) % 18446744073709551616) % 18446744073709551616) (n : Int)
      = ((newOffset n o d : Nat) : Int) := by
  unfold newOffset wrappedOffset
  have h := toSizeT_cast (((d.tmod (n : Int)) + (n : Int)).tmod (n : Int))
  have e : (((o : Int) + (Int.tmod ((Int.tmod d (n : Int)) + (n : Int)) (n : Int)) % 18446744073709551616) % 18446744073709551616)
      = (((o + toSizeT (((d.tmod (n : Int)) + (n : Int)).tmod (n : Int))) % two64 : Nat) : Int) := by
    rw [two64_eq]; omega
  rw [e, ← Int.ofNat_tmod]

/-- the blanking loop is translated once per place it occurs; the copies for axis 1 are the same function -/
private theorem loop1_eq_loop3 (e f c0 c1 o0 o1 l n0 n1 : Int) (fuel : Nat) (buf : List Int) (x0 x1 : Int) (done : Bool) :
    Src.C15.WrappableGrid.translate_2.loop1 e f c0 c1 o0 o1 l n0 n1 fuel buf x0 x1 done
      = Src.C15.WrappableGrid.translate_2.loop3 e f c0 c1 o0 o1 l n0 n1 fuel buf x0 x1 done := by
  induction fuel generalizing buf x0 x1 done with
  | zero => rfl
  | succ k ih =>
    unfold Src.C15.WrappableGrid.translate_2.loop1 Src.C15.WrappableGrid.translate_2.loop3
    simp only [ih]

/-- one pass of the axis loop written with the MODEL's per-axis quantities: nothing on a zero offset; otherwise the translated
    blanking loop `blank firstSlab lastSlab` (not bridged), then the model's `newOffset` -/
def axisPass (blank : Int → Int → Option (List Int × Int × Int × Bool)) (n o : Nat) (d : Int) (buf : List Int) :
    Option (List Int × Int) :=
  if d = 0 then some (buf, (o : Int))
  else match blank (firstSlab n d : Nat) (lastSlab n d : Nat) with
    | none => none
    | some r => some (r.1, ((newOffset n o d : Nat) : Int))

/-- **`WrappableGrid<int,2>::translate`: the per-axis quantities are the model's.** The translated function is axis 0 then axis 1; each
    axis does nothing on a zero offset and otherwise runs the translated blanking loop from `cellIndexes[axis] = firstSlab` (other
    component 0, `done = false`) with the model's `firstSlab` / `lastSlab`, seeing the offsets accumulated SO FAR, and then stores the
    model's `newOffset` (sizes below 2^63, so that `static_cast<long long>(size_t)` is the identity) -/
theorem translate_2_quantities (fuel : Nat) (buf : List Int) (e c0 c1 d0 d1 : Int) (o0 o1 n0 n1 : Nat)
    (h0 : n0 < 2 ^ 63) (h1 : n1 < 2 ^ 63) :
    Src.C15.WrappableGrid.translate_2 fuel buf e c0 c1 d0 d1 o0 o1 n0 n1
      = match axisPass (fun f l => Src.C15.WrappableGrid.translate_2.loop2 e f c0 c1 o0 o1 l n0 n1 fuel buf f 0 false) n0 o0 d0 buf with
        | none => none
        | some (b1, o0') =>
          match axisPass (fun f l => Src.C15.WrappableGrid.translate_2.loop3 e f c0 c1 o0' o1 l n0 n1 fuel b1 0 f false) n1 o1 d1 b1 with
          | none => none
          | some (b2, o1') => some (b2, o0', o1') := by
  unfold Src.C15.WrappableGrid.translate_2 axisPass
  simp only [cells_cast n0 h0, cells_cast n1 h1, slabs_eq, firstSlab_cast, lastSlab_cast, newOffset_cast, loop1_eq_loop3, Int.natCast_zero]
  by_cases hd0 : d0 = 0
  · by_cases hd1 : d1 = 0
    · simp only [hd0, hd1, if_true]
    · simp only [hd0, hd1, if_true, if_false]
      cases Src.C15.WrappableGrid.translate_2.loop3 e (firstSlab n1 d1 : Nat) c0 c1 o0 o1 (lastSlab n1 d1 : Nat) n0 n1 fuel buf 0
        (firstSlab n1 d1 : Nat) false <;> rfl
  · simp only [hd0, if_false]
    cases Src.C15.WrappableGrid.translate_2.loop2 e (firstSlab n0 d0 : Nat) c0 c1 o0 o1 (lastSlab n0 d0 : Nat) n0 n1 fuel buf
      (firstSlab n0 d0 : Nat) 0 false with
    | none => rfl
    | some r =>
      by_cases hd1 : d1 = 0
      · simp only [hd1, if_true]
      · simp only [hd1, if_false]
        cases Src.C15.WrappableGrid.translate_2.loop3 e (firstSlab n1 d1 : Nat) c0 c1 (newOffset n0 o0 d0 : Nat) o1 (lastSlab n1 d1 : Nat)
          n0 n1 fuel r.1 0 (firstSlab n1 d1 : Nat) false <;> rfl


/-! ### `translate`, DIM = 3: the per-axis quantities

`WrappableGrid<int,3>::translate` is translated the same way: the axis loop unrolled three times, the blanking loop one auxiliary function
per place it occurs — seven copies: `translate_3.loop4` (axis 0), `loop2` / `loop6` (axis 1: after a skipped / a processed axis 0),
`loop1` / `loop3` / `loop5` / `loop7` (axis 2). The copies for one axis are the same function (`loopA_eq_loopB_3`). -/

private theorem loop2_eq_loop6_3 (e f c0 c1 c2 o0 o1 o2 l n0 n1 n2 : Int) (fuel : Nat) (buf : List Int) (x0 x1 x2 : Int) (done : Bool) :
    Src.C15.WrappableGrid.translate_3.loop2 e f c0 c1 c2 o0 o1 o2 l n0 n1 n2 fuel buf x0 x1 x2 done
      = Src.C15.WrappableGrid.translate_3.loop6 e f c0 c1 c2 o0 o1 o2 l n0 n1 n2 fuel buf x0 x1 x2 done := by
  induction fuel generalizing buf x0 x1 x2 done with
  | zero => rfl
  | succ k ih =>
    unfold Src.C15.WrappableGrid.translate_3.loop2 Src.C15.WrappableGrid.translate_3.loop6
    simp only [ih]

private theorem loop1_eq_loop7_3 (e f c0 c1 c2 o0 o1 o2 l n0 n1 n2 : Int) (fuel : Nat) (buf : List Int) (x0 x1 x2 : Int) (done : Bool) :
    Src.C15.WrappableGrid.translate_3.loop1 e f c0 c1 c2 o0 o1 o2 l n0 n1 n2 fuel buf x0 x1 x2 done
      = Src.C15.WrappableGrid.translate_3.loop7 e f c0 c1 c2 o0 o1 o2 l n0 n1 n2 fuel buf x0 x1 x2 done := by
  induction fuel generalizing buf x0 x1 x2 done with
  | zero => rfl
  | succ k ih =>
    unfold Src.C15.WrappableGrid.translate_3.loop1 Src.C15.WrappableGrid.translate_3.loop7
    simp only [ih]

private theorem loop3_eq_loop7_3 (e f c0 c1 c2 o0 o1 o2 l n0 n1 n2 : Int) (fuel : Nat) (buf : List Int) (x0 x1 x2 : Int) (done : Bool) :
    Src.C15.WrappableGrid.translate_3.loop3 e f c0 c1 c2 o0 o1 o2 l n0 n1 n2 fuel buf x0 x1 x2 done
      = Src.C15.WrappableGrid.translate_3.loop7 e f c0 c1 c2 o0 o1 o2 l n0 n1 n2 fuel buf x0 x1 x2 done := by
  induction fuel generalizing buf x0 x1 x2 done with
  | zero => rfl
  | succ k ih =>
    unfold Src.C15.WrappableGrid.translate_3.loop3 Src.C15.WrappableGrid.translate_3.loop7
    simp only [ih]

private theorem loop5_eq_loop7_3 (e f c0 c1 c2 o0 o1 o2 l n0 n1 n2 : Int) (fuel : Nat) (buf : List Int) (x0 x1 x2 : Int) (done : Bool) :
    Src.C15.WrappableGrid.translate_3.loop5 e f c0 c1 c2 o0 o1 o2 l n0 n1 n2 fuel buf x0 x1 x2 done
      = Src.C15.WrappableGrid.translate_3.loop7 e f c0 c1 c2 o0 o1 o2 l n0 n1 n2 fuel buf x0 x1 x2 done := by
  induction fuel generalizing buf x0 x1 x2 done with
  | zero => rfl
  | succ k ih =>
    unfold Src.C15.WrappableGrid.translate_3.loop5 Src.C15.WrappableGrid.translate_3.loop7
    simp only [ih]

/-- one pass of the axis loop of the three-axis instantiation, written with the MODEL's per-axis quantities (cf. `axisPass`) -/
def axisPass3 (blank : Int → Int → Option (List Int × Int × Int × Int × Bool)) (n o : Nat) (d : Int) (buf : List Int) :
    Option (List Int × Int) :=
  if d = 0 then some (buf, (o : Int))
  else match blank (firstSlab n d : Nat) (lastSlab n d : Nat) with
    | none => none
    | some r => some (r.1, ((newOffset n o d : Nat) : Int))

/-- **`WrappableGrid<int,3>::translate`: the per-axis quantities are the model's.** The translated function is axis 0, then axis 1, then
    axis 2; each axis does nothing on a zero offset and otherwise runs the translated blanking loop from `cellIndexes[axis] = firstSlab`
    (other components 0, `done = false`) with the model's `firstSlab` / `lastSlab`, seeing the offsets accumulated SO FAR, and then stores
    the model's `newOffset` (sizes below 2^63, so that `static_cast<long long>(size_t)` is the identity) -/
theorem translate_3_quantities (fuel : Nat) (buf : List Int) (e c0 c1 c2 d0 d1 d2 : Int) (o0 o1 o2 n0 n1 n2 : Nat)
    (h0 : n0 < 2 ^ 63) (h1 : n1 < 2 ^ 63) (h2 : n2 < 2 ^ 63) :
    Src.C15.WrappableGrid.translate_3 fuel buf e c0 c1 c2 d0 d1 d2 o0 o1 o2 n0 n1 n2
      = match axisPass3 (fun f l => Src.C15.WrappableGrid.translate_3.loop4 e f c0 c1 c2 o0 o1 o2 l n0 n1 n2 fuel buf f 0 0 false) n0 o0 d0 buf with
        | none => none
        | some (b1, o0') =>
          match axisPass3 (fun f l => Src.C15.WrappableGrid.translate_3.loop6 e f c0 c1 c2 o0' o1 o2 l n0 n1 n2 fuel b1 0 f 0 false) n1 o1 d1 b1 with
          | none => none
          | some (b2, o1') =>
            match axisPass3 (fun f l => Src.C15.WrappableGrid.translate_3.loop7 e f c0 c1 c2 o0' o1' o2 l n0 n1 n2 fuel b2 0 0 f false) n2 o2 d2 b2 with
            | none => none
            | some (b3, o2') => some (b3, o0', o1', o2') := by
  unfold Src.C15.WrappableGrid.translate_3 axisPass3
  simp only [cells_cast n0 h0, cells_cast n1 h1, cells_cast n2 h2, slabs_eq, firstSlab_cast, lastSlab_cast, newOffset_cast,
    loop2_eq_loop6_3, loop1_eq_loop7_3, loop3_eq_loop7_3, loop5_eq_loop7_3, Int.natCast_zero]
  by_cases hd0 : d0 = 0 <;> by_cases hd1 : d1 = 0 <;> by_cases hd2 : d2 = 0 <;>
    simp only [hd0, hd1, hd2, if_true, if_false] <;>
    repeat (first | rfl | (split <;> simp only [*]))

end Romea.Bridge.C15
