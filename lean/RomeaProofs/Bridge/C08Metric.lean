import RomeaModel.KdTree
import RomeaModel.Generated.SrcC08

/-!
# Bridge C08, metric: `nanoflann::L2_Adaptor::operator()` AS TRANSLATED FROM TODAY'S SOURCE = the model's `sqDistTo` / `sqDist`

`Romea.Src.C08.nanoflann.L2_Adaptor.operator_call` is the translation of `L2_Adaptor<T, DataSource>::operator()(a, b_idx, size,
worst_dist)` (nf:319-344). Encoding (spec option `pointer_arrays`, walking pointers): the query pointer `a` is the pair (array `a`,
offset `a_off`, initially 0); `last` / `lastgroup` are offsets (`Int`s: `lastgroup = size - 3` is negative for `size < 3`);
`a[k]` = `List.getD a (Int.toNat (a_off + k)) 0`, `*a++` = `a[a_off++]`; `data_source.kdtree_get_pt(b_idx, d)` is the function-typed
parameter `kdtree_get_pt`; the `return result;` inside the first loop is a flag + value + `break`; both `while` loops run on fuel.

The query accessor of the model is `q j = a[j]`, its data accessor `P x j = kdtree_get_pt x j`.
* `src_metric_small` (`size ≤ 3`, i.e. the cartesian 2D / 3D and the homogeneous 2D point types): the unrolled loop is not entered,
  the tail loop adds component by component to `result = 0`: the translated value IS `sqDistTo q P b size`, term for term — for every
  scalar type, every `worst_dist`, no algebraic law.
* `src_metric_four` (`size = 4`, the homogeneous 3D point type): one pass of the unrolled loop gives
  `0 + (((d0² + d1²) + d2²) + d3²)` where the model has `(((0 + d0²) + d1²) + d2²) + d3²`; the two agree under the single law
  `0 + x = x` (hypothesis `hz`; true in every ring and — squares being never `-0` — in IEEE arithmetic). The early exit
  `(worst_dist > 0) && (result > worst_dist)` returns the SAME `result` (it sits after the whole group and nothing is left to add), so
  the statement holds for every `worst_dist`.
Sizes above 4 (several groups: re-association of the sum, a real early exit) are not used by the library (`DIM = POINT_SIZE ∈ {2,3,4}`,
NanoFlannAdaptor.hpp:43) and are not covered. Fuel: any `fuel > size`. Core Lean only.
-/
set_option linter.unusedSectionVars false
set_option linter.unusedVariables false

namespace Romea.Bridge.C08
open Romea Romea.KdTree Romea.Src.C08

variable {α : Type} [Add α] [Sub α] [Mul α] [LT α] [DecidableLT α] [NatCast α]

/-- the model's query accessor of a query array -/
def qOf (a : List α) : Nat → α := fun j => List.getD a j ((0 : Nat) : α)

/-- the model's data accessor of the translated point accessor -/
def pOf (kd : Int → Int → α) : Nat → Nat → α := fun x j => kd (x : Int) (j : Int)

/-- the translated metric, arguments by name -/
def srcMetric (fuel : Nat) (a : List α) (b : Nat) (kd : Int → Int → α) (size : Nat) (worstDist : α) : Option α :=
  nanoflann.L2_Adaptor.operator_call (fuel := fuel) (a := a) (b_idx := (b : Int)) (kdtree_get_pt := kd) (size := (size : Int))
    (worst_dist := worstDist)

/-- the tail loop from component `k` on, started on the model's partial sum, ends on the model's sum over `k + m` components -/
theorem loop2_spec (a : List α) (b : Nat) (kd : Int → Int → α) :
    ∀ (m k fuel : Nat), m < fuel →
      nanoflann.L2_Adaptor.operator_call.loop2 a (b : Int) kd ((k + m : Nat) : Int) fuel (k : Int) (k : Int)
          (sqDistTo (qOf a) (pOf kd) b k) =
        some (((k + m : Nat) : Int), ((k + m : Nat) : Int), sqDistTo (qOf a) (pOf kd) b (k + m)) := by
  intro m
  induction m with
  | zero =>
    intro k fuel hf
    obtain ⟨f, rfl⟩ : ∃ f, fuel = f + 1 := ⟨fuel - 1, by omega⟩
    simp only [nanoflann.L2_Adaptor.operator_call.loop2, Nat.add_zero, if_neg (Int.lt_irrefl _)]
  | succ m ih =>
    intro k fuel hf
    obtain ⟨f, rfl⟩ : ∃ f, fuel = f + 1 := ⟨fuel - 1, by omega⟩
    have hlt : (k : Int) < ((k + (m + 1) : Nat) : Int) := by omega
    have hk1 : (k : Int) + 1 = ((k + 1 : Nat) : Int) := by omega
    have hkm : k + (m + 1) = k + 1 + m := by omega
    simp only [nanoflann.L2_Adaptor.operator_call.loop2, if_pos hlt]
    rw [hk1, hkm, Int.toNat_natCast]
    exact ih (k + 1) f (by omega)

/-- the unrolled loop is left at once when fewer than 4 components remain -/
theorem loop1_exit (a : List α) (bi : Int) (kd : Int → Int → α) (lastgroup : Int) (wd : α) (f : Nat) (off d : Int) (r : α)
    (rs : Bool) (rv : α) (h : ¬ off < lastgroup) :
    nanoflann.L2_Adaptor.operator_call.loop1 a bi kd lastgroup wd (f + 1) off d r rs rv = some (off, d, r, rs, rv) := by
  simp only [nanoflann.L2_Adaptor.operator_call.loop1, if_neg h]

/-- **`size ≤ 3`**: the translated metric is the model's `sqDistTo`, term for term -/
theorem src_metric_small (fuel : Nat) (a : List α) (b : Nat) (kd : Int → Int → α) (size : Nat) (worstDist : α)
    (hs : size ≤ 3) (hf : size < fuel) :
    srcMetric fuel a b kd size worstDist = some (sqDistTo (qOf a) (pOf kd) b size) := by
  obtain ⟨f, rfl⟩ : ∃ f, fuel = f + 1 := ⟨fuel - 1, by omega⟩
  have h1 : ¬ ((0 : Int) < 0 + (size : Int) - 3) := by omega
  have hl := loop2_spec a b kd size 0 (f + 1) hf
  simp only [Nat.zero_add] at hl
  have hl' : nanoflann.L2_Adaptor.operator_call.loop2 a (b : Int) kd (size : Int) (f + 1) 0 0 ((0 : Nat) : α) =
      some ((size : Int), (size : Int), sqDistTo (qOf a) (pOf kd) b size) := hl
  unfold srcMetric nanoflann.L2_Adaptor.operator_call
  dsimp only
  rw [loop1_exit _ _ _ _ _ _ _ _ _ _ _ h1]
  dsimp only
  rw [if_neg (by decide), Int.zero_add, hl']

/-- difference of component `j` as the translated code computes it -/
def diffAt (a : List α) (bi : Int) (kd : Int → Int → α) (j : Nat) : α := List.getD a j ((0 : Nat) : α) - kd bi (j : Int)

/-- one group of four as the translated code adds it -/
def group4 (a : List α) (bi : Int) (kd : Int → Int → α) : α :=
  ((diffAt a bi kd 0 * diffAt a bi kd 0 + diffAt a bi kd 1 * diffAt a bi kd 1) + diffAt a bi kd 2 * diffAt a bi kd 2) +
    diffAt a bi kd 3 * diffAt a bi kd 3

/-- `size = 4`: exactly one pass of the unrolled loop; whether or not the early exit fires, the carried `result` is
    `r + group4`, and a set flag carries that same value -/
theorem loop1_once (a : List α) (bi : Int) (kd : Int → Int → α) (wd : α) (f : Nat) (r rv : α) :
    ∃ rs rv', nanoflann.L2_Adaptor.operator_call.loop1 a bi kd (0 + ((4 : Nat) : Int) - 3) wd (f + 2) 0 0 r false rv =
        some (4, 4, r + group4 a bi kd, rs, rv') ∧ (rs = true → rv' = r + group4 a bi kd) := by
  have h01 : (0 : Int) < 0 + ((4 : Nat) : Int) - 3 := by decide
  have h41 : ¬ ((0 : Int) + 4 < 0 + ((4 : Nat) : Int) - 3) := by decide
  rw [nanoflann.L2_Adaptor.operator_call.loop1]
  simp only [if_pos h01]
  split
  · exact ⟨true, _, rfl, fun _ => rfl⟩
  · rw [loop1_exit _ _ _ _ _ _ _ _ _ _ _ h41]
    exact ⟨false, rv, rfl, fun h => absurd h (by decide)⟩

/-- **`size = 4`** (homogeneous 3D points): the translated metric is the model's `sqDistTo … 4` under the law `0 + x = x` -/
theorem src_metric_four (hz : ∀ x : α, ((0 : Nat) : α) + x = x) (fuel : Nat) (a : List α) (b : Nat) (kd : Int → Int → α)
    (worstDist : α) (hf : 4 < fuel) :
    srcMetric fuel a b kd 4 worstDist = some (sqDistTo (qOf a) (pOf kd) b 4) := by
  obtain ⟨f, rfl⟩ : ∃ f, fuel = f + 2 := ⟨fuel - 2, by omega⟩
  obtain ⟨rs, rv', h1, hrv⟩ := loop1_once a (b : Int) kd worstDist f ((0 : Nat) : α) ((0 : Nat) : α)
  have hmodel : sqDistTo (qOf a) (pOf kd) b 4 = ((0 : Nat) : α) + group4 a (b : Int) kd := by
    simp only [sqDistTo, qOf, pOf, group4, diffAt, hz]
  have h44 : ¬ ((4 : Int) < 0 + ((4 : Nat) : Int)) := by decide
  unfold srcMetric nanoflann.L2_Adaptor.operator_call
  dsimp only
  rw [h1]
  dsimp only
  cases rs with
  | true => rw [if_pos rfl, hrv rfl, hmodel]
  | false =>
    rw [if_neg (by decide)]
    have e2 : nanoflann.L2_Adaptor.operator_call.loop2 a (b : Int) kd (0 + ((4 : Nat) : Int)) (f + 2) 4 4
        (((0 : Nat) : α) + group4 a (b : Int) kd) = some (4, 4, ((0 : Nat) : α) + group4 a (b : Int) kd) := by
      simp only [nanoflann.L2_Adaptor.operator_call.loop2, if_neg h44]
    rw [e2, hmodel]

end Romea.Bridge.C08
