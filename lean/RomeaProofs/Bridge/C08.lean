import RomeaModel.KdTree
import RomeaModel.Generated.SrcC08

/-!
# Bridge C08: `nanoflann::KNNResultSet` AS TRANSLATED FROM TODAY'S SOURCE = the model's `ResultSet` (`RomeaModel/KdTree.lean`)

`RomeaModel/Generated/SrcC08.lean` is regenerated on every check run from the vendored
`include/romea_core_common/pointset/kdtree/nanoflann.hpp` (`KNNResultSet<double, size_t, size_t>::init / full / addPoint / worstDist`).
Encoding (spec option `pointer_arrays`): the members `indices` / `dists` — raw pointers into the caller's arrays — are the arrays
themselves, Lean lists owned by the state (`St`); `dists[i]` is `List.getD dists (Int.toNat i) 0`, `dists[i] = x` is `List.set`
(an out-of-range access, undefined behaviour in C++, reads the default / writes nothing); `size_t` is an unbounded `Int` (no wrap:
`i - 1` occurs under `i > 0`, `capacity - 1` under `capacity != 0` resp. the hypothesis `0 < capacity`); the `for` loop with its
data-dependent `break` is a recursive function on fuel (`none` = fuel exhausted: never with `count < fuel`);
`(std::numeric_limits<DistanceType>::max)()` is `Limits.maxVal`.

The abstraction function `abs` reads the state as the model's worst-first list: `(dists[i], indices[i])` for `i = count-1 … 0`
(indices through `Int.toNat`: the model's indices are `Nat`s). Under the representation invariant `Inv` (`0 ≤ count ≤ capacity`, both
arrays have at least `capacity` entries, and while `count < capacity` the slot `dists[capacity-1]` holds the sentinel) the translated
`addPoint` commutes with `abs` and preserves `Inv`, `worstDist` / `full` / `init` are the model's. Generic in the scalar type with
exactly the classes the translated code uses (`LT`, `DecidableLT`, `NatCast`; `Limits` for `init`) — no order axiom is needed.
Core Lean only.
-/
set_option linter.unusedSectionVars false
set_option linter.unusedVariables false

namespace Romea.Bridge.C08
open Romea Romea.KdTree Romea.Src.C08

variable {α : Type} [LT α] [DecidableLT α] [NatCast α]

/-- the object `KNNResultSet` as the translator sees it: its four data members, the two pointers as the arrays they point into -/
structure St (α : Type) where
  capacity : Int
  count : Int
  dists : List α
  indices : List Int

/-- `(dists[i], indices[i])` for `i = n-1, …, 0` (worst first), read exactly as the translated code reads the arrays -/
def itemsOf (D : List α) (I : List Int) : Nat → List (α × Nat)
  | 0 => []
  | n + 1 => (List.getD D n ((0 : Nat) : α), (List.getD I n 0).toNat) :: itemsOf D I n

/-- abstraction function: translated state ↦ the model's `ResultSet` -/
def abs (s : St α) : ResultSet α := ⟨s.capacity.toNat, itemsOf s.dists s.indices s.count.toNat⟩

/-- representation invariant -/
structure Inv (maxVal : α) (s : St α) : Prop where
  count_nonneg : 0 ≤ s.count
  count_le : s.count ≤ s.capacity
  dists_len : s.capacity.toNat ≤ s.dists.length
  indices_len : s.capacity.toNat ≤ s.indices.length
  sentinel : s.count < s.capacity → List.getD s.dists (s.capacity - 1).toNat ((0 : Nat) : α) = maxVal

/-! ## the translated member functions on `St` (only repackaging of arguments / results)

The arguments are passed BY NAME: the translator's parameters are the leaves a function reads, so an edit that makes a function read
another member of the same type (`worstDist` reading `count` instead of `capacity`) changes a parameter's NAME, not the type of the
definition — a positional application would silently feed it the wrong member. -/

/-- `rs.addPoint(dist, index)` -/
def srcAddPoint (fuel : Nat) (s : St α) (dist : α) (index : Int) : Option (St α) :=
  (KNNResultSet.addPoint (fuel := fuel) (capacity := s.capacity) (count := s.count) (dist := dist) (dists := s.dists)
      (index := index) (indices := s.indices)).map
    fun r => { s with count := r.1, dists := r.2.1, indices := r.2.2 }

/-- `rs.worstDist()` -/
def srcWorstDist (s : St α) : α := KNNResultSet.worstDist (capacity := s.capacity) (dists := s.dists)

/-- `rs.full()` -/
def srcFull (s : St α) : Bool := KNNResultSet.full (capacity := s.capacity) (count := s.count)

/-- `rs.size()` -/
def srcSize (s : St α) : Int := KNNResultSet.size (count := s.count)

/-- `KNNResultSet rs(capacity_)`: the translated constructor (null pointers = empty arrays, `count = 0`) -/
def srcNew (capacity_ : Int) : St α :=
  let r : Int × Int × List α × List Int := KNNResultSet.KNNResultSet (capacity_ := capacity_)
  { capacity := r.1, count := r.2.1, dists := r.2.2.1, indices := r.2.2.2 }

/-- `rs.init(indices_, dists_)` on any object -/
def St.init [Limits α] (s : St α) (dists_ : List α) (indices_ : List Int) : St α :=
  let r := KNNResultSet.init (capacity := s.capacity) (dists_ := dists_) (indices_ := indices_)
  { s with count := r.1, dists := r.2.1, indices := r.2.2 }

/-- `KNNResultSet rs(capacity); rs.init(indices_, dists_)`: the translated constructor followed by the translated `init` -/
def srcInit [Limits α] (capacity : Int) (dists_ : List α) (indices_ : List Int) : St α :=
  (srcNew capacity : St α).init dists_ indices_

/-! ## one pass of the translated loop -/

theorem loop1_nonpos (cap : Int) (dist : α) (f : Nat) (D : List α) (I : List Int) (i : Int) (h : ¬ 0 < i) :
    KNNResultSet.addPoint.loop1 cap dist (f + 1) D i I = some (D, i, I) := by
  simp only [KNNResultSet.addPoint.loop1, if_neg h]

theorem loop1_stop (cap : Int) (dist : α) (f : Nat) (D : List α) (I : List Int) (i : Int) (h : 0 < i)
    (hd : ¬ dist < List.getD D (Int.toNat (i - 1)) ((0 : Nat) : α)) :
    KNNResultSet.addPoint.loop1 cap dist (f + 1) D i I = some (D, i, I) := by
  simp only [KNNResultSet.addPoint.loop1, if_pos h, if_neg hd]

theorem loop1_shift (cap : Int) (dist : α) (f : Nat) (D : List α) (I : List Int) (i : Int) (h : 0 < i)
    (hd : dist < List.getD D (Int.toNat (i - 1)) ((0 : Nat) : α)) (hc : i < cap) :
    KNNResultSet.addPoint.loop1 cap dist (f + 1) D i I =
      KNNResultSet.addPoint.loop1 cap dist f
        (List.set D (Int.toNat i) (List.getD D (Int.toNat (i - 1)) ((0 : Nat) : α))) (i - 1)
        (List.set I (Int.toNat i) (List.getD I (Int.toNat (i - 1)) 0)) := by
  simp only [KNNResultSet.addPoint.loop1, if_pos h, if_pos hd, if_pos hc]

theorem loop1_skip (cap : Int) (dist : α) (f : Nat) (D : List α) (I : List Int) (i : Int) (h : 0 < i)
    (hd : dist < List.getD D (Int.toNat (i - 1)) ((0 : Nat) : α)) (hc : ¬ i < cap) :
    KNNResultSet.addPoint.loop1 cap dist (f + 1) D i I = KNNResultSet.addPoint.loop1 cap dist f D (i - 1) I := by
  simp only [KNNResultSet.addPoint.loop1, if_pos h, if_pos hd, if_neg hc]

/-- the guarded store after the loop (nf:124-127) -/
def finStore (cap : Int) (dist : α) (index : Int) (r : List α × Int × List Int) : List α × List Int :=
  if r.2.1 < cap then (List.set r.1 (Int.toNat r.2.1) dist, List.set r.2.2 (Int.toNat r.2.1) index) else (r.1, r.2.2)

theorem addPoint_eq (fuel : Nat) (cap count : Int) (dist : α) (D : List α) (index : Int) (I : List Int) :
    KNNResultSet.addPoint fuel cap count dist D index I =
      (KNNResultSet.addPoint.loop1 cap dist fuel D count I).map fun r =>
        ((if count < cap then count + 1 else count), (finStore cap dist index r).1, (finStore cap dist index r).2) := by
  unfold KNNResultSet.addPoint
  dsimp only
  generalize KNNResultSet.addPoint.loop1 cap dist fuel D count I = o
  cases o with
  | none => rfl
  | some r =>
    simp only [Option.map, finStore]

/-! ## `itemsOf` only looks below `n` -/

theorem itemsOf_congr (D D' : List α) (I I' : List Int) :
    ∀ n : Nat, (∀ p, p < n → List.getD D' p ((0 : Nat) : α) = List.getD D p ((0 : Nat) : α)) →
      (∀ p, p < n → List.getD I' p 0 = List.getD I p 0) → itemsOf D' I' n = itemsOf D I n
  | 0, _, _ => rfl
  | n + 1, hD, hI => by
    simp only [itemsOf]
    rw [hD n (Nat.lt_succ_self n), hI n (Nat.lt_succ_self n),
      itemsOf_congr D D' I I' n (fun p hp => hD p (Nat.lt_succ_of_lt hp)) (fun p hp => hI p (Nat.lt_succ_of_lt hp))]

theorem itemsOf_length (D : List α) (I : List Int) : ∀ n : Nat, (itemsOf D I n).length = n
  | 0 => rfl
  | n + 1 => by simp only [itemsOf, List.length_cons, itemsOf_length D I n]

theorem getD_set_eq' {β : Type} (l : List β) (n : Nat) (x d : β) (h : n < l.length) : List.getD (List.set l n x) n d = x := by
  simp [List.getD, h]

theorem getD_set_ne' {β : Type} (l : List β) (n p : Nat) (x d : β) (h : n ≠ p) : List.getD (List.set l n x) p d = List.getD l p d := by
  simp [List.getD, List.getElem?_set_ne h]

/-! ## the loop followed by the guarded store, below the capacity -/

/-- With `n < capacity` live entries the translated loop (from `i = n`) followed by the guarded store is the model's `insertBack`
    on the worst-first list; nothing above slot `n` is touched, the arrays keep their lengths. -/
theorem loop_spec (c : Nat) (dist : α) (index : Int) :
    ∀ (n fuel : Nat) (D : List α) (I : List Int), n < c → n < fuel → c ≤ D.length → c ≤ I.length →
      ∃ r, KNNResultSet.addPoint.loop1 (c : Int) dist fuel D (n : Int) I = some r ∧
        (finStore (c : Int) dist index r).1.length = D.length ∧ (finStore (c : Int) dist index r).2.length = I.length ∧
        (∀ p, n < p → List.getD (finStore (c : Int) dist index r).1 p ((0 : Nat) : α) = List.getD D p ((0 : Nat) : α)) ∧
        (∀ p, n < p → List.getD (finStore (c : Int) dist index r).2 p 0 = List.getD I p 0) ∧
        itemsOf (finStore (c : Int) dist index r).1 (finStore (c : Int) dist index r).2 (n + 1) =
          insertBack dist index.toNat (itemsOf D I n) := by
  intro n
  induction n with
  | zero =>
    intro fuel D I hc hf hD hI
    obtain ⟨f, rfl⟩ : ∃ f, fuel = f + 1 := ⟨fuel - 1, by omega⟩
    refine ⟨(D, ((0 : Nat) : Int), I), loop1_nonpos _ _ _ _ _ _ (by decide), ?_⟩
    have hc' : ((0 : Nat) : Int) < (c : Int) := by omega
    have hfs : finStore (c : Int) dist index (D, ((0 : Nat) : Int), I) = (List.set D 0 dist, List.set I 0 index) := by
      simp only [finStore, if_pos hc']; rfl
    show _ ∧ _ ∧ _ ∧ _ ∧ itemsOf _ _ 1 = _
    rw [hfs]
    refine ⟨by simp, by simp, fun p hp => getD_set_ne' _ _ _ _ _ (by omega), fun p hp => getD_set_ne' _ _ _ _ _ (by omega), ?_⟩
    simp only [itemsOf, insertBack]
    rw [getD_set_eq' _ _ _ _ (by omega), getD_set_eq' _ _ _ _ (by omega)]
  | succ n ih =>
    intro fuel D I hc hf hD hI
    obtain ⟨f, rfl⟩ : ∃ f, fuel = f + 1 := ⟨fuel - 1, by omega⟩
    have hpos : (0 : Int) < ((n + 1 : Nat) : Int) := by omega
    have hcap : ((n + 1 : Nat) : Int) < (c : Int) := by omega
    have hsub : ((n + 1 : Nat) : Int) - 1 = (n : Int) := by omega
    have htn : Int.toNat (((n + 1 : Nat) : Int) - 1) = n := by omega
    have htn1 : Int.toNat ((n + 1 : Nat) : Int) = n + 1 := by omega
    by_cases hd : dist < List.getD D n ((0 : Nat) : α)
    · -- shift slot n to slot n+1, go on from i = n
      have hstep := loop1_shift (c : Int) dist f D I ((n + 1 : Nat) : Int) hpos (by rw [htn]; exact hd) hcap
      rw [htn, htn1, hsub] at hstep
      obtain ⟨r, hr, hl1, hl2, hg1, hg2, hit⟩ :=
        ih f (List.set D (n + 1) (List.getD D n ((0 : Nat) : α))) (List.set I (n + 1) (List.getD I n 0))
          (by omega) (by omega) (by simpa using hD) (by simpa using hI)
      refine ⟨r, hstep.trans hr, by simpa using hl1, by simpa using hl2, ?_, ?_, ?_⟩
      · intro p hp
        rw [hg1 p (by omega)]
        exact getD_set_ne' _ _ _ _ _ (by omega)
      · intro p hp
        rw [hg2 p (by omega)]
        exact getD_set_ne' _ _ _ _ _ (by omega)
      · have e1 := hg1 (n + 1) (by omega)
        have e2 := hg2 (n + 1) (by omega)
        rw [getD_set_eq' _ _ _ _ (by omega)] at e1 e2
        have hcg := itemsOf_congr D (List.set D (n + 1) (List.getD D n ((0 : Nat) : α))) I (List.set I (n + 1) (List.getD I n 0)) n
          (fun p hp => getD_set_ne' _ _ _ _ _ (by omega)) (fun p hp => getD_set_ne' _ _ _ _ _ (by omega))
        show itemsOf _ _ (n + 1 + 1) = insertBack dist index.toNat (itemsOf D I (n + 1))
        rw [itemsOf, hit, e1, e2, hcg]
        conv => rhs; rw [itemsOf, insertBack]
        have hd' : List.getD D n ((0 : Nat) : α) > dist := hd
        rw [if_pos hd']
    · -- stop at i = n+1: the new entry goes to slot n+1
      have hstop := loop1_stop (c : Int) dist f D I ((n + 1 : Nat) : Int) hpos (by rw [htn]; exact hd)
      refine ⟨_, hstop, ?_⟩
      have hfs : finStore (c : Int) dist index (D, ((n + 1 : Nat) : Int), I) = (List.set D (n + 1) dist, List.set I (n + 1) index) := by
        simp only [finStore, if_pos hcap, htn1]
      rw [hfs]
      refine ⟨by simp, by simp, fun p hp => getD_set_ne' _ _ _ _ _ (by omega), fun p hp => getD_set_ne' _ _ _ _ _ (by omega), ?_⟩
      show itemsOf _ _ (n + 1 + 1) = insertBack dist index.toNat (itemsOf D I (n + 1))
      have hcg := itemsOf_congr D (List.set D (n + 1) dist) I (List.set I (n + 1) index) (n + 1)
        (fun p hp => getD_set_ne' _ _ _ _ _ (by omega)) (fun p hp => getD_set_ne' _ _ _ _ _ (by omega))
      rw [itemsOf, hcg, getD_set_eq' _ _ _ _ (by omega), getD_set_eq' _ _ _ _ (by omega)]
      conv => rhs; rw [itemsOf, insertBack]
      have hd' : ¬ List.getD D n ((0 : Nat) : α) > dist := hd
      rw [if_neg hd', itemsOf]

theorem insertBack_length (dist : α) (index : Nat) : ∀ l : List (α × Nat), (insertBack dist index l).length = l.length + 1
  | [] => rfl
  | (d, i) :: rest => by
    rw [insertBack]
    split
    · simp only [List.length_cons, insertBack_length dist index rest]
    · simp only [List.length_cons]

/-- the full set (`count = capacity = c`): the loop followed by the guarded store is `insertBack` followed by the loss of the entry
    that would move to slot `capacity` (the model's `drop 1`) -/
theorem loop_full (c : Nat) (dist : α) (index : Int) (fuel : Nat) (D : List α) (I : List Int) (hf : c < fuel)
    (hD : c ≤ D.length) (hI : c ≤ I.length) :
    ∃ r, KNNResultSet.addPoint.loop1 (c : Int) dist fuel D (c : Int) I = some r ∧
      (finStore (c : Int) dist index r).1.length = D.length ∧ (finStore (c : Int) dist index r).2.length = I.length ∧
      itemsOf (finStore (c : Int) dist index r).1 (finStore (c : Int) dist index r).2 c =
        (insertBack dist index.toNat (itemsOf D I c)).drop 1 := by
  obtain ⟨f, rfl⟩ : ∃ f, fuel = f + 1 := ⟨fuel - 1, by omega⟩
  cases c with
  | zero =>
    refine ⟨(D, ((0 : Nat) : Int), I), loop1_nonpos _ _ _ _ _ _ (by decide), ?_⟩
    have hfs : finStore ((0 : Nat) : Int) dist index (D, ((0 : Nat) : Int), I) = (D, I) := by
      simp only [finStore, if_neg (Int.lt_irrefl _)]
    rw [hfs]
    exact ⟨rfl, rfl, rfl⟩
  | succ m =>
    have hpos : (0 : Int) < ((m + 1 : Nat) : Int) := by omega
    have hsub : ((m + 1 : Nat) : Int) - 1 = (m : Int) := by omega
    have htn : Int.toNat (((m + 1 : Nat) : Int) - 1) = m := by omega
    by_cases hd : dist < List.getD D m ((0 : Nat) : α)
    · have hstep := loop1_skip ((m + 1 : Nat) : Int) dist f D I ((m + 1 : Nat) : Int) hpos (by rw [htn]; exact hd) (Int.lt_irrefl _)
      rw [hsub] at hstep
      obtain ⟨r, hr, hl1, hl2, _, _, hit⟩ := loop_spec (m + 1) dist index m f D I (by omega) (by omega) hD hI
      refine ⟨r, hstep.trans hr, hl1, hl2, ?_⟩
      rw [hit]
      conv => rhs; rw [itemsOf, insertBack]
      have hd' : List.getD D m ((0 : Nat) : α) > dist := hd
      rw [if_pos hd']
      rfl
    · have hstop := loop1_stop ((m + 1 : Nat) : Int) dist f D I ((m + 1 : Nat) : Int) hpos (by rw [htn]; exact hd)
      refine ⟨_, hstop, ?_⟩
      have hfs : finStore ((m + 1 : Nat) : Int) dist index (D, ((m + 1 : Nat) : Int), I) = (D, I) := by
        simp only [finStore, if_neg (Int.lt_irrefl _)]
      rw [hfs]
      refine ⟨rfl, rfl, ?_⟩
      conv => rhs; rw [itemsOf, insertBack]
      have hd' : ¬ List.getD D m ((0 : Nat) : α) > dist := hd
      rw [if_neg hd']
      rfl

/-! ## the bridge theorems -/

/-- **`addPoint`**: under the representation invariant, with fuel above `count`, the translated `addPoint` terminates (`some`),
    commutes with the abstraction function — `abs (src_addPoint s d i) = (abs s).addPoint d i` —, keeps the capacity and
    preserves the invariant. -/
theorem src_addPoint_eq (M : α) (fuel : Nat) (s : St α) (dist : α) (index : Int) (hinv : Inv M s) (hfuel : s.count.toNat < fuel) :
    ∃ s', srcAddPoint fuel s dist index = some s' ∧ abs s' = (abs s).addPoint dist index.toNat ∧
      s'.capacity = s.capacity ∧ Inv M s' := by
  obtain ⟨cap, cnt, D, I⟩ := s
  obtain ⟨h0, hle, hD, hI, hsen⟩ := hinv
  simp only at h0 hle hD hI hsen hfuel
  obtain ⟨n, rfl⟩ : ∃ n : Nat, cnt = (n : Int) := ⟨cnt.toNat, by omega⟩
  obtain ⟨c, rfl⟩ : ∃ c : Nat, cap = (c : Int) := ⟨cap.toNat, by omega⟩
  have hn : Int.toNat (n : Int) = n := by omega
  have hcn : Int.toNat (c : Int) = c := by omega
  rw [hn] at hfuel
  rw [hcn] at hD hI
  have hnc : n ≤ c := by omega
  unfold srcAddPoint
  simp only [addPoint_eq]
  by_cases hlt : n < c
  · obtain ⟨r, hr, hl1, hl2, hg1, hg2, hit⟩ := loop_spec c dist index n fuel D I hlt hfuel hD hI
    have hlt' : (n : Int) < (c : Int) := by omega
    rw [hr]
    simp only [Option.map, if_pos hlt']
    refine ⟨_, rfl, ?_, rfl, ?_⟩
    · have h1 : Int.toNat ((n : Int) + 1) = n + 1 := by omega
      simp only [abs, ResultSet.addPoint, h1, hn, hcn, hit, insertBack_length, itemsOf_length]
      rw [if_neg (by omega)]
    · refine ⟨by simp only; omega, by simp only; omega, by simp only [hcn]; omega, by simp only [hcn]; omega, ?_⟩
      simp only
      intro h2
      have hp : n < Int.toNat ((c : Int) - 1) := by omega
      rw [hg1 _ hp]
      exact hsen hlt'
  · have hnc' : n = c := by omega
    subst hnc'
    obtain ⟨r, hr, hl1, hl2, hit⟩ := loop_full n dist index fuel D I hfuel hD hI
    rw [hr]
    simp only [Option.map, if_neg (Int.lt_irrefl _)]
    refine ⟨_, rfl, ?_, rfl, ?_⟩
    · simp only [abs, ResultSet.addPoint, hn, hit, insertBack_length, itemsOf_length]
      rw [if_pos (by omega)]
    · refine ⟨by simp only; omega, by simp only; omega, by simp only [hcn]; omega, by simp only [hcn]; omega, ?_⟩
      simp only
      intro h2
      exact absurd h2 (Int.lt_irrefl _)

/-- **`worstDist`** (`0 < capacity`: with capacity 0 the C++ reads `dists[SIZE_MAX]`) -/
theorem src_worstDist_eq (M : α) (s : St α) (hinv : Inv M s) (hcap : 0 < s.capacity) :
    srcWorstDist s = (abs s).worstDist M := by
  obtain ⟨cap, cnt, D, I⟩ := s
  obtain ⟨h0, hle, hD, hI, hsen⟩ := hinv
  simp only at h0 hle hD hI hsen hcap
  unfold srcWorstDist KNNResultSet.worstDist
  simp only [abs, ResultSet.worstDist, itemsOf_length]
  by_cases hfull : cnt.toNat = cap.toNat
  · rw [if_pos hfull]
    obtain ⟨m, hm⟩ : ∃ m, cnt.toNat = m + 1 := ⟨cnt.toNat - 1, by omega⟩
    have hm' : (cap - 1).toNat = m := by omega
    rw [hm, hm']
    rfl
  · rw [if_neg hfull]
    exact hsen (by omega)

/-- **`full`** -/
theorem src_full_eq (M : α) (s : St α) (hinv : Inv M s) :
    srcFull s = decide ((abs s).items.length = (abs s).capacity) := by
  obtain ⟨h0, hle, _, _, _⟩ := hinv
  unfold srcFull KNNResultSet.full
  simp only [abs, itemsOf_length]
  by_cases h : s.count = s.capacity
  · rw [decide_eq_true h, decide_eq_true (by rw [h])]
  · rw [decide_eq_false h, decide_eq_false (by omega)]

/-- **`size`** -/
theorem src_size_eq (M : α) (s : St α) (hinv : Inv M s) : srcSize s = ((abs s).items.length : Nat) := by
  have := hinv.count_nonneg
  unfold srcSize KNNResultSet.size
  simp only [abs, itemsOf_length]
  omega

/-- **`L2_Adaptor::accum_dist`** = the `cut_dist` formula the model's `searchLevel` inlines (`(val - divlow) * (val - divlow)`) -/
theorem src_accum_dist_eq {β : Type} [Sub β] [Mul β] (a b : β) :
    nanoflann.L2_Adaptor.accum_dist (a := a) (b := b) = (a - b) * (a - b) := rfl

/-- **`init`** on caller arrays with at least `capacity` entries: the model's empty set, and the invariant holds with the sentinel
    `numeric_limits<DistanceType>::max()` -/
theorem src_init_eq [Limits α] (capacity : Int) (dists_ : List α) (indices_ : List Int) (h0 : 0 ≤ capacity)
    (hD : capacity.toNat ≤ dists_.length) (hI : capacity.toNat ≤ indices_.length) :
    abs (srcInit capacity dists_ indices_) = ResultSet.init capacity.toNat ∧
      (srcInit capacity dists_ indices_).capacity = capacity ∧
      Inv (Limits.maxVal : α) (srcInit capacity dists_ indices_) := by
  unfold srcInit St.init srcNew KNNResultSet.KNNResultSet KNNResultSet.init
  refine ⟨rfl, rfl, ?_⟩
  by_cases hc : capacity ≠ 0
  · simp only [if_pos hc]
    refine ⟨Int.le_refl 0, h0, by simpa using hD, hI, fun _ => ?_⟩
    exact getD_set_eq' _ _ _ _ (by omega)
  · simp only [if_neg hc]
    refine ⟨Int.le_refl 0, h0, hD, hI, fun h => ?_⟩
    simp only at h
    omega

end Romea.Bridge.C08
