import RomeaProofs.Bridge.C14
import RomeaProofs.Properties.C14

/-!
# Bridge C14, part 2: statements of `Properties/C14.lean` restated about the functions translated from today's source
(`Romea.Src.C14.*`, regenerated from `/repo` on every run).  They hold for EVERY scalar type (in particular `Float`, `Float32`, ℝ), like the
theorems they restate (`history_independent` / `fresh_eq`, `coincident`, the single-step core of `counted_face_adjacent`).
The whole-chain theorems (`length`, `face_adjacent`, `in_bounds`, `ends_at_end`, `history_independent` of a whole `cast`) are restated about
the translated `cast` overloads in `Bridge/C14Cast.lean` / `Bridge/C14CastCor.lean`.
-/
set_option linter.unusedSectionVars false

namespace Romea.Bridge.C14
open Romea Romea.RayCast Romea.C14

section
variable {α : Type} [Add α] [Sub α] [Mul α] [Div α] [LT α] [DecidableLT α]
  [NatCast α] [IntCast α] [OfScientific α] [Trans α] [Trunc α] [Limits α]

/-- `C14.history_independent` / `fresh_eq` about the translated code, `<double, 2>`: the translated `setOriginPoint(o)` followed by the
    translated `setEndPoint(e)` — which by its very signature reads NOTHING of the previous ray (no `rayTMax_`, `rayTDelta_`, `rayStep_`,
    `rayRemainingSteps_`, `rayDirection_`, end point or end indexes among its parameters) — leaves the members of the model's
    `fresh spec2 G o e`, whatever the caster did before -/
theorem src_history_independent_d2 (G : Grid 2 α) (o e : Vec 2 α) (t0 t1 : List α)
    (hT0 : Src.C14.vecGet? t0 ((cellIndexes G o).at 0) = some (centre1 G 0 ((cellIndexes G o).at 0)))
    (hT1 : Src.C14.vecGet? t1 ((cellIndexes G o).at 1) = some (centre1 G 1 ((cellIndexes G o).at 1)))
    (hWo : ∀ i, wrap64 (Trunc.trunc ((o.at i - G.fmin.at i) / G.r)) = Trunc.trunc ((o.at i - G.fmin.at i) / G.r))
    (hWe : ∀ i, wrap64 (Trunc.trunc ((e.at i - G.fmin.at i) / G.r)) = Trunc.trunc ((e.at i - G.fmin.at i) / G.r))
    (hI : ∀ i, toInt32 ((cellIndexes G e).at i) = (cellIndexes G e).at i ∧
      toInt32 ((cellIndexes G o).at i) = (cellIndexes G o).at i) :
    Src.C14.RayCasting.setEndPoint_d2 (e.at 0) (e.at 1) t0 t1 G.r (G.fmin.at 0) (G.fmin.at 1)
        (Src.C14.RayCasting.setOriginPoint_d2 G.r (G.fmin.at 0) (G.fmin.at 1) (o.at 0) (o.at 1)).1
        (Src.C14.RayCasting.setOriginPoint_d2 G.r (G.fmin.at 0) (G.fmin.at 1) (o.at 0) (o.at 1)).2.1
        (Src.C14.RayCasting.setOriginPoint_d2 G.r (G.fmin.at 0) (G.fmin.at 1) (o.at 0) (o.at 1)).2.2.1
        (Src.C14.RayCasting.setOriginPoint_d2 G.r (G.fmin.at 0) (G.fmin.at 1) (o.at 0) (o.at 1)).2.2.2
      = some ((fresh spec2 G o e).dir.at 0, (fresh spec2 G o e).dir.at 1, (fresh spec2 G o e).eIdx.at 0,
          (fresh spec2 G o e).eIdx.at 1, (fresh spec2 G o e).e.at 0, (fresh spec2 G o e).e.at 1,
          (fresh spec2 G o e).rem.at 0, (fresh spec2 G o e).rem.at 1, (fresh spec2 G o e).step.at 0,
          (fresh spec2 G o e).step.at 1, (fresh spec2 G o e).tDelta.at 0, (fresh spec2 G o e).tDelta.at 1,
          (fresh spec2 G o e).tMax.at 0, (fresh spec2 G o e).tMax.at 1) := by
  rw [setOriginPoint_d2_bridge G init o hWo]
  exact setEndPoint_d2_bridge G (setOrigin G init o) e t0 t1 hT0 hT1 hWe hI

/-- `C14.coincident` about the translated `computeRayNumberOfCells`: end cell = origin cell gives a chain of exactly one cell -/
theorem src_coincident_d2 (a b : Int) : Src.C14.RayCasting.computeRayNumberOfCells_d2 a b a b = 1 := by
  simp [Src.C14.RayCasting.computeRayNumberOfCells_d2]

theorem src_coincident_d3 (a b c : Int) : Src.C14.RayCasting.computeRayNumberOfCells_d3 a b c a b c = 1 := by
  simp [Src.C14.RayCasting.computeRayNumberOfCells_d3]

/-- single-step core of `C14.counted_face_adjacent` about the translated `next`, `<double, 2>`: one call moves exactly one index, by
    that axis' `rayStep_`, and leaves the other index alone -/
theorem src_next_face_adjacent_d2 (c0 c1 rem0 rem1 st0 st1 : Int) (tD0 tD1 tM0 tM1 : α) :
    ((Src.C14.RayCasting.next_d2 c0 c1 rem0 rem1 st0 st1 tD0 tD1 tM0 tM1).1 = c0 + st0 ∧
     (Src.C14.RayCasting.next_d2 c0 c1 rem0 rem1 st0 st1 tD0 tD1 tM0 tM1).2.1 = c1) ∨
    ((Src.C14.RayCasting.next_d2 c0 c1 rem0 rem1 st0 st1 tD0 tD1 tM0 tM1).1 = c0 ∧
     (Src.C14.RayCasting.next_d2 c0 c1 rem0 rem1 st0 st1 tD0 tD1 tM0 tM1).2.1 = c1 + st1) := by
  unfold Src.C14.RayCasting.next_d2 Src.C14.RayCasting.step__double_2_c0 Src.C14.RayCasting.step__double_2_c1
  by_cases h : tM0 < tM1
  · left; simp [h]
  · right; simp [h]

/-- … and an axis whose crossings are all done is given the sentinel `max()` (the repaired defect: such an axis is never selected
    again): after a step along axis 0 with exactly one crossing left, `rayTMax_[0]` is `numeric_limits::max()` -/
theorem src_next_exhausted_axis_d2 (c0 c1 rem1 st0 st1 : Int) (tD0 tD1 tM0 tM1 : α) (h : tM0 < tM1) :
    (Src.C14.RayCasting.next_d2 c0 c1 1 rem1 st0 st1 tD0 tD1 tM0 tM1).2.2.1 = 0 ∧
    (Src.C14.RayCasting.next_d2 c0 c1 1 rem1 st0 st1 tD0 tD1 tM0 tM1).2.2.2.2.1 = Limits.maxVal := by
  unfold Src.C14.RayCasting.next_d2 Src.C14.RayCasting.step__double_2_c0 Src.C14.RayCasting.step__double_2_c1
  simp [h]

end
end Romea.Bridge.C14
