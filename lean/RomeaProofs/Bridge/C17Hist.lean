import RomeaProofs.Bridge.C17Cor

/-!
# Bridge C17, part 3: `C17.checkup_agrees` for a whole event history folded through the TRANSLATED `CheckupRate`

`Bridge/C17.lean` identifies the translated `CheckupRate<CheckupEqualTo<double>>` / `<CheckupGreaterThan<double>>` `evaluate` and
`heartBeatCallback` (`Romea.Src.C17.CheckupRate.*`, regenerated from `/repo` on every run) with the model's `CR.stamp` / `CR.heartbeat`
PER EVENT.  Here a C++ `CheckupRate` object is the tuple of its members (`CObj`: the check-up's thresholds, name, the single
diagnostic's message / status, the single info value, and the monitor's members `MObj`), a history of data stamps and heartbeats is
FOLDED through the translated functions (`CObj.run`), `src_checkup_run_eq` (induction on the history, the per-event bridge at every
step) identifies that fold with the model's `CR.run`, and `src_checkup_agrees_eq` / `src_checkup_agrees_gt` transport the headline
theorem `C17.checkup_agrees` (with `C17.rate_exact` for the value of the rate): after EVERY history the stored status / message /
value are consistent with the current rate.

What is hand-read, not translated: the `CheckupRate` CONSTRUCTOR (`CObj.new`: `rateMonitoring_(rate)` = translated default
constructor + translated `initialize`; `checkup_(name + "_rate", rate, epsilon, Diagnostic(ERROR, "no data received from " + name))`
read from `src/diagnostics/CheckupRate.cpp:33-41` and `Checkup.hpp`), and the reading of `report_.diagnostics.front()` /
`report_.info.begin()` as one message / status / value (as in `Bridge/C18.lean`).  `toStringInfoValue` is an uninterpreted parameter
`tsi`.  `src_checkup_run_eq` holds for every scalar type on which `TimeoutCmp` holds; the headline restatements are at ℝ (where
`timeoutCmp_real` proves it; the stored `double`s read as exact reals: no rounding).
-/
set_option linter.unusedSectionVars false

namespace Romea.Bridge.C17
open Romea Romea.Rate Romea.C17

/-- the two instantiations of `CheckupRate` (`CheckupRate.cpp:75-76`) -/
inductive RK | equalTo | greaterThan
  deriving DecidableEq, Repr

def RK.kind : RK → Checkup.Kind
  | .equalTo => .equalTo
  | .greaterThan => .greaterThan

/-- members of a C++ `CheckupRate<CheckupType>` object that the translated functions read or write -/
structure CObj (α : Type) where
  epsilon : α          -- checkup_.epsilon_
  name : String        -- checkup_.report_.info.begin()->first
  target : α           -- checkup_.value_to_compare_with_
  message : String     -- checkup_.report_.diagnostics.front().message
  status : Int         -- checkup_.report_.diagnostics.front().status
  info : String        -- checkup_.report_.info.begin()->second
  mon : MObj α         -- rateMonitoring_

section Hist
variable {α : Type} [Add α] [Sub α] [Mul α] [Div α] [LT α] [DecidableLT α] [NatCast α] [IntCast α] [OfScientific α] [Trunc α]

/-- `CheckupRate(name, rate, epsilon)` (`CheckupRate.cpp:33-41`): the monitor through the translated default constructor +
    `initialize(rate)`; the check-up named `name + "_rate"` with the diagnostic `(ERROR, "no data received from " + name)` and an
    empty value (hand-read constructor) -/
def CObj.new (src : String) (rate eps : α) : CObj α :=
  { epsilon := eps, name := src ++ "_rate", target := rate, message := "no data received from " ++ src, status := 2, info := "",
    mon := MObj.new rate }

/-- the translated `evaluate` of the instantiation `k`, on the members it reads -/
def evalOut (k : RK) (tsi : α → String) (eps : α) (name : String) (target : α) (lastDuration periodsSum : Int) (periods : List Int)
    (rate : α) (windowSize t : Int) : Int × String × Int × String × Int × Int × Int × List Int × α :=
  match k with
  | .equalTo => Src.C17.CheckupRate.evaluate_eq eps name target lastDuration periodsSum periods rate windowSize t tsi
  | .greaterThan => Src.C17.CheckupRate.evaluate_gt eps name target lastDuration periodsSum periods rate windowSize t tsi

/-- the translated `heartBeatCallback` of the instantiation `k`, on the members it reads -/
def hbOut (k : RK) (message : String) (status : Int) (name info : String) (lastDuration : Int) (periods : List Int) (rate : α)
    (t : Int) : Bool × String × Int × String × α :=
  match k with
  | .equalTo => Src.C17.CheckupRate.heartBeatCallback_eq message status name info lastDuration periods rate t
  | .greaterThan => Src.C17.CheckupRate.heartBeatCallback_gt message status name info lastDuration periods rate t

/-- `evaluate(stamp)` as translated: new object and returned status -/
def CObj.evaluate (k : RK) (tsi : α → String) (o : CObj α) (t : Int) : CObj α × Int :=
  let r := evalOut k tsi o.epsilon o.name o.target o.mon.lastDuration o.mon.periodsSum o.mon.periods o.mon.rate o.mon.windowSize t
  ({ o with message := r.2.1, status := r.2.2.1, info := r.2.2.2.1,
            mon := { o.mon with lastDuration := r.2.2.2.2.1, lastPeriod := r.2.2.2.2.2.1, periodsSum := r.2.2.2.2.2.2.1,
                                periods := r.2.2.2.2.2.2.2.1, rate := r.2.2.2.2.2.2.2.2 } }, r.1)

/-- `heartBeatCallback(stamp)` as translated: new object and returned flag -/
def CObj.heartBeat (k : RK) (o : CObj α) (t : Int) : CObj α × Bool :=
  let r := hbOut k o.message o.status o.name o.info o.mon.lastDuration o.mon.periods o.mon.rate t
  ({ o with message := r.2.1, status := r.2.2.1, info := r.2.2.2.1, mon := { o.mon with rate := r.2.2.2.2 } }, r.1)

def CObj.step (k : RK) (tsi : α → String) (o : CObj α) : Ev → CObj α
  | .stamp t => (o.evaluate k tsi t).1
  | .hb t => (o.heartBeat k t).1

/-- a history folded through the translated `evaluate` / `heartBeatCallback` -/
def CObj.run (k : RK) (tsi : α → String) (o : CObj α) (evs : List Ev) : CObj α := evs.foldl (CObj.step k tsi) o

/-- the message the C++ stores for a message class of the model: the constructor's text for `initial`, else name + ending -/
def shownMsg (init name : String) : Checkup.Msg → String
  | .initial => init
  | m => name ++ ending m

/-- the object a model state stands for -/
def CObj.of (tsi : α → String) (init name : String) (c : CR α) (lp : Int) : CObj α :=
  { epsilon := c.chk.e, name := name, target := c.chk.t, message := shownMsg init name c.chk.msg, status := code c.chk.status,
    info := infoString tsi c.chk.info, mon := MObj.of c.mon lp }

private theorem classify_msg_ne_initial (k : Checkup.Kind) (t e v : α) : (Checkup.classify k t e v).2 ≠ .initial := by
  cases k <;> simp only [Checkup.classify] <;> (repeat' split) <;> simp

private theorem shownMsg_evaluate (init name : String) (s : Checkup.State α) (v : α) :
    shownMsg init name (Checkup.evaluate s v).1.msg = name ++ ending (Checkup.evaluate s v).1.msg := by
  have h : (Checkup.evaluate s v).1.msg = (Checkup.classify s.kind s.t s.e v).2 := rfl
  have hne := classify_msg_ne_initial s.kind s.t s.e v
  rw [h]
  generalize (Checkup.classify s.kind s.t s.e v).2 = m at hne
  cases m <;> first | rfl | exact absurd rfl hne

private theorem update_W (m : Mon) (t : Int) : (m.update t).W = m.W := by
  simp only [Mon.update]; split <;> rfl

private theorem stamp_fields (c : CR α) (t : Int) :
    (c.stamp rateVal t).1.mon = c.mon.update t ∧ (c.stamp rateVal t).1.chk.kind = c.chk.kind ∧
    (c.stamp rateVal t).1.chk.t = c.chk.t ∧ (c.stamp rateVal t).1.chk.e = c.chk.e ∧
    (c.stamp rateVal t).1.chk = (Checkup.evaluate c.chk (rateVal (c.mon.update t).W (c.mon.update t).rate)).1 :=
  ⟨rfl, rfl, rfl, rfl, rfl⟩

private theorem heartbeat_fields (c : CR α) (t : Int) :
    (c.heartbeat t).1.chk.kind = c.chk.kind ∧ (c.heartbeat t).1.chk.t = c.chk.t ∧ (c.heartbeat t).1.chk.e = c.chk.e ∧
    (c.heartbeat t).1.mon = (c.mon.timeout t).1 ∧ (c.heartbeat t).2 = !(c.mon.timeout t).2 ∧
    ((c.heartbeat t).2 = true → (c.heartbeat t).1.chk = c.chk) := by
  unfold CR.heartbeat
  by_cases h : (c.mon.timeout t).2 = true
  · simp [h, Checkup.timeout]
  · have h' : (c.mon.timeout t).2 = false := by simpa using h
    simp [h']

private theorem timeout_same (m : Mon) (t : Int) :
    (m.timeout t).1.W = m.W ∧ (m.timeout t).1.last = m.last ∧ (m.timeout t).1.sum = m.sum ∧ (m.timeout t).1.q = m.q := by
  unfold Mon.timeout; split <;> exact ⟨rfl, rfl, rfl, rfl⟩

/-- the kind and the thresholds of the check-up never change -/
theorem step_kind (c : CR α) (e : Ev) : (CR.step rateVal c e).chk.kind = c.chk.kind := by
  cases e with
  | stamp t => exact (stamp_fields c t).2.1
  | hb t => exact (heartbeat_fields c t).1

/-- one event through the translated functions = one step of the model, on represented objects -/
theorem cstep_of (hcmp : TimeoutCmp α) (k : RK) (tsi : α → String) (init name : String) (c : CR α) (hk : c.chk.kind = k.kind)
    (lp : Int) (e : Ev) :
    ∃ lp', (CObj.of tsi init name c lp).step k tsi e = CObj.of tsi init name (CR.step rateVal c e) lp' := by
  cases e with
  | stamp t =>
    refine ⟨t - c.mon.last, ?_⟩
    have hout : evalOut k tsi c.chk.e name c.chk.t c.mon.last c.mon.sum c.mon.q (rateVal c.mon.W c.mon.rate : α) (c.mon.W : Int) t
        = shownStamp tsi name c t := by
      cases k with
      | equalTo => exact checkupRate_evaluate_eq_bridge tsi name c hk t
      | greaterThan => exact checkupRate_evaluate_gt_bridge tsi name c hk t
    obtain ⟨hm, _, ht, he, hchk⟩ := stamp_fields c t
    simp only [CObj.step, CObj.evaluate, CObj.of, MObj.of, hout, shownStamp, CR.step, ht, he, hm, update_W]
    rw [hchk, shownMsg_evaluate]
  | hb t =>
    refine ⟨lp, ?_⟩
    have hout : hbOut k (shownMsg init name c.chk.msg) (code c.chk.status) name (infoString tsi c.chk.info) c.mon.last c.mon.q
          (rateVal c.mon.W c.mon.rate : α) t
          = shownHeartbeat (shownMsg init name c.chk.msg) (code c.chk.status) name (infoString tsi c.chk.info) c t := by
      cases k with
      | equalTo => exact checkupRate_heartbeat_eq_bridge hcmp _ _ _ _ c t
      | greaterThan => exact checkupRate_heartbeat_gt_bridge hcmp _ _ _ _ c t
    obtain ⟨_, ht, he, hm, hflag, hkeep⟩ := heartbeat_fields c t
    obtain ⟨hW, hl, hs, hq⟩ := timeout_same c.mon t
    simp only [CObj.step, CObj.heartBeat, CObj.of, MObj.of, hout, shownHeartbeat, CR.step, ht, he, hm, hW, hl, hs, hq]
    by_cases hf : (c.heartbeat t).2 = true
    · simp only [hf, if_true, hkeep hf]
    · have hto : (c.mon.timeout t).2 = true := by
        rw [hflag] at hf; simpa using hf
      have hchk : (c.heartbeat t).1.chk = Checkup.timeout c.chk := by
        unfold CR.heartbeat; simp [hto]
      simp only [hf, hchk]
      rfl

/-- **a history folded through the translated `evaluate` / `heartBeatCallback` = the model's run** (induction on the history; every
    scalar type on which `TimeoutCmp` holds) -/
theorem src_checkup_run_of (hcmp : TimeoutCmp α) (k : RK) (tsi : α → String) (init name : String) (evs : List Ev) (c : CR α)
    (hk : c.chk.kind = k.kind) (lp : Int) :
    ∃ lp', (CObj.of tsi init name c lp).run k tsi evs = CObj.of tsi init name (CR.run rateVal c evs) lp' := by
  induction evs generalizing c lp with
  | nil => exact ⟨lp, rfl⟩
  | cons e rest ih =>
    obtain ⟨lp1, h1⟩ := cstep_of hcmp k tsi init name c hk lp e
    obtain ⟨lp2, h2⟩ := ih (CR.step rateVal c e) ((step_kind c e).trans hk) lp1
    exact ⟨lp2, by simp only [CObj.run, CR.run, List.foldl_cons] at h2 ⊢; rw [h1]; exact h2⟩

/-- the object built by `CObj.new` (translated monitor constructor + `initialize`), run through the translated functions, is the
    model's `CR.run` from `CR.init` for the window `clamp(trunc(2·rate), 4, 64)` -/
theorem src_checkup_run_eq (hcmp : TimeoutCmp α) (k : RK) (tsi : α → String) (src : String) (rate eps : α) (n : Nat)
    (hn : Trunc.trunc (((2 : Nat) : α) * rate) = (n : Int)) (evs : List Ev) :
    ∃ lp, (CObj.new src rate eps).run k tsi evs
      = CObj.of tsi ("no data received from " ++ src) (src ++ "_rate") (CR.run rateVal (CR.init k.kind rate eps (windowOf n)) evs) lp := by
  have hnew : CObj.new src rate eps
      = CObj.of tsi ("no data received from " ++ src) (src ++ "_rate") (CR.init k.kind rate eps (windowOf n)) 0 := by
    have hm : (MObj.new rate : MObj α) = MObj.of (Mon.init (windowOf n)) 0 := by
      simp only [MObj.new, initialize_bridge rate n hn, ctor_bridge]
      rfl
    simp only [CObj.new, CObj.of, hm]
    rfl
  rw [hnew]
  exact src_checkup_run_of hcmp k tsi _ _ evs _ rfl 0

end Hist

/-! ### the headline theorem `C17.checkup_agrees`, for a history folded through the translated functions, at ℝ -/

/-- the rate the monitor must hold after a history (`C17.rate_exact`), as the real number the stored `double` stands for: 0 until
    `W + 1` stamps have been seen or after a timeout since the last stamp, otherwise `W · 10⁹ / (sₙ − sₙ₋W)` -/
noncomputable def currentRate (W : Nat) (evs : List Ev) : ℝ :=
  match C17.expectedRate W (history evs) with
  | none => 0
  | some span => (W : ℝ) * 1000000000 / (span : ℝ)

private theorem src_checkup_core (k : RK) (tsi : ℝ → String) (src : String) (rate eps : ℝ) (n : Nat)
    (hn : Trunc.trunc (((2 : Nat) : ℝ) * rate) = (n : Int)) (evs : List Ev) :
    ∃ (c : CR ℝ) (lp : Int),
      (CObj.new src rate eps).run k tsi evs = CObj.of tsi ("no data received from " ++ src) (src ++ "_rate") c lp ∧
      c.chk.kind = k.kind ∧ c.chk.t = rate ∧ c.chk.e = eps ∧ Agrees rateVal c ∧ (c.mon.q = [] ↔ stamps evs = []) ∧
      c.mon.W = windowOf n ∧ (rateVal c.mon.W c.mon.rate : ℝ) = currentRate (windowOf n) evs := by
  obtain ⟨lp, ho⟩ := src_checkup_run_eq timeoutCmp_real k tsi src rate eps n hn evs
  have hW : 0 < windowOf n := by have := (window_is_clamp n).2.1; omega
  obtain ⟨h1, h2, h3, h4, h5, h6⟩ := checkup_agrees k.kind rate eps (windowOf n) hW rateVal evs
  obtain ⟨hr, hw⟩ := rate_exact (windowOf n) hW evs
  refine ⟨_, lp, ho, h2, h3, h4, h5, h6, by rw [h1, hw], ?_⟩
  rw [h1, hw, hr]
  unfold currentRate
  cases C17.expectedRate (windowOf n) (history evs) with
  | none => simp [rateVal]
  | some span =>
    simp only [rateVal]
    push_cast
    rw [div_div_eq_mul_div]
    ring

private theorem code_zero_iff (s : Checkup.Status) : code s = 0 ↔ s = .ok := by cases s <;> decide

/-- **`C17.checkup_agrees` about the translated `CheckupRate<CheckupEqualTo<double>>`, at ℝ.**  For EVERY history of data stamps and
    heartbeats folded through the translated `evaluate` / `heartBeatCallback`, starting from the constructed object, the members
    hold: the thresholds, name and window as constructed; the rate of `C17.rate_exact`; and a report whose status / message /
    value agree with each other and with that rate — ERROR / "no data received from <name>" / empty value before the first data
    stamp; STALE / "<name>_rate timeout." / empty value with the rate forced to 0 after a timed-out heartbeat until the next
    stamp; otherwise the threshold classification of the CURRENT rate (OK ⇔ |rate − expected| ≤ ε, with the three messages) and
    the printed current rate as value -/
theorem src_checkup_agrees_eq (tsi : ℝ → String) (src : String) (rate eps : ℝ) (n : Nat)
    (hn : Trunc.trunc (((2 : Nat) : ℝ) * rate) = (n : Int)) (evs : List Ev) :
    let W := windowOf n
    let o := (CObj.new src rate eps).run .equalTo tsi evs
    let cur := currentRate W evs
    o.epsilon = eps ∧ o.target = rate ∧ o.name = src ++ "_rate" ∧ o.mon.windowSize = (W : Int) ∧ o.mon.rate = cur ∧
    (o.mon.periods = [] ↔ stamps evs = []) ∧
    ((stamps evs = [] ∧ o.status = 2 ∧ o.message = "no data received from " ++ src ∧ o.info = "") ∨
     (o.status = 3 ∧ o.message = src ++ "_rate" ++ " timeout." ∧ o.info = "" ∧ cur = 0) ∨
     ((o.status = 0 ↔ |cur - rate| ≤ eps) ∧
      (o.status, o.message) =
        (if cur < rate - eps then (2, src ++ "_rate" ++ " is too low.")
         else if rate + eps < cur then (2, src ++ "_rate" ++ " is too high.")
         else (0, src ++ "_rate" ++ " is OK.")) ∧
      o.info = tsi cur)) := by
  intro W o cur
  obtain ⟨c, lp, ho, hk, ht, he, hag, hq, hW, hcur⟩ := src_checkup_core .equalTo tsi src rate eps n hn evs
  have ho' : o = CObj.of tsi ("no data received from " ++ src) (src ++ "_rate") c lp := ho
  have hk' : c.chk.kind = .equalTo := hk
  refine ⟨by rw [ho']; exact he, by rw [ho']; exact ht, by rw [ho']; rfl, by rw [ho']; show ((c.mon.W : Nat) : Int) = _; rw [hW], by rw [ho']; exact hcur,
    by rw [ho']; exact hq, ?_⟩
  rcases hag with ⟨h1, h2, h3, h4⟩ | ⟨h2, h3, h4, h5⟩ | ⟨hcl, hinfo⟩
  · left
    refine ⟨hq.mp h1, ?_, ?_, ?_⟩ <;> rw [ho'] <;> simp only [CObj.of, h2, h3, h4] <;> rfl
  · right; left
    refine ⟨?_, ?_, ?_, ?_⟩
    · rw [ho']; simp only [CObj.of, h2]; rfl
    · rw [ho']; simp only [CObj.of, h3]; rfl
    · rw [ho']; simp only [CObj.of, h4]; rfl
    · show currentRate W evs = 0
      rw [← hcur, h5]; simp [rateVal]
  · right; right
    rw [hcur, hk', ht, he] at hcl
    rw [hcur] at hinfo
    have hst : o.status = code (Checkup.classify .equalTo rate eps cur).1 := by
      rw [ho']; simp only [CObj.of]; rw [show c.chk.status = (c.chk.status, c.chk.msg).1 from rfl, hcl]
    have hmsg : o.message = shownMsg ("no data received from " ++ src) (src ++ "_rate") (Checkup.classify .equalTo rate eps cur).2 := by
      rw [ho']; simp only [CObj.of]; rw [show c.chk.msg = (c.chk.status, c.chk.msg).2 from rfl, hcl]
    refine ⟨?_, ?_, ?_⟩
    · rw [hst, code_zero_iff]; exact C18.equal_to_ok_iff rate eps cur
    · rw [hst, hmsg]
      simp only [Checkup.classify, GT.gt]
      by_cases c1 : cur < rate - eps
      · simp only [c1, if_true]; rfl
      · by_cases c2 : rate + eps < cur
        · simp only [c1, c2, if_true, if_false]; rfl
        · simp only [c1, c2, if_false]; rfl
    · rw [ho']; simp only [CObj.of, hinfo]; rfl

/-- **`C17.checkup_agrees` about the translated `CheckupRate<CheckupGreaterThan<double>>`, at ℝ**: as `src_checkup_agrees_eq`, with
    OK ⇔ current rate > expected − ε and the two messages of the greater-than check-up -/
theorem src_checkup_agrees_gt (tsi : ℝ → String) (src : String) (rate eps : ℝ) (n : Nat)
    (hn : Trunc.trunc (((2 : Nat) : ℝ) * rate) = (n : Int)) (evs : List Ev) :
    let W := windowOf n
    let o := (CObj.new src rate eps).run .greaterThan tsi evs
    let cur := currentRate W evs
    o.epsilon = eps ∧ o.target = rate ∧ o.name = src ++ "_rate" ∧ o.mon.windowSize = (W : Int) ∧ o.mon.rate = cur ∧
    (o.mon.periods = [] ↔ stamps evs = []) ∧
    ((stamps evs = [] ∧ o.status = 2 ∧ o.message = "no data received from " ++ src ∧ o.info = "") ∨
     (o.status = 3 ∧ o.message = src ++ "_rate" ++ " timeout." ∧ o.info = "" ∧ cur = 0) ∨
     ((o.status = 0 ↔ cur > rate - eps) ∧
      (o.status, o.message) =
        (if rate - eps < cur then (0, src ++ "_rate" ++ " is OK.") else (2, src ++ "_rate" ++ " is too low.")) ∧
      o.info = tsi cur)) := by
  intro W o cur
  obtain ⟨c, lp, ho, hk, ht, he, hag, hq, hW, hcur⟩ := src_checkup_core .greaterThan tsi src rate eps n hn evs
  have ho' : o = CObj.of tsi ("no data received from " ++ src) (src ++ "_rate") c lp := ho
  have hk' : c.chk.kind = .greaterThan := hk
  refine ⟨by rw [ho']; exact he, by rw [ho']; exact ht, by rw [ho']; rfl, by rw [ho']; show ((c.mon.W : Nat) : Int) = _; rw [hW], by rw [ho']; exact hcur,
    by rw [ho']; exact hq, ?_⟩
  rcases hag with ⟨h1, h2, h3, h4⟩ | ⟨h2, h3, h4, h5⟩ | ⟨hcl, hinfo⟩
  · left
    refine ⟨hq.mp h1, ?_, ?_, ?_⟩ <;> rw [ho'] <;> simp only [CObj.of, h2, h3, h4] <;> rfl
  · right; left
    refine ⟨?_, ?_, ?_, ?_⟩
    · rw [ho']; simp only [CObj.of, h2]; rfl
    · rw [ho']; simp only [CObj.of, h3]; rfl
    · rw [ho']; simp only [CObj.of, h4]; rfl
    · show currentRate W evs = 0
      rw [← hcur, h5]; simp [rateVal]
  · right; right
    rw [hcur, hk', ht, he] at hcl
    rw [hcur] at hinfo
    have hst : o.status = code (Checkup.classify .greaterThan rate eps cur).1 := by
      rw [ho']; simp only [CObj.of]; rw [show c.chk.status = (c.chk.status, c.chk.msg).1 from rfl, hcl]
    have hmsg : o.message
        = shownMsg ("no data received from " ++ src) (src ++ "_rate") (Checkup.classify .greaterThan rate eps cur).2 := by
      rw [ho']; simp only [CObj.of]; rw [show c.chk.msg = (c.chk.status, c.chk.msg).2 from rfl, hcl]
    refine ⟨?_, ?_, ?_⟩
    · rw [hst, code_zero_iff]; exact C18.greater_than_ok_iff rate eps cur
    · rw [hst, hmsg]
      simp only [Checkup.classify, GT.gt]
      by_cases c1 : rate - eps < cur
      · simp only [c1, if_true]; rfl
      · simp only [c1, if_false]; rfl
    · rw [ho']; simp only [CObj.of, hinfo]; rfl

/-! ### Non-vacuity -/

/-- the hypothesis on the truncation is met: `size_t(2 * 2.0) = 4`, window `clamp(4, 4, 64) = 4` -/
private theorem trunc_two : Trunc.trunc (((2 : Nat) : ℝ) * 2) = ((4 : Nat) : Int) := by
  rw [trunc_real, if_pos (by norm_num)]
  have : (((2 : Nat) : ℝ) * 2) = ((4 : Int) : ℝ) := by norm_num
  rw [this, Int.floor_intCast]; rfl

example : windowOf 4 = 4 := by decide

/-- five data stamps 0.5 s apart with a (non-firing) heartbeat in between: the current rate is `4 · 10⁹ / (2.5·10⁹ − 0.5·10⁹) = 2` -/
private def demoEvs : List Ev :=
  [.stamp 500000000, .stamp 1000000000, .hb 1200000000, .stamp 1500000000, .stamp 2000000000, .stamp 2500000000]

private theorem demo_rate : currentRate 4 demoEvs = 2 := by
  have h : C17.expectedRate 4 (history demoEvs) = some 2000000000 := by decide
  unfold currentRate
  rw [h]
  norm_num

/-- **a concrete output derived from the theorem alone**: after that history the translated equal-to rate check-up (expected
    2 Hz ± 0.1) stores OK / "gps_rate is OK." / the printed rate 2, and the monitor's `rate_` is 2 -/
example (tsi : ℝ → String) :
    let o := (CObj.new "gps" (2 : ℝ) (1 / 10)).run .equalTo tsi demoEvs
    o.mon.rate = 2 ∧ o.status = 0 ∧ o.message = "gps_rate is OK." ∧ o.info = tsi 2 := by
  intro o
  obtain ⟨_, _, _, _, hr, _, hrep⟩ := src_checkup_agrees_eq tsi "gps" 2 (1 / 10) 4 trunc_two demoEvs
  have hw : windowOf 4 = 4 := by decide
  rw [hw, demo_rate] at hr hrep
  refine ⟨hr, ?_⟩
  rcases hrep with ⟨h, _⟩ | ⟨_, _, _, h⟩ | ⟨_, h2, h3⟩
  · exact absurd h (by decide)
  · norm_num at h
  · have c1 : ¬ ((2 : ℝ) < 2 - 1 / 10) := by norm_num
    have c2 : ¬ ((2 : ℝ) + 1 / 10 < 2) := by norm_num
    rw [if_neg c1, if_neg c2] at h2
    have h2' := Prod.mk.inj h2
    exact ⟨h2'.1, h2'.2, h3⟩

/-- the same history through the translated greater-than check-up with expected rate 2 and ε = 0.1: OK as well -/
example (tsi : ℝ → String) :
    let o := (CObj.new "gps" (2 : ℝ) (1 / 10)).run .greaterThan tsi demoEvs
    o.status = 0 ∧ o.message = "gps_rate is OK." ∧ o.info = tsi 2 := by
  intro o
  obtain ⟨_, _, _, _, _, _, hrep⟩ := src_checkup_agrees_gt tsi "gps" 2 (1 / 10) 4 trunc_two demoEvs
  have hw : windowOf 4 = 4 := by decide
  rw [hw, demo_rate] at hrep
  rcases hrep with ⟨h, _⟩ | ⟨_, _, _, h⟩ | ⟨_, h2, h3⟩
  · exact absurd h (by decide)
  · norm_num at h
  · have c1 : (2 : ℝ) - 1 / 10 < 2 := by norm_num
    rw [if_pos c1] at h2
    have h2' := Prod.mk.inj h2
    exact ⟨h2'.1, h2'.2, h3⟩

/-- before any data stamp (heartbeats only) the first alternative is the one that holds: no stamps, and nothing can time out -/
example : stamps [Ev.hb 100, Ev.hb 900000000] = [] := by decide

/-- a history on which the timeout alternative occurs in the model (stamp, then a heartbeat 0.6 s later): the rate is forced to 0 -/
example : currentRate 4 [.stamp 500000000, .hb 1100000000] = 0 := by
  have h : C17.expectedRate 4 (history [.stamp 500000000, .hb 1100000000]) = none := by decide
  unfold currentRate; rw [h]

end Romea.Bridge.C17
