import RomeaProofs.Bridge.C16
import RomeaProofs.Properties.C16
import RomeaProofs.RealInst

/-!
# Bridge C16, part 2: headline theorems of `Properties/C16.lean` restated about the functions translated from today's source

A C++ `OnlineVariance` object is the tuple of its members (`Obj`); a history is run through the TRANSLATED constructor / `update` /
`reset` (`Romea.Src.C16.*`, regenerated from `/repo` on every run), never through the hand-written model. `src_run_eq` (induction on
the history) says that this run is the model's run on the truncated samples with the driver's floating-point glue; the headline
theorems follow: `src_window_exact` and `src_no_overflow` for EVERY scalar type (in particular `Float`, the executable one),
`src_average_exact` / `src_variance_exact` at `ℝ` (the stored `double`s read as exact reals: no rounding), `src_ring_spec` for the ring.
-/
namespace Romea.Bridge.C16
open Romea Romea.Window Romea.C16

/-! ### running a history through the translated `OnlineVariance` -/
section Run
variable {α : Type} [Sub α] [Mul α] [Div α] [NatCast α] [IntCast α] [Trunc α]

/-- members of a C++ `OnlineVariance` object (base-class members included) -/
structure Obj (α : Type) where
  average : α
  data : List Int
  index : Int
  multiplier : Int
  squaredData : List Int
  squaredMultiplier : Int
  sumOfData : Int
  sumOfSquaredData : Int
  variance : α
  windowSizeMinusOne : Int
  windowSize : Int

/-- an operation on the object: `update(v)` or `reset()` -/
inductive SOp (α : Type) | upd (v : α) | reset

/-- `OnlineVariance(p, W)` as translated -/
def Obj.new (p : α) (W : Nat) : Obj α :=
  let r := Src.C16.OnlineVariance.OnlineVariance p (W : Int)
  { average := r.1, data := r.2.1, index := r.2.2.1, multiplier := r.2.2.2.1, squaredData := r.2.2.2.2.1,
    squaredMultiplier := r.2.2.2.2.2.1, sumOfData := r.2.2.2.2.2.2.1, sumOfSquaredData := r.2.2.2.2.2.2.2.1,
    variance := r.2.2.2.2.2.2.2.2.1, windowSizeMinusOne := r.2.2.2.2.2.2.2.2.2.1, windowSize := r.2.2.2.2.2.2.2.2.2.2 }

/-- `update(v)` / `reset()` as translated, writing the members the translated function returns -/
def Obj.step (o : Obj α) : SOp α → Obj α
  | .upd v =>
    let r := Src.C16.OnlineVariance.update o.data o.index o.multiplier o.squaredData o.squaredMultiplier o.sumOfData
      o.sumOfSquaredData v o.windowSizeMinusOne o.windowSize
    { o with average := r.1, data := r.2.1, index := r.2.2.1, squaredData := r.2.2.2.1, sumOfData := r.2.2.2.2.1,
             sumOfSquaredData := r.2.2.2.2.2.1, variance := r.2.2.2.2.2.2 }
  | .reset =>
    let r : α × List Int × Int × List Int × Int × Int × α := Src.C16.OnlineVariance.reset
    { o with average := r.1, data := r.2.1, index := r.2.2.1, squaredData := r.2.2.2.1, sumOfData := r.2.2.2.2.1,
             sumOfSquaredData := r.2.2.2.2.2.1, variance := r.2.2.2.2.2.2 }

def Obj.run (o : Obj α) (ops : List (SOp α)) : Obj α := ops.foldl Obj.step o

/-- the object a model state + stored average / variance stands for -/
def Obj.of (s : Stat) (avg var : α) : Obj α :=
  { average := avg, data := s.data, index := (s.idx : Int), multiplier := s.m, squaredData := s.sq, squaredMultiplier := s.m2,
    sumOfData := s.sum, sumOfSquaredData := s.sumsq, variance := var, windowSizeMinusOne := ((s.W - 1 : Nat) : Int),
    windowSize := (s.W : Int) }

/-- the model's step with the driver's glue: truncate, update, recompute average and variance -/
def glueStep (x : Stat × α × α) : SOp α → Stat × α × α
  | .upd v => let s' := x.1.update (quantise x.1.m v); (s', averageOf s', varianceOf s')
  | .reset => (x.1.reset, nan, nan)

/-- the truncated sample an `update(v)` feeds to the integer state -/
def quantOp (m : Int) : SOp α → Op
  | .upd v => .upd (quantise m v)
  | .reset => .reset

private theorem update_const (s : Stat) (q : Int) : (s.update q).W = s.W ∧ (s.update q).m = s.m := by
  unfold Stat.update; split <;> exact ⟨rfl, rfl⟩

private theorem update_idx (s : Stat) (q : Int) (hW : 0 < s.W) : (s.update q).idx < (s.update q).W := by
  rw [(update_const s q).1]
  have : (s.update q).idx = (s.idx + 1) % s.W := by unfold Stat.update; split <;> rfl
  rw [this]; exact Nat.mod_lt _ hW

private theorem step_of (s : Stat) (a b : α) (op : SOp α) (hidx : s.idx + 1 < two64) :
    (Obj.of s a b).step op = Obj.of (glueStep (s, a, b) op).1 (glueStep (s, a, b) op).2.1 (glueStep (s, a, b) op).2.2 := by
  cases op with
  | upd v =>
    have h := variance_update_bridge s v hidx
    have hc := update_const s (quantise s.m v)
    have hm2 : (s.update (quantise s.m v)).m2 = s.m2 := by unfold Stat.update; split <;> rfl
    simp only [Obj.step, Obj.of, glueStep, h, hc.1, hc.2, hm2]
  | reset =>
    have h := variance_reset_bridge (α := α) s
    simp only [Obj.step, Obj.of, glueStep, h]
    rfl

/-- **the run through the translated functions = the model's run with the glue** (induction on the history) -/
theorem src_run_glue (ops : List (SOp α)) (s : Stat) (a b : α) (hW : 0 < s.W) (h64 : s.W < two64) (hidx : s.idx < s.W) :
    (Obj.of s a b).run ops = Obj.of (ops.foldl glueStep (s, a, b)).1 (ops.foldl glueStep (s, a, b)).2.1
      (ops.foldl glueStep (s, a, b)).2.2 := by
  induction ops generalizing s a b with
  | nil => rfl
  | cons op rest ih =>
    simp only [Obj.run, List.foldl_cons]
    rw [step_of s a b op (by omega)]
    cases op with
    | upd v =>
      have hc := update_const s (quantise s.m v)
      exact ih _ _ _ (by simp only [glueStep]; rw [hc.1]; exact hW) (by simp only [glueStep]; rw [hc.1]; exact h64)
        (by simp only [glueStep]; exact update_idx s _ hW)
    | reset => exact ih _ _ _ hW h64 hW

/-- the integer state of the glued run is the model's `Stat.run` on the truncated samples -/
theorem glue_fst (ops : List (SOp α)) (s : Stat) (a b : α) :
    (ops.foldl glueStep (s, a, b)).1 = s.run (ops.map (quantOp s.m)) := by
  induction ops generalizing s a b with
  | nil => rfl
  | cons op rest ih =>
    simp only [List.foldl_cons, List.map_cons, Stat.run]
    cases op with
    | upd v =>
      have hc := update_const s (quantise s.m v)
      have := ih (s.update (quantise s.m v)) (averageOf (s.update (quantise s.m v))) (varianceOf (s.update (quantise s.m v)))
      simp only [Stat.run, hc.2] at this
      exact this
    | reset => exact ih s.reset nan nan

/-- the object built by the translated constructor, run through the translated `update` / `reset`, is the model's state on the
    truncated samples (`1 ≤ W < 2^64`) -/
theorem src_run_eq (p : α) (W : Nat) (h0 : 0 < W) (h64 : W < two64) (ops : List (SOp α)) :
    let m := multiplierOf p
    let x := ops.foldl glueStep (Stat.init W m, (nan : α), (nan : α))
    (Obj.new p W).run ops = Obj.of ((Stat.init W m).run (ops.map (quantOp m))) x.2.1 x.2.2 := by
  intro m x
  have hnew : Obj.new p W = Obj.of (Stat.init W m) (nan : α) (nan : α) := by
    simp only [Obj.new, variance_ctor_bridge p W h0 h64]; rfl
  rw [hnew, src_run_glue ops (Stat.init W m) nan nan h0 h64 h0, glue_fst]
  rfl

/-- **`C16.window_exact` about the translated functions**, for every scalar type: after ANY history the stored `data_` is the last
    `min(n, W)` truncated samples since the last reset (as a rotation by `index_`), the sums are exact, and the translated
    `isAvailable` answers `true` exactly when `W` samples have arrived -/
theorem src_window_exact (p : α) (W : Nat) (h0 : 0 < W) (h64 : W < two64) (ops : List (SOp α)) :
    let m := multiplierOf p
    let qops := ops.map (quantOp m)
    let o := (Obj.new p W).run ops
    o.data.rotate o.index.toNat = lastW W qops ∧ o.data.Perm (lastW W qops) ∧
    o.sumOfData = (lastW W qops).sum ∧ o.sumOfSquaredData = ((lastW W qops).map (fun q => q * q)).sum ∧
    (Src.C16.OnlineAverage.isAvailable o.data o.windowSize = true ↔ W ≤ (sinceReset qops).length) := by
  intro m qops o
  have ho := src_run_eq p W h0 h64 ops
  obtain ⟨h1, h2, _, h4, h5, h6, h7, _, _⟩ := window_exact W m h0 qops
  have hd : o.data = ((Stat.init W m).run qops).data := by rw [show o = _ from ho]; rfl
  have hi : o.index = (((Stat.init W m).run qops).idx : Int) := by rw [show o = _ from ho]; rfl
  have hs : o.sumOfData = ((Stat.init W m).run qops).sum := by rw [show o = _ from ho]; rfl
  have hq : o.sumOfSquaredData = ((Stat.init W m).run qops).sumsq := by rw [show o = _ from ho]; rfl
  have hw : o.windowSize = (((Stat.init W m).run qops).W : Int) := by rw [show o = _ from ho]; rfl
  refine ⟨by rw [hd, hi, Int.toNat_natCast]; exact h1, by rw [hd]; exact h2, by rw [hs]; exact h4, by rw [hq]; exact h5, ?_⟩
  rw [hd, hw, isAvailable_bridge]
  exact h6

/-- **`C16.no_overflow` about the translated functions**: with `W ≤ 64`, `|multiplier| ≤ 10^6` and truncated samples `|q| ≤ 10^8`,
    every `long long` the object stores fits 64 bits and the multiplier fits an `int` (so the unbounded integers of the translation
    are the machine integers) -/
theorem src_no_overflow (p : α) (W : Nat) (h0 : 0 < W) (hW64 : W ≤ 64) (hm : |multiplierOf p| ≤ 10 ^ 6) (ops : List (SOp α))
    (hq : ∀ v, SOp.upd v ∈ ops → |quantise (multiplierOf p) v| ≤ 10 ^ 8) :
    let o := (Obj.new p W).run ops
    Fits64 o.sumOfData ∧ Fits64 o.sumOfSquaredData ∧ Fits64 (o.sumOfData + 10 ^ 8) ∧ Fits64 (o.sumOfData - 10 ^ 8) ∧
    Fits64 (o.sumOfSquaredData + 10 ^ 16) ∧ Fits64 o.squaredMultiplier ∧ Fits32 o.multiplier := by
  intro o
  have ho := src_run_eq p W h0 (by simp only [two64]; omega) ops
  have := no_overflow W (multiplierOf p) h0 hW64 hm (ops.map (quantOp (multiplierOf p))) (by
    intro op hop q hopq
    obtain ⟨sop, hs, rfl⟩ := List.mem_map.mp hop
    cases sop with
    | upd v =>
      simp only [quantOp, Op.upd.injEq] at hopq
      rw [← hopq]; exact hq v hs
    | reset => simp [quantOp] at hopq)
  rw [show o = _ from ho]
  exact this

end Run

/-! ### the stored average / variance at ℝ -/

private theorem last_glue {α : Type} [Sub α] [Mul α] [Div α] [NatCast α] [IntCast α] [Trunc α]
    (ops : List (SOp α)) (v : α) (x : Stat × α × α) :
    let y := (ops ++ [SOp.upd v]).foldl glueStep x
    y.2.1 = averageOf y.1 ∧ y.2.2 = varianceOf y.1 := by
  simp [List.foldl_append, glueStep]

/-- **`C16.average_exact` about the translated functions, at ℝ**: after any history ending in an `update`, the stored `average_` is
    the exact mean of the last `min(n, W)` truncated samples `q / multiplier` -/
theorem src_average_exact (p : ℝ) (W : Nat) (h0 : 0 < W) (h64 : W < two64) (hm : multiplierOf p ≠ 0) (ops : List (SOp ℝ)) (v : ℝ) :
    let m := multiplierOf p
    let qops := (ops ++ [SOp.upd v]).map (quantOp m)
    ((Obj.new p W).run (ops ++ [SOp.upd v])).average = ((mean (descale m (lastW W qops)) : ℚ) : ℝ) := by
  intro m qops
  have ho := src_run_eq p W h0 h64 (ops ++ [SOp.upd v])
  have hl := last_glue ops v (Stat.init W m, (nan : ℝ), (nan : ℝ))
  have hf := glue_fst (ops ++ [SOp.upd v]) (Stat.init W m) (nan : ℝ) (nan : ℝ)
  rw [show (Obj.new p W).run (ops ++ [SOp.upd v]) = _ from ho]
  show ((ops ++ [SOp.upd v]).foldl glueStep (Stat.init W m, (nan : ℝ), (nan : ℝ))).2.1 = _
  rw [hl.1, hf, ← average_exact W m h0 hm qops]
  simp only [averageOf]
  push_cast
  rfl

/-- **`C16.variance_exact` about the translated functions, at ℝ**: once `W ≥ 2` samples have arrived since the last reset, the stored
    `variance_` after an `update` is the unbiased sample variance of the last `W` truncated samples -/
theorem src_variance_exact (p : ℝ) (W : Nat) (h2 : 2 ≤ W) (h64 : W < two64) (hm : multiplierOf p ≠ 0) (ops : List (SOp ℝ)) (v : ℝ)
    (hfull : W ≤ (sinceReset ((ops ++ [SOp.upd v]).map (quantOp (multiplierOf p)))).length) :
    let m := multiplierOf p
    let qops := (ops ++ [SOp.upd v]).map (quantOp m)
    ((Obj.new p W).run (ops ++ [SOp.upd v])).variance = ((sampleVariance (descale m (lastW W qops)) : ℚ) : ℝ) := by
  intro m qops
  have ho := src_run_eq p W (by omega) h64 (ops ++ [SOp.upd v])
  have hl := last_glue ops v (Stat.init W m, (nan : ℝ), (nan : ℝ))
  have hf := glue_fst (ops ++ [SOp.upd v]) (Stat.init W m) (nan : ℝ) (nan : ℝ)
  rw [show (Obj.new p W).run (ops ++ [SOp.upd v]) = _ from ho]
  show ((ops ++ [SOp.upd v]).foldl glueStep (Stat.init W m, (nan : ℝ), (nan : ℝ))).2.2 = _
  have hf' : ((ops ++ [SOp.upd v]).foldl glueStep (Stat.init W m, (nan : ℝ), (nan : ℝ))).1 = (Stat.init W m).run qops := hf
  rw [hl.2, hf', ← variance_exact W m h2 hm qops hfull]
  obtain ⟨_, _, _, _, _, _, hWs, _, _⟩ := window_exact W m (by omega) qops
  simp only [varianceOf, averageOf]
  generalize (Stat.init W m).run qops = s at hWs ⊢
  have hW1 : (((s.W - 1 : Nat) : Int) : ℝ) = (s.W : ℝ) - 1 := by
    have : 1 ≤ s.W := by omega
    push_cast [this]
    ring
  rw [hW1]
  push_cast
  ring

/-! ### the ring buffer -/
section Ring
variable {T : Type}

/-- members of a C++ `RingOfEigenVector` object -/
structure RObj (T : Type) where
  ringIndex : Int
  ringSize : Int
  ring : List T

def RObj.new (cap : Nat) : RObj T :=
  let r : Int × Int × List T := Src.C16.RingOfEigenVector.RingOfEigenVector (cap : Int)
  { ringIndex := r.1, ringSize := r.2.1, ring := r.2.2 }

/-- `append(v)` / `clear()` as translated -/
def RObj.step (o : RObj T) : ROp T → RObj T
  | .app v => let r := Src.C16.RingOfEigenVector.append v o.ringIndex o.ringSize o.ring
              { o with ringIndex := r.1, ring := r.2 }
  | .clear => let r : Int × List T := Src.C16.RingOfEigenVector.clear
              { o with ringIndex := r.1, ring := r.2 }

def RObj.run (o : RObj T) (ops : List (ROp T)) : RObj T := ops.foldl RObj.step o

def RObj.of (r : RingBuf T) : RObj T := { ringIndex := (r.idx : Int), ringSize := (r.cap : Int), ring := r.buf }

private theorem rstep_of (r : RingBuf T) (op : ROp T) : (RObj.of r).step op = RObj.of (r.step op) := by
  cases op with
  | app v =>
    have hc : (r.append v).cap = r.cap := by unfold RingBuf.append; split <;> rfl
    simp only [RObj.step, RObj.of, RingBuf.step, ring_append_bridge r v, hc]
  | clear =>
    simp only [RObj.step, RObj.of, RingBuf.step, ring_clear_bridge r]
    rfl

theorem src_ring_run_eq (cap : Nat) (ops : List (ROp T)) :
    (RObj.new cap : RObj T).run ops = RObj.of ((RingBuf.init cap : RingBuf T).run ops) := by
  have hnew : (RObj.new cap : RObj T) = RObj.of (RingBuf.init cap) := by
    simp only [RObj.new, ring_ctor_bridge cap]; rfl
  rw [hnew]
  generalize (RingBuf.init cap : RingBuf T) = r
  induction ops generalizing r with
  | nil => rfl
  | cons op rest ih =>
    simp only [RObj.run, RingBuf.run, List.foldl_cons, rstep_of]
    exact ih (r.step op)

/-- **`C16.ring_spec` about the translated functions**: for every capacity and every history of `append` / `clear` run through the
    translated functions, the translated `size()` is `min(n, cap)` and the translated `operator[](k)` reads the `k`-th most recently
    appended item since the last clear -/
theorem src_ring_spec (cap : Nat) (hc : 0 < cap) (hc2 : cap < 2 ^ 62) (ops : List (ROp T)) (k : Nat) :
    let o := (RObj.new cap : RObj T).run ops
    Src.C16.RingOfEigenVector.size o.ring = ((min (sinceClear ops).length cap : Nat) : Int) ∧
    ((k : Int) < Src.C16.RingOfEigenVector.size o.ring →
      Src.C16.RingOfEigenVector.operator_index (k : Int) o.ringIndex o.ring = (sinceClear ops).reverse[k]?) := by
  intro o
  have ho : o = RObj.of ((RingBuf.init cap : RingBuf T).run ops) := src_ring_run_eq cap ops
  obtain ⟨h1, h2⟩ := ring_spec (T := T) cap hc hc2 ops k
  rw [ho]
  simp only [RObj.of, ring_size_bridge]
  refine ⟨by rw [h1], fun hk => ?_⟩
  have hk' : k < ((RingBuf.init cap : RingBuf T).run ops).size := by omega
  have hk2 : k < two64 := by
    rw [h1] at hk'
    have : two64 = 18446744073709551616 := by decide
    omega
  rw [ring_index_bridge _ k hk2]
  exact h2 hk'

end Ring

end Romea.Bridge.C16
