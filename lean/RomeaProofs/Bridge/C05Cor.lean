import RomeaProofs.Bridge.C05
import RomeaProofs.Properties.C05

/-!
# Bridge C05, part 2: statements of `Properties/C05.lean` restated about `estimate_` as translated from today's source

* `rhs2_eq`, `rhs3_eq`, `rhs4_eq` (every scalar type where `0 + x = x`): the right-hand side the source adds up is the model's `rhsOf size`;
* `src_residual_is_linearised_distance_*` (ℝ): **residual_is_linearised_distance** about the TRANSLATED function — take the arrays `J'`, `Y'` it
  leaves in the solver, the answer `x` of the solver oracle on them and the matrix it returns (`scatter dim x`, entry by entry): for every
  correspondence `a`, `Σ_c J'(a, c)·x_c − Y'(a)` is the point-to-plane distance `((M s_a − t_a)·n_a)` of the returned matrix `M` — the row
  construction `[n, s × n]`, the residual `(t − s)·n` and the scatter of the source fit together, for every solver oracle, every junk left by
  `setDataSize`, every cloud.  Cartesian 2D / 3D, aligned and index-based; for the homogeneous types under `t_w = s_w` (`rhsOf_homogeneous`).
The statements that involve the solver's contract (`find_solves_linearised_problem`, `pure_translation_exact`, …) are about C07's model of
`estimateUsingSVD`, which stays an oracle here: they are not restated.
-/
set_option linter.unusedSectionVars false
set_option linter.unusedVariables false
set_option linter.unusedSimpArgs false

namespace Romea.Bridge.C05
open Romea Romea.LeastSquares Romea.PointToPlane Romea.C05

section
variable {α : Type} [NatCast α] [Add α] [Sub α] [Mul α] [Div α] [Neg α] [LT α] [DecidableLT α]

theorem rhs2_eq (h0 : ∀ x : α, (zero : α) + x = x) (s t n : α × α) : rhs2 s t n = rhsOf 2 (pt2 s) (pt2 t) (pt2 n) := by
  simp only [rhs2, rhsOf, sumTo, h0]
  rfl

theorem rhs3_eq (h0 : ∀ x : α, (zero : α) + x = x) (s t n : α × α × α) : rhs3 s t n = rhsOf 3 (pt3 s) (pt3 t) (pt3 n) := by
  simp only [rhs3, rhsOf, sumTo, h0]
  rfl

theorem rhs4_eq (h0 : ∀ x : α, (zero : α) + x = x) (s t n : α × α × α × α) : rhs4 s t n = rhsOf 4 (pt4 s) (pt4 t) (pt4 n) := by
  simp only [rhs4, rhsOf, sumTo, h0]
  rfl

end

theorem h0R : ∀ x : ℝ, (zero : ℝ) + x = x := by intro x; simp [zero]

theorem fillJ_in (est : Nat) (row : Nat → Vec ℝ) (N : Nat) (J : Int → Int → ℝ) (a c : Nat) (ha : a < N) (hc : c < est) :
    fillJ est row 0 N J (a : Int) (c : Int) = Vec.get (row a) c := by
  unfold fillJ
  rw [if_pos (by omega)]
  simp

theorem fillY_in (rhs : Nat → ℝ) (N : Nat) (Y : Int → ℝ) (a : Nat) (ha : a < N) : fillY rhs 0 N Y (a : Int) = rhs a := by
  unfold fillY
  rw [if_pos (by omega)]
  simp

/-- rows that hold `rowOf` / `rhsOf` have the linearised point-to-plane distance as residual, whatever the solution `x` -/
theorem residual_of_rows3 (J : Int → Int → ℝ) (Y : Int → ℝ) (x : Vec ℝ) (a : Nat) (s t n : Pt ℝ)
    (hJ : ∀ c : Nat, c < 6 → J (a : Int) (c : Int) = Vec.get (rowOf 3 s n) c) (hY : Y (a : Int) = rhsOf 3 s t n) :
    sumTo 6 (fun c => J (a : Int) (c : Int) * Vec.get x c) - Y (a : Int) = planeDist 3 (scatter 3 x) s t n := by
  rw [← residual_is_linearised_distance 3 (Or.inr rfl), hY]
  have e : estSize 3 = 6 := rfl
  rw [e]
  simp only [sumTo, hJ 0 (by norm_num), hJ 1 (by norm_num), hJ 2 (by norm_num), hJ 3 (by norm_num), hJ 4 (by norm_num), hJ 5 (by norm_num)]

theorem residual_of_rows2 (J : Int → Int → ℝ) (Y : Int → ℝ) (x : Vec ℝ) (a : Nat) (s t n : Pt ℝ)
    (hJ : ∀ c : Nat, c < 3 → J (a : Int) (c : Int) = Vec.get (rowOf 2 s n) c) (hY : Y (a : Int) = rhsOf 2 s t n) :
    sumTo 3 (fun c => J (a : Int) (c : Int) * Vec.get x c) - Y (a : Int) = planeDist 2 (scatter 2 x) s t n := by
  rw [← residual_is_linearised_distance 2 (Or.inl rfl), hY]
  have e : estSize 2 = 3 := rfl
  rw [e]
  simp only [sumTo, hJ 0 (by norm_num), hJ 1 (by norm_num), hJ 2 (by norm_num)]

/-- **residual_is_linearised_distance** about the translated `estimate_` (aligned, `v3d`) -/
theorem src_residual_is_linearised_distance_aligned_v3d (o0 o1 o2 o3 o4 o5 : (Int → Int → ℝ) → (Int → ℝ) → ℝ)
    (jJ : Int → Int → Int → ℝ) (jY : Int → Int → ℝ) (ret : Int → Bool) (src tgt nrm : List (ℝ × ℝ × ℝ)) (d : ℝ × ℝ × ℝ)
    (h2 : tgt.length = src.length) (h3 : nrm.length = src.length) :
    ∃ (J' : Int → Int → ℝ) (Y' : Int → ℝ) (x : Vec ℝ),
      Src.C05.FindRigidTransformationByLeastSquares.estimate__aligned_v3d o0 o1 o2 o3 o4 o5 jJ jY ret src tgt nrm
        = some (Mat.get (scatter 3 x) 0 0, Mat.get (scatter 3 x) 0 1, Mat.get (scatter 3 x) 0 2, Mat.get (scatter 3 x) 0 3, Mat.get (scatter 3 x) 1 0, Mat.get (scatter 3 x) 1 1, Mat.get (scatter 3 x) 1 2, Mat.get (scatter 3 x) 1 3, Mat.get (scatter 3 x) 2 0, Mat.get (scatter 3 x) 2 1, Mat.get (scatter 3 x) 2 2, Mat.get (scatter 3 x) 2 3, Mat.get (scatter 3 x) 3 0, Mat.get (scatter 3 x) 3 1, Mat.get (scatter 3 x) 3 2, Mat.get (scatter 3 x) 3 3, J', Y') ∧
      x = #[o0 J' Y', o1 J' Y', o2 J' Y', o3 J' Y', o4 J' Y', o5 J' Y'] ∧
      ∀ a : Nat, a < src.length →
        sumTo 6 (fun c => J' (a : Int) (c : Int) * Vec.get x c) - Y' (a : Int)
          = planeDist 3 (scatter 3 x) (pt3 (src.getD a d)) (pt3 (tgt.getD a d)) (pt3 (nrm.getD a d)) := by
  refine ⟨_, _, _, estimate__aligned_v3d_bridge o0 o1 o2 o3 o4 o5 jJ jY ret src tgt nrm d h2 h3, rfl, ?_⟩
  intro a ha
  apply residual_of_rows3
  · intro c hc
    exact fillJ_in _ _ _ _ a c ha hc
  · rw [fillY_in _ _ _ a ha, rhs3_eq h0R]

/-- **residual_is_linearised_distance** about the translated `estimate_` (aligned, `v2d`) -/
theorem src_residual_is_linearised_distance_aligned_v2d (o0 o1 o2 : (Int → Int → ℝ) → (Int → ℝ) → ℝ)
    (jJ : Int → Int → Int → ℝ) (jY : Int → Int → ℝ) (ret : Int → Bool) (src tgt nrm : List (ℝ × ℝ)) (d : ℝ × ℝ)
    (h2 : tgt.length = src.length) (h3 : nrm.length = src.length) :
    ∃ (J' : Int → Int → ℝ) (Y' : Int → ℝ) (x : Vec ℝ),
      Src.C05.FindRigidTransformationByLeastSquares.estimate__aligned_v2d o0 o1 o2 jJ jY ret src tgt nrm
        = some (Mat.get (scatter 2 x) 0 0, Mat.get (scatter 2 x) 0 1, Mat.get (scatter 2 x) 0 2, Mat.get (scatter 2 x) 1 0, Mat.get (scatter 2 x) 1 1, Mat.get (scatter 2 x) 1 2, Mat.get (scatter 2 x) 2 0, Mat.get (scatter 2 x) 2 1, Mat.get (scatter 2 x) 2 2, J', Y') ∧
      x = #[o0 J' Y', o1 J' Y', o2 J' Y'] ∧
      ∀ a : Nat, a < src.length →
        sumTo 3 (fun c => J' (a : Int) (c : Int) * Vec.get x c) - Y' (a : Int)
          = planeDist 2 (scatter 2 x) (pt2 (src.getD a d)) (pt2 (tgt.getD a d)) (pt2 (nrm.getD a d)) := by
  refine ⟨_, _, _, estimate__aligned_v2d_bridge o0 o1 o2 jJ jY ret src tgt nrm d h2 h3, rfl, ?_⟩
  intro a ha
  apply residual_of_rows2
  · intro c hc
    exact fillJ_in _ _ _ _ a c ha hc
  · rw [fillY_in _ _ _ a ha, rhs2_eq h0R]

/-- **residual_is_linearised_distance** about the translated `estimate_` (aligned, `h3d`): homogeneous points whose source and target carry the same homogeneous coordinate -/
theorem src_residual_is_linearised_distance_aligned_h3d (o0 o1 o2 o3 o4 o5 : (Int → Int → ℝ) → (Int → ℝ) → ℝ)
    (jJ : Int → Int → Int → ℝ) (jY : Int → Int → ℝ) (ret : Int → Bool) (src tgt nrm : List (ℝ × ℝ × ℝ × ℝ)) (d : ℝ × ℝ × ℝ × ℝ)
    (h2 : tgt.length = src.length) (h3 : nrm.length = src.length) :
    ∃ (J' : Int → Int → ℝ) (Y' : Int → ℝ) (x : Vec ℝ),
      Src.C05.FindRigidTransformationByLeastSquares.estimate__aligned_h3d o0 o1 o2 o3 o4 o5 jJ jY ret src tgt nrm
        = some (Mat.get (scatter 3 x) 0 0, Mat.get (scatter 3 x) 0 1, Mat.get (scatter 3 x) 0 2, Mat.get (scatter 3 x) 0 3, Mat.get (scatter 3 x) 1 0, Mat.get (scatter 3 x) 1 1, Mat.get (scatter 3 x) 1 2, Mat.get (scatter 3 x) 1 3, Mat.get (scatter 3 x) 2 0, Mat.get (scatter 3 x) 2 1, Mat.get (scatter 3 x) 2 2, Mat.get (scatter 3 x) 2 3, Mat.get (scatter 3 x) 3 0, Mat.get (scatter 3 x) 3 1, Mat.get (scatter 3 x) 3 2, Mat.get (scatter 3 x) 3 3, J', Y') ∧
      x = #[o0 J' Y', o1 J' Y', o2 J' Y', o3 J' Y', o4 J' Y', o5 J' Y'] ∧
      ∀ a : Nat, a < src.length →
        (tgt.getD a d).2.2.2 = (src.getD a d).2.2.2 →
        sumTo 6 (fun c => J' (a : Int) (c : Int) * Vec.get x c) - Y' (a : Int)
          = planeDist 3 (scatter 3 x) (pt4 (src.getD a d)) (pt4 (tgt.getD a d)) (pt4 (nrm.getD a d)) := by
  refine ⟨_, _, _, estimate__aligned_h3d_bridge o0 o1 o2 o3 o4 o5 jJ jY ret src tgt nrm d h2 h3, rfl, ?_⟩
  intro a ha hw
  apply residual_of_rows3
  · intro c hc
    exact fillJ_in _ _ _ _ a c ha hc
  · rw [fillY_in _ _ _ a ha, rhs4_eq h0R]
    exact rhsOf_homogeneous 3 _ _ _ (by simpa [Vec.get, pt4] using hw)

/-- **residual_is_linearised_distance** about the translated `estimate_` (aligned, `h2d`): homogeneous points whose source and target carry the same homogeneous coordinate -/
theorem src_residual_is_linearised_distance_aligned_h2d (o0 o1 o2 : (Int → Int → ℝ) → (Int → ℝ) → ℝ)
    (jJ : Int → Int → Int → ℝ) (jY : Int → Int → ℝ) (ret : Int → Bool) (src tgt nrm : List (ℝ × ℝ × ℝ)) (d : ℝ × ℝ × ℝ)
    (h2 : tgt.length = src.length) (h3 : nrm.length = src.length) :
    ∃ (J' : Int → Int → ℝ) (Y' : Int → ℝ) (x : Vec ℝ),
      Src.C05.FindRigidTransformationByLeastSquares.estimate__aligned_h2d o0 o1 o2 jJ jY ret src tgt nrm
        = some (Mat.get (scatter 2 x) 0 0, Mat.get (scatter 2 x) 0 1, Mat.get (scatter 2 x) 0 2, Mat.get (scatter 2 x) 1 0, Mat.get (scatter 2 x) 1 1, Mat.get (scatter 2 x) 1 2, Mat.get (scatter 2 x) 2 0, Mat.get (scatter 2 x) 2 1, Mat.get (scatter 2 x) 2 2, J', Y') ∧
      x = #[o0 J' Y', o1 J' Y', o2 J' Y'] ∧
      ∀ a : Nat, a < src.length →
        (tgt.getD a d).2.2 = (src.getD a d).2.2 →
        sumTo 3 (fun c => J' (a : Int) (c : Int) * Vec.get x c) - Y' (a : Int)
          = planeDist 2 (scatter 2 x) (pt3 (src.getD a d)) (pt3 (tgt.getD a d)) (pt3 (nrm.getD a d)) := by
  refine ⟨_, _, _, estimate__aligned_h2d_bridge o0 o1 o2 jJ jY ret src tgt nrm d h2 h3, rfl, ?_⟩
  intro a ha hw
  apply residual_of_rows2
  · intro c hc
    exact fillJ_in _ _ _ _ a c ha hc
  · rw [fillY_in _ _ _ a ha, rhs3_eq h0R]
    exact rhsOf_homogeneous 2 _ _ _ (by simpa [Vec.get, pt3] using hw)

/-- **residual_is_linearised_distance** about the translated `estimate_` (indexed, `v3d`) -/
theorem src_residual_is_linearised_distance_indexed_v3d (o0 o1 o2 o3 o4 o5 : (Int → Int → ℝ) → (Int → ℝ) → ℝ)
    (jJ : Int → Int → Int → ℝ) (jY : Int → Int → ℝ) (ret : Int → Bool) (corr : List (Int × Int × ℝ × ℝ)) (dc : Int × Int × ℝ × ℝ) (src tgt nrm : List (ℝ × ℝ × ℝ)) (d : ℝ × ℝ × ℝ)
    (hs : ∀ a, a < corr.length → 0 ≤ (corr.getD a dc).1 ∧ (corr.getD a dc).1.toNat < src.length)
    (ht : ∀ a, a < corr.length → 0 ≤ (corr.getD a dc).2.1 ∧ (corr.getD a dc).2.1.toNat < tgt.length ∧ (corr.getD a dc).2.1.toNat < nrm.length) :
    ∃ (J' : Int → Int → ℝ) (Y' : Int → ℝ) (x : Vec ℝ),
      Src.C05.FindRigidTransformationByLeastSquares.estimate__indexed_v3d corr o0 o1 o2 o3 o4 o5 jJ jY ret src tgt nrm
        = some (Mat.get (scatter 3 x) 0 0, Mat.get (scatter 3 x) 0 1, Mat.get (scatter 3 x) 0 2, Mat.get (scatter 3 x) 0 3, Mat.get (scatter 3 x) 1 0, Mat.get (scatter 3 x) 1 1, Mat.get (scatter 3 x) 1 2, Mat.get (scatter 3 x) 1 3, Mat.get (scatter 3 x) 2 0, Mat.get (scatter 3 x) 2 1, Mat.get (scatter 3 x) 2 2, Mat.get (scatter 3 x) 2 3, Mat.get (scatter 3 x) 3 0, Mat.get (scatter 3 x) 3 1, Mat.get (scatter 3 x) 3 2, Mat.get (scatter 3 x) 3 3, J', Y') ∧
      x = #[o0 J' Y', o1 J' Y', o2 J' Y', o3 J' Y', o4 J' Y', o5 J' Y'] ∧
      ∀ a : Nat, a < corr.length →
        sumTo 6 (fun c => J' (a : Int) (c : Int) * Vec.get x c) - Y' (a : Int)
          = planeDist 3 (scatter 3 x) (pt3 (src.getD (corr.getD a dc).1.toNat d)) (pt3 (tgt.getD (corr.getD a dc).2.1.toNat d)) (pt3 (nrm.getD (corr.getD a dc).2.1.toNat d)) := by
  refine ⟨_, _, _, estimate__indexed_v3d_bridge o0 o1 o2 o3 o4 o5 jJ jY ret corr dc src tgt nrm d hs ht, rfl, ?_⟩
  intro a ha
  apply residual_of_rows3
  · intro c hc
    exact fillJ_in _ _ _ _ a c ha hc
  · rw [fillY_in _ _ _ a ha, rhs3_eq h0R]

/-- **residual_is_linearised_distance** about the translated `estimate_` (indexed, `v2d`) -/
theorem src_residual_is_linearised_distance_indexed_v2d (o0 o1 o2 : (Int → Int → ℝ) → (Int → ℝ) → ℝ)
    (jJ : Int → Int → Int → ℝ) (jY : Int → Int → ℝ) (ret : Int → Bool) (corr : List (Int × Int × ℝ × ℝ)) (dc : Int × Int × ℝ × ℝ) (src tgt nrm : List (ℝ × ℝ)) (d : ℝ × ℝ)
    (hs : ∀ a, a < corr.length → 0 ≤ (corr.getD a dc).1 ∧ (corr.getD a dc).1.toNat < src.length)
    (ht : ∀ a, a < corr.length → 0 ≤ (corr.getD a dc).2.1 ∧ (corr.getD a dc).2.1.toNat < tgt.length ∧ (corr.getD a dc).2.1.toNat < nrm.length) :
    ∃ (J' : Int → Int → ℝ) (Y' : Int → ℝ) (x : Vec ℝ),
      Src.C05.FindRigidTransformationByLeastSquares.estimate__indexed_v2d corr o0 o1 o2 jJ jY ret src tgt nrm
        = some (Mat.get (scatter 2 x) 0 0, Mat.get (scatter 2 x) 0 1, Mat.get (scatter 2 x) 0 2, Mat.get (scatter 2 x) 1 0, Mat.get (scatter 2 x) 1 1, Mat.get (scatter 2 x) 1 2, Mat.get (scatter 2 x) 2 0, Mat.get (scatter 2 x) 2 1, Mat.get (scatter 2 x) 2 2, J', Y') ∧
      x = #[o0 J' Y', o1 J' Y', o2 J' Y'] ∧
      ∀ a : Nat, a < corr.length →
        sumTo 3 (fun c => J' (a : Int) (c : Int) * Vec.get x c) - Y' (a : Int)
          = planeDist 2 (scatter 2 x) (pt2 (src.getD (corr.getD a dc).1.toNat d)) (pt2 (tgt.getD (corr.getD a dc).2.1.toNat d)) (pt2 (nrm.getD (corr.getD a dc).2.1.toNat d)) := by
  refine ⟨_, _, _, estimate__indexed_v2d_bridge o0 o1 o2 jJ jY ret corr dc src tgt nrm d hs ht, rfl, ?_⟩
  intro a ha
  apply residual_of_rows2
  · intro c hc
    exact fillJ_in _ _ _ _ a c ha hc
  · rw [fillY_in _ _ _ a ha, rhs2_eq h0R]

/-- **residual_is_linearised_distance** about the translated `estimate_` (indexed, `h3d`): homogeneous points whose source and target carry the same homogeneous coordinate -/
theorem src_residual_is_linearised_distance_indexed_h3d (o0 o1 o2 o3 o4 o5 : (Int → Int → ℝ) → (Int → ℝ) → ℝ)
    (jJ : Int → Int → Int → ℝ) (jY : Int → Int → ℝ) (ret : Int → Bool) (corr : List (Int × Int × ℝ × ℝ)) (dc : Int × Int × ℝ × ℝ) (src tgt nrm : List (ℝ × ℝ × ℝ × ℝ)) (d : ℝ × ℝ × ℝ × ℝ)
    (hs : ∀ a, a < corr.length → 0 ≤ (corr.getD a dc).1 ∧ (corr.getD a dc).1.toNat < src.length)
    (ht : ∀ a, a < corr.length → 0 ≤ (corr.getD a dc).2.1 ∧ (corr.getD a dc).2.1.toNat < tgt.length ∧ (corr.getD a dc).2.1.toNat < nrm.length) :
    ∃ (J' : Int → Int → ℝ) (Y' : Int → ℝ) (x : Vec ℝ),
      Src.C05.FindRigidTransformationByLeastSquares.estimate__indexed_h3d corr o0 o1 o2 o3 o4 o5 jJ jY ret src tgt nrm
        = some (Mat.get (scatter 3 x) 0 0, Mat.get (scatter 3 x) 0 1, Mat.get (scatter 3 x) 0 2, Mat.get (scatter 3 x) 0 3, Mat.get (scatter 3 x) 1 0, Mat.get (scatter 3 x) 1 1, Mat.get (scatter 3 x) 1 2, Mat.get (scatter 3 x) 1 3, Mat.get (scatter 3 x) 2 0, Mat.get (scatter 3 x) 2 1, Mat.get (scatter 3 x) 2 2, Mat.get (scatter 3 x) 2 3, Mat.get (scatter 3 x) 3 0, Mat.get (scatter 3 x) 3 1, Mat.get (scatter 3 x) 3 2, Mat.get (scatter 3 x) 3 3, J', Y') ∧
      x = #[o0 J' Y', o1 J' Y', o2 J' Y', o3 J' Y', o4 J' Y', o5 J' Y'] ∧
      ∀ a : Nat, a < corr.length →
        (tgt.getD (corr.getD a dc).2.1.toNat d).2.2.2 = (src.getD (corr.getD a dc).1.toNat d).2.2.2 →
        sumTo 6 (fun c => J' (a : Int) (c : Int) * Vec.get x c) - Y' (a : Int)
          = planeDist 3 (scatter 3 x) (pt4 (src.getD (corr.getD a dc).1.toNat d)) (pt4 (tgt.getD (corr.getD a dc).2.1.toNat d)) (pt4 (nrm.getD (corr.getD a dc).2.1.toNat d)) := by
  refine ⟨_, _, _, estimate__indexed_h3d_bridge o0 o1 o2 o3 o4 o5 jJ jY ret corr dc src tgt nrm d hs ht, rfl, ?_⟩
  intro a ha hw
  apply residual_of_rows3
  · intro c hc
    exact fillJ_in _ _ _ _ a c ha hc
  · rw [fillY_in _ _ _ a ha, rhs4_eq h0R]
    exact rhsOf_homogeneous 3 _ _ _ (by simpa [Vec.get, pt4] using hw)

/-- **residual_is_linearised_distance** about the translated `estimate_` (indexed, `h2d`): homogeneous points whose source and target carry the same homogeneous coordinate -/
theorem src_residual_is_linearised_distance_indexed_h2d (o0 o1 o2 : (Int → Int → ℝ) → (Int → ℝ) → ℝ)
    (jJ : Int → Int → Int → ℝ) (jY : Int → Int → ℝ) (ret : Int → Bool) (corr : List (Int × Int × ℝ × ℝ)) (dc : Int × Int × ℝ × ℝ) (src tgt nrm : List (ℝ × ℝ × ℝ)) (d : ℝ × ℝ × ℝ)
    (hs : ∀ a, a < corr.length → 0 ≤ (corr.getD a dc).1 ∧ (corr.getD a dc).1.toNat < src.length)
    (ht : ∀ a, a < corr.length → 0 ≤ (corr.getD a dc).2.1 ∧ (corr.getD a dc).2.1.toNat < tgt.length ∧ (corr.getD a dc).2.1.toNat < nrm.length) :
    ∃ (J' : Int → Int → ℝ) (Y' : Int → ℝ) (x : Vec ℝ),
      Src.C05.FindRigidTransformationByLeastSquares.estimate__indexed_h2d corr o0 o1 o2 jJ jY ret src tgt nrm
        = some (Mat.get (scatter 2 x) 0 0, Mat.get (scatter 2 x) 0 1, Mat.get (scatter 2 x) 0 2, Mat.get (scatter 2 x) 1 0, Mat.get (scatter 2 x) 1 1, Mat.get (scatter 2 x) 1 2, Mat.get (scatter 2 x) 2 0, Mat.get (scatter 2 x) 2 1, Mat.get (scatter 2 x) 2 2, J', Y') ∧
      x = #[o0 J' Y', o1 J' Y', o2 J' Y'] ∧
      ∀ a : Nat, a < corr.length →
        (tgt.getD (corr.getD a dc).2.1.toNat d).2.2 = (src.getD (corr.getD a dc).1.toNat d).2.2 →
        sumTo 3 (fun c => J' (a : Int) (c : Int) * Vec.get x c) - Y' (a : Int)
          = planeDist 2 (scatter 2 x) (pt3 (src.getD (corr.getD a dc).1.toNat d)) (pt3 (tgt.getD (corr.getD a dc).2.1.toNat d)) (pt3 (nrm.getD (corr.getD a dc).2.1.toNat d)) := by
  refine ⟨_, _, _, estimate__indexed_h2d_bridge o0 o1 o2 jJ jY ret corr dc src tgt nrm d hs ht, rfl, ?_⟩
  intro a ha hw
  apply residual_of_rows2
  · intro c hc
    exact fillJ_in _ _ _ _ a c ha hc
  · rw [fillY_in _ _ _ a ha, rhs3_eq h0R]
    exact rhsOf_homogeneous 2 _ _ _ (by simpa [Vec.get, pt3] using hw)


end Romea.Bridge.C05
