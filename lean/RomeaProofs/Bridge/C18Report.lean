import RomeaModel.Checkup
import RomeaModel.Generated.SrcC18
import RomeaProofs.Bridge.C18

/-!
# Bridge C18, part 3: `worseStatus`, `allOK` (`Diagnostic.cpp`) and `operator+=(DiagnosticReport &, const DiagnosticReport &)`
(`DiagnosticReport.cpp`) AS TRANSLATED FROM TODAY'S SOURCE = the model (`RomeaModel/Checkup.lean`)

Encoding chosen by the translator (spec option `whole_containers`): a `std::list<Diagnostic>` is ONE value of type
`List (String × Int)` — per diagnostic the pair (message, status), the fields in alphabetical order, the enum as its underlying integer —;
a `std::map<std::string, std::string>` is ONE value of type `List (String × String)`: its entries in iteration order, i.e. ascending keys.
Key ORDER and key UNIQUENESS are an invariant of that representation (the model's `Sorted`), not enforced by the type; `map::insert` of
a range is `List.foldl mapInsertNew` with the generated helper `mapInsertNew` (insert in key order, a key that is present keeps its
value — the same function as the model's `insertNew`, over `String` keys with `String`'s `<`). Iterators are indexes:
`auto it = std::cbegin(l)` is `0`, `++it != std::cend(l)` is `it + 1 ≠ length l`, `it->status` the projection of `List.getD l it ("", 0)`.

The model has statuses as an inductive type and message / key / value IDENTIFIERS (`Nat`); the bridge goes through arbitrary naming
functions `msg key val : Nat → String`, `key` strictly monotone and injective (every finite set of C++ keys is the image of an initial
segment of such a naming). Statements:
* `worseStatus_bridge`, `allOK_bridge` — for a non-empty list and fuel ≥ its length the translated functions return `some` of the model's;
* `append_bridge` — the translated `operator+=` returns the encodings of the model's `append`.
Core Lean only.
-/
namespace Romea.Bridge.C18
open Romea Romea.Checkup

/-! ### `worseStatus` / `allOK` -/

/-- a list of diagnostics as the translated code sees it: (message, underlying status value) -/
def encDiags (l : List (String × Status)) : List (String × Int) := l.map (fun p => (p.1, code p.2))

private theorem getD_enc (pre : List (String × Status)) (x : String × Status) (xs : List (String × Status)) (i : Nat)
    (hi : i + 1 = pre.length) :
    (List.getD (encDiags (pre ++ x :: xs)) (Int.toNat ((i : Int) + 1)) ("", 0)).2 = code x.2 := by
  have h1 : Int.toNat ((i : Int) + 1) = pre.length := by omega
  rw [h1]
  unfold encDiags
  rw [List.map_append, List.getD_eq_getElem?_getD, List.getElem?_append_right (by simp)]
  simp

/-- the loop of `worseStatus`: from the position `i` (the last element of `pre`) with the status folded so far, it folds `worse` over the
    rest and stops with the iterator at the end -/
private theorem worseLoop (rest : List (String × Status)) :
    ∀ (pre : List (String × Status)) (i : Nat) (st : Status) (m : Nat), i + 1 = pre.length →
      Src.C18.worseStatus.loop1 (encDiags (pre ++ rest)) (rest.length + 1 + m) (i : Int) (code st)
        = some ((((pre ++ rest).length : Nat) : Int), code ((rest.map (·.2)).foldl worse st)) := by
  induction rest with
  | nil =>
    intro pre i st m hi
    have hlen : (encDiags (pre ++ [])).length = pre.length := by simp [encDiags]
    have hc : ¬ ((i : Int) + 1 ≠ (((encDiags (pre ++ [])).length : Nat) : Int)) := by rw [hlen]; omega
    rw [show ([] : List (String × Status)).length + 1 + m = m + 1 from by simp only [List.length_nil]; omega]
    unfold Src.C18.worseStatus.loop1
    rw [if_neg hc]
    simp only [List.append_nil, List.map_nil, List.foldl_nil]
    congr 2
    omega
  | cons x xs ih =>
    intro pre i st m hi
    have hlen : (encDiags (pre ++ x :: xs)).length = pre.length + (xs.length + 1) := by simp [encDiags]
    have hc : (i : Int) + 1 ≠ (((encDiags (pre ++ x :: xs)).length : Nat) : Int) := by rw [hlen]; omega
    have hfuel : (x :: xs).length + 1 + m = (xs.length + 1 + m) + 1 := by simp only [List.length_cons]; omega
    rw [hfuel]
    unfold Src.C18.worseStatus.loop1
    rw [if_pos hc]
    simp only
    rw [getD_enc pre x xs i hi, worse_bridge]
    have happ : pre ++ x :: xs = (pre ++ [x]) ++ xs := by simp
    have hcast : (i : Int) + 1 = ((i + 1 : Nat) : Int) := by omega
    rw [happ, hcast, ih (pre ++ [x]) (i + 1) (worse st x.2) m (by simp; omega)]
    simp only [List.map_cons, List.foldl_cons]

/-- **`worseStatus` as translated = the model's `worseStatus`** on the statuses of a NON-EMPTY list (the C++ asserts non-emptiness and
    dereferences `begin()`), for fuel ≥ the length of the list -/
theorem worseStatus_bridge (l : List (String × Status)) (hl : l ≠ []) (fuel : Nat) (hf : l.length ≤ fuel) :
    Src.C18.worseStatus fuel (encDiags l) = (worseStatus (l.map (·.2))).map code := by
  cases l with
  | nil => exact absurd rfl hl
  | cons a as =>
    obtain ⟨m, hm⟩ : ∃ m, fuel = as.length + 1 + m := ⟨fuel - (as.length + 1), by simp only [List.length_cons] at hf; omega⟩
    unfold Src.C18.worseStatus
    simp only
    have h0 : (List.getD (encDiags (a :: as)) (Int.toNat 0) ("", 0)).2 = code a.2 := by simp [encDiags]
    have hl := worseLoop as [a] 0 a.2 m rfl
    simp only [List.singleton_append, Int.natCast_zero] at hl
    rw [h0, hm, hl]
    rfl

/-- **`allOK` as translated = the model's `allOK`** (non-empty list, fuel ≥ its length) -/
theorem allOK_bridge (l : List (String × Status)) (hl : l ≠ []) (fuel : Nat) (hf : l.length ≤ fuel) :
    Src.C18.allOK fuel (encDiags l) = allOK (l.map (·.2)) := by
  unfold Src.C18.allOK allOK
  rw [worseStatus_bridge l hl fuel hf]
  cases worseStatus (l.map (·.2)) with
  | none => rfl
  | some s => cases s <;> rfl

/-! ### `operator+=` -/

section
variable (msg key val : Nat → String)

/-- the model's diagnostics (status, message id) as the translated code sees them -/
def encDiagIds (l : List (Status × Nat)) : List (String × Int) := l.map (fun p => (msg p.2, code p.1))

/-- the model's info entries (key id, value id) as the translated code sees them -/
def encInfo (m : List (Nat × Nat)) : List (String × String) := m.map (fun p => (key p.1, val p.2))

/-- one `map::insert(value)`: the generated helper on the encoded map = the encoding of the model's `insertNew` -/
theorem mapInsertNew_bridge (hlt : ∀ a b : Nat, a < b ↔ key a < key b) (hinj : ∀ a b : Nat, key a = key b → a = b)
    (m : List (Nat × Nat)) (kv : Nat × Nat) :
    Src.C18.mapInsertNew (encInfo key val m) (key kv.1, val kv.2) = encInfo key val (insertNew m kv) := by
  induction m with
  | nil => rfl
  | cons e rest ih =>
    obtain ⟨k, v⟩ := e
    show Src.C18.mapInsertNew ((key k, val v) :: encInfo key val rest) (key kv.1, val kv.2) = _
    unfold Src.C18.mapInsertNew insertNew
    by_cases h1 : kv.1 < k
    · rw [if_pos ((hlt _ _).mp h1), if_pos h1]
      rfl
    · rw [if_neg (fun h => h1 ((hlt _ _).mpr h)), if_neg h1]
      by_cases h2 : kv.1 = k
      · rw [if_pos (by rw [h2]), if_pos h2]
        rfl
      · rw [if_neg (fun h => h2 (hinj _ _ h)), if_neg h2, ih]
        rfl

/-- **`operator+=(report1, report2)` as translated = the model's `append`**: the diagnostics of `report2` appended, the info entries of
    `report2` inserted in key order, present keys keeping their value — for every naming of the message / key / value identifiers with
    a strictly monotone, injective key naming -/
theorem append_bridge (hlt : ∀ a b : Nat, a < b ↔ key a < key b) (hinj : ∀ a b : Nat, key a = key b → a = b) (r1 r2 : Report) :
    Src.C18.operator_addAssign (encDiagIds msg r1.diags) (encInfo key val r1.info) (encDiagIds msg r2.diags) (encInfo key val r2.info)
      = (encDiagIds msg (append r1 r2).diags, encInfo key val (append r1 r2).info) := by
  unfold Src.C18.operator_addAssign append
  simp only
  have hfold : ∀ (m2 m1 : List (Nat × Nat)),
      List.foldl Src.C18.mapInsertNew (encInfo key val m1) (encInfo key val m2) = encInfo key val (m2.foldl insertNew m1) := by
    intro m2
    induction m2 with
    | nil => intro m1; rfl
    | cons kv rest ih =>
      intro m1
      show List.foldl Src.C18.mapInsertNew (Src.C18.mapInsertNew (encInfo key val m1) (key kv.1, val kv.2)) (encInfo key val rest) = _
      rw [mapInsertNew_bridge key val hlt hinj, ih]
      rfl
  rw [hfold]
  simp only [encDiagIds, List.map_append]

end

/-! ### Non-vacuity: evaluated through the GENERATED definitions -/

example : Src.C18.worseStatus 3 [("a", 0), ("b", 2), ("c", 1)] = some 2 := by decide
example : Src.C18.allOK 2 [("a", 0), ("b", 0)] = some true ∧ Src.C18.allOK 2 [("a", 0), ("b", 1)] = some false := by decide
-- the empty list (undefined behaviour in C++: `begin()` is dereferenced): the translated loop never meets `end` and runs out of fuel
example : Src.C18.worseStatus 5 [] = none := by decide
-- keys "a" < "c" in report1, "a" (kept), "b" (inserted between) in report2
example : Src.C18.operator_addAssign [("m1", 0)] [("a", "1"), ("c", "3")] [("m2", 2)] [("a", "9"), ("b", "2")]
    = ([("m1", 0), ("m2", 2)], [("a", "1"), ("b", "2"), ("c", "3")]) := by decide

end Romea.Bridge.C18
