import RomeaProofs.Bridge.C15
import RomeaProofs.Bridge.C15Loop
import RomeaProofs.Bridge.C15Loop3
import RomeaProofs.Bridge.C15Cor
import RomeaProofs.Properties.C15

/-!
# Bridge C15, part 4: `C15.translate_refines` and `C15.history` about the TRANSLATED code for DIM = 3, with the reads and writes going
through the translated accessors

`Bridge/C15Loop3.lean` proves the translated `translate_3` — blanking loop nest included — equal to the model's `WGrid.translate`. Here the
headline theorems are restated about the translated three-axis code. The state of the object is the tuple (buffer, stored offsets 0, 1, 2)
the translated `translate_3` returns. Everything that touches it is a function translated from today's source:

* reads: `srcRead3` is the translated `WrappableGrid<int,3>::operator()(…) const` (`operator_call_const_3`: `buffer_[computeCellLinearIndex_(…)]`
  as `List.getD`), with the coefficients and sizes the translated `Grid::init` stores;
* writes: the NON-CONST `operator()` returns a reference into `buffer_`; the translator renders such a function as the LOCATION it returns
  (`operator_call_ref_3` = the index into `buffer_`); the caller's assignment `grid(i) = v` is `List.set` at that location (`srcStep3`);
* `translate`: `translate_3`; `setValue`: `Grid.setValue_3` (`std::fill` over the whole buffer).

`src_translate_refines_3`, `src_run_eq_3`, `src_history_3` are the three-axis counterparts of part 3 of `Bridge/C15Cor.lean`;
`src_setValue_reads_3` / `src_construct_3` tie the constructor path (`Grid::init` then `setValue`) to the model's `WGrid.init`.
For DIM = 2, `srcRead2_is_operator_call` / `srcStep2_set_is_operator_ref` state that the reads / writes of `src_history_2` are the translated
`operator()`s as well (by `rfl`).
-/
namespace Romea.Bridge.C15
open Romea Romea.WrapGrid Romea.C15 Romea.C15Grid

private theorem two64_eq4 : two64 = 18446744073709551616 := by decide

/-! ### DIM = 2: the reads and writes of `src_history_2` are the translated accessors -/

/-- `srcRead2` (part 3) is the translated `WrappableGrid<int,2>::operator()(…) const` -/
theorem srcRead2_is_operator_call (n0 n1 : Nat) (st : List Int × Int × Int) (i : List Nat) :
    srcRead2 n0 n1 st i =
      (let c := Src.C15.Grid.init_2 [] n0 n1
       Src.C15.WrappableGrid.operator_call_const_2 st.1 (i.getD 0 0) (i.getD 1 0) c.2.1 c.2.2.1 st.2.1 st.2.2 c.2.2.2.1 c.2.2.2.2) := rfl

/-- the write of `srcStep2` (part 3) is an assignment at the location the translated non-const `operator()` returns -/
theorem srcStep2_set_is_operator_ref (fuel n0 n1 : Nat) (st : List Int × Int × Int) (i : List Nat) (v : Int) :
    srcStep2 fuel n0 n1 st (.set i v) =
      (let c := Src.C15.Grid.init_2 [] n0 n1
       some (st.1.set (Src.C15.WrappableGrid.operator_call_ref_2 (i.getD 0 0) (i.getD 1 0) c.2.1 c.2.2.1 st.2.1 st.2.2 c.2.2.2.1 c.2.2.2.2).toNat v,
         st.2.1, st.2.2)) := rfl

/-- `Grid<int,DIM>::setValue` as translated: every cell of the buffer becomes the value, the length is kept -/
theorem setValue_bridge (buf : List Int) (v : Int) :
    Src.C15.Grid.setValue_2 buf v = List.replicate buf.length v ∧ Src.C15.Grid.setValue_3 buf v = List.replicate buf.length v :=
  ⟨rfl, rfl⟩

/-! ### DIM = 3 -/

/-- the LOCATION (index into `buffer_`) the translated non-const `operator()` returns, from a state's (integer) stored offsets -/
def srcRef3 (n0 n1 n2 : Nat) (a0 a1 a2 : Int) (i0 i1 i2 : Nat) : Int :=
  let c := Src.C15.Grid.init_3 [] n0 n1 n2
  Src.C15.WrappableGrid.operator_call_ref_3 i0 i1 i2 c.2.1 c.2.2.1 c.2.2.2.1 a0 a1 a2 c.2.2.2.2.1 c.2.2.2.2.2.1 c.2.2.2.2.2.2

/-- what the translated `operator() const` reads at a logical index (state = buffer, offsets) -/
def srcRead3 (n0 n1 n2 : Nat) (st : List Int × Int × Int × Int) : Window Int :=
  fun i =>
    let c := Src.C15.Grid.init_3 [] n0 n1 n2
    Src.C15.WrappableGrid.operator_call_const_3 st.1 (i.getD 0 0) (i.getD 1 0) (i.getD 2 0) c.2.1 c.2.2.1 c.2.2.2.1
      st.2.1 st.2.2.1 st.2.2.2 c.2.2.2.2.1 c.2.2.2.2.2.1 c.2.2.2.2.2.2

/-- the translated `translate` applied to a state, with the coefficients and sizes the translated `Grid::init` stores -/
def srcTranslate3 (fuel n0 n1 n2 : Nat) (st : List Int × Int × Int × Int) (d0 d1 d2 e : Int) : Option (List Int × Int × Int × Int) :=
  let c := Src.C15.Grid.init_3 [] n0 n1 n2
  Src.C15.WrappableGrid.translate_3 fuel st.1 e c.2.1 c.2.2.1 c.2.2.2.1 d0 d1 d2 st.2.1 st.2.2.1 st.2.2.2
    c.2.2.2.2.1 c.2.2.2.2.2.1 c.2.2.2.2.2.2

/-- one operation on the translated side: assignment through the reference the translated `operator()` returns, or the translated
    `translate` -/
def srcStep3 (fuel n0 n1 n2 : Nat) (st : List Int × Int × Int × Int) : Op Int → Option (List Int × Int × Int × Int)
  | .set i v => some (st.1.set (srcRef3 n0 n1 n2 st.2.1 st.2.2.1 st.2.2.2 (i.getD 0 0) (i.getD 1 0) (i.getD 2 0)).toNat v,
      st.2.1, st.2.2.1, st.2.2.2)
  | .tr δ e => srcTranslate3 fuel n0 n1 n2 st (δ.getD 0 0) (δ.getD 1 0) (δ.getD 2 0) e

/-- a history on the translated side (`none` = some translation ran out of fuel) -/
def srcRun3 (fuel n0 n1 n2 : Nat) : List Int × Int × Int × Int → List (Op Int) → Option (List Int × Int × Int × Int)
  | st, [] => some st
  | st, op :: ops =>
    match srcStep3 fuel n0 n1 n2 st op with
    | none => none
    | some st' => srcRun3 fuel n0 n1 n2 st' ops

/-- the facts about a well-formed three-axis grid used below, in components -/
private theorem three_axis (g : WGrid Int) (h : WF g) (hs : SizeOK g.dims) (n0 n1 n2 : Nat) (hd : g.dims = [n0, n1, n2]) :
    ∃ o0 o1 o2, g.off = [o0, o1, o2] ∧ g = ⟨[n0, n1, n2], [o0, o1, o2], g.buf⟩ ∧ o0 < n0 ∧ o1 < n1 ∧ o2 < n2 ∧ 0 < n0 ∧ 0 < n1 ∧ 0 < n2 ∧
      n0 < 2 ^ 62 ∧ n1 < 2 ^ 62 ∧ n2 < 2 ^ 62 ∧ g.buf.length = n0 * n1 * n2 := by
  have hoff := h.off_lt
  have hbl := h.buf_len
  rw [hd] at hoff hbl
  have s0 : n0 < 2 ^ 62 := by have := hs 0; rw [hd] at this; exact this
  have s1 : n1 < 2 ^ 62 := by have := hs 1; rw [hd] at this; exact this
  have s2 : n2 < 2 ^ 62 := by have := hs 2; rw [hd] at this; exact this
  have hc : cellCount [n0, n1, n2] = n0 * n1 * n2 := by simp [cellCount, Nat.mul_assoc]
  cases hgo : g.off with
  | nil => rw [hgo] at hoff; simp [InRange] at hoff
  | cons o0 t =>
    cases t with
    | nil => rw [hgo] at hoff; simp [InRange] at hoff
    | cons o1 t =>
      cases t with
      | nil => rw [hgo] at hoff; simp [InRange] at hoff
      | cons o2 t =>
        cases t with
        | cons _ _ => rw [hgo] at hoff; simp [InRange] at hoff
        | nil =>
          rw [hgo] at hoff
          simp only [InRange] at hoff
          refine ⟨o0, o1, o2, rfl, ?_, hoff.1, hoff.2.1, hoff.2.2.1, by omega, by omega, by omega, s0, s1, s2, by rw [hbl, hc]⟩
          cases g; simp_all

private theorem inRange_three {n0 n1 n2 : Nat} {i : List Nat} (hi : InRange [n0, n1, n2] i) :
    ∃ i0 i1 i2, i = [i0, i1, i2] ∧ i0 < n0 ∧ i1 < n1 ∧ i2 < n2 := by
  cases i with
  | nil => simp [InRange] at hi
  | cons i0 t =>
    cases t with
    | nil => simp [InRange] at hi
    | cons i1 t =>
      cases t with
      | nil => simp [InRange] at hi
      | cons i2 t =>
        cases t with
        | cons _ _ => simp [InRange] at hi
        | nil => simp only [InRange] at hi; exact ⟨i0, i1, i2, rfl, hi.1, hi.2.1, hi.2.2.1⟩

/-- on the encoding of a well-formed model grid the location the translated `operator()` returns is the model's linear index -/
private theorem srcRef3_enc (g : WGrid Int) (h : WF g) (hs : SizeOK g.dims) (hlen : g.buf.length < two64) (n0 n1 n2 : Nat)
    (hd : g.dims = [n0, n1, n2]) (i : List Nat) (hi : InRange g.dims i) :
    (srcRef3 n0 n1 n2 (enc3 g).2.1 (enc3 g).2.2.1 (enc3 g).2.2.2 (i.getD 0 0) (i.getD 1 0) (i.getD 2 0)).toNat = g.linIdx i := by
  obtain ⟨o0, o1, o2, ho, hg, ho0, ho1, ho2, hn0, hn1, hn2, s0, s1, s2, hbl⟩ := three_axis g h hs n0 n1 n2 hd
  have hi' := hi
  rw [hd] at hi'
  obtain ⟨i0, i1, i2, rfl, hi0, hi1, hi2⟩ := inRange_three hi'
  have hc : n0 * n1 * n2 < two64 := by rw [← hbl]; exact hlen
  have hc01 : n0 * n1 < 18446744073709551616 := by
    have : n0 * n1 ≤ n0 * n1 * n2 := Nat.le_mul_of_pos_right _ hn2
    rw [two64_eq4] at hc
    omega
  have hpm : ((n1 : Int) * (n0 : Int)) % 18446744073709551616 = ((n0 * n1 : Nat) : Int) := by
    have : ((n0 * n1 : Nat) : Int) = (n1 : Int) * (n0 : Int) := by simp [Int.mul_comm]
    omega
  have e := linIdx_3_bridge g.buf n0 n1 n2 o0 o1 o2 i0 i1 i2 hn0 hn1 hn2 hc (by rw [two64_eq4]; omega) (by rw [two64_eq4]; omega)
    (by rw [two64_eq4]; omega)
  rw [← hg] at e
  simp only [srcRef3, Src.C15.WrappableGrid.operator_call_ref_3, Src.C15.Grid.init_3, hpm, enc3, ho, List.getD_cons_zero,
    List.getD_cons_succ]
  rw [e, Int.toNat_natCast]

/-- reading the encoding of a well-formed model grid through the translated `operator() const` = the model's `get` -/
private theorem srcRead3_enc (g : WGrid Int) (h : WF g) (hs : SizeOK g.dims) (hlen : g.buf.length < two64) (n0 n1 n2 : Nat)
    (hd : g.dims = [n0, n1, n2]) (i : List Nat) (hi : InRange g.dims i) : srcRead3 n0 n1 n2 (enc3 g) i = g.get i := by
  have e := srcRef3_enc g h hs hlen n0 n1 n2 hd i hi
  simp only [srcRef3, Src.C15.WrappableGrid.operator_call_ref_3] at e
  simp only [srcRead3, Src.C15.WrappableGrid.operator_call_const_3]
  rw [e]
  rfl

private theorem translate_getD3 (g : WGrid Int) (hl : g.dims.length = 3) (δ : List Int) (e : Int) :
    g.translate δ e = g.translate [δ.getD 0 0, δ.getD 1 0, δ.getD 2 0] e := by
  unfold WGrid.translate
  rw [hl]
  rfl

/-- the translated `translate` on the encoding of a well-formed grid returns the encoding of the model's `translate` -/
private theorem srcTranslate3_enc (g : WGrid Int) (h : WF g) (hs : SizeOK g.dims) (hlen : g.buf.length < two64) (n0 n1 n2 : Nat)
    (hd : g.dims = [n0, n1, n2]) (δ : List Int) (e : Int) (fuel : Nat) (hfuel : g.buf.length + 1 ≤ fuel) :
    srcTranslate3 fuel n0 n1 n2 (enc3 g) (δ.getD 0 0) (δ.getD 1 0) (δ.getD 2 0) e = some (enc3 (g.translate δ e)) := by
  obtain ⟨o0, o1, o2, ho, hg, ho0, ho1, ho2, hn0, hn1, hn2, s0, s1, s2, hbl⟩ := three_axis g h hs n0 n1 n2 hd
  rw [translate_getD3 g (by rw [hd]; rfl) δ e]
  have hb := translate_3_bridge_init g.buf e (δ.getD 0 0) (δ.getD 1 0) (δ.getD 2 0) n0 n1 n2 o0 o1 o2 hn0 hn1 hn2 (by omega) (by omega)
    (by omega) (by rw [← hbl]; exact hlen) ho0 ho1 ho2 fuel (by rw [← hbl]; exact hfuel)
  rw [← hg] at hb
  simp only [srcTranslate3, enc3, ho, List.getD_cons_zero, List.getD_cons_succ]
  exact hb

private theorem spec_translate_congr3 (dims : List Nat) (δ : List Int) (e : Int) (w w' : Window Int)
    (hw : ∀ i, InRange dims i → w i = w' i) (i : List Nat) : Spec.translate dims δ e w i = Spec.translate dims δ e w' i := by
  unfold Spec.translate
  split
  · rename_i hin
    exact hw _ (Romea.C15Map.of_inWindow hin []).1
  · rfl

/-- **`C15.translate_refines` about the translated `translate_3`.** For a well-formed three-axis grid (sizes below 2^62, fewer than 2^64
    cells), every offset triple and every empty value, with fuel ≥ number of cells + 1: the translated `translate` (blanking loop nest,
    offset arithmetic and all) terminates; the new state has a buffer of the same length and stored offsets inside `[0, n)`; and reading
    it through the translated `operator() const` gives, at every in-range logical index, `Spec.translate` of what was read before: the
    cell `i` reads what `i + δ` read if that is inside the window on all three axes, else `e`. -/
theorem src_translate_refines_3 (g : WGrid Int) (h : WF g) (hs : SizeOK g.dims) (hlen : g.buf.length < two64) (n0 n1 n2 : Nat)
    (hd : g.dims = [n0, n1, n2]) (d0 d1 d2 e : Int) (fuel : Nat) (hfuel : g.buf.length + 1 ≤ fuel) :
    ∃ st', srcTranslate3 fuel n0 n1 n2 (enc3 g) d0 d1 d2 e = some st' ∧
      st'.1.length = g.buf.length ∧ 0 ≤ st'.2.1 ∧ st'.2.1 < n0 ∧ 0 ≤ st'.2.2.1 ∧ st'.2.2.1 < n1 ∧ 0 ≤ st'.2.2.2 ∧ st'.2.2.2 < n2 ∧
      ∀ i, InRange [n0, n1, n2] i →
        srcRead3 n0 n1 n2 st' i = Spec.translate [n0, n1, n2] [d0, d1, d2] e (srcRead3 n0 n1 n2 (enc3 g)) i := by
  obtain ⟨hwf, hdims, hget⟩ := translate_refines g h hs [d0, d1, d2] (by rw [hd]; rfl) e
  have hlen' : (g.translate [d0, d1, d2] e).buf.length = g.buf.length := by rw [hwf.buf_len, h.buf_len, hdims]
  have hd' : (g.translate [d0, d1, d2] e).dims = [n0, n1, n2] := by rw [hdims, hd]
  have hs' : SizeOK (g.translate [d0, d1, d2] e).dims := by rw [hdims]; exact hs
  obtain ⟨p0, p1, p2, hp, _, hp0, hp1, hp2, _⟩ := three_axis _ hwf hs' n0 n1 n2 hd'
  refine ⟨enc3 (g.translate [d0, d1, d2] e), srcTranslate3_enc g h hs hlen n0 n1 n2 hd [d0, d1, d2] e fuel hfuel, hlen',
    ?_, ?_, ?_, ?_, ?_, ?_, ?_⟩
  · simp only [enc3]; omega
  · simp only [enc3, hp, List.getD_cons_zero]; omega
  · simp only [enc3]; omega
  · simp only [enc3, hp, List.getD_cons_succ, List.getD_cons_zero]; omega
  · simp only [enc3]; omega
  · simp only [enc3, hp, List.getD_cons_succ, List.getD_cons_zero]; omega
  · intro i hi
    have hi1 : InRange g.dims i := by rw [hd]; exact hi
    rw [srcRead3_enc _ hwf hs' (by rw [hlen']; exact hlen) n0 n1 n2 hd' i (by rw [hd']; exact hi), hget i hi1, hd]
    exact spec_translate_congr3 [n0, n1, n2] [d0, d1, d2] e _ _
      (fun j hj => (srcRead3_enc g h hs hlen n0 n1 n2 hd j (by rw [hd]; exact hj)).symm) i

private theorem srcStep3_enc (g : WGrid Int) (h : WF g) (hs : SizeOK g.dims) (hlen : g.buf.length < two64) (n0 n1 n2 : Nat)
    (hd : g.dims = [n0, n1, n2]) (op : Op Int) (hop : OpOK g.dims op) (fuel : Nat) (hfuel : g.buf.length + 1 ≤ fuel) :
    srcStep3 fuel n0 n1 n2 (enc3 g) op = some (enc3 (g.step op)) := by
  cases op with
  | set j v =>
    simp only [srcStep3, WGrid.step]
    rw [srcRef3_enc g h hs hlen n0 n1 n2 hd j hop]
    rfl
  | tr δ e => exact srcTranslate3_enc g h hs hlen n0 n1 n2 hd δ e fuel hfuel

private theorem step_keeps3 (g : WGrid Int) (h : WF g) (hs : SizeOK g.dims) (op : Op Int) (hop : OpOK g.dims op) :
    WF (g.step op) ∧ (g.step op).dims = g.dims ∧ (g.step op).buf.length = g.buf.length := by
  have h12 : WF (g.step op) ∧ (g.step op).dims = g.dims := by
    cases op with
    | set j v => obtain ⟨h1, h2, _⟩ := set_refines g h j hop v; exact ⟨h1, h2⟩
    | tr δ e => obtain ⟨h1, h2, _⟩ := translate_refines g h hs δ hop.1 e; exact ⟨h1, h2⟩
  exact ⟨h12.1, h12.2, by rw [h12.1.buf_len, h.buf_len, h12.2]⟩

/-- **Any history executed by the translated three-axis code = the model's run.** Writes (through the reference the translated
    `operator()` returns) and translations (asserted preconditions `OpOK`) from the encoding of a well-formed three-axis grid, fuel ≥ number
    of cells + 1 per translation: no translation runs out of fuel and the final state is the encoding of the model's final grid -/
theorem src_run_eq_3 (ops : List (Op Int)) (g : WGrid Int) (h : WF g) (hs : SizeOK g.dims) (hlen : g.buf.length < two64)
    (n0 n1 n2 : Nat) (hd : g.dims = [n0, n1, n2]) (hops : ∀ op ∈ ops, OpOK g.dims op) (fuel : Nat) (hfuel : g.buf.length + 1 ≤ fuel) :
    srcRun3 fuel n0 n1 n2 (enc3 g) ops = some (enc3 (ops.foldl WGrid.step g)) := by
  induction ops generalizing g with
  | nil => rfl
  | cons op rest ih =>
    obtain ⟨h1, h2, h3⟩ := step_keeps3 g h hs op (hops op (by simp))
    simp only [srcRun3, srcStep3_enc g h hs hlen n0 n1 n2 hd op (hops op (by simp)) fuel hfuel, List.foldl_cons]
    exact ih (g.step op) h1 (by rw [h2]; exact hs) (by rw [h3]; exact hlen) (by rw [h2]; exact hd)
      (by rw [h2]; intro o ho; exact hops o (by simp [ho])) (by rw [h3]; exact hfuel)

private theorem spec_fold_congr3 (dims : List Nat) (ops : List (Op Int)) (w w' : Window Int)
    (hw : ∀ i, InRange dims i → w i = w' i) : ∀ i, InRange dims i →
      (ops.foldl (Spec.step dims) w) i = (ops.foldl (Spec.step dims) w') i := by
  induction ops generalizing w w' with
  | nil => exact hw
  | cons op rest ih =>
    rw [List.foldl_cons, List.foldl_cons]
    apply ih
    intro i hi
    cases op with
    | set j v =>
      simp only [Spec.step, Spec.set]
      split
      · rfl
      · exact hw i hi
    | tr δ e => exact spec_translate_congr3 dims δ e w w' hw i

/-- **`C15.history` about the translated code (DIM = 3).** After any sequence of writes and translated translations, what the translated
    `operator() const` reads at every in-range logical index is what the abstract window reads after the same sequence of abstract
    steps, starting from what was read at the beginning -/
theorem src_history_3 (ops : List (Op Int)) (g₀ : WGrid Int) (h : WF g₀) (hs : SizeOK g₀.dims) (hlen : g₀.buf.length < two64)
    (n0 n1 n2 : Nat) (hd : g₀.dims = [n0, n1, n2]) (hops : ∀ op ∈ ops, OpOK g₀.dims op) (fuel : Nat)
    (hfuel : g₀.buf.length + 1 ≤ fuel) :
    ∃ st, srcRun3 fuel n0 n1 n2 (enc3 g₀) ops = some st ∧ st.1.length = g₀.buf.length ∧
      ∀ i, InRange [n0, n1, n2] i →
        srcRead3 n0 n1 n2 st i = (ops.foldl (Spec.step [n0, n1, n2]) (srcRead3 n0 n1 n2 (enc3 g₀))) i := by
  obtain ⟨hwf, hdims, hget⟩ := history ops g₀ h hs hops
  have hlen' : (ops.foldl WGrid.step g₀).buf.length = g₀.buf.length := by rw [hwf.buf_len, h.buf_len, hdims]
  refine ⟨_, src_run_eq_3 ops g₀ h hs hlen n0 n1 n2 hd hops fuel hfuel, hlen', fun i hi => ?_⟩
  have hi0 : InRange g₀.dims i := by rw [hd]; exact hi
  rw [srcRead3_enc _ hwf (by rw [hdims]; exact hs) (by rw [hlen']; exact hlen) n0 n1 n2 (by rw [hdims, hd]) i
    (by rw [hdims]; exact hi0)]
  have := hget i hi0
  simp only [Romea.C15.abs] at this
  rw [this, hd]
  exact spec_fold_congr3 [n0, n1, n2] ops _ _ (fun j hj => (srcRead3_enc g₀ h hs hlen n0 n1 n2 hd j (by rw [hd]; exact hj)).symm) i hi

/-! ### the constructor path: `Grid::init` then `setValue`, as translated = the model's `WGrid.init` -/

/-- **The translated constructor path builds the model's initial grid.** `WrappableGrid(n)` runs the translated `Grid::init` on the empty
    buffer (offsets zero: `CellIndexes::Zero()`), then `setValue(v)` — the translated `std::fill`: for a cell count below 2^64 the state is
    the encoding of `WGrid.init [n0, n1, n2] v`, so every in-range read through the translated `operator() const` is `v` -/
theorem src_construct_3 (n0 n1 n2 : Nat) (hn0 : 0 < n0) (hn1 : 0 < n1) (hn2 : 0 < n2) (hs : SizeOK [n0, n1, n2])
    (hp : n0 * n1 * n2 < two64) (v : Int) :
    let st : List Int × Int × Int × Int := (Src.C15.Grid.setValue_3 (Src.C15.Grid.init_3 [] n0 n1 n2).1 v, 0, 0, 0)
    st = enc3 (WGrid.init [n0, n1, n2] v) ∧ ∀ i, InRange [n0, n1, n2] i → srcRead3 n0 n1 n2 st i = v := by
  have hc01 : n0 * n1 < two64 := by
    have : n0 * n1 ≤ n0 * n1 * n2 := Nat.le_mul_of_pos_right _ hn2
    omega
  obtain ⟨hl, _, _, _⟩ := init_3_bridge [] n0 n1 n2 hc01 hp
  have hst : (Src.C15.Grid.setValue_3 (Src.C15.Grid.init_3 [] n0 n1 n2).1 v, (0 : Int), (0 : Int), (0 : Int))
      = enc3 (WGrid.init [n0, n1, n2] v) := by
    simp only [enc3, WGrid.init, (setValue_bridge _ v).2, hl, List.map, List.getD_cons_zero, List.getD_cons_succ, Int.natCast_zero]
  refine ⟨hst, fun i hi => ?_⟩
  obtain ⟨hwf, hdims⟩ := init_wf [n0, n1, n2] (by intro n hn; simp at hn; rcases hn with rfl | rfl | rfl <;> assumption) v
  have hlen : (WGrid.init [n0, n1, n2] v).buf.length < two64 := by
    simp only [WGrid.init, List.length_replicate, cellCount, Nat.mul_one]
    rw [← Nat.mul_assoc]; exact hp
  show srcRead3 n0 n1 n2 (Src.C15.Grid.setValue_3 (Src.C15.Grid.init_3 [] n0 n1 n2).1 v, (0 : Int), (0 : Int), (0 : Int)) i = v
  rw [hst, srcRead3_enc _ hwf (by rw [hdims]; exact hs) hlen n0 n1 n2 hdims i (by rw [hdims]; exact hi)]
  have hpos := pos_lt hwf (i := i) (by rw [hdims]; exact hi)
  show (WGrid.init [n0, n1, n2] v).buf.getD _ default = v
  simp only [WGrid.init, List.length_replicate] at hpos ⊢
  rw [List.getD_eq_getElem?_getD, List.getElem?_replicate, if_pos hpos]
  rfl

/-! ### Non-vacuity (a 3 × 2 × 2 grid holding 1 … 12, evaluated through the generated definitions) -/

private def g322 : WGrid Int := ⟨[3, 2, 2], [0, 0, 0], [1, 2, 3, 4, 5, 6, 7, 8, 9, 10, 11, 12]⟩

example : WF g322 := ⟨by simp [g322, InRange], by simp [g322, cellCount]⟩
example : SizeOK g322.dims := by intro a; rcases a with _ | _ | _ | a <;> simp [g322]
example : g322.buf.length < two64 ∧ g322.buf.length + 1 ≤ 13 := by decide
-- offsets (1, -1, 1): logical (0, 1, 0) reads what (1, 0, 1) read (= 8); logical (2, 1, 0) reads the empty value (x = 3 is outside)
example : (srcTranslate3 13 3 2 2 (enc3 g322) 1 (-1) 1 0).map
    (fun st => (srcRead3 3 2 2 st [0, 1, 0], srcRead3 3 2 2 st [2, 1, 0], srcRead3 3 2 2 st [1, 1, 0])) = some (8, 0, 9) := by decide
example : Spec.translate [3, 2, 2] [1, -1, 1] 0 (srcRead3 3 2 2 (enc3 g322)) [0, 1, 0] = 8 ∧
    Spec.translate [3, 2, 2] [1, -1, 1] 0 (srcRead3 3 2 2 (enc3 g322)) [2, 1, 0] = 0 := by decide
-- a history: write through the returned reference, translate (1, -1, 1), read back
example : (srcRun3 13 3 2 2 (enc3 g322) [.set [1, 0, 1] 77, .tr [1, -1, 1] 0]).map (fun st => srcRead3 3 2 2 st [0, 1, 0]) = some 77 := by
  decide
-- the constructor path on a 3 × 2 × 2 grid
example : (Src.C15.Grid.setValue_3 (Src.C15.Grid.init_3 [] 3 2 2).1 5) = List.replicate 12 5 := by decide

end Romea.Bridge.C15
