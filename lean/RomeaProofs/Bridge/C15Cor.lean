import RomeaProofs.Bridge.C15
import RomeaProofs.Properties.C15

/-!
# Bridge C15, part 2: `C15.accesses_in_bounds` and the injectivity behind `C15.set_refines`, restated about the linear index
computed by the functions translated from today's source (`Romea.Src.C15.*`, regenerated from `/repo` on every run), for the 2- and
3-axis instantiations: on a well-formed grid (`WF`: offsets below the sizes, one buffer slot per cell) whose axes have fewer than
2^62 cells and whose buffer has fewer than 2^64 slots, the translated `computeCellLinearIndex_` of an in-range index — evaluated with
the coefficients the translated `Grid::init` stores — is a valid buffer position, and different in-range indexes get different
positions (so a write through `operator()` changes exactly the addressed cell).
-/
namespace Romea.Bridge.C15
open Romea Romea.WrapGrid Romea.C15 Romea.C15Grid

variable {T : Type}

private theorem two64_eq' : two64 = 18446744073709551616 := by decide

/-- the linear index the translated 2-axis code computes for the logical index `(i0, i1)` of the grid `g` -/
def srcIndex2 (n0 n1 o0 o1 i0 i1 : Nat) : Int :=
  let c := Src.C15.Grid.init_2 [] n0 n1
  Src.C15.WrappableGrid.computeCellLinearIndex__2 i0 i1 c.2.1 c.2.2.1 o0 o1 c.2.2.2.1 c.2.2.2.2

/-- the linear index the translated 3-axis code computes -/
def srcIndex3 (n0 n1 n2 o0 o1 o2 i0 i1 i2 : Nat) : Int :=
  let c := Src.C15.Grid.init_3 [] n0 n1 n2
  Src.C15.WrappableGrid.computeCellLinearIndex__3 i0 i1 i2 c.2.1 c.2.2.1 c.2.2.2.1 o0 o1 o2 c.2.2.2.2.1 c.2.2.2.2.2.1 c.2.2.2.2.2.2

private theorem srcIndex2_eq (g : WGrid T) (h : WF g) (hs : SizeOK g.dims) (hlen : g.buf.length < two64)
    (n0 n1 o0 o1 : Nat) (hd : g.dims = [n0, n1]) (ho : g.off = [o0, o1]) (i0 i1 : Nat) (hi : InRange g.dims [i0, i1]) :
    srcIndex2 n0 n1 o0 o1 i0 i1 = ((g.linIdx [i0, i1] : Nat) : Int) := by
  have hoff := h.off_lt
  have hbl := h.buf_len
  rw [hd] at hi hbl
  rw [hd, ho] at hoff
  simp only [InRange] at hi hoff
  have s0 : n0 < 2 ^ 62 := by have := hs 0; rw [hd] at this; exact this
  have s1 : n1 < 2 ^ 62 := by have := hs 1; rw [hd] at this; exact this
  have hc : n0 * n1 < two64 := by
    have : cellCount [n0, n1] = n0 * n1 := by simp [cellCount]
    rw [← this, ← hbl]; exact hlen
  have hp : ((n0 : Int) * (n1 : Int)) % 18446744073709551616 = ((n0 * n1 : Nat) : Int) := by
    rw [two64_eq'] at hc
    have : ((n0 * n1 : Nat) : Int) = (n0 : Int) * (n1 : Int) := by simp
    omega
  have e := linIdx_2_bridge g.buf n0 n1 o0 o1 i0 i1 (by omega) (by omega) hc (by rw [two64_eq']; omega) (by rw [two64_eq']; omega)
  have hg : g = ⟨[n0, n1], [o0, o1], g.buf⟩ := by cases g; simp_all
  rw [hg]
  simp only [srcIndex2, Src.C15.Grid.init_2]
  exact e

private theorem srcIndex3_eq (g : WGrid T) (h : WF g) (hs : SizeOK g.dims) (hlen : g.buf.length < two64)
    (n0 n1 n2 o0 o1 o2 : Nat) (hd : g.dims = [n0, n1, n2]) (ho : g.off = [o0, o1, o2]) (i0 i1 i2 : Nat)
    (hi : InRange g.dims [i0, i1, i2]) :
    srcIndex3 n0 n1 n2 o0 o1 o2 i0 i1 i2 = ((g.linIdx [i0, i1, i2] : Nat) : Int) := by
  have hoff := h.off_lt
  have hbl := h.buf_len
  rw [hd] at hi hbl
  rw [hd, ho] at hoff
  simp only [InRange] at hi hoff
  have s0 : n0 < 2 ^ 62 := by have := hs 0; rw [hd] at this; exact this
  have s1 : n1 < 2 ^ 62 := by have := hs 1; rw [hd] at this; exact this
  have s2 : n2 < 2 ^ 62 := by have := hs 2; rw [hd] at this; exact this
  have hc : n0 * n1 * n2 < two64 := by
    have : cellCount [n0, n1, n2] = n0 * n1 * n2 := by simp [cellCount, Nat.mul_assoc]
    rw [← this, ← hbl]; exact hlen
  have hc01 : n0 * n1 < two64 := by
    have : n0 * n1 ≤ n0 * n1 * n2 := Nat.le_mul_of_pos_right _ (by omega)
    omega
  have hp : ((n1 : Int) * (n0 : Int)) % 18446744073709551616 = ((n0 * n1 : Nat) : Int) := by
    rw [two64_eq'] at hc01
    have : ((n0 * n1 : Nat) : Int) = (n1 : Int) * (n0 : Int) := by simp [Int.mul_comm]
    omega
  have hp' : ((n0 : Int) * (n1 : Int)) % 18446744073709551616 = ((n0 * n1 : Nat) : Int) := by
    rw [Int.mul_comm]; exact hp
  have e := linIdx_3_bridge g.buf n0 n1 n2 o0 o1 o2 i0 i1 i2 (by omega) (by omega) (by omega) hc (by rw [two64_eq']; omega)
    (by rw [two64_eq']; omega) (by rw [two64_eq']; omega)
  have hg : g = ⟨[n0, n1, n2], [o0, o1, o2], g.buf⟩ := by cases g; simp_all
  rw [hg]
  simp only [srcIndex3, Src.C15.Grid.init_3]
  first | rw [hp] | rw [hp']
  exact e

/-- **`C15.accesses_in_bounds` about the translated 2-axis index computation**, and injectivity (`C15Grid.pos_inj`) -/
theorem src_access_2 (g : WGrid T) (h : WF g) (hs : SizeOK g.dims) (hlen : g.buf.length < two64)
    (n0 n1 o0 o1 : Nat) (hd : g.dims = [n0, n1]) (ho : g.off = [o0, o1]) :
    (∀ i0 i1, InRange g.dims [i0, i1] →
      0 ≤ srcIndex2 n0 n1 o0 o1 i0 i1 ∧ srcIndex2 n0 n1 o0 o1 i0 i1 < (g.buf.length : Int)) ∧
    (∀ i0 i1 j0 j1, InRange g.dims [i0, i1] → InRange g.dims [j0, j1] →
      srcIndex2 n0 n1 o0 o1 i0 i1 = srcIndex2 n0 n1 o0 o1 j0 j1 → (i0, i1) = (j0, j1)) := by
  refine ⟨fun i0 i1 hi => ?_, fun i0 i1 j0 j1 hi hj e => ?_⟩
  · rw [srcIndex2_eq g h hs hlen n0 n1 o0 o1 hd ho i0 i1 hi]
    have := (accesses_in_bounds g h hs).1 [i0, i1] hi
    omega
  · rw [srcIndex2_eq g h hs hlen n0 n1 o0 o1 hd ho i0 i1 hi, srcIndex2_eq g h hs hlen n0 n1 o0 o1 hd ho j0 j1 hj] at e
    have := pos_inj h hi hj (by omega)
    simp only [List.cons.injEq, and_true] at this
    exact Prod.ext this.1 this.2

/-- **`C15.accesses_in_bounds` about the translated 3-axis index computation**, and injectivity -/
theorem src_access_3 (g : WGrid T) (h : WF g) (hs : SizeOK g.dims) (hlen : g.buf.length < two64)
    (n0 n1 n2 o0 o1 o2 : Nat) (hd : g.dims = [n0, n1, n2]) (ho : g.off = [o0, o1, o2]) :
    (∀ i0 i1 i2, InRange g.dims [i0, i1, i2] →
      0 ≤ srcIndex3 n0 n1 n2 o0 o1 o2 i0 i1 i2 ∧ srcIndex3 n0 n1 n2 o0 o1 o2 i0 i1 i2 < (g.buf.length : Int)) ∧
    (∀ i0 i1 i2 j0 j1 j2, InRange g.dims [i0, i1, i2] → InRange g.dims [j0, j1, j2] →
      srcIndex3 n0 n1 n2 o0 o1 o2 i0 i1 i2 = srcIndex3 n0 n1 n2 o0 o1 o2 j0 j1 j2 → (i0, i1, i2) = (j0, j1, j2)) := by
  refine ⟨fun i0 i1 i2 hi => ?_, fun i0 i1 i2 j0 j1 j2 hi hj e => ?_⟩
  · rw [srcIndex3_eq g h hs hlen n0 n1 n2 o0 o1 o2 hd ho i0 i1 i2 hi]
    have := (accesses_in_bounds g h hs).1 [i0, i1, i2] hi
    omega
  · rw [srcIndex3_eq g h hs hlen n0 n1 n2 o0 o1 o2 hd ho i0 i1 i2 hi,
      srcIndex3_eq g h hs hlen n0 n1 n2 o0 o1 o2 hd ho j0 j1 j2 hj] at e
    have := pos_inj h hi hj (by omega)
    simp only [List.cons.injEq, and_true] at this
    exact Prod.ext this.1 (Prod.ext this.2.1 this.2.2)

end Romea.Bridge.C15
