import RomeaProofs.Bridge.C15
import RomeaProofs.Bridge.C15Loop
import RomeaProofs.Properties.C15

/-!
# Bridge C15, part 2: `C15.accesses_in_bounds` and the injectivity behind `C15.set_refines`, restated about the linear index
computed by the functions translated from today's source (`Romea.Src.C15.*`, regenerated from `/repo` on every run), for the 2- and
3-axis instantiations: on a well-formed grid (`WF`: offsets below the sizes, one buffer slot per cell) whose axes have fewer than
2^62 cells and whose buffer has fewer than 2^64 slots, the translated `computeCellLinearIndex_` of an in-range index — evaluated with
the coefficients the translated `Grid::init` stores — is a valid buffer position, and different in-range indexes get different
positions (so a write through `operator()` changes exactly the addressed cell).

Part 3 (after `Bridge/C15Loop.lean`, which proves the translated `translate_2` — blanking loop nest included — equal to the model's
`WGrid.translate`): `C15.translate_refines` and `C15.history` restated about the TRANSLATED code for DIM = 2. The state of the object is the
triple (buffer, stored offset 0, stored offset 1) the translated `translate_2` returns; `srcRead2` reads it through the translated
`computeCellLinearIndex_` with the coefficients of the translated `Grid::init`. `src_translate_refines_2`: after the translated translate,
reading through the translated linear index gives `Spec.translate` of what was read before. `src_run_eq_2` / `src_history_2`: any
sequence of writes (a `List.set` at the translated linear index — `operator()` itself is a one-line accessor that is not translated) and
translated translations keeps that reading equal to the abstract window after the same abstract steps.
-/
namespace Romea.Bridge.C15
open Romea Romea.WrapGrid Romea.C15 Romea.C15Grid

variable {T : Type}

private theorem two64_eq' : two64 = 18446744073709551616 := by decide

/-- the linear index the translated 2-axis code computes for the logical index `(i0, i1)` of the grid `g` -/
def srcIndex2 (n0 n1 o0 o1 i0 i1 : Nat) : Int :=
  let c := Src.C15.Grid.init_2 [] n0 n1
  Src.C15.WrappableGrid.computeCellLinearIndex__2 i0 i1 c.2.1 c.2.2.1 o0 o1 c.2.2.2.1 c.2.2.2.2

/-- the linear index the translated 3-axis code computes -/
def srcIndex3 (n0 n1 n2 o0 o1 o2 i0 i1 i2 : Nat) : Int :=
  let c := Src.C15.Grid.init_3 [] n0 n1 n2
  Src.C15.WrappableGrid.computeCellLinearIndex__3 i0 i1 i2 c.2.1 c.2.2.1 c.2.2.2.1 o0 o1 o2 c.2.2.2.2.1 c.2.2.2.2.2.1 c.2.2.2.2.2.2

private theorem srcIndex2_eq (g : WGrid T) (h : WF g) (hs : SizeOK g.dims) (hlen : g.buf.length < two64)
    (n0 n1 o0 o1 : Nat) (hd : g.dims = [n0, n1]) (ho : g.off = [o0, o1]) (i0 i1 : Nat) (hi : InRange g.dims [i0, i1]) :
    srcIndex2 n0 n1 o0 o1 i0 i1 = ((g.linIdx [i0, i1] : Nat) : Int) := by
  have hoff := h.off_lt
  have hbl := h.buf_len
  rw [hd] at hi hbl
  rw [hd, ho] at hoff
  simp only [InRange] at hi hoff
  have s0 : n0 < 2 ^ 62 := by have := hs 0; rw [hd] at this; exact this
  have s1 : n1 < 2 ^ 62 := by have := hs 1; rw [hd] at this; exact this
  have hc : n0 * n1 < two64 := by
    have : cellCount [n0, n1] = n0 * n1 := by simp [cellCount]
    rw [← this, ← hbl]; exact hlen
  have hp : ((n0 : Int) * (n1 : Int)) % 18446744073709551616 = ((n0 * n1 : Nat) : Int) := by
    rw [two64_eq'] at hc
    have : ((n0 * n1 : Nat) : Int) = (n0 : Int) * (n1 : Int) := by simp
    omega
  have e := linIdx_2_bridge g.buf n0 n1 o0 o1 i0 i1 (by omega) (by omega) hc (by rw [two64_eq']; omega) (by rw [two64_eq']; omega)
  have hg : g = ⟨[n0, n1], [o0, o1], g.buf⟩ := by cases g; simp_all
  rw [hg]
  simp only [srcIndex2, Src.C15.Grid.init_2]
  exact e

private theorem srcIndex3_eq (g : WGrid T) (h : WF g) (hs : SizeOK g.dims) (hlen : g.buf.length < two64)
    (n0 n1 n2 o0 o1 o2 : Nat) (hd : g.dims = [n0, n1, n2]) (ho : g.off = [o0, o1, o2]) (i0 i1 i2 : Nat)
    (hi : InRange g.dims [i0, i1, i2]) :
    srcIndex3 n0 n1 n2 o0 o1 o2 i0 i1 i2 = ((g.linIdx [i0, i1, i2] : Nat) : Int) := by
  have hoff := h.off_lt
  have hbl := h.buf_len
  rw [hd] at hi hbl
  rw [hd, ho] at hoff
  simp only [InRange] at hi hoff
  have s0 : n0 < 2 ^ 62 := by have := hs 0; rw [hd] at this; exact this
  have s1 : n1 < 2 ^ 62 := by have := hs 1; rw [hd] at this; exact this
  have s2 : n2 < 2 ^ 62 := by have := hs 2; rw [hd] at this; exact this
  have hc : n0 * n1 * n2 < two64 := by
    have : cellCount [n0, n1, n2] = n0 * n1 * n2 := by simp [cellCount, Nat.mul_assoc]
    rw [← this, ← hbl]; exact hlen
  have hc01 : n0 * n1 < two64 := by
    have : n0 * n1 ≤ n0 * n1 * n2 := Nat.le_mul_of_pos_right _ (by omega)
    omega
  have hp : ((n1 : Int) * (n0 : Int)) % 18446744073709551616 = ((n0 * n1 : Nat) : Int) := by
    rw [two64_eq'] at hc01
    have : ((n0 * n1 : Nat) : Int) = (n1 : Int) * (n0 : Int) := by simp [Int.mul_comm]
    omega
  have hp' : ((n0 : Int) * (n1 : Int)) % 18446744073709551616 = ((n0 * n1 : Nat) : Int) := by
    rw [Int.mul_comm]; exact hp
  have e := linIdx_3_bridge g.buf n0 n1 n2 o0 o1 o2 i0 i1 i2 (by omega) (by omega) (by omega) hc (by rw [two64_eq']; omega)
    (by rw [two64_eq']; omega) (by rw [two64_eq']; omega)
  have hg : g = ⟨[n0, n1, n2], [o0, o1, o2], g.buf⟩ := by cases g; simp_all
  rw [hg]
  simp only [srcIndex3, Src.C15.Grid.init_3]
  first | rw [hp] | rw [hp']
  exact e

/-- **`C15.accesses_in_bounds` about the translated 2-axis index computation**, and injectivity (`C15Grid.pos_inj`) -/
theorem src_access_2 (g : WGrid T) (h : WF g) (hs : SizeOK g.dims) (hlen : g.buf.length < two64)
    (n0 n1 o0 o1 : Nat) (hd : g.dims = [n0, n1]) (ho : g.off = [o0, o1]) :
    (∀ i0 i1, InRange g.dims [i0, i1] →
      0 ≤ srcIndex2 n0 n1 o0 o1 i0 i1 ∧ srcIndex2 n0 n1 o0 o1 i0 i1 < (g.buf.length : Int)) ∧
    (∀ i0 i1 j0 j1, InRange g.dims [i0, i1] → InRange g.dims [j0, j1] →
      srcIndex2 n0 n1 o0 o1 i0 i1 = srcIndex2 n0 n1 o0 o1 j0 j1 → (i0, i1) = (j0, j1)) := by
  refine ⟨fun i0 i1 hi => ?_, fun i0 i1 j0 j1 hi hj e => ?_⟩
  · rw [srcIndex2_eq g h hs hlen n0 n1 o0 o1 hd ho i0 i1 hi]
    have := (accesses_in_bounds g h hs).1 [i0, i1] hi
    omega
  · rw [srcIndex2_eq g h hs hlen n0 n1 o0 o1 hd ho i0 i1 hi, srcIndex2_eq g h hs hlen n0 n1 o0 o1 hd ho j0 j1 hj] at e
    have := pos_inj h hi hj (by omega)
    simp only [List.cons.injEq, and_true] at this
    exact Prod.ext this.1 this.2

/-- **`C15.accesses_in_bounds` about the translated 3-axis index computation**, and injectivity -/
theorem src_access_3 (g : WGrid T) (h : WF g) (hs : SizeOK g.dims) (hlen : g.buf.length < two64)
    (n0 n1 n2 o0 o1 o2 : Nat) (hd : g.dims = [n0, n1, n2]) (ho : g.off = [o0, o1, o2]) :
    (∀ i0 i1 i2, InRange g.dims [i0, i1, i2] →
      0 ≤ srcIndex3 n0 n1 n2 o0 o1 o2 i0 i1 i2 ∧ srcIndex3 n0 n1 n2 o0 o1 o2 i0 i1 i2 < (g.buf.length : Int)) ∧
    (∀ i0 i1 i2 j0 j1 j2, InRange g.dims [i0, i1, i2] → InRange g.dims [j0, j1, j2] →
      srcIndex3 n0 n1 n2 o0 o1 o2 i0 i1 i2 = srcIndex3 n0 n1 n2 o0 o1 o2 j0 j1 j2 → (i0, i1, i2) = (j0, j1, j2)) := by
  refine ⟨fun i0 i1 i2 hi => ?_, fun i0 i1 i2 j0 j1 j2 hi hj e => ?_⟩
  · rw [srcIndex3_eq g h hs hlen n0 n1 n2 o0 o1 o2 hd ho i0 i1 i2 hi]
    have := (accesses_in_bounds g h hs).1 [i0, i1, i2] hi
    omega
  · rw [srcIndex3_eq g h hs hlen n0 n1 n2 o0 o1 o2 hd ho i0 i1 i2 hi,
      srcIndex3_eq g h hs hlen n0 n1 n2 o0 o1 o2 hd ho j0 j1 j2 hj] at e
    have := pos_inj h hi hj (by omega)
    simp only [List.cons.injEq, and_true] at this
    exact Prod.ext this.1 (Prod.ext this.2.1 this.2.2)

/-! ## Part 3: `translate_refines` and `history` about the translated `translate_2` -/

/-- the linear index the translated 2-axis code computes from a state's (integer) stored offsets -/
def srcIdx2 (n0 n1 : Nat) (a0 a1 : Int) (i0 i1 : Nat) : Int :=
  let c := Src.C15.Grid.init_2 [] n0 n1
  Src.C15.WrappableGrid.computeCellLinearIndex__2 i0 i1 c.2.1 c.2.2.1 a0 a1 c.2.2.2.1 c.2.2.2.2

/-- what the translated code reads at a logical index: the buffer at the translated linear index (state = buffer, offsets) -/
def srcRead2 (n0 n1 : Nat) (st : List Int × Int × Int) : Window Int :=
  fun i => st.1.getD (srcIdx2 n0 n1 st.2.1 st.2.2 (i.getD 0 0) (i.getD 1 0)).toNat default

/-- the translated `translate` applied to a state, with the coefficients and sizes the translated `Grid::init` stores -/
def srcTranslate2 (fuel n0 n1 : Nat) (st : List Int × Int × Int) (d0 d1 e : Int) : Option (List Int × Int × Int) :=
  let c := Src.C15.Grid.init_2 [] n0 n1
  Src.C15.WrappableGrid.translate_2 fuel st.1 e c.2.1 c.2.2.1 d0 d1 st.2.1 st.2.2 c.2.2.2.1 c.2.2.2.2

/-- one operation on the translated side: assignment at the translated linear index, or the translated `translate` -/
def srcStep2 (fuel n0 n1 : Nat) (st : List Int × Int × Int) : Op Int → Option (List Int × Int × Int)
  | .set i v => some (st.1.set (srcIdx2 n0 n1 st.2.1 st.2.2 (i.getD 0 0) (i.getD 1 0)).toNat v, st.2.1, st.2.2)
  | .tr δ e => srcTranslate2 fuel n0 n1 st (δ.getD 0 0) (δ.getD 1 0) e

/-- a history on the translated side (`none` = some translation ran out of fuel) -/
def srcRun2 (fuel n0 n1 : Nat) : List Int × Int × Int → List (Op Int) → Option (List Int × Int × Int)
  | st, [] => some st
  | st, op :: ops =>
    match srcStep2 fuel n0 n1 st op with
    | none => none
    | some st' => srcRun2 fuel n0 n1 st' ops

/-- the facts about a well-formed two-axis grid used below, in components -/
private theorem two_axis (g : WGrid Int) (h : WF g) (hs : SizeOK g.dims) (n0 n1 : Nat) (hd : g.dims = [n0, n1]) :
    ∃ o0 o1, g.off = [o0, o1] ∧ g = ⟨[n0, n1], [o0, o1], g.buf⟩ ∧ o0 < n0 ∧ o1 < n1 ∧ 0 < n0 ∧ 0 < n1 ∧ n0 < 2 ^ 62 ∧ n1 < 2 ^ 62 ∧
      g.buf.length = n0 * n1 := by
  have hoff := h.off_lt
  have hbl := h.buf_len
  rw [hd] at hoff hbl
  have s0 : n0 < 2 ^ 62 := by have := hs 0; rw [hd] at this; exact this
  have s1 : n1 < 2 ^ 62 := by have := hs 1; rw [hd] at this; exact this
  have hc : cellCount [n0, n1] = n0 * n1 := by simp [cellCount]
  cases hgo : g.off with
  | nil => rw [hgo] at hoff; simp [InRange] at hoff
  | cons o0 t =>
    cases t with
    | nil => rw [hgo] at hoff; simp [InRange] at hoff
    | cons o1 t =>
      cases t with
      | cons _ _ => rw [hgo] at hoff; simp [InRange] at hoff
      | nil =>
        rw [hgo] at hoff
        simp only [InRange] at hoff
        refine ⟨o0, o1, rfl, ?_, hoff.1, hoff.2.1, by omega, by omega, s0, s1, by rw [hbl, hc]⟩
        cases g; simp_all

private theorem inRange_two {n0 n1 : Nat} {i : List Nat} (hi : InRange [n0, n1] i) :
    ∃ i0 i1, i = [i0, i1] ∧ i0 < n0 ∧ i1 < n1 := by
  cases i with
  | nil => simp [InRange] at hi
  | cons i0 t =>
    cases t with
    | nil => simp [InRange] at hi
    | cons i1 t =>
      cases t with
      | cons _ _ => simp [InRange] at hi
      | nil => simp only [InRange] at hi; exact ⟨i0, i1, rfl, hi.1, hi.2.1⟩

/-- on the encoding of a well-formed model grid the translated linear index is the model's -/
private theorem srcIdx2_enc (g : WGrid Int) (h : WF g) (hs : SizeOK g.dims) (hlen : g.buf.length < two64) (n0 n1 : Nat)
    (hd : g.dims = [n0, n1]) (i : List Nat) (hi : InRange g.dims i) :
    (srcIdx2 n0 n1 (enc2 g).2.1 (enc2 g).2.2 (i.getD 0 0) (i.getD 1 0)).toNat = g.linIdx i := by
  obtain ⟨o0, o1, ho, _, _⟩ := two_axis g h hs n0 n1 hd
  have hi' := hi
  rw [hd] at hi'
  obtain ⟨i0, i1, rfl, _, _⟩ := inRange_two hi'
  have e := srcIndex2_eq g h hs hlen n0 n1 o0 o1 hd ho i0 i1 hi
  simp only [enc2, ho, List.getD_cons_zero, List.getD_cons_succ]
  show (srcIndex2 n0 n1 o0 o1 i0 i1).toNat = _
  rw [e, Int.toNat_natCast]

/-- reading the encoding of a well-formed model grid through the translated index = the model's `get` -/
private theorem srcRead2_enc (g : WGrid Int) (h : WF g) (hs : SizeOK g.dims) (hlen : g.buf.length < two64) (n0 n1 : Nat)
    (hd : g.dims = [n0, n1]) (i : List Nat) (hi : InRange g.dims i) : srcRead2 n0 n1 (enc2 g) i = g.get i := by
  unfold srcRead2
  rw [srcIdx2_enc g h hs hlen n0 n1 hd i hi]
  rfl

private theorem translate_getD (g : WGrid Int) (hl : g.dims.length = 2) (δ : List Int) (e : Int) :
    g.translate δ e = g.translate [δ.getD 0 0, δ.getD 1 0] e := by
  unfold WGrid.translate
  rw [hl]
  rfl

/-- the translated `translate` on the encoding of a well-formed grid returns the encoding of the model's `translate` -/
private theorem srcTranslate2_enc (g : WGrid Int) (h : WF g) (hs : SizeOK g.dims) (hlen : g.buf.length < two64) (n0 n1 : Nat)
    (hd : g.dims = [n0, n1]) (δ : List Int) (e : Int) (fuel : Nat) (hfuel : g.buf.length + 1 ≤ fuel) :
    srcTranslate2 fuel n0 n1 (enc2 g) (δ.getD 0 0) (δ.getD 1 0) e = some (enc2 (g.translate δ e)) := by
  obtain ⟨o0, o1, ho, hg, ho0, ho1, hn0, hn1, s0, s1, hbl⟩ := two_axis g h hs n0 n1 hd
  rw [translate_getD g (by rw [hd]; rfl) δ e]
  have hb := translate_2_bridge_init g.buf e (δ.getD 0 0) (δ.getD 1 0) n0 n1 o0 o1 hn0 hn1 (by omega) (by omega)
    (by rw [← hbl]; exact hlen) ho0 ho1 fuel (by rw [← hbl]; exact hfuel)
  rw [← hg] at hb
  simp only [srcTranslate2, enc2, ho, List.getD_cons_zero, List.getD_cons_succ]
  exact hb

private theorem spec_translate_congr (dims : List Nat) (δ : List Int) (e : Int) (w w' : Window Int)
    (hw : ∀ i, InRange dims i → w i = w' i) (i : List Nat) : Spec.translate dims δ e w i = Spec.translate dims δ e w' i := by
  unfold Spec.translate
  split
  · rename_i hin
    exact hw _ (Romea.C15Map.of_inWindow hin []).1
  · rfl

/-- **`C15.translate_refines` about the translated `translate_2`.** For a well-formed two-axis grid (sizes below 2^62, fewer than 2^64
    cells), every offset pair and every empty value, with fuel ≥ number of cells + 1: the translated `translate` (blanking loop nest,
    offset arithmetic and all) terminates; the new state has a buffer of the same length and stored offsets inside `[0, n)`; and reading
    it through the translated linear index gives, at every in-range logical index, `Spec.translate` of what was read before: the cell
    `i` reads what `i + δ` read if that is inside the window on both axes, else `e`. -/
theorem src_translate_refines_2 (g : WGrid Int) (h : WF g) (hs : SizeOK g.dims) (hlen : g.buf.length < two64) (n0 n1 : Nat)
    (hd : g.dims = [n0, n1]) (d0 d1 e : Int) (fuel : Nat) (hfuel : g.buf.length + 1 ≤ fuel) :
    ∃ st', srcTranslate2 fuel n0 n1 (enc2 g) d0 d1 e = some st' ∧
      st'.1.length = g.buf.length ∧ 0 ≤ st'.2.1 ∧ st'.2.1 < n0 ∧ 0 ≤ st'.2.2 ∧ st'.2.2 < n1 ∧
      ∀ i, InRange [n0, n1] i → srcRead2 n0 n1 st' i = Spec.translate [n0, n1] [d0, d1] e (srcRead2 n0 n1 (enc2 g)) i := by
  obtain ⟨hwf, hdims, hget⟩ := translate_refines g h hs [d0, d1] (by rw [hd]; rfl) e
  have hlen' : (g.translate [d0, d1] e).buf.length = g.buf.length := by rw [hwf.buf_len, h.buf_len, hdims]
  have hd' : (g.translate [d0, d1] e).dims = [n0, n1] := by rw [hdims, hd]
  have hs' : SizeOK (g.translate [d0, d1] e).dims := by rw [hdims]; exact hs
  obtain ⟨p0, p1, hp, _, hp0, hp1, _⟩ := two_axis _ hwf hs' n0 n1 hd'
  refine ⟨enc2 (g.translate [d0, d1] e), srcTranslate2_enc g h hs hlen n0 n1 hd [d0, d1] e fuel hfuel, hlen', ?_, ?_, ?_, ?_, ?_⟩
  · simp only [enc2]; omega
  · simp only [enc2, hp, List.getD_cons_zero]; omega
  · simp only [enc2]; omega
  · simp only [enc2, hp, List.getD_cons_succ, List.getD_cons_zero]; omega
  · intro i hi
    have hi1 : InRange g.dims i := by rw [hd]; exact hi
    rw [srcRead2_enc _ hwf hs' (by rw [hlen']; exact hlen) n0 n1 hd' i (by rw [hd']; exact hi), hget i hi1, hd]
    exact spec_translate_congr [n0, n1] [d0, d1] e _ _
      (fun j hj => (srcRead2_enc g h hs hlen n0 n1 hd j (by rw [hd]; exact hj)).symm) i

private theorem srcStep2_enc (g : WGrid Int) (h : WF g) (hs : SizeOK g.dims) (hlen : g.buf.length < two64) (n0 n1 : Nat)
    (hd : g.dims = [n0, n1]) (op : Op Int) (hop : OpOK g.dims op) (fuel : Nat) (hfuel : g.buf.length + 1 ≤ fuel) :
    srcStep2 fuel n0 n1 (enc2 g) op = some (enc2 (g.step op)) := by
  cases op with
  | set j v =>
    simp only [srcStep2, WGrid.step]
    rw [srcIdx2_enc g h hs hlen n0 n1 hd j hop]
    rfl
  | tr δ e => exact srcTranslate2_enc g h hs hlen n0 n1 hd δ e fuel hfuel

private theorem step_keeps (g : WGrid Int) (h : WF g) (hs : SizeOK g.dims) (op : Op Int) (hop : OpOK g.dims op) :
    WF (g.step op) ∧ (g.step op).dims = g.dims ∧ (g.step op).buf.length = g.buf.length := by
  have h12 : WF (g.step op) ∧ (g.step op).dims = g.dims := by
    cases op with
    | set j v => obtain ⟨h1, h2, _⟩ := set_refines g h j hop v; exact ⟨h1, h2⟩
    | tr δ e => obtain ⟨h1, h2, _⟩ := translate_refines g h hs δ hop.1 e; exact ⟨h1, h2⟩
  exact ⟨h12.1, h12.2, by rw [h12.1.buf_len, h.buf_len, h12.2]⟩

/-- **Any history executed by the translated code = the model's run.** Writes and translations (asserted preconditions `OpOK`) from the
    encoding of a well-formed two-axis grid, fuel ≥ number of cells + 1 per translation: no translation runs out of fuel and the final
    state is the encoding of the model's final grid -/
theorem src_run_eq_2 (ops : List (Op Int)) (g : WGrid Int) (h : WF g) (hs : SizeOK g.dims) (hlen : g.buf.length < two64) (n0 n1 : Nat)
    (hd : g.dims = [n0, n1]) (hops : ∀ op ∈ ops, OpOK g.dims op) (fuel : Nat) (hfuel : g.buf.length + 1 ≤ fuel) :
    srcRun2 fuel n0 n1 (enc2 g) ops = some (enc2 (ops.foldl WGrid.step g)) := by
  induction ops generalizing g with
  | nil => rfl
  | cons op rest ih =>
    obtain ⟨h1, h2, h3⟩ := step_keeps g h hs op (hops op (by simp))
    simp only [srcRun2, srcStep2_enc g h hs hlen n0 n1 hd op (hops op (by simp)) fuel hfuel, List.foldl_cons]
    exact ih (g.step op) h1 (by rw [h2]; exact hs) (by rw [h3]; exact hlen) (by rw [h2]; exact hd)
      (by rw [h2]; intro o ho; exact hops o (by simp [ho])) (by rw [h3]; exact hfuel)

private theorem spec_fold_congr (dims : List Nat) (ops : List (Op Int)) (w w' : Window Int)
    (hw : ∀ i, InRange dims i → w i = w' i) : ∀ i, InRange dims i →
      (ops.foldl (Spec.step dims) w) i = (ops.foldl (Spec.step dims) w') i := by
  induction ops generalizing w w' with
  | nil => exact hw
  | cons op rest ih =>
    rw [List.foldl_cons, List.foldl_cons]
    apply ih
    intro i hi
    cases op with
    | set j v =>
      simp only [Spec.step, Spec.set]
      split
      · rfl
      · exact hw i hi
    | tr δ e => exact spec_translate_congr dims δ e w w' hw i

/-- **`C15.history` about the translated code (DIM = 2).** After any sequence of writes and translated translations, what the
    translated code reads through its linear index at every in-range logical index is what the abstract window reads after the same
    sequence of abstract steps, starting from what was read at the beginning -/
theorem src_history_2 (ops : List (Op Int)) (g₀ : WGrid Int) (h : WF g₀) (hs : SizeOK g₀.dims) (hlen : g₀.buf.length < two64)
    (n0 n1 : Nat) (hd : g₀.dims = [n0, n1]) (hops : ∀ op ∈ ops, OpOK g₀.dims op) (fuel : Nat) (hfuel : g₀.buf.length + 1 ≤ fuel) :
    ∃ st, srcRun2 fuel n0 n1 (enc2 g₀) ops = some st ∧ st.1.length = g₀.buf.length ∧
      ∀ i, InRange [n0, n1] i →
        srcRead2 n0 n1 st i = (ops.foldl (Spec.step [n0, n1]) (srcRead2 n0 n1 (enc2 g₀))) i := by
  obtain ⟨hwf, hdims, hget⟩ := history ops g₀ h hs hops
  have hlen' : (ops.foldl WGrid.step g₀).buf.length = g₀.buf.length := by rw [hwf.buf_len, h.buf_len, hdims]
  refine ⟨_, src_run_eq_2 ops g₀ h hs hlen n0 n1 hd hops fuel hfuel, hlen', fun i hi => ?_⟩
  have hi0 : InRange g₀.dims i := by rw [hd]; exact hi
  rw [srcRead2_enc _ hwf (by rw [hdims]; exact hs) (by rw [hlen']; exact hlen) n0 n1 (by rw [hdims, hd]) i
    (by rw [hdims]; exact hi0)]
  have := hget i hi0
  simp only [Romea.C15.abs] at this
  rw [this, hd]
  exact spec_fold_congr [n0, n1] ops _ _ (fun j hj => (srcRead2_enc g₀ h hs hlen n0 n1 hd j (by rw [hd]; exact hj)).symm) i hi

/-! ### Non-vacuity (a 3 × 2 grid holding 1 … 6, evaluated through the generated definitions) -/

private def g32 : WGrid Int := ⟨[3, 2], [0, 0], [1, 2, 3, 4, 5, 6]⟩

example : WF g32 := ⟨by simp [g32, InRange], by simp [g32, cellCount]⟩
example : SizeOK g32.dims := by intro a; rcases a with _ | _ | a <;> simp [g32]
example : g32.buf.length < two64 ∧ g32.buf.length + 1 ≤ 7 := by decide
-- offsets (1, -1): logical (0, 1) reads what (1, 0) read (= 2); logical (2, 1) reads the empty value (column 3 is outside)
example : (srcTranslate2 7 3 2 (enc2 g32) 1 (-1) 0).map (fun st => (srcRead2 3 2 st [0, 1], srcRead2 3 2 st [2, 1], srcRead2 3 2 st [0, 0]))
    = some (2, 0, 0) := by decide
example : Spec.translate [3, 2] [1, -1] 0 (srcRead2 3 2 (enc2 g32)) [0, 1] = 2 ∧
    Spec.translate [3, 2] [1, -1] 0 (srcRead2 3 2 (enc2 g32)) [2, 1] = 0 := by decide
-- offsets (5, 0): everything leaves the window
example : (srcTranslate2 7 3 2 (enc2 g32) 5 0 9).map (fun st => (srcRead2 3 2 st [0, 0], srcRead2 3 2 st [2, 1])) = some (9, 9) := by decide
-- a history: write, translate (1, -1), translate (5, 0)
example : srcRun2 7 3 2 (enc2 g32) [.set [1, 0] 7, .tr [1, -1] 0, .tr [5, 0] 9] = some ([9, 9, 9, 9, 9, 9], 0, 1) := by decide
example : srcRun2 7 3 2 (enc2 g32) [.set [1, 0] 7, .tr [1, -1] 0] = some ([0, 7, 3, 0, 0, 0], 1, 1) := by decide

end Romea.Bridge.C15
