import RomeaProofs.Bridge.C03
import RomeaProofs.Properties.C03

/-!
# Bridge C03, part 2: headline theorems of `Properties/C03.lean` restated about the functions translated from today's source
(`Romea.Src.C03.*`, regenerated from `/repo` on every run), at the scalar type `RN` (exact reals with an absorbing NaN).
-/
namespace Romea.Bridge.C03
open Romea Romea.Lambert Romea.C03 Real RN

/-- `C03.roundtrip` about the translated `toLambert` / `toWGS84` (incl. the translated latitude loop): for every converter with
    `n ≠ 0`, `c ≠ 0`, `e ≤ 0.1`, every latitude between the poles, every longitude with `|n (λ − λ₀)| < π/2` and fuel ≥ 8 the
    translated inverse of the translated forward map meets the loop's exit test, returns the longitude exactly and a latitude
    within 1e-13 rad. -/
theorem src_roundtrip {cv : Conv ℝ} (hcv : ConvOK cv) (he1 : cv.e ≤ 1 / 10) {φ lam : ℝ} (h : InDom φ)
    (hlam : |cv.n * (lam - cv.lon0)| < π / 2) {fuel : ℕ} (hf : 8 ≤ fuel) :
    let P := Src.C03.LambertConverter.toLambert (of cv.c) (of cv.e) (of cv.lon0) (of cv.n) (of φ) (of lam) (of cv.xs) (of cv.ys)
    ∃ ψ : ℝ,
      Src.C03.LambertConverter.toWGS84 fuel (of cv.c) (of cv.e) (of cv.lon0) (of cv.n) P.1 P.2 (of cv.xs) (of cv.ys)
        = some (of ψ, of lam) ∧ |ψ - φ| < 1e-13 := by
  intro P
  obtain ⟨ψ, e, hacc⟩ := roundtrip hcv he1 h hlam hf
  refine ⟨ψ, ?_, hacc⟩
  have h1 : P = toLambert cv.toRN (of φ) (of lam) := toLambert_bridge cv.toRN (of φ) (of lam)
  rw [h1]
  exact (toWGS84_bridge fuel cv.toRN _ _).trans e

/-- `C03.roundtrip_never_nan` about the translated functions: for EVERY eccentricity in `[0, 1)` and every fuel the translated
    round trip never produces a NaN — either the translated loop does not exit within the fuel, or the longitude is exact and
    the latitude is one pass of the loop body from an iterate less than EPSILON away. -/
theorem src_roundtrip_never_nan {cv : Conv ℝ} (hcv : ConvOK cv) {φ lam : ℝ} (h : InDom φ)
    (hlam : |cv.n * (lam - cv.lon0)| < π / 2) (fuel : ℕ) :
    let P := Src.C03.LambertConverter.toLambert (of cv.c) (of cv.e) (of cv.lon0) (of cv.n) (of φ) (of lam) (of cv.xs) (of cv.ys)
    Src.C03.LambertConverter.toWGS84 fuel (of cv.c) (of cv.e) (of cv.lon0) (of cv.n) P.1 P.2 (of cv.xs) (of cv.ys) = none ∨
    ∃ ψ prev : ℝ,
      Src.C03.LambertConverter.toWGS84 fuel (of cv.c) (of cv.e) (of cv.lon0) (of cv.n) P.1 P.2 (of cv.xs) (of cv.ys)
        = some (of ψ, of lam) ∧
      ψ = latStep (isoLat φ cv.e) cv.e prev ∧ |ψ - prev| < (epsilon : ℝ) := by
  intro P
  have h1 : P = toLambert cv.toRN (of φ) (of lam) := toLambert_bridge cv.toRN (of φ) (of lam)
  have hb := toWGS84_bridge fuel cv.toRN (toLambert cv.toRN (of φ) (of lam)).1 (toLambert cv.toRN (of φ) (of lam)).2
  rw [h1]
  rcases roundtrip_never_nan hcv h hlam fuel with hn | ⟨ψ, prev, e, h2, h3⟩
  · left; exact hb.trans hn
  · right; exact ⟨ψ, prev, hb.trans e, h2, h3⟩

/-- `C03.central_meridian_on_xs` about the translated `toLambert`: points of the central meridian have easting `xs` -/
theorem src_central_meridian_on_xs (cv : Conv ℝ) {φ : ℝ} (h : InDom φ) (he : EccOK cv.e) :
    (Src.C03.LambertConverter.toLambert (of cv.c) (of cv.e) (of cv.lon0) (of cv.n) (of φ) (of cv.lon0) (of cv.xs) (of cv.ys)).1
      = of cv.xs :=
  (congrArg Prod.fst (toLambert_bridge cv.toRN (of φ) (of cv.lon0))).trans (central_meridian_on_xs cv h he)

end Romea.Bridge.C03
