import RomeaProofs.Bridge.C20

/-!
# Bridge C20, part 5: `min` / `max` / `mean` of Eigen containers (`containers/Eigen/EigenContainers.hpp`) AS TRANSLATED FROM TODAY'S SOURCE

Instantiations `VectorOfEigenVector<Eigen::Array2d / Array3d / Array3f>` for `min` / `max` (Eigen's `.min()` / `.max()` exist on arrays only)
and `VectorOfEigenVector<Eigen::Vector2d / Vector3d / Vector3f>` for `mean`. The range-based `for (auto point : points)` is translated
(spec option `range_for`) into an auxiliary function that is structurally recursive on the `List` of coordinate tuples — no fuel, no index,
never `none` —, the `std::vector` of points being that list. The bridge: each loop function is the coordinate-wise `foldl` of the model
(`*_loop_*`, by induction on the list), each function the model's `contMin` / `contMax` / `contMean` (`RomeaModel/BBox.lean`).
The `std::deque` / `std::list` instantiations the harness also drives are not translated (tied by the correspondence check only).
Every scalar type; `contMean` under `hc` (an integer that is a natural number converts to the same scalar either way). Core Lean only.
-/
set_option linter.unusedSectionVars false

namespace Romea.Bridge.C20
open Romea Romea.BBox

section Cont
variable {α : Type} [Add α] [Sub α] [Mul α] [Div α] [Neg α] [LT α] [LE α] [DecidableLT α] [DecidableLE α]
  [NatCast α] [IntCast α] [Trans α] [Limits α]

theorem min_loop_a2d (pts : List (α × α)) : ∀ (m0 m1 : α),
    Src.C20.min_a2d.loop1 pts m0 m1 = (pts.foldl (fun m p => minS m p.1) m0, pts.foldl (fun m p => minS m p.2) m1) := by
  induction pts with
  | nil => intro m0 m1; rfl
  | cons p ps ih =>
    intro m0 m1
    unfold Src.C20.min_a2d.loop1
    simp only [List.foldl_cons]
    rw [ih]
    try rfl

theorem max_loop_a2d (pts : List (α × α)) : ∀ (m0 m1 : α),
    Src.C20.max_a2d.loop1 pts m0 m1 = (pts.foldl (fun m p => maxS m p.1) m0, pts.foldl (fun m p => maxS m p.2) m1) := by
  induction pts with
  | nil => intro m0 m1; rfl
  | cons p ps ih =>
    intro m0 m1
    unfold Src.C20.max_a2d.loop1
    simp only [List.foldl_cons]
    rw [ih]
    try rfl

theorem mean_loop_v2d (pts : List (α × α)) : ∀ (m0 m1 : α),
    Src.C20.mean_v2d.loop1 pts m0 m1 = (pts.foldl (fun m p => m + p.1) m0, pts.foldl (fun m p => m + p.2) m1) := by
  induction pts with
  | nil => intro m0 m1; rfl
  | cons p ps ih =>
    intro m0 m1
    unfold Src.C20.mean_v2d.loop1
    simp only [List.foldl_cons]
    rw [ih]
    try rfl

/-- `min(points)` (`VectorOfEigenVector<Eigen::Array2…>`, suffix `_a2d`) = the model's `contMin`, coordinate by coordinate -/
theorem contMin_a2d_bridge (pts : List (α × α)) :
    Src.C20.min_a2d pts = (contMin (pts.map (fun p => v2 p.1 p.2)) 0, contMin (pts.map (fun p => v2 p.1 p.2)) 1) := by
  unfold Src.C20.min_a2d
  simp only [min_loop_a2d, contMin, contMinWith, List.foldl_map]
  rfl

/-- `max(points)` (suffix `_a2d`) = the model's `contMax` (start value `-numeric_limits::max()`) -/
theorem contMax_a2d_bridge (pts : List (α × α)) :
    Src.C20.max_a2d pts = (contMax (pts.map (fun p => v2 p.1 p.2)) 0, contMax (pts.map (fun p => v2 p.1 p.2)) 1) := by
  unfold Src.C20.max_a2d
  simp only [max_loop_a2d, contMax, contMaxWith, List.foldl_map]
  rfl

/-- `mean(points)` (`VectorOfEigenVector<Eigen::Vector2…>`, suffix `_v2d`) = the model's `contMean` -/
theorem contMean_v2d_bridge (hc : ∀ k : Nat, ((k : Int) : α) = (k : α)) (pts : List (α × α)) :
    Src.C20.mean_v2d pts = (contMean (pts.map (fun p => v2 p.1 p.2)) 0, contMean (pts.map (fun p => v2 p.1 p.2)) 1) := by
  unfold Src.C20.mean_v2d
  simp only [mean_loop_v2d, contMean, List.foldl_map, List.length_map, hc, zero]
  rfl

theorem min_loop_a3d (pts : List (α × α × α)) : ∀ (m0 m1 m2 : α),
    Src.C20.min_a3d.loop1 pts m0 m1 m2 = (pts.foldl (fun m p => minS m p.1) m0, pts.foldl (fun m p => minS m p.2.1) m1, pts.foldl (fun m p => minS m p.2.2) m2) := by
  induction pts with
  | nil => intro m0 m1 m2; rfl
  | cons p ps ih =>
    intro m0 m1 m2
    unfold Src.C20.min_a3d.loop1
    simp only [List.foldl_cons]
    rw [ih]
    try rfl

theorem max_loop_a3d (pts : List (α × α × α)) : ∀ (m0 m1 m2 : α),
    Src.C20.max_a3d.loop1 pts m0 m1 m2 = (pts.foldl (fun m p => maxS m p.1) m0, pts.foldl (fun m p => maxS m p.2.1) m1, pts.foldl (fun m p => maxS m p.2.2) m2) := by
  induction pts with
  | nil => intro m0 m1 m2; rfl
  | cons p ps ih =>
    intro m0 m1 m2
    unfold Src.C20.max_a3d.loop1
    simp only [List.foldl_cons]
    rw [ih]
    try rfl

theorem mean_loop_v3d (pts : List (α × α × α)) : ∀ (m0 m1 m2 : α),
    Src.C20.mean_v3d.loop1 pts m0 m1 m2 = (pts.foldl (fun m p => m + p.1) m0, pts.foldl (fun m p => m + p.2.1) m1, pts.foldl (fun m p => m + p.2.2) m2) := by
  induction pts with
  | nil => intro m0 m1 m2; rfl
  | cons p ps ih =>
    intro m0 m1 m2
    unfold Src.C20.mean_v3d.loop1
    simp only [List.foldl_cons]
    rw [ih]
    try rfl

/-- `min(points)` (`VectorOfEigenVector<Eigen::Array3…>`, suffix `_a3d`) = the model's `contMin`, coordinate by coordinate -/
theorem contMin_a3d_bridge (pts : List (α × α × α)) :
    Src.C20.min_a3d pts = (contMin (pts.map (fun p => v3 p.1 p.2.1 p.2.2)) 0, contMin (pts.map (fun p => v3 p.1 p.2.1 p.2.2)) 1, contMin (pts.map (fun p => v3 p.1 p.2.1 p.2.2)) 2) := by
  unfold Src.C20.min_a3d
  simp only [min_loop_a3d, contMin, contMinWith, List.foldl_map]
  rfl

/-- `max(points)` (suffix `_a3d`) = the model's `contMax` (start value `-numeric_limits::max()`) -/
theorem contMax_a3d_bridge (pts : List (α × α × α)) :
    Src.C20.max_a3d pts = (contMax (pts.map (fun p => v3 p.1 p.2.1 p.2.2)) 0, contMax (pts.map (fun p => v3 p.1 p.2.1 p.2.2)) 1, contMax (pts.map (fun p => v3 p.1 p.2.1 p.2.2)) 2) := by
  unfold Src.C20.max_a3d
  simp only [max_loop_a3d, contMax, contMaxWith, List.foldl_map]
  rfl

/-- `mean(points)` (`VectorOfEigenVector<Eigen::Vector3…>`, suffix `_v3d`) = the model's `contMean` -/
theorem contMean_v3d_bridge (hc : ∀ k : Nat, ((k : Int) : α) = (k : α)) (pts : List (α × α × α)) :
    Src.C20.mean_v3d pts = (contMean (pts.map (fun p => v3 p.1 p.2.1 p.2.2)) 0, contMean (pts.map (fun p => v3 p.1 p.2.1 p.2.2)) 1, contMean (pts.map (fun p => v3 p.1 p.2.1 p.2.2)) 2) := by
  unfold Src.C20.mean_v3d
  simp only [mean_loop_v3d, contMean, List.foldl_map, List.length_map, hc, zero]
  rfl

theorem min_loop_a3f (pts : List (α × α × α)) : ∀ (m0 m1 m2 : α),
    Src.C20.min_a3f.loop1 pts m0 m1 m2 = (pts.foldl (fun m p => minS m p.1) m0, pts.foldl (fun m p => minS m p.2.1) m1, pts.foldl (fun m p => minS m p.2.2) m2) := by
  induction pts with
  | nil => intro m0 m1 m2; rfl
  | cons p ps ih =>
    intro m0 m1 m2
    unfold Src.C20.min_a3f.loop1
    simp only [List.foldl_cons]
    rw [ih]
    try rfl

theorem max_loop_a3f (pts : List (α × α × α)) : ∀ (m0 m1 m2 : α),
    Src.C20.max_a3f.loop1 pts m0 m1 m2 = (pts.foldl (fun m p => maxS m p.1) m0, pts.foldl (fun m p => maxS m p.2.1) m1, pts.foldl (fun m p => maxS m p.2.2) m2) := by
  induction pts with
  | nil => intro m0 m1 m2; rfl
  | cons p ps ih =>
    intro m0 m1 m2
    unfold Src.C20.max_a3f.loop1
    simp only [List.foldl_cons]
    rw [ih]
    try rfl

theorem mean_loop_v3f (pts : List (α × α × α)) : ∀ (m0 m1 m2 : α),
    Src.C20.mean_v3f.loop1 pts m0 m1 m2 = (pts.foldl (fun m p => m + p.1) m0, pts.foldl (fun m p => m + p.2.1) m1, pts.foldl (fun m p => m + p.2.2) m2) := by
  induction pts with
  | nil => intro m0 m1 m2; rfl
  | cons p ps ih =>
    intro m0 m1 m2
    unfold Src.C20.mean_v3f.loop1
    simp only [List.foldl_cons]
    rw [ih]
    try rfl

/-- `min(points)` (`VectorOfEigenVector<Eigen::Array3…>`, suffix `_a3f`) = the model's `contMin`, coordinate by coordinate -/
theorem contMin_a3f_bridge (pts : List (α × α × α)) :
    Src.C20.min_a3f pts = (contMin (pts.map (fun p => v3 p.1 p.2.1 p.2.2)) 0, contMin (pts.map (fun p => v3 p.1 p.2.1 p.2.2)) 1, contMin (pts.map (fun p => v3 p.1 p.2.1 p.2.2)) 2) := by
  unfold Src.C20.min_a3f
  simp only [min_loop_a3f, contMin, contMinWith, List.foldl_map]
  rfl

/-- `max(points)` (suffix `_a3f`) = the model's `contMax` (start value `-numeric_limits::max()`) -/
theorem contMax_a3f_bridge (pts : List (α × α × α)) :
    Src.C20.max_a3f pts = (contMax (pts.map (fun p => v3 p.1 p.2.1 p.2.2)) 0, contMax (pts.map (fun p => v3 p.1 p.2.1 p.2.2)) 1, contMax (pts.map (fun p => v3 p.1 p.2.1 p.2.2)) 2) := by
  unfold Src.C20.max_a3f
  simp only [max_loop_a3f, contMax, contMaxWith, List.foldl_map]
  rfl

/-- `mean(points)` (`VectorOfEigenVector<Eigen::Vector3…>`, suffix `_v3f`) = the model's `contMean` -/
theorem contMean_v3f_bridge (hc : ∀ k : Nat, ((k : Int) : α) = (k : α)) (pts : List (α × α × α)) :
    Src.C20.mean_v3f pts = (contMean (pts.map (fun p => v3 p.1 p.2.1 p.2.2)) 0, contMean (pts.map (fun p => v3 p.1 p.2.1 p.2.2)) 1, contMean (pts.map (fun p => v3 p.1 p.2.1 p.2.2)) 2) := by
  unfold Src.C20.mean_v3f
  simp only [mean_loop_v3f, contMean, List.foldl_map, List.length_map, hc, zero]
  rfl

end Cont

end Romea.Bridge.C20
