import RomeaProofs.Bridge.C13
import RomeaProofs.Properties.C13

/-!
# Bridge C13, part 2: headline theorems of `Properties/C13.lean` restated about the functions translated from today's source
(`Romea.Src.C13.*`, regenerated from `/repo` on every run), at the scalar type ℝ, for the `<double, 2>` instantiation (and the index
range for `<double, 3>`): the object is BUILT by the translated constructor and QUERIED by the translated `computeCellIndexes` /
`computeCellCenterPosition`.
-/
namespace Romea.Bridge.C13
open Romea Romea.GridMap Romea.C13

/-- at ℝ the hypothesis of the bridge theorems holds -/
theorem hc_real : ∀ k : Nat, ((k : Int) : ℝ) = (k : ℝ) := fun k => Int.cast_natCast k

/-- the translated `<double, 2>` constructor at ℝ: never `none`, builds the model's two axes -/
theorem src_ctor_d2 (r l0 l1 u0 u1 : ℝ) :
    Src.C13.GridIndexMapping.GridIndexMapping_interval_d2 r l0 l1 u0 u1
      = some ((Axis.ofInterval l0 u0 r).centres.toList, (Axis.ofInterval l1 u1 r).centres.toList, r,
              (Axis.ofInterval l0 u0 r).origin, (Axis.ofInterval l1 u1 r).origin,
              (Axis.ofInterval l0 u0 r).n, (Axis.ofInterval l1 u1 r).n) :=
  ofInterval_d2_bridge hc_real r l0 l1 u0 u1

/-- `C13.numCells_eq` about the translated constructor: the stored cell counts are `⌈U/r⌉ − ⌊L/r⌋ + 1 ≥ 1` on both axes -/
theorem src_numCells_d2 (r l0 l1 u0 u1 : ℝ) (hr : 0 < r) (h0 : l0 ≤ u0) (h1 : l1 ≤ u1) :
    ∃ c0 c1 o0 o1 n0 n1,
      Src.C13.GridIndexMapping.GridIndexMapping_interval_d2 r l0 l1 u0 u1 = some (c0, c1, r, o0, o1, n0, n1) ∧
      n0 = ⌈u0 / r⌉ - ⌊l0 / r⌋ + 1 ∧ n1 = ⌈u1 / r⌉ - ⌊l1 / r⌋ + 1 ∧ 1 ≤ n0 ∧ 1 ≤ n1 ∧
      c0.length = n0.toNat ∧ c1.length = n1.toNat :=
  ⟨_, _, _, _, _, _, src_ctor_d2 r l0 l1 u0 u1, (numCells_eq r l0 u0 hr h0).2.1, (numCells_eq r l1 u1 hr h1).2.1,
    (numCells_eq r l0 u0 hr h0).2.2, (numCells_eq r l1 u1 hr h1).2.2,
    by rw [centres_toList]; simp [Axis.ofInterval], by rw [centres_toList]; simp [Axis.ofInterval]⟩

/-- `C13.index_in_range` about the translated code: the object built by the translated constructor from `[l, u]`, `r > 0`, maps every
    point of the closed extent, through the translated `computeCellIndexes`, to indexes `0 ≤ idx < N` on both axes -/
theorem src_index_in_range_d2 (r l0 l1 u0 u1 p0 p1 : ℝ) (hr : 0 < r) (h0 : l0 ≤ u0) (h1 : l1 ≤ u1)
    (hp0 : l0 ≤ p0 ∧ p0 ≤ u0) (hp1 : l1 ≤ p1 ∧ p1 ≤ u1) :
    ∃ c0 c1 o0 o1 n0 n1,
      Src.C13.GridIndexMapping.GridIndexMapping_interval_d2 r l0 l1 u0 u1 = some (c0, c1, r, o0, o1, n0, n1) ∧
      0 ≤ (Src.C13.GridIndexMapping.computeCellIndexes_d2 r o0 o1 p0 p1).1 ∧
      (Src.C13.GridIndexMapping.computeCellIndexes_d2 r o0 o1 p0 p1).1 < n0 ∧
      0 ≤ (Src.C13.GridIndexMapping.computeCellIndexes_d2 r o0 o1 p0 p1).2 ∧
      (Src.C13.GridIndexMapping.computeCellIndexes_d2 r o0 o1 p0 p1).2 < n1 := by
  refine ⟨_, _, _, _, _, _, src_ctor_d2 r l0 l1 u0 u1, ?_⟩
  rw [computeCellIndexes_d2_bridge (Axis.ofInterval l0 u0 r) (Axis.ofInterval l1 u1 r) r rfl rfl]
  exact ⟨(index_in_range r l0 u0 p0 hr h0 hp0).1, (index_in_range r l0 u0 p0 hr h0 hp0).2,
    (index_in_range r l1 u1 p1 hr h1 hp1).1, (index_in_range r l1 u1 p1 hr h1 hp1).2⟩

/-- the same for `<double, 3>` -/
theorem src_index_in_range_d3 (r l0 l1 l2 u0 u1 u2 p0 p1 p2 : ℝ) (hr : 0 < r) (h0 : l0 ≤ u0) (h1 : l1 ≤ u1) (h2 : l2 ≤ u2)
    (hp0 : l0 ≤ p0 ∧ p0 ≤ u0) (hp1 : l1 ≤ p1 ∧ p1 ≤ u1) (hp2 : l2 ≤ p2 ∧ p2 ≤ u2) :
    ∃ c0 c1 c2 o0 o1 o2 n0 n1 n2,
      Src.C13.GridIndexMapping.GridIndexMapping_interval_d3 r l0 l1 l2 u0 u1 u2 = some (c0, c1, c2, r, o0, o1, o2, n0, n1, n2) ∧
      0 ≤ (Src.C13.GridIndexMapping.computeCellIndexes_d3 r o0 o1 o2 p0 p1 p2).1 ∧
      (Src.C13.GridIndexMapping.computeCellIndexes_d3 r o0 o1 o2 p0 p1 p2).1 < n0 ∧
      0 ≤ (Src.C13.GridIndexMapping.computeCellIndexes_d3 r o0 o1 o2 p0 p1 p2).2.1 ∧
      (Src.C13.GridIndexMapping.computeCellIndexes_d3 r o0 o1 o2 p0 p1 p2).2.1 < n1 ∧
      0 ≤ (Src.C13.GridIndexMapping.computeCellIndexes_d3 r o0 o1 o2 p0 p1 p2).2.2 ∧
      (Src.C13.GridIndexMapping.computeCellIndexes_d3 r o0 o1 o2 p0 p1 p2).2.2 < n2 := by
  refine ⟨_, _, _, _, _, _, _, _, _, ofInterval_d3_bridge hc_real r l0 l1 l2 u0 u1 u2, ?_⟩
  rw [computeCellIndexes_d3_bridge (Axis.ofInterval l0 u0 r) (Axis.ofInterval l1 u1 r) (Axis.ofInterval l2 u2 r) r rfl rfl rfl]
  exact ⟨(index_in_range r l0 u0 p0 hr h0 hp0).1, (index_in_range r l0 u0 p0 hr h0 hp0).2,
    (index_in_range r l1 u1 p1 hr h1 hp1).1, (index_in_range r l1 u1 p1 hr h1 hp1).2,
    (index_in_range r l2 u2 p2 hr h2 hp2).1, (index_in_range r l2 u2 p2 hr h2 hp2).2⟩

/-- `C13.within_half_cell` about the translated code: the translated `computeCellCenterPosition`, at the indexes the translated
    `computeCellIndexes` gives for a point of the extent, finds both centres (`some`) and each is within half a resolution of the
    point's coordinate (cells half-open: `−r/2 ≤ p − c < r/2`) -/
theorem src_within_half_cell_d2 (r l0 l1 u0 u1 p0 p1 : ℝ) (hr : 0 < r) (h0 : l0 ≤ u0) (h1 : l1 ≤ u1)
    (hp0 : l0 ≤ p0 ∧ p0 ≤ u0) (hp1 : l1 ≤ p1 ∧ p1 ≤ u1) :
    ∃ c0 c1 o0 o1 n0 n1 q0 q1,
      Src.C13.GridIndexMapping.GridIndexMapping_interval_d2 r l0 l1 u0 u1 = some (c0, c1, r, o0, o1, n0, n1) ∧
      Src.C13.GridIndexMapping.computeCellCenterPosition_d2 c0 c1
          (Src.C13.GridIndexMapping.computeCellIndexes_d2 r o0 o1 p0 p1).1
          (Src.C13.GridIndexMapping.computeCellIndexes_d2 r o0 o1 p0 p1).2 = some (q0, q1) ∧
      -(r / 2) ≤ p0 - q0 ∧ p0 - q0 < r / 2 ∧ -(r / 2) ≤ p1 - q1 ∧ p1 - q1 < r / 2 := by
  obtain ⟨q0, hq0, _, hlo0, hhi0⟩ := within_half_cell r l0 u0 p0 hr h0 hp0
  obtain ⟨q1, hq1, _, hlo1, hhi1⟩ := within_half_cell r l1 u1 p1 hr h1 hp1
  refine ⟨_, _, _, _, _, _, q0, q1, src_ctor_d2 r l0 l1 u0 u1, ?_, hlo0, hhi0, hlo1, hhi1⟩
  rw [computeCellIndexes_d2_bridge (Axis.ofInterval l0 u0 r) (Axis.ofInterval l1 u1 r) r rfl rfl]
  have e0 := Int.toNat_of_nonneg (index_in_range r l0 u0 p0 hr h0 hp0).1
  have e1 := Int.toNat_of_nonneg (index_in_range r l1 u1 p1 hr h1 hp1).1
  show Src.C13.GridIndexMapping.computeCellCenterPosition_d2 _ _ ((Axis.ofInterval l0 u0 r).index p0)
    ((Axis.ofInterval l1 u1 r).index p1) = _
  rw [← e0, ← e1, computeCellCenterPosition_d2_bridge, hq0, hq1]
  rfl

/-- `C13.centre_fixed` about the translated code: for every cell `(k0, k1)` of the grid built by the translated constructor, the
    translated `computeCellCenterPosition` finds its centre and the translated `computeCellIndexes` maps that centre back to
    `(k0, k1)` -/
theorem src_centre_fixed_d2 (r l0 l1 u0 u1 : ℝ) (hr : 0 < r) (h0 : l0 ≤ u0) (h1 : l1 ≤ u1) (k0 k1 : ℕ)
    (hk0 : (k0 : ℤ) < (Axis.ofInterval l0 u0 r).n) (hk1 : (k1 : ℤ) < (Axis.ofInterval l1 u1 r).n) :
    ∃ c0 c1 o0 o1 n0 n1 q0 q1,
      Src.C13.GridIndexMapping.GridIndexMapping_interval_d2 r l0 l1 u0 u1 = some (c0, c1, r, o0, o1, n0, n1) ∧
      Src.C13.GridIndexMapping.computeCellCenterPosition_d2 c0 c1 (k0 : ℤ) (k1 : ℤ) = some (q0, q1) ∧
      Src.C13.GridIndexMapping.computeCellIndexes_d2 r o0 o1 q0 q1 = ((k0 : ℤ), (k1 : ℤ)) := by
  obtain ⟨q0, hq0, hi0⟩ := centre_fixed r l0 u0 hr h0 k0 hk0
  obtain ⟨q1, hq1, hi1⟩ := centre_fixed r l1 u1 hr h1 k1 hk1
  refine ⟨_, _, _, _, _, _, q0, q1, src_ctor_d2 r l0 l1 u0 u1, ?_, ?_⟩
  · rw [computeCellCenterPosition_d2_bridge, hq0, hq1]; rfl
  · rw [computeCellIndexes_d2_bridge (Axis.ofInterval l0 u0 r) (Axis.ofInterval l1 u1 r) r rfl rfl, hi0, hi1]

end Romea.Bridge.C13
