import RomeaProofs.Bridge.C08
import RomeaProofs.Bridge.C08Metric
import RomeaProofs.Properties.C08

/-!
# Bridge C08, part 2: the result-set headline of `Properties/C08.lean` restated about the TRANSLATED `KNNResultSet`

`srcScan` offers a list of point indices, in order, to the `addPoint` translated from today's `nanoflann.hpp`
(`Romea.Src.C08.KNNResultSet.addPoint`, through `srcAddPoint`), starting from the translated `init` on caller arrays with at least
`k` entries; the offered distance of point `x` is the MODEL's `sqDist dim q P x` (the statement is about the result set for any
offered values; `srcScanM` below offers the value the TRANSLATED metric `L2_Adaptor::operator()` computes instead —
`src_metric_eq_sqDist`, `src_metric_result_set_keeps_k_smallest`, dimensions 2, 3, 4). `srcScan_eq` (induction on the list, `src_addPoint_eq` at every
step) identifies that run with the model's `scan`, for every scalar type; `src_result_set_keeps_k_smallest` then restates
`C08.result_set_keeps_k_smallest` over linearly ordered commutative rings: the translated code never runs out of fuel `k + 1`, and
the arrays it leaves hold the `min k |L|` smallest squared distances in ascending order.
-/
set_option linter.unusedSectionVars false

namespace Romea.Bridge.C08
open Romea Romea.KdTree Romea.C08 Romea.Src.C08

section generic
variable {α : Type} [Add α] [Sub α] [Mul α] [LT α] [DecidableLT α] [NatCast α]

/-- `for x in L: rs.addPoint(sqDist(q, P[x]), x)` with the translated `addPoint` (`none` = some call ran out of fuel) -/
def srcScan (fuel dim : Nat) (P : Nat → Nat → α) (q : Nat → α) : St α → List Nat → Option (St α)
  | s, [] => some s
  | s, x :: L => (srcAddPoint fuel s (sqDist dim q P x) (x : Int)).bind fun s' => srcScan fuel dim P q s' L

/-- the translated scan = the model's scan (`KdTree.scan` of `Lemmas/C08ResultSet.lean`, written out as its fold so that the statement
    holds for every scalar type), through the abstraction function -/
theorem srcScan_eq (M : α) (fuel dim : Nat) (P : Nat → Nat → α) (q : Nat → α) :
    ∀ (L : List Nat) (s : St α), Inv M s → s.capacity.toNat < fuel →
      ∃ s', srcScan fuel dim P q s L = some s' ∧
        abs s' = L.foldl (fun rs x => rs.addPoint (sqDist dim q P x) x) (abs s) ∧ s'.capacity = s.capacity ∧ Inv M s'
  | [], s, hinv, _ => ⟨s, rfl, rfl, rfl, hinv⟩
  | x :: L, s, hinv, hf => by
    have hcnt : s.count.toNat < fuel := by
      have := hinv.count_le
      have := hinv.count_nonneg
      omega
    obtain ⟨s1, h1, habs1, hcap1, hinv1⟩ := src_addPoint_eq M fuel s (sqDist dim q P x) (x : Int) hinv hcnt
    obtain ⟨s2, h2, habs2, hcap2, hinv2⟩ := srcScan_eq M fuel dim P q L s1 hinv1 (by rw [hcap1]; exact hf)
    refine ⟨s2, ?_, ?_, hcap2.trans hcap1, hinv2⟩
    · simp only [srcScan, h1, Option.bind, h2]
    · rw [habs2, habs1, List.foldl_cons, Int.toNat_natCast]

end generic

section ordered
variable {α : Type} [CommRing α] [LinearOrder α] [IsStrictOrderedRing α] [Limits α]

/-- `C08.result_set_keeps_k_smallest` about the translated `init` / `addPoint`: a `KNNResultSet` of capacity `k` initialised on
    arrays with at least `k` entries and offered the duplicate-free list `L` of points terminates (fuel `k + 1` per call) and holds
    the `min k |L|` smallest squared distances in ascending order (`dists[0], …, dists[count-1]` = the reversed worst-first list). -/
theorem src_result_set_keeps_k_smallest (dim : Nat) (P : Nat → Nat → α) (q : Nat → α) (k : Nat)
    (dists_ : List α) (indices_ : List Int) (hD : k ≤ dists_.length) (hI : k ≤ indices_.length)
    (L : List Nat) (hnd : L.Nodup) :
    ∃ s', srcScan (k + 1) dim P q (srcInit (k : Int) dists_ indices_) L = some s' ∧
      ((abs s').items.reverse).map (·.1) = ((L.map (sqDist dim q P)).insertionSort (· ≤ ·)).take k := by
  obtain ⟨habs0, hcap0, hinv0⟩ := src_init_eq (α := α) (k : Int) dists_ indices_ (by omega)
    (by rw [Int.toNat_natCast]; exact hD) (by rw [Int.toNat_natCast]; exact hI)
  obtain ⟨s', hs, habs, _, _⟩ := srcScan_eq (Limits.maxVal : α) (k + 1) dim P q L _ hinv0
    (by rw [hcap0, Int.toNat_natCast]; omega)
  refine ⟨s', hs, ?_⟩
  rw [habs, habs0, Int.toNat_natCast]
  exact result_set_keeps_k_smallest dim P q k L hnd

/-- over a ring the law `0 + x = x` of `src_metric_four` holds: for the three dimensions the library instantiates
    (`DIM = POINT_SIZE ∈ {2, 3, 4}`) the TRANSLATED `L2_Adaptor::operator()` is the model's `sqDist`, for every `worst_dist` -/
theorem src_metric_eq_sqDist (dim : Nat) (hdim : dim = 2 ∨ dim = 3 ∨ dim = 4) (fuel : Nat) (hf : dim < fuel) (a : List α) (b : Nat)
    (kd : Int → Int → α) (worstDist : α) :
    srcMetric fuel a b kd dim worstDist = some (sqDist dim (qOf a) (pOf kd) b) := by
  rcases hdim with rfl | rfl | rfl
  · exact src_metric_small fuel a b kd 2 worstDist (by omega) hf
  · exact src_metric_small fuel a b kd 3 worstDist (by omega) hf
  · exact src_metric_four (fun x => by rw [Nat.cast_zero, zero_add]) fuel a b kd worstDist hf

/-- the exhaustive scan with BOTH translated pieces: point `x` is offered with the distance the translated metric computes from the
    query array `a` and the point accessor `kd` (`none` = some call ran out of fuel) -/
def srcScanM (fuel dim : Nat) (a : List α) (kd : Int → Int → α) (worstDist : α) : St α → List Nat → Option (St α)
  | s, [] => some s
  | s, x :: L => (srcMetric fuel a x kd dim worstDist).bind fun d =>
      (srcAddPoint fuel s d (x : Int)).bind fun s' => srcScanM fuel dim a kd worstDist s' L

theorem srcScanM_eq_srcScan (fuel dim : Nat) (hdim : dim = 2 ∨ dim = 3 ∨ dim = 4) (hf : dim < fuel) (a : List α)
    (kd : Int → Int → α) (worstDist : α) :
    ∀ (L : List Nat) (s : St α), srcScanM fuel dim a kd worstDist s L = srcScan fuel dim (pOf kd) (qOf a) s L
  | [], _ => rfl
  | x :: L, s => by
    simp only [srcScanM, srcScan, src_metric_eq_sqDist dim hdim fuel hf a x kd worstDist, Option.bind]
    cases srcAddPoint fuel s (sqDist dim (qOf a) (pOf kd) x) (x : Int) with
    | none => rfl
    | some s' => exact srcScanM_eq_srcScan fuel dim hdim hf a kd worstDist L s'

/-- `C08.result_set_keeps_k_smallest` about the translated metric + `init` + `addPoint` together (dimension 2, 3 or 4, fuel above
    both the dimension and `k`): the arrays left by the translated code hold the `min k |L|` smallest squared distances, ascending.
    (The leaf loop of `searchLevel` additionally filters `dist < worst_dist` before `addPoint`; that loop is not translated — the
    model's `leafLoop` and `search_eq_exhaustive_scan` cover it.) -/
theorem src_metric_result_set_keeps_k_smallest (dim : Nat) (hdim : dim = 2 ∨ dim = 3 ∨ dim = 4) (a : List α)
    (kd : Int → Int → α) (worstDist : α) (k : Nat) (fuel : Nat) (hfd : dim < fuel) (hfk : k < fuel)
    (dists_ : List α) (indices_ : List Int) (hD : k ≤ dists_.length) (hI : k ≤ indices_.length)
    (L : List Nat) (hnd : L.Nodup) :
    ∃ s', srcScanM fuel dim a kd worstDist (srcInit (k : Int) dists_ indices_) L = some s' ∧
      ((abs s').items.reverse).map (·.1) = ((L.map (sqDist dim (qOf a) (pOf kd))).insertionSort (· ≤ ·)).take k := by
  obtain ⟨habs0, hcap0, hinv0⟩ := src_init_eq (α := α) (k : Int) dists_ indices_ (by omega)
    (by rw [Int.toNat_natCast]; exact hD) (by rw [Int.toNat_natCast]; exact hI)
  obtain ⟨s', hs, habs, _, _⟩ := srcScan_eq (Limits.maxVal : α) fuel dim (pOf kd) (qOf a) L _ hinv0
    (by rw [hcap0, Int.toNat_natCast]; exact hfk)
  refine ⟨s', by rw [srcScanM_eq_srcScan fuel dim hdim hfd]; exact hs, ?_⟩
  rw [habs, habs0, Int.toNat_natCast]
  exact result_set_keeps_k_smallest dim (pOf kd) (qOf a) k L hnd

end ordered

/-! ## non-vacuity: a concrete run of the translated code (capacity 2, four points on a line, query 3) -/

instance : Limits Int := ⟨1000, -1000, 1, 0⟩

example :
    (srcScan 3 1 (fun x _ => ([0, 5, 2, 4] : List Int).getD x 0) (fun _ => 3)
      (srcInit (2 : Int) [7, 7, 7] [9, 9, 9]) [0, 1, 2, 3]).map (fun s => (s.count, s.dists, s.indices)) =
      some (2, [1, 1, 7], [2, 3, 9]) := by
  decide

/-- the translated metric on a concrete query / data set: dimension 3 and dimension 4 (one unrolled group), with an early exit armed -/
example : srcMetric 5 ([3, 1, 2] : List Int) 7 (fun x j => x - j) 3 (-1) = some ((3 - 7) * (3 - 7) + (1 - 6) * (1 - 6) + (2 - 5) * (2 - 5)) := by
  decide
example : srcMetric 5 ([3, 1, 2, 1] : List Int) 7 (fun x j => x - j) 4 1 = some 59 := by decide

end Romea.Bridge.C08
