import RomeaProofs.Bridge.C12Pose
import RomeaProofs.Properties.C12
import Mathlib.Tactic.FinCases

/-!
# Bridge C12, part 4: `pose_covariance_eq` restated about `operator*(Affine3d, Pose3D)` as translated from today's source

`src_pose_covariance_eq` (ℝ): the 36 covariance entries RETURNED BY THE TRANSLATED FUNCTION, read as a 6 × 6 matrix, are `J C Jᵀ` with `J`
the Jacobian of the pose map (`Properties/C12.lean`: `pose_jacobian_*` show entry by entry that this `J` is the derivative of the map
`(position, roll, pitch, yaw) ↦ affine * pose`), for every rotation oracle `rotOf` standing for `affine.rotation()`.
`src_pose_position`: the position returned by the translated function is `R p + T` (the Euler angles are tied by `pose_bridge` itself).
-/
namespace Romea.Bridge.C12
open Romea Romea.Pose Romea.Deriv Romea.C12 Matrix

/-- the covariance entries (components 0 … 35 of the 42 returned scalars) as a matrix -/
def cov36 {α : Type} (r : α × α × α × α × α × α × α × α × α × α × α × α × α × α × α × α × α × α × α × α × α × α × α × α × α × α × α × α × α × α × α × α × α × α × α × α × α × α × α × α × α × α) :
    Mat 6 6 α := fun i j =>
  match i, j with
  | 0, 0 => r.1
  | 0, 1 => r.2.1
  | 0, 2 => r.2.2.1
  | 0, 3 => r.2.2.2.1
  | 0, 4 => r.2.2.2.2.1
  | 0, 5 => r.2.2.2.2.2.1
  | 1, 0 => r.2.2.2.2.2.2.1
  | 1, 1 => r.2.2.2.2.2.2.2.1
  | 1, 2 => r.2.2.2.2.2.2.2.2.1
  | 1, 3 => r.2.2.2.2.2.2.2.2.2.1
  | 1, 4 => r.2.2.2.2.2.2.2.2.2.2.1
  | 1, 5 => r.2.2.2.2.2.2.2.2.2.2.2.1
  | 2, 0 => r.2.2.2.2.2.2.2.2.2.2.2.2.1
  | 2, 1 => r.2.2.2.2.2.2.2.2.2.2.2.2.2.1
  | 2, 2 => r.2.2.2.2.2.2.2.2.2.2.2.2.2.2.1
  | 2, 3 => r.2.2.2.2.2.2.2.2.2.2.2.2.2.2.2.1
  | 2, 4 => r.2.2.2.2.2.2.2.2.2.2.2.2.2.2.2.2.1
  | 2, 5 => r.2.2.2.2.2.2.2.2.2.2.2.2.2.2.2.2.2.1
  | 3, 0 => r.2.2.2.2.2.2.2.2.2.2.2.2.2.2.2.2.2.2.1
  | 3, 1 => r.2.2.2.2.2.2.2.2.2.2.2.2.2.2.2.2.2.2.2.1
  | 3, 2 => r.2.2.2.2.2.2.2.2.2.2.2.2.2.2.2.2.2.2.2.2.1
  | 3, 3 => r.2.2.2.2.2.2.2.2.2.2.2.2.2.2.2.2.2.2.2.2.2.1
  | 3, 4 => r.2.2.2.2.2.2.2.2.2.2.2.2.2.2.2.2.2.2.2.2.2.2.1
  | 3, 5 => r.2.2.2.2.2.2.2.2.2.2.2.2.2.2.2.2.2.2.2.2.2.2.2.1
  | 4, 0 => r.2.2.2.2.2.2.2.2.2.2.2.2.2.2.2.2.2.2.2.2.2.2.2.2.1
  | 4, 1 => r.2.2.2.2.2.2.2.2.2.2.2.2.2.2.2.2.2.2.2.2.2.2.2.2.2.1
  | 4, 2 => r.2.2.2.2.2.2.2.2.2.2.2.2.2.2.2.2.2.2.2.2.2.2.2.2.2.2.1
  | 4, 3 => r.2.2.2.2.2.2.2.2.2.2.2.2.2.2.2.2.2.2.2.2.2.2.2.2.2.2.2.1
  | 4, 4 => r.2.2.2.2.2.2.2.2.2.2.2.2.2.2.2.2.2.2.2.2.2.2.2.2.2.2.2.2.1
  | 4, 5 => r.2.2.2.2.2.2.2.2.2.2.2.2.2.2.2.2.2.2.2.2.2.2.2.2.2.2.2.2.2.1
  | 5, 0 => r.2.2.2.2.2.2.2.2.2.2.2.2.2.2.2.2.2.2.2.2.2.2.2.2.2.2.2.2.2.2.1
  | 5, 1 => r.2.2.2.2.2.2.2.2.2.2.2.2.2.2.2.2.2.2.2.2.2.2.2.2.2.2.2.2.2.2.2.1
  | 5, 2 => r.2.2.2.2.2.2.2.2.2.2.2.2.2.2.2.2.2.2.2.2.2.2.2.2.2.2.2.2.2.2.2.2.1
  | 5, 3 => r.2.2.2.2.2.2.2.2.2.2.2.2.2.2.2.2.2.2.2.2.2.2.2.2.2.2.2.2.2.2.2.2.2.1
  | 5, 4 => r.2.2.2.2.2.2.2.2.2.2.2.2.2.2.2.2.2.2.2.2.2.2.2.2.2.2.2.2.2.2.2.2.2.2.1
  | 5, 5 => r.2.2.2.2.2.2.2.2.2.2.2.2.2.2.2.2.2.2.2.2.2.2.2.2.2.2.2.2.2.2.2.2.2.2.2.1

theorem cov36_flatPose {α : Type} (m : VTab 3 α × VTab 3 α × Tab 6 6 α × Tab 6 6 α) : cov36 (flatPose m) = m.2.2.1.get := by
  funext i j
  fin_cases i <;> fin_cases j <;> rfl

/-- **pose_covariance_eq** about the translated `operator*(Affine3d, Pose3D)` -/
theorem src_pose_covariance_eq (rotOf : Mat 3 3 ℝ → Mat 3 3 ℝ) (a00 a01 a02 a10 a11 a12 a20 a21 a22 : ℝ) (t p o : Vec 3 ℝ) (C : Mat 6 6 ℝ) :
    Matrix.of (cov36 (Src.C12.operator_mul_pose (rotO rotOf 0 0) (rotO rotOf 0 1) (rotO rotOf 0 2) (rotO rotOf 1 0) (rotO rotOf 1 1) (rotO rotOf 1 2) (rotO rotOf 2 0) (rotO rotOf 2 1) (rotO rotOf 2 2)
      a00 a01 a02 (t 0) a10 a11 a12 (t 1) a20 a21 a22 (t 2)
      (C 0 0) (C 0 1) (C 0 2) (C 0 3) (C 0 4) (C 0 5) (C 1 0) (C 1 1) (C 1 2) (C 1 3) (C 1 4) (C 1 5) (C 2 0) (C 2 1) (C 2 2) (C 2 3) (C 2 4) (C 2 5) (C 3 0) (C 3 1) (C 3 2) (C 3 3) (C 3 4) (C 3 5) (C 4 0) (C 4 1) (C 4 2) (C 4 3) (C 4 4) (C 4 5) (C 5 0) (C 5 1) (C 5 2) (C 5 3) (C 5 4) (C 5 5)
      (o 0) (o 1) (o 2) (p 0) (p 1) (p 2))) =
    Matrix.of (poseMul rotOf (m33 a00 a01 a02 a10 a11 a12 a20 a21 a22) t p o C).2.2.2.get * Matrix.of C *
      (Matrix.of (poseMul rotOf (m33 a00 a01 a02 a10 a11 a12 a20 a21 a22) t p o C).2.2.2.get)ᵀ := by
  rw [pose_bridge, cov36_flatPose]
  exact pose_covariance_eq rotOf _ t p o C

/-- the position returned by the translated function is `R p + T` with `R` the oracle's rotation of the linear part -/
theorem src_pose_position (rotOf : Mat 3 3 ℝ → Mat 3 3 ℝ) (a00 a01 a02 a10 a11 a12 a20 a21 a22 : ℝ) (t p o : Vec 3 ℝ) (C : Mat 6 6 ℝ) :
    let r := Src.C12.operator_mul_pose (rotO rotOf 0 0) (rotO rotOf 0 1) (rotO rotOf 0 2) (rotO rotOf 1 0) (rotO rotOf 1 1) (rotO rotOf 1 2) (rotO rotOf 2 0) (rotO rotOf 2 1) (rotO rotOf 2 2)
      a00 a01 a02 (t 0) a10 a11 a12 (t 1) a20 a21 a22 (t 2)
      (C 0 0) (C 0 1) (C 0 2) (C 0 3) (C 0 4) (C 0 5) (C 1 0) (C 1 1) (C 1 2) (C 1 3) (C 1 4) (C 1 5) (C 2 0) (C 2 1) (C 2 2) (C 2 3) (C 2 4) (C 2 5) (C 3 0) (C 3 1) (C 3 2) (C 3 3) (C 3 4) (C 3 5) (C 4 0) (C 4 1) (C 4 2) (C 4 3) (C 4 4) (C 4 5) (C 5 0) (C 5 1) (C 5 2) (C 5 3) (C 5 4) (C 5 5)
      (o 0) (o 1) (o 2) (p 0) (p 1) (p 2)
    let R := rotOf (m33 a00 a01 a02 a10 a11 a12 a20 a21 a22)
    (r.2.2.2.2.2.2.2.2.2.2.2.2.2.2.2.2.2.2.2.2.2.2.2.2.2.2.2.2.2.2.2.2.2.2.2.2.2.2.2.1, r.2.2.2.2.2.2.2.2.2.2.2.2.2.2.2.2.2.2.2.2.2.2.2.2.2.2.2.2.2.2.2.2.2.2.2.2.2.2.2.2.1, r.2.2.2.2.2.2.2.2.2.2.2.2.2.2.2.2.2.2.2.2.2.2.2.2.2.2.2.2.2.2.2.2.2.2.2.2.2.2.2.2.2) =
      (mulVec3 R p 0 + t 0, mulVec3 R p 1 + t 1, mulVec3 R p 2 + t 2) := by
  intro r R
  have h : r = flatPose (poseMul rotOf (m33 a00 a01 a02 a10 a11 a12 a20 a21 a22) t p o C) := pose_bridge rotOf _ _ _ _ _ _ _ _ _ t p o C
  rw [h]
  simp [flatPose, poseMul, tab_get, vtab_get, R]

end Romea.Bridge.C12
