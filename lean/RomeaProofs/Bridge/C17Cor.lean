import RomeaProofs.Bridge.C17
import RomeaProofs.Properties.C17
import RomeaProofs.Properties.C18
import RomeaProofs.RealInst

/-!
# Bridge C17, part 2: headline theorems of `Properties/C17.lean` restated about the functions translated from today's source

A C++ `RateMonitoring` object is the tuple of its members (`MObj`); a history of data stamps and heartbeats is run through the
TRANSLATED constructor / `initialize` / `update` / `timeout` (`Romea.Src.C17.*`, regenerated from `/repo` on every run). `src_run_eq`
(induction on the history) identifies that run with the model's, for every scalar type on which the `double` comparison of `timeout`
agrees with the comparison of nanoseconds (`TimeoutCmp`); `timeoutCmp_real` discharges that over ℝ, where `src_rate_exact` and
`src_timeout_rule` restate `C17.rate_exact` / `C17.timeout_rule` (the stored `double`s read as exact reals: no rounding).
-/
set_option linter.unusedSectionVars false

namespace Romea.Bridge.C17
open Romea Romea.Rate Romea.C17

section Run
variable {α : Type} [Mul α] [Div α] [LT α] [DecidableLT α] [NatCast α] [IntCast α] [OfScientific α] [Trunc α]

/-- members of a C++ `RateMonitoring` object -/
structure MObj (α : Type) where
  lastDuration : Int
  lastPeriod : Int
  periodsSum : Int
  periods : List Int
  rate : α
  windowSize : Int

/-- `RateMonitoring(expectedRate)`: the default constructor, then `initialize(expectedRate)`, as translated -/
def MObj.new (expectedRate : α) : MObj α :=
  let r : Int × Int × Int × List Int × α × Int := Src.C17.RateMonitoring.RateMonitoring
  { lastDuration := r.1, lastPeriod := r.2.1, periodsSum := r.2.2.1, periods := r.2.2.2.1, rate := r.2.2.2.2.1,
    windowSize := Src.C17.RateMonitoring.initialize expectedRate }

/-- `update(t)` (data stamp) / `timeout(t)` (heartbeat) as translated -/
def MObj.step (o : MObj α) : Ev → MObj α
  | .stamp t =>
    let r := Src.C17.RateMonitoring.update t o.lastDuration o.periodsSum o.periods o.rate o.windowSize
    { o with lastDuration := r.2.1, lastPeriod := r.2.2.1, periodsSum := r.2.2.2.1, periods := r.2.2.2.2.1, rate := r.2.2.2.2.2 }
  | .hb t =>
    let r := Src.C17.RateMonitoring.timeout t o.lastDuration o.periods o.rate
    { o with rate := r.2 }

def MObj.run (o : MObj α) (evs : List Ev) : MObj α := evs.foldl MObj.step o

/-- the object a model state stands for (`lastPeriod_` is write-only: not part of the model) -/
def MObj.of (m : Mon) (lp : Int) : MObj α :=
  { lastDuration := m.last, lastPeriod := lp, periodsSum := m.sum, periods := m.q, rate := rateVal m.W m.rate, windowSize := (m.W : Int) }

private theorem step_of (hcmp : TimeoutCmp α) (m : Mon) (lp : Int) (e : Ev) :
    ∃ lp', (MObj.of m lp : MObj α).step e = MObj.of (m.step e) lp' := by
  cases e with
  | stamp t =>
    refine ⟨t - m.last, ?_⟩
    have hW : (m.update t).W = m.W := by simp only [Mon.update]; split <;> rfl
    simp only [MObj.step, MObj.of, Mon.step]
    rw [update_bridge m t]
    simp only [hW]
  | hb t =>
    refine ⟨lp, ?_⟩
    have hf : (m.timeout t).1.W = m.W ∧ (m.timeout t).1.last = m.last ∧ (m.timeout t).1.sum = m.sum ∧ (m.timeout t).1.q = m.q := by
      unfold Mon.timeout; split <;> exact ⟨rfl, rfl, rfl, rfl⟩
    simp only [MObj.step, MObj.of, timeout_bridge hcmp m t, Mon.step, hf.1, hf.2.1, hf.2.2.1, hf.2.2.2]

/-- **the run through the translated functions = the model's run** (induction on the history) -/
theorem src_run_of (hcmp : TimeoutCmp α) (evs : List Ev) (m : Mon) (lp : Int) :
    ∃ lp', (MObj.of m lp : MObj α).run evs = MObj.of (m.run evs) lp' := by
  induction evs generalizing m lp with
  | nil => exact ⟨lp, rfl⟩
  | cons e rest ih =>
    obtain ⟨lp1, h1⟩ := step_of hcmp m lp e
    obtain ⟨lp2, h2⟩ := ih (m.step e) lp1
    exact ⟨lp2, by simp only [MObj.run, Mon.run, List.foldl_cons] at h2 ⊢; rw [h1]; exact h2⟩

/-- the object built by the translated constructor + `initialize`, run through the translated `update` / `timeout`, is the model's
    state for the window `clamp(trunc(2·rate), 4, 64)` -/
theorem src_run_eq (hcmp : TimeoutCmp α) (expectedRate : α) (n : Nat) (hn : Trunc.trunc (((2 : Nat) : α) * expectedRate) = (n : Int))
    (evs : List Ev) :
    ∃ lp, (MObj.new expectedRate).run evs = MObj.of ((Mon.init (windowOf n)).run evs) lp := by
  have hnew : MObj.new expectedRate = MObj.of (Mon.init (windowOf n)) 0 := by
    simp only [MObj.new, initialize_bridge expectedRate n hn, ctor_bridge]
    rfl
  rw [hnew]
  exact src_run_of hcmp evs _ 0

end Run

/-- over ℝ the `double` comparison of `timeout`, `count / 1e9 > 0.5`, IS the comparison of nanoseconds `count > 500000000` -/
theorem timeoutCmp_real : TimeoutCmp ℝ := by
  intro c
  have h : Generated.C17.timeoutNs = 500000000 := constants_as_stated.2.2
  rw [h]
  have e1 : ((OfScientific.ofScientific 5 true 1 : ℝ)) = 1 / 2 := by norm_num
  have e2 : (((1000000000 : Nat) : ℝ)) = 1000000000 := by norm_num
  rw [e1, e2, lt_div_iff₀ (by norm_num)]
  constructor
  · intro hh
    have : ((500000000 : Int) : ℝ) < (c : ℝ) := by push_cast; linarith
    exact_mod_cast this
  · intro hh
    have : ((500000000 : Int) : ℝ) < (c : ℝ) := by exact_mod_cast hh
    push_cast at this; linarith

/-- **`C17.rate_exact` about the translated functions, at ℝ**: for EVERY interleaving of data stamps and heartbeats run through the
    translated `update` / `timeout`, the stored `rate_` is 0 until `W + 1` stamps have been seen or after a timeout since the last
    stamp, and otherwise `W · 10⁹ / (sₙ − sₙ₋W)` — with `W = clamp(trunc(2·rate), 4, 64)` -/
theorem src_rate_exact (expectedRate : ℝ) (n : Nat) (hn : Trunc.trunc (((2 : Nat) : ℝ) * expectedRate) = (n : Int)) (evs : List Ev) :
    let W := windowOf n
    let o := (MObj.new expectedRate).run evs
    o.windowSize = (W : Int) ∧
    o.rate = match C17.expectedRate W (history evs) with
             | none => 0
             | some span => (W : ℝ) * 1000000000 / (span : ℝ) := by
  intro W o
  obtain ⟨lp, ho⟩ := src_run_eq timeoutCmp_real expectedRate n hn evs
  have hW : 0 < W := by have := (window_is_clamp n).2.1; omega
  obtain ⟨hr, hw⟩ := rate_exact W hW evs
  have h1 : o.windowSize = (((Mon.init W).run evs).W : Int) := by rw [show o = _ from ho]; rfl
  have h2 : o.rate = rateVal ((Mon.init W).run evs).W ((Mon.init W).run evs).rate := by rw [show o = _ from ho]; rfl
  refine ⟨by rw [h1, hw], ?_⟩
  rw [h2, hw, hr]
  cases C17.expectedRate W (history evs) with
  | none => simp [rateVal]
  | some span =>
    simp only [rateVal]
    push_cast
    rw [div_div_eq_mul_div]
    ring

/-- **`C17.timeout_rule` about the translated `timeout`, at ℝ**: in every state reached through the translated functions, the
    translated `timeout(t)` returns `true` exactly when a stamp exists and `t` is more than 0.5 s (500000000 ns) after the last
    stamp; it then stores the rate 0, and otherwise leaves the rate unchanged -/
theorem src_timeout_rule (expectedRate : ℝ) (n : Nat) (hn : Trunc.trunc (((2 : Nat) : ℝ) * expectedRate) = (n : Int)) (evs : List Ev)
    (t : Int) :
    let o := (MObj.new expectedRate).run evs
    let r := Src.C17.RateMonitoring.timeout t o.lastDuration o.periods o.rate
    (r.1 = true ↔ (history evs).1 ≠ [] ∧ t - lastOr 0 (history evs).1 > 500000000) ∧
    (r.1 = true → r.2 = 0) ∧ (r.1 = false → r.2 = o.rate) := by
  intro o r
  obtain ⟨lp, ho⟩ := src_run_eq timeoutCmp_real expectedRate n hn evs
  have hW : 0 < windowOf n := by have := (window_is_clamp n).2.1; omega
  obtain ⟨h1, h2, h3⟩ := timeout_rule (windowOf n) hW evs t
  have hr : r = ((((Mon.init (windowOf n)).run evs).timeout t).2,
      (rateVal (((Mon.init (windowOf n)).run evs).timeout t).1.W (((Mon.init (windowOf n)).run evs).timeout t).1.rate : ℝ)) := by
    show Src.C17.RateMonitoring.timeout t o.lastDuration o.periods o.rate = _
    rw [show o = _ from ho]
    exact timeout_bridge timeoutCmp_real _ t
  have hor : o.rate = rateVal ((Mon.init (windowOf n)).run evs).W ((Mon.init (windowOf n)).run evs).rate := by
    rw [show o = _ from ho]; rfl
  have hto : Generated.C17.timeoutNs = 500000000 := constants_as_stated.2.2
  rw [hto] at h1
  rw [hr]
  refine ⟨h1, fun h => ?_, fun h => ?_⟩
  · simp only [h2 h, rateVal]; norm_num
  · rw [h3 h, hor]

/-! ### the rate check-up: one step of `C17.checkup_agrees` about the translated `CheckupRate::evaluate` / `heartBeatCallback` -/

private theorem code_eq_zero (s : Checkup.Status) : code s = 0 ↔ s = .ok := by cases s <;> decide

/-- **after a data stamp the report agrees with the monitor's current rate** (the step of `C17.checkup_agrees`, about the translated
    `CheckupRate<CheckupEqualTo<double>>::evaluate`, at ℝ): the returned status is the stored one, it is OK exactly when the rate the
    translated `update` has just stored is within ε of the expected rate (`C18.equal_to_ok_iff`), and the info string is that rate -/
theorem src_checkupRate_eq_consistent (tsi : ℝ → String) (name : String) (c : CR ℝ) (hk : c.chk.kind = .equalTo) (t : Int) :
    let out := Src.C17.CheckupRate.evaluate_eq c.chk.e name c.chk.t c.mon.last c.mon.sum c.mon.q (rateVal c.mon.W c.mon.rate : ℝ)
      (c.mon.W : Int) t tsi
    let rate := out.2.2.2.2.2.2.2.2
    out.1 = out.2.2.1 ∧ (out.1 = 0 ↔ |rate - c.chk.t| ≤ c.chk.e) ∧ out.2.2.2.1 = tsi rate ∧
    rate = (Src.C17.RateMonitoring.update t c.mon.last c.mon.sum c.mon.q (rateVal c.mon.W c.mon.rate : ℝ) (c.mon.W : Int)).1 := by
  intro out rate
  have h : out = shownStamp tsi name c t := checkupRate_evaluate_eq_bridge tsi name c hk t
  have hu := update_bridge (α := ℝ) c.mon t
  have hrate : rate = rateVal (c.mon.update t).W (c.mon.update t).rate := by
    show out.2.2.2.2.2.2.2.2 = _; rw [h]; rfl
  refine ⟨by rw [h]; rfl, ?_, ?_, by rw [hu]; exact hrate⟩
  · rw [hrate, ← C18.equal_to_ok_iff, ← code_eq_zero, h]
    simp only [shownStamp, CR.stamp, Checkup.evaluate, hk]
  · rw [hrate, h]; rfl

/-- the same for `CheckupRate<CheckupGreaterThan<double>>::evaluate`: OK exactly when the stored rate exceeds `expected − ε` -/
theorem src_checkupRate_gt_consistent (tsi : ℝ → String) (name : String) (c : CR ℝ) (hk : c.chk.kind = .greaterThan) (t : Int) :
    let out := Src.C17.CheckupRate.evaluate_gt c.chk.e name c.chk.t c.mon.last c.mon.sum c.mon.q (rateVal c.mon.W c.mon.rate : ℝ)
      (c.mon.W : Int) t tsi
    let rate := out.2.2.2.2.2.2.2.2
    out.1 = out.2.2.1 ∧ (out.1 = 0 ↔ rate > c.chk.t - c.chk.e) ∧ out.2.2.2.1 = tsi rate := by
  intro out rate
  have h : out = shownStamp tsi name c t := checkupRate_evaluate_gt_bridge tsi name c hk t
  have hrate : rate = rateVal (c.mon.update t).W (c.mon.update t).rate := by
    show out.2.2.2.2.2.2.2.2 = _; rw [h]; rfl
  refine ⟨by rw [h]; rfl, ?_, ?_⟩
  · rw [hrate, ← C18.greater_than_ok_iff, ← code_eq_zero, h]
    simp only [shownStamp, CR.stamp, Checkup.evaluate, hk]
  · rw [hrate, h]; rfl

/-- **a heartbeat that times out makes the report STALE / "timeout" with an empty value and forces the rate to 0; any other heartbeat
    changes nothing** (about the translated `heartBeatCallback`, at ℝ) -/
theorem src_checkupRate_heartbeat (msg0 : String) (st0 : Int) (name info0 : String) (c : CR ℝ) (t : Int) :
    let out := Src.C17.CheckupRate.heartBeatCallback_eq msg0 st0 name info0 c.mon.last c.mon.q (rateVal c.mon.W c.mon.rate : ℝ) t
    (out.1 = false ↔ c.mon.q ≠ [] ∧ t - c.mon.last > 500000000) ∧
    (out.1 = false → out.2 = (name ++ " timeout.", 3, "", 0)) ∧
    (out.1 = true → out.2 = (msg0, st0, info0, rateVal c.mon.W c.mon.rate)) := by
  intro out
  have h : out = shownHeartbeat msg0 st0 name info0 c t := checkupRate_heartbeat_eq_bridge timeoutCmp_real msg0 st0 name info0 c t
  have hto : Generated.C17.timeoutNs = 500000000 := constants_as_stated.2.2
  rw [h]
  unfold shownHeartbeat CR.heartbeat Mon.timeout
  rw [hto]
  by_cases hc : c.mon.q ≠ [] ∧ t - c.mon.last > 500000000
  · simp only [hc, if_true, and_self, ne_eq, not_false_eq_true, Bool.false_eq_true, if_false]
    refine ⟨trivial, fun _ => ?_, fun hh => by simp at hh⟩
    simp only [Checkup.timeout, ending, code, Checkup.Status.toNat, rateVal]
    norm_num
  · simp [hc]

end Romea.Bridge.C17
