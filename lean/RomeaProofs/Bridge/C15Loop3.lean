import RomeaProofs.Bridge.C15
import RomeaProofs.Bridge.C15Loop
import RomeaProofs.Lemmas.C15Odometer

/-!
# Bridge C15, part 3b: the blanking loop nest of `WrappableGrid<int,3>::translate` AS TRANSLATED FROM TODAY'S SOURCE = the model's blanking

The three-axis counterpart of `Bridge/C15Loop.lean`. `Bridge/C15.lean` (`translate_3_quantities`) reduced the translated `translate_3` to:
per axis, the translated blanking loop (`translate_3.loop4` for axis 0, `loop6` for axis 1, `loop7` for axis 2 — the other four copies
are the same functions) started at `firstSlab`, then the model's `newOffset`. This file proves the loops themselves:

* `loop4_eq_odo3`, `loop6_eq_odo3`, `loop7_eq_odo3` — each generated loop function IS the generic three-level odometer
  `C15Odometer.odo3` (induction on the fuel, unfolding the generated definitions: any change of the loop's comparisons, resets, carried
  variables, of the order of the carries or of the written position breaks these);
* `blank_axis0_bridge_3`, `blank_axis1_bridge_3`, `blank_axis2_bridge_3` — the odometer induction (`C15Odometer.odo3_box`): for positive
  sizes below 2^63 with a product below 2^64, stored offsets below the sizes and a non-zero offset, with fuel ≥ (number of cells of the
  grid) + 1 the translated loop started at `firstSlab` returns `some` buffer = the model's fold of `set (linIdx c) e` over
  `box (slabRanges …)`;
* `translate_3_bridge` — the translated `translate_3 fuel …` = `some` (buffer and accumulated offsets of the model's
  `WGrid.translate`), for EVERY offset triple (any sign, any magnitude) and every empty value; `translate_3_bridge_init` the same with
  the index coefficients taken from the translated `Grid::init`.

Fuel: `n0 * n1 * n2 + 1`. Core Lean only.
-/
namespace Romea.Bridge.C15
open Romea Romea.WrapGrid Romea.C15Odometer

private theorem two64_eq3 : two64 = 18446744073709551616 := by decide

/-- the position the translated three-axis loop writes for the index triple `(x0, x1, x2)` -/
def srcPos3 (c0 c1 c2 o0 o1 o2 n0 n1 n2 : Int) (x0 x1 x2 : Int) : Nat :=
  Int.toNat (Src.C15.WrappableGrid.computeCellLinearIndex__3 x0 x1 x2 c0 c1 c2 o0 o1 o2 n0 n1 n2)

/-! ### the generated loop functions are the generic three-level odometer -/

/-- the blanking loop of axis 0 as generated: axis 0 runs over `[firstSlab, lastSlab)`, axes 1 and 2 over their whole range -/
theorem loop4_eq_odo3 (e f c0 c1 c2 o0 o1 o2 l n0 n1 n2 : Int) (fuel : Nat) (buf : List Int) (x0 x1 x2 : Int) (done : Bool) :
    Src.C15.WrappableGrid.translate_3.loop4 e f c0 c1 c2 o0 o1 o2 l n0 n1 n2 fuel buf x0 x1 x2 done
      = odo3 (srcPos3 c0 c1 c2 o0 o1 o2 n0 n1 n2) e f l 0 n1 0 n2 fuel buf x0 x1 x2 done := by
  induction fuel generalizing buf x0 x1 x2 done with
  | zero => rfl
  | succ k ih =>
    unfold Src.C15.WrappableGrid.translate_3.loop4 odo3
    simp only [ih, srcPos3]

/-- the blanking loop of axis 1 as generated (`loop2` is the same function) -/
theorem loop6_eq_odo3 (e f c0 c1 c2 o0 o1 o2 l n0 n1 n2 : Int) (fuel : Nat) (buf : List Int) (x0 x1 x2 : Int) (done : Bool) :
    Src.C15.WrappableGrid.translate_3.loop6 e f c0 c1 c2 o0 o1 o2 l n0 n1 n2 fuel buf x0 x1 x2 done
      = odo3 (srcPos3 c0 c1 c2 o0 o1 o2 n0 n1 n2) e 0 n0 f l 0 n2 fuel buf x0 x1 x2 done := by
  induction fuel generalizing buf x0 x1 x2 done with
  | zero => rfl
  | succ k ih =>
    unfold Src.C15.WrappableGrid.translate_3.loop6 odo3
    simp only [ih, srcPos3]

/-- the blanking loop of axis 2 as generated (`loop1`, `loop3`, `loop5` are the same function) -/
theorem loop7_eq_odo3 (e f c0 c1 c2 o0 o1 o2 l n0 n1 n2 : Int) (fuel : Nat) (buf : List Int) (x0 x1 x2 : Int) (done : Bool) :
    Src.C15.WrappableGrid.translate_3.loop7 e f c0 c1 c2 o0 o1 o2 l n0 n1 n2 fuel buf x0 x1 x2 done
      = odo3 (srcPos3 c0 c1 c2 o0 o1 o2 n0 n1 n2) e 0 n0 0 n1 f l fuel buf x0 x1 x2 done := by
  induction fuel generalizing buf x0 x1 x2 done with
  | zero => rfl
  | succ k ih =>
    unfold Src.C15.WrappableGrid.translate_3.loop7 odo3
    simp only [ih, srcPos3]

/-! ### the slab is a non-empty part of the axis -/

private theorem slab_bounds3 (n : Nat) (d : Int) (hn : 0 < n) (hn2 : n < 2 ^ 63) (hd : d ≠ 0) :
    firstSlab n d < lastSlab n d ∧ lastSlab n d ≤ n := by
  have h64 : (2 : Int) ^ 64 = 18446744073709551616 := by decide
  unfold lastSlab firstSlab numberOfSlabs toSizeT
  rw [two64_eq3, h64]
  simp only [GT.gt, Int.min_def]
  split <;> split <;> omega

private theorem srcPos3_eq (buf : List Int) (n0 n1 n2 o0 o1 o2 : Nat) (hn0 : 0 < n0) (hn1 : 0 < n1) (hn2 : 0 < n2) (h0 : n0 < 2 ^ 63) (h1 : n1 < 2 ^ 63) (h2 : n2 < 2 ^ 63) (hp : n0 * n1 * n2 < two64) (ho0 : o0 < n0) (ho1 : o1 < n1) (ho2 : o2 < n2) (x y z : Nat) (hx : x < n0) (hy : y < n1) (hz : z < n2) :
    srcPos3 1 n0 (n0 * n1 : Nat) o0 o1 o2 n0 n1 n2 (x : Int) (y : Int) (z : Int) = (⟨[n0, n1, n2], [o0, o1, o2], buf⟩ : WGrid Int).linIdx [x, y, z] := by
  unfold srcPos3
  rw [linIdx_3_bridge buf n0 n1 n2 o0 o1 o2 x y z hn0 hn1 hn2 hp (by rw [two64_eq3]; omega) (by rw [two64_eq3]; omega)
    (by rw [two64_eq3]; omega), Int.toNat_natCast]

/-! ### the odometer induction, per axis -/

/-- **Axis 0 (DIM = 3): the translated blanking loop = the model's blanking.** With fuel ≥ number of cells + 1 the loop ends and its buffer
    is the model's fold over `box (slabRanges [n0, n1, n2] 0 firstSlab lastSlab)` -/
theorem blank_axis0_bridge_3 (buf : List Int) (e : Int) (n0 n1 n2 o0 o1 o2 : Nat) (hn0 : 0 < n0) (hn1 : 0 < n1) (hn2 : 0 < n2) (h0 : n0 < 2 ^ 63) (h1 : n1 < 2 ^ 63) (h2 : n2 < 2 ^ 63) (hp : n0 * n1 * n2 < two64) (ho0 : o0 < n0) (ho1 : o1 < n1) (ho2 : o2 < n2) (d : Int) (hd : d ≠ 0) (fuel : Nat)
    (hfuel : n0 * n1 * n2 + 1 ≤ fuel) :
    Src.C15.WrappableGrid.translate_3.loop4 e (firstSlab n0 d : Nat) 1 n0 (n0 * n1 : Nat) o0 o1 o2 (lastSlab n0 d : Nat) n0 n1 n2 fuel buf (firstSlab n0 d : Nat) 0 0 false
      = some ((box (slabRanges [n0, n1, n2] 0 (firstSlab n0 d) (lastSlab n0 d))).foldl
          (fun b c => b.set ((⟨[n0, n1, n2], [o0, o1, o2], buf⟩ : WGrid Int).linIdx c) e) buf, ((firstSlab n0 d : Nat) : Int), 0, 0, true) := by
  obtain ⟨hfl, hln⟩ := slab_bounds3 n0 d hn0 h0 hd
  have hcells : (n2 - 0) * ((n1 - 0) * (lastSlab n0 d - firstSlab n0 d)) + 1 ≤ fuel := by
    have hle : (n2 - 0) * ((n1 - 0) * (lastSlab n0 d - firstSlab n0 d)) ≤ n2 * (n1 * n0) := Nat.mul_le_mul (by omega) (Nat.mul_le_mul (by omega) (by omega))
    have hcomm : n2 * (n1 * n0) = n0 * n1 * n2 := by ac_rfl
    omega
  rw [loop4_eq_odo3]
  have hb := odo3_box (srcPos3 1 n0 (n0 * n1 : Nat) o0 o1 o2 n0 n1 n2) e (firstSlab n0 d) (lastSlab n0 d) 0 n1 0 n2 (by omega) (by omega) (by omega) hfl hn1 hn2 buf fuel hcells
  simp only [Int.natCast_zero] at hb
  rw [hb]
  have hs : slabRanges [n0, n1, n2] 0 (firstSlab n0 d) (lastSlab n0 d) = [(firstSlab n0 d, lastSlab n0 d), (0, n1), (0, n2)] := rfl
  rw [hs, foldl_box_three (fun c => (⟨[n0, n1, n2], [o0, o1, o2], buf⟩ : WGrid Int).linIdx c) (srcPos3 1 n0 (n0 * n1 : Nat) o0 o1 o2 n0 n1 n2) e _ _ _ _ _ _
    (fun x y z _ hx2 _ hy2 _ hz2 => srcPos3_eq buf n0 n1 n2 o0 o1 o2 hn0 hn1 hn2 h0 h1 h2 hp ho0 ho1 ho2 x y z (by omega) hy2 hz2)]

/-- **Axis 1 (DIM = 3): the translated blanking loop = the model's blanking.** With fuel ≥ number of cells + 1 the loop ends and its buffer
    is the model's fold over `box (slabRanges [n0, n1, n2] 1 firstSlab lastSlab)` -/
theorem blank_axis1_bridge_3 (buf : List Int) (e : Int) (n0 n1 n2 o0 o1 o2 : Nat) (hn0 : 0 < n0) (hn1 : 0 < n1) (hn2 : 0 < n2) (h0 : n0 < 2 ^ 63) (h1 : n1 < 2 ^ 63) (h2 : n2 < 2 ^ 63) (hp : n0 * n1 * n2 < two64) (ho0 : o0 < n0) (ho1 : o1 < n1) (ho2 : o2 < n2) (d : Int) (hd : d ≠ 0) (fuel : Nat)
    (hfuel : n0 * n1 * n2 + 1 ≤ fuel) :
    Src.C15.WrappableGrid.translate_3.loop6 e (firstSlab n1 d : Nat) 1 n0 (n0 * n1 : Nat) o0 o1 o2 (lastSlab n1 d : Nat) n0 n1 n2 fuel buf 0 (firstSlab n1 d : Nat) 0 false
      = some ((box (slabRanges [n0, n1, n2] 1 (firstSlab n1 d) (lastSlab n1 d))).foldl
          (fun b c => b.set ((⟨[n0, n1, n2], [o0, o1, o2], buf⟩ : WGrid Int).linIdx c) e) buf, 0, ((firstSlab n1 d : Nat) : Int), 0, true) := by
  obtain ⟨hfl, hln⟩ := slab_bounds3 n1 d hn1 h1 hd
  have hcells : (n2 - 0) * ((lastSlab n1 d - firstSlab n1 d) * (n0 - 0)) + 1 ≤ fuel := by
    have hle : (n2 - 0) * ((lastSlab n1 d - firstSlab n1 d) * (n0 - 0)) ≤ n2 * (n1 * n0) := Nat.mul_le_mul (by omega) (Nat.mul_le_mul (by omega) (by omega))
    have hcomm : n2 * (n1 * n0) = n0 * n1 * n2 := by ac_rfl
    omega
  rw [loop6_eq_odo3]
  have hb := odo3_box (srcPos3 1 n0 (n0 * n1 : Nat) o0 o1 o2 n0 n1 n2) e 0 n0 (firstSlab n1 d) (lastSlab n1 d) 0 n2 (by omega) (by omega) (by omega) hn0 hfl hn2 buf fuel hcells
  simp only [Int.natCast_zero] at hb
  rw [hb]
  have hs : slabRanges [n0, n1, n2] 1 (firstSlab n1 d) (lastSlab n1 d) = [(0, n0), (firstSlab n1 d, lastSlab n1 d), (0, n2)] := rfl
  rw [hs, foldl_box_three (fun c => (⟨[n0, n1, n2], [o0, o1, o2], buf⟩ : WGrid Int).linIdx c) (srcPos3 1 n0 (n0 * n1 : Nat) o0 o1 o2 n0 n1 n2) e _ _ _ _ _ _
    (fun x y z _ hx2 _ hy2 _ hz2 => srcPos3_eq buf n0 n1 n2 o0 o1 o2 hn0 hn1 hn2 h0 h1 h2 hp ho0 ho1 ho2 x y z hx2 (by omega) hz2)]

/-- **Axis 2 (DIM = 3): the translated blanking loop = the model's blanking.** With fuel ≥ number of cells + 1 the loop ends and its buffer
    is the model's fold over `box (slabRanges [n0, n1, n2] 2 firstSlab lastSlab)` -/
theorem blank_axis2_bridge_3 (buf : List Int) (e : Int) (n0 n1 n2 o0 o1 o2 : Nat) (hn0 : 0 < n0) (hn1 : 0 < n1) (hn2 : 0 < n2) (h0 : n0 < 2 ^ 63) (h1 : n1 < 2 ^ 63) (h2 : n2 < 2 ^ 63) (hp : n0 * n1 * n2 < two64) (ho0 : o0 < n0) (ho1 : o1 < n1) (ho2 : o2 < n2) (d : Int) (hd : d ≠ 0) (fuel : Nat)
    (hfuel : n0 * n1 * n2 + 1 ≤ fuel) :
    Src.C15.WrappableGrid.translate_3.loop7 e (firstSlab n2 d : Nat) 1 n0 (n0 * n1 : Nat) o0 o1 o2 (lastSlab n2 d : Nat) n0 n1 n2 fuel buf 0 0 (firstSlab n2 d : Nat) false
      = some ((box (slabRanges [n0, n1, n2] 2 (firstSlab n2 d) (lastSlab n2 d))).foldl
          (fun b c => b.set ((⟨[n0, n1, n2], [o0, o1, o2], buf⟩ : WGrid Int).linIdx c) e) buf, 0, 0, ((firstSlab n2 d : Nat) : Int), true) := by
  obtain ⟨hfl, hln⟩ := slab_bounds3 n2 d hn2 h2 hd
  have hcells : (lastSlab n2 d - firstSlab n2 d) * ((n1 - 0) * (n0 - 0)) + 1 ≤ fuel := by
    have hle : (lastSlab n2 d - firstSlab n2 d) * ((n1 - 0) * (n0 - 0)) ≤ n2 * (n1 * n0) := Nat.mul_le_mul (by omega) (Nat.mul_le_mul (by omega) (by omega))
    have hcomm : n2 * (n1 * n0) = n0 * n1 * n2 := by ac_rfl
    omega
  rw [loop7_eq_odo3]
  have hb := odo3_box (srcPos3 1 n0 (n0 * n1 : Nat) o0 o1 o2 n0 n1 n2) e 0 n0 0 n1 (firstSlab n2 d) (lastSlab n2 d) (by omega) (by omega) (by omega) hn0 hn1 hfl buf fuel hcells
  simp only [Int.natCast_zero] at hb
  rw [hb]
  have hs : slabRanges [n0, n1, n2] 2 (firstSlab n2 d) (lastSlab n2 d) = [(0, n0), (0, n1), (firstSlab n2 d, lastSlab n2 d)] := rfl
  rw [hs, foldl_box_three (fun c => (⟨[n0, n1, n2], [o0, o1, o2], buf⟩ : WGrid Int).linIdx c) (srcPos3 1 n0 (n0 * n1 : Nat) o0 o1 o2 n0 n1 n2) e _ _ _ _ _ _
    (fun x y z _ hx2 _ hy2 _ hz2 => srcPos3_eq buf n0 n1 n2 o0 o1 o2 hn0 hn1 hn2 h0 h1 h2 hp ho0 ho1 ho2 x y z hx2 hy2 (by omega))]

/-! ### the whole of `translate` (DIM = 3) -/

private theorem translateAxis0_eq3 (buf : List Int) (e : Int) (n0 n1 n2 o0 o1 o2 : Nat) (d : Int) :
    (⟨[n0, n1, n2], [o0, o1, o2], buf⟩ : WGrid Int).translateAxis 0 d e =
      if d = 0 then ⟨[n0, n1, n2], [o0, o1, o2], buf⟩
      else ⟨[n0, n1, n2], [newOffset n0 o0 d, o1, o2],
        (box (slabRanges [n0, n1, n2] 0 (firstSlab n0 d) (lastSlab n0 d))).foldl
          (fun b c => b.set ((⟨[n0, n1, n2], [o0, o1, o2], buf⟩ : WGrid Int).linIdx c) e) buf⟩ := by
  unfold WGrid.translateAxis
  split <;> rfl

private theorem translateAxis1_eq3 (buf : List Int) (e : Int) (n0 n1 n2 o0 o1 o2 : Nat) (d : Int) :
    (⟨[n0, n1, n2], [o0, o1, o2], buf⟩ : WGrid Int).translateAxis 1 d e =
      if d = 0 then ⟨[n0, n1, n2], [o0, o1, o2], buf⟩
      else ⟨[n0, n1, n2], [o0, newOffset n1 o1 d, o2],
        (box (slabRanges [n0, n1, n2] 1 (firstSlab n1 d) (lastSlab n1 d))).foldl
          (fun b c => b.set ((⟨[n0, n1, n2], [o0, o1, o2], buf⟩ : WGrid Int).linIdx c) e) buf⟩ := by
  unfold WGrid.translateAxis
  split <;> rfl

private theorem translateAxis2_eq3 (buf : List Int) (e : Int) (n0 n1 n2 o0 o1 o2 : Nat) (d : Int) :
    (⟨[n0, n1, n2], [o0, o1, o2], buf⟩ : WGrid Int).translateAxis 2 d e =
      if d = 0 then ⟨[n0, n1, n2], [o0, o1, o2], buf⟩
      else ⟨[n0, n1, n2], [o0, o1, newOffset n2 o2 d],
        (box (slabRanges [n0, n1, n2] 2 (firstSlab n2 d) (lastSlab n2 d))).foldl
          (fun b c => b.set ((⟨[n0, n1, n2], [o0, o1, o2], buf⟩ : WGrid Int).linIdx c) e) buf⟩ := by
  unfold WGrid.translateAxis
  split <;> rfl

private theorem translate_three (g : WGrid Int) (hd : g.dims.length = 3) (d0 d1 d2 e : Int) :
    g.translate [d0, d1, d2] e = ((g.translateAxis 0 d0 e).translateAxis 1 d1 e).translateAxis 2 d2 e := by
  unfold WGrid.translate
  rw [hd]
  rfl

/-- the result tuple of the translated `translate_3` that corresponds to a three-axis model grid -/
def enc3 (g : WGrid Int) : List Int × Int × Int × Int :=
  (g.buf, ((g.off.getD 0 0 : Nat) : Int), ((g.off.getD 1 0 : Nat) : Int), ((g.off.getD 2 0 : Nat) : Int))

private theorem axisPass0_3 (buf : List Int) (e : Int) (n0 n1 n2 o0 o1 o2 : Nat) (hn0 : 0 < n0) (hn1 : 0 < n1) (hn2 : 0 < n2) (h0 : n0 < 2 ^ 63) (h1 : n1 < 2 ^ 63) (h2 : n2 < 2 ^ 63) (hp : n0 * n1 * n2 < two64) (ho0 : o0 < n0) (ho1 : o1 < n1) (ho2 : o2 < n2) (d : Int) (fuel : Nat)
    (hfuel : n0 * n1 * n2 + 1 ≤ fuel) :
    axisPass3 (fun f l => Src.C15.WrappableGrid.translate_3.loop4 e f 1 n0 (n0 * n1 : Nat) o0 o1 o2 l n0 n1 n2 fuel buf f 0 0 false) n0 o0 d buf
      = some (((⟨[n0, n1, n2], [o0, o1, o2], buf⟩ : WGrid Int).translateAxis 0 d e).buf,
          ((((⟨[n0, n1, n2], [o0, o1, o2], buf⟩ : WGrid Int).translateAxis 0 d e).off.getD 0 0 : Nat) : Int)) := by
  rw [translateAxis0_eq3]
  unfold axisPass3
  by_cases hd : d = 0
  · simp only [hd, if_true, List.getD_cons_zero]
  · simp only [hd, if_false, List.getD_cons_zero]
    rw [blank_axis0_bridge_3 buf e n0 n1 n2 o0 o1 o2 hn0 hn1 hn2 h0 h1 h2 hp ho0 ho1 ho2 d hd fuel hfuel]

private theorem axisPass1_3 (buf : List Int) (e : Int) (n0 n1 n2 o0 o1 o2 : Nat) (hn0 : 0 < n0) (hn1 : 0 < n1) (hn2 : 0 < n2) (h0 : n0 < 2 ^ 63) (h1 : n1 < 2 ^ 63) (h2 : n2 < 2 ^ 63) (hp : n0 * n1 * n2 < two64) (ho0 : o0 < n0) (ho1 : o1 < n1) (ho2 : o2 < n2) (d : Int) (fuel : Nat)
    (hfuel : n0 * n1 * n2 + 1 ≤ fuel) :
    axisPass3 (fun f l => Src.C15.WrappableGrid.translate_3.loop6 e f 1 n0 (n0 * n1 : Nat) o0 o1 o2 l n0 n1 n2 fuel buf 0 f 0 false) n1 o1 d buf
      = some (((⟨[n0, n1, n2], [o0, o1, o2], buf⟩ : WGrid Int).translateAxis 1 d e).buf,
          ((((⟨[n0, n1, n2], [o0, o1, o2], buf⟩ : WGrid Int).translateAxis 1 d e).off.getD 1 0 : Nat) : Int)) := by
  rw [translateAxis1_eq3]
  unfold axisPass3
  by_cases hd : d = 0
  · simp only [hd, if_true, List.getD_cons_succ, List.getD_cons_zero]
  · simp only [hd, if_false, List.getD_cons_succ, List.getD_cons_zero]
    rw [blank_axis1_bridge_3 buf e n0 n1 n2 o0 o1 o2 hn0 hn1 hn2 h0 h1 h2 hp ho0 ho1 ho2 d hd fuel hfuel]

private theorem axisPass2_3 (buf : List Int) (e : Int) (n0 n1 n2 o0 o1 o2 : Nat) (hn0 : 0 < n0) (hn1 : 0 < n1) (hn2 : 0 < n2) (h0 : n0 < 2 ^ 63) (h1 : n1 < 2 ^ 63) (h2 : n2 < 2 ^ 63) (hp : n0 * n1 * n2 < two64) (ho0 : o0 < n0) (ho1 : o1 < n1) (ho2 : o2 < n2) (d : Int) (fuel : Nat)
    (hfuel : n0 * n1 * n2 + 1 ≤ fuel) :
    axisPass3 (fun f l => Src.C15.WrappableGrid.translate_3.loop7 e f 1 n0 (n0 * n1 : Nat) o0 o1 o2 l n0 n1 n2 fuel buf 0 0 f false) n2 o2 d buf
      = some (((⟨[n0, n1, n2], [o0, o1, o2], buf⟩ : WGrid Int).translateAxis 2 d e).buf,
          ((((⟨[n0, n1, n2], [o0, o1, o2], buf⟩ : WGrid Int).translateAxis 2 d e).off.getD 2 0 : Nat) : Int)) := by
  rw [translateAxis2_eq3]
  unfold axisPass3
  by_cases hd : d = 0
  · simp only [hd, if_true, List.getD_cons_succ, List.getD_cons_zero]
  · simp only [hd, if_false, List.getD_cons_succ, List.getD_cons_zero]
    rw [blank_axis2_bridge_3 buf e n0 n1 n2 o0 o1 o2 hn0 hn1 hn2 h0 h1 h2 hp ho0 ho1 ho2 d hd fuel hfuel]

/-- **`WrappableGrid<int,3>::translate` as translated from today's source = the model's `WGrid.translate`.** For a three-axis grid with
    positive sizes below 2^63 whose product is below 2^64 and stored offsets below the sizes, for EVERY offset triple `(d0, d1, d2)`
    (positive, negative, zero, `|d| ≥ n` included) and every empty value `e`, with fuel ≥ `n0 * n1 * n2 + 1`: the translated function (with
    the index coefficients `(1, n0, n0 * n1)` that `Grid::init` stores) terminates and returns the buffer and the three accumulated
    offsets of the model -/
theorem translate_3_bridge (buf : List Int) (e d0 d1 d2 : Int) (n0 n1 n2 o0 o1 o2 : Nat) (hn0 : 0 < n0) (hn1 : 0 < n1) (hn2 : 0 < n2) (h0 : n0 < 2 ^ 63) (h1 : n1 < 2 ^ 63) (h2 : n2 < 2 ^ 63) (hp : n0 * n1 * n2 < two64) (ho0 : o0 < n0) (ho1 : o1 < n1) (ho2 : o2 < n2) (fuel : Nat)
    (hfuel : n0 * n1 * n2 + 1 ≤ fuel) :
    Src.C15.WrappableGrid.translate_3 fuel buf e 1 n0 (n0 * n1 : Nat) d0 d1 d2 o0 o1 o2 n0 n1 n2
      = some (enc3 ((⟨[n0, n1, n2], [o0, o1, o2], buf⟩ : WGrid Int).translate [d0, d1, d2] e)) := by
  rw [translate_3_quantities fuel buf e 1 n0 (n0 * n1 : Nat) d0 d1 d2 o0 o1 o2 n0 n1 n2 h0 h1 h2,
    axisPass0_3 buf e n0 n1 n2 o0 o1 o2 hn0 hn1 hn2 h0 h1 h2 hp ho0 ho1 ho2 d0 fuel hfuel, translate_three _ rfl]
  -- the grid after axis 0, in components
  obtain ⟨o0', b1, hg1, ho0'⟩ : ∃ (o0' : Nat) (b1 : List Int),
      (⟨[n0, n1, n2], [o0, o1, o2], buf⟩ : WGrid Int).translateAxis 0 d0 e = ⟨[n0, n1, n2], [o0', o1, o2], b1⟩ ∧ o0' < n0 := by
    rw [translateAxis0_eq3]
    by_cases hd : d0 = 0
    · exact ⟨o0, buf, by rw [if_pos hd], ho0⟩
    · exact ⟨newOffset n0 o0 d0, _, by rw [if_neg hd], Nat.mod_lt _ hn0⟩
  rw [hg1]
  simp only [List.getD_cons_zero]
  rw [axisPass1_3 b1 e n0 n1 n2 o0' o1 o2 hn0 hn1 hn2 h0 h1 h2 hp ho0' ho1 ho2 d1 fuel hfuel]
  -- the grid after axis 1
  obtain ⟨o1', b2, hg2, ho1'⟩ : ∃ (o1' : Nat) (b2 : List Int),
      (⟨[n0, n1, n2], [o0', o1, o2], b1⟩ : WGrid Int).translateAxis 1 d1 e = ⟨[n0, n1, n2], [o0', o1', o2], b2⟩ ∧ o1' < n1 := by
    rw [translateAxis1_eq3]
    by_cases hd : d1 = 0
    · exact ⟨o1, b1, by rw [if_pos hd], ho1⟩
    · exact ⟨newOffset n1 o1 d1, _, by rw [if_neg hd], Nat.mod_lt _ hn1⟩
  rw [hg2]
  simp only [List.getD_cons_zero, List.getD_cons_succ]
  rw [axisPass2_3 b2 e n0 n1 n2 o0' o1' o2 hn0 hn1 hn2 h0 h1 h2 hp ho0' ho1' ho2 d2 fuel hfuel]
  simp only [enc3]
  have hoff : ((⟨[n0, n1, n2], [o0', o1', o2], b2⟩ : WGrid Int).translateAxis 2 d2 e).off.getD 0 0 = o0' ∧
      ((⟨[n0, n1, n2], [o0', o1', o2], b2⟩ : WGrid Int).translateAxis 2 d2 e).off.getD 1 0 = o1' := by
    rw [translateAxis2_eq3]
    split <;> exact ⟨rfl, rfl⟩
  rw [hoff.1, hoff.2]

/-- the same with the index coefficients taken from the translated `Grid::init` (what the object actually stores) -/
theorem translate_3_bridge_init (buf : List Int) (e d0 d1 d2 : Int) (n0 n1 n2 o0 o1 o2 : Nat) (hn0 : 0 < n0) (hn1 : 0 < n1) (hn2 : 0 < n2) (h0 : n0 < 2 ^ 63) (h1 : n1 < 2 ^ 63) (h2 : n2 < 2 ^ 63) (hp : n0 * n1 * n2 < two64) (ho0 : o0 < n0) (ho1 : o1 < n1) (ho2 : o2 < n2) (fuel : Nat)
    (hfuel : n0 * n1 * n2 + 1 ≤ fuel) :
    let c := Src.C15.Grid.init_3 [] n0 n1 n2
    Src.C15.WrappableGrid.translate_3 fuel buf e c.2.1 c.2.2.1 c.2.2.2.1 d0 d1 d2 o0 o1 o2 c.2.2.2.2.1 c.2.2.2.2.2.1 c.2.2.2.2.2.2
      = some (enc3 ((⟨[n0, n1, n2], [o0, o1, o2], buf⟩ : WGrid Int).translate [d0, d1, d2] e)) := by
  have hc01 : n0 * n1 < 18446744073709551616 := by
    have : n0 * n1 ≤ n0 * n1 * n2 := Nat.le_mul_of_pos_right _ hn2
    rw [two64_eq3] at hp
    omega
  have hpm : ((n1 : Int) * (n0 : Int)) % 18446744073709551616 = ((n0 * n1 : Nat) : Int) := by
    have : ((n0 * n1 : Nat) : Int) = (n1 : Int) * (n0 : Int) := by simp [Int.mul_comm]
    omega
  simp only [Src.C15.Grid.init_3, hpm]
  exact translate_3_bridge buf e d0 d1 d2 n0 n1 n2 o0 o1 o2 hn0 hn1 hn2 h0 h1 h2 hp ho0 ho1 ho2 fuel hfuel

/-! ### Non-vacuity: a concrete 3 × 2 × 2 grid, evaluated through the GENERATED definitions -/

-- offsets (1, -1, 1): slab x = 0, then slab y = 1, then slab z = 0 (through the offsets accumulated so far)
example : Src.C15.WrappableGrid.translate_3 13 [1, 2, 3, 4, 5, 6, 7, 8, 9, 10, 11, 12] 0 1 3 6 1 (-1) 1 0 0 0 3 2 2
    = some ([0, 0, 0, 0, 0, 0, 0, 8, 9, 0, 0, 0], 1, 1, 1) := by decide
example : enc3 ((⟨[3, 2, 2], [0, 0, 0], [1, 2, 3, 4, 5, 6, 7, 8, 9, 10, 11, 12]⟩ : WGrid Int).translate [1, -1, 1] 0)
    = ([0, 0, 0, 0, 0, 0, 0, 8, 9, 0, 0, 0], 1, 1, 1) := by decide
-- offsets (0, 0, -5): |offset| ≥ size on axis 2 only: every cell blanked, stored offset (-5 mod 2 + 2) mod 2 = 1
example : Src.C15.WrappableGrid.translate_3 13 [1, 2, 3, 4, 5, 6, 7, 8, 9, 10, 11, 12] 9 1 3 6 0 0 (-5) 0 0 0 3 2 2
    = some ([9, 9, 9, 9, 9, 9, 9, 9, 9, 9, 9, 9], 0, 0, 1) := by decide
-- the fuel bound is sharp: 12 units of fuel do not finish the 12 cells + the final test
example : Src.C15.WrappableGrid.translate_3 12 [1, 2, 3, 4, 5, 6, 7, 8, 9, 10, 11, 12] 9 1 3 6 0 0 (-5) 0 0 0 3 2 2 = none := by decide
-- the hypotheses of `translate_3_bridge` on this instance
example : (0 < 3 ∧ 0 < 2 ∧ 0 < 2 ∧ 3 < 2 ^ 63 ∧ 2 < 2 ^ 63 ∧ 3 * 2 * 2 < two64 ∧ 3 * 2 * 2 + 1 ≤ 13) := by decide

end Romea.Bridge.C15
