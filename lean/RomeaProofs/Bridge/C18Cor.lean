import RomeaProofs.Bridge.C18
import RomeaProofs.Properties.C18

/-!
# Bridge C18, part 2: headline theorems of `Properties/C18.lean` restated about the functions translated from today's source
(`Romea.Src.C18.*`, regenerated from `/repo` on every run), at the scalar type `ℝ` (exact values of the doubles).
Statuses are the underlying enum values: OK = 0, WARN = 1, ERROR = 2, STALE = 3.
-/
namespace Romea.Bridge.C18
open Romea Romea.Checkup Romea.C18

private theorem code_eq_zero (s : Status) : code s = 0 ↔ s = .ok := by cases s <;> decide
private theorem code_eq_one (s : Status) : code s = 1 ↔ s = .warn := by cases s <;> decide
private theorem code_eq_two (s : Status) : code s = 2 ↔ s = .error := by cases s <;> decide

/-- `C18.equal_to_ok_iff` about the translated `CheckupEqualTo<double>::evaluate`: it returns OK exactly when `|v − t| ≤ ε` -/
theorem src_equal_to_ok_iff (tsi : ℝ → String) (name : String) (t ε v : ℝ) :
    (Src.C18.CheckupEqualTo.evaluate ε name tsi v t).1 = 0 ↔ |v - t| ≤ ε := by
  have h := evaluate_equalTo_bridge tsi name (init .equalTo t ε) rfl v
  simp only [init] at h
  rw [h, shown, code_eq_zero]
  exact equal_to_ok_iff t ε v

/-- `C18.greater_than_ok_iff` about the translated `CheckupGreaterThan<double>::evaluate` -/
theorem src_greater_than_ok_iff (tsi : ℝ → String) (name : String) (t ε v : ℝ) :
    (Src.C18.CheckupGreaterThan.evaluate ε name tsi v t).1 = 0 ↔ v > t - ε := by
  have h := evaluate_greaterThan_bridge tsi name (init .greaterThan t ε) rfl v
  simp only [init] at h
  rw [h, shown, code_eq_zero]
  exact greater_than_ok_iff t ε v

/-- `C18.lower_than_ok_iff` about the translated `CheckupLowerThan<double>::evaluate` -/
theorem src_lower_than_ok_iff (tsi : ℝ → String) (name : String) (t ε v : ℝ) :
    (Src.C18.CheckupLowerThan.evaluate ε name tsi v t).1 = 0 ↔ v < t + ε := by
  have h := evaluate_lowerThan_bridge tsi name (init .lowerThan t ε) rfl v
  simp only [init] at h
  rw [h, shown, code_eq_zero]
  exact lower_than_ok_iff t ε v

/-- `C18.reliability_cases` about the translated `CheckupReliability::evaluate` -/
theorem src_reliability_cases (tsi : ℝ → String) (name : String) (lo hi v : ℝ) :
    ((Src.C18.CheckupReliability.evaluate hi lo v name tsi).1 = 2 ↔ v < lo) ∧
    ((Src.C18.CheckupReliability.evaluate hi lo v name tsi).1 = 1 ↔ lo ≤ v ∧ v < hi) ∧
    ((Src.C18.CheckupReliability.evaluate hi lo v name tsi).1 = 0 ↔ lo ≤ v ∧ hi ≤ v) := by
  have h := evaluate_reliability_bridge tsi name (init .reliability lo hi) rfl v
  simp only [init] at h
  rw [h, shown, code_eq_zero, code_eq_one, code_eq_two]
  exact reliability_cases lo hi v

/-- `C18.evaluate_returns_stored` + message/status consistency about the translated `evaluate`s: the returned status is the stored
    one, and the stored message is the name followed by the ending belonging to that classification -/
theorem src_returns_stored (tsi : ℝ → String) (name : String) (t ε v : ℝ) :
    (Src.C18.CheckupEqualTo.evaluate ε name tsi v t).1 = (Src.C18.CheckupEqualTo.evaluate ε name tsi v t).2.2.1 ∧
    (Src.C18.CheckupGreaterThan.evaluate ε name tsi v t).1 = (Src.C18.CheckupGreaterThan.evaluate ε name tsi v t).2.2.1 ∧
    (Src.C18.CheckupLowerThan.evaluate ε name tsi v t).1 = (Src.C18.CheckupLowerThan.evaluate ε name tsi v t).2.2.1 ∧
    (Src.C18.CheckupReliability.evaluate ε t v name tsi).1 = (Src.C18.CheckupReliability.evaluate ε t v name tsi).2.2.1 ∧
    (Src.C18.CheckupGreaterThan.evaluate ε name tsi v t).2.2.2 = tsi v := by
  have h1 := evaluate_equalTo_bridge tsi name (init .equalTo t ε) rfl v
  have h2 := evaluate_greaterThan_bridge tsi name (init .greaterThan t ε) rfl v
  have h3 := evaluate_lowerThan_bridge tsi name (init .lowerThan t ε) rfl v
  have h4 := evaluate_reliability_bridge tsi name (init .reliability t ε) rfl v
  simp only [init] at h1 h2 h3 h4
  rw [h1, h2, h3, h4]
  simp [shown, evaluate, infoString]

/-- `C18.worse_lattice` about the translated `worse` on the four enum values -/
theorem src_worse_lattice (a b c : Status) :
    Src.C18.worse (code a) (code b) = Src.C18.worse (code b) (code a) ∧
    Src.C18.worse (Src.C18.worse (code a) (code b)) (code c) = Src.C18.worse (code a) (Src.C18.worse (code b) (code c)) ∧
    Src.C18.worse (code a) (code a) = code a ∧
    Src.C18.worse (code a) (code b) = max (code a) (code b) := by
  cases a <;> cases b <;> cases c <;> decide

end Romea.Bridge.C18
