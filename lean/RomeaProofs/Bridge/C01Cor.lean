import RomeaProofs.Bridge.C01
import RomeaProofs.Properties.C01

/-!
# Bridge C01, part 2: headline theorems of `Properties/C01.lean` restated about the functions translated from today's source

`Romea.Src.C01.*` (regenerated from `/repo` on every run) at the scalar type `RN` (exact reals with an absorbing NaN).
The hypothesis `EPSILON < 1.0` of `Bridge.C01.toWGS84_bridge` is discharged here from `C01.epsilon_bounds`.
-/
namespace Romea.Bridge.C01
open Romea Romea.Geodesy Romea.RN Romea.C01 Real

/-- at `RN` the loop of the translated `toWGS84` is entered: `EPSILON < 1.0` -/
theorem src_epsilon_lt_one : (Src.C01.EPSILON : RN) < ((1 : Nat) : RN) := by
  rw [epsilon_bridge, epsilon_of, natCast_of, lt_of]
  have := epsilon_bounds.2
  push_cast
  linarith

/-- the translated `toWGS84` at `RN` = the model's, unconditionally -/
theorem toWGS84_bridge_RN (E : Ellipsoid RN) (p : Vec3 RN) (fuel : Nat) :
    Src.C01.ECEFConverter.toWGS84 (fuel + 1) p.x p.y p.z E.a E.e2
      = (toWGS84 fuel E p).map (fun g => (g.alt, g.lat, g.lon)) :=
  toWGS84_bridge E p fuel src_epsilon_lt_one

/-- `C01.roundtrip_accuracy` about the translated source: on the property's domain, for every longitude in (−π, π] and
    every fuel ≥ 9, constructor → `toECEF` → `toWGS84` AS TRANSLATED is defined, exits, and returns (altitude, latitude,
    longitude) within 1 mm / 1e-9 rad / exactly. -/
theorem src_roundtrip_accuracy {a b lat h : ℝ} (lon : ℝ) (hp : PropDom a b lat h) (hl₁ : -π < lon) (hl₂ : lon ≤ π) :
    let E := Src.C01.EarthEllipsoid.EarthEllipsoid (of a) (of b)          -- (a, b, e, e2)
    let P := Src.C01.ECEFConverter.toECEF E.1 E.2.2.2 (of h) (of lat) (of lon)
    ∀ fuel, 9 ≤ fuel → ∃ φ' h', Src.C01.ECEFConverter.toWGS84 fuel P.1 P.2.1 P.2.2 E.1 E.2.2.2 = some (of h', of φ', of lon) ∧
      |φ' - lat| ≤ 1e-9 ∧ |h' - h| ≤ 1e-3 := by
  intro E P fuel hfuel
  obtain ⟨n, rfl⟩ : ∃ n, fuel = n + 1 := ⟨fuel - 1, by omega⟩
  obtain ⟨φ', h', e, h1, h2, _, _⟩ := roundtrip_accuracy lon hp hl₁ hl₂ n (by omega)
  refine ⟨φ', h', ?_, h1, h2⟩
  have hb := toWGS84_bridge_RN (Ellipsoid.make (of a) (of b))
    (toECEF (Ellipsoid.make (of a) (of b)) ⟨of lat, of lon, of h⟩) n
  rw [e] at hb
  exact hb

/-- `C01.toECEF_on_normal` about the translated source: the translated constructor and `toECEF` return the real point
    `P`, which lies at height `h` on the outward normal of the ellipsoid at the surface point `P0`. -/
theorem src_toECEF_on_normal {a b : ℝ} (lat lon h : ℝ) (hb : 0 < b) (hab : b ≤ a) :
    let E := Src.C01.EarthEllipsoid.EarthEllipsoid (of a) (of b)
    let n : Vec3 ℝ := ⟨cos lat * cos lon, cos lat * sin lon, sin lat⟩
    ∃ P0 P : Vec3 ℝ,
      Src.C01.ECEFConverter.toECEF E.1 E.2.2.2 (of 0) (of lat) (of lon) = (of P0.x, of P0.y, of P0.z) ∧
      Src.C01.ECEFConverter.toECEF E.1 E.2.2.2 (of h) (of lat) (of lon) = (of P.x, of P.y, of P.z) ∧
      P0.x ^ 2 / a ^ 2 + P0.y ^ 2 / a ^ 2 + P0.z ^ 2 / b ^ 2 = 1 ∧
      (∃ k : ℝ, 0 < k ∧ 2 * P0.x / a ^ 2 = k * n.x ∧ 2 * P0.y / a ^ 2 = k * n.y ∧ 2 * P0.z / b ^ 2 = k * n.z) ∧
      P.x = P0.x + h * n.x ∧ P.y = P0.y + h * n.y ∧ P.z = P0.z + h * n.z := by
  intro E n
  obtain ⟨e0, e1, h3, h4, _, h6⟩ := toECEF_on_normal lat lon h hb hab
  refine ⟨_, _, ?_, ?_, h3, h4, h6⟩
  · have := toECEF_bridge (Ellipsoid.make (of a) (of b)) ⟨of lat, of lon, of 0⟩
    rw [e0] at this
    exact this
  · have := toECEF_bridge (Ellipsoid.make (of a) (of b)) ⟨of lat, of lon, of h⟩
    rw [e1] at this
    exact this

/-- `C01.lon_recovered` about the translated source: whenever the translated `toWGS84` returns, its longitude component is
    the longitude that went into the translated `toECEF` (antimeridian included). -/
theorem src_lon_recovered {a b lat h : ℝ} (lon : ℝ) (hd : Dom a b lat h) (hl₁ : -π < lon) (hl₂ : lon ≤ π) :
    let E := Src.C01.EarthEllipsoid.EarthEllipsoid (of a) (of b)
    let P := Src.C01.ECEFConverter.toECEF E.1 E.2.2.2 (of h) (of lat) (of lon)
    ∀ fuel r, Src.C01.ECEFConverter.toWGS84 (fuel + 1) P.1 P.2.1 P.2.2 E.1 E.2.2.2 = some r → r.2.2 = of lon := by
  intro E P fuel r hr
  have hb := toWGS84_bridge_RN (Ellipsoid.make (of a) (of b))
    (toECEF (Ellipsoid.make (of a) (of b)) ⟨of lat, of lon, of h⟩) fuel
  have hr' : Src.C01.ECEFConverter.toWGS84 (fuel + 1)
      (toECEF (Ellipsoid.make (of a) (of b)) ⟨of lat, of lon, of h⟩).x
      (toECEF (Ellipsoid.make (of a) (of b)) ⟨of lat, of lon, of h⟩).y
      (toECEF (Ellipsoid.make (of a) (of b)) ⟨of lat, of lon, of h⟩).z
      (Ellipsoid.make (of a) (of b)).a (Ellipsoid.make (of a) (of b)).e2 = some r := hr
  rw [hb] at hr'
  cases hm : toWGS84 fuel (Ellipsoid.make (of a) (of b)) (toECEF (Ellipsoid.make (of a) (of b)) ⟨of lat, of lon, of h⟩) with
  | none => rw [hm] at hr'; exact absurd hr' (by simp)
  | some g =>
    rw [hm] at hr'
    simp only [Option.map_some, Option.some.injEq] at hr'
    rw [← hr']
    exact (lon_recovered lon hd hl₁ hl₂).2 fuel g hm

end Romea.Bridge.C01
