import RomeaProofs.Bridge.C20Cont
import RomeaProofs.Bridge.C20Cor
import RomeaProofs.Properties.C20

/-!
# Bridge C20, part 6: `C20.container_extents` restated about the translated `min` / `max` / `mean` of `VectorOfEigenVector<Eigen::Array2d>` /
`<Eigen::Vector2d>` (`Romea.Src.C20.min_a2d`, `max_a2d`, `mean_v2d`), at ℝ: for every non-empty container whose coordinates lie within
`±numeric_limits::max()` the translated `min` / `max` return the true componentwise extrema and `mean` the centroid.
-/
namespace Romea.Bridge.C20
open Romea Romea.BBox Romea.C20

theorem src_container_extents_2d (L : Limits ℝ) (pts : List (ℝ × ℝ)) (hne : pts ≠ [])
    (hM : ∀ p ∈ pts, (-L.maxVal ≤ p.1 ∧ p.1 ≤ L.maxVal) ∧ (-L.maxVal ≤ p.2 ∧ p.2 ≤ L.maxVal)) :
    let mn := (letI := L; Src.C20.min_a2d pts)
    let mx := (letI := L; Src.C20.max_a2d pts)
    let me := Src.C20.mean_v2d pts
    (∀ p ∈ pts, mn.1 ≤ p.1 ∧ p.1 ≤ mx.1 ∧ mn.2 ≤ p.2 ∧ p.2 ≤ mx.2) ∧
    (∃ p ∈ pts, mn.1 = p.1) ∧ (∃ p ∈ pts, mx.1 = p.1) ∧ (∃ p ∈ pts, mn.2 = p.2) ∧ (∃ p ∈ pts, mx.2 = p.2) ∧
    me.1 = (pts.map (·.1)).sum / (pts.length : ℝ) ∧ me.2 = (pts.map (·.2)).sum / (pts.length : ℝ) := by
  let _ := L
  intro mn mx me
  let q : List (Vec 2 ℝ) := pts.map (fun p => v2 p.1 p.2)
  have hq : q ≠ [] := by simpa [q] using hne
  have hMq : ∀ p ∈ q, ∀ i, -L.maxVal ≤ p i ∧ p i ≤ L.maxVal := by
    intro p hp i
    obtain ⟨p', hp', rfl⟩ := List.mem_map.mp hp
    match i with
    | ⟨0, _⟩ => exact (hM p' hp').1
    | ⟨1, _⟩ => exact (hM p' hp').2
  obtain ⟨hmin, hmax, hmean⟩ := container_extents L.maxVal q hq hMq
  have emn : mn = (contMinWith L.maxVal q 0, contMinWith L.maxVal q 1) := contMin_a2d_bridge pts
  have emx : mx = (contMaxWith (-L.maxVal) q 0, contMaxWith (-L.maxVal) q 1) := contMax_a2d_bridge pts
  have eme : me = (contMean q 0, contMean q 1) := contMean_v2d_bridge hc_real pts
  have lift : ∀ (i : Fin 2) (f : ℝ × ℝ → ℝ), (∀ p : ℝ × ℝ, (v2 p.1 p.2 : Vec 2 ℝ) i = f p) →
      ∀ m, (∃ p ∈ q, m = p i) → ∃ p ∈ pts, m = f p := by
    intro i f hf m ⟨p, hp, hm⟩
    obtain ⟨p', hp', rfl⟩ := List.mem_map.mp hp
    exact ⟨p', hp', by rw [hm, hf]⟩
  have hlen : q.length = pts.length := by simp [q]
  have hs0 : (q.map (fun p => p 0)).sum = (pts.map (·.1)).sum := by simp [q, List.map_map, Function.comp_def, v2]
  have hs1 : (q.map (fun p => p 1)).sum = (pts.map (·.2)).sum := by simp [q, List.map_map, Function.comp_def, v2]
  rw [emn, emx, eme]
  refine ⟨?_, lift 0 (fun p => p.1) (fun _ => rfl) _ (hmin 0).2, lift 0 (fun p => p.1) (fun _ => rfl) _ (hmax 0).2,
    lift 1 (fun p => p.2) (fun _ => rfl) _ (hmin 1).2, lift 1 (fun p => p.2) (fun _ => rfl) _ (hmax 1).2, ?_, ?_⟩
  · intro p hp
    have hpq : v2 p.1 p.2 ∈ q := List.mem_map.mpr ⟨p, hp, rfl⟩
    exact ⟨(hmin 0).1 _ hpq, (hmax 0).1 _ hpq, (hmin 1).1 _ hpq, (hmax 1).1 _ hpq⟩
  · show contMean q 0 = _
    rw [hmean 0, hs0, hlen]
  · show contMean q 1 = _
    rw [hmean 1, hs1, hlen]

end Romea.Bridge.C20
