import RomeaModel.Ransac
import RomeaModel.Generated.SrcC06

/-!
# Bridge C06: `RansacIterations` AS TRANSLATED FROM TODAY'S SOURCE = the model's `Iterations` (`RomeaModel/Ransac.lean`)

`RomeaModel/Generated/SrcC06.lean` is regenerated on every check run from `src/regression/ransac/RansacIterations.cpp` (incl. the
anonymous-namespace constant `EPSILON = numeric_limits<double>::epsilon()` → `Limits.eps`). The constructor takes
`const float & fittingProbability`: two scalar types α = `float`, δ = `double` with the conversion `DoubleConv.up`; `size_t` is `Int`,
`double(size_t)` is `IntCast`, `size_t k = <double>` is `Trunc.trunc`.

The model converts counts with `NatCast` and truncates into a `Nat` (`truncNat`); the translation goes through `Int`. The two agree
under `hcast` (an integer that is a natural number converts to the same scalar either way — true at `ℝ` by `Int.cast_natCast`, true
but not provable for Lean's opaque `Float`) and, for `update`, when the truncated quotient is non-negative (a negative one is
undefined behaviour of the C++ conversion to `size_t`). Only `RansacIterations` is bridged: `Ransac::estimateModel` (virtual
`RansacModel` calls, `size_t → float → size_t` conversions) is tied by the scripted correspondence check only. Core Lean only.
-/
set_option linter.unusedSectionVars false

namespace Romea.Bridge.C06
open Romea Romea.Ransac Romea.Rotation

section
variable {δ : Type} [Sub δ] [Mul δ] [Div δ] [LT δ] [DecidableLT δ] [NatCast δ] [IntCast δ] [Trans δ] [Trunc δ] [Limits δ]

/-- `RansacIterations(numberOfPoints, fittingProbability, maximalNumberOfIterations)`:
    (logOfFittingOppositeProbability_, numberOfIterations_, oneOverNumberOfPoints_) = the model's `Iterations.init` -/
theorem ctor_bridge {α : Type} [DoubleConv α δ] (hcast : ∀ n : Nat, (((n : Nat) : Int) : δ) = ((n : Nat) : δ)) (p : α) (nPts maxIter : Nat) :
    Src.C06.RansacIterations.RansacIterations p (maxIter : Int) (nPts : Int)
      = let it := Iterations.init (DoubleConv.up p : δ) nPts maxIter
        (it.logOpp, it.n, it.oneOverN) := by
  simp only [Src.C06.RansacIterations.RansacIterations, Iterations.init, one, hcast]

/-- the source's `EPSILON` is the scalar type's machine epsilon -/
theorem epsilon_bridge : (Src.C06.EPSILON : δ) = Limits.eps := rfl

/-- `update(numberOfInliers, numberOfPointsToDrawModel)`: the new `numberOfIterations_` = the model's `Iterations.update` with
    `eps = numeric_limits<double>::epsilon()` -/
theorem update_bridge (hcast : ∀ n : Nat, (((n : Nat) : Int) : δ) = ((n : Nat) : δ)) (it : Iterations δ) (nInl nDraw : Nat)
    (hnn : 0 ≤ Trunc.trunc (it.logOpp / Trans.log
      (stdMin (one - (Limits.eps : δ)) (stdMax (Limits.eps : δ) (one - Trans.pow ((nInl : δ) * it.oneOverN) (nDraw : δ)))))) :
    Src.C06.RansacIterations.update it.logOpp (nInl : Int) it.n (nDraw : Int) it.oneOverN
      = (it.update (Limits.eps : δ) nInl nDraw).n := by
  have hk : ∀ t : Int, 0 ≤ t → ((t : Int) : δ) = ((t.toNat : Nat) : δ) := by
    intro t ht
    rw [← hcast, Int.toNat_of_nonneg ht]
  unfold Src.C06.RansacIterations.update Src.C06.EPSILON Iterations.update Iterations.candidate truncNat stdMin stdMax one
  simp only [hcast]
  generalize hQ : Trunc.trunc (_ : δ) = t
  have ht : 0 ≤ t := by rw [← hQ]; exact hnn
  rw [hk t ht]

/-- `get()` returns the stored member -/
theorem get_bridge (x : δ) : Src.C06.RansacIterations.get x = x := rfl

end

end Romea.Bridge.C06
