import RomeaProofs.Bridge.C12
import RomeaProofs.Properties.C12

/-!
# Bridge C12, part 2: the characterisation of `Properties/C12.lean` restated about the constructor translated from today's source
(`Romea.Src.C12.*`, regenerated from `/repo` on every run), at ℝ.
-/
namespace Romea.Bridge.C12
open Romea Romea.Pose Romea.Deriv Romea.C12

/-- `C12.reported_R` about the translated constructor: the nine entries of `R_` are those of `Rz(yaw) · Ry(pitch) · Rx(roll)` -/
theorem src_reported_R (o : Vec 3 ℝ) :
    Src.C12.SmartRotation3D.SmartRotation3D_R (o 0) (o 1) (o 2) = entries (fun i j => (Rz (o 2) * Ry (o 1) * Rx (o 0)) i j) := by
  rw [smart_R_bridge, ← reported_R o]
  rfl

/-- `C12.reported_eq_true_plus_spurious` about the translated constructor: the entries of `dRdAngleX_`, `dRdAngleY_`, `dRdAngleZ_`
    as computed by today's source are the true partial derivatives of `R` PLUS the spurious terms `Rz Ry e₀e₀ᵀ`, `Rz e₁e₁ᵀ Rx`,
    `e₂e₂ᵀ Ry Rx` (the open known finding of C12, pinned by the repository's tests). -/
theorem src_reported_eq_true_plus_spurious (o : Vec 3 ℝ) :
    Src.C12.SmartRotation3D.SmartRotation3D_dRdX (o 0) (o 1) (o 2)
      = entries (fun i j => (Matrix.of (trueDerivs o).1.get + Rz (o 2) * Ry (o 1) * E 0) i j) ∧
    Src.C12.SmartRotation3D.SmartRotation3D_dRdY (o 0) (o 1) (o 2)
      = entries (fun i j => (Matrix.of (trueDerivs o).2.1.get + Rz (o 2) * E 1 * Rx (o 0)) i j) ∧
    Src.C12.SmartRotation3D.SmartRotation3D_dRdZ (o 0) (o 1) (o 2)
      = entries (fun i j => (Matrix.of (trueDerivs o).2.2.get + E 2 * Ry (o 1) * Rx (o 0)) i j) := by
  obtain ⟨h1, h2, h3⟩ := reported_eq_true_plus_spurious o
  rw [smart_dRdX_bridge, smart_dRdY_bridge, smart_dRdZ_bridge, ← h1, ← h2, ← h3]
  exact ⟨rfl, rfl, rfl⟩

end Romea.Bridge.C12
