import RomeaProofs.Bridge.C18Report
import RomeaProofs.Properties.C18
import Mathlib.Data.String.Basic

/-!
# Bridge C18, part 4: `C18.worseStatus_is_max`, `C18.allOK_iff`, `C18.append_spec` restated about the functions translated from today's
source (`Romea.Src.C18.worseStatus`, `allOK`, `operator_addAssign`, regenerated from `/repo` on every run).

Statuses are the underlying enum values (OK = 0 … STALE = 3, `code`), a list of diagnostics is `List (String × Int)` (message, status), a
`std::map<std::string, std::string>` the list of its entries in ascending key order (`SortedS`: the representation invariant).
-/
namespace Romea.Bridge.C18
open Romea Romea.Checkup Romea.C18

/-- **`C18.worseStatus_is_max` about the translated `worseStatus`**: on a non-empty list (fuel ≥ its length) it terminates and returns
    the status of one of the diagnostics, and no diagnostic has a larger one -/
theorem src_worseStatus_is_max (l : List (String × Status)) (hl : l ≠ []) (fuel : Nat) (hf : l.length ≤ fuel) :
    ∃ s, Src.C18.worseStatus fuel (encDiags l) = some (code s) ∧ (∃ d ∈ l, d.2 = s) ∧ ∀ d ∈ l, code d.2 ≤ code s := by
  have hne : l.map (·.2) ≠ [] := by cases l with
    | nil => exact absurd rfl hl
    | cons a as => simp
  obtain ⟨s, hs, hmem, hmax⟩ := worseStatus_is_max (l.map (·.2)) hne
  refine ⟨s, ?_, ?_, ?_⟩
  · rw [worseStatus_bridge l hl fuel hf, hs]; rfl
  · obtain ⟨d, hd, rfl⟩ := List.mem_map.mp hmem
    exact ⟨d, hd, rfl⟩
  · intro d hd
    have := hmax d.2 (List.mem_map.mpr ⟨d, hd, rfl⟩)
    unfold code
    exact_mod_cast this

/-- **`C18.allOK_iff` about the translated `allOK`**: on a non-empty list it returns `true` exactly when every diagnostic is OK -/
theorem src_allOK_iff (l : List (String × Status)) (hl : l ≠ []) (fuel : Nat) (hf : l.length ≤ fuel) :
    Src.C18.allOK fuel (encDiags l) = some true ↔ ∀ d ∈ l, d.2 = .ok := by
  have hne : l.map (·.2) ≠ [] := by cases l with
    | nil => exact absurd rfl hl
    | cons a as => simp
  rw [allOK_bridge l hl fuel hf, allOK_iff _ hne]
  constructor
  · intro h d hd; exact h d.2 (List.mem_map.mpr ⟨d, hd, rfl⟩)
  · intro h x hx
    obtain ⟨d, hd, rfl⟩ := List.mem_map.mp hx
    exact h d hd

/-- the representation invariant of a translated `std::map<std::string, …>`: keys strictly ascending (in `String`'s order) -/
def SortedS : List (String × String) → Prop
  | [] => True
  | [_] => True
  | a :: b :: r => a.1 < b.1 ∧ SortedS (b :: r)

private theorem sortedS_enc (key val : Nat → String) (hlt : ∀ a b : Nat, a < b ↔ key a < key b) (m : List (Nat × Nat)) (h : Sorted m) :
    SortedS (encInfo key val m) := by
  induction m with
  | nil => trivial
  | cons a r ih =>
    cases r with
    | nil => trivial
    | cons b r' =>
      obtain ⟨h1, h2⟩ := h
      exact ⟨(hlt _ _).mp h1, ih h2⟩

/-- **`C18.append_spec` about the translated `operator+=`**: for every naming of the identifiers with a strictly monotone, injective key
    naming and a key-sorted `report1.info`: the resulting diagnostics are those of `report1` followed by those of `report2`; the
    resulting info is the encoding of a map `M` that is again key-sorted (also as strings: `SortedS`) and in which every key reads the
    value of `report1` if it has one and that of `report2` otherwise (the first entry wins) -/
theorem src_append_spec (msg key val : Nat → String) (hlt : ∀ a b : Nat, a < b ↔ key a < key b)
    (hinj : ∀ a b : Nat, key a = key b → a = b) (r₁ r₂ : Report) (h₁ : Sorted r₁.info) :
    ∃ M : List (Nat × Nat),
      Src.C18.operator_addAssign (encDiagIds msg r₁.diags) (encInfo key val r₁.info) (encDiagIds msg r₂.diags) (encInfo key val r₂.info)
        = (encDiagIds msg r₁.diags ++ encDiagIds msg r₂.diags, encInfo key val M) ∧
      Sorted M ∧ SortedS (encInfo key val M) ∧ ∀ k, lookup k M = (lookup k r₁.info).or (lookup k r₂.info) := by
  obtain ⟨hd, hs, hlk⟩ := append_spec r₁ r₂ h₁
  refine ⟨(append r₁ r₂).info, ?_, hs, sortedS_enc key val hlt _ hs, hlk⟩
  rw [append_bridge msg key val hlt hinj, hd]
  simp only [encDiagIds, List.map_append]

/-! ### Non-vacuity -/

private theorem rep_lt (a b : Nat) : (List.replicate a 'a' < List.replicate b 'a') ↔ a < b := by
  induction a generalizing b with
  | zero =>
    cases b with
    | zero => simp
    | succ b => simp [List.replicate_succ]
  | succ a ih =>
    cases b with
    | zero => simp [List.replicate_succ]
    | succ b =>
      simp only [List.replicate_succ, List.cons_lt_cons_iff]
      simp [ih]

/-- the hypotheses on the key naming of `append_bridge` / `src_append_spec` are satisfiable: `n ↦ "aa…a"` (`n` letters) is strictly
    monotone for `String`'s order and injective -/
theorem key_naming_exists :
    ∃ key : Nat → String, (∀ a b : Nat, a < b ↔ key a < key b) ∧ (∀ a b : Nat, key a = key b → a = b) := by
  refine ⟨fun n => String.ofList (List.replicate n 'a'), ?_, ?_⟩
  · intro a b
    rw [String.lt_iff_toList_lt]
    simp [rep_lt]
  · intro a b h
    have := congrArg String.length h
    simpa using this

/-- a strictly monotone, injective key naming exists: `n ↦ "k" ++ n copies of "a"` restricted to what the example needs is replaced here
    by a concrete three-key instance evaluated through the generated definition -/
example : SortedS [("a", "1"), ("b", "2"), ("c", "3")] := by
  refine ⟨by decide, by decide, trivial⟩
example : (Src.C18.operator_addAssign [("m1", 0)] [("a", "1"), ("c", "3")] [("m2", 2)] [("a", "9"), ("b", "2")]).2
    = [("a", "1"), ("b", "2"), ("c", "3")] := by decide
example : Src.C18.worseStatus 3 (encDiags [("x", .ok), ("y", .error), ("z", .warn)]) = some (code .error) := by decide

end Romea.Bridge.C18
