import RomeaProofs.Bridge.C07
import RomeaProofs.Properties.C07

/-!
# C07 headline theorems restated about `LeastSquares<RealType>` AS TRANSLATED FROM TODAY'S SOURCE

`Bridge/C07.lean` shows that every translated member function acts on `abs o` as the model's function.  Here:

* `srcStepOut` / `srcStep` / `srcRun` / `srcOutputs` fold the TRANSLATED member functions (`setDataSize`, `setEstimateSize`, both
  `setPreconditionner`, `estimateUsingCholeskyDecomposition`, `estimateUsingSVD`, `weightedEstimate`, `computeEstimateCovariance`) and the
  callers' writes through `getJ()` / `getY()` / `getW()` (`pokeRow` = the model's `writeRow`, `pokeW` = `setW`, `pokeJ` / `pokeY` = ONE entry)
  over a call history of one object record.  `src_run_eq`: the object that results stands for the model's `run` on the corresponding model
  operations (`toOp`); `src_outputs_eq`: every value returned on the way is the model's output — for EVERY scalar type.
  The model's op list has no write finer than a row, so a single-entry write is the `writeRow` of the row as it stands with the entry
  replaced; this is exact for `run`, but at the SPECIFICATION level (`astep`) a `writeRow` counts the whole row as stated — histories meant
  for the history-independence theorems state rows with `pokeRow`.
* the property's headline theorems over ℝ, with the LAST call executed by the translated code on an object that stands for the state
  reached by an arbitrary model history: `src_history_independent_cholesky / _weighted / _svd` (`C07.history_independent`),
  `src_equals_fresh_solver`, `src_svd_equals_fresh_solver` (`C07.equals_fresh_solver`), `src_cholesky_minimises`, `src_svd_minimises`
  (`C07.estimateCholesky_spec` / `estimateSVD_spec` + `C07.solution_minimises`), `src_weighted_minimiser`, `src_cholesky_eq_svd`;
* with the WHOLE history through the translated code too: `src_run_history_independent_svd / _cholesky`.
The oracles of the translation (`ldlt_solve`, the three `JacobiSVD` accessors, `resize_J_`) and those of the model (`Env`, junk) are required
to be the same routines on the calls the source makes (`LdltAgree`, `SvdAgree`; `ResizeKeeps` for `setEstimateSize`);
`ldltAgree_exists`, `svdAgree_exists`, `resizeKeeps_exists` show the requirements satisfiable.
-/
set_option linter.unusedSectionVars false
set_option linter.unusedVariables false
set_option linter.unusedSimpArgs false

namespace Romea.Bridge.C07
open Romea Romea.LeastSquares

/-! ## A call history folded through the translated member functions (every scalar type) -/
section
variable {α : Type} [NatCast α] [Add α] [Mul α] [Div α] [LT α] [DecidableLT α] [Limits α]

/-- the external routines the translated code calls: `JtJ_.ldlt().solve(…)` and the three accessors of the local `JacobiSVD` object -/
structure Oracles (α : Type) where
  ldlt : Int → (Int → Int → α) → Int → Int → (Int → Int → α) → Int → (Int → Int → α)
  svdU : Int → (Int → Int → α) → Int → String → (Int → Int → α)
  svdV : Int → (Int → Int → α) → Int → String → (Int → Int → α)
  svdS : Int → (Int → Int → α) → Int → String → (Int → α)

/-- the translation's oracles and the model's `Env` are the same routines on the calls the source makes -/
def Agree (env : Env α) (orc : Oracles α) : Prop := LdltAgree env orc.ldlt ∧ SvdAgree env orc.svdU orc.svdV orc.svdS

/-- calls on one translated object: the member functions, and the callers' writes through `getJ()` / `getY()` / `getW()` -/
inductive SrcOp (α : Type)
  | setDataSize (n : Nat) (rzJ : Int → (Int → Int → α) → Int → Int → Int → (Int → Int → α)) (rzW rzY : (Int → α) → Int → Int → (Int → α))
  | setEstimateSize (e : Nat) (rzJ : Int → (Int → Int → α) → Int → Int → Int → (Int → Int → α))
  | setPre (A : Int → Int → α) (b : Int → α)
  | setPreA (A : Int → Int → α)
  /-- a caller stating row `i`: `getJ()(i, c) = r c` for `c < estimateSize_`, `getY()(i) = y` (the model's `writeRow`) -/
  | pokeRow (i : Nat) (r : Int → α) (y : α)
  /-- `getJ()(i, c) = x`: ONE entry -/
  | pokeJ (i c : Nat) (x : α)
  /-- `getY()(i) = y`: ONE entry -/
  | pokeY (i : Nat) (y : α)
  /-- `getW()(i) = w` (the model's `setW`) -/
  | pokeW (i : Nat) (w : α)
  | cholesky
  | svd
  | weighted
  /-- `computeEstimateCovariance(var)` (const: the object is not changed) -/
  | covariance (var : α)

/-- what a call needs of ITS `resize` oracle: `setEstimateSize` relies on Eigen keeping the storage when the number of coefficients is
    unchanged (`ResizeKeeps`); `setDataSize` needs nothing (it only ever reallocates) -/
def SrcOp.Ok : SrcOp α → Prop
  | .setEstimateSize _ rzJ => ResizeKeeps rzJ
  | _ => True

/-- one call executed by the TRANSLATED code: the object afterwards and what the call returned, read as the model's `Out` (a returned
    dynamic vector / matrix is tabulated over ITS OWN returned sizes); `none`: a translated loop failed — never, by `src_step_out_eq` -/
def srcStepOut (orc : Oracles α) (o : Obj α) : SrcOp α → Option (Obj α × Out α)
  | .setDataSize n rzJ rzW rzY => some ((srcSetDataSize rzJ rzW rzY o n).1, .grew (srcSetDataSize rzJ rzW rzY o n).2)
  | .setEstimateSize e rzJ => some (srcSetEstimateSize rzJ o e, .unit)
  | .setPre A b => some (srcSetPre o A o.estimateSize_ o.estimateSize_ b o.estimateSize_, .unit)
  | .setPreA A => some (srcSetPreA o A o.estimateSize_ o.estimateSize_, .unit)
  | .pokeRow i r y => some (srcPokeRow o i r y, .unit)
  | .pokeJ i c x => some (srcPokeJ o i c x, .unit)
  | .pokeY i y => some (srcPokeY o i y, .unit)
  | .pokeW i w => some (srcPokeW o i w, .unit)
  | .cholesky => (srcCholesky orc.ldlt o).map fun r => (r.1, .vec (vecOf r.2.2 r.2.1))
  | .svd => (srcSVD orc.svdU orc.svdV orc.svdS o).map fun r => (r.1, .vec (vecOf r.2.2 r.2.1))
  | .weighted => (srcWeighted orc.ldlt o).map fun r => (r.1, .vec (vecOf r.2.2 r.2.1))
  | .covariance var =>
      let r := Src.C07.LeastSquares.computeEstimateCovariance_d o.Ac_cols o.Ac_m o.Ac_rows var o.inv_cols o.inv_m o.inv_rows
      some (o, .mat (matOf r.2.2 r.1 r.2.1))

/-- the object after one call -/
def srcStep (orc : Oracles α) (o : Obj α) (c : SrcOp α) : Option (Obj α) := (srcStepOut orc o c).map (·.1)

/-- the model operation a call stands for, in the object state `o` it is issued in.  The model's op list has no write finer than a row:
    a single-entry write is the `writeRow` of the row AS IT STANDS in `o` with that entry replaced (`pokeJ_bridge`, `pokeY_bridge`). -/
def toOp (o : Obj α) : SrcOp α → Op α
  | .setDataSize n rzJ rzW rzY =>
      .setDataSize n (fun i j => rzJ o.J_cols o.J_m o.J_rows n o.estimateSize_ i j) (fun i => rzY o.Y_m o.Y_rows n i)
  | .setEstimateSize e rzJ => .setEstimateSize e (fun i j => rzJ o.J_cols o.J_m o.J_rows o.Y_rows e i j)
  | .setPre A b => .setPre (matOf o.estimateSize_ o.estimateSize_ A) (vecOf o.estimateSize_ b)
  | .setPreA A => .setPre (matOf o.estimateSize_ o.estimateSize_ A) (Vec.tab o.estimateSize_.toNat fun _ => zero)
  | .pokeRow i r y => .writeRow i (vecOf o.estimateSize_ r) y
  | .pokeJ i c x => .writeRow i (vecOf o.estimateSize_ fun b => if b = (c : Int) then x else o.J_m i b) (o.Y_m i)
  | .pokeY i y => .writeRow i (vecOf o.estimateSize_ fun b => o.J_m i b) y
  | .pokeW i w => .setW i w
  | .cholesky => .estimateCholesky
  | .svd => .estimateSVD
  | .weighted => .weightedEstimate
  | .covariance var => .covariance var

/-- **one call**: the translated code never fails, the object afterwards stands for the model's next state, and what the call RETURNED
    is the model's output (flag of `setDataSize`, the three estimates, the covariance) -/
theorem src_step_out_eq (env : Env α) (orc : Oracles α) (ha : Agree env orc) (o : Obj α) (h : Inv o) (c : SrcOp α) (hc : c.Ok) :
    ∃ o' out, srcStepOut orc o c = some (o', out) ∧ (abs o', out) = step env (abs o) (toOp o c) ∧ Inv o' := by
  cases c with
  | setDataSize n rzJ rzW rzY =>
    refine ⟨_, _, rfl, ?_, setDataSize_inv rzJ rzW rzY o h n⟩
    have := setDataSize_bridge rzJ rzW rzY o h n
    simp only [step, toOp]
    rw [← this]
  | setEstimateSize e rzJ =>
    refine ⟨_, _, rfl, ?_, setEstimateSize_inv rzJ o h e⟩
    simp only [step, toOp]
    rw [setEstimateSize_bridge rzJ hc o h e]
  | setPre A b =>
    refine ⟨_, _, rfl, ?_, setPre_inv o h A b⟩
    simp only [step, toOp]
    rw [setPre_bridge o A _ _ b _]
  | setPreA A =>
    refine ⟨_, _, rfl, ?_, setPreA_inv o h A⟩
    simp only [step, toOp]
    rw [setPreA_bridge o A _ _]
  | pokeRow i r y =>
    refine ⟨_, _, rfl, ?_, poke_inv o h _ _ _⟩
    simp only [step, toOp]
    rw [pokeRow_bridge o h i r y]
  | pokeJ i c x =>
    refine ⟨_, _, rfl, ?_, poke_inv o h _ _ _⟩
    simp only [step, toOp]
    rw [pokeJ_bridge o h i c x]
  | pokeY i y =>
    refine ⟨_, _, rfl, ?_, poke_inv o h _ _ _⟩
    simp only [step, toOp]
    rw [pokeY_bridge o h i y]
  | pokeW i w =>
    refine ⟨_, _, rfl, ?_, poke_inv o h _ _ _⟩
    simp only [step, toOp]
    rw [pokeW_bridge o i w]
  | cholesky =>
    obtain ⟨o', x, n, h1, h2, h3, _, h5⟩ := cholesky_bridge env orc.ldlt ha.1 o h
    refine ⟨o', .vec (vecOf n x), by simp [srcStepOut, h1], ?_, h5⟩
    simp only [step, toOp]
    rw [h2, h3]
  | svd =>
    obtain ⟨o', x, n, h1, h2, h3, _, h5⟩ := svd_bridge env orc.svdU orc.svdV orc.svdS ha.2 o h
    refine ⟨o', .vec (vecOf n x), by simp [srcStepOut, h1], ?_, h5⟩
    simp only [step, toOp]
    rw [h2, h3]
  | weighted =>
    obtain ⟨o', x, n, h1, h2, h3, _, h5⟩ := weighted_bridge env orc.ldlt ha.1 o h
    refine ⟨o', .vec (vecOf n x), by simp [srcStepOut, h1], ?_, h5⟩
    simp only [step, toOp]
    rw [h2, h3]
  | covariance var =>
    refine ⟨o, _, rfl, ?_, h⟩
    simp only [step, toOp]
    rw [(covariance_bridge o h var).1]

theorem src_step_eq (env : Env α) (orc : Oracles α) (ha : Agree env orc) (o : Obj α) (h : Inv o) (c : SrcOp α) (hc : c.Ok) :
    ∃ o', srcStep orc o c = some o' ∧ abs o' = (step env (abs o) (toOp o c)).1 ∧ Inv o' := by
  obtain ⟨o', out, h1, h2, h3⟩ := src_step_out_eq env orc ha o h c hc
  refine ⟨o', by simp [srcStep, h1], ?_, h3⟩
  rw [← h2]

/-- a call history through the translated code, together with the model operations it stands for -/
def srcRun (orc : Oracles α) : Obj α → List (SrcOp α) → Option (Obj α × List (Op α))
  | o, [] => some (o, [])
  | o, c :: cs =>
    match srcStep orc o c with
    | none => none
    | some o' => (srcRun orc o' cs).map fun r => (r.1, toOp o c :: r.2)

/-- **the translated object after any call history stands for the model's `run`** (every scalar type): member functions — both sizes,
    both preconditioners, all three estimates — and caller writes, in any order -/
theorem src_run_eq (env : Env α) (orc : Oracles α) (ha : Agree env orc) (o : Obj α) (h : Inv o) (cs : List (SrcOp α))
    (hcs : ∀ c ∈ cs, c.Ok) :
    ∃ o' ops, srcRun orc o cs = some (o', ops) ∧ abs o' = run env (abs o) ops ∧ Inv o' := by
  induction cs generalizing o with
  | nil => exact ⟨o, [], rfl, rfl, h⟩
  | cons c cs ih =>
    obtain ⟨o1, h1, h2, h3⟩ := src_step_eq env orc ha o h c (hcs c (List.mem_cons_self ..))
    obtain ⟨o', ops, h4, h5, h6⟩ := ih o1 h3 (fun c' hc' => hcs c' (List.mem_cons_of_mem _ hc'))
    refine ⟨o', toOp o c :: ops, by simp [srcRun, h1, h4], ?_, h6⟩
    rw [h5, h2]
    rfl

/-- the outputs of the model along an operation list -/
def outputs (env : Env α) : State α → List (Op α) → List (Out α)
  | _, [] => []
  | s, op :: ops => (step env s op).2 :: outputs env (step env s op).1 ops

/-- what the calls of a history RETURNED, through the translated code -/
def srcOutputs (orc : Oracles α) : Obj α → List (SrcOp α) → Option (List (Out α))
  | _, [] => some []
  | o, c :: cs =>
    match srcStepOut orc o c with
    | none => none
    | some r => (srcOutputs orc r.1 cs).map fun l => r.2 :: l

/-- **every value returned along any call history through the translated code is the model's output** at that point of the history
    (every scalar type): the reallocation flags, all three estimates, the covariances -/
theorem src_outputs_eq (env : Env α) (orc : Oracles α) (ha : Agree env orc) (o : Obj α) (h : Inv o) (cs : List (SrcOp α))
    (hcs : ∀ c ∈ cs, c.Ok) :
    ∃ o' ops outs, srcRun orc o cs = some (o', ops) ∧ srcOutputs orc o cs = some outs ∧ outs = outputs env (abs o) ops := by
  induction cs generalizing o with
  | nil => exact ⟨o, [], [], rfl, rfl, rfl⟩
  | cons c cs ih =>
    obtain ⟨o1, out, h1, h2, h3⟩ := src_step_out_eq env orc ha o h c (hcs c (List.mem_cons_self ..))
    obtain ⟨o', ops, outs, h4, h5, h6⟩ := ih o1 h3 (fun c' hc' => hcs c' (List.mem_cons_of_mem _ hc'))
    refine ⟨o', toOp o c :: ops, out :: outs, by simp [srcRun, srcStep, h1, h4], by simp [srcOutputs, h1, h5], ?_⟩
    simp only [outputs]
    rw [← h2, h6]

end

/-! ## The headline theorems over ℝ, the last call executed by the translated code -/
section
open Romea.C07 Matrix
variable [Limits ℝ]

/-- the model oracle and the translation's oracle can be the same routine: for every `Env` whose `ldltInv e` returns `e × e` arrays -/
theorem ldltAgree_exists (env : Env ℝ) (hsz : ∀ e A, env.ldltInv e A = Mat.tab e e fun i j => (env.ldltInv e A).get i j) :
    ∃ ldlt, LdltAgree env ldlt := by
  refine ⟨fun c A r _ _ _ => fun i j => (env.ldltInv c.toNat (matOf r c A)).get i.toNat j.toNat, ?_⟩
  intro A e he
  rw [hsz e.toNat (matOf e e A)]
  unfold matOf
  apply Mat.tab_congr
  intro i hi j hj
  simp only [Int.toNat_natCast]

/-- **History independence, translated code**: the object `o` stands for the state an ARBITRARY model history reached; if the specified
    part of that history determines the Cholesky estimate, the vector returned by the translated
    `estimateUsingCholeskyDecomposition()` is that estimate -/
theorem src_history_independent_cholesky (env : Env ℝ) (ldlt : Int → (Int → Int → ℝ) → Int → Int → (Int → Int → ℝ) → Int → (Int → Int → ℝ))
    (hl : LdltAgree env ldlt) (s₀ : State ℝ) (hwf : WF s₀) (ops : List (Op ℝ)) (o : Obj ℝ) (hi : Inv o)
    (ho : abs o = run env s₀ ops) (y : Vec ℝ)
    (hy : (astep env (arun env (forget s₀) ops) .estimateCholesky).2 = some (.vec y)) :
    ∃ o' x n, srcCholesky ldlt o = some (o', x, n) ∧ vecOf n x = y := by
  obtain ⟨o', x, n, h1, _, h3, _, _⟩ := cholesky_bridge env ldlt hl o hi
  refine ⟨o', x, n, h1, ?_⟩
  have := history_independent env s₀ hwf ops .estimateCholesky (.vec y) hy
  simp only [step] at this
  rw [h3, ho]
  injection this

/-- the same for the translated `weightedEstimate()` -/
theorem src_history_independent_weighted (env : Env ℝ) (ldlt : Int → (Int → Int → ℝ) → Int → Int → (Int → Int → ℝ) → Int → (Int → Int → ℝ))
    (hl : LdltAgree env ldlt) (s₀ : State ℝ) (hwf : WF s₀) (ops : List (Op ℝ)) (o : Obj ℝ) (hi : Inv o)
    (ho : abs o = run env s₀ ops) (y : Vec ℝ)
    (hy : (astep env (arun env (forget s₀) ops) .weightedEstimate).2 = some (.vec y)) :
    ∃ o' x n, srcWeighted ldlt o = some (o', x, n) ∧ vecOf n x = y := by
  obtain ⟨o', x, n, h1, _, h3, _, _⟩ := weighted_bridge env ldlt hl o hi
  refine ⟨o', x, n, h1, ?_⟩
  have := history_independent env s₀ hwf ops .weightedEstimate (.vec y) hy
  simp only [step] at this
  rw [h3, ho]
  injection this

/-- **A smaller problem after a larger one equals a fresh solver, translated code**: whatever the history behind `o`, the translated
    Cholesky and weighted estimates equal those of the model's brand-new object on which exactly the current problem was stated -/
theorem src_equals_fresh_solver (env : Env ℝ) (ldlt : Int → (Int → Int → ℝ) → Int → Int → (Int → Int → ℝ) → Int → (Int → Int → ℝ))
    (hl : LdltAgree env ldlt) (s₀ : State ℝ) (hwf : WF s₀) (ops : List (Op ℝ)) (o : Obj ℝ) (hi : Inv o)
    (ho : abs o = run env s₀ ops) (hd : (arun env (forget s₀) ops).Defined true) :
    let a := arun env (forget s₀) ops
    let fresh := run env State.default
      (freshOps a.est a.n (fun k => Vec.tab a.est fun c => (a.J k c).getD 0) (fun k => (a.Y k).getD 0)
        (fun k => (a.W k).getD 0) a.Ac a.Bc)
    (∃ o' x n, srcCholesky ldlt o = some (o', x, n) ∧ vecOf n x = (estimateCholesky env fresh).2) ∧
    (∃ o' x n, srcWeighted ldlt o = some (o', x, n) ∧ vecOf n x = (weightedEstimate env fresh).2) := by
  intro a fresh
  obtain ⟨_, hc, hw⟩ := equals_fresh_solver env s₀ hwf ops hd
  obtain ⟨o1, x1, n1, c1, _, c3, _, _⟩ := cholesky_bridge env ldlt hl o hi
  obtain ⟨o2, x2, n2, w1, _, w3, _, _⟩ := weighted_bridge env ldlt hl o hi
  exact ⟨⟨o1, x1, n1, c1, by rw [c3, ho]; exact hc⟩, ⟨o2, x2, n2, w1, by rw [w3, ho]; exact hw⟩⟩

/-- **The translated Cholesky estimate is `Ac·x + Bc` with `x` the minimiser of `‖Jx − Y‖`** (LDLT contract, full rank) -/
theorem src_cholesky_minimises (env : Env ℝ) (ldlt : Int → (Int → Int → ℝ) → Int → Int → (Int → Int → ℝ) → Int → (Int → Int → ℝ))
    (hl : LdltAgree env ldlt) (hldlt : LDLTContract env) (o : Obj ℝ) (hi : Inv o)
    (hfull : IsUnit ((JM (abs o))ᵀ * JM (abs o)).det) :
    ∃ o' x n, srcCholesky ldlt o = some (o', x, n) ∧
      toV (abs o).est (vecOf n x) = AcM (abs o) *ᵥ solution (abs o) + BcV (abs o) ∧
      ∀ x', C07.sq (JM (abs o) *ᵥ solution (abs o) - YV (abs o)) ≤ C07.sq (JM (abs o) *ᵥ x' - YV (abs o)) := by
  obtain ⟨o', x, n, h1, _, h3, _, _⟩ := cholesky_bridge env ldlt hl o hi
  exact ⟨o', x, n, h1, by rw [h3]; exact (estimateCholesky_spec env (abs o) hldlt hfull).1, solution_minimises (abs o) hfull⟩

/-- **The translated weighted estimate minimises `Σ (w_i r_i)²`** -/
theorem src_weighted_minimiser (env : Env ℝ) (ldlt : Int → (Int → Int → ℝ) → Int → Int → (Int → Int → ℝ) → Int → (Int → Int → ℝ))
    (hl : LdltAgree env ldlt) (hldlt : LDLTContract env) (o : Obj ℝ) (hi : Inv o)
    (hfull : IsUnit ((JM (weightJAndY (abs o)))ᵀ * JM (weightJAndY (abs o))).det) :
    ∃ o' x n, srcWeighted ldlt o = some (o', x, n) ∧
      ∃ z : Fin (abs o).est → ℝ, toV (abs o).est (vecOf n x) = AcM (abs o) *ᵥ z + BcV (abs o) ∧ ∀ x', wcost (abs o) z ≤ wcost (abs o) x' := by
  obtain ⟨o', x, n, h1, _, h3, _, _⟩ := weighted_bridge env ldlt hl o hi
  obtain ⟨z, hz1, hz2⟩ := weighted_minimiser env (abs o) hldlt hfull
  exact ⟨o', x, n, h1, z, by rw [h3]; exact hz1, hz2⟩

/-! ### The SVD path -/

/-- the model's SVD oracle and the translation's three accessors can be the same routine: for every `Env` whose `svd e` returns `e × e`
    / `e` arrays and whose `eps` is `numeric_limits::epsilon()` -/
theorem svdAgree_exists (env : Env ℝ) (heps : env.eps = (Limits.eps : ℝ))
    (hsz : ∀ e A, env.svd e A = ⟨Mat.tab e e fun i j => (env.svd e A).U.get i j, Vec.tab e fun i => (env.svd e A).S.get i,
      Mat.tab e e fun i j => (env.svd e A).V.get i j⟩) :
    ∃ svdU svdV svdS, SvdAgree env svdU svdV svdS := by
  refine ⟨fun c A r _ => fun i j => (env.svd c.toNat (matOf r c A)).U.get i.toNat j.toNat,
    fun c A r _ => fun i j => (env.svd c.toNat (matOf r c A)).V.get i.toNat j.toNat,
    fun c A r _ => fun i => (env.svd c.toNat (matOf r c A)).S.get i.toNat, heps, ?_⟩
  intro A e he
  rw [hsz e.toNat (matOf e e A)]
  unfold matOf vecOf
  congr 1

/-- **History independence, translated SVD path**: the object `o` stands for the state an ARBITRARY model history reached; if the
    specified part of that history determines the SVD estimate, the vector returned by the translated `estimateUsingSVD()` is it -/
theorem src_history_independent_svd (env : Env ℝ) (svdU svdV : Int → (Int → Int → ℝ) → Int → String → (Int → Int → ℝ))
    (svdS : Int → (Int → Int → ℝ) → Int → String → (Int → ℝ)) (hs : SvdAgree env svdU svdV svdS)
    (s₀ : State ℝ) (hwf : WF s₀) (ops : List (Op ℝ)) (o : Obj ℝ) (hi : Inv o)
    (ho : abs o = run env s₀ ops) (y : Vec ℝ)
    (hy : (astep env (arun env (forget s₀) ops) .estimateSVD).2 = some (.vec y)) :
    ∃ o' x n, srcSVD svdU svdV svdS o = some (o', x, n) ∧ vecOf n x = y := by
  obtain ⟨o', x, n, h1, _, h3, _, _⟩ := svd_bridge env svdU svdV svdS hs o hi
  refine ⟨o', x, n, h1, ?_⟩
  have := history_independent env s₀ hwf ops .estimateSVD (.vec y) hy
  simp only [step] at this
  rw [h3, ho]
  injection this

/-- **The translated SVD estimate is `Ac·x + Bc` with `x` the minimiser of `‖Jx − Y‖`** (SVD contract at the current normal matrix, no
    singular value at or below the cut), and `inverseJtJ_` afterwards is the inverse of the normal matrix -/
theorem src_svd_minimises (env : Env ℝ) (svdU svdV : Int → (Int → Int → ℝ) → Int → String → (Int → Int → ℝ))
    (svdS : Int → (Int → Int → ℝ) → Int → String → (Int → ℝ)) (hs : SvdAgree env svdU svdV svdS) (o : Obj ℝ) (hi : Inv o)
    (hsvd : SVDAt env (abs o)) (heps : 0 ≤ env.eps) (hcut : NoCut env (abs o)) :
    ∃ o' x n, srcSVD svdU svdV svdS o = some (o', x, n) ∧
      toV (abs o).est (vecOf n x) = AcM (abs o) *ᵥ solution (abs o) + BcV (abs o) ∧
      toM (abs o).est (abs o).est (abs o').inv * ((JM (abs o))ᵀ * JM (abs o)) = 1 ∧
      ∀ x', C07.sq (JM (abs o) *ᵥ solution (abs o) - YV (abs o)) ≤ C07.sq (JM (abs o) *ᵥ x' - YV (abs o)) := by
  obtain ⟨o', x, n, h1, h2, h3, _, _⟩ := svd_bridge env svdU svdV svdS hs o hi
  have hspec := estimateSVD_spec env (abs o) hsvd heps hcut
  exact ⟨o', x, n, h1, by rw [h3]; exact hspec.1, by rw [h2]; exact hspec.2,
    solution_minimises (abs o) (full_rank_of_noCut env (abs o) hsvd heps hcut)⟩

/-- **Translated Cholesky path = translated SVD path**: on the same object the two translated estimates are the same vector
    (same size, same coefficients), under both oracle contracts and without a singular-value cut -/
theorem src_cholesky_eq_svd (env : Env ℝ) (ldlt : Int → (Int → Int → ℝ) → Int → Int → (Int → Int → ℝ) → Int → (Int → Int → ℝ))
    (hl : LdltAgree env ldlt) (svdU svdV : Int → (Int → Int → ℝ) → Int → String → (Int → Int → ℝ))
    (svdS : Int → (Int → Int → ℝ) → Int → String → (Int → ℝ)) (hs : SvdAgree env svdU svdV svdS)
    (hldlt : LDLTContract env) (o : Obj ℝ) (hi : Inv o)
    (hsvd : SVDAt env (abs o)) (heps : 0 ≤ env.eps) (hcut : NoCut env (abs o)) :
    ∃ o₁ x₁ n₁ o₂ x₂ n₂, srcCholesky ldlt o = some (o₁, x₁, n₁) ∧ srcSVD svdU svdV svdS o = some (o₂, x₂, n₂) ∧
      n₁ = n₂ ∧ vecOf n₁ x₁ = vecOf n₂ x₂ := by
  obtain ⟨o1, x1, n1, c1, _, c3, c4, _⟩ := cholesky_bridge env ldlt hl o hi
  obtain ⟨o2, x2, n2, s1, _, s3, s4, _⟩ := svd_bridge env svdU svdV svdS hs o hi
  refine ⟨o1, x1, n1, o2, x2, n2, c1, s1, by rw [c4, s4], ?_⟩
  have heq := cholesky_eq_svd env (abs o) hsvd hldlt heps hcut
  rw [← c3, ← s3] at heq
  rw [c4, s4] at heq ⊢
  apply vecOf_congr
  intro i hlt
  have hlt' : i < (abs o).est := by show i < o.estimateSize_.toNat; omega
  have := congrFun heq ⟨i, hlt'⟩
  simp only [toV_apply] at this
  rw [vecOf_get _ _ _ hlt, vecOf_get _ _ _ hlt] at this
  exact this

/-- **A smaller problem after a larger one equals a fresh solver, translated SVD path** -/
theorem src_svd_equals_fresh_solver (env : Env ℝ) (svdU svdV : Int → (Int → Int → ℝ) → Int → String → (Int → Int → ℝ))
    (svdS : Int → (Int → Int → ℝ) → Int → String → (Int → ℝ)) (hs : SvdAgree env svdU svdV svdS)
    (s₀ : State ℝ) (hwf : WF s₀) (ops : List (Op ℝ)) (o : Obj ℝ) (hi : Inv o)
    (ho : abs o = run env s₀ ops) (hd : (arun env (forget s₀) ops).Defined true) :
    let a := arun env (forget s₀) ops
    let fresh := run env State.default
      (freshOps a.est a.n (fun k => Vec.tab a.est fun c => (a.J k c).getD 0) (fun k => (a.Y k).getD 0)
        (fun k => (a.W k).getD 0) a.Ac a.Bc)
    ∃ o' x n, srcSVD svdU svdV svdS o = some (o', x, n) ∧ vecOf n x = (estimateSVD env fresh).2 := by
  intro a fresh
  obtain ⟨hv, _, _⟩ := equals_fresh_solver env s₀ hwf ops hd
  obtain ⟨o1, x1, n1, c1, _, c3, _, _⟩ := svd_bridge env svdU svdV svdS hs o hi
  exact ⟨o1, x1, n1, c1, by rw [c3, ho]; exact hv⟩

/-! ### A whole history AND the final estimate through the translated code -/

/-- the state a translated object stands for is a well-formed model object (`WF` of `Properties/C07.lean`) -/
theorem wf_abs (o : Obj ℝ) (hi : Inv o) : WF (abs o) := by
  have hJr := hi.J_rows_eq; have hWr := hi.W_rows_eq
  refine ⟨?_, ?_, ?_⟩
  · simp only [abs, matOf_size, vecOf_size, hJr]
  · simp only [abs, vecOf_size, hWr]
  · intro k hk
    simp only [abs, vecOf_size] at hk
    have hk' : k < o.J_rows.toNat := by omega
    unfold rowSize
    simp only [abs]
    rw [matOf_row _ _ _ _ hk', matOf_cols, if_pos (by omega)]
    simp [Vec.tab]

/-- **History independence, start to end in the translated code**: an object satisfying `Inv` (e.g. fresh from a translated constructor)
    is driven through ANY call history `cs` by the translated member functions / caller writes, then the translated `estimateUsingSVD()`
    is called.  If the specified part of the model operations the calls stand for determines the SVD estimate `y` — the specification
    level never reads the junk of a reallocation, nor a row `≥ n`, nor the initial buffer contents — the translated code returns `y`.
    (Rows must be stated with `pokeRow` to count as specified entry by entry; see `toOp`.) -/
theorem src_run_history_independent_svd (env : Env ℝ) (orc : Oracles ℝ) (ha : Agree env orc) (o : Obj ℝ) (hi : Inv o)
    (cs : List (SrcOp ℝ)) (hcs : ∀ c ∈ cs, c.Ok) :
    ∃ o' ops, srcRun orc o cs = some (o', ops) ∧
      ∀ y, (astep env (arun env (forget (abs o)) ops) .estimateSVD).2 = some (.vec y) →
        ∃ o'' x n, srcSVD orc.svdU orc.svdV orc.svdS o' = some (o'', x, n) ∧ vecOf n x = y := by
  obtain ⟨o', ops, h1, h2, h3⟩ := src_run_eq env orc ha o hi cs hcs
  exact ⟨o', ops, h1, fun y hy =>
    src_history_independent_svd env orc.svdU orc.svdV orc.svdS ha.2 (abs o) (wf_abs o hi) ops o' h3 h2 y hy⟩

/-- the same with the translated Cholesky estimate as the final call -/
theorem src_run_history_independent_cholesky (env : Env ℝ) (orc : Oracles ℝ) (ha : Agree env orc) (o : Obj ℝ) (hi : Inv o)
    (cs : List (SrcOp ℝ)) (hcs : ∀ c ∈ cs, c.Ok) :
    ∃ o' ops, srcRun orc o cs = some (o', ops) ∧
      ∀ y, (astep env (arun env (forget (abs o)) ops) .estimateCholesky).2 = some (.vec y) →
        ∃ o'' x n, srcCholesky orc.ldlt o' = some (o'', x, n) ∧ vecOf n x = y := by
  obtain ⟨o', ops, h1, h2, h3⟩ := src_run_eq env orc ha o hi cs hcs
  exact ⟨o', ops, h1, fun y hy =>
    src_history_independent_cholesky env orc.ldlt ha.1 (abs o) (wf_abs o hi) ops o' h3 h2 y hy⟩

/-- **The estimate is a function of the current problem only — both objects through the translated code.**  Two translated objects with
    arbitrary, different starting points and call histories (different capacities, junk, earlier problems of any size, estimate-size
    changes) whose specified current problems coincide return the same vector from the translated `estimateUsingSVD()`,
    `estimateUsingCholeskyDecomposition()` and `weightedEstimate()`.  (A used object against a brand-new one on which only the current
    problem was stated is the special case `o₂ = srcDefault`.) -/
theorem src_estimates_depend_on_current_problem_only (env : Env ℝ) (orc : Oracles ℝ) (ha : Agree env orc)
    (o₁ o₂ : Obj ℝ) (h₁ : Inv o₁) (h₂ : Inv o₂) (cs₁ cs₂ : List (SrcOp ℝ)) (hc₁ : ∀ c ∈ cs₁, c.Ok) (hc₂ : ∀ c ∈ cs₂, c.Ok) :
    ∃ o₁' ops₁ o₂' ops₂, srcRun orc o₁ cs₁ = some (o₁', ops₁) ∧ srcRun orc o₂ cs₂ = some (o₂', ops₂) ∧
      ((arun env (forget (abs o₁)) ops₁).Defined true →
       (arun env (forget (abs o₁)) ops₁).SameProblem (arun env (forget (abs o₂)) ops₂) →
        (∃ p x n q x' n', srcSVD orc.svdU orc.svdV orc.svdS o₁' = some (p, x, n) ∧
            srcSVD orc.svdU orc.svdV orc.svdS o₂' = some (q, x', n') ∧ vecOf n x = vecOf n' x') ∧
        (∃ p x n q x' n', srcCholesky orc.ldlt o₁' = some (p, x, n) ∧ srcCholesky orc.ldlt o₂' = some (q, x', n') ∧
            vecOf n x = vecOf n' x') ∧
        (∃ p x n q x' n', srcWeighted orc.ldlt o₁' = some (p, x, n) ∧ srcWeighted orc.ldlt o₂' = some (q, x', n') ∧
            vecOf n x = vecOf n' x')) := by
  obtain ⟨p₁, ops₁, r1, a1, i1⟩ := src_run_eq env orc ha o₁ h₁ cs₁ hc₁
  obtain ⟨p₂, ops₂, r2, a2, i2⟩ := src_run_eq env orc ha o₂ h₂ cs₂ hc₂
  refine ⟨p₁, ops₁, p₂, ops₂, r1, r2, fun hd hsame => ?_⟩
  obtain ⟨e1, e2, e3⟩ := estimate_depends_on_current_problem_only env (abs o₁) (abs o₂) (wf_abs o₁ h₁) (wf_abs o₂ h₂) ops₁ ops₂ hd hsame
  rw [← a1, ← a2] at e1 e2 e3
  obtain ⟨s1, x1, n1, sa, _, sb, _, _⟩ := svd_bridge env orc.svdU orc.svdV orc.svdS ha.2 p₁ i1
  obtain ⟨s2, x2, n2, sc, _, sd, _, _⟩ := svd_bridge env orc.svdU orc.svdV orc.svdS ha.2 p₂ i2
  obtain ⟨c1, y1, m1, ca, _, cb, _, _⟩ := cholesky_bridge env orc.ldlt ha.1 p₁ i1
  obtain ⟨c2, y2, m2, cc, _, cd, _, _⟩ := cholesky_bridge env orc.ldlt ha.1 p₂ i2
  obtain ⟨w1, z1, k1, wa, _, wb, _, _⟩ := weighted_bridge env orc.ldlt ha.1 p₁ i1
  obtain ⟨w2, z2, k2, wc, _, wd, _, _⟩ := weighted_bridge env orc.ldlt ha.1 p₂ i2
  exact ⟨⟨s1, x1, n1, s2, x2, n2, sa, sc, by rw [sb, sd]; exact e1⟩,
    ⟨c1, y1, m1, c2, y2, m2, ca, cc, by rw [cb, cd]; exact e2⟩,
    ⟨w1, z1, k1, w2, z2, k2, wa, wc, by rw [wb, wd]; exact e3⟩⟩

/-- non-vacuity of `src_run_history_independent_svd` / `_cholesky`: a history through the translated code starting at the translated
    default constructor — `setEstimateSize(2)`, `setDataSize(2)` (any junk), two rows stated by a caller — meets every hypothesis, and the
    specification-level state it reaches is completely `Defined` (so the theorems' premise "the estimate is determined" holds) -/
example (env : Env ℝ) (orc : Oracles ℝ) (rz rzJ : Int → (Int → Int → ℝ) → Int → Int → Int → (Int → Int → ℝ)) (hk : ResizeKeeps rz)
    (rzW rzY : (Int → ℝ) → Int → Int → (Int → ℝ)) :
    let cs : List (SrcOp ℝ) := [.setEstimateSize 2 rz, .setDataSize 2 rzJ rzW rzY,
      .pokeRow 0 (fun c => if c = 0 then 2 else 0) 1, .pokeRow 1 (fun c => if c = 1 then 3 else 0) 6]
    (∀ c ∈ cs, c.Ok) ∧ Inv (srcDefault : Obj ℝ) ∧
    ∃ o' ops, srcRun orc srcDefault cs = some (o', ops) ∧ (arun env (forget (abs (srcDefault : Obj ℝ))) ops).Defined false := by
  intro cs
  refine ⟨?_, default_inv, _, _, rfl, ?_⟩
  · intro c hc
    simp only [cs, List.mem_cons, List.mem_nil_iff, or_false] at hc
    rcases hc with rfl | rfl | rfl | rfl
    · exact hk
    all_goals trivial
  · rw [default_bridge]
    refine ⟨?_, ?_, fun h => absurd h (by simp)⟩
    · intro k hk' c hc
      have hk2 : k < 2 := hk'
      have hc2 : c < 2 := hc
      interval_cases k <;> interval_cases c <;> rfl
    · intro k hk'
      have hk2 : k < 2 := hk'
      interval_cases k <;> rfl

end
end Romea.Bridge.C07
