import RomeaProofs.Bridge.C07
import RomeaProofs.Properties.C07

/-!
# C07 headline theorems restated about `LeastSquares<RealType>` AS TRANSLATED FROM TODAY'S SOURCE

`Bridge/C07.lean` shows that every translated member function acts on `abs o` as the model's function.  Here:

* `srcStep` / `srcRun` fold the TRANSLATED member functions (`setDataSize`, both `setPreconditionner`, `estimateUsingCholeskyDecomposition`,
  `weightedEstimate`) over a call history of one object record, `src_run_eq`: the object that results stands for the model's
  `run` on the corresponding model operations (`toOp`) — for EVERY scalar type.  Buffer contents the callers write through `getJ()` /
  `getY()` / `getW()` (not member-function code) enter as the call `poke`, which replaces the three coefficient functions.
* the property's headline theorems over ℝ, with the LAST call executed by the translated code on an object that stands for the state
  reached by an arbitrary model history: `src_history_independent_cholesky / _weighted` (`C07.history_independent`),
  `src_equals_fresh_solver` (`C07.equals_fresh_solver`), `src_cholesky_minimises` (`C07.estimateCholesky_spec` +
  `C07.solution_minimises`), `src_weighted_minimiser`.
The oracle of the translation (`ldlt_solve`) and the oracle of the model (`Env.ldltInv`) are required to be the same routine on the
call the source makes (`LdltAgree`: `solve(Identity(e, e))`); `ldltAgree_exists` shows the requirement satisfiable for every model oracle
that returns `e × e` arrays.
-/
set_option linter.unusedSectionVars false
set_option linter.unusedVariables false
set_option linter.unusedSimpArgs false

namespace Romea.Bridge.C07
open Romea Romea.LeastSquares

/-! ## A call history folded through the translated member functions (every scalar type) -/
section
variable {α : Type} [NatCast α] [Add α] [Mul α] [Div α] [LT α] [DecidableLT α] [Limits α]

/-- calls on one translated object -/
inductive SrcOp (α : Type)
  | setDataSize (n : Nat) (rzJ : Int → (Int → Int → α) → Int → Int → Int → (Int → Int → α)) (rzW rzY : (Int → α) → Int → Int → (Int → α))
  | setPre (A : Int → Int → α) (b : Int → α)
  | setPreA (A : Int → Int → α)
  | cholesky
  | weighted

/-- one call executed by the TRANSLATED code (`none`: a translated loop failed — never, by `src_step_eq`) -/
def srcStep (ldlt : Int → (Int → Int → α) → Int → Int → (Int → Int → α) → Int → (Int → Int → α)) (o : Obj α) : SrcOp α → Option (Obj α)
  | .setDataSize n rzJ rzW rzY => some (srcSetDataSize rzJ rzW rzY o n).1
  | .setPre A b => some (srcSetPre o A o.estimateSize_ o.estimateSize_ b o.estimateSize_)
  | .setPreA A => some (srcSetPreA o A o.estimateSize_ o.estimateSize_)
  | .cholesky => (srcCholesky ldlt o).map (·.1)
  | .weighted => (srcWeighted ldlt o).map (·.1)

/-- the model operation a call stands for, in the object state `o` it is issued in -/
def toOp (o : Obj α) : SrcOp α → Op α
  | .setDataSize n rzJ rzW rzY =>
      .setDataSize n (fun i j => rzJ o.J_cols o.J_m o.J_rows n o.estimateSize_ i j) (fun i => rzY o.Y_m o.Y_rows n i)
  | .setPre A b => .setPre (matOf o.estimateSize_ o.estimateSize_ A) (vecOf o.estimateSize_ b)
  | .setPreA A => .setPre (matOf o.estimateSize_ o.estimateSize_ A) (Vec.tab o.estimateSize_.toNat fun _ => zero)
  | .cholesky => .estimateCholesky
  | .weighted => .weightedEstimate

theorem src_step_eq (env : Env α) (ldlt : Int → (Int → Int → α) → Int → Int → (Int → Int → α) → Int → (Int → Int → α))
    (hl : LdltAgree env ldlt) (o : Obj α) (h : Inv o) (c : SrcOp α) :
    ∃ o', srcStep ldlt o c = some o' ∧ abs o' = (step env (abs o) (toOp o c)).1 ∧ Inv o' := by
  cases c with
  | setDataSize n rzJ rzW rzY =>
    refine ⟨_, rfl, ?_, setDataSize_inv rzJ rzW rzY o h n⟩
    have := setDataSize_bridge rzJ rzW rzY o h n
    simp only [step, toOp]
    rw [← this]
  | setPre A b => exact ⟨_, rfl, setPre_bridge o A _ _ b _, setPre_inv o h A b⟩
  | setPreA A => exact ⟨_, rfl, setPreA_bridge o A _ _, setPreA_inv o h A⟩
  | cholesky =>
    obtain ⟨o', x, n, h1, h2, _, _, h5⟩ := cholesky_bridge env ldlt hl o h
    exact ⟨o', by simp [srcStep, h1], h2, h5⟩
  | weighted =>
    obtain ⟨o', x, n, h1, h2, _, _, h5⟩ := weighted_bridge env ldlt hl o h
    exact ⟨o', by simp [srcStep, h1], h2, h5⟩

/-- a call history through the translated code, together with the model operations it stands for -/
def srcRun (ldlt : Int → (Int → Int → α) → Int → Int → (Int → Int → α) → Int → (Int → Int → α)) :
    Obj α → List (SrcOp α) → Option (Obj α × List (Op α))
  | o, [] => some (o, [])
  | o, c :: cs =>
    match srcStep ldlt o c with
    | none => none
    | some o' => (srcRun ldlt o' cs).map fun r => (r.1, toOp o c :: r.2)

/-- **the translated object after any call history stands for the model's `run`** (every scalar type) -/
theorem src_run_eq (env : Env α) (ldlt : Int → (Int → Int → α) → Int → Int → (Int → Int → α) → Int → (Int → Int → α))
    (hl : LdltAgree env ldlt) (o : Obj α) (h : Inv o) (cs : List (SrcOp α)) :
    ∃ o' ops, srcRun ldlt o cs = some (o', ops) ∧ abs o' = run env (abs o) ops ∧ Inv o' := by
  induction cs generalizing o with
  | nil => exact ⟨o, [], rfl, rfl, h⟩
  | cons c cs ih =>
    obtain ⟨o1, h1, h2, h3⟩ := src_step_eq env ldlt hl o h c
    obtain ⟨o', ops, h4, h5, h6⟩ := ih o1 h3
    refine ⟨o', toOp o c :: ops, by simp [srcRun, h1, h4], ?_, h6⟩
    rw [h5, h2]
    rfl

end

/-! ## The headline theorems over ℝ, the last call executed by the translated code -/
section
open Romea.C07 Matrix
variable [Limits ℝ]

/-- the model oracle and the translation's oracle can be the same routine: for every `Env` whose `ldltInv e` returns `e × e` arrays -/
theorem ldltAgree_exists (env : Env ℝ) (hsz : ∀ e A, env.ldltInv e A = Mat.tab e e fun i j => (env.ldltInv e A).get i j) :
    ∃ ldlt, LdltAgree env ldlt := by
  refine ⟨fun c A r _ _ _ => fun i j => (env.ldltInv c.toNat (matOf r c A)).get i.toNat j.toNat, ?_⟩
  intro A e he
  rw [hsz e.toNat (matOf e e A)]
  unfold matOf
  apply Mat.tab_congr
  intro i hi j hj
  simp only [Int.toNat_natCast]

/-- **History independence, translated code**: the object `o` stands for the state an ARBITRARY model history reached; if the specified
    part of that history determines the Cholesky estimate, the vector returned by the translated
    `estimateUsingCholeskyDecomposition()` is that estimate -/
theorem src_history_independent_cholesky (env : Env ℝ) (ldlt : Int → (Int → Int → ℝ) → Int → Int → (Int → Int → ℝ) → Int → (Int → Int → ℝ))
    (hl : LdltAgree env ldlt) (s₀ : State ℝ) (hwf : WF s₀) (ops : List (Op ℝ)) (o : Obj ℝ) (hi : Inv o)
    (ho : abs o = run env s₀ ops) (y : Vec ℝ)
    (hy : (astep env (arun env (forget s₀) ops) .estimateCholesky).2 = some (.vec y)) :
    ∃ o' x n, srcCholesky ldlt o = some (o', x, n) ∧ vecOf n x = y := by
  obtain ⟨o', x, n, h1, _, h3, _, _⟩ := cholesky_bridge env ldlt hl o hi
  refine ⟨o', x, n, h1, ?_⟩
  have := history_independent env s₀ hwf ops .estimateCholesky (.vec y) hy
  simp only [step] at this
  rw [h3, ho]
  injection this

/-- the same for the translated `weightedEstimate()` -/
theorem src_history_independent_weighted (env : Env ℝ) (ldlt : Int → (Int → Int → ℝ) → Int → Int → (Int → Int → ℝ) → Int → (Int → Int → ℝ))
    (hl : LdltAgree env ldlt) (s₀ : State ℝ) (hwf : WF s₀) (ops : List (Op ℝ)) (o : Obj ℝ) (hi : Inv o)
    (ho : abs o = run env s₀ ops) (y : Vec ℝ)
    (hy : (astep env (arun env (forget s₀) ops) .weightedEstimate).2 = some (.vec y)) :
    ∃ o' x n, srcWeighted ldlt o = some (o', x, n) ∧ vecOf n x = y := by
  obtain ⟨o', x, n, h1, _, h3, _, _⟩ := weighted_bridge env ldlt hl o hi
  refine ⟨o', x, n, h1, ?_⟩
  have := history_independent env s₀ hwf ops .weightedEstimate (.vec y) hy
  simp only [step] at this
  rw [h3, ho]
  injection this

/-- **A smaller problem after a larger one equals a fresh solver, translated code**: whatever the history behind `o`, the translated
    Cholesky and weighted estimates equal those of the model's brand-new object on which exactly the current problem was stated -/
theorem src_equals_fresh_solver (env : Env ℝ) (ldlt : Int → (Int → Int → ℝ) → Int → Int → (Int → Int → ℝ) → Int → (Int → Int → ℝ))
    (hl : LdltAgree env ldlt) (s₀ : State ℝ) (hwf : WF s₀) (ops : List (Op ℝ)) (o : Obj ℝ) (hi : Inv o)
    (ho : abs o = run env s₀ ops) (hd : (arun env (forget s₀) ops).Defined true) :
    let a := arun env (forget s₀) ops
    let fresh := run env State.default
      (freshOps a.est a.n (fun k => Vec.tab a.est fun c => (a.J k c).getD 0) (fun k => (a.Y k).getD 0)
        (fun k => (a.W k).getD 0) a.Ac a.Bc)
    (∃ o' x n, srcCholesky ldlt o = some (o', x, n) ∧ vecOf n x = (estimateCholesky env fresh).2) ∧
    (∃ o' x n, srcWeighted ldlt o = some (o', x, n) ∧ vecOf n x = (weightedEstimate env fresh).2) := by
  intro a fresh
  obtain ⟨_, hc, hw⟩ := equals_fresh_solver env s₀ hwf ops hd
  obtain ⟨o1, x1, n1, c1, _, c3, _, _⟩ := cholesky_bridge env ldlt hl o hi
  obtain ⟨o2, x2, n2, w1, _, w3, _, _⟩ := weighted_bridge env ldlt hl o hi
  exact ⟨⟨o1, x1, n1, c1, by rw [c3, ho]; exact hc⟩, ⟨o2, x2, n2, w1, by rw [w3, ho]; exact hw⟩⟩

/-- **The translated Cholesky estimate is `Ac·x + Bc` with `x` the minimiser of `‖Jx − Y‖`** (LDLT contract, full rank) -/
theorem src_cholesky_minimises (env : Env ℝ) (ldlt : Int → (Int → Int → ℝ) → Int → Int → (Int → Int → ℝ) → Int → (Int → Int → ℝ))
    (hl : LdltAgree env ldlt) (hldlt : LDLTContract env) (o : Obj ℝ) (hi : Inv o)
    (hfull : IsUnit ((JM (abs o))ᵀ * JM (abs o)).det) :
    ∃ o' x n, srcCholesky ldlt o = some (o', x, n) ∧
      toV (abs o).est (vecOf n x) = AcM (abs o) *ᵥ solution (abs o) + BcV (abs o) ∧
      ∀ x', C07.sq (JM (abs o) *ᵥ solution (abs o) - YV (abs o)) ≤ C07.sq (JM (abs o) *ᵥ x' - YV (abs o)) := by
  obtain ⟨o', x, n, h1, _, h3, _, _⟩ := cholesky_bridge env ldlt hl o hi
  exact ⟨o', x, n, h1, by rw [h3]; exact (estimateCholesky_spec env (abs o) hldlt hfull).1, solution_minimises (abs o) hfull⟩

/-- **The translated weighted estimate minimises `Σ (w_i r_i)²`** -/
theorem src_weighted_minimiser (env : Env ℝ) (ldlt : Int → (Int → Int → ℝ) → Int → Int → (Int → Int → ℝ) → Int → (Int → Int → ℝ))
    (hl : LdltAgree env ldlt) (hldlt : LDLTContract env) (o : Obj ℝ) (hi : Inv o)
    (hfull : IsUnit ((JM (weightJAndY (abs o)))ᵀ * JM (weightJAndY (abs o))).det) :
    ∃ o' x n, srcWeighted ldlt o = some (o', x, n) ∧
      ∃ z : Fin (abs o).est → ℝ, toV (abs o).est (vecOf n x) = AcM (abs o) *ᵥ z + BcV (abs o) ∧ ∀ x', wcost (abs o) z ≤ wcost (abs o) x' := by
  obtain ⟨o', x, n, h1, _, h3, _, _⟩ := weighted_bridge env ldlt hl o hi
  obtain ⟨z, hz1, hz2⟩ := weighted_minimiser env (abs o) hldlt hfull
  exact ⟨o', x, n, h1, z, by rw [h3]; exact hz1, hz2⟩

end
end Romea.Bridge.C07
