import RomeaProofs.Bridge.C20

/-!
# Bridge C20, part 3: the four HOMOGENEOUS-coordinate instantiations of `PointSetPreconditioner::compute` AS TRANSLATED FROM TODAY'S SOURCE

`PointSetPreconditioner<HomogeneousCoordinates2d/3d/2f/3f>` (suffixes `_h2d _h3d _h2f _h3f`): the points are `Eigen::Matrix<Scalar, 3|4, 1>`
(the trailing homogeneous coordinate is part of the point: `POINT_SIZE = CARTESIAN_DIM + 1`), a `std::vector` of them a `List` of 3- / 4-tuples.
The model's `Precond.compute` is generic in `sz` / `cart` (`RomeaModel/BBox.lean`): the same statements as for the Cartesian
instantiations with `sz = cart + 1` — min / max / mean over ALL `sz` coordinates, `scale_ = 1 / maxCoeff` over all `sz` extents (for points
whose homogeneous coordinate is constantly 1 that extent is 0), `translation_` from the first `cart` means. Every scalar type. Core Lean only.
-/
set_option linter.unusedSectionVars false

namespace Romea.Bridge.C20
open Romea Romea.BBox

def v4 {α : Type} (a b c d : α) : Vec 4 α := fun i => if i.val = 0 then a else if i.val = 1 then b else if i.val = 2 then c else d

section PrecondH
variable {α : Type} [Add α] [Sub α] [Mul α] [Div α] [Neg α] [LT α] [LE α] [DecidableLT α] [DecidableLE α]
  [NatCast α] [IntCast α] [Trans α] [Limits α]

/-! ## `PointSetPreconditioner<HomogeneousCoordinates2d>::compute` (cpp:46-66; suffix `_h2d`; POINT_SIZE = 3, CARTESIAN_DIM = 2) -/

/-- the loop over the points (cpp:52-57): running max / sum / min per coordinate (the homogeneous coordinate included) -/
theorem precond_loop_h2d (pts : List (α × α × α)) (N : Int) :
    ∀ (cnt k : Nat) (mx0 mx1 mx2 me0 me1 me2 mn0 mn1 mn2 : α), k + cnt = pts.length →
      Src.C20.PointSetPreconditioner.compute_h2d.loop1 N pts cnt (k : Int) mx0 mx1 mx2 me0 me1 me2 mn0 mn1 mn2
        = some (((k + cnt : Nat) : Int),
            (pts.drop k).foldl (fun m p => maxS m p.1) mx0,
            (pts.drop k).foldl (fun m p => maxS m p.2.1) mx1,
            (pts.drop k).foldl (fun m p => maxS m p.2.2) mx2,
            (pts.drop k).foldl (fun s p => s + p.1) me0,
            (pts.drop k).foldl (fun s p => s + p.2.1) me1,
            (pts.drop k).foldl (fun s p => s + p.2.2) me2,
            (pts.drop k).foldl (fun m p => minS m p.1) mn0,
            (pts.drop k).foldl (fun m p => minS m p.2.1) mn1,
            (pts.drop k).foldl (fun m p => minS m p.2.2) mn2) := by
  intro cnt
  induction cnt with
  | zero =>
    intro k mx0 mx1 mx2 me0 me1 me2 mn0 mn1 mn2 hk
    have : pts.drop k = [] := List.drop_eq_nil_of_le (by omega)
    simp [Src.C20.PointSetPreconditioner.compute_h2d.loop1, this]
  | succ cnt ih =>
    intro k mx0 mx1 mx2 me0 me1 me2 mn0 mn1 mn2 hk
    have hlt : k < pts.length := by omega
    have hd : pts.drop k = pts[k] :: pts.drop (k + 1) := List.drop_eq_getElem_cons hlt
    have e : ((k : Int) + 1) = ((k + 1 : Nat) : Int) := by omega
    unfold Src.C20.PointSetPreconditioner.compute_h2d.loop1
    rw [vecGet_nat, List.getElem?_eq_getElem hlt]
    simp only [e]
    rw [ih (k + 1) _ _ _ _ _ _ _ _ _ (by omega), hd]
    simp only [List.foldl_cons, maxS, minS]
    congr 2
    omega

/-- `compute(points)` on homogeneous points: the written members = the model's `Precond.compute` with `sz = 3`, `cart = 2` (the
    extrema / mean include the homogeneous coordinate, the scale is taken over all 3 extents, the translation has 2 components) -/
theorem precond_compute_h2d_bridge (hc : ∀ k : Nat, ((k : Int) : α) = (k : α)) (pts : List (α × α × α)) :
    Src.C20.PointSetPreconditioner.compute_h2d pts =
      some ((Precond.compute (sz := 3) (cart := 2) (by decide) (pts.map (fun p => v3 p.1 p.2.1 p.2.2))).max 0,
            (Precond.compute (sz := 3) (cart := 2) (by decide) (pts.map (fun p => v3 p.1 p.2.1 p.2.2))).max 1,
            (Precond.compute (sz := 3) (cart := 2) (by decide) (pts.map (fun p => v3 p.1 p.2.1 p.2.2))).max 2,
            (Precond.compute (sz := 3) (cart := 2) (by decide) (pts.map (fun p => v3 p.1 p.2.1 p.2.2))).mean 0,
            (Precond.compute (sz := 3) (cart := 2) (by decide) (pts.map (fun p => v3 p.1 p.2.1 p.2.2))).mean 1,
            (Precond.compute (sz := 3) (cart := 2) (by decide) (pts.map (fun p => v3 p.1 p.2.1 p.2.2))).mean 2,
            (Precond.compute (sz := 3) (cart := 2) (by decide) (pts.map (fun p => v3 p.1 p.2.1 p.2.2))).min 0,
            (Precond.compute (sz := 3) (cart := 2) (by decide) (pts.map (fun p => v3 p.1 p.2.1 p.2.2))).min 1,
            (Precond.compute (sz := 3) (cart := 2) (by decide) (pts.map (fun p => v3 p.1 p.2.1 p.2.2))).min 2,
            (Precond.compute (sz := 3) (cart := 2) (by decide) (pts.map (fun p => v3 p.1 p.2.1 p.2.2))).scale,
            (Precond.compute (sz := 3) (cart := 2) (by decide) (pts.map (fun p => v3 p.1 p.2.1 p.2.2))).translation 0,
            (Precond.compute (sz := 3) (cart := 2) (by decide) (pts.map (fun p => v3 p.1 p.2.1 p.2.2))).translation 1) := by
  have hl := precond_loop_h2d pts (pts.length : Int) pts.length 0 (Limits.lowest : α) (Limits.lowest : α) (Limits.lowest : α) ((0 : Nat) : α) ((0 : Nat) : α) ((0 : Nat) : α) (Limits.maxVal : α) (Limits.maxVal : α) (Limits.maxVal : α) (by omega)
  unfold Src.C20.PointSetPreconditioner.compute_h2d
  simp only [Int.sub_zero, Int.toNat_natCast]
  rw [show ((0 : Int)) = ((0 : Nat) : Int) from rfl, hl]
  simp only [List.drop_zero, Precond.compute, Precond.computeWith, List.foldl_map, List.length_map, maxCoeff, hc, zero, one,
    List.finRange_succ, List.finRange_zero]
  rfl

/-! ## `PointSetPreconditioner<HomogeneousCoordinates3d>::compute` (cpp:46-66; suffix `_h3d`; POINT_SIZE = 4, CARTESIAN_DIM = 3) -/

/-- the loop over the points (cpp:52-57): running max / sum / min per coordinate (the homogeneous coordinate included) -/
theorem precond_loop_h3d (pts : List (α × α × α × α)) (N : Int) :
    ∀ (cnt k : Nat) (mx0 mx1 mx2 mx3 me0 me1 me2 me3 mn0 mn1 mn2 mn3 : α), k + cnt = pts.length →
      Src.C20.PointSetPreconditioner.compute_h3d.loop1 N pts cnt (k : Int) mx0 mx1 mx2 mx3 me0 me1 me2 me3 mn0 mn1 mn2 mn3
        = some (((k + cnt : Nat) : Int),
            (pts.drop k).foldl (fun m p => maxS m p.1) mx0,
            (pts.drop k).foldl (fun m p => maxS m p.2.1) mx1,
            (pts.drop k).foldl (fun m p => maxS m p.2.2.1) mx2,
            (pts.drop k).foldl (fun m p => maxS m p.2.2.2) mx3,
            (pts.drop k).foldl (fun s p => s + p.1) me0,
            (pts.drop k).foldl (fun s p => s + p.2.1) me1,
            (pts.drop k).foldl (fun s p => s + p.2.2.1) me2,
            (pts.drop k).foldl (fun s p => s + p.2.2.2) me3,
            (pts.drop k).foldl (fun m p => minS m p.1) mn0,
            (pts.drop k).foldl (fun m p => minS m p.2.1) mn1,
            (pts.drop k).foldl (fun m p => minS m p.2.2.1) mn2,
            (pts.drop k).foldl (fun m p => minS m p.2.2.2) mn3) := by
  intro cnt
  induction cnt with
  | zero =>
    intro k mx0 mx1 mx2 mx3 me0 me1 me2 me3 mn0 mn1 mn2 mn3 hk
    have : pts.drop k = [] := List.drop_eq_nil_of_le (by omega)
    simp [Src.C20.PointSetPreconditioner.compute_h3d.loop1, this]
  | succ cnt ih =>
    intro k mx0 mx1 mx2 mx3 me0 me1 me2 me3 mn0 mn1 mn2 mn3 hk
    have hlt : k < pts.length := by omega
    have hd : pts.drop k = pts[k] :: pts.drop (k + 1) := List.drop_eq_getElem_cons hlt
    have e : ((k : Int) + 1) = ((k + 1 : Nat) : Int) := by omega
    unfold Src.C20.PointSetPreconditioner.compute_h3d.loop1
    rw [vecGet_nat, List.getElem?_eq_getElem hlt]
    simp only [e]
    rw [ih (k + 1) _ _ _ _ _ _ _ _ _ _ _ _ (by omega), hd]
    simp only [List.foldl_cons, maxS, minS]
    congr 2
    omega

/-- `compute(points)` on homogeneous points: the written members = the model's `Precond.compute` with `sz = 4`, `cart = 3` (the
    extrema / mean include the homogeneous coordinate, the scale is taken over all 4 extents, the translation has 3 components) -/
theorem precond_compute_h3d_bridge (hc : ∀ k : Nat, ((k : Int) : α) = (k : α)) (pts : List (α × α × α × α)) :
    Src.C20.PointSetPreconditioner.compute_h3d pts =
      some ((Precond.compute (sz := 4) (cart := 3) (by decide) (pts.map (fun p => v4 p.1 p.2.1 p.2.2.1 p.2.2.2))).max 0,
            (Precond.compute (sz := 4) (cart := 3) (by decide) (pts.map (fun p => v4 p.1 p.2.1 p.2.2.1 p.2.2.2))).max 1,
            (Precond.compute (sz := 4) (cart := 3) (by decide) (pts.map (fun p => v4 p.1 p.2.1 p.2.2.1 p.2.2.2))).max 2,
            (Precond.compute (sz := 4) (cart := 3) (by decide) (pts.map (fun p => v4 p.1 p.2.1 p.2.2.1 p.2.2.2))).max 3,
            (Precond.compute (sz := 4) (cart := 3) (by decide) (pts.map (fun p => v4 p.1 p.2.1 p.2.2.1 p.2.2.2))).mean 0,
            (Precond.compute (sz := 4) (cart := 3) (by decide) (pts.map (fun p => v4 p.1 p.2.1 p.2.2.1 p.2.2.2))).mean 1,
            (Precond.compute (sz := 4) (cart := 3) (by decide) (pts.map (fun p => v4 p.1 p.2.1 p.2.2.1 p.2.2.2))).mean 2,
            (Precond.compute (sz := 4) (cart := 3) (by decide) (pts.map (fun p => v4 p.1 p.2.1 p.2.2.1 p.2.2.2))).mean 3,
            (Precond.compute (sz := 4) (cart := 3) (by decide) (pts.map (fun p => v4 p.1 p.2.1 p.2.2.1 p.2.2.2))).min 0,
            (Precond.compute (sz := 4) (cart := 3) (by decide) (pts.map (fun p => v4 p.1 p.2.1 p.2.2.1 p.2.2.2))).min 1,
            (Precond.compute (sz := 4) (cart := 3) (by decide) (pts.map (fun p => v4 p.1 p.2.1 p.2.2.1 p.2.2.2))).min 2,
            (Precond.compute (sz := 4) (cart := 3) (by decide) (pts.map (fun p => v4 p.1 p.2.1 p.2.2.1 p.2.2.2))).min 3,
            (Precond.compute (sz := 4) (cart := 3) (by decide) (pts.map (fun p => v4 p.1 p.2.1 p.2.2.1 p.2.2.2))).scale,
            (Precond.compute (sz := 4) (cart := 3) (by decide) (pts.map (fun p => v4 p.1 p.2.1 p.2.2.1 p.2.2.2))).translation 0,
            (Precond.compute (sz := 4) (cart := 3) (by decide) (pts.map (fun p => v4 p.1 p.2.1 p.2.2.1 p.2.2.2))).translation 1,
            (Precond.compute (sz := 4) (cart := 3) (by decide) (pts.map (fun p => v4 p.1 p.2.1 p.2.2.1 p.2.2.2))).translation 2) := by
  have hl := precond_loop_h3d pts (pts.length : Int) pts.length 0 (Limits.lowest : α) (Limits.lowest : α) (Limits.lowest : α) (Limits.lowest : α) ((0 : Nat) : α) ((0 : Nat) : α) ((0 : Nat) : α) ((0 : Nat) : α) (Limits.maxVal : α) (Limits.maxVal : α) (Limits.maxVal : α) (Limits.maxVal : α) (by omega)
  unfold Src.C20.PointSetPreconditioner.compute_h3d
  simp only [Int.sub_zero, Int.toNat_natCast]
  rw [show ((0 : Int)) = ((0 : Nat) : Int) from rfl, hl]
  simp only [List.drop_zero, Precond.compute, Precond.computeWith, List.foldl_map, List.length_map, maxCoeff, hc, zero, one,
    List.finRange_succ, List.finRange_zero]
  rfl

/-! ## `PointSetPreconditioner<HomogeneousCoordinates2f>::compute` (cpp:46-66; suffix `_h2f`; POINT_SIZE = 3, CARTESIAN_DIM = 2) -/

/-- the loop over the points (cpp:52-57): running max / sum / min per coordinate (the homogeneous coordinate included) -/
theorem precond_loop_h2f (pts : List (α × α × α)) (N : Int) :
    ∀ (cnt k : Nat) (mx0 mx1 mx2 me0 me1 me2 mn0 mn1 mn2 : α), k + cnt = pts.length →
      Src.C20.PointSetPreconditioner.compute_h2f.loop1 N pts cnt (k : Int) mx0 mx1 mx2 me0 me1 me2 mn0 mn1 mn2
        = some (((k + cnt : Nat) : Int),
            (pts.drop k).foldl (fun m p => maxS m p.1) mx0,
            (pts.drop k).foldl (fun m p => maxS m p.2.1) mx1,
            (pts.drop k).foldl (fun m p => maxS m p.2.2) mx2,
            (pts.drop k).foldl (fun s p => s + p.1) me0,
            (pts.drop k).foldl (fun s p => s + p.2.1) me1,
            (pts.drop k).foldl (fun s p => s + p.2.2) me2,
            (pts.drop k).foldl (fun m p => minS m p.1) mn0,
            (pts.drop k).foldl (fun m p => minS m p.2.1) mn1,
            (pts.drop k).foldl (fun m p => minS m p.2.2) mn2) := by
  intro cnt
  induction cnt with
  | zero =>
    intro k mx0 mx1 mx2 me0 me1 me2 mn0 mn1 mn2 hk
    have : pts.drop k = [] := List.drop_eq_nil_of_le (by omega)
    simp [Src.C20.PointSetPreconditioner.compute_h2f.loop1, this]
  | succ cnt ih =>
    intro k mx0 mx1 mx2 me0 me1 me2 mn0 mn1 mn2 hk
    have hlt : k < pts.length := by omega
    have hd : pts.drop k = pts[k] :: pts.drop (k + 1) := List.drop_eq_getElem_cons hlt
    have e : ((k : Int) + 1) = ((k + 1 : Nat) : Int) := by omega
    unfold Src.C20.PointSetPreconditioner.compute_h2f.loop1
    rw [vecGet_nat, List.getElem?_eq_getElem hlt]
    simp only [e]
    rw [ih (k + 1) _ _ _ _ _ _ _ _ _ (by omega), hd]
    simp only [List.foldl_cons, maxS, minS]
    congr 2
    omega

/-- `compute(points)` on homogeneous points: the written members = the model's `Precond.compute` with `sz = 3`, `cart = 2` (the
    extrema / mean include the homogeneous coordinate, the scale is taken over all 3 extents, the translation has 2 components) -/
theorem precond_compute_h2f_bridge (hc : ∀ k : Nat, ((k : Int) : α) = (k : α)) (pts : List (α × α × α)) :
    Src.C20.PointSetPreconditioner.compute_h2f pts =
      some ((Precond.compute (sz := 3) (cart := 2) (by decide) (pts.map (fun p => v3 p.1 p.2.1 p.2.2))).max 0,
            (Precond.compute (sz := 3) (cart := 2) (by decide) (pts.map (fun p => v3 p.1 p.2.1 p.2.2))).max 1,
            (Precond.compute (sz := 3) (cart := 2) (by decide) (pts.map (fun p => v3 p.1 p.2.1 p.2.2))).max 2,
            (Precond.compute (sz := 3) (cart := 2) (by decide) (pts.map (fun p => v3 p.1 p.2.1 p.2.2))).mean 0,
            (Precond.compute (sz := 3) (cart := 2) (by decide) (pts.map (fun p => v3 p.1 p.2.1 p.2.2))).mean 1,
            (Precond.compute (sz := 3) (cart := 2) (by decide) (pts.map (fun p => v3 p.1 p.2.1 p.2.2))).mean 2,
            (Precond.compute (sz := 3) (cart := 2) (by decide) (pts.map (fun p => v3 p.1 p.2.1 p.2.2))).min 0,
            (Precond.compute (sz := 3) (cart := 2) (by decide) (pts.map (fun p => v3 p.1 p.2.1 p.2.2))).min 1,
            (Precond.compute (sz := 3) (cart := 2) (by decide) (pts.map (fun p => v3 p.1 p.2.1 p.2.2))).min 2,
            (Precond.compute (sz := 3) (cart := 2) (by decide) (pts.map (fun p => v3 p.1 p.2.1 p.2.2))).scale,
            (Precond.compute (sz := 3) (cart := 2) (by decide) (pts.map (fun p => v3 p.1 p.2.1 p.2.2))).translation 0,
            (Precond.compute (sz := 3) (cart := 2) (by decide) (pts.map (fun p => v3 p.1 p.2.1 p.2.2))).translation 1) := by
  have hl := precond_loop_h2f pts (pts.length : Int) pts.length 0 (Limits.lowest : α) (Limits.lowest : α) (Limits.lowest : α) ((0 : Nat) : α) ((0 : Nat) : α) ((0 : Nat) : α) (Limits.maxVal : α) (Limits.maxVal : α) (Limits.maxVal : α) (by omega)
  unfold Src.C20.PointSetPreconditioner.compute_h2f
  simp only [Int.sub_zero, Int.toNat_natCast]
  rw [show ((0 : Int)) = ((0 : Nat) : Int) from rfl, hl]
  simp only [List.drop_zero, Precond.compute, Precond.computeWith, List.foldl_map, List.length_map, maxCoeff, hc, zero, one,
    List.finRange_succ, List.finRange_zero]
  rfl

/-! ## `PointSetPreconditioner<HomogeneousCoordinates3f>::compute` (cpp:46-66; suffix `_h3f`; POINT_SIZE = 4, CARTESIAN_DIM = 3) -/

/-- the loop over the points (cpp:52-57): running max / sum / min per coordinate (the homogeneous coordinate included) -/
theorem precond_loop_h3f (pts : List (α × α × α × α)) (N : Int) :
    ∀ (cnt k : Nat) (mx0 mx1 mx2 mx3 me0 me1 me2 me3 mn0 mn1 mn2 mn3 : α), k + cnt = pts.length →
      Src.C20.PointSetPreconditioner.compute_h3f.loop1 N pts cnt (k : Int) mx0 mx1 mx2 mx3 me0 me1 me2 me3 mn0 mn1 mn2 mn3
        = some (((k + cnt : Nat) : Int),
            (pts.drop k).foldl (fun m p => maxS m p.1) mx0,
            (pts.drop k).foldl (fun m p => maxS m p.2.1) mx1,
            (pts.drop k).foldl (fun m p => maxS m p.2.2.1) mx2,
            (pts.drop k).foldl (fun m p => maxS m p.2.2.2) mx3,
            (pts.drop k).foldl (fun s p => s + p.1) me0,
            (pts.drop k).foldl (fun s p => s + p.2.1) me1,
            (pts.drop k).foldl (fun s p => s + p.2.2.1) me2,
            (pts.drop k).foldl (fun s p => s + p.2.2.2) me3,
            (pts.drop k).foldl (fun m p => minS m p.1) mn0,
            (pts.drop k).foldl (fun m p => minS m p.2.1) mn1,
            (pts.drop k).foldl (fun m p => minS m p.2.2.1) mn2,
            (pts.drop k).foldl (fun m p => minS m p.2.2.2) mn3) := by
  intro cnt
  induction cnt with
  | zero =>
    intro k mx0 mx1 mx2 mx3 me0 me1 me2 me3 mn0 mn1 mn2 mn3 hk
    have : pts.drop k = [] := List.drop_eq_nil_of_le (by omega)
    simp [Src.C20.PointSetPreconditioner.compute_h3f.loop1, this]
  | succ cnt ih =>
    intro k mx0 mx1 mx2 mx3 me0 me1 me2 me3 mn0 mn1 mn2 mn3 hk
    have hlt : k < pts.length := by omega
    have hd : pts.drop k = pts[k] :: pts.drop (k + 1) := List.drop_eq_getElem_cons hlt
    have e : ((k : Int) + 1) = ((k + 1 : Nat) : Int) := by omega
    unfold Src.C20.PointSetPreconditioner.compute_h3f.loop1
    rw [vecGet_nat, List.getElem?_eq_getElem hlt]
    simp only [e]
    rw [ih (k + 1) _ _ _ _ _ _ _ _ _ _ _ _ (by omega), hd]
    simp only [List.foldl_cons, maxS, minS]
    congr 2
    omega

/-- `compute(points)` on homogeneous points: the written members = the model's `Precond.compute` with `sz = 4`, `cart = 3` (the
    extrema / mean include the homogeneous coordinate, the scale is taken over all 4 extents, the translation has 3 components) -/
theorem precond_compute_h3f_bridge (hc : ∀ k : Nat, ((k : Int) : α) = (k : α)) (pts : List (α × α × α × α)) :
    Src.C20.PointSetPreconditioner.compute_h3f pts =
      some ((Precond.compute (sz := 4) (cart := 3) (by decide) (pts.map (fun p => v4 p.1 p.2.1 p.2.2.1 p.2.2.2))).max 0,
            (Precond.compute (sz := 4) (cart := 3) (by decide) (pts.map (fun p => v4 p.1 p.2.1 p.2.2.1 p.2.2.2))).max 1,
            (Precond.compute (sz := 4) (cart := 3) (by decide) (pts.map (fun p => v4 p.1 p.2.1 p.2.2.1 p.2.2.2))).max 2,
            (Precond.compute (sz := 4) (cart := 3) (by decide) (pts.map (fun p => v4 p.1 p.2.1 p.2.2.1 p.2.2.2))).max 3,
            (Precond.compute (sz := 4) (cart := 3) (by decide) (pts.map (fun p => v4 p.1 p.2.1 p.2.2.1 p.2.2.2))).mean 0,
            (Precond.compute (sz := 4) (cart := 3) (by decide) (pts.map (fun p => v4 p.1 p.2.1 p.2.2.1 p.2.2.2))).mean 1,
            (Precond.compute (sz := 4) (cart := 3) (by decide) (pts.map (fun p => v4 p.1 p.2.1 p.2.2.1 p.2.2.2))).mean 2,
            (Precond.compute (sz := 4) (cart := 3) (by decide) (pts.map (fun p => v4 p.1 p.2.1 p.2.2.1 p.2.2.2))).mean 3,
            (Precond.compute (sz := 4) (cart := 3) (by decide) (pts.map (fun p => v4 p.1 p.2.1 p.2.2.1 p.2.2.2))).min 0,
            (Precond.compute (sz := 4) (cart := 3) (by decide) (pts.map (fun p => v4 p.1 p.2.1 p.2.2.1 p.2.2.2))).min 1,
            (Precond.compute (sz := 4) (cart := 3) (by decide) (pts.map (fun p => v4 p.1 p.2.1 p.2.2.1 p.2.2.2))).min 2,
            (Precond.compute (sz := 4) (cart := 3) (by decide) (pts.map (fun p => v4 p.1 p.2.1 p.2.2.1 p.2.2.2))).min 3,
            (Precond.compute (sz := 4) (cart := 3) (by decide) (pts.map (fun p => v4 p.1 p.2.1 p.2.2.1 p.2.2.2))).scale,
            (Precond.compute (sz := 4) (cart := 3) (by decide) (pts.map (fun p => v4 p.1 p.2.1 p.2.2.1 p.2.2.2))).translation 0,
            (Precond.compute (sz := 4) (cart := 3) (by decide) (pts.map (fun p => v4 p.1 p.2.1 p.2.2.1 p.2.2.2))).translation 1,
            (Precond.compute (sz := 4) (cart := 3) (by decide) (pts.map (fun p => v4 p.1 p.2.1 p.2.2.1 p.2.2.2))).translation 2) := by
  have hl := precond_loop_h3f pts (pts.length : Int) pts.length 0 (Limits.lowest : α) (Limits.lowest : α) (Limits.lowest : α) (Limits.lowest : α) ((0 : Nat) : α) ((0 : Nat) : α) ((0 : Nat) : α) ((0 : Nat) : α) (Limits.maxVal : α) (Limits.maxVal : α) (Limits.maxVal : α) (Limits.maxVal : α) (by omega)
  unfold Src.C20.PointSetPreconditioner.compute_h3f
  simp only [Int.sub_zero, Int.toNat_natCast]
  rw [show ((0 : Int)) = ((0 : Nat) : Int) from rfl, hl]
  simp only [List.drop_zero, Precond.compute, Precond.computeWith, List.foldl_map, List.length_map, maxCoeff, hc, zero, one,
    List.finRange_succ, List.finRange_zero]
  rfl

end PrecondH

end Romea.Bridge.C20
