import RomeaProofs.Bridge.C12PoseA
import RomeaProofs.Bridge.C12PoseB
import RomeaProofs.Bridge.C12PoseC
import RomeaProofs.Bridge.C12PoseD
import RomeaProofs.Bridge.C12PoseE
import RomeaProofs.Bridge.C12PoseF
import RomeaProofs.Bridge.C12PoseG
/-!
# Bridge C12, part 3: `operator*(const Eigen::Affine3d &, const Pose3D &)` AS TRANSLATED FROM TODAY'S SOURCE = the model's `poseMul`

Definitions and the reading of the translated function: `Bridge/C12PoseDefs.lean`.  The 42 returned scalars (36 covariance entries of
`J C Jᵀ`, three Euler angles, three position coordinates) are compared with the model's in 14 groups of three (`C12PoseA … G`, each group
`rfl` within the default heartbeat budget); `pose_bridge` assembles them: for EVERY scalar type the translated function returns exactly
`flatPose (poseMul rotOf lin trans position orientation cov)`.
-/
set_option linter.unusedSectionVars false

namespace Romea.Bridge.C12
open Romea Romea.Pose Romea.Deriv

variable {α : Type} [Add α] [Sub α] [Mul α] [Div α] [Neg α] [LT α] [DecidableLT α] [NatCast α] [Trans α]

/-- **the bridge**: every scalar the translated `operator*(Affine3d, Pose3D)` returns is the model's, for every scalar type -/
theorem pose_bridge (rotOf : Mat 3 3 α → Mat 3 3 α) (a00 a01 a02 a10 a11 a12 a20 a21 a22 : α) (t p o : Vec 3 α) (cov : Mat 6 6 α) :
    Src.C12.operator_mul_pose (rotO rotOf 0 0) (rotO rotOf 0 1) (rotO rotOf 0 2) (rotO rotOf 1 0) (rotO rotOf 1 1) (rotO rotOf 1 2) (rotO rotOf 2 0) (rotO rotOf 2 1) (rotO rotOf 2 2)
      a00 a01 a02 (t 0) a10 a11 a12 (t 1) a20 a21 a22 (t 2)
      (cov 0 0) (cov 0 1) (cov 0 2) (cov 0 3) (cov 0 4) (cov 0 5) (cov 1 0) (cov 1 1) (cov 1 2) (cov 1 3) (cov 1 4) (cov 1 5) (cov 2 0) (cov 2 1) (cov 2 2) (cov 2 3) (cov 2 4) (cov 2 5) (cov 3 0) (cov 3 1) (cov 3 2) (cov 3 3) (cov 3 4) (cov 3 5) (cov 4 0) (cov 4 1) (cov 4 2) (cov 4 3) (cov 4 4) (cov 4 5) (cov 5 0) (cov 5 1) (cov 5 2) (cov 5 3) (cov 5 4) (cov 5 5)
      (o 0) (o 1) (o 2) (p 0) (p 1) (p 2) =
    flatPose (poseMul rotOf (m33 a00 a01 a02 a10 a11 a12 a20 a21 a22) t p o cov) :=
  (Prod.ext (pose_comp_0_2 rotOf a00 a01 a02 a10 a11 a12 a20 a21 a22 t p o cov).1 (Prod.ext (pose_comp_0_2 rotOf a00 a01 a02 a10 a11 a12 a20 a21 a22 t p o cov).2.1 (Prod.ext (pose_comp_0_2 rotOf a00 a01 a02 a10 a11 a12 a20 a21 a22 t p o cov).2.2 (Prod.ext (pose_comp_3_5 rotOf a00 a01 a02 a10 a11 a12 a20 a21 a22 t p o cov).1 (Prod.ext (pose_comp_3_5 rotOf a00 a01 a02 a10 a11 a12 a20 a21 a22 t p o cov).2.1 (Prod.ext (pose_comp_3_5 rotOf a00 a01 a02 a10 a11 a12 a20 a21 a22 t p o cov).2.2 (Prod.ext (pose_comp_6_8 rotOf a00 a01 a02 a10 a11 a12 a20 a21 a22 t p o cov).1 (Prod.ext (pose_comp_6_8 rotOf a00 a01 a02 a10 a11 a12 a20 a21 a22 t p o cov).2.1 (Prod.ext (pose_comp_6_8 rotOf a00 a01 a02 a10 a11 a12 a20 a21 a22 t p o cov).2.2 (Prod.ext (pose_comp_9_11 rotOf a00 a01 a02 a10 a11 a12 a20 a21 a22 t p o cov).1 (Prod.ext (pose_comp_9_11 rotOf a00 a01 a02 a10 a11 a12 a20 a21 a22 t p o cov).2.1 (Prod.ext (pose_comp_9_11 rotOf a00 a01 a02 a10 a11 a12 a20 a21 a22 t p o cov).2.2 (Prod.ext (pose_comp_12_14 rotOf a00 a01 a02 a10 a11 a12 a20 a21 a22 t p o cov).1 (Prod.ext (pose_comp_12_14 rotOf a00 a01 a02 a10 a11 a12 a20 a21 a22 t p o cov).2.1 (Prod.ext (pose_comp_12_14 rotOf a00 a01 a02 a10 a11 a12 a20 a21 a22 t p o cov).2.2 (Prod.ext (pose_comp_15_17 rotOf a00 a01 a02 a10 a11 a12 a20 a21 a22 t p o cov).1 (Prod.ext (pose_comp_15_17 rotOf a00 a01 a02 a10 a11 a12 a20 a21 a22 t p o cov).2.1 (Prod.ext (pose_comp_15_17 rotOf a00 a01 a02 a10 a11 a12 a20 a21 a22 t p o cov).2.2 (Prod.ext (pose_comp_18_20 rotOf a00 a01 a02 a10 a11 a12 a20 a21 a22 t p o cov).1 (Prod.ext (pose_comp_18_20 rotOf a00 a01 a02 a10 a11 a12 a20 a21 a22 t p o cov).2.1 (Prod.ext (pose_comp_18_20 rotOf a00 a01 a02 a10 a11 a12 a20 a21 a22 t p o cov).2.2 (Prod.ext (pose_comp_21_23 rotOf a00 a01 a02 a10 a11 a12 a20 a21 a22 t p o cov).1 (Prod.ext (pose_comp_21_23 rotOf a00 a01 a02 a10 a11 a12 a20 a21 a22 t p o cov).2.1 (Prod.ext (pose_comp_21_23 rotOf a00 a01 a02 a10 a11 a12 a20 a21 a22 t p o cov).2.2 (Prod.ext (pose_comp_24_26 rotOf a00 a01 a02 a10 a11 a12 a20 a21 a22 t p o cov).1 (Prod.ext (pose_comp_24_26 rotOf a00 a01 a02 a10 a11 a12 a20 a21 a22 t p o cov).2.1 (Prod.ext (pose_comp_24_26 rotOf a00 a01 a02 a10 a11 a12 a20 a21 a22 t p o cov).2.2 (Prod.ext (pose_comp_27_29 rotOf a00 a01 a02 a10 a11 a12 a20 a21 a22 t p o cov).1 (Prod.ext (pose_comp_27_29 rotOf a00 a01 a02 a10 a11 a12 a20 a21 a22 t p o cov).2.1 (Prod.ext (pose_comp_27_29 rotOf a00 a01 a02 a10 a11 a12 a20 a21 a22 t p o cov).2.2 (Prod.ext (pose_comp_30_32 rotOf a00 a01 a02 a10 a11 a12 a20 a21 a22 t p o cov).1 (Prod.ext (pose_comp_30_32 rotOf a00 a01 a02 a10 a11 a12 a20 a21 a22 t p o cov).2.1 (Prod.ext (pose_comp_30_32 rotOf a00 a01 a02 a10 a11 a12 a20 a21 a22 t p o cov).2.2 (Prod.ext (pose_comp_33_35 rotOf a00 a01 a02 a10 a11 a12 a20 a21 a22 t p o cov).1 (Prod.ext (pose_comp_33_35 rotOf a00 a01 a02 a10 a11 a12 a20 a21 a22 t p o cov).2.1 (Prod.ext (pose_comp_33_35 rotOf a00 a01 a02 a10 a11 a12 a20 a21 a22 t p o cov).2.2 (Prod.ext (pose_comp_36_38 rotOf a00 a01 a02 a10 a11 a12 a20 a21 a22 t p o cov).1 (Prod.ext (pose_comp_36_38 rotOf a00 a01 a02 a10 a11 a12 a20 a21 a22 t p o cov).2.1 (Prod.ext (pose_comp_36_38 rotOf a00 a01 a02 a10 a11 a12 a20 a21 a22 t p o cov).2.2 (Prod.ext (pose_comp_39_41 rotOf a00 a01 a02 a10 a11 a12 a20 a21 a22 t p o cov).1 (Prod.ext (pose_comp_39_41 rotOf a00 a01 a02 a10 a11 a12 a20 a21 a22 t p o cov).2.1 (pose_comp_39_41 rotOf a00 a01 a02 a10 a11 a12 a20 a21 a22 t p o cov).2.2)))))))))))))))))))))))))))))))))))))))))

end Romea.Bridge.C12
