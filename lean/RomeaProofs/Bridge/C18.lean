import RomeaModel.Checkup
import RomeaModel.Generated.SrcC18

/-!
# Bridge C18: the check-ups' `evaluate` / `timeout` and `worse` AS TRANSLATED FROM TODAY'S SOURCE = the model (`RomeaModel/Checkup.lean`)

`RomeaModel/Generated/SrcC18.lean` is regenerated on every check run from `CheckupEqualTo/GreaterThan/LowerThan.hpp`, `Checkup.hpp`
(instantiated with `double`), `src/diagnostics/CheckupReliability.cpp` and `DiagnosticStatus.cpp`. The translation is faithful down to
`setDiagnostic_` / `setValue_` / `getStatus_`: the single diagnostic is the location `report_.diagnostics.front()`, the single info entry
`report_.info.begin()`; strings are Lean `String`s, the enum `DiagnosticStatus` its underlying integers, `toStringInfoValue`
(`ostringstream << v`) an uninterpreted function parameter `tsi`, the `std::lock_guard` is skipped.
A translated `evaluate` returns (returned status, stored message, stored status, stored info string).
The model abstracts messages to classes (`Msg`); `ending` is the string each class stands for (the harness maps the same strings to
the same classes), and the info string is `tsi v` where the model has `some v`, `""` where it has `none`.
Core Lean only; every statement holds for every scalar type with a decidable `<`.
-/
set_option linter.unusedSectionVars false

namespace Romea.Bridge.C18
open Romea Romea.Checkup

/-- the text appended to the quantity's name, per message class of the model -/
def ending : Msg → String
  | .initial => ""
  | .tooLow => " is too low."
  | .tooHigh => " is too high."
  | .isOK => " is OK."
  | .uncertain => " is uncertain."
  | .high => " is high."
  | .timeout => " timeout."

/-- the underlying value of the enum `DiagnosticStatus` -/
def code (s : Status) : Int := (s.toNat : Int)

/-- the info string the C++ stores for the model's `info` -/
def infoString {α : Type} (tsi : α → String) : Option α → String
  | none => ""
  | some v => tsi v

section
variable {α : Type} [Add α] [Sub α] [LT α] [DecidableLT α]

/-- what the C++ object shows after `evaluate(v)` according to the model: (returned status, message, stored status, info) -/
def shown (tsi : α → String) (name : String) (r : State α × Status) : Int × String × Int × String :=
  (code r.2, name ++ ending r.1.msg, code r.1.status, infoString tsi r.1.info)

/-- `CheckupEqualTo<double>::evaluate` -/
theorem evaluate_equalTo_bridge (tsi : α → String) (name : String) (s : State α) (hk : s.kind = .equalTo) (v : α) :
    Src.C18.CheckupEqualTo.evaluate s.e name tsi v s.t = shown tsi name (evaluate s v) := by
  unfold Src.C18.CheckupEqualTo.evaluate shown evaluate classify
  rw [hk]
  by_cases h1 : v < s.t - s.e
  · simp only [h1, if_true]; rfl
  · by_cases h2 : s.t + s.e < v
    · simp only [h1, h2, if_true, if_false, GT.gt]; rfl
    · simp only [h1, h2, if_false, GT.gt]; rfl

/-- `CheckupGreaterThan<double>::evaluate` -/
theorem evaluate_greaterThan_bridge (tsi : α → String) (name : String) (s : State α) (hk : s.kind = .greaterThan) (v : α) :
    Src.C18.CheckupGreaterThan.evaluate s.e name tsi v s.t = shown tsi name (evaluate s v) := by
  unfold Src.C18.CheckupGreaterThan.evaluate shown evaluate classify
  rw [hk]
  by_cases h1 : s.t - s.e < v
  · simp only [h1, if_true, GT.gt]; rfl
  · simp only [h1, if_false, GT.gt]; rfl

/-- `CheckupLowerThan<double>::evaluate` -/
theorem evaluate_lowerThan_bridge (tsi : α → String) (name : String) (s : State α) (hk : s.kind = .lowerThan) (v : α) :
    Src.C18.CheckupLowerThan.evaluate s.e name tsi v s.t = shown tsi name (evaluate s v) := by
  unfold Src.C18.CheckupLowerThan.evaluate shown evaluate classify
  rw [hk]
  by_cases h1 : v < s.t + s.e
  · simp only [h1, if_true]; rfl
  · simp only [h1, if_false]; rfl

/-- `CheckupReliability::evaluate` (model: `t` = low, `e` = high threshold) -/
theorem evaluate_reliability_bridge (tsi : α → String) (name : String) (s : State α) (hk : s.kind = .reliability) (v : α) :
    Src.C18.CheckupReliability.evaluate s.e s.t v name tsi = shown tsi name (evaluate s v) := by
  unfold Src.C18.CheckupReliability.evaluate shown evaluate classify
  rw [hk]
  by_cases h1 : v < s.t
  · simp only [h1, if_true]; rfl
  · by_cases h2 : v < s.e
    · simp only [h1, h2, if_true, if_false]; rfl
    · simp only [h1, h2, if_false]; rfl

/-- `Checkup<double>::timeout`: (message, status, info) -/
theorem timeout_bridge (tsi : α → String) (name : String) (s : State α) :
    Src.C18.Checkup.timeout name
      = (name ++ ending (timeout s).msg, code (timeout s).status, infoString tsi (timeout s).info) := by rfl

end

/-- `worse(status1, status2)` on the enum's underlying values = the model's `worse` -/
theorem worse_bridge (a b : Status) : Src.C18.worse (code a) (code b) = code (worse a b) := by
  cases a <;> cases b <;> decide

end Romea.Bridge.C18
