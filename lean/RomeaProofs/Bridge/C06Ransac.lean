import RomeaModel.Ransac
import RomeaModel.Generated.SrcC06
import RomeaProofs.Bridge.C06

/-!
# Bridge C06, part 3: `Ransac::estimateModel` AS TRANSLATED FROM TODAY'S SOURCE = the model's `estimateModel` (`RomeaModel/Ransac.lean`)

`RomeaModel/Generated/SrcC06.lean` now also holds the translation of `Ransac::estimateModel` (`src/regression/ransac/Ransac.cpp`): the
control flow of the function with the six virtual `RansacModel` calls as FUNCTION PARAMETERS threading an abstract model state `σ`
(spec key `abstract_classes`: `ransacModel_` is one opaque leaf; a const virtual method is `σ → args → ret`, a non-const one
`σ → args → σ × ret`), the local `RansacIterations` object through its translated constructor / `update` / `get`, the anonymous-namespace
constant `MAXIMAL_NUMBER_OF_ITERATIONS`, the `while` loop as a recursive function on fuel, and the `size_t → float → size_t` conversions
of `float numberOfInliers = countInliers(…)` as `IntCast` / `Trunc.trunc` at a second scalar type `φ` (`float`).

The model works over `Nat` and rounds counts with `f32round`; the translation goes through `Int` and the scalar type `φ`. They agree under
* `hcast` — an integer that is a natural number converts to the same `double` either way (as in `Bridge/C06.lean`);
* `F32Conv φ B` — below the bound `B`, `φ` converts natural numbers like IEEE binary32: `(size_t)(float) n = f32round n` and
  `(float) a < (float) b ↔ f32round a < f32round b`; every count the model returns is below `B`, and `B` is closed under `f32round`
  (`B = 2^24`: no rounding at all — then the hypotheses are theorems at `ℝ`, `Bridge/C06RansacCor.lean`; true, not provable, for Lean's opaque
  `Float32` with `B = 2^24` or any `B ≤ 2^63`);
* `UpdOK` — the truncated quotient in `RansacIterations::update` is non-negative for the constructed `log(1 - p)` and `1 / n` (a negative
  one is undefined behaviour of the C++ conversion to `size_t`).

`loop_bridge`: the translated loop function and the model's `loop` run in lockstep (same fuel; `none` ↔ the model's `exited = false`).
`estimateModel_bridge`: the translated function with fuel `MAXIMAL_NUMBER_OF_ITERATIONS + 1` returns `none` iff the model reports
`diverged`, and otherwise the model's return flag and final model state. Core Lean only.
-/
set_option linter.unusedSectionVars false

namespace Romea.Bridge.C06
open Romea Romea.Ransac Romea.Rotation

/-- below `B` the scalar type `φ` (C++ `float`) converts natural numbers like IEEE binary32 -/
structure F32Conv (φ : Type) [LT φ] [IntCast φ] [Trunc φ] (B : Nat) : Prop where
  /-- `size_t k = (float) n` -/
  trunc_cast : ∀ n : Nat, n < B → Trunc.trunc ((((n : Nat) : Int)) : φ) = ((f32round n : Nat) : Int)
  /-- `(float) a < (float) b` -/
  lt_cast : ∀ a b : Nat, a < B → b < B → (((((a : Nat) : Int)) : φ) < ((((b : Nat) : Int)) : φ) ↔ f32round a < f32round b)

section
variable {φ δ σ : Type} [LT φ] [DecidableLT φ] [IntCast φ] [Trunc φ]
  [Sub δ] [Mul δ] [Div δ] [LT δ] [DecidableLT δ] [NatCast δ] [IntCast δ] [Trans δ] [Trunc δ] [Limits δ]

/-- the truncated quotient of `RansacIterations::update` is non-negative whatever the inlier count (`L` = `log(1 - p)`, `O` = `1 / n`) -/
def UpdOK (L O : δ) (nDraw : Nat) : Prop :=
  ∀ nInl : Nat, 0 ≤ Trunc.trunc (L / Trans.log
    (stdMin (one - (Limits.eps : δ)) (stdMax (Limits.eps : δ) (one - Trans.pow ((nInl : δ) * O) (nDraw : δ)))))

/-- the model's `ModelOps` for a `RansacModel` given by its six virtual methods (`draw` / `countInliers` take the deviation) -/
def mkOps (count : σ → δ → σ × Nat) (draw : σ → δ → σ × Bool) (minInl nPts nDraw : σ → Nat) (refine : σ → σ) (dev : δ) :
    ModelOps σ :=
  { nPts := nPts, nDraw := nDraw, minInl := minInl, draw := fun s => draw s dev, count := fun s => count s dev, refine := refine }

/-- `size_t countInliers(…)` as the translated function sees it: the count as an `Int` -/
def intCount (count : σ → δ → σ × Nat) : σ → δ → σ × Int := fun s d => ((count s d).1, (((count s d).2 : Nat) : Int))

/-- a `size_t` getter as the translated function sees it -/
def intGet (f : σ → Nat) : σ → Int := fun s => ((f s : Nat) : Int)

/-- the loop-carried tuple of the translated loop that corresponds to a model `Run` -/
def encRun (r : Run σ δ) : Int × Int × δ × σ := (((r.best : Nat) : Int), ((r.iteration : Nat) : Int), r.it.n, r.s)

/-- what one pass of the translated loop body computes for (bestNumberOfInliers, numberOfIterations_, model state) -/
def srcBody (count : σ → δ → σ × Nat) (draw : σ → δ → σ × Bool) (dev : δ) (nDraw : Nat) (r : Run σ δ) : Int × δ × σ :=
  if (draw r.s dev).2 = true then
    (let m : Int × δ :=
      if ((((r.best : Nat) : Int)) : φ) < (((intCount count (draw r.s dev).1 dev).2 : Int) : φ) then
        (Trunc.trunc ((((intCount count (draw r.s dev).1 dev).2 : Int)) : φ),
          Src.C06.RansacIterations.update r.it.logOpp (Trunc.trunc ((((intCount count (draw r.s dev).1 dev).2 : Int)) : φ)) r.it.n
            (nDraw : Int) r.it.oneOverN)
      else (((r.best : Nat) : Int), r.it.n)
     (m.1, m.2, (intCount count (draw r.s dev).1 dev).1))
  else (((r.best : Nat) : Int), r.it.n, (draw r.s dev).1)

/-- one pass of the body: the translated values are those of the model's `body`; the bound on `best` and the two constant members of
    the iteration object are kept -/
theorem body_bridge (hcast : ∀ n : Nat, (((n : Nat) : Int) : δ) = ((n : Nat) : δ)) (B : Nat) (hF : F32Conv φ B)
    (hB : ∀ n : Nat, n < B → f32round n < B) (count : σ → δ → σ × Nat) (draw : σ → δ → σ × Bool) (minInl nPts nDrawF : σ → Nat)
    (refine : σ → σ) (dev : δ) (hcnt : ∀ s d, (count s d).2 < B) (nDraw : Nat) (r : Run σ δ) (hb : r.best < B)
    (hU : UpdOK r.it.logOpp r.it.oneOverN nDraw) :
    (body (mkOps count draw minInl nPts nDrawF refine dev) (Limits.eps : δ) nDraw r).best < B ∧
    (body (mkOps count draw minInl nPts nDrawF refine dev) (Limits.eps : δ) nDraw r).it.logOpp = r.it.logOpp ∧
    (body (mkOps count draw minInl nPts nDrawF refine dev) (Limits.eps : δ) nDraw r).it.oneOverN = r.it.oneOverN ∧
    (body (mkOps count draw minInl nPts nDrawF refine dev) (Limits.eps : δ) nDraw r).iteration = r.iteration + 1 ∧
    srcBody (φ := φ) count draw dev nDraw r =
      ((((body (mkOps count draw minInl nPts nDrawF refine dev) (Limits.eps : δ) nDraw r).best : Nat) : Int),
        (body (mkOps count draw minInl nPts nDrawF refine dev) (Limits.eps : δ) nDraw r).it.n,
        (body (mkOps count draw minInl nPts nDrawF refine dev) (Limits.eps : δ) nDraw r).s) := by
  unfold body srcBody mkOps intCount
  simp only
  by_cases hd : (draw r.s dev).2 = true
  · have hc := hcnt (draw r.s dev).1 dev
    have hlt := hF.lt_cast _ _ hb hc
    have htr := hF.trunc_cast _ hc
    by_cases h : f32round r.best < f32round (count (draw r.s dev).1 dev).2
    · have h' := hlt.mpr h
      simp only [hd, if_true, h, h', htr]
      refine ⟨?_, ?_, ?_, ?_, ?_⟩
      · exact hB _ hc
      · trivial
      · trivial
      · trivial
      · rw [update_bridge hcast r.it (f32round (count (draw r.s dev).1 dev).2) nDraw (hU _)]
    · have h' : ¬ ((((r.best : Nat) : Int) : φ) < ((((count (draw r.s dev).1 dev).2 : Nat) : Int) : φ)) := fun hh => h (hlt.mp hh)
      simp only [hd, if_true, h, h', if_false]
      exact ⟨hb, trivial, trivial, trivial, trivial⟩
  · simp only [hd, if_false, Bool.false_eq_true]
    exact ⟨hb, trivial, trivial, trivial, trivial⟩

/-- **The translated `while` loop and the model's `loop` run in lockstep.** Same fuel on both sides; the translated function returns
    `none` exactly when the model's run ends with `exited = false` (fuel exhausted), and otherwise the model's final
    `(bestNumberOfInliers, iteration, numberOfIterations_, model state)` -/
theorem loop_bridge (hcast : ∀ n : Nat, (((n : Nat) : Int) : δ) = ((n : Nat) : δ)) (B : Nat) (hF : F32Conv φ B)
    (hB : ∀ n : Nat, n < B → f32round n < B) (count : σ → δ → σ × Nat) (draw : σ → δ → σ × Bool) (minInl nPts nDrawF : σ → Nat)
    (refine : σ → σ) (dev : δ) (hcnt : ∀ s d, (count s d).2 < B) (nDraw : Nat) (L O : δ) (hU : UpdOK L O nDraw) (fuel : Nat) :
    ∀ (r : Run σ δ), r.best < B → r.it.logOpp = L → r.it.oneOverN = O →
      Src.C06.Ransac.estimateModel.loop1 (α := φ) (intCount count) draw dev (nDraw : Int) L O fuel
          ((r.best : Nat) : Int) ((r.iteration : Nat) : Int) r.it.n r.s
        = (if (loop (mkOps count draw minInl nPts nDrawF refine dev) (Limits.eps : δ) nDraw fuel r).exited = true
           then some (encRun (loop (mkOps count draw minInl nPts nDrawF refine dev) (Limits.eps : δ) nDraw fuel r)) else none) := by
  induction fuel with
  | zero => intro r _ _ _; rfl
  | succ k ih =>
    intro r hb hL hO
    unfold Src.C06.Ransac.estimateModel.loop1 loop
    rw [hcast, get_bridge]
    by_cases hc : (r.iteration : δ) < r.it.n
    · rw [if_pos hc, if_pos hc]
      obtain ⟨hb', hL', hO', hit, hs⟩ := body_bridge (φ := φ) hcast B hF hB count draw minInl nPts nDrawF refine dev hcnt nDraw r hb
        (by rw [hL, hO]; exact hU)
      have hs' := hs
      unfold srcBody at hs'
      simp only at hs'
      rw [hL, hO] at hs'
      have hi : ((r.iteration : Nat) : Int) + 1
          = (((body (mkOps count draw minInl nPts nDrawF refine dev) (Limits.eps : δ) nDraw r).iteration : Nat) : Int) := by
        rw [hit]; omega
      simp only
      rw [hs', hi]
      exact ih _ hb' (by rw [hL', hL]) (by rw [hO', hO])
    · rw [if_neg hc, if_neg hc]
      rfl

/-- the source's iteration cap -/
theorem max_iterations_bridge : Src.C06.MAXIMAL_NUMBER_OF_ITERATIONS = ((1000 : Nat) : Int) := rfl

/-- lines 78-83 of `Ransac.cpp` in the model: the result after the loop -/
def modelTail (refine : σ → σ) (nD : Nat) (R : Run σ δ) : Result σ δ :=
  if R.best ≤ nD then
    { s := R.s, ret := false, iterations := R.iteration, best := R.best, bound := R.it.n, diverged := !R.exited }
  else
    { s := refine R.s, ret := true, iterations := R.iteration, best := R.best, bound := R.it.n, diverged := !R.exited }

/-- the model's `estimateModel` on `mkOps`, written out -/
theorem model_estimate_eq (count : σ → δ → σ × Nat) (draw : σ → δ → σ × Bool) (minInl nPts nDraw : σ → Nat) (refine : σ → σ)
    (dev p eps : δ) (cap : Nat) (s : σ) :
    Ransac.estimateModel (mkOps count draw minInl nPts nDraw refine dev) p eps cap s =
      if nPts s < minInl s then
        { s := s, ret := false, iterations := 0, best := 0, bound := (cap : δ), diverged := false }
      else modelTail refine (nDraw s) (loop (mkOps count draw minInl nPts nDraw refine dev) eps (nDraw s) (cap + 1)
        { s := s, iteration := 0, best := 0, it := Iterations.init p (nPts s) cap, exited := false }) := rfl

/-- **`Ransac::estimateModel` as translated from today's source = the model's `estimateModel`.** For a `RansacModel` given by its six
    virtual methods (any state type `σ`), the stored `fittingProbability_` (a `double`; the `RansacIterations` constructor takes it as
    `const float &`, hence `up (down fp)`) and `modelErrorDeviation_`: with fuel `MAXIMAL_NUMBER_OF_ITERATIONS + 1 = 1001` (the model's
    own fuel) the translated function returns `none` iff the model reports `diverged`, and otherwise exactly the model's return flag and
    final model state (every `draw` / `countInliers` / `refine` call applied in the same order to the same states) -/
theorem estimateModel_bridge [DoubleConv φ δ] (hcast : ∀ n : Nat, (((n : Nat) : Int) : δ) = ((n : Nat) : δ)) (B : Nat) (hF : F32Conv φ B)
    (hB : ∀ n : Nat, n < B → f32round n < B) (hB0 : 0 < B) (count : σ → δ → σ × Nat) (draw : σ → δ → σ × Bool)
    (minInl nPts nDraw : σ → Nat) (refine : σ → σ) (dev fp : δ) (hcnt : ∀ s d, (count s d).2 < B) (s : σ)
    (hU : UpdOK (Trans.log (one - (DoubleConv.up (DoubleConv.down fp : φ) : δ))) (one / ((nPts s : Nat) : δ)) (nDraw s)) :
    Src.C06.Ransac.estimateModel (α := φ) 1001 (intCount count) draw fp (intGet minInl) (intGet nPts) (intGet nDraw) dev s refine
      = (if (Ransac.estimateModel (mkOps count draw minInl nPts nDraw refine dev) (DoubleConv.up (DoubleConv.down fp : φ) : δ)
              (Limits.eps : δ) 1000 s).diverged = true then none
         else some ((Ransac.estimateModel (mkOps count draw minInl nPts nDraw refine dev) (DoubleConv.up (DoubleConv.down fp : φ) : δ)
              (Limits.eps : δ) 1000 s).ret,
            (Ransac.estimateModel (mkOps count draw minInl nPts nDraw refine dev) (DoubleConv.up (DoubleConv.down fp : φ) : δ)
              (Limits.eps : δ) 1000 s).s)) := by
  rw [model_estimate_eq]
  unfold Src.C06.Ransac.estimateModel intGet
  simp only [Int.ofNat_lt]
  by_cases h1 : nPts s < minInl s
  · simp only [h1, if_true]
    rfl
  · simp only [h1, if_false]
    rw [max_iterations_bridge, ctor_bridge hcast]
    simp only
    have hl := loop_bridge (φ := φ) hcast B hF hB count draw minInl nPts nDraw refine dev hcnt (nDraw s)
      (Iterations.init (DoubleConv.up (DoubleConv.down fp : φ) : δ) (nPts s) 1000).logOpp
      (Iterations.init (DoubleConv.up (DoubleConv.down fp : φ) : δ) (nPts s) 1000).oneOverN hU 1001
      { s := s, iteration := 0, best := 0, it := Iterations.init (DoubleConv.up (DoubleConv.down fp : φ) : δ) (nPts s) 1000,
        exited := false } hB0 rfl rfl
    simp only [Int.natCast_zero] at hl
    rw [hl]
    generalize loop (α := δ) (S := σ) _ _ _ _ _ = R
    unfold modelTail
    cases hx : R.exited
    · simp only [Bool.false_eq_true, if_false]
      split <;> rfl
    · simp only [if_true, encRun, Int.ofNat_le]
      by_cases h2 : R.best ≤ nDraw s
      · simp only [h2, if_true, hx]
        rfl
      · simp only [h2, if_false, hx]
        rfl

end
end Romea.Bridge.C06
