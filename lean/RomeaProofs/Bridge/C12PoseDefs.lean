import RomeaModel.Derivatives
import RomeaModel.Generated.SrcC12

/-!
# Bridge C12, part 3 (definitions): `operator*(const Eigen::Affine3d &, const Pose3D &)` AS TRANSLATED FROM TODAY'S SOURCE = the model's `poseMul`

`Romea.Src.C12.operator_mul_pose` is regenerated on every check run from `src/geometry/Pose3D.cpp:67-124` (with the `SmartRotation3D`
constructor / `init` of `SmartRotation3D.cpp` and `rotation3DToEulerAngles` / `between0And2Pi` of `EulerAngles.hpp` as translated callees).
`affine.rotation()` (Eigen: rotation of the polar decomposition of the linear part, computed by an SVD) is an ORACLE: nine uninterpreted
functions `Transform_rotation_i_j` of the nine coefficients of `affine.linear()`; the bridge instantiates them with the model's parameter
`rotOf` (`rotO`).  `std::fmod` is mapped to the model's `Pose.fmod` on both sides.  The translated function returns the 36 entries of the
propagated covariance `J C Jᵀ`, the three Euler angles and the position (42 scalars, in that order).

`pose_bridge`: for EVERY scalar type, `rfl` after unfolding — position `R p + T`, the Euler angles of `R · Rz Ry Rx`, and all 36
covariance entries (hence every entry of the 6 × 6 Jacobian: the block `R`, the nine chain-rule quotients through `atan2 / asin` with the
hand-written elementary rotations and their derivatives, the zero blocks) agree with the model term by term, in Eigen's left-to-right
evaluation order.  Core Lean only.
-/
set_option linter.unusedSectionVars false
set_option maxRecDepth 100000

namespace Romea.Bridge.C12
open Romea Romea.Pose Romea.Deriv

variable {α : Type} [Add α] [Sub α] [Mul α] [Div α] [Neg α] [LT α] [DecidableLT α] [NatCast α] [Trans α]

/-- a 3 × 3 matrix from its nine entries, row by row -/
def m33 (a00 a01 a02 a10 a11 a12 a20 a21 a22 : α) : Mat 3 3 α := fun i j =>
  match i, j with
  | 0, 0 => a00 | 0, 1 => a01 | 0, 2 => a02
  | 1, 0 => a10 | 1, 1 => a11 | 1, 2 => a12
  | 2, 0 => a20 | 2, 1 => a21 | 2, 2 => a22

/-- coefficient `(i, j)` of `affine.rotation()` as a function of the nine coefficients of `affine.linear()`: the model's oracle -/
def rotO (rotOf : Mat 3 3 α → Mat 3 3 α) (i j : Fin 3) : α → α → α → α → α → α → α → α → α → α :=
  fun a00 a01 a02 a10 a11 a12 a20 a21 a22 => rotOf (m33 a00 a01 a02 a10 a11 a12 a20 a21 a22) i j

/-- the 42 scalars the translated function returns, read off the model's result -/
def flatPose (r : VTab 3 α × VTab 3 α × Tab 6 6 α × Tab 6 6 α) :=
  let c := r.2.2.1.get
  (c 0 0, c 0 1, c 0 2, c 0 3, c 0 4, c 0 5, c 1 0, c 1 1, c 1 2, c 1 3, c 1 4, c 1 5, c 2 0, c 2 1, c 2 2, c 2 3, c 2 4, c 2 5,
   c 3 0, c 3 1, c 3 2, c 3 3, c 3 4, c 3 5, c 4 0, c 4 1, c 4 2, c 4 3, c 4 4, c 4 5, c 5 0, c 5 1, c 5 2, c 5 3, c 5 4, c 5 5,
   r.2.1.get 0, r.2.1.get 1, r.2.1.get 2, r.1.get 0, r.1.get 1, r.1.get 2)

end Romea.Bridge.C12
