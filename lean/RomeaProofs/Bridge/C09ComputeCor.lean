import RomeaProofs.Bridge.C09Compute
import RomeaProofs.Bridge.C09Cor

/-!
# Bridge C09, part 4: the translated `compute` loops in terms of the model, and the property about them

* `src_compute_r_<type>_report` (EVERY scalar type, under the algebraic identities `h0`, `hneg`, `h11` of `Bridge/C09.lean`): feed the translated
  `compute(points, pointsKdTree, normals, curvatures, normalsReliability)` with decompositions `E i` — standing for what the oracle
  `planeEstimation_` leaves for point `i` — and points `P i`: it returns, index by index, the `curvature`, `normal` (and `w`) and `reliability`
  of the model's `report hom (E i) (P i)`.  With `E i := eig (covTab (nb i))` this is the model's `estimate hom eig (nb i) (P i)`
  (`C09.estimate_eq_report`), i.e. entry `i` of `computeAll` / `computeS`.
* `src_compute_r_v3d_meets_property`, `src_compute_r_h3d_meets_property` (ℝ): **unit**, **faces_sensor**, **curvature_range** of
  `Properties/C09.lean` about the vectors RETURNED BY THE TRANSLATED `compute`, for every eigen-solver oracle meeting `IsEigSym` on the
  neighbourhood covariances.
The k-NN query and the eigen-solver stay oracles on both sides (as in the model); the overloads that build their own kd-tree
(`compute(points, normals, …)`: a `KdTree` constructor and a forwarding call) are not translated.
-/
set_option linter.unusedSectionVars false
set_option linter.unusedVariables false
set_option linter.unusedSimpArgs false
namespace Romea.Bridge.C09
open Romea Romea.Normals Romea.C09

section
variable {α : Type} [Add α] [Sub α] [Mul α] [Div α] [Neg α] [LT α] [DecidableLT α] [NatCast α] [Trans α]

/-- `compute(points, pointsKdTree, normals, curvatures, normalsReliability)` for `v2f` as translated, fed with the decompositions `E i`
    (what `planeEstimation_` leaves for point `i`) and the points `P i`: entry `i` of the three output vectors is the `curvature`, the
    `normal` and the `reliability` of the model's `report false (E i) (P i)` -/
theorem src_compute_r_v2f_report (h0 : ∀ x : α, zero + x = x) (hneg : ∀ x : α, x * (-((1 : Nat) : α)) = -x) (N : Nat)
    (E : Nat → EigSym 2 α) (P : Nat → Vec 2 α) (curv : List α) (a0 a1 b00 b01 b10 b11 : α) (normals : List (α × α)) (rel : List α)
    (h1 : curv.length = N) (h2 : normals.length = N) (h3 : rel.length = N) :
    (Src.C09.NormalAndCurvatureEstimation.compute_r_v2f curv a0 a1 b00 b01 b10 b11 normals rel (fun i => (E i.toNat).vals 0) (fun i => (E i.toNat).vals 1) (fun i => (E i.toNat).vecs 0 0) (fun i => (E i.toNat).vecs 0 1) (fun i => (E i.toNat).vecs 1 0) (fun i => (E i.toNat).vecs 1 1)
        ((List.range N).map fun i => (P i 0, P i 1))).map (fun r => (r.1, r.2.2.2.2.2.2.2.1, r.2.2.2.2.2.2.2.2))
      = some ((List.range N).map (fun i => (report false (E i) (P i)).curvature), (List.range N).map (fun i => ((report false (E i) (P i)).normal 0, (report false (E i) (P i)).normal 1)),
          (List.range N).map (fun i => (report false (E i) (P i)).reliability)) := by
  have hlen : ((List.range N).map fun i => (P i 0, P i 1)).length = N := by simp
  rw [compute_r_v2f_bridge _ _ _ _ _ _  _ (((0 : Nat) : α), ((0 : Nat) : α)) curv a0 a1 b00 b01 b10 b11 normals rel (by rw [hlen]; exact h1) (by rw [hlen]; exact h2) (by rw [hlen]; exact h3)]
  rw [hlen]
  have hget : ∀ i, i < N → ((List.range N).map fun i => (P i 0, P i 1)).getD i (((0 : Nat) : α), ((0 : Nat) : α)) = (P i 0, P i 1) := by
    intro i hi
    simp [List.getD_eq_getElem?_getD, hi]
  congr 2
  · apply List.map_congr_left
    intro i hi
    simp only [Int.toNat_natCast, report, sumFin, List.finRange_succ, List.finRange_zero, List.map_cons, List.map_nil, lsum2 h0, Fin.succ_zero_eq_one, Fin.succ_one_eq_two, Fin.isValue]
  · congr 1
    · apply List.map_congr_left
      intro i hi
      rw [hget i (List.mem_range.mp hi)]
      simp only [Int.toNat_natCast]
      rw [flip_v2f_bridge h0 hneg (P i) (fun j => (E i).vecs j 0)]
      simp only [report, flipped]
      all_goals (first | rfl | (split <;> rfl))


/-- `compute(points, pointsKdTree, normals, curvatures, normalsReliability)` for `v2d` as translated, fed with the decompositions `E i`
    (what `planeEstimation_` leaves for point `i`) and the points `P i`: entry `i` of the three output vectors is the `curvature`, the
    `normal` and the `reliability` of the model's `report false (E i) (P i)` -/
theorem src_compute_r_v2d_report (h0 : ∀ x : α, zero + x = x) (hneg : ∀ x : α, x * (-((1 : Nat) : α)) = -x) (N : Nat)
    (E : Nat → EigSym 2 α) (P : Nat → Vec 2 α) (curv : List α) (a0 a1 b00 b01 b10 b11 : α) (normals : List (α × α)) (rel : List α)
    (h1 : curv.length = N) (h2 : normals.length = N) (h3 : rel.length = N) :
    (Src.C09.NormalAndCurvatureEstimation.compute_r_v2d curv a0 a1 b00 b01 b10 b11 normals rel (fun i => (E i.toNat).vals 0) (fun i => (E i.toNat).vals 1) (fun i => (E i.toNat).vecs 0 0) (fun i => (E i.toNat).vecs 0 1) (fun i => (E i.toNat).vecs 1 0) (fun i => (E i.toNat).vecs 1 1)
        ((List.range N).map fun i => (P i 0, P i 1))).map (fun r => (r.1, r.2.2.2.2.2.2.2.1, r.2.2.2.2.2.2.2.2))
      = some ((List.range N).map (fun i => (report false (E i) (P i)).curvature), (List.range N).map (fun i => ((report false (E i) (P i)).normal 0, (report false (E i) (P i)).normal 1)),
          (List.range N).map (fun i => (report false (E i) (P i)).reliability)) := by
  have hlen : ((List.range N).map fun i => (P i 0, P i 1)).length = N := by simp
  rw [compute_r_v2d_bridge _ _ _ _ _ _  _ (((0 : Nat) : α), ((0 : Nat) : α)) curv a0 a1 b00 b01 b10 b11 normals rel (by rw [hlen]; exact h1) (by rw [hlen]; exact h2) (by rw [hlen]; exact h3)]
  rw [hlen]
  have hget : ∀ i, i < N → ((List.range N).map fun i => (P i 0, P i 1)).getD i (((0 : Nat) : α), ((0 : Nat) : α)) = (P i 0, P i 1) := by
    intro i hi
    simp [List.getD_eq_getElem?_getD, hi]
  congr 2
  · apply List.map_congr_left
    intro i hi
    simp only [Int.toNat_natCast, report, sumFin, List.finRange_succ, List.finRange_zero, List.map_cons, List.map_nil, lsum2 h0, Fin.succ_zero_eq_one, Fin.succ_one_eq_two, Fin.isValue]
  · congr 1
    · apply List.map_congr_left
      intro i hi
      rw [hget i (List.mem_range.mp hi)]
      simp only [Int.toNat_natCast]
      rw [flip_v2d_bridge h0 hneg (P i) (fun j => (E i).vecs j 0)]
      simp only [report, flipped]
      all_goals (first | rfl | (split <;> rfl))


/-- `compute(points, pointsKdTree, normals, curvatures, normalsReliability)` for `v3f` as translated, fed with the decompositions `E i`
    (what `planeEstimation_` leaves for point `i`) and the points `P i`: entry `i` of the three output vectors is the `curvature`, the
    `normal` and the `reliability` of the model's `report false (E i) (P i)` -/
theorem src_compute_r_v3f_report (h0 : ∀ x : α, zero + x = x) (hneg : ∀ x : α, x * (-((1 : Nat) : α)) = -x) (N : Nat)
    (E : Nat → EigSym 3 α) (P : Nat → Vec 3 α) (curv : List α) (a0 a1 a2 b00 b01 b02 b10 b11 b12 b20 b21 b22 : α) (normals : List (α × α × α)) (rel : List α)
    (h1 : curv.length = N) (h2 : normals.length = N) (h3 : rel.length = N) :
    (Src.C09.NormalAndCurvatureEstimation.compute_r_v3f curv a0 a1 a2 b00 b01 b02 b10 b11 b12 b20 b21 b22 normals rel (fun i => (E i.toNat).vals 0) (fun i => (E i.toNat).vals 1) (fun i => (E i.toNat).vals 2) (fun i => (E i.toNat).vecs 0 0) (fun i => (E i.toNat).vecs 0 1) (fun i => (E i.toNat).vecs 0 2) (fun i => (E i.toNat).vecs 1 0) (fun i => (E i.toNat).vecs 1 1) (fun i => (E i.toNat).vecs 1 2) (fun i => (E i.toNat).vecs 2 0) (fun i => (E i.toNat).vecs 2 1) (fun i => (E i.toNat).vecs 2 2)
        ((List.range N).map fun i => (P i 0, P i 1, P i 2))).map (fun r => (r.1, r.2.2.2.2.2.2.2.2.2.2.2.2.2.1, r.2.2.2.2.2.2.2.2.2.2.2.2.2.2))
      = some ((List.range N).map (fun i => (report false (E i) (P i)).curvature), (List.range N).map (fun i => ((report false (E i) (P i)).normal 0, (report false (E i) (P i)).normal 1, (report false (E i) (P i)).normal 2)),
          (List.range N).map (fun i => (report false (E i) (P i)).reliability)) := by
  have hlen : ((List.range N).map fun i => (P i 0, P i 1, P i 2)).length = N := by simp
  rw [compute_r_v3f_bridge _ _ _ _ _ _ _ _ _ _ _ _ _ (((0 : Nat) : α), ((0 : Nat) : α), ((0 : Nat) : α)) curv a0 a1 a2 b00 b01 b02 b10 b11 b12 b20 b21 b22 normals rel (by rw [hlen]; exact h1) (by rw [hlen]; exact h2) (by rw [hlen]; exact h3)]
  rw [hlen]
  have hget : ∀ i, i < N → ((List.range N).map fun i => (P i 0, P i 1, P i 2)).getD i (((0 : Nat) : α), ((0 : Nat) : α), ((0 : Nat) : α)) = (P i 0, P i 1, P i 2) := by
    intro i hi
    simp [List.getD_eq_getElem?_getD, hi]
  congr 2
  · apply List.map_congr_left
    intro i hi
    simp only [Int.toNat_natCast, report, sumFin, List.finRange_succ, List.finRange_zero, List.map_cons, List.map_nil, lsum3 h0, Fin.succ_zero_eq_one, Fin.succ_one_eq_two, Fin.isValue]
  · congr 1
    · apply List.map_congr_left
      intro i hi
      rw [hget i (List.mem_range.mp hi)]
      simp only [Int.toNat_natCast]
      rw [flip_v3f_bridge h0 hneg (P i) (fun j => (E i).vecs j 0)]
      simp only [report, flipped]
      all_goals (first | rfl | (split <;> rfl))


/-- `compute(points, pointsKdTree, normals, curvatures, normalsReliability)` for `v3d` as translated, fed with the decompositions `E i`
    (what `planeEstimation_` leaves for point `i`) and the points `P i`: entry `i` of the three output vectors is the `curvature`, the
    `normal` and the `reliability` of the model's `report false (E i) (P i)` -/
theorem src_compute_r_v3d_report (h0 : ∀ x : α, zero + x = x) (hneg : ∀ x : α, x * (-((1 : Nat) : α)) = -x) (N : Nat)
    (E : Nat → EigSym 3 α) (P : Nat → Vec 3 α) (curv : List α) (a0 a1 a2 b00 b01 b02 b10 b11 b12 b20 b21 b22 : α) (normals : List (α × α × α)) (rel : List α)
    (h1 : curv.length = N) (h2 : normals.length = N) (h3 : rel.length = N) :
    (Src.C09.NormalAndCurvatureEstimation.compute_r_v3d curv a0 a1 a2 b00 b01 b02 b10 b11 b12 b20 b21 b22 normals rel (fun i => (E i.toNat).vals 0) (fun i => (E i.toNat).vals 1) (fun i => (E i.toNat).vals 2) (fun i => (E i.toNat).vecs 0 0) (fun i => (E i.toNat).vecs 0 1) (fun i => (E i.toNat).vecs 0 2) (fun i => (E i.toNat).vecs 1 0) (fun i => (E i.toNat).vecs 1 1) (fun i => (E i.toNat).vecs 1 2) (fun i => (E i.toNat).vecs 2 0) (fun i => (E i.toNat).vecs 2 1) (fun i => (E i.toNat).vecs 2 2)
        ((List.range N).map fun i => (P i 0, P i 1, P i 2))).map (fun r => (r.1, r.2.2.2.2.2.2.2.2.2.2.2.2.2.1, r.2.2.2.2.2.2.2.2.2.2.2.2.2.2))
      = some ((List.range N).map (fun i => (report false (E i) (P i)).curvature), (List.range N).map (fun i => ((report false (E i) (P i)).normal 0, (report false (E i) (P i)).normal 1, (report false (E i) (P i)).normal 2)),
          (List.range N).map (fun i => (report false (E i) (P i)).reliability)) := by
  have hlen : ((List.range N).map fun i => (P i 0, P i 1, P i 2)).length = N := by simp
  rw [compute_r_v3d_bridge _ _ _ _ _ _ _ _ _ _ _ _ _ (((0 : Nat) : α), ((0 : Nat) : α), ((0 : Nat) : α)) curv a0 a1 a2 b00 b01 b02 b10 b11 b12 b20 b21 b22 normals rel (by rw [hlen]; exact h1) (by rw [hlen]; exact h2) (by rw [hlen]; exact h3)]
  rw [hlen]
  have hget : ∀ i, i < N → ((List.range N).map fun i => (P i 0, P i 1, P i 2)).getD i (((0 : Nat) : α), ((0 : Nat) : α), ((0 : Nat) : α)) = (P i 0, P i 1, P i 2) := by
    intro i hi
    simp [List.getD_eq_getElem?_getD, hi]
  congr 2
  · apply List.map_congr_left
    intro i hi
    simp only [Int.toNat_natCast, report, sumFin, List.finRange_succ, List.finRange_zero, List.map_cons, List.map_nil, lsum3 h0, Fin.succ_zero_eq_one, Fin.succ_one_eq_two, Fin.isValue]
  · congr 1
    · apply List.map_congr_left
      intro i hi
      rw [hget i (List.mem_range.mp hi)]
      simp only [Int.toNat_natCast]
      rw [flip_v3d_bridge h0 hneg (P i) (fun j => (E i).vecs j 0)]
      simp only [report, flipped]
      all_goals (first | rfl | (split <;> rfl))


/-- `compute(points, pointsKdTree, normals, curvatures, normalsReliability)` for `h2f` as translated, fed with the decompositions `E i`
    (what `planeEstimation_` leaves for point `i`) and the points `P i`: entry `i` of the three output vectors is the `curvature`, the
    `normal` (with its homogeneous coordinate `w`) and the `reliability` of the model's `report true (E i) (P i)` -/
theorem src_compute_r_h2f_report (h0 : ∀ x : α, zero + x = x) (hneg : ∀ x : α, x * (-((1 : Nat) : α)) = -x) (h11 : ((1 : Nat) : α) * ((1 : Nat) : α) = ((1 : Nat) : α)) (N : Nat)
    (E : Nat → EigSym 2 α) (P : Nat → Vec 2 α) (curv : List α) (a0 a1 b00 b01 b10 b11 : α) (normals : List (α × α × α)) (rel : List α)
    (h1 : curv.length = N) (h2 : normals.length = N) (h3 : rel.length = N) :
    (Src.C09.NormalAndCurvatureEstimation.compute_r_h2f curv a0 a1 b00 b01 b10 b11 normals rel (fun i => (E i.toNat).vals 0) (fun i => (E i.toNat).vals 1) (fun i => (E i.toNat).vecs 0 0) (fun i => (E i.toNat).vecs 0 1) (fun i => (E i.toNat).vecs 1 0) (fun i => (E i.toNat).vecs 1 1)
        ((List.range N).map fun i => (P i 0, P i 1, ((1 : Nat) : α)))).map (fun r => (r.1, r.2.2.2.2.2.2.2.1, r.2.2.2.2.2.2.2.2))
      = some ((List.range N).map (fun i => (report true (E i) (P i)).curvature), (List.range N).map (fun i => ((report true (E i) (P i)).normal 0, (report true (E i) (P i)).normal 1, (report true (E i) (P i)).w)),
          (List.range N).map (fun i => (report true (E i) (P i)).reliability)) := by
  have hlen : ((List.range N).map fun i => (P i 0, P i 1, ((1 : Nat) : α))).length = N := by simp
  rw [compute_r_h2f_bridge _ _ _ _ _ _  _ (((0 : Nat) : α), ((0 : Nat) : α), ((0 : Nat) : α)) (((0 : Nat) : α), ((0 : Nat) : α), ((0 : Nat) : α)) curv a0 a1 b00 b01 b10 b11 normals rel (by rw [hlen]; exact h1) (by rw [hlen]; exact h2) (by rw [hlen]; exact h3)]
  rw [hlen]
  have hget : ∀ i, i < N → ((List.range N).map fun i => (P i 0, P i 1, ((1 : Nat) : α))).getD i (((0 : Nat) : α), ((0 : Nat) : α), ((0 : Nat) : α)) = (P i 0, P i 1, ((1 : Nat) : α)) := by
    intro i hi
    simp [List.getD_eq_getElem?_getD, hi]
  congr 2
  · apply List.map_congr_left
    intro i hi
    simp only [Int.toNat_natCast, report, sumFin, List.finRange_succ, List.finRange_zero, List.map_cons, List.map_nil, lsum2 h0, Fin.succ_zero_eq_one, Fin.succ_one_eq_two, Fin.isValue]
  · congr 1
    · apply List.map_congr_left
      intro i hi
      rw [hget i (List.mem_range.mp hi)]
      simp only [Int.toNat_natCast]
      rw [flip_h2f_bridge h0 hneg h11 (P i) (fun j => (E i).vecs j 0)]
      simp only [report, flipped, flippedW]
      all_goals (first | rfl | (split <;> rfl))


/-- `compute(points, pointsKdTree, normals, curvatures, normalsReliability)` for `h2d` as translated, fed with the decompositions `E i`
    (what `planeEstimation_` leaves for point `i`) and the points `P i`: entry `i` of the three output vectors is the `curvature`, the
    `normal` (with its homogeneous coordinate `w`) and the `reliability` of the model's `report true (E i) (P i)` -/
theorem src_compute_r_h2d_report (h0 : ∀ x : α, zero + x = x) (hneg : ∀ x : α, x * (-((1 : Nat) : α)) = -x) (h11 : ((1 : Nat) : α) * ((1 : Nat) : α) = ((1 : Nat) : α)) (N : Nat)
    (E : Nat → EigSym 2 α) (P : Nat → Vec 2 α) (curv : List α) (a0 a1 b00 b01 b10 b11 : α) (normals : List (α × α × α)) (rel : List α)
    (h1 : curv.length = N) (h2 : normals.length = N) (h3 : rel.length = N) :
    (Src.C09.NormalAndCurvatureEstimation.compute_r_h2d curv a0 a1 b00 b01 b10 b11 normals rel (fun i => (E i.toNat).vals 0) (fun i => (E i.toNat).vals 1) (fun i => (E i.toNat).vecs 0 0) (fun i => (E i.toNat).vecs 0 1) (fun i => (E i.toNat).vecs 1 0) (fun i => (E i.toNat).vecs 1 1)
        ((List.range N).map fun i => (P i 0, P i 1, ((1 : Nat) : α)))).map (fun r => (r.1, r.2.2.2.2.2.2.2.1, r.2.2.2.2.2.2.2.2))
      = some ((List.range N).map (fun i => (report true (E i) (P i)).curvature), (List.range N).map (fun i => ((report true (E i) (P i)).normal 0, (report true (E i) (P i)).normal 1, (report true (E i) (P i)).w)),
          (List.range N).map (fun i => (report true (E i) (P i)).reliability)) := by
  have hlen : ((List.range N).map fun i => (P i 0, P i 1, ((1 : Nat) : α))).length = N := by simp
  rw [compute_r_h2d_bridge _ _ _ _ _ _  _ (((0 : Nat) : α), ((0 : Nat) : α), ((0 : Nat) : α)) (((0 : Nat) : α), ((0 : Nat) : α), ((0 : Nat) : α)) curv a0 a1 b00 b01 b10 b11 normals rel (by rw [hlen]; exact h1) (by rw [hlen]; exact h2) (by rw [hlen]; exact h3)]
  rw [hlen]
  have hget : ∀ i, i < N → ((List.range N).map fun i => (P i 0, P i 1, ((1 : Nat) : α))).getD i (((0 : Nat) : α), ((0 : Nat) : α), ((0 : Nat) : α)) = (P i 0, P i 1, ((1 : Nat) : α)) := by
    intro i hi
    simp [List.getD_eq_getElem?_getD, hi]
  congr 2
  · apply List.map_congr_left
    intro i hi
    simp only [Int.toNat_natCast, report, sumFin, List.finRange_succ, List.finRange_zero, List.map_cons, List.map_nil, lsum2 h0, Fin.succ_zero_eq_one, Fin.succ_one_eq_two, Fin.isValue]
  · congr 1
    · apply List.map_congr_left
      intro i hi
      rw [hget i (List.mem_range.mp hi)]
      simp only [Int.toNat_natCast]
      rw [flip_h2d_bridge h0 hneg h11 (P i) (fun j => (E i).vecs j 0)]
      simp only [report, flipped, flippedW]
      all_goals (first | rfl | (split <;> rfl))


/-- `compute(points, pointsKdTree, normals, curvatures, normalsReliability)` for `h3f` as translated, fed with the decompositions `E i`
    (what `planeEstimation_` leaves for point `i`) and the points `P i`: entry `i` of the three output vectors is the `curvature`, the
    `normal` (with its homogeneous coordinate `w`) and the `reliability` of the model's `report true (E i) (P i)` -/
theorem src_compute_r_h3f_report (h0 : ∀ x : α, zero + x = x) (hneg : ∀ x : α, x * (-((1 : Nat) : α)) = -x) (h11 : ((1 : Nat) : α) * ((1 : Nat) : α) = ((1 : Nat) : α)) (N : Nat)
    (E : Nat → EigSym 3 α) (P : Nat → Vec 3 α) (curv : List α) (a0 a1 a2 b00 b01 b02 b10 b11 b12 b20 b21 b22 : α) (normals : List (α × α × α × α)) (rel : List α)
    (h1 : curv.length = N) (h2 : normals.length = N) (h3 : rel.length = N) :
    (Src.C09.NormalAndCurvatureEstimation.compute_r_h3f curv a0 a1 a2 b00 b01 b02 b10 b11 b12 b20 b21 b22 normals rel (fun i => (E i.toNat).vals 0) (fun i => (E i.toNat).vals 1) (fun i => (E i.toNat).vals 2) (fun i => (E i.toNat).vecs 0 0) (fun i => (E i.toNat).vecs 0 1) (fun i => (E i.toNat).vecs 0 2) (fun i => (E i.toNat).vecs 1 0) (fun i => (E i.toNat).vecs 1 1) (fun i => (E i.toNat).vecs 1 2) (fun i => (E i.toNat).vecs 2 0) (fun i => (E i.toNat).vecs 2 1) (fun i => (E i.toNat).vecs 2 2)
        ((List.range N).map fun i => (P i 0, P i 1, P i 2, ((1 : Nat) : α)))).map (fun r => (r.1, r.2.2.2.2.2.2.2.2.2.2.2.2.2.1, r.2.2.2.2.2.2.2.2.2.2.2.2.2.2))
      = some ((List.range N).map (fun i => (report true (E i) (P i)).curvature), (List.range N).map (fun i => ((report true (E i) (P i)).normal 0, (report true (E i) (P i)).normal 1, (report true (E i) (P i)).normal 2, (report true (E i) (P i)).w)),
          (List.range N).map (fun i => (report true (E i) (P i)).reliability)) := by
  have hlen : ((List.range N).map fun i => (P i 0, P i 1, P i 2, ((1 : Nat) : α))).length = N := by simp
  rw [compute_r_h3f_bridge _ _ _ _ _ _ _ _ _ _ _ _ _ (((0 : Nat) : α), ((0 : Nat) : α), ((0 : Nat) : α), ((0 : Nat) : α)) (((0 : Nat) : α), ((0 : Nat) : α), ((0 : Nat) : α), ((0 : Nat) : α)) curv a0 a1 a2 b00 b01 b02 b10 b11 b12 b20 b21 b22 normals rel (by rw [hlen]; exact h1) (by rw [hlen]; exact h2) (by rw [hlen]; exact h3)]
  rw [hlen]
  have hget : ∀ i, i < N → ((List.range N).map fun i => (P i 0, P i 1, P i 2, ((1 : Nat) : α))).getD i (((0 : Nat) : α), ((0 : Nat) : α), ((0 : Nat) : α), ((0 : Nat) : α)) = (P i 0, P i 1, P i 2, ((1 : Nat) : α)) := by
    intro i hi
    simp [List.getD_eq_getElem?_getD, hi]
  congr 2
  · apply List.map_congr_left
    intro i hi
    simp only [Int.toNat_natCast, report, sumFin, List.finRange_succ, List.finRange_zero, List.map_cons, List.map_nil, lsum3 h0, Fin.succ_zero_eq_one, Fin.succ_one_eq_two, Fin.isValue]
  · congr 1
    · apply List.map_congr_left
      intro i hi
      rw [hget i (List.mem_range.mp hi)]
      simp only [Int.toNat_natCast]
      rw [flip_h3f_bridge h0 hneg h11 (P i) (fun j => (E i).vecs j 0)]
      simp only [report, flipped, flippedW]
      all_goals (first | rfl | (split <;> rfl))


/-- `compute(points, pointsKdTree, normals, curvatures, normalsReliability)` for `h3d` as translated, fed with the decompositions `E i`
    (what `planeEstimation_` leaves for point `i`) and the points `P i`: entry `i` of the three output vectors is the `curvature`, the
    `normal` (with its homogeneous coordinate `w`) and the `reliability` of the model's `report true (E i) (P i)` -/
theorem src_compute_r_h3d_report (h0 : ∀ x : α, zero + x = x) (hneg : ∀ x : α, x * (-((1 : Nat) : α)) = -x) (h11 : ((1 : Nat) : α) * ((1 : Nat) : α) = ((1 : Nat) : α)) (N : Nat)
    (E : Nat → EigSym 3 α) (P : Nat → Vec 3 α) (curv : List α) (a0 a1 a2 b00 b01 b02 b10 b11 b12 b20 b21 b22 : α) (normals : List (α × α × α × α)) (rel : List α)
    (h1 : curv.length = N) (h2 : normals.length = N) (h3 : rel.length = N) :
    (Src.C09.NormalAndCurvatureEstimation.compute_r_h3d curv a0 a1 a2 b00 b01 b02 b10 b11 b12 b20 b21 b22 normals rel (fun i => (E i.toNat).vals 0) (fun i => (E i.toNat).vals 1) (fun i => (E i.toNat).vals 2) (fun i => (E i.toNat).vecs 0 0) (fun i => (E i.toNat).vecs 0 1) (fun i => (E i.toNat).vecs 0 2) (fun i => (E i.toNat).vecs 1 0) (fun i => (E i.toNat).vecs 1 1) (fun i => (E i.toNat).vecs 1 2) (fun i => (E i.toNat).vecs 2 0) (fun i => (E i.toNat).vecs 2 1) (fun i => (E i.toNat).vecs 2 2)
        ((List.range N).map fun i => (P i 0, P i 1, P i 2, ((1 : Nat) : α)))).map (fun r => (r.1, r.2.2.2.2.2.2.2.2.2.2.2.2.2.1, r.2.2.2.2.2.2.2.2.2.2.2.2.2.2))
      = some ((List.range N).map (fun i => (report true (E i) (P i)).curvature), (List.range N).map (fun i => ((report true (E i) (P i)).normal 0, (report true (E i) (P i)).normal 1, (report true (E i) (P i)).normal 2, (report true (E i) (P i)).w)),
          (List.range N).map (fun i => (report true (E i) (P i)).reliability)) := by
  have hlen : ((List.range N).map fun i => (P i 0, P i 1, P i 2, ((1 : Nat) : α))).length = N := by simp
  rw [compute_r_h3d_bridge _ _ _ _ _ _ _ _ _ _ _ _ _ (((0 : Nat) : α), ((0 : Nat) : α), ((0 : Nat) : α), ((0 : Nat) : α)) (((0 : Nat) : α), ((0 : Nat) : α), ((0 : Nat) : α), ((0 : Nat) : α)) curv a0 a1 a2 b00 b01 b02 b10 b11 b12 b20 b21 b22 normals rel (by rw [hlen]; exact h1) (by rw [hlen]; exact h2) (by rw [hlen]; exact h3)]
  rw [hlen]
  have hget : ∀ i, i < N → ((List.range N).map fun i => (P i 0, P i 1, P i 2, ((1 : Nat) : α))).getD i (((0 : Nat) : α), ((0 : Nat) : α), ((0 : Nat) : α), ((0 : Nat) : α)) = (P i 0, P i 1, P i 2, ((1 : Nat) : α)) := by
    intro i hi
    simp [List.getD_eq_getElem?_getD, hi]
  congr 2
  · apply List.map_congr_left
    intro i hi
    simp only [Int.toNat_natCast, report, sumFin, List.finRange_succ, List.finRange_zero, List.map_cons, List.map_nil, lsum3 h0, Fin.succ_zero_eq_one, Fin.succ_one_eq_two, Fin.isValue]
  · congr 1
    · apply List.map_congr_left
      intro i hi
      rw [hget i (List.mem_range.mp hi)]
      simp only [Int.toNat_natCast]
      rw [flip_h3d_bridge h0 hneg h11 (P i) (fun j => (E i).vecs j 0)]
      simp only [report, flipped, flippedW]
      all_goals (first | rfl | (split <;> rfl))


end

/-! ### the property about the vectors returned by the translated `compute` (ℝ) -/

theorem getElem_map_range {β : Type} (f : Nat → β) (N i : Nat) (h : i < ((List.range N).map f).length) :
    ((List.range N).map f)[i] = f i := by
  simp

/-- **unit**, **faces_sensor**, **curvature_range** about the translated `compute` for `Eigen::Vector3d` clouds: whatever eigen-solver
    oracle `eig` meets `IsEigSym` on the covariance of the neighbourhoods `nb i` (whatever the k-NN oracle returned), the call returns
    vectors `curv'`, `normals'` of the size of the cloud such that every `normals'[i]` has unit length and faces the sensor
    (`n · p ≤ 0`, points other than the origin) and every `curv'[i]` lies in `[0, 1/3]` (neighbours not all identical) -/
theorem src_compute_r_v3d_meets_property (eig : Mat 3 ℝ → EigSym 3 ℝ) (N : Nat) (nb : Nat → List (Vec 3 ℝ)) (P : Nat → Vec 3 ℝ)
    (curv : List ℝ) (a0 a1 a2 b00 b01 b02 b10 b11 b12 b20 b21 b22 : ℝ) (normals : List (ℝ × ℝ × ℝ)) (rel : List ℝ)
    (h1 : curv.length = N) (h2 : normals.length = N) (h3 : rel.length = N)
    (hE : ∀ i, i < N → IsEigSym (cov (nb i)) (eig (cov (nb i)))) (hP : ∀ i, i < N → P i ≠ 0) :
    ∃ (curv' : List ℝ) (normals' : List (ℝ × ℝ × ℝ)) (rel' : List ℝ),
      (Src.C09.NormalAndCurvatureEstimation.compute_r_v3d curv a0 a1 a2 b00 b01 b02 b10 b11 b12 b20 b21 b22 normals rel
        (fun i => (eig (covTab (nb i.toNat))).vals 0) (fun i => (eig (covTab (nb i.toNat))).vals 1) (fun i => (eig (covTab (nb i.toNat))).vals 2)
        (fun i => (eig (covTab (nb i.toNat))).vecs 0 0) (fun i => (eig (covTab (nb i.toNat))).vecs 0 1) (fun i => (eig (covTab (nb i.toNat))).vecs 0 2)
        (fun i => (eig (covTab (nb i.toNat))).vecs 1 0) (fun i => (eig (covTab (nb i.toNat))).vecs 1 1) (fun i => (eig (covTab (nb i.toNat))).vecs 1 2)
        (fun i => (eig (covTab (nb i.toNat))).vecs 2 0) (fun i => (eig (covTab (nb i.toNat))).vecs 2 1) (fun i => (eig (covTab (nb i.toNat))).vecs 2 2)
        ((List.range N).map fun i => (P i 0, P i 1, P i 2))).map
          (fun r => (r.1, r.2.2.2.2.2.2.2.2.2.2.2.2.2.1, r.2.2.2.2.2.2.2.2.2.2.2.2.2.2)) = some (curv', normals', rel') ∧
      ∃ (hc : curv'.length = N) (hn : normals'.length = N), ∀ i (hi : i < N),
        ((normals'[i]'(hn ▸ hi)).1 * (normals'[i]'(hn ▸ hi)).1 + (normals'[i]'(hn ▸ hi)).2.1 * (normals'[i]'(hn ▸ hi)).2.1
            + (normals'[i]'(hn ▸ hi)).2.2 * (normals'[i]'(hn ▸ hi)).2.2 = 1) ∧
        ((normals'[i]'(hn ▸ hi)).1 * P i 0 + (normals'[i]'(hn ▸ hi)).2.1 * P i 1 + (normals'[i]'(hn ▸ hi)).2.2 * P i 2 ≤ 0) ∧
        (0 < sumFin (eig (cov (nb i))).vals → 0 ≤ curv'[i]'(hc ▸ hi) ∧ curv'[i]'(hc ▸ hi) ≤ 1 / 3) := by
  refine ⟨_, _, _, src_compute_r_v3d_report h0R hnegR N (fun i => eig (covTab (nb i))) P curv a0 a1 a2 b00 b01 b02 b10 b11 b12 b20 b21 b22
    normals rel h1 h2 h3, by simp, by simp, ?_⟩
  intro i hi
  simp only [getElem_map_range]
  have hrep : report false (eig (covTab (nb i))) (P i) = estimate false eig (nb i) (P i) := rfl
  rw [hrep]
  refine ⟨?_, ?_, ?_⟩
  · have := unit (m := 1) false eig (nb i) (P i) (hE i hi)
    rw [dot3 h0R] at this
    linarith
  · have := faces_sensor (m := 1) false eig (nb i) (P i) (Or.inr (hP i hi))
    rw [dot3 h0R] at this
    linarith
  · intro htr
    have := curvature_range (m := 1) false eig (nb i) (P i) (hE i hi) htr
    norm_num at this ⊢
    exact this

/-- the same about `HomogeneousCoordinates3d` clouds (points stored with homogeneous coordinate 1): every point, and the homogeneous
    coordinate of every returned normal is 0 -/
theorem src_compute_r_h3d_meets_property (eig : Mat 3 ℝ → EigSym 3 ℝ) (N : Nat) (nb : Nat → List (Vec 3 ℝ)) (P : Nat → Vec 3 ℝ)
    (curv : List ℝ) (a0 a1 a2 b00 b01 b02 b10 b11 b12 b20 b21 b22 : ℝ) (normals : List (ℝ × ℝ × ℝ × ℝ)) (rel : List ℝ)
    (h1 : curv.length = N) (h2 : normals.length = N) (h3 : rel.length = N)
    (hE : ∀ i, i < N → IsEigSym (cov (nb i)) (eig (cov (nb i)))) :
    ∃ (curv' : List ℝ) (normals' : List (ℝ × ℝ × ℝ × ℝ)) (rel' : List ℝ),
      (Src.C09.NormalAndCurvatureEstimation.compute_r_h3d curv a0 a1 a2 b00 b01 b02 b10 b11 b12 b20 b21 b22 normals rel
        (fun i => (eig (covTab (nb i.toNat))).vals 0) (fun i => (eig (covTab (nb i.toNat))).vals 1) (fun i => (eig (covTab (nb i.toNat))).vals 2)
        (fun i => (eig (covTab (nb i.toNat))).vecs 0 0) (fun i => (eig (covTab (nb i.toNat))).vecs 0 1) (fun i => (eig (covTab (nb i.toNat))).vecs 0 2)
        (fun i => (eig (covTab (nb i.toNat))).vecs 1 0) (fun i => (eig (covTab (nb i.toNat))).vecs 1 1) (fun i => (eig (covTab (nb i.toNat))).vecs 1 2)
        (fun i => (eig (covTab (nb i.toNat))).vecs 2 0) (fun i => (eig (covTab (nb i.toNat))).vecs 2 1) (fun i => (eig (covTab (nb i.toNat))).vecs 2 2)
        ((List.range N).map fun i => (P i 0, P i 1, P i 2, ((1 : Nat) : ℝ)))).map
          (fun r => (r.1, r.2.2.2.2.2.2.2.2.2.2.2.2.2.1, r.2.2.2.2.2.2.2.2.2.2.2.2.2.2)) = some (curv', normals', rel') ∧
      ∃ (hc : curv'.length = N) (hn : normals'.length = N), ∀ i (hi : i < N),
        ((normals'[i]'(hn ▸ hi)).1 * (normals'[i]'(hn ▸ hi)).1 + (normals'[i]'(hn ▸ hi)).2.1 * (normals'[i]'(hn ▸ hi)).2.1
            + (normals'[i]'(hn ▸ hi)).2.2.1 * (normals'[i]'(hn ▸ hi)).2.2.1 = 1) ∧
        ((normals'[i]'(hn ▸ hi)).1 * P i 0 + (normals'[i]'(hn ▸ hi)).2.1 * P i 1 + (normals'[i]'(hn ▸ hi)).2.2.1 * P i 2 ≤ 0) ∧
        (normals'[i]'(hn ▸ hi)).2.2.2 = 0 ∧
        (0 < sumFin (eig (cov (nb i))).vals → 0 ≤ curv'[i]'(hc ▸ hi) ∧ curv'[i]'(hc ▸ hi) ≤ 1 / 3) := by
  refine ⟨_, _, _, src_compute_r_h3d_report h0R hnegR h11R N (fun i => eig (covTab (nb i))) P curv a0 a1 a2 b00 b01 b02 b10 b11 b12 b20 b21 b22
    normals rel h1 h2 h3, by simp, by simp, ?_⟩
  intro i hi
  simp only [getElem_map_range]
  have hrep : report true (eig (covTab (nb i))) (P i) = estimate true eig (nb i) (P i) := rfl
  rw [hrep]
  refine ⟨?_, ?_, ?_, ?_⟩
  · have := unit (m := 1) true eig (nb i) (P i) (hE i hi)
    rw [dot3 h0R] at this
    linarith
  · have := faces_sensor (m := 1) true eig (nb i) (P i) (Or.inl rfl)
    rw [dot3 h0R] at this
    linarith
  · simp only [estimate, zero]
    split <;> simp
  · intro htr
    have := curvature_range (m := 1) true eig (nb i) (P i) (hE i hi) htr
    norm_num at this ⊢
    exact this

end Romea.Bridge.C09
