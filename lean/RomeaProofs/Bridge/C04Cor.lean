import RomeaProofs.Bridge.C04
import RomeaProofs.Properties.C04

/-!
# Bridge C04, part 2: headline theorems of `Properties/C04.lean` restated about the functions AS TRANSLATED FROM TODAY'S SOURCE

`Vector3d` instantiation (`Romea.Src.C04.*_v3d`), the JacobiSVD / determinant oracles of the translated code instantiated with the model's
`svd` parameter and Laplace determinant (`svdU`, `svdV`, `detO` of `Bridge/C04.lean`):

* `src_linear_part_proper_rotation_v3d` (ℝ): the translated `find(PointSet, PointSet, correspondences)` returns `some r` and the linear part of
  `r` satisfies `Rᵀ R = 1`, `det R = 1` — **linear_part_proper_rotation**, for every oracle with `IsSVD` on the decomposed block;
* `src_linear_part_proper_rotation_h3d` (ℝ): the same for the `HomogeneousCoordinates3d` instantiation;
* `src_maps_sources_onto_targets_v3d` (ℝ): **maps_sources_onto_targets** — on exact rigid data (scatter rank ≥ 2: coplanar clouds included) the
  matrix returned by the translated function maps every corresponded source point onto its target;
* `src_step_v3d`, `src_run_eq_v3d` (every scalar type): an object state `(points_, preconditioningMatrix_)` driven through the TRANSLATED
  `compute(points, scale)` along any list of calls — with any capacity and any filler at every call — never fails and is, under the
  abstraction `absSt`, the model's `PPS.run`;
* `src_history_last_compute_only_v3d` (every scalar type): **history_last_compute_only** about that translated run;
* `src_find_after_any_history_v3d` (every scalar type with `0 + x = x` and matching integer / natural casts): **find_after_any_history** — the
  translated `find(PreconditionedPointSet, PreconditionedPointSet, correspondences)` on two objects with ARBITRARY translated histories
  returns the model's `findPre` on the last-computed sets.
-/
set_option linter.unusedSectionVars false
set_option linter.unusedVariables false
set_option linter.unusedSimpArgs false

namespace Romea.Bridge.C04
open Romea Romea.Registration Romea.Src.C04 Romea.C04 Matrix

section
variable {α : Type} [Add α] [Sub α] [Mul α] [Div α] [Neg α] [LT α] [DecidableLT α] [NatCast α] [IntCast α]

/-- the 4 × 4 table of 16 entries listed row by row -/
def unflat4 (r : α × α × α × α × α × α × α × α × α × α × α × α × α × α × α × α) : Tab2 4 4 α :=
  Tab2.ofFn (fun i j =>
    if i.1 = 0 then (if j.1 = 0 then r.1 else if j.1 = 1 then r.2.1 else if j.1 = 2 then r.2.2.1 else r.2.2.2.1)
    else if i.1 = 1 then (if j.1 = 0 then r.2.2.2.2.1 else if j.1 = 1 then r.2.2.2.2.2.1 else if j.1 = 2 then r.2.2.2.2.2.2.1 else r.2.2.2.2.2.2.2.1)
    else if i.1 = 2 then (if j.1 = 0 then r.2.2.2.2.2.2.2.2.1 else if j.1 = 1 then r.2.2.2.2.2.2.2.2.2.1 else if j.1 = 2 then r.2.2.2.2.2.2.2.2.2.2.1
      else r.2.2.2.2.2.2.2.2.2.2.2.1)
    else (if j.1 = 0 then r.2.2.2.2.2.2.2.2.2.2.2.2.1 else if j.1 = 1 then r.2.2.2.2.2.2.2.2.2.2.2.2.2.1 else if j.1 = 2 then r.2.2.2.2.2.2.2.2.2.2.2.2.2.2.1
      else r.2.2.2.2.2.2.2.2.2.2.2.2.2.2.2))

theorem unflat4_flat4 (t : Tab2 4 4 α) : unflat4 (flat4 t) = t := by
  apply Tab2.ext
  funext i j
  fin_cases i <;> fin_cases j <;> simp [unflat4, flat4, Tab2.toFn]

/-- model-side reading of a translated correspondence list is in range iff the translated one is -/
theorem inRange_model {p : Nat} (corr : List (Int × Int × α × α)) (n m : Nat) (S T : Array (Tab p ℝ)) (hS : S.size = n) (hT : T.size = m)
    (hin : InRange corr n m) : Romea.C04.InRange S T (corrOf corr) := by
  intro c hc
  simp only [corrOf, List.mem_map] at hc
  obtain ⟨x, hx, rfl⟩ := hc
  obtain ⟨_, h1, _, h3⟩ := hin x hx
  exact ⟨by rw [hS]; exact h1, by rw [hT]; exact h3⟩

end

theorem hzR : ∀ x : ℝ, (Registration.zero : ℝ) + x = x := by intro x; simp [Registration.zero]
theorem hcR : ∀ n : Nat, ((n : Int) : ℝ) = (n : ℝ) := by intro n; simp

theorem pts3_size {α : Type} (l : List (α × α × α)) : (pts3 l).size = l.length := by simp [pts3]

/-- **linear_part_proper_rotation** about `find(PointSet, PointSet, correspondences)` (`Vector3d`) as translated from today's source -/
theorem src_linear_part_proper_rotation_v3d (svd : Mat 3 3 ℝ → SVD 3 ℝ) (corr : List (Int × Int × ℝ × ℝ)) (src tgt : List (ℝ × ℝ × ℝ))
    (hne : corr ≠ []) (hin : InRange corr src.length tgt.length)
    (hsvd : OracleOK (Nat.le_refl 3) svd (pts3 src) (pts3 tgt) (corrOf corr)) :
    ∃ r, FindRigidTransformationBySVD.find_corr_v3d (svdU 3 svd) (svdV 3 svd) corr (detO 3) src tgt = some r ∧
      (linPart (Matrix.of (unflat4 r).toFn))ᵀ * linPart (Matrix.of (unflat4 r).toFn) = 1 ∧
      (linPart (Matrix.of (unflat4 r).toFn)).det = 1 := by
  refine ⟨_, find_corr_v3d_bridge hzR hcR svd corr src tgt hin, ?_⟩
  rw [unflat4_flat4]
  exact linear_part_proper_rotation 3 (Nat.le_refl 3) (Nat.le_succ 3) svd (pts3 src) (pts3 tgt) (corrOf corr)
    (by simpa [corrOf] using hne) (inRange_model corr _ _ _ _ (pts3_size src) (pts3_size tgt) hin) hsvd

/-- **maps_sources_onto_targets** about the matrix returned by the translated `find` (`Vector3d`) -/
theorem src_maps_sources_onto_targets_v3d (svd : Mat 3 3 ℝ → SVD 3 ℝ) (corr : List (Int × Int × ℝ × ℝ)) (src tgt : List (ℝ × ℝ × ℝ))
    (Q : Matrix (Fin 3) (Fin 3) ℝ) (τ : Fin 3 → ℝ) (hQ : Qᵀ * Q = 1) (hQd : Q.det = 1)
    (hne : corr ≠ []) (hin : InRange corr src.length tgt.length)
    (hrigid : RigidOn (Nat.le_refl 3) Q τ (pts3 src) (pts3 tgt) (corrOf corr))
    (hrank : 3 - 1 ≤ (scatterL (srcPts (Nat.le_refl 3) (pts3 src) (corrOf corr))).rank)
    (hsvd : OracleOK (Nat.le_refl 3) svd (pts3 src) (pts3 tgt) (corrOf corr)) :
    ∃ r, FindRigidTransformationBySVD.find_corr_v3d (svdU 3 svd) (svdV 3 svd) corr (detO 3) src tgt = some r ∧
      ∀ c ∈ corrOf corr, linPart (Matrix.of (unflat4 r).toFn) *ᵥ (getPt 3 (pts3 src) c.1).get + transPart (Matrix.of (unflat4 r).toFn) =
        (getPt 3 (pts3 tgt) c.2).get := by
  refine ⟨_, find_corr_v3d_bridge hzR hcR svd corr src tgt hin, ?_⟩
  rw [unflat4_flat4]
  exact maps_sources_onto_targets svd (pts3 src) (pts3 tgt) (corrOf corr) Q τ hQ hQd (by simpa [corrOf] using hne)
    (inRange_model corr _ _ _ _ (pts3_size src) (pts3_size tgt) hin) hrigid hrank hsvd

theorem pts4_size {α : Type} (l : List (α × α × α × α)) : (pts4 l).size = l.length := by simp [pts4]

/-- **linear_part_proper_rotation** about the translated `find(PointSet, PointSet, correspondences)` for `HomogeneousCoordinates3d`
    (`POINT_SIZE = 4`: the block arithmetic of the source runs over the homogeneous coordinate too) -/
theorem src_linear_part_proper_rotation_h3d (svd : Mat 3 3 ℝ → SVD 3 ℝ) (corr : List (Int × Int × ℝ × ℝ)) (src tgt : List (ℝ × ℝ × ℝ × ℝ))
    (hne : corr ≠ []) (hin : InRange corr src.length tgt.length)
    (hsvd : OracleOK (by decide : 3 ≤ 4) svd (pts4 src) (pts4 tgt) (corrOf corr)) :
    ∃ r, FindRigidTransformationBySVD.find_corr_h3d (svdU 3 svd) (svdV 3 svd) corr (detO 3) src tgt = some r ∧
      (linPart (Matrix.of (unflat4 r).toFn))ᵀ * linPart (Matrix.of (unflat4 r).toFn) = 1 ∧
      (linPart (Matrix.of (unflat4 r).toFn)).det = 1 := by
  refine ⟨_, find_corr_h3d_bridge hzR hcR svd corr src tgt hin, ?_⟩
  rw [unflat4_flat4]
  exact linear_part_proper_rotation 4 (by decide) (Nat.le_refl 4) svd (pts4 src) (pts4 tgt) (corrOf corr)
    (by simpa [corrOf] using hne) (inRange_model corr _ _ _ _ (pts4_size src) (pts4_size tgt) hin) hsvd

section
variable {α : Type} [Add α] [Sub α] [Mul α] [Div α] [Neg α] [LT α] [DecidableLT α] [NatCast α] [IntCast α]

/-- state of a `PreconditionedPointSet<Vector3d>` object as the translated code carries it: `points_`, the 16 entries of the matrix -/
abbrev SrcSt (α : Type) := List (α × α × α) × (α × α × α × α × α × α × α × α × α × α × α × α × α × α × α × α)

/-- one call `compute(points, scale)`; the hidden capacity and the filler of `resize` may differ at every call -/
structure SrcOp (α : Type) where
  pts : List (α × α × α)
  s : α
  cap : Int
  fill : α × α × α

/-- the TRANSLATED `compute(points, scale)` applied to an object state -/
def srcStep (st : SrcSt α) (op : SrcOp α) : Option (SrcSt α) :=
  PreconditionedPointSet.compute_scale_v3d op.pts st.1 op.cap op.fill op.s

def srcRun : SrcSt α → List (SrcOp α) → Option (SrcSt α)
  | st, [] => some st
  | st, op :: ops => (srcStep st op).bind (fun st' => srcRun st' ops)

/-- the model state a translated state stands for -/
def absSt (st : SrcSt α) : PPS 3 3 α := ⟨pts3 st.1, unflat4 st.2⟩

/-- the model's compute of a translated call (the filler is irrelevant to the model's result: `compute_forgets`) -/
def absOp (op : SrcOp α) : ComputeOp 3 3 α := .scale (pts3 op.pts) op.s

theorem src_step_v3d (fill : Tab 3 α) (st : SrcSt α) (op : SrcOp α) :
    ∃ st', srcStep st op = some st' ∧ absSt st' = (absSt st).apply fill (absOp op) := by
  obtain ⟨l, h1, h2⟩ := compute_scale_v3d_bridge op.pts st.1 op.cap op.fill op.s (unflat4 st.2)
  refine ⟨(l, flat4 (scaleMat 3 op.s)), h1, ?_⟩
  simp only [absSt, absOp, PPS.apply, unflat4_flat4]
  rw [h2]
  simp only [compute_forgets]

/-- a history of translated computes never fails and refines the model's `PPS.run` -/
theorem src_run_eq_v3d (fill : Tab 3 α) (st : SrcSt α) (ops : List (SrcOp α)) :
    ∃ st', srcRun st ops = some st' ∧ absSt st' = (absSt st).run fill (ops.map absOp) := by
  induction ops generalizing st with
  | nil => exact ⟨st, rfl, rfl⟩
  | cons op ops ih =>
    obtain ⟨st1, h1, e1⟩ := src_step_v3d fill st op
    obtain ⟨st2, h2, e2⟩ := ih st1
    refine ⟨st2, by simp [srcRun, h1, h2], ?_⟩
    rw [e2, e1]
    simp [PPS.run]

/-- **history_last_compute_only** about the translated `compute`: whatever the object went through (any start state, any earlier computes,
    any capacities and fillers), after the last compute it is the state a fresh object has after that compute alone -/
theorem src_history_last_compute_only_v3d (fill : Tab 3 α) (st : SrcSt α) (ops : List (SrcOp α)) (c : SrcOp α) :
    ∃ st', srcRun st (ops ++ [c]) = some st' ∧ absSt st' = (PPS.init 3 3).apply fill (absOp c) := by
  obtain ⟨st', h, e⟩ := src_run_eq_v3d fill st (ops ++ [c])
  refine ⟨st', h, ?_⟩
  rw [e, List.map_append, List.map_singleton]
  exact history_last_compute_only fill (absSt st) (ops.map absOp) (absOp c)

/-- **find_after_any_history** about the translated code: two objects with arbitrary translated histories, then
    `source.compute(src, sS)`, `target.compute(tgt, sT)` and the translated `find(source, target, correspondences)` = the model's
    `findPre` on the current sets -/
theorem src_find_after_any_history_v3d (hz : ∀ x : α, (Registration.zero : α) + x = x) (hc : ∀ n : Nat, ((n : Int) : α) = (n : α))
    (svd : Mat 3 3 α → SVD 3 α) (stS stT : SrcSt α) (opsS opsT : List (SrcOp α)) (cS cT : SrcOp α)
    (corr : List (Int × Int × α × α)) (hin : InRange corr cS.pts.length cT.pts.length) :
    ∃ S T, srcRun stS (opsS ++ [cS]) = some S ∧ srcRun stT (opsT ++ [cT]) = some T ∧
      FindRigidTransformationBySVD.find_pre_corr_v3d (svdU 3 svd) (svdV 3 svd) corr (detO 3) S.1 T.1 T.2.1 =
        some (flat4 (findPre 3 3 (Nat.le_refl 3) (Nat.le_succ 3) svd (pts3 cS.pts) (pts3 cT.pts) (corrOf corr) cS.s cT.s)) := by
  obtain ⟨S, hS, eS⟩ := src_run_eq_v3d (pt3 cS.fill) stS (opsS ++ [cS])
  obtain ⟨T, hT, eT⟩ := src_run_eq_v3d (pt3 cT.fill) stT (opsT ++ [cT])
  refine ⟨S, T, hS, hT, ?_⟩
  have hmodel := find_after_any_history (d := 3) (p := 3) (by decide) (Nat.le_refl 3) (Nat.le_succ 3) svd (pt3 cS.fill) (pt3 cT.fill)
    (absSt stS) (absSt stT) (opsS.map absOp) (opsT.map absOp) (pts3 cS.pts) (pts3 cT.pts) cS.s cT.s (corrOf corr)
  rw [List.map_append, List.map_singleton] at eS eT
  have eS' : absSt S = (absSt stS).run (pt3 cS.fill) (opsS.map absOp ++ [.scale (pts3 cS.pts) cS.s]) := eS
  have eT' : absSt T = (absSt stT).run (pt3 cT.fill) (opsT.map absOp ++ [.scale (pts3 cT.pts) cT.s]) := eT
  rw [← eS', ← eT'] at hmodel
  rw [← hmodel]
  -- sizes of the stored sets = sizes of the last inputs
  have hSl : (pts3 S.1).size = cS.pts.length := by
    have := congrArg (fun st => st.points.size) eS'
    simp only [absSt] at this
    rw [this, history_size]; simp [pts3]
  have hTl : (pts3 T.1).size = cT.pts.length := by
    have := congrArg (fun st => st.points.size) eT'
    simp only [absSt] at this
    rw [this, history_size]; simp [pts3]
  rw [pts3_size] at hSl hTl
  have hin' : InRange corr S.1.length T.1.length := by rw [hSl, hTl]; exact hin
  have hb := find_pre_corr_v3d_bridge hz hc svd corr S.1 T.1 (unflat4 S.2) (unflat4 T.2) hin'
  have h00 : ((unflat4 T.2).get 0).get 0 = T.2.1 := by simp [unflat4]
  rw [h00] at hb
  exact hb

end
end Romea.Bridge.C04
