import RomeaProofs.Bridge.C11
import RomeaProofs.Properties.C11

/-!
# Bridge C11, part 2: headline theorems of `Properties/C11.lean` restated about the functions translated from today's source
(`Romea.Src.C11.*`, regenerated from `/repo` on every run), at the scalar type ℝ.
-/
set_option maxRecDepth 4000

namespace Romea.Bridge.C11
open Romea Romea.Pose Romea.C11

/-- `C11.se2_of_se3_of_se2` about the translated code: the translated `toSe2Covariance`, fed with the nine entries it reads of the
    thirty-six the translated `toSe3Covariance` returns, gives back the planar covariance -/
theorem src_se2_of_se3_of_se2 (C : Mat 3 3 ℝ) :
    Src.C11.toSe2Covariance
        (Src.C11.toSe3Covariance (C 0 0) (C 0 1) (C 0 2) (C 1 0) (C 1 1) (C 1 2) (C 2 0) (C 2 1) (C 2 2)).1
        (Src.C11.toSe3Covariance (C 0 0) (C 0 1) (C 0 2) (C 1 0) (C 1 1) (C 1 2) (C 2 0) (C 2 1) (C 2 2)).2.1
        (Src.C11.toSe3Covariance (C 0 0) (C 0 1) (C 0 2) (C 1 0) (C 1 1) (C 1 2) (C 2 0) (C 2 1) (C 2 2)).2.2.2.2.2.1
        (Src.C11.toSe3Covariance (C 0 0) (C 0 1) (C 0 2) (C 1 0) (C 1 1) (C 1 2) (C 2 0) (C 2 1) (C 2 2)).2.2.2.2.2.2.1
        (Src.C11.toSe3Covariance (C 0 0) (C 0 1) (C 0 2) (C 1 0) (C 1 1) (C 1 2) (C 2 0) (C 2 1) (C 2 2)).2.2.2.2.2.2.2.1
        (Src.C11.toSe3Covariance (C 0 0) (C 0 1) (C 0 2) (C 1 0) (C 1 1) (C 1 2) (C 2 0) (C 2 1) (C 2
        2)).2.2.2.2.2.2.2.2.2.2.2.1 (Src.C11.toSe3Covariance (C 0 0) (C 0 1) (C 0 2) (C 1 0) (C 1 1) (C 1 2) (C 2 0) (C 2 1)
        (C 2 2)).2.2.2.2.2.2.2.2.2.2.2.2.2.2.2.2.2.2.2.2.2.2.2.2.2.2.2.2.2.2.1 (Src.C11.toSe3Covariance (C 0 0) (C 0 1) (C 0
        2) (C 1 0) (C 1 1) (C 1 2) (C 2 0) (C 2 1) (C 2 2)).2.2.2.2.2.2.2.2.2.2.2.2.2.2.2.2.2.2.2.2.2.2.2.2.2.2.2.2.2.2.2.1
        (Src.C11.toSe3Covariance (C 0 0) (C 0 1) (C 0 2) (C 1 0) (C 1 1) (C 1 2) (C 2 0) (C 2 1) (C 2
        2)).2.2.2.2.2.2.2.2.2.2.2.2.2.2.2.2.2.2.2.2.2.2.2.2.2.2.2.2.2.2.2.2.2.2.2
      = (C 0 0, C 0 1, C 0 2, C 1 0, C 1 1, C 1 2, C 2 0, C 2 1, C 2 2) := by
  rw [toSe3Covariance_bridge C]
  have h := toSe2Covariance_bridge (toSe3Covariance C)
  rw [se2_of_se3_of_se2 C] at h
  exact h

/-- `C11.psd_preserved_se2` about the translated `toSe2Covariance`: the nine numbers it returns for a symmetric positive
    semi-definite 6×6 covariance are the entries of a symmetric positive semi-definite 3×3 matrix -/
theorem src_psd_preserved_se2 (C : Mat 6 6 ℝ) (h : IsPSD C) :
    ∃ M : Mat 3 3 ℝ, IsPSD M ∧
      Src.C11.toSe2Covariance (C 0 0) (C 0 1) (C 0 5) (C 1 0) (C 1 1) (C 1 5) (C 5 0) (C 5 1) (C 5 5)
        = (M 0 0, M 0 1, M 0 2, M 1 0, M 1 1, M 1 2, M 2 0, M 2 1, M 2 2) :=
  ⟨toSe2Covariance C, psd_preserved_se2 C h, toSe2Covariance_bridge C⟩

/-- `C11.pose_reduction` about the translated `Pose2D toPose2D(const Pose3D &)`: x, y, yaw and the covariance entries `(sel i, sel j)`,
    `sel = (0, 1, 5)` — and nothing else -/
theorem src_pose_reduction (p : Pose3D ℝ) :
    Src.C11.toPose2D_ret (p.covariance 0 0) (p.covariance 0 1) (p.covariance 0 2) (p.covariance 0 3) (p.covariance 0 4) (p.covariance 0 5)
        (p.covariance 1 0) (p.covariance 1 1) (p.covariance 1 2) (p.covariance 1 3) (p.covariance 1 4) (p.covariance 1 5)
        (p.covariance 2 0) (p.covariance 2 1) (p.covariance 2 2) (p.covariance 2 3) (p.covariance 2 4) (p.covariance 2 5)
        (p.covariance 3 0) (p.covariance 3 1) (p.covariance 3 2) (p.covariance 3 3) (p.covariance 3 4) (p.covariance 3 5)
        (p.covariance 4 0) (p.covariance 4 1) (p.covariance 4 2) (p.covariance 4 3) (p.covariance 4 4) (p.covariance 4 5)
        (p.covariance 5 0) (p.covariance 5 1) (p.covariance 5 2) (p.covariance 5 3) (p.covariance 5 4) (p.covariance 5 5)
        (p.orientation 0) (p.orientation 1) (p.orientation 2) (p.position 0) (p.position 1) (p.position 2)
      = (p.covariance 0 0, p.covariance 0 1, p.covariance 0 5, p.covariance 1 0, p.covariance 1 1, p.covariance 1 5,
         p.covariance 5 0, p.covariance 5 1, p.covariance 5 5, p.position 0, p.position 1, p.orientation 2) := by
  rw [toPose2D_ret_bridge p]
  obtain ⟨h0, h1, h2, hc⟩ := pose_reduction p
  simp only [h0, h1, h2, hc]
  rfl

/-- `C11.twist_reduction` about the translated `Twist2D toTwist2D(const Twist3D &)` -/
theorem src_twist_reduction (t : Twist3D ℝ) :
    Src.C11.toTwist2D_ret (t.angularSpeeds 0) (t.angularSpeeds 1) (t.angularSpeeds 2) (t.covariance 0 0) (t.covariance 0 1) (t.covariance 0 2)
        (t.covariance 0 3) (t.covariance 0 4) (t.covariance 0 5) (t.covariance 1 0) (t.covariance 1 1) (t.covariance 1 2)
        (t.covariance 1 3) (t.covariance 1 4) (t.covariance 1 5) (t.covariance 2 0) (t.covariance 2 1) (t.covariance 2 2)
        (t.covariance 2 3) (t.covariance 2 4) (t.covariance 2 5) (t.covariance 3 0) (t.covariance 3 1) (t.covariance 3 2)
        (t.covariance 3 3) (t.covariance 3 4) (t.covariance 3 5) (t.covariance 4 0) (t.covariance 4 1) (t.covariance 4 2)
        (t.covariance 4 3) (t.covariance 4 4) (t.covariance 4 5) (t.covariance 5 0) (t.covariance 5 1) (t.covariance 5 2)
        (t.covariance 5 3) (t.covariance 5 4) (t.covariance 5 5) (t.linearSpeeds 0) (t.linearSpeeds 1) (t.linearSpeeds 2)
      = (t.angularSpeeds 2, t.covariance 0 0, t.covariance 0 1, t.covariance 0 5, t.covariance 1 0, t.covariance 1 1,
         t.covariance 1 5, t.covariance 5 0, t.covariance 5 1, t.covariance 5 5, t.linearSpeeds 0, t.linearSpeeds 1) := by
  rw [toTwist2D_ret_bridge t]
  obtain ⟨h0, h1, h2, hc⟩ := twist_reduction t
  simp only [h0, h1, h2, hc]
  rfl

end Romea.Bridge.C11
