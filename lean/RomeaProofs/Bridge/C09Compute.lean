import RomeaProofs.Bridge.C09

/-!
# Bridge C09: the three `compute(points, pointsKdTree, …)` overloads AS TRANSLATED FROM TODAY'S SOURCE, for the eight point types

`Src.C09.NormalAndCurvatureEstimation.compute_<o>_<type>` (`o` = `n`: normals; `c`: + curvatures; `r`: + reliabilities) is the translation of
the loop over the cloud (cpp:120-133, 151-167, 244-262; recursion on the trip count `points.size()`), with `planeEstimation_` — k-NN query,
covariance, `Eigen::SelfAdjointEigenSolver` — an ORACLE exactly as in the model (`knn`, `eig` of `RomeaModel/Normals.lean`): the function
parameters `ev<i>`, `e<i><j>` stand for what it leaves in `eigenValues_(i)`, `eigenVectors_(i, j)` when called for the point of a given index.
What the source does with them per point is translated: `curvatures[n] = eigenValues_(0) / eigenValues_.array().sum()`, the `std::copy` of the
first `CARTESIAN_DIM` stored coefficients of `eigenVectors_` (= its first column) into `normals[n]`, `flipNormalTowardOriginCoordinate(points[n],
normals[n])` (the translated helper of `Bridge/C09.lean`), `normalsReliability[n] = computeNormalReliability()`.

Each `compute_<o>_<type>_bridge` says, for EVERY scalar type and with no hypothesis but "the output vectors have the size of the cloud" (the
`assert` of the source): the call never fails (no index outside a vector) and entry `i` of every output vector is the per-point value at `i`;
nothing of what the members or the output vectors held before survives (proved by induction on the trip count, `setRange`).  `Bridge/C09ComputeCor.lean`
turns the per-point values into the model's `report` / `estimate` fields.  Core Lean only.
-/
set_option linter.unusedSectionVars false
set_option linter.unusedVariables false

namespace Romea.Bridge.C09
open Romea Romea.Normals

theorem vecSet_ok {β : Type} (l : List β) (k : Nat) (x : β) (h : k < l.length) :
    Src.C09.vecSet? l (k : Int) x = some (l.set k x) := by
  unfold Src.C09.vecSet?
  have h1 : ¬ ((k : Int) < 0) := by omega
  simp [h1, h]

theorem vecGet_ok {β : Type} (l : List β) (k : Nat) (d : β) (h : k < l.length) :
    Src.C09.vecGet? l (k : Int) = some (l.getD k d) := by
  unfold Src.C09.vecGet?
  have h1 : ¬ ((k : Int) < 0) := by omega
  simp [h1, h, List.getD_eq_getElem?_getD]

theorem vecGet_set {β : Type} (l : List β) (k : Nat) (x : β) (h : k < l.length) :
    Src.C09.vecGet? (l.set k x) (k : Int) = some x := by
  unfold Src.C09.vecGet?
  have h1 : ¬ ((k : Int) < 0) := by omega
  simp [h1, h]

/-- entries `n … n + cnt - 1` of `l` replaced by `f n … f (n + cnt - 1)`, in this order -/
def setRange {β : Type} (f : Nat → β) : Nat → Nat → List β → List β
  | _, 0, l => l
  | n, cnt + 1, l => setRange f (n + 1) cnt (l.set n (f n))

theorem setRange_length {β : Type} (f : Nat → β) (cnt : Nat) : ∀ (n : Nat) (l : List β), (setRange f n cnt l).length = l.length := by
  induction cnt with
  | zero => intro n l; rfl
  | succ cnt ih => intro n l; simp [setRange, ih]

theorem setRange_getElem? {β : Type} (f : Nat → β) (cnt : Nat) : ∀ (n : Nat) (l : List β) (i : Nat), n + cnt ≤ l.length →
    (setRange f n cnt l)[i]? = if n ≤ i ∧ i < n + cnt then some (f i) else l[i]? := by
  induction cnt with
  | zero => intro n l i _; simp [setRange]; omega
  | succ cnt ih =>
    intro n l i h
    rw [setRange, ih (n + 1) (l.set n (f n)) i (by simp; omega)]
    by_cases h1 : n + 1 ≤ i ∧ i < n + 1 + cnt
    · rw [if_pos h1, if_pos (by omega)]
    · rw [if_neg h1]
      by_cases h2 : i = n
      · subst h2
        rw [if_pos (by omega)]
        rw [List.getElem?_set_self (by omega)]
      · rw [if_neg (by omega)]
        rw [List.getElem?_set_ne (fun h3 => h2 h3.symm)]

/-- overwriting every entry: the list of the values -/
theorem setRange_all {β : Type} (f : Nat → β) (l : List β) : setRange f 0 l.length l = (List.range l.length).map f := by
  apply List.ext_getElem?
  intro i
  rw [setRange_getElem? f l.length 0 l i (by omega)]
  by_cases h : i < l.length
  · simp [h]
  · simp [h]


section
variable {α : Type} [Add α] [Sub α] [Mul α] [Div α] [Neg α] [LT α] [DecidableLT α] [NatCast α] [Trans α]

/-- the loop of `compute(points, pointsKdTree, normals)` for `v2f`, `cnt` passes from index `k`: entries `k … k + cnt - 1` of the
    output vectors are overwritten with the per-point values (the oracle `planeEstimation_` read at each index), never `none` -/
theorem compute_n_v2f_loop (N : Int) (ev0 ev1 e00 e01 e10 e11 : Int → α) (points : List (α × α)) (d : α × α) (cnt : Nat) :
    ∀ (k : Nat) (a0 a1 b00 b01 b10 b11 : α) (normals : List (α × α)),
    k + cnt ≤ normals.length → k + cnt ≤ points.length →
    (Src.C09.NormalAndCurvatureEstimation.compute_n_v2f.loop1 N ev0 ev1 e00 e01 e10 e11 points cnt a0 a1 b00 b01 b10 b11 (k : Int) normals).map (fun r => (r.2.2.2.2.2.2.2))
      = some (setRange (fun i : Nat => Src.C09.flipNormalTowardOriginCoordinate_v2f (e00 (i : Int)) (e10 (i : Int)) (points.getD i d).1 (points.getD i d).2) k cnt normals) := by
  induction cnt with
  | zero => intros; rfl
  | succ cnt ih =>
    intro k a0 a1 b00 b01 b10 b11 normals h0 h1
    unfold Src.C09.NormalAndCurvatureEstimation.compute_n_v2f.loop1
    simp only []
    rw [vecSet_ok normals k _ (by omega)]
    simp only []
    rw [vecGet_set normals k _ (by omega), vecGet_ok points k d (by omega)]
    simp only []
    rw [vecSet_ok (normals.set k _) k _ (by simp; omega)]
    simp only []
    have hk : ((k : Int) + 1) = ((k + 1 : Nat) : Int) := by omega
    rw [hk, List.set_set]
    simp only [setRange]
    exact ih (k + 1) _ _ _ _ _ _ _ (by simp; omega) (by omega)

/-- `compute(points, pointsKdTree, normals)` for `v2f` as translated: with output vectors of the size of the cloud it returns (never
    `none`) the per-point values, index by index — for every value the oracle functions `ev*` / `e**` (what `planeEstimation_` leaves in
    `eigenValues_` / `eigenVectors_` at each index) may take and whatever the members and the output vectors held before -/
theorem compute_n_v2f_bridge (ev0 ev1 e00 e01 e10 e11 : Int → α) (points : List (α × α)) (d : α × α)
    (a0 a1 b00 b01 b10 b11 : α) (normals : List (α × α))
    (h2 : normals.length = points.length) :
    (Src.C09.NormalAndCurvatureEstimation.compute_n_v2f a0 a1 b00 b01 b10 b11 normals ev0 ev1 e00 e01 e10 e11 points).map (fun r => (r.2.2.2.2.2.2))
      = some ((List.range points.length).map (fun i : Nat => Src.C09.flipNormalTowardOriginCoordinate_v2f (e00 (i : Int)) (e10 (i : Int)) (points.getD i d).1 (points.getD i d).2)) := by
  unfold Src.C09.NormalAndCurvatureEstimation.compute_n_v2f
  simp only []
  have hN : Int.toNat ((points.length : Int) - 0) = points.length := by omega
  rw [hN]
  have hl := compute_n_v2f_loop (points.length : Int) ev0 ev1 e00 e01 e10 e11 points d points.length 0 a0 a1 b00 b01 b10 b11 normals (by omega) (by omega)
  rw [← h2, setRange_all, h2] at hl
  cases hc : Src.C09.NormalAndCurvatureEstimation.compute_n_v2f.loop1 (points.length : Int) ev0 ev1 e00 e01 e10 e11 points points.length a0 a1 b00 b01 b10 b11 0 normals with
  | none => rw [show ((0 : Nat) : Int) = 0 from rfl] at hl; rw [hc] at hl; exact absurd hl (by simp)
  | some r => rw [show ((0 : Nat) : Int) = 0 from rfl] at hl; rw [hc] at hl; simpa using hl


/-- the loop of `compute(points, pointsKdTree, normals, curvatures)` for `v2f`, `cnt` passes from index `k`: entries `k … k + cnt - 1` of the
    output vectors are overwritten with the per-point values (the oracle `planeEstimation_` read at each index), never `none` -/
theorem compute_c_v2f_loop (N : Int) (ev0 ev1 e00 e01 e10 e11 : Int → α) (points : List (α × α)) (d : α × α) (cnt : Nat) :
    ∀ (k : Nat) (curv : List α) (a0 a1 b00 b01 b10 b11 : α) (normals : List (α × α)),
    k + cnt ≤ curv.length → k + cnt ≤ normals.length → k + cnt ≤ points.length →
    (Src.C09.NormalAndCurvatureEstimation.compute_c_v2f.loop1 N ev0 ev1 e00 e01 e10 e11 points cnt curv a0 a1 b00 b01 b10 b11 (k : Int) normals).map (fun r => (r.1, r.2.2.2.2.2.2.2.2))
      = some (setRange (fun i : Nat => ev0 (i : Int) / (ev0 (i : Int) + ev1 (i : Int))) k cnt curv, setRange (fun i : Nat => Src.C09.flipNormalTowardOriginCoordinate_v2f (e00 (i : Int)) (e10 (i : Int)) (points.getD i d).1 (points.getD i d).2) k cnt normals) := by
  induction cnt with
  | zero => intros; rfl
  | succ cnt ih =>
    intro k curv a0 a1 b00 b01 b10 b11 normals h0 h1 h2
    unfold Src.C09.NormalAndCurvatureEstimation.compute_c_v2f.loop1
    simp only []
    rw [vecSet_ok curv k _ (by omega)]
    simp only []
    rw [vecSet_ok normals k _ (by omega)]
    simp only []
    rw [vecGet_set normals k _ (by omega), vecGet_ok points k d (by omega)]
    simp only []
    rw [vecSet_ok (normals.set k _) k _ (by simp; omega)]
    simp only []
    have hk : ((k : Int) + 1) = ((k + 1 : Nat) : Int) := by omega
    rw [hk, List.set_set]
    simp only [setRange]
    exact ih (k + 1) _ _ _ _ _ _ _ _ (by simp; omega) (by simp; omega) (by omega)

/-- `compute(points, pointsKdTree, normals, curvatures)` for `v2f` as translated: with output vectors of the size of the cloud it returns (never
    `none`) the per-point values, index by index — for every value the oracle functions `ev*` / `e**` (what `planeEstimation_` leaves in
    `eigenValues_` / `eigenVectors_` at each index) may take and whatever the members and the output vectors held before -/
theorem compute_c_v2f_bridge (ev0 ev1 e00 e01 e10 e11 : Int → α) (points : List (α × α)) (d : α × α)
    (curv : List α) (a0 a1 b00 b01 b10 b11 : α) (normals : List (α × α))
    (h1 : curv.length = points.length) (h2 : normals.length = points.length) :
    (Src.C09.NormalAndCurvatureEstimation.compute_c_v2f curv a0 a1 b00 b01 b10 b11 normals ev0 ev1 e00 e01 e10 e11 points).map (fun r => (r.1, r.2.2.2.2.2.2.2))
      = some ((List.range points.length).map (fun i : Nat => ev0 (i : Int) / (ev0 (i : Int) + ev1 (i : Int))), (List.range points.length).map (fun i : Nat => Src.C09.flipNormalTowardOriginCoordinate_v2f (e00 (i : Int)) (e10 (i : Int)) (points.getD i d).1 (points.getD i d).2)) := by
  unfold Src.C09.NormalAndCurvatureEstimation.compute_c_v2f
  simp only []
  have hN : Int.toNat ((points.length : Int) - 0) = points.length := by omega
  rw [hN]
  have hl := compute_c_v2f_loop (points.length : Int) ev0 ev1 e00 e01 e10 e11 points d points.length 0 curv a0 a1 b00 b01 b10 b11 normals (by omega) (by omega) (by omega)
  rw [← h1, setRange_all, h1, ← h2, setRange_all, h2] at hl
  cases hc : Src.C09.NormalAndCurvatureEstimation.compute_c_v2f.loop1 (points.length : Int) ev0 ev1 e00 e01 e10 e11 points points.length curv a0 a1 b00 b01 b10 b11 0 normals with
  | none => rw [show ((0 : Nat) : Int) = 0 from rfl] at hl; rw [hc] at hl; exact absurd hl (by simp)
  | some r => rw [show ((0 : Nat) : Int) = 0 from rfl] at hl; rw [hc] at hl; simpa using hl


/-- the loop of `compute(points, pointsKdTree, normals, curvatures, normalsReliability)` for `v2f`, `cnt` passes from index `k`: entries `k … k + cnt - 1` of the
    output vectors are overwritten with the per-point values (the oracle `planeEstimation_` read at each index), never `none` -/
theorem compute_r_v2f_loop (N : Int) (ev0 ev1 e00 e01 e10 e11 : Int → α) (points : List (α × α)) (d : α × α) (cnt : Nat) :
    ∀ (k : Nat) (curv : List α) (a0 a1 b00 b01 b10 b11 : α) (normals : List (α × α)) (rel : List α),
    k + cnt ≤ curv.length → k + cnt ≤ normals.length → k + cnt ≤ rel.length → k + cnt ≤ points.length →
    (Src.C09.NormalAndCurvatureEstimation.compute_r_v2f.loop1 N ev0 ev1 e00 e01 e10 e11 points cnt curv a0 a1 b00 b01 b10 b11 (k : Int) normals rel).map (fun r => (r.1, r.2.2.2.2.2.2.2.2.1, r.2.2.2.2.2.2.2.2.2))
      = some (setRange (fun i : Nat => ev0 (i : Int) / (ev0 (i : Int) + ev1 (i : Int))) k cnt curv, setRange (fun i : Nat => Src.C09.flipNormalTowardOriginCoordinate_v2f (e00 (i : Int)) (e10 (i : Int)) (points.getD i d).1 (points.getD i d).2) k cnt normals, setRange (fun i : Nat => Src.C09.NormalAndCurvatureEstimation.computeNormalReliability_v2f (ev0 (i : Int)) (ev1 (i : Int))) k cnt rel) := by
  induction cnt with
  | zero => intros; rfl
  | succ cnt ih =>
    intro k curv a0 a1 b00 b01 b10 b11 normals rel h0 h1 h2 h3
    unfold Src.C09.NormalAndCurvatureEstimation.compute_r_v2f.loop1
    simp only []
    rw [vecSet_ok curv k _ (by omega)]
    simp only []
    rw [vecSet_ok normals k _ (by omega)]
    simp only []
    rw [vecGet_set normals k _ (by omega), vecGet_ok points k d (by omega)]
    simp only []
    rw [vecSet_ok (normals.set k _) k _ (by simp; omega)]
    simp only []
    rw [vecSet_ok rel k _ (by omega)]
    simp only []
    have hk : ((k : Int) + 1) = ((k + 1 : Nat) : Int) := by omega
    rw [hk, List.set_set]
    simp only [setRange]
    exact ih (k + 1) _ _ _ _ _ _ _ _ _ (by simp; omega) (by simp; omega) (by simp; omega) (by omega)

/-- `compute(points, pointsKdTree, normals, curvatures, normalsReliability)` for `v2f` as translated: with output vectors of the size of the cloud it returns (never
    `none`) the per-point values, index by index — for every value the oracle functions `ev*` / `e**` (what `planeEstimation_` leaves in
    `eigenValues_` / `eigenVectors_` at each index) may take and whatever the members and the output vectors held before -/
theorem compute_r_v2f_bridge (ev0 ev1 e00 e01 e10 e11 : Int → α) (points : List (α × α)) (d : α × α)
    (curv : List α) (a0 a1 b00 b01 b10 b11 : α) (normals : List (α × α)) (rel : List α)
    (h1 : curv.length = points.length) (h2 : normals.length = points.length) (h3 : rel.length = points.length) :
    (Src.C09.NormalAndCurvatureEstimation.compute_r_v2f curv a0 a1 b00 b01 b10 b11 normals rel ev0 ev1 e00 e01 e10 e11 points).map (fun r => (r.1, r.2.2.2.2.2.2.2.1, r.2.2.2.2.2.2.2.2))
      = some ((List.range points.length).map (fun i : Nat => ev0 (i : Int) / (ev0 (i : Int) + ev1 (i : Int))), (List.range points.length).map (fun i : Nat => Src.C09.flipNormalTowardOriginCoordinate_v2f (e00 (i : Int)) (e10 (i : Int)) (points.getD i d).1 (points.getD i d).2), (List.range points.length).map (fun i : Nat => Src.C09.NormalAndCurvatureEstimation.computeNormalReliability_v2f (ev0 (i : Int)) (ev1 (i : Int)))) := by
  unfold Src.C09.NormalAndCurvatureEstimation.compute_r_v2f
  simp only []
  have hN : Int.toNat ((points.length : Int) - 0) = points.length := by omega
  rw [hN]
  have hl := compute_r_v2f_loop (points.length : Int) ev0 ev1 e00 e01 e10 e11 points d points.length 0 curv a0 a1 b00 b01 b10 b11 normals rel (by omega) (by omega) (by omega) (by omega)
  rw [← h1, setRange_all, h1, ← h2, setRange_all, h2, ← h3, setRange_all, h3] at hl
  cases hc : Src.C09.NormalAndCurvatureEstimation.compute_r_v2f.loop1 (points.length : Int) ev0 ev1 e00 e01 e10 e11 points points.length curv a0 a1 b00 b01 b10 b11 0 normals rel with
  | none => rw [show ((0 : Nat) : Int) = 0 from rfl] at hl; rw [hc] at hl; exact absurd hl (by simp)
  | some r => rw [show ((0 : Nat) : Int) = 0 from rfl] at hl; rw [hc] at hl; simpa using hl


/-- the loop of `compute(points, pointsKdTree, normals)` for `v2d`, `cnt` passes from index `k`: entries `k … k + cnt - 1` of the
    output vectors are overwritten with the per-point values (the oracle `planeEstimation_` read at each index), never `none` -/
theorem compute_n_v2d_loop (N : Int) (ev0 ev1 e00 e01 e10 e11 : Int → α) (points : List (α × α)) (d : α × α) (cnt : Nat) :
    ∀ (k : Nat) (a0 a1 b00 b01 b10 b11 : α) (normals : List (α × α)),
    k + cnt ≤ normals.length → k + cnt ≤ points.length →
    (Src.C09.NormalAndCurvatureEstimation.compute_n_v2d.loop1 N ev0 ev1 e00 e01 e10 e11 points cnt a0 a1 b00 b01 b10 b11 (k : Int) normals).map (fun r => (r.2.2.2.2.2.2.2))
      = some (setRange (fun i : Nat => Src.C09.flipNormalTowardOriginCoordinate_v2d (e00 (i : Int)) (e10 (i : Int)) (points.getD i d).1 (points.getD i d).2) k cnt normals) := by
  induction cnt with
  | zero => intros; rfl
  | succ cnt ih =>
    intro k a0 a1 b00 b01 b10 b11 normals h0 h1
    unfold Src.C09.NormalAndCurvatureEstimation.compute_n_v2d.loop1
    simp only []
    rw [vecSet_ok normals k _ (by omega)]
    simp only []
    rw [vecGet_set normals k _ (by omega), vecGet_ok points k d (by omega)]
    simp only []
    rw [vecSet_ok (normals.set k _) k _ (by simp; omega)]
    simp only []
    have hk : ((k : Int) + 1) = ((k + 1 : Nat) : Int) := by omega
    rw [hk, List.set_set]
    simp only [setRange]
    exact ih (k + 1) _ _ _ _ _ _ _ (by simp; omega) (by omega)

/-- `compute(points, pointsKdTree, normals)` for `v2d` as translated: with output vectors of the size of the cloud it returns (never
    `none`) the per-point values, index by index — for every value the oracle functions `ev*` / `e**` (what `planeEstimation_` leaves in
    `eigenValues_` / `eigenVectors_` at each index) may take and whatever the members and the output vectors held before -/
theorem compute_n_v2d_bridge (ev0 ev1 e00 e01 e10 e11 : Int → α) (points : List (α × α)) (d : α × α)
    (a0 a1 b00 b01 b10 b11 : α) (normals : List (α × α))
    (h2 : normals.length = points.length) :
    (Src.C09.NormalAndCurvatureEstimation.compute_n_v2d a0 a1 b00 b01 b10 b11 normals ev0 ev1 e00 e01 e10 e11 points).map (fun r => (r.2.2.2.2.2.2))
      = some ((List.range points.length).map (fun i : Nat => Src.C09.flipNormalTowardOriginCoordinate_v2d (e00 (i : Int)) (e10 (i : Int)) (points.getD i d).1 (points.getD i d).2)) := by
  unfold Src.C09.NormalAndCurvatureEstimation.compute_n_v2d
  simp only []
  have hN : Int.toNat ((points.length : Int) - 0) = points.length := by omega
  rw [hN]
  have hl := compute_n_v2d_loop (points.length : Int) ev0 ev1 e00 e01 e10 e11 points d points.length 0 a0 a1 b00 b01 b10 b11 normals (by omega) (by omega)
  rw [← h2, setRange_all, h2] at hl
  cases hc : Src.C09.NormalAndCurvatureEstimation.compute_n_v2d.loop1 (points.length : Int) ev0 ev1 e00 e01 e10 e11 points points.length a0 a1 b00 b01 b10 b11 0 normals with
  | none => rw [show ((0 : Nat) : Int) = 0 from rfl] at hl; rw [hc] at hl; exact absurd hl (by simp)
  | some r => rw [show ((0 : Nat) : Int) = 0 from rfl] at hl; rw [hc] at hl; simpa using hl


/-- the loop of `compute(points, pointsKdTree, normals, curvatures)` for `v2d`, `cnt` passes from index `k`: entries `k … k + cnt - 1` of the
    output vectors are overwritten with the per-point values (the oracle `planeEstimation_` read at each index), never `none` -/
theorem compute_c_v2d_loop (N : Int) (ev0 ev1 e00 e01 e10 e11 : Int → α) (points : List (α × α)) (d : α × α) (cnt : Nat) :
    ∀ (k : Nat) (curv : List α) (a0 a1 b00 b01 b10 b11 : α) (normals : List (α × α)),
    k + cnt ≤ curv.length → k + cnt ≤ normals.length → k + cnt ≤ points.length →
    (Src.C09.NormalAndCurvatureEstimation.compute_c_v2d.loop1 N ev0 ev1 e00 e01 e10 e11 points cnt curv a0 a1 b00 b01 b10 b11 (k : Int) normals).map (fun r => (r.1, r.2.2.2.2.2.2.2.2))
      = some (setRange (fun i : Nat => ev0 (i : Int) / (ev0 (i : Int) + ev1 (i : Int))) k cnt curv, setRange (fun i : Nat => Src.C09.flipNormalTowardOriginCoordinate_v2d (e00 (i : Int)) (e10 (i : Int)) (points.getD i d).1 (points.getD i d).2) k cnt normals) := by
  induction cnt with
  | zero => intros; rfl
  | succ cnt ih =>
    intro k curv a0 a1 b00 b01 b10 b11 normals h0 h1 h2
    unfold Src.C09.NormalAndCurvatureEstimation.compute_c_v2d.loop1
    simp only []
    rw [vecSet_ok curv k _ (by omega)]
    simp only []
    rw [vecSet_ok normals k _ (by omega)]
    simp only []
    rw [vecGet_set normals k _ (by omega), vecGet_ok points k d (by omega)]
    simp only []
    rw [vecSet_ok (normals.set k _) k _ (by simp; omega)]
    simp only []
    have hk : ((k : Int) + 1) = ((k + 1 : Nat) : Int) := by omega
    rw [hk, List.set_set]
    simp only [setRange]
    exact ih (k + 1) _ _ _ _ _ _ _ _ (by simp; omega) (by simp; omega) (by omega)

/-- `compute(points, pointsKdTree, normals, curvatures)` for `v2d` as translated: with output vectors of the size of the cloud it returns (never
    `none`) the per-point values, index by index — for every value the oracle functions `ev*` / `e**` (what `planeEstimation_` leaves in
    `eigenValues_` / `eigenVectors_` at each index) may take and whatever the members and the output vectors held before -/
theorem compute_c_v2d_bridge (ev0 ev1 e00 e01 e10 e11 : Int → α) (points : List (α × α)) (d : α × α)
    (curv : List α) (a0 a1 b00 b01 b10 b11 : α) (normals : List (α × α))
    (h1 : curv.length = points.length) (h2 : normals.length = points.length) :
    (Src.C09.NormalAndCurvatureEstimation.compute_c_v2d curv a0 a1 b00 b01 b10 b11 normals ev0 ev1 e00 e01 e10 e11 points).map (fun r => (r.1, r.2.2.2.2.2.2.2))
      = some ((List.range points.length).map (fun i : Nat => ev0 (i : Int) / (ev0 (i : Int) + ev1 (i : Int))), (List.range points.length).map (fun i : Nat => Src.C09.flipNormalTowardOriginCoordinate_v2d (e00 (i : Int)) (e10 (i : Int)) (points.getD i d).1 (points.getD i d).2)) := by
  unfold Src.C09.NormalAndCurvatureEstimation.compute_c_v2d
  simp only []
  have hN : Int.toNat ((points.length : Int) - 0) = points.length := by omega
  rw [hN]
  have hl := compute_c_v2d_loop (points.length : Int) ev0 ev1 e00 e01 e10 e11 points d points.length 0 curv a0 a1 b00 b01 b10 b11 normals (by omega) (by omega) (by omega)
  rw [← h1, setRange_all, h1, ← h2, setRange_all, h2] at hl
  cases hc : Src.C09.NormalAndCurvatureEstimation.compute_c_v2d.loop1 (points.length : Int) ev0 ev1 e00 e01 e10 e11 points points.length curv a0 a1 b00 b01 b10 b11 0 normals with
  | none => rw [show ((0 : Nat) : Int) = 0 from rfl] at hl; rw [hc] at hl; exact absurd hl (by simp)
  | some r => rw [show ((0 : Nat) : Int) = 0 from rfl] at hl; rw [hc] at hl; simpa using hl


/-- the loop of `compute(points, pointsKdTree, normals, curvatures, normalsReliability)` for `v2d`, `cnt` passes from index `k`: entries `k … k + cnt - 1` of the
    output vectors are overwritten with the per-point values (the oracle `planeEstimation_` read at each index), never `none` -/
theorem compute_r_v2d_loop (N : Int) (ev0 ev1 e00 e01 e10 e11 : Int → α) (points : List (α × α)) (d : α × α) (cnt : Nat) :
    ∀ (k : Nat) (curv : List α) (a0 a1 b00 b01 b10 b11 : α) (normals : List (α × α)) (rel : List α),
    k + cnt ≤ curv.length → k + cnt ≤ normals.length → k + cnt ≤ rel.length → k + cnt ≤ points.length →
    (Src.C09.NormalAndCurvatureEstimation.compute_r_v2d.loop1 N ev0 ev1 e00 e01 e10 e11 points cnt curv a0 a1 b00 b01 b10 b11 (k : Int) normals rel).map (fun r => (r.1, r.2.2.2.2.2.2.2.2.1, r.2.2.2.2.2.2.2.2.2))
      = some (setRange (fun i : Nat => ev0 (i : Int) / (ev0 (i : Int) + ev1 (i : Int))) k cnt curv, setRange (fun i : Nat => Src.C09.flipNormalTowardOriginCoordinate_v2d (e00 (i : Int)) (e10 (i : Int)) (points.getD i d).1 (points.getD i d).2) k cnt normals, setRange (fun i : Nat => Src.C09.NormalAndCurvatureEstimation.computeNormalReliability_v2d (ev0 (i : Int)) (ev1 (i : Int))) k cnt rel) := by
  induction cnt with
  | zero => intros; rfl
  | succ cnt ih =>
    intro k curv a0 a1 b00 b01 b10 b11 normals rel h0 h1 h2 h3
    unfold Src.C09.NormalAndCurvatureEstimation.compute_r_v2d.loop1
    simp only []
    rw [vecSet_ok curv k _ (by omega)]
    simp only []
    rw [vecSet_ok normals k _ (by omega)]
    simp only []
    rw [vecGet_set normals k _ (by omega), vecGet_ok points k d (by omega)]
    simp only []
    rw [vecSet_ok (normals.set k _) k _ (by simp; omega)]
    simp only []
    rw [vecSet_ok rel k _ (by omega)]
    simp only []
    have hk : ((k : Int) + 1) = ((k + 1 : Nat) : Int) := by omega
    rw [hk, List.set_set]
    simp only [setRange]
    exact ih (k + 1) _ _ _ _ _ _ _ _ _ (by simp; omega) (by simp; omega) (by simp; omega) (by omega)

/-- `compute(points, pointsKdTree, normals, curvatures, normalsReliability)` for `v2d` as translated: with output vectors of the size of the cloud it returns (never
    `none`) the per-point values, index by index — for every value the oracle functions `ev*` / `e**` (what `planeEstimation_` leaves in
    `eigenValues_` / `eigenVectors_` at each index) may take and whatever the members and the output vectors held before -/
theorem compute_r_v2d_bridge (ev0 ev1 e00 e01 e10 e11 : Int → α) (points : List (α × α)) (d : α × α)
    (curv : List α) (a0 a1 b00 b01 b10 b11 : α) (normals : List (α × α)) (rel : List α)
    (h1 : curv.length = points.length) (h2 : normals.length = points.length) (h3 : rel.length = points.length) :
    (Src.C09.NormalAndCurvatureEstimation.compute_r_v2d curv a0 a1 b00 b01 b10 b11 normals rel ev0 ev1 e00 e01 e10 e11 points).map (fun r => (r.1, r.2.2.2.2.2.2.2.1, r.2.2.2.2.2.2.2.2))
      = some ((List.range points.length).map (fun i : Nat => ev0 (i : Int) / (ev0 (i : Int) + ev1 (i : Int))), (List.range points.length).map (fun i : Nat => Src.C09.flipNormalTowardOriginCoordinate_v2d (e00 (i : Int)) (e10 (i : Int)) (points.getD i d).1 (points.getD i d).2), (List.range points.length).map (fun i : Nat => Src.C09.NormalAndCurvatureEstimation.computeNormalReliability_v2d (ev0 (i : Int)) (ev1 (i : Int)))) := by
  unfold Src.C09.NormalAndCurvatureEstimation.compute_r_v2d
  simp only []
  have hN : Int.toNat ((points.length : Int) - 0) = points.length := by omega
  rw [hN]
  have hl := compute_r_v2d_loop (points.length : Int) ev0 ev1 e00 e01 e10 e11 points d points.length 0 curv a0 a1 b00 b01 b10 b11 normals rel (by omega) (by omega) (by omega) (by omega)
  rw [← h1, setRange_all, h1, ← h2, setRange_all, h2, ← h3, setRange_all, h3] at hl
  cases hc : Src.C09.NormalAndCurvatureEstimation.compute_r_v2d.loop1 (points.length : Int) ev0 ev1 e00 e01 e10 e11 points points.length curv a0 a1 b00 b01 b10 b11 0 normals rel with
  | none => rw [show ((0 : Nat) : Int) = 0 from rfl] at hl; rw [hc] at hl; exact absurd hl (by simp)
  | some r => rw [show ((0 : Nat) : Int) = 0 from rfl] at hl; rw [hc] at hl; simpa using hl


/-- the loop of `compute(points, pointsKdTree, normals)` for `v3f`, `cnt` passes from index `k`: entries `k … k + cnt - 1` of the
    output vectors are overwritten with the per-point values (the oracle `planeEstimation_` read at each index), never `none` -/
theorem compute_n_v3f_loop (N : Int) (ev0 ev1 ev2 e00 e01 e02 e10 e11 e12 e20 e21 e22 : Int → α) (points : List (α × α × α)) (d : α × α × α) (cnt : Nat) :
    ∀ (k : Nat) (a0 a1 a2 b00 b01 b02 b10 b11 b12 b20 b21 b22 : α) (normals : List (α × α × α)),
    k + cnt ≤ normals.length → k + cnt ≤ points.length →
    (Src.C09.NormalAndCurvatureEstimation.compute_n_v3f.loop1 N ev0 ev1 ev2 e00 e01 e02 e10 e11 e12 e20 e21 e22 points cnt a0 a1 a2 b00 b01 b02 b10 b11 b12 b20 b21 b22 (k : Int) normals).map (fun r => (r.2.2.2.2.2.2.2.2.2.2.2.2.2))
      = some (setRange (fun i : Nat => Src.C09.flipNormalTowardOriginCoordinate_v3f (e00 (i : Int)) (e10 (i : Int)) (e20 (i : Int)) (points.getD i d).1 (points.getD i d).2.1 (points.getD i d).2.2) k cnt normals) := by
  induction cnt with
  | zero => intros; rfl
  | succ cnt ih =>
    intro k a0 a1 a2 b00 b01 b02 b10 b11 b12 b20 b21 b22 normals h0 h1
    unfold Src.C09.NormalAndCurvatureEstimation.compute_n_v3f.loop1
    simp only []
    rw [vecSet_ok normals k _ (by omega)]
    simp only []
    rw [vecGet_set normals k _ (by omega), vecGet_ok points k d (by omega)]
    simp only []
    rw [vecSet_ok (normals.set k _) k _ (by simp; omega)]
    simp only []
    have hk : ((k : Int) + 1) = ((k + 1 : Nat) : Int) := by omega
    rw [hk, List.set_set]
    simp only [setRange]
    exact ih (k + 1) _ _ _ _ _ _ _ _ _ _ _ _ _ (by simp; omega) (by omega)

/-- `compute(points, pointsKdTree, normals)` for `v3f` as translated: with output vectors of the size of the cloud it returns (never
    `none`) the per-point values, index by index — for every value the oracle functions `ev*` / `e**` (what `planeEstimation_` leaves in
    `eigenValues_` / `eigenVectors_` at each index) may take and whatever the members and the output vectors held before -/
theorem compute_n_v3f_bridge (ev0 ev1 ev2 e00 e01 e02 e10 e11 e12 e20 e21 e22 : Int → α) (points : List (α × α × α)) (d : α × α × α)
    (a0 a1 a2 b00 b01 b02 b10 b11 b12 b20 b21 b22 : α) (normals : List (α × α × α))
    (h2 : normals.length = points.length) :
    (Src.C09.NormalAndCurvatureEstimation.compute_n_v3f a0 a1 a2 b00 b01 b02 b10 b11 b12 b20 b21 b22 normals ev0 ev1 ev2 e00 e01 e02 e10 e11 e12 e20 e21 e22 points).map (fun r => (r.2.2.2.2.2.2.2.2.2.2.2.2))
      = some ((List.range points.length).map (fun i : Nat => Src.C09.flipNormalTowardOriginCoordinate_v3f (e00 (i : Int)) (e10 (i : Int)) (e20 (i : Int)) (points.getD i d).1 (points.getD i d).2.1 (points.getD i d).2.2)) := by
  unfold Src.C09.NormalAndCurvatureEstimation.compute_n_v3f
  simp only []
  have hN : Int.toNat ((points.length : Int) - 0) = points.length := by omega
  rw [hN]
  have hl := compute_n_v3f_loop (points.length : Int) ev0 ev1 ev2 e00 e01 e02 e10 e11 e12 e20 e21 e22 points d points.length 0 a0 a1 a2 b00 b01 b02 b10 b11 b12 b20 b21 b22 normals (by omega) (by omega)
  rw [← h2, setRange_all, h2] at hl
  cases hc : Src.C09.NormalAndCurvatureEstimation.compute_n_v3f.loop1 (points.length : Int) ev0 ev1 ev2 e00 e01 e02 e10 e11 e12 e20 e21 e22 points points.length a0 a1 a2 b00 b01 b02 b10 b11 b12 b20 b21 b22 0 normals with
  | none => rw [show ((0 : Nat) : Int) = 0 from rfl] at hl; rw [hc] at hl; exact absurd hl (by simp)
  | some r => rw [show ((0 : Nat) : Int) = 0 from rfl] at hl; rw [hc] at hl; simpa using hl


/-- the loop of `compute(points, pointsKdTree, normals, curvatures)` for `v3f`, `cnt` passes from index `k`: entries `k … k + cnt - 1` of the
    output vectors are overwritten with the per-point values (the oracle `planeEstimation_` read at each index), never `none` -/
theorem compute_c_v3f_loop (N : Int) (ev0 ev1 ev2 e00 e01 e02 e10 e11 e12 e20 e21 e22 : Int → α) (points : List (α × α × α)) (d : α × α × α) (cnt : Nat) :
    ∀ (k : Nat) (curv : List α) (a0 a1 a2 b00 b01 b02 b10 b11 b12 b20 b21 b22 : α) (normals : List (α × α × α)),
    k + cnt ≤ curv.length → k + cnt ≤ normals.length → k + cnt ≤ points.length →
    (Src.C09.NormalAndCurvatureEstimation.compute_c_v3f.loop1 N ev0 ev1 ev2 e00 e01 e02 e10 e11 e12 e20 e21 e22 points cnt curv a0 a1 a2 b00 b01 b02 b10 b11 b12 b20 b21 b22 (k : Int) normals).map (fun r => (r.1, r.2.2.2.2.2.2.2.2.2.2.2.2.2.2))
      = some (setRange (fun i : Nat => ev0 (i : Int) / ((ev0 (i : Int) + ev1 (i : Int)) + ev2 (i : Int))) k cnt curv, setRange (fun i : Nat => Src.C09.flipNormalTowardOriginCoordinate_v3f (e00 (i : Int)) (e10 (i : Int)) (e20 (i : Int)) (points.getD i d).1 (points.getD i d).2.1 (points.getD i d).2.2) k cnt normals) := by
  induction cnt with
  | zero => intros; rfl
  | succ cnt ih =>
    intro k curv a0 a1 a2 b00 b01 b02 b10 b11 b12 b20 b21 b22 normals h0 h1 h2
    unfold Src.C09.NormalAndCurvatureEstimation.compute_c_v3f.loop1
    simp only []
    rw [vecSet_ok curv k _ (by omega)]
    simp only []
    rw [vecSet_ok normals k _ (by omega)]
    simp only []
    rw [vecGet_set normals k _ (by omega), vecGet_ok points k d (by omega)]
    simp only []
    rw [vecSet_ok (normals.set k _) k _ (by simp; omega)]
    simp only []
    have hk : ((k : Int) + 1) = ((k + 1 : Nat) : Int) := by omega
    rw [hk, List.set_set]
    simp only [setRange]
    exact ih (k + 1) _ _ _ _ _ _ _ _ _ _ _ _ _ _ (by simp; omega) (by simp; omega) (by omega)

/-- `compute(points, pointsKdTree, normals, curvatures)` for `v3f` as translated: with output vectors of the size of the cloud it returns (never
    `none`) the per-point values, index by index — for every value the oracle functions `ev*` / `e**` (what `planeEstimation_` leaves in
    `eigenValues_` / `eigenVectors_` at each index) may take and whatever the members and the output vectors held before -/
theorem compute_c_v3f_bridge (ev0 ev1 ev2 e00 e01 e02 e10 e11 e12 e20 e21 e22 : Int → α) (points : List (α × α × α)) (d : α × α × α)
    (curv : List α) (a0 a1 a2 b00 b01 b02 b10 b11 b12 b20 b21 b22 : α) (normals : List (α × α × α))
    (h1 : curv.length = points.length) (h2 : normals.length = points.length) :
    (Src.C09.NormalAndCurvatureEstimation.compute_c_v3f curv a0 a1 a2 b00 b01 b02 b10 b11 b12 b20 b21 b22 normals ev0 ev1 ev2 e00 e01 e02 e10 e11 e12 e20 e21 e22 points).map (fun r => (r.1, r.2.2.2.2.2.2.2.2.2.2.2.2.2))
      = some ((List.range points.length).map (fun i : Nat => ev0 (i : Int) / ((ev0 (i : Int) + ev1 (i : Int)) + ev2 (i : Int))), (List.range points.length).map (fun i : Nat => Src.C09.flipNormalTowardOriginCoordinate_v3f (e00 (i : Int)) (e10 (i : Int)) (e20 (i : Int)) (points.getD i d).1 (points.getD i d).2.1 (points.getD i d).2.2)) := by
  unfold Src.C09.NormalAndCurvatureEstimation.compute_c_v3f
  simp only []
  have hN : Int.toNat ((points.length : Int) - 0) = points.length := by omega
  rw [hN]
  have hl := compute_c_v3f_loop (points.length : Int) ev0 ev1 ev2 e00 e01 e02 e10 e11 e12 e20 e21 e22 points d points.length 0 curv a0 a1 a2 b00 b01 b02 b10 b11 b12 b20 b21 b22 normals (by omega) (by omega) (by omega)
  rw [← h1, setRange_all, h1, ← h2, setRange_all, h2] at hl
  cases hc : Src.C09.NormalAndCurvatureEstimation.compute_c_v3f.loop1 (points.length : Int) ev0 ev1 ev2 e00 e01 e02 e10 e11 e12 e20 e21 e22 points points.length curv a0 a1 a2 b00 b01 b02 b10 b11 b12 b20 b21 b22 0 normals with
  | none => rw [show ((0 : Nat) : Int) = 0 from rfl] at hl; rw [hc] at hl; exact absurd hl (by simp)
  | some r => rw [show ((0 : Nat) : Int) = 0 from rfl] at hl; rw [hc] at hl; simpa using hl


/-- the loop of `compute(points, pointsKdTree, normals, curvatures, normalsReliability)` for `v3f`, `cnt` passes from index `k`: entries `k … k + cnt - 1` of the
    output vectors are overwritten with the per-point values (the oracle `planeEstimation_` read at each index), never `none` -/
theorem compute_r_v3f_loop (N : Int) (ev0 ev1 ev2 e00 e01 e02 e10 e11 e12 e20 e21 e22 : Int → α) (points : List (α × α × α)) (d : α × α × α) (cnt : Nat) :
    ∀ (k : Nat) (curv : List α) (a0 a1 a2 b00 b01 b02 b10 b11 b12 b20 b21 b22 : α) (normals : List (α × α × α)) (rel : List α),
    k + cnt ≤ curv.length → k + cnt ≤ normals.length → k + cnt ≤ rel.length → k + cnt ≤ points.length →
    (Src.C09.NormalAndCurvatureEstimation.compute_r_v3f.loop1 N ev0 ev1 ev2 e00 e01 e02 e10 e11 e12 e20 e21 e22 points cnt curv a0 a1 a2 b00 b01 b02 b10 b11 b12 b20 b21 b22 (k : Int) normals rel).map (fun r => (r.1, r.2.2.2.2.2.2.2.2.2.2.2.2.2.2.1, r.2.2.2.2.2.2.2.2.2.2.2.2.2.2.2))
      = some (setRange (fun i : Nat => ev0 (i : Int) / ((ev0 (i : Int) + ev1 (i : Int)) + ev2 (i : Int))) k cnt curv, setRange (fun i : Nat => Src.C09.flipNormalTowardOriginCoordinate_v3f (e00 (i : Int)) (e10 (i : Int)) (e20 (i : Int)) (points.getD i d).1 (points.getD i d).2.1 (points.getD i d).2.2) k cnt normals, setRange (fun i : Nat => Src.C09.NormalAndCurvatureEstimation.computeNormalReliability_v3f (ev0 (i : Int)) (ev1 (i : Int)) (ev2 (i : Int))) k cnt rel) := by
  induction cnt with
  | zero => intros; rfl
  | succ cnt ih =>
    intro k curv a0 a1 a2 b00 b01 b02 b10 b11 b12 b20 b21 b22 normals rel h0 h1 h2 h3
    unfold Src.C09.NormalAndCurvatureEstimation.compute_r_v3f.loop1
    simp only []
    rw [vecSet_ok curv k _ (by omega)]
    simp only []
    rw [vecSet_ok normals k _ (by omega)]
    simp only []
    rw [vecGet_set normals k _ (by omega), vecGet_ok points k d (by omega)]
    simp only []
    rw [vecSet_ok (normals.set k _) k _ (by simp; omega)]
    simp only []
    rw [vecSet_ok rel k _ (by omega)]
    simp only []
    have hk : ((k : Int) + 1) = ((k + 1 : Nat) : Int) := by omega
    rw [hk, List.set_set]
    simp only [setRange]
    exact ih (k + 1) _ _ _ _ _ _ _ _ _ _ _ _ _ _ _ (by simp; omega) (by simp; omega) (by simp; omega) (by omega)

/-- `compute(points, pointsKdTree, normals, curvatures, normalsReliability)` for `v3f` as translated: with output vectors of the size of the cloud it returns (never
    `none`) the per-point values, index by index — for every value the oracle functions `ev*` / `e**` (what `planeEstimation_` leaves in
    `eigenValues_` / `eigenVectors_` at each index) may take and whatever the members and the output vectors held before -/
theorem compute_r_v3f_bridge (ev0 ev1 ev2 e00 e01 e02 e10 e11 e12 e20 e21 e22 : Int → α) (points : List (α × α × α)) (d : α × α × α)
    (curv : List α) (a0 a1 a2 b00 b01 b02 b10 b11 b12 b20 b21 b22 : α) (normals : List (α × α × α)) (rel : List α)
    (h1 : curv.length = points.length) (h2 : normals.length = points.length) (h3 : rel.length = points.length) :
    (Src.C09.NormalAndCurvatureEstimation.compute_r_v3f curv a0 a1 a2 b00 b01 b02 b10 b11 b12 b20 b21 b22 normals rel ev0 ev1 ev2 e00 e01 e02 e10 e11 e12 e20 e21 e22 points).map (fun r => (r.1, r.2.2.2.2.2.2.2.2.2.2.2.2.2.1, r.2.2.2.2.2.2.2.2.2.2.2.2.2.2))
      = some ((List.range points.length).map (fun i : Nat => ev0 (i : Int) / ((ev0 (i : Int) + ev1 (i : Int)) + ev2 (i : Int))), (List.range points.length).map (fun i : Nat => Src.C09.flipNormalTowardOriginCoordinate_v3f (e00 (i : Int)) (e10 (i : Int)) (e20 (i : Int)) (points.getD i d).1 (points.getD i d).2.1 (points.getD i d).2.2), (List.range points.length).map (fun i : Nat => Src.C09.NormalAndCurvatureEstimation.computeNormalReliability_v3f (ev0 (i : Int)) (ev1 (i : Int)) (ev2 (i : Int)))) := by
  unfold Src.C09.NormalAndCurvatureEstimation.compute_r_v3f
  simp only []
  have hN : Int.toNat ((points.length : Int) - 0) = points.length := by omega
  rw [hN]
  have hl := compute_r_v3f_loop (points.length : Int) ev0 ev1 ev2 e00 e01 e02 e10 e11 e12 e20 e21 e22 points d points.length 0 curv a0 a1 a2 b00 b01 b02 b10 b11 b12 b20 b21 b22 normals rel (by omega) (by omega) (by omega) (by omega)
  rw [← h1, setRange_all, h1, ← h2, setRange_all, h2, ← h3, setRange_all, h3] at hl
  cases hc : Src.C09.NormalAndCurvatureEstimation.compute_r_v3f.loop1 (points.length : Int) ev0 ev1 ev2 e00 e01 e02 e10 e11 e12 e20 e21 e22 points points.length curv a0 a1 a2 b00 b01 b02 b10 b11 b12 b20 b21 b22 0 normals rel with
  | none => rw [show ((0 : Nat) : Int) = 0 from rfl] at hl; rw [hc] at hl; exact absurd hl (by simp)
  | some r => rw [show ((0 : Nat) : Int) = 0 from rfl] at hl; rw [hc] at hl; simpa using hl


/-- the loop of `compute(points, pointsKdTree, normals)` for `v3d`, `cnt` passes from index `k`: entries `k … k + cnt - 1` of the
    output vectors are overwritten with the per-point values (the oracle `planeEstimation_` read at each index), never `none` -/
theorem compute_n_v3d_loop (N : Int) (ev0 ev1 ev2 e00 e01 e02 e10 e11 e12 e20 e21 e22 : Int → α) (points : List (α × α × α)) (d : α × α × α) (cnt : Nat) :
    ∀ (k : Nat) (a0 a1 a2 b00 b01 b02 b10 b11 b12 b20 b21 b22 : α) (normals : List (α × α × α)),
    k + cnt ≤ normals.length → k + cnt ≤ points.length →
    (Src.C09.NormalAndCurvatureEstimation.compute_n_v3d.loop1 N ev0 ev1 ev2 e00 e01 e02 e10 e11 e12 e20 e21 e22 points cnt a0 a1 a2 b00 b01 b02 b10 b11 b12 b20 b21 b22 (k : Int) normals).map (fun r => (r.2.2.2.2.2.2.2.2.2.2.2.2.2))
      = some (setRange (fun i : Nat => Src.C09.flipNormalTowardOriginCoordinate_v3d (e00 (i : Int)) (e10 (i : Int)) (e20 (i : Int)) (points.getD i d).1 (points.getD i d).2.1 (points.getD i d).2.2) k cnt normals) := by
  induction cnt with
  | zero => intros; rfl
  | succ cnt ih =>
    intro k a0 a1 a2 b00 b01 b02 b10 b11 b12 b20 b21 b22 normals h0 h1
    unfold Src.C09.NormalAndCurvatureEstimation.compute_n_v3d.loop1
    simp only []
    rw [vecSet_ok normals k _ (by omega)]
    simp only []
    rw [vecGet_set normals k _ (by omega), vecGet_ok points k d (by omega)]
    simp only []
    rw [vecSet_ok (normals.set k _) k _ (by simp; omega)]
    simp only []
    have hk : ((k : Int) + 1) = ((k + 1 : Nat) : Int) := by omega
    rw [hk, List.set_set]
    simp only [setRange]
    exact ih (k + 1) _ _ _ _ _ _ _ _ _ _ _ _ _ (by simp; omega) (by omega)

/-- `compute(points, pointsKdTree, normals)` for `v3d` as translated: with output vectors of the size of the cloud it returns (never
    `none`) the per-point values, index by index — for every value the oracle functions `ev*` / `e**` (what `planeEstimation_` leaves in
    `eigenValues_` / `eigenVectors_` at each index) may take and whatever the members and the output vectors held before -/
theorem compute_n_v3d_bridge (ev0 ev1 ev2 e00 e01 e02 e10 e11 e12 e20 e21 e22 : Int → α) (points : List (α × α × α)) (d : α × α × α)
    (a0 a1 a2 b00 b01 b02 b10 b11 b12 b20 b21 b22 : α) (normals : List (α × α × α))
    (h2 : normals.length = points.length) :
    (Src.C09.NormalAndCurvatureEstimation.compute_n_v3d a0 a1 a2 b00 b01 b02 b10 b11 b12 b20 b21 b22 normals ev0 ev1 ev2 e00 e01 e02 e10 e11 e12 e20 e21 e22 points).map (fun r => (r.2.2.2.2.2.2.2.2.2.2.2.2))
      = some ((List.range points.length).map (fun i : Nat => Src.C09.flipNormalTowardOriginCoordinate_v3d (e00 (i : Int)) (e10 (i : Int)) (e20 (i : Int)) (points.getD i d).1 (points.getD i d).2.1 (points.getD i d).2.2)) := by
  unfold Src.C09.NormalAndCurvatureEstimation.compute_n_v3d
  simp only []
  have hN : Int.toNat ((points.length : Int) - 0) = points.length := by omega
  rw [hN]
  have hl := compute_n_v3d_loop (points.length : Int) ev0 ev1 ev2 e00 e01 e02 e10 e11 e12 e20 e21 e22 points d points.length 0 a0 a1 a2 b00 b01 b02 b10 b11 b12 b20 b21 b22 normals (by omega) (by omega)
  rw [← h2, setRange_all, h2] at hl
  cases hc : Src.C09.NormalAndCurvatureEstimation.compute_n_v3d.loop1 (points.length : Int) ev0 ev1 ev2 e00 e01 e02 e10 e11 e12 e20 e21 e22 points points.length a0 a1 a2 b00 b01 b02 b10 b11 b12 b20 b21 b22 0 normals with
  | none => rw [show ((0 : Nat) : Int) = 0 from rfl] at hl; rw [hc] at hl; exact absurd hl (by simp)
  | some r => rw [show ((0 : Nat) : Int) = 0 from rfl] at hl; rw [hc] at hl; simpa using hl


/-- the loop of `compute(points, pointsKdTree, normals, curvatures)` for `v3d`, `cnt` passes from index `k`: entries `k … k + cnt - 1` of the
    output vectors are overwritten with the per-point values (the oracle `planeEstimation_` read at each index), never `none` -/
theorem compute_c_v3d_loop (N : Int) (ev0 ev1 ev2 e00 e01 e02 e10 e11 e12 e20 e21 e22 : Int → α) (points : List (α × α × α)) (d : α × α × α) (cnt : Nat) :
    ∀ (k : Nat) (curv : List α) (a0 a1 a2 b00 b01 b02 b10 b11 b12 b20 b21 b22 : α) (normals : List (α × α × α)),
    k + cnt ≤ curv.length → k + cnt ≤ normals.length → k + cnt ≤ points.length →
    (Src.C09.NormalAndCurvatureEstimation.compute_c_v3d.loop1 N ev0 ev1 ev2 e00 e01 e02 e10 e11 e12 e20 e21 e22 points cnt curv a0 a1 a2 b00 b01 b02 b10 b11 b12 b20 b21 b22 (k : Int) normals).map (fun r => (r.1, r.2.2.2.2.2.2.2.2.2.2.2.2.2.2))
      = some (setRange (fun i : Nat => ev0 (i : Int) / ((ev0 (i : Int) + ev1 (i : Int)) + ev2 (i : Int))) k cnt curv, setRange (fun i : Nat => Src.C09.flipNormalTowardOriginCoordinate_v3d (e00 (i : Int)) (e10 (i : Int)) (e20 (i : Int)) (points.getD i d).1 (points.getD i d).2.1 (points.getD i d).2.2) k cnt normals) := by
  induction cnt with
  | zero => intros; rfl
  | succ cnt ih =>
    intro k curv a0 a1 a2 b00 b01 b02 b10 b11 b12 b20 b21 b22 normals h0 h1 h2
    unfold Src.C09.NormalAndCurvatureEstimation.compute_c_v3d.loop1
    simp only []
    rw [vecSet_ok curv k _ (by omega)]
    simp only []
    rw [vecSet_ok normals k _ (by omega)]
    simp only []
    rw [vecGet_set normals k _ (by omega), vecGet_ok points k d (by omega)]
    simp only []
    rw [vecSet_ok (normals.set k _) k _ (by simp; omega)]
    simp only []
    have hk : ((k : Int) + 1) = ((k + 1 : Nat) : Int) := by omega
    rw [hk, List.set_set]
    simp only [setRange]
    exact ih (k + 1) _ _ _ _ _ _ _ _ _ _ _ _ _ _ (by simp; omega) (by simp; omega) (by omega)

/-- `compute(points, pointsKdTree, normals, curvatures)` for `v3d` as translated: with output vectors of the size of the cloud it returns (never
    `none`) the per-point values, index by index — for every value the oracle functions `ev*` / `e**` (what `planeEstimation_` leaves in
    `eigenValues_` / `eigenVectors_` at each index) may take and whatever the members and the output vectors held before -/
theorem compute_c_v3d_bridge (ev0 ev1 ev2 e00 e01 e02 e10 e11 e12 e20 e21 e22 : Int → α) (points : List (α × α × α)) (d : α × α × α)
    (curv : List α) (a0 a1 a2 b00 b01 b02 b10 b11 b12 b20 b21 b22 : α) (normals : List (α × α × α))
    (h1 : curv.length = points.length) (h2 : normals.length = points.length) :
    (Src.C09.NormalAndCurvatureEstimation.compute_c_v3d curv a0 a1 a2 b00 b01 b02 b10 b11 b12 b20 b21 b22 normals ev0 ev1 ev2 e00 e01 e02 e10 e11 e12 e20 e21 e22 points).map (fun r => (r.1, r.2.2.2.2.2.2.2.2.2.2.2.2.2))
      = some ((List.range points.length).map (fun i : Nat => ev0 (i : Int) / ((ev0 (i : Int) + ev1 (i : Int)) + ev2 (i : Int))), (List.range points.length).map (fun i : Nat => Src.C09.flipNormalTowardOriginCoordinate_v3d (e00 (i : Int)) (e10 (i : Int)) (e20 (i : Int)) (points.getD i d).1 (points.getD i d).2.1 (points.getD i d).2.2)) := by
  unfold Src.C09.NormalAndCurvatureEstimation.compute_c_v3d
  simp only []
  have hN : Int.toNat ((points.length : Int) - 0) = points.length := by omega
  rw [hN]
  have hl := compute_c_v3d_loop (points.length : Int) ev0 ev1 ev2 e00 e01 e02 e10 e11 e12 e20 e21 e22 points d points.length 0 curv a0 a1 a2 b00 b01 b02 b10 b11 b12 b20 b21 b22 normals (by omega) (by omega) (by omega)
  rw [← h1, setRange_all, h1, ← h2, setRange_all, h2] at hl
  cases hc : Src.C09.NormalAndCurvatureEstimation.compute_c_v3d.loop1 (points.length : Int) ev0 ev1 ev2 e00 e01 e02 e10 e11 e12 e20 e21 e22 points points.length curv a0 a1 a2 b00 b01 b02 b10 b11 b12 b20 b21 b22 0 normals with
  | none => rw [show ((0 : Nat) : Int) = 0 from rfl] at hl; rw [hc] at hl; exact absurd hl (by simp)
  | some r => rw [show ((0 : Nat) : Int) = 0 from rfl] at hl; rw [hc] at hl; simpa using hl


/-- the loop of `compute(points, pointsKdTree, normals, curvatures, normalsReliability)` for `v3d`, `cnt` passes from index `k`: entries `k … k + cnt - 1` of the
    output vectors are overwritten with the per-point values (the oracle `planeEstimation_` read at each index), never `none` -/
theorem compute_r_v3d_loop (N : Int) (ev0 ev1 ev2 e00 e01 e02 e10 e11 e12 e20 e21 e22 : Int → α) (points : List (α × α × α)) (d : α × α × α) (cnt : Nat) :
    ∀ (k : Nat) (curv : List α) (a0 a1 a2 b00 b01 b02 b10 b11 b12 b20 b21 b22 : α) (normals : List (α × α × α)) (rel : List α),
    k + cnt ≤ curv.length → k + cnt ≤ normals.length → k + cnt ≤ rel.length → k + cnt ≤ points.length →
    (Src.C09.NormalAndCurvatureEstimation.compute_r_v3d.loop1 N ev0 ev1 ev2 e00 e01 e02 e10 e11 e12 e20 e21 e22 points cnt curv a0 a1 a2 b00 b01 b02 b10 b11 b12 b20 b21 b22 (k : Int) normals rel).map (fun r => (r.1, r.2.2.2.2.2.2.2.2.2.2.2.2.2.2.1, r.2.2.2.2.2.2.2.2.2.2.2.2.2.2.2))
      = some (setRange (fun i : Nat => ev0 (i : Int) / ((ev0 (i : Int) + ev1 (i : Int)) + ev2 (i : Int))) k cnt curv, setRange (fun i : Nat => Src.C09.flipNormalTowardOriginCoordinate_v3d (e00 (i : Int)) (e10 (i : Int)) (e20 (i : Int)) (points.getD i d).1 (points.getD i d).2.1 (points.getD i d).2.2) k cnt normals, setRange (fun i : Nat => Src.C09.NormalAndCurvatureEstimation.computeNormalReliability_v3d (ev0 (i : Int)) (ev1 (i : Int)) (ev2 (i : Int))) k cnt rel) := by
  induction cnt with
  | zero => intros; rfl
  | succ cnt ih =>
    intro k curv a0 a1 a2 b00 b01 b02 b10 b11 b12 b20 b21 b22 normals rel h0 h1 h2 h3
    unfold Src.C09.NormalAndCurvatureEstimation.compute_r_v3d.loop1
    simp only []
    rw [vecSet_ok curv k _ (by omega)]
    simp only []
    rw [vecSet_ok normals k _ (by omega)]
    simp only []
    rw [vecGet_set normals k _ (by omega), vecGet_ok points k d (by omega)]
    simp only []
    rw [vecSet_ok (normals.set k _) k _ (by simp; omega)]
    simp only []
    rw [vecSet_ok rel k _ (by omega)]
    simp only []
    have hk : ((k : Int) + 1) = ((k + 1 : Nat) : Int) := by omega
    rw [hk, List.set_set]
    simp only [setRange]
    exact ih (k + 1) _ _ _ _ _ _ _ _ _ _ _ _ _ _ _ (by simp; omega) (by simp; omega) (by simp; omega) (by omega)

/-- `compute(points, pointsKdTree, normals, curvatures, normalsReliability)` for `v3d` as translated: with output vectors of the size of the cloud it returns (never
    `none`) the per-point values, index by index — for every value the oracle functions `ev*` / `e**` (what `planeEstimation_` leaves in
    `eigenValues_` / `eigenVectors_` at each index) may take and whatever the members and the output vectors held before -/
theorem compute_r_v3d_bridge (ev0 ev1 ev2 e00 e01 e02 e10 e11 e12 e20 e21 e22 : Int → α) (points : List (α × α × α)) (d : α × α × α)
    (curv : List α) (a0 a1 a2 b00 b01 b02 b10 b11 b12 b20 b21 b22 : α) (normals : List (α × α × α)) (rel : List α)
    (h1 : curv.length = points.length) (h2 : normals.length = points.length) (h3 : rel.length = points.length) :
    (Src.C09.NormalAndCurvatureEstimation.compute_r_v3d curv a0 a1 a2 b00 b01 b02 b10 b11 b12 b20 b21 b22 normals rel ev0 ev1 ev2 e00 e01 e02 e10 e11 e12 e20 e21 e22 points).map (fun r => (r.1, r.2.2.2.2.2.2.2.2.2.2.2.2.2.1, r.2.2.2.2.2.2.2.2.2.2.2.2.2.2))
      = some ((List.range points.length).map (fun i : Nat => ev0 (i : Int) / ((ev0 (i : Int) + ev1 (i : Int)) + ev2 (i : Int))), (List.range points.length).map (fun i : Nat => Src.C09.flipNormalTowardOriginCoordinate_v3d (e00 (i : Int)) (e10 (i : Int)) (e20 (i : Int)) (points.getD i d).1 (points.getD i d).2.1 (points.getD i d).2.2), (List.range points.length).map (fun i : Nat => Src.C09.NormalAndCurvatureEstimation.computeNormalReliability_v3d (ev0 (i : Int)) (ev1 (i : Int)) (ev2 (i : Int)))) := by
  unfold Src.C09.NormalAndCurvatureEstimation.compute_r_v3d
  simp only []
  have hN : Int.toNat ((points.length : Int) - 0) = points.length := by omega
  rw [hN]
  have hl := compute_r_v3d_loop (points.length : Int) ev0 ev1 ev2 e00 e01 e02 e10 e11 e12 e20 e21 e22 points d points.length 0 curv a0 a1 a2 b00 b01 b02 b10 b11 b12 b20 b21 b22 normals rel (by omega) (by omega) (by omega) (by omega)
  rw [← h1, setRange_all, h1, ← h2, setRange_all, h2, ← h3, setRange_all, h3] at hl
  cases hc : Src.C09.NormalAndCurvatureEstimation.compute_r_v3d.loop1 (points.length : Int) ev0 ev1 ev2 e00 e01 e02 e10 e11 e12 e20 e21 e22 points points.length curv a0 a1 a2 b00 b01 b02 b10 b11 b12 b20 b21 b22 0 normals rel with
  | none => rw [show ((0 : Nat) : Int) = 0 from rfl] at hl; rw [hc] at hl; exact absurd hl (by simp)
  | some r => rw [show ((0 : Nat) : Int) = 0 from rfl] at hl; rw [hc] at hl; simpa using hl


/-- the loop of `compute(points, pointsKdTree, normals)` for `h2f`, `cnt` passes from index `k`: entries `k … k + cnt - 1` of the
    output vectors are overwritten with the per-point values (the oracle `planeEstimation_` read at each index), never `none` -/
theorem compute_n_h2f_loop (N : Int) (ev0 ev1 e00 e01 e10 e11 : Int → α) (points : List (α × α × α)) (d : α × α × α) (dn : α × α × α) (cnt : Nat) :
    ∀ (k : Nat) (a0 a1 b00 b01 b10 b11 : α) (normals : List (α × α × α)),
    k + cnt ≤ normals.length → k + cnt ≤ points.length →
    (Src.C09.NormalAndCurvatureEstimation.compute_n_h2f.loop1 N ev0 ev1 e00 e01 e10 e11 points cnt a0 a1 b00 b01 b10 b11 (k : Int) normals).map (fun r => (r.2.2.2.2.2.2.2))
      = some (setRange (fun i : Nat => Src.C09.flipNormalTowardOriginCoordinate_h2f (e00 (i : Int)) (e10 (i : Int)) (points.getD i d).1 (points.getD i d).2.1 (points.getD i d).2.2) k cnt normals) := by
  induction cnt with
  | zero => intros; rfl
  | succ cnt ih =>
    intro k a0 a1 b00 b01 b10 b11 normals h0 h1
    unfold Src.C09.NormalAndCurvatureEstimation.compute_n_h2f.loop1
    simp only []
    rw [vecGet_ok normals k dn (by omega)]
    simp only []
    rw [vecSet_ok normals k _ (by omega)]
    simp only []
    rw [vecGet_set normals k _ (by omega), vecGet_ok points k d (by omega)]
    simp only []
    rw [vecSet_ok (normals.set k _) k _ (by simp; omega)]
    simp only []
    have hk : ((k : Int) + 1) = ((k + 1 : Nat) : Int) := by omega
    rw [hk, List.set_set]
    simp only [setRange]
    exact ih (k + 1) _ _ _ _ _ _ _ (by simp; omega) (by omega)

/-- `compute(points, pointsKdTree, normals)` for `h2f` as translated: with output vectors of the size of the cloud it returns (never
    `none`) the per-point values, index by index — for every value the oracle functions `ev*` / `e**` (what `planeEstimation_` leaves in
    `eigenValues_` / `eigenVectors_` at each index) may take and whatever the members and the output vectors held before -/
theorem compute_n_h2f_bridge (ev0 ev1 e00 e01 e10 e11 : Int → α) (points : List (α × α × α)) (d : α × α × α) (dn : α × α × α)
    (a0 a1 b00 b01 b10 b11 : α) (normals : List (α × α × α))
    (h2 : normals.length = points.length) :
    (Src.C09.NormalAndCurvatureEstimation.compute_n_h2f a0 a1 b00 b01 b10 b11 normals ev0 ev1 e00 e01 e10 e11 points).map (fun r => (r.2.2.2.2.2.2))
      = some ((List.range points.length).map (fun i : Nat => Src.C09.flipNormalTowardOriginCoordinate_h2f (e00 (i : Int)) (e10 (i : Int)) (points.getD i d).1 (points.getD i d).2.1 (points.getD i d).2.2)) := by
  unfold Src.C09.NormalAndCurvatureEstimation.compute_n_h2f
  simp only []
  have hN : Int.toNat ((points.length : Int) - 0) = points.length := by omega
  rw [hN]
  have hl := compute_n_h2f_loop (points.length : Int) ev0 ev1 e00 e01 e10 e11 points d dn points.length 0 a0 a1 b00 b01 b10 b11 normals (by omega) (by omega)
  rw [← h2, setRange_all, h2] at hl
  cases hc : Src.C09.NormalAndCurvatureEstimation.compute_n_h2f.loop1 (points.length : Int) ev0 ev1 e00 e01 e10 e11 points points.length a0 a1 b00 b01 b10 b11 0 normals with
  | none => rw [show ((0 : Nat) : Int) = 0 from rfl] at hl; rw [hc] at hl; exact absurd hl (by simp)
  | some r => rw [show ((0 : Nat) : Int) = 0 from rfl] at hl; rw [hc] at hl; simpa using hl


/-- the loop of `compute(points, pointsKdTree, normals, curvatures)` for `h2f`, `cnt` passes from index `k`: entries `k … k + cnt - 1` of the
    output vectors are overwritten with the per-point values (the oracle `planeEstimation_` read at each index), never `none` -/
theorem compute_c_h2f_loop (N : Int) (ev0 ev1 e00 e01 e10 e11 : Int → α) (points : List (α × α × α)) (d : α × α × α) (dn : α × α × α) (cnt : Nat) :
    ∀ (k : Nat) (curv : List α) (a0 a1 b00 b01 b10 b11 : α) (normals : List (α × α × α)),
    k + cnt ≤ curv.length → k + cnt ≤ normals.length → k + cnt ≤ points.length →
    (Src.C09.NormalAndCurvatureEstimation.compute_c_h2f.loop1 N ev0 ev1 e00 e01 e10 e11 points cnt curv a0 a1 b00 b01 b10 b11 (k : Int) normals).map (fun r => (r.1, r.2.2.2.2.2.2.2.2))
      = some (setRange (fun i : Nat => ev0 (i : Int) / (ev0 (i : Int) + ev1 (i : Int))) k cnt curv, setRange (fun i : Nat => Src.C09.flipNormalTowardOriginCoordinate_h2f (e00 (i : Int)) (e10 (i : Int)) (points.getD i d).1 (points.getD i d).2.1 (points.getD i d).2.2) k cnt normals) := by
  induction cnt with
  | zero => intros; rfl
  | succ cnt ih =>
    intro k curv a0 a1 b00 b01 b10 b11 normals h0 h1 h2
    unfold Src.C09.NormalAndCurvatureEstimation.compute_c_h2f.loop1
    simp only []
    rw [vecSet_ok curv k _ (by omega)]
    simp only []
    rw [vecGet_ok normals k dn (by omega)]
    simp only []
    rw [vecSet_ok normals k _ (by omega)]
    simp only []
    rw [vecGet_set normals k _ (by omega), vecGet_ok points k d (by omega)]
    simp only []
    rw [vecSet_ok (normals.set k _) k _ (by simp; omega)]
    simp only []
    have hk : ((k : Int) + 1) = ((k + 1 : Nat) : Int) := by omega
    rw [hk, List.set_set]
    simp only [setRange]
    exact ih (k + 1) _ _ _ _ _ _ _ _ (by simp; omega) (by simp; omega) (by omega)

/-- `compute(points, pointsKdTree, normals, curvatures)` for `h2f` as translated: with output vectors of the size of the cloud it returns (never
    `none`) the per-point values, index by index — for every value the oracle functions `ev*` / `e**` (what `planeEstimation_` leaves in
    `eigenValues_` / `eigenVectors_` at each index) may take and whatever the members and the output vectors held before -/
theorem compute_c_h2f_bridge (ev0 ev1 e00 e01 e10 e11 : Int → α) (points : List (α × α × α)) (d : α × α × α) (dn : α × α × α)
    (curv : List α) (a0 a1 b00 b01 b10 b11 : α) (normals : List (α × α × α))
    (h1 : curv.length = points.length) (h2 : normals.length = points.length) :
    (Src.C09.NormalAndCurvatureEstimation.compute_c_h2f curv a0 a1 b00 b01 b10 b11 normals ev0 ev1 e00 e01 e10 e11 points).map (fun r => (r.1, r.2.2.2.2.2.2.2))
      = some ((List.range points.length).map (fun i : Nat => ev0 (i : Int) / (ev0 (i : Int) + ev1 (i : Int))), (List.range points.length).map (fun i : Nat => Src.C09.flipNormalTowardOriginCoordinate_h2f (e00 (i : Int)) (e10 (i : Int)) (points.getD i d).1 (points.getD i d).2.1 (points.getD i d).2.2)) := by
  unfold Src.C09.NormalAndCurvatureEstimation.compute_c_h2f
  simp only []
  have hN : Int.toNat ((points.length : Int) - 0) = points.length := by omega
  rw [hN]
  have hl := compute_c_h2f_loop (points.length : Int) ev0 ev1 e00 e01 e10 e11 points d dn points.length 0 curv a0 a1 b00 b01 b10 b11 normals (by omega) (by omega) (by omega)
  rw [← h1, setRange_all, h1, ← h2, setRange_all, h2] at hl
  cases hc : Src.C09.NormalAndCurvatureEstimation.compute_c_h2f.loop1 (points.length : Int) ev0 ev1 e00 e01 e10 e11 points points.length curv a0 a1 b00 b01 b10 b11 0 normals with
  | none => rw [show ((0 : Nat) : Int) = 0 from rfl] at hl; rw [hc] at hl; exact absurd hl (by simp)
  | some r => rw [show ((0 : Nat) : Int) = 0 from rfl] at hl; rw [hc] at hl; simpa using hl


/-- the loop of `compute(points, pointsKdTree, normals, curvatures, normalsReliability)` for `h2f`, `cnt` passes from index `k`: entries `k … k + cnt - 1` of the
    output vectors are overwritten with the per-point values (the oracle `planeEstimation_` read at each index), never `none` -/
theorem compute_r_h2f_loop (N : Int) (ev0 ev1 e00 e01 e10 e11 : Int → α) (points : List (α × α × α)) (d : α × α × α) (dn : α × α × α) (cnt : Nat) :
    ∀ (k : Nat) (curv : List α) (a0 a1 b00 b01 b10 b11 : α) (normals : List (α × α × α)) (rel : List α),
    k + cnt ≤ curv.length → k + cnt ≤ normals.length → k + cnt ≤ rel.length → k + cnt ≤ points.length →
    (Src.C09.NormalAndCurvatureEstimation.compute_r_h2f.loop1 N ev0 ev1 e00 e01 e10 e11 points cnt curv a0 a1 b00 b01 b10 b11 (k : Int) normals rel).map (fun r => (r.1, r.2.2.2.2.2.2.2.2.1, r.2.2.2.2.2.2.2.2.2))
      = some (setRange (fun i : Nat => ev0 (i : Int) / (ev0 (i : Int) + ev1 (i : Int))) k cnt curv, setRange (fun i : Nat => Src.C09.flipNormalTowardOriginCoordinate_h2f (e00 (i : Int)) (e10 (i : Int)) (points.getD i d).1 (points.getD i d).2.1 (points.getD i d).2.2) k cnt normals, setRange (fun i : Nat => Src.C09.NormalAndCurvatureEstimation.computeNormalReliability_h2f (ev0 (i : Int)) (ev1 (i : Int))) k cnt rel) := by
  induction cnt with
  | zero => intros; rfl
  | succ cnt ih =>
    intro k curv a0 a1 b00 b01 b10 b11 normals rel h0 h1 h2 h3
    unfold Src.C09.NormalAndCurvatureEstimation.compute_r_h2f.loop1
    simp only []
    rw [vecSet_ok curv k _ (by omega)]
    simp only []
    rw [vecGet_ok normals k dn (by omega)]
    simp only []
    rw [vecSet_ok normals k _ (by omega)]
    simp only []
    rw [vecGet_set normals k _ (by omega), vecGet_ok points k d (by omega)]
    simp only []
    rw [vecSet_ok (normals.set k _) k _ (by simp; omega)]
    simp only []
    rw [vecSet_ok rel k _ (by omega)]
    simp only []
    have hk : ((k : Int) + 1) = ((k + 1 : Nat) : Int) := by omega
    rw [hk, List.set_set]
    simp only [setRange]
    exact ih (k + 1) _ _ _ _ _ _ _ _ _ (by simp; omega) (by simp; omega) (by simp; omega) (by omega)

/-- `compute(points, pointsKdTree, normals, curvatures, normalsReliability)` for `h2f` as translated: with output vectors of the size of the cloud it returns (never
    `none`) the per-point values, index by index — for every value the oracle functions `ev*` / `e**` (what `planeEstimation_` leaves in
    `eigenValues_` / `eigenVectors_` at each index) may take and whatever the members and the output vectors held before -/
theorem compute_r_h2f_bridge (ev0 ev1 e00 e01 e10 e11 : Int → α) (points : List (α × α × α)) (d : α × α × α) (dn : α × α × α)
    (curv : List α) (a0 a1 b00 b01 b10 b11 : α) (normals : List (α × α × α)) (rel : List α)
    (h1 : curv.length = points.length) (h2 : normals.length = points.length) (h3 : rel.length = points.length) :
    (Src.C09.NormalAndCurvatureEstimation.compute_r_h2f curv a0 a1 b00 b01 b10 b11 normals rel ev0 ev1 e00 e01 e10 e11 points).map (fun r => (r.1, r.2.2.2.2.2.2.2.1, r.2.2.2.2.2.2.2.2))
      = some ((List.range points.length).map (fun i : Nat => ev0 (i : Int) / (ev0 (i : Int) + ev1 (i : Int))), (List.range points.length).map (fun i : Nat => Src.C09.flipNormalTowardOriginCoordinate_h2f (e00 (i : Int)) (e10 (i : Int)) (points.getD i d).1 (points.getD i d).2.1 (points.getD i d).2.2), (List.range points.length).map (fun i : Nat => Src.C09.NormalAndCurvatureEstimation.computeNormalReliability_h2f (ev0 (i : Int)) (ev1 (i : Int)))) := by
  unfold Src.C09.NormalAndCurvatureEstimation.compute_r_h2f
  simp only []
  have hN : Int.toNat ((points.length : Int) - 0) = points.length := by omega
  rw [hN]
  have hl := compute_r_h2f_loop (points.length : Int) ev0 ev1 e00 e01 e10 e11 points d dn points.length 0 curv a0 a1 b00 b01 b10 b11 normals rel (by omega) (by omega) (by omega) (by omega)
  rw [← h1, setRange_all, h1, ← h2, setRange_all, h2, ← h3, setRange_all, h3] at hl
  cases hc : Src.C09.NormalAndCurvatureEstimation.compute_r_h2f.loop1 (points.length : Int) ev0 ev1 e00 e01 e10 e11 points points.length curv a0 a1 b00 b01 b10 b11 0 normals rel with
  | none => rw [show ((0 : Nat) : Int) = 0 from rfl] at hl; rw [hc] at hl; exact absurd hl (by simp)
  | some r => rw [show ((0 : Nat) : Int) = 0 from rfl] at hl; rw [hc] at hl; simpa using hl


/-- the loop of `compute(points, pointsKdTree, normals)` for `h2d`, `cnt` passes from index `k`: entries `k … k + cnt - 1` of the
    output vectors are overwritten with the per-point values (the oracle `planeEstimation_` read at each index), never `none` -/
theorem compute_n_h2d_loop (N : Int) (ev0 ev1 e00 e01 e10 e11 : Int → α) (points : List (α × α × α)) (d : α × α × α) (dn : α × α × α) (cnt : Nat) :
    ∀ (k : Nat) (a0 a1 b00 b01 b10 b11 : α) (normals : List (α × α × α)),
    k + cnt ≤ normals.length → k + cnt ≤ points.length →
    (Src.C09.NormalAndCurvatureEstimation.compute_n_h2d.loop1 N ev0 ev1 e00 e01 e10 e11 points cnt a0 a1 b00 b01 b10 b11 (k : Int) normals).map (fun r => (r.2.2.2.2.2.2.2))
      = some (setRange (fun i : Nat => Src.C09.flipNormalTowardOriginCoordinate_h2d (e00 (i : Int)) (e10 (i : Int)) (points.getD i d).1 (points.getD i d).2.1 (points.getD i d).2.2) k cnt normals) := by
  induction cnt with
  | zero => intros; rfl
  | succ cnt ih =>
    intro k a0 a1 b00 b01 b10 b11 normals h0 h1
    unfold Src.C09.NormalAndCurvatureEstimation.compute_n_h2d.loop1
    simp only []
    rw [vecGet_ok normals k dn (by omega)]
    simp only []
    rw [vecSet_ok normals k _ (by omega)]
    simp only []
    rw [vecGet_set normals k _ (by omega), vecGet_ok points k d (by omega)]
    simp only []
    rw [vecSet_ok (normals.set k _) k _ (by simp; omega)]
    simp only []
    have hk : ((k : Int) + 1) = ((k + 1 : Nat) : Int) := by omega
    rw [hk, List.set_set]
    simp only [setRange]
    exact ih (k + 1) _ _ _ _ _ _ _ (by simp; omega) (by omega)

/-- `compute(points, pointsKdTree, normals)` for `h2d` as translated: with output vectors of the size of the cloud it returns (never
    `none`) the per-point values, index by index — for every value the oracle functions `ev*` / `e**` (what `planeEstimation_` leaves in
    `eigenValues_` / `eigenVectors_` at each index) may take and whatever the members and the output vectors held before -/
theorem compute_n_h2d_bridge (ev0 ev1 e00 e01 e10 e11 : Int → α) (points : List (α × α × α)) (d : α × α × α) (dn : α × α × α)
    (a0 a1 b00 b01 b10 b11 : α) (normals : List (α × α × α))
    (h2 : normals.length = points.length) :
    (Src.C09.NormalAndCurvatureEstimation.compute_n_h2d a0 a1 b00 b01 b10 b11 normals ev0 ev1 e00 e01 e10 e11 points).map (fun r => (r.2.2.2.2.2.2))
      = some ((List.range points.length).map (fun i : Nat => Src.C09.flipNormalTowardOriginCoordinate_h2d (e00 (i : Int)) (e10 (i : Int)) (points.getD i d).1 (points.getD i d).2.1 (points.getD i d).2.2)) := by
  unfold Src.C09.NormalAndCurvatureEstimation.compute_n_h2d
  simp only []
  have hN : Int.toNat ((points.length : Int) - 0) = points.length := by omega
  rw [hN]
  have hl := compute_n_h2d_loop (points.length : Int) ev0 ev1 e00 e01 e10 e11 points d dn points.length 0 a0 a1 b00 b01 b10 b11 normals (by omega) (by omega)
  rw [← h2, setRange_all, h2] at hl
  cases hc : Src.C09.NormalAndCurvatureEstimation.compute_n_h2d.loop1 (points.length : Int) ev0 ev1 e00 e01 e10 e11 points points.length a0 a1 b00 b01 b10 b11 0 normals with
  | none => rw [show ((0 : Nat) : Int) = 0 from rfl] at hl; rw [hc] at hl; exact absurd hl (by simp)
  | some r => rw [show ((0 : Nat) : Int) = 0 from rfl] at hl; rw [hc] at hl; simpa using hl


/-- the loop of `compute(points, pointsKdTree, normals, curvatures)` for `h2d`, `cnt` passes from index `k`: entries `k … k + cnt - 1` of the
    output vectors are overwritten with the per-point values (the oracle `planeEstimation_` read at each index), never `none` -/
theorem compute_c_h2d_loop (N : Int) (ev0 ev1 e00 e01 e10 e11 : Int → α) (points : List (α × α × α)) (d : α × α × α) (dn : α × α × α) (cnt : Nat) :
    ∀ (k : Nat) (curv : List α) (a0 a1 b00 b01 b10 b11 : α) (normals : List (α × α × α)),
    k + cnt ≤ curv.length → k + cnt ≤ normals.length → k + cnt ≤ points.length →
    (Src.C09.NormalAndCurvatureEstimation.compute_c_h2d.loop1 N ev0 ev1 e00 e01 e10 e11 points cnt curv a0 a1 b00 b01 b10 b11 (k : Int) normals).map (fun r => (r.1, r.2.2.2.2.2.2.2.2))
      = some (setRange (fun i : Nat => ev0 (i : Int) / (ev0 (i : Int) + ev1 (i : Int))) k cnt curv, setRange (fun i : Nat => Src.C09.flipNormalTowardOriginCoordinate_h2d (e00 (i : Int)) (e10 (i : Int)) (points.getD i d).1 (points.getD i d).2.1 (points.getD i d).2.2) k cnt normals) := by
  induction cnt with
  | zero => intros; rfl
  | succ cnt ih =>
    intro k curv a0 a1 b00 b01 b10 b11 normals h0 h1 h2
    unfold Src.C09.NormalAndCurvatureEstimation.compute_c_h2d.loop1
    simp only []
    rw [vecSet_ok curv k _ (by omega)]
    simp only []
    rw [vecGet_ok normals k dn (by omega)]
    simp only []
    rw [vecSet_ok normals k _ (by omega)]
    simp only []
    rw [vecGet_set normals k _ (by omega), vecGet_ok points k d (by omega)]
    simp only []
    rw [vecSet_ok (normals.set k _) k _ (by simp; omega)]
    simp only []
    have hk : ((k : Int) + 1) = ((k + 1 : Nat) : Int) := by omega
    rw [hk, List.set_set]
    simp only [setRange]
    exact ih (k + 1) _ _ _ _ _ _ _ _ (by simp; omega) (by simp; omega) (by omega)

/-- `compute(points, pointsKdTree, normals, curvatures)` for `h2d` as translated: with output vectors of the size of the cloud it returns (never
    `none`) the per-point values, index by index — for every value the oracle functions `ev*` / `e**` (what `planeEstimation_` leaves in
    `eigenValues_` / `eigenVectors_` at each index) may take and whatever the members and the output vectors held before -/
theorem compute_c_h2d_bridge (ev0 ev1 e00 e01 e10 e11 : Int → α) (points : List (α × α × α)) (d : α × α × α) (dn : α × α × α)
    (curv : List α) (a0 a1 b00 b01 b10 b11 : α) (normals : List (α × α × α))
    (h1 : curv.length = points.length) (h2 : normals.length = points.length) :
    (Src.C09.NormalAndCurvatureEstimation.compute_c_h2d curv a0 a1 b00 b01 b10 b11 normals ev0 ev1 e00 e01 e10 e11 points).map (fun r => (r.1, r.2.2.2.2.2.2.2))
      = some ((List.range points.length).map (fun i : Nat => ev0 (i : Int) / (ev0 (i : Int) + ev1 (i : Int))), (List.range points.length).map (fun i : Nat => Src.C09.flipNormalTowardOriginCoordinate_h2d (e00 (i : Int)) (e10 (i : Int)) (points.getD i d).1 (points.getD i d).2.1 (points.getD i d).2.2)) := by
  unfold Src.C09.NormalAndCurvatureEstimation.compute_c_h2d
  simp only []
  have hN : Int.toNat ((points.length : Int) - 0) = points.length := by omega
  rw [hN]
  have hl := compute_c_h2d_loop (points.length : Int) ev0 ev1 e00 e01 e10 e11 points d dn points.length 0 curv a0 a1 b00 b01 b10 b11 normals (by omega) (by omega) (by omega)
  rw [← h1, setRange_all, h1, ← h2, setRange_all, h2] at hl
  cases hc : Src.C09.NormalAndCurvatureEstimation.compute_c_h2d.loop1 (points.length : Int) ev0 ev1 e00 e01 e10 e11 points points.length curv a0 a1 b00 b01 b10 b11 0 normals with
  | none => rw [show ((0 : Nat) : Int) = 0 from rfl] at hl; rw [hc] at hl; exact absurd hl (by simp)
  | some r => rw [show ((0 : Nat) : Int) = 0 from rfl] at hl; rw [hc] at hl; simpa using hl


/-- the loop of `compute(points, pointsKdTree, normals, curvatures, normalsReliability)` for `h2d`, `cnt` passes from index `k`: entries `k … k + cnt - 1` of the
    output vectors are overwritten with the per-point values (the oracle `planeEstimation_` read at each index), never `none` -/
theorem compute_r_h2d_loop (N : Int) (ev0 ev1 e00 e01 e10 e11 : Int → α) (points : List (α × α × α)) (d : α × α × α) (dn : α × α × α) (cnt : Nat) :
    ∀ (k : Nat) (curv : List α) (a0 a1 b00 b01 b10 b11 : α) (normals : List (α × α × α)) (rel : List α),
    k + cnt ≤ curv.length → k + cnt ≤ normals.length → k + cnt ≤ rel.length → k + cnt ≤ points.length →
    (Src.C09.NormalAndCurvatureEstimation.compute_r_h2d.loop1 N ev0 ev1 e00 e01 e10 e11 points cnt curv a0 a1 b00 b01 b10 b11 (k : Int) normals rel).map (fun r => (r.1, r.2.2.2.2.2.2.2.2.1, r.2.2.2.2.2.2.2.2.2))
      = some (setRange (fun i : Nat => ev0 (i : Int) / (ev0 (i : Int) + ev1 (i : Int))) k cnt curv, setRange (fun i : Nat => Src.C09.flipNormalTowardOriginCoordinate_h2d (e00 (i : Int)) (e10 (i : Int)) (points.getD i d).1 (points.getD i d).2.1 (points.getD i d).2.2) k cnt normals, setRange (fun i : Nat => Src.C09.NormalAndCurvatureEstimation.computeNormalReliability_h2d (ev0 (i : Int)) (ev1 (i : Int))) k cnt rel) := by
  induction cnt with
  | zero => intros; rfl
  | succ cnt ih =>
    intro k curv a0 a1 b00 b01 b10 b11 normals rel h0 h1 h2 h3
    unfold Src.C09.NormalAndCurvatureEstimation.compute_r_h2d.loop1
    simp only []
    rw [vecSet_ok curv k _ (by omega)]
    simp only []
    rw [vecGet_ok normals k dn (by omega)]
    simp only []
    rw [vecSet_ok normals k _ (by omega)]
    simp only []
    rw [vecGet_set normals k _ (by omega), vecGet_ok points k d (by omega)]
    simp only []
    rw [vecSet_ok (normals.set k _) k _ (by simp; omega)]
    simp only []
    rw [vecSet_ok rel k _ (by omega)]
    simp only []
    have hk : ((k : Int) + 1) = ((k + 1 : Nat) : Int) := by omega
    rw [hk, List.set_set]
    simp only [setRange]
    exact ih (k + 1) _ _ _ _ _ _ _ _ _ (by simp; omega) (by simp; omega) (by simp; omega) (by omega)

/-- `compute(points, pointsKdTree, normals, curvatures, normalsReliability)` for `h2d` as translated: with output vectors of the size of the cloud it returns (never
    `none`) the per-point values, index by index — for every value the oracle functions `ev*` / `e**` (what `planeEstimation_` leaves in
    `eigenValues_` / `eigenVectors_` at each index) may take and whatever the members and the output vectors held before -/
theorem compute_r_h2d_bridge (ev0 ev1 e00 e01 e10 e11 : Int → α) (points : List (α × α × α)) (d : α × α × α) (dn : α × α × α)
    (curv : List α) (a0 a1 b00 b01 b10 b11 : α) (normals : List (α × α × α)) (rel : List α)
    (h1 : curv.length = points.length) (h2 : normals.length = points.length) (h3 : rel.length = points.length) :
    (Src.C09.NormalAndCurvatureEstimation.compute_r_h2d curv a0 a1 b00 b01 b10 b11 normals rel ev0 ev1 e00 e01 e10 e11 points).map (fun r => (r.1, r.2.2.2.2.2.2.2.1, r.2.2.2.2.2.2.2.2))
      = some ((List.range points.length).map (fun i : Nat => ev0 (i : Int) / (ev0 (i : Int) + ev1 (i : Int))), (List.range points.length).map (fun i : Nat => Src.C09.flipNormalTowardOriginCoordinate_h2d (e00 (i : Int)) (e10 (i : Int)) (points.getD i d).1 (points.getD i d).2.1 (points.getD i d).2.2), (List.range points.length).map (fun i : Nat => Src.C09.NormalAndCurvatureEstimation.computeNormalReliability_h2d (ev0 (i : Int)) (ev1 (i : Int)))) := by
  unfold Src.C09.NormalAndCurvatureEstimation.compute_r_h2d
  simp only []
  have hN : Int.toNat ((points.length : Int) - 0) = points.length := by omega
  rw [hN]
  have hl := compute_r_h2d_loop (points.length : Int) ev0 ev1 e00 e01 e10 e11 points d dn points.length 0 curv a0 a1 b00 b01 b10 b11 normals rel (by omega) (by omega) (by omega) (by omega)
  rw [← h1, setRange_all, h1, ← h2, setRange_all, h2, ← h3, setRange_all, h3] at hl
  cases hc : Src.C09.NormalAndCurvatureEstimation.compute_r_h2d.loop1 (points.length : Int) ev0 ev1 e00 e01 e10 e11 points points.length curv a0 a1 b00 b01 b10 b11 0 normals rel with
  | none => rw [show ((0 : Nat) : Int) = 0 from rfl] at hl; rw [hc] at hl; exact absurd hl (by simp)
  | some r => rw [show ((0 : Nat) : Int) = 0 from rfl] at hl; rw [hc] at hl; simpa using hl


/-- the loop of `compute(points, pointsKdTree, normals)` for `h3f`, `cnt` passes from index `k`: entries `k … k + cnt - 1` of the
    output vectors are overwritten with the per-point values (the oracle `planeEstimation_` read at each index), never `none` -/
theorem compute_n_h3f_loop (N : Int) (ev0 ev1 ev2 e00 e01 e02 e10 e11 e12 e20 e21 e22 : Int → α) (points : List (α × α × α × α)) (d : α × α × α × α) (dn : α × α × α × α) (cnt : Nat) :
    ∀ (k : Nat) (a0 a1 a2 b00 b01 b02 b10 b11 b12 b20 b21 b22 : α) (normals : List (α × α × α × α)),
    k + cnt ≤ normals.length → k + cnt ≤ points.length →
    (Src.C09.NormalAndCurvatureEstimation.compute_n_h3f.loop1 N ev0 ev1 ev2 e00 e01 e02 e10 e11 e12 e20 e21 e22 points cnt a0 a1 a2 b00 b01 b02 b10 b11 b12 b20 b21 b22 (k : Int) normals).map (fun r => (r.2.2.2.2.2.2.2.2.2.2.2.2.2))
      = some (setRange (fun i : Nat => Src.C09.flipNormalTowardOriginCoordinate_h3f (e00 (i : Int)) (e10 (i : Int)) (e20 (i : Int)) (points.getD i d).1 (points.getD i d).2.1 (points.getD i d).2.2.1 (points.getD i d).2.2.2) k cnt normals) := by
  induction cnt with
  | zero => intros; rfl
  | succ cnt ih =>
    intro k a0 a1 a2 b00 b01 b02 b10 b11 b12 b20 b21 b22 normals h0 h1
    unfold Src.C09.NormalAndCurvatureEstimation.compute_n_h3f.loop1
    simp only []
    rw [vecGet_ok normals k dn (by omega)]
    simp only []
    rw [vecSet_ok normals k _ (by omega)]
    simp only []
    rw [vecGet_set normals k _ (by omega), vecGet_ok points k d (by omega)]
    simp only []
    rw [vecSet_ok (normals.set k _) k _ (by simp; omega)]
    simp only []
    have hk : ((k : Int) + 1) = ((k + 1 : Nat) : Int) := by omega
    rw [hk, List.set_set]
    simp only [setRange]
    exact ih (k + 1) _ _ _ _ _ _ _ _ _ _ _ _ _ (by simp; omega) (by omega)

/-- `compute(points, pointsKdTree, normals)` for `h3f` as translated: with output vectors of the size of the cloud it returns (never
    `none`) the per-point values, index by index — for every value the oracle functions `ev*` / `e**` (what `planeEstimation_` leaves in
    `eigenValues_` / `eigenVectors_` at each index) may take and whatever the members and the output vectors held before -/
theorem compute_n_h3f_bridge (ev0 ev1 ev2 e00 e01 e02 e10 e11 e12 e20 e21 e22 : Int → α) (points : List (α × α × α × α)) (d : α × α × α × α) (dn : α × α × α × α)
    (a0 a1 a2 b00 b01 b02 b10 b11 b12 b20 b21 b22 : α) (normals : List (α × α × α × α))
    (h2 : normals.length = points.length) :
    (Src.C09.NormalAndCurvatureEstimation.compute_n_h3f a0 a1 a2 b00 b01 b02 b10 b11 b12 b20 b21 b22 normals ev0 ev1 ev2 e00 e01 e02 e10 e11 e12 e20 e21 e22 points).map (fun r => (r.2.2.2.2.2.2.2.2.2.2.2.2))
      = some ((List.range points.length).map (fun i : Nat => Src.C09.flipNormalTowardOriginCoordinate_h3f (e00 (i : Int)) (e10 (i : Int)) (e20 (i : Int)) (points.getD i d).1 (points.getD i d).2.1 (points.getD i d).2.2.1 (points.getD i d).2.2.2)) := by
  unfold Src.C09.NormalAndCurvatureEstimation.compute_n_h3f
  simp only []
  have hN : Int.toNat ((points.length : Int) - 0) = points.length := by omega
  rw [hN]
  have hl := compute_n_h3f_loop (points.length : Int) ev0 ev1 ev2 e00 e01 e02 e10 e11 e12 e20 e21 e22 points d dn points.length 0 a0 a1 a2 b00 b01 b02 b10 b11 b12 b20 b21 b22 normals (by omega) (by omega)
  rw [← h2, setRange_all, h2] at hl
  cases hc : Src.C09.NormalAndCurvatureEstimation.compute_n_h3f.loop1 (points.length : Int) ev0 ev1 ev2 e00 e01 e02 e10 e11 e12 e20 e21 e22 points points.length a0 a1 a2 b00 b01 b02 b10 b11 b12 b20 b21 b22 0 normals with
  | none => rw [show ((0 : Nat) : Int) = 0 from rfl] at hl; rw [hc] at hl; exact absurd hl (by simp)
  | some r => rw [show ((0 : Nat) : Int) = 0 from rfl] at hl; rw [hc] at hl; simpa using hl


/-- the loop of `compute(points, pointsKdTree, normals, curvatures)` for `h3f`, `cnt` passes from index `k`: entries `k … k + cnt - 1` of the
    output vectors are overwritten with the per-point values (the oracle `planeEstimation_` read at each index), never `none` -/
theorem compute_c_h3f_loop (N : Int) (ev0 ev1 ev2 e00 e01 e02 e10 e11 e12 e20 e21 e22 : Int → α) (points : List (α × α × α × α)) (d : α × α × α × α) (dn : α × α × α × α) (cnt : Nat) :
    ∀ (k : Nat) (curv : List α) (a0 a1 a2 b00 b01 b02 b10 b11 b12 b20 b21 b22 : α) (normals : List (α × α × α × α)),
    k + cnt ≤ curv.length → k + cnt ≤ normals.length → k + cnt ≤ points.length →
    (Src.C09.NormalAndCurvatureEstimation.compute_c_h3f.loop1 N ev0 ev1 ev2 e00 e01 e02 e10 e11 e12 e20 e21 e22 points cnt curv a0 a1 a2 b00 b01 b02 b10 b11 b12 b20 b21 b22 (k : Int) normals).map (fun r => (r.1, r.2.2.2.2.2.2.2.2.2.2.2.2.2.2))
      = some (setRange (fun i : Nat => ev0 (i : Int) / ((ev0 (i : Int) + ev1 (i : Int)) + ev2 (i : Int))) k cnt curv, setRange (fun i : Nat => Src.C09.flipNormalTowardOriginCoordinate_h3f (e00 (i : Int)) (e10 (i : Int)) (e20 (i : Int)) (points.getD i d).1 (points.getD i d).2.1 (points.getD i d).2.2.1 (points.getD i d).2.2.2) k cnt normals) := by
  induction cnt with
  | zero => intros; rfl
  | succ cnt ih =>
    intro k curv a0 a1 a2 b00 b01 b02 b10 b11 b12 b20 b21 b22 normals h0 h1 h2
    unfold Src.C09.NormalAndCurvatureEstimation.compute_c_h3f.loop1
    simp only []
    rw [vecSet_ok curv k _ (by omega)]
    simp only []
    rw [vecGet_ok normals k dn (by omega)]
    simp only []
    rw [vecSet_ok normals k _ (by omega)]
    simp only []
    rw [vecGet_set normals k _ (by omega), vecGet_ok points k d (by omega)]
    simp only []
    rw [vecSet_ok (normals.set k _) k _ (by simp; omega)]
    simp only []
    have hk : ((k : Int) + 1) = ((k + 1 : Nat) : Int) := by omega
    rw [hk, List.set_set]
    simp only [setRange]
    exact ih (k + 1) _ _ _ _ _ _ _ _ _ _ _ _ _ _ (by simp; omega) (by simp; omega) (by omega)

/-- `compute(points, pointsKdTree, normals, curvatures)` for `h3f` as translated: with output vectors of the size of the cloud it returns (never
    `none`) the per-point values, index by index — for every value the oracle functions `ev*` / `e**` (what `planeEstimation_` leaves in
    `eigenValues_` / `eigenVectors_` at each index) may take and whatever the members and the output vectors held before -/
theorem compute_c_h3f_bridge (ev0 ev1 ev2 e00 e01 e02 e10 e11 e12 e20 e21 e22 : Int → α) (points : List (α × α × α × α)) (d : α × α × α × α) (dn : α × α × α × α)
    (curv : List α) (a0 a1 a2 b00 b01 b02 b10 b11 b12 b20 b21 b22 : α) (normals : List (α × α × α × α))
    (h1 : curv.length = points.length) (h2 : normals.length = points.length) :
    (Src.C09.NormalAndCurvatureEstimation.compute_c_h3f curv a0 a1 a2 b00 b01 b02 b10 b11 b12 b20 b21 b22 normals ev0 ev1 ev2 e00 e01 e02 e10 e11 e12 e20 e21 e22 points).map (fun r => (r.1, r.2.2.2.2.2.2.2.2.2.2.2.2.2))
      = some ((List.range points.length).map (fun i : Nat => ev0 (i : Int) / ((ev0 (i : Int) + ev1 (i : Int)) + ev2 (i : Int))), (List.range points.length).map (fun i : Nat => Src.C09.flipNormalTowardOriginCoordinate_h3f (e00 (i : Int)) (e10 (i : Int)) (e20 (i : Int)) (points.getD i d).1 (points.getD i d).2.1 (points.getD i d).2.2.1 (points.getD i d).2.2.2)) := by
  unfold Src.C09.NormalAndCurvatureEstimation.compute_c_h3f
  simp only []
  have hN : Int.toNat ((points.length : Int) - 0) = points.length := by omega
  rw [hN]
  have hl := compute_c_h3f_loop (points.length : Int) ev0 ev1 ev2 e00 e01 e02 e10 e11 e12 e20 e21 e22 points d dn points.length 0 curv a0 a1 a2 b00 b01 b02 b10 b11 b12 b20 b21 b22 normals (by omega) (by omega) (by omega)
  rw [← h1, setRange_all, h1, ← h2, setRange_all, h2] at hl
  cases hc : Src.C09.NormalAndCurvatureEstimation.compute_c_h3f.loop1 (points.length : Int) ev0 ev1 ev2 e00 e01 e02 e10 e11 e12 e20 e21 e22 points points.length curv a0 a1 a2 b00 b01 b02 b10 b11 b12 b20 b21 b22 0 normals with
  | none => rw [show ((0 : Nat) : Int) = 0 from rfl] at hl; rw [hc] at hl; exact absurd hl (by simp)
  | some r => rw [show ((0 : Nat) : Int) = 0 from rfl] at hl; rw [hc] at hl; simpa using hl


/-- the loop of `compute(points, pointsKdTree, normals, curvatures, normalsReliability)` for `h3f`, `cnt` passes from index `k`: entries `k … k + cnt - 1` of the
    output vectors are overwritten with the per-point values (the oracle `planeEstimation_` read at each index), never `none` -/
theorem compute_r_h3f_loop (N : Int) (ev0 ev1 ev2 e00 e01 e02 e10 e11 e12 e20 e21 e22 : Int → α) (points : List (α × α × α × α)) (d : α × α × α × α) (dn : α × α × α × α) (cnt : Nat) :
    ∀ (k : Nat) (curv : List α) (a0 a1 a2 b00 b01 b02 b10 b11 b12 b20 b21 b22 : α) (normals : List (α × α × α × α)) (rel : List α),
    k + cnt ≤ curv.length → k + cnt ≤ normals.length → k + cnt ≤ rel.length → k + cnt ≤ points.length →
    (Src.C09.NormalAndCurvatureEstimation.compute_r_h3f.loop1 N ev0 ev1 ev2 e00 e01 e02 e10 e11 e12 e20 e21 e22 points cnt curv a0 a1 a2 b00 b01 b02 b10 b11 b12 b20 b21 b22 (k : Int) normals rel).map (fun r => (r.1, r.2.2.2.2.2.2.2.2.2.2.2.2.2.2.1, r.2.2.2.2.2.2.2.2.2.2.2.2.2.2.2))
      = some (setRange (fun i : Nat => ev0 (i : Int) / ((ev0 (i : Int) + ev1 (i : Int)) + ev2 (i : Int))) k cnt curv, setRange (fun i : Nat => Src.C09.flipNormalTowardOriginCoordinate_h3f (e00 (i : Int)) (e10 (i : Int)) (e20 (i : Int)) (points.getD i d).1 (points.getD i d).2.1 (points.getD i d).2.2.1 (points.getD i d).2.2.2) k cnt normals, setRange (fun i : Nat => Src.C09.NormalAndCurvatureEstimation.computeNormalReliability_h3f (ev0 (i : Int)) (ev1 (i : Int)) (ev2 (i : Int))) k cnt rel) := by
  induction cnt with
  | zero => intros; rfl
  | succ cnt ih =>
    intro k curv a0 a1 a2 b00 b01 b02 b10 b11 b12 b20 b21 b22 normals rel h0 h1 h2 h3
    unfold Src.C09.NormalAndCurvatureEstimation.compute_r_h3f.loop1
    simp only []
    rw [vecSet_ok curv k _ (by omega)]
    simp only []
    rw [vecGet_ok normals k dn (by omega)]
    simp only []
    rw [vecSet_ok normals k _ (by omega)]
    simp only []
    rw [vecGet_set normals k _ (by omega), vecGet_ok points k d (by omega)]
    simp only []
    rw [vecSet_ok (normals.set k _) k _ (by simp; omega)]
    simp only []
    rw [vecSet_ok rel k _ (by omega)]
    simp only []
    have hk : ((k : Int) + 1) = ((k + 1 : Nat) : Int) := by omega
    rw [hk, List.set_set]
    simp only [setRange]
    exact ih (k + 1) _ _ _ _ _ _ _ _ _ _ _ _ _ _ _ (by simp; omega) (by simp; omega) (by simp; omega) (by omega)

/-- `compute(points, pointsKdTree, normals, curvatures, normalsReliability)` for `h3f` as translated: with output vectors of the size of the cloud it returns (never
    `none`) the per-point values, index by index — for every value the oracle functions `ev*` / `e**` (what `planeEstimation_` leaves in
    `eigenValues_` / `eigenVectors_` at each index) may take and whatever the members and the output vectors held before -/
theorem compute_r_h3f_bridge (ev0 ev1 ev2 e00 e01 e02 e10 e11 e12 e20 e21 e22 : Int → α) (points : List (α × α × α × α)) (d : α × α × α × α) (dn : α × α × α × α)
    (curv : List α) (a0 a1 a2 b00 b01 b02 b10 b11 b12 b20 b21 b22 : α) (normals : List (α × α × α × α)) (rel : List α)
    (h1 : curv.length = points.length) (h2 : normals.length = points.length) (h3 : rel.length = points.length) :
    (Src.C09.NormalAndCurvatureEstimation.compute_r_h3f curv a0 a1 a2 b00 b01 b02 b10 b11 b12 b20 b21 b22 normals rel ev0 ev1 ev2 e00 e01 e02 e10 e11 e12 e20 e21 e22 points).map (fun r => (r.1, r.2.2.2.2.2.2.2.2.2.2.2.2.2.1, r.2.2.2.2.2.2.2.2.2.2.2.2.2.2))
      = some ((List.range points.length).map (fun i : Nat => ev0 (i : Int) / ((ev0 (i : Int) + ev1 (i : Int)) + ev2 (i : Int))), (List.range points.length).map (fun i : Nat => Src.C09.flipNormalTowardOriginCoordinate_h3f (e00 (i : Int)) (e10 (i : Int)) (e20 (i : Int)) (points.getD i d).1 (points.getD i d).2.1 (points.getD i d).2.2.1 (points.getD i d).2.2.2), (List.range points.length).map (fun i : Nat => Src.C09.NormalAndCurvatureEstimation.computeNormalReliability_h3f (ev0 (i : Int)) (ev1 (i : Int)) (ev2 (i : Int)))) := by
  unfold Src.C09.NormalAndCurvatureEstimation.compute_r_h3f
  simp only []
  have hN : Int.toNat ((points.length : Int) - 0) = points.length := by omega
  rw [hN]
  have hl := compute_r_h3f_loop (points.length : Int) ev0 ev1 ev2 e00 e01 e02 e10 e11 e12 e20 e21 e22 points d dn points.length 0 curv a0 a1 a2 b00 b01 b02 b10 b11 b12 b20 b21 b22 normals rel (by omega) (by omega) (by omega) (by omega)
  rw [← h1, setRange_all, h1, ← h2, setRange_all, h2, ← h3, setRange_all, h3] at hl
  cases hc : Src.C09.NormalAndCurvatureEstimation.compute_r_h3f.loop1 (points.length : Int) ev0 ev1 ev2 e00 e01 e02 e10 e11 e12 e20 e21 e22 points points.length curv a0 a1 a2 b00 b01 b02 b10 b11 b12 b20 b21 b22 0 normals rel with
  | none => rw [show ((0 : Nat) : Int) = 0 from rfl] at hl; rw [hc] at hl; exact absurd hl (by simp)
  | some r => rw [show ((0 : Nat) : Int) = 0 from rfl] at hl; rw [hc] at hl; simpa using hl


/-- the loop of `compute(points, pointsKdTree, normals)` for `h3d`, `cnt` passes from index `k`: entries `k … k + cnt - 1` of the
    output vectors are overwritten with the per-point values (the oracle `planeEstimation_` read at each index), never `none` -/
theorem compute_n_h3d_loop (N : Int) (ev0 ev1 ev2 e00 e01 e02 e10 e11 e12 e20 e21 e22 : Int → α) (points : List (α × α × α × α)) (d : α × α × α × α) (dn : α × α × α × α) (cnt : Nat) :
    ∀ (k : Nat) (a0 a1 a2 b00 b01 b02 b10 b11 b12 b20 b21 b22 : α) (normals : List (α × α × α × α)),
    k + cnt ≤ normals.length → k + cnt ≤ points.length →
    (Src.C09.NormalAndCurvatureEstimation.compute_n_h3d.loop1 N ev0 ev1 ev2 e00 e01 e02 e10 e11 e12 e20 e21 e22 points cnt a0 a1 a2 b00 b01 b02 b10 b11 b12 b20 b21 b22 (k : Int) normals).map (fun r => (r.2.2.2.2.2.2.2.2.2.2.2.2.2))
      = some (setRange (fun i : Nat => Src.C09.flipNormalTowardOriginCoordinate_h3d (e00 (i : Int)) (e10 (i : Int)) (e20 (i : Int)) (points.getD i d).1 (points.getD i d).2.1 (points.getD i d).2.2.1 (points.getD i d).2.2.2) k cnt normals) := by
  induction cnt with
  | zero => intros; rfl
  | succ cnt ih =>
    intro k a0 a1 a2 b00 b01 b02 b10 b11 b12 b20 b21 b22 normals h0 h1
    unfold Src.C09.NormalAndCurvatureEstimation.compute_n_h3d.loop1
    simp only []
    rw [vecGet_ok normals k dn (by omega)]
    simp only []
    rw [vecSet_ok normals k _ (by omega)]
    simp only []
    rw [vecGet_set normals k _ (by omega), vecGet_ok points k d (by omega)]
    simp only []
    rw [vecSet_ok (normals.set k _) k _ (by simp; omega)]
    simp only []
    have hk : ((k : Int) + 1) = ((k + 1 : Nat) : Int) := by omega
    rw [hk, List.set_set]
    simp only [setRange]
    exact ih (k + 1) _ _ _ _ _ _ _ _ _ _ _ _ _ (by simp; omega) (by omega)

/-- `compute(points, pointsKdTree, normals)` for `h3d` as translated: with output vectors of the size of the cloud it returns (never
    `none`) the per-point values, index by index — for every value the oracle functions `ev*` / `e**` (what `planeEstimation_` leaves in
    `eigenValues_` / `eigenVectors_` at each index) may take and whatever the members and the output vectors held before -/
theorem compute_n_h3d_bridge (ev0 ev1 ev2 e00 e01 e02 e10 e11 e12 e20 e21 e22 : Int → α) (points : List (α × α × α × α)) (d : α × α × α × α) (dn : α × α × α × α)
    (a0 a1 a2 b00 b01 b02 b10 b11 b12 b20 b21 b22 : α) (normals : List (α × α × α × α))
    (h2 : normals.length = points.length) :
    (Src.C09.NormalAndCurvatureEstimation.compute_n_h3d a0 a1 a2 b00 b01 b02 b10 b11 b12 b20 b21 b22 normals ev0 ev1 ev2 e00 e01 e02 e10 e11 e12 e20 e21 e22 points).map (fun r => (r.2.2.2.2.2.2.2.2.2.2.2.2))
      = some ((List.range points.length).map (fun i : Nat => Src.C09.flipNormalTowardOriginCoordinate_h3d (e00 (i : Int)) (e10 (i : Int)) (e20 (i : Int)) (points.getD i d).1 (points.getD i d).2.1 (points.getD i d).2.2.1 (points.getD i d).2.2.2)) := by
  unfold Src.C09.NormalAndCurvatureEstimation.compute_n_h3d
  simp only []
  have hN : Int.toNat ((points.length : Int) - 0) = points.length := by omega
  rw [hN]
  have hl := compute_n_h3d_loop (points.length : Int) ev0 ev1 ev2 e00 e01 e02 e10 e11 e12 e20 e21 e22 points d dn points.length 0 a0 a1 a2 b00 b01 b02 b10 b11 b12 b20 b21 b22 normals (by omega) (by omega)
  rw [← h2, setRange_all, h2] at hl
  cases hc : Src.C09.NormalAndCurvatureEstimation.compute_n_h3d.loop1 (points.length : Int) ev0 ev1 ev2 e00 e01 e02 e10 e11 e12 e20 e21 e22 points points.length a0 a1 a2 b00 b01 b02 b10 b11 b12 b20 b21 b22 0 normals with
  | none => rw [show ((0 : Nat) : Int) = 0 from rfl] at hl; rw [hc] at hl; exact absurd hl (by simp)
  | some r => rw [show ((0 : Nat) : Int) = 0 from rfl] at hl; rw [hc] at hl; simpa using hl


/-- the loop of `compute(points, pointsKdTree, normals, curvatures)` for `h3d`, `cnt` passes from index `k`: entries `k … k + cnt - 1` of the
    output vectors are overwritten with the per-point values (the oracle `planeEstimation_` read at each index), never `none` -/
theorem compute_c_h3d_loop (N : Int) (ev0 ev1 ev2 e00 e01 e02 e10 e11 e12 e20 e21 e22 : Int → α) (points : List (α × α × α × α)) (d : α × α × α × α) (dn : α × α × α × α) (cnt : Nat) :
    ∀ (k : Nat) (curv : List α) (a0 a1 a2 b00 b01 b02 b10 b11 b12 b20 b21 b22 : α) (normals : List (α × α × α × α)),
    k + cnt ≤ curv.length → k + cnt ≤ normals.length → k + cnt ≤ points.length →
    (Src.C09.NormalAndCurvatureEstimation.compute_c_h3d.loop1 N ev0 ev1 ev2 e00 e01 e02 e10 e11 e12 e20 e21 e22 points cnt curv a0 a1 a2 b00 b01 b02 b10 b11 b12 b20 b21 b22 (k : Int) normals).map (fun r => (r.1, r.2.2.2.2.2.2.2.2.2.2.2.2.2.2))
      = some (setRange (fun i : Nat => ev0 (i : Int) / ((ev0 (i : Int) + ev1 (i : Int)) + ev2 (i : Int))) k cnt curv, setRange (fun i : Nat => Src.C09.flipNormalTowardOriginCoordinate_h3d (e00 (i : Int)) (e10 (i : Int)) (e20 (i : Int)) (points.getD i d).1 (points.getD i d).2.1 (points.getD i d).2.2.1 (points.getD i d).2.2.2) k cnt normals) := by
  induction cnt with
  | zero => intros; rfl
  | succ cnt ih =>
    intro k curv a0 a1 a2 b00 b01 b02 b10 b11 b12 b20 b21 b22 normals h0 h1 h2
    unfold Src.C09.NormalAndCurvatureEstimation.compute_c_h3d.loop1
    simp only []
    rw [vecSet_ok curv k _ (by omega)]
    simp only []
    rw [vecGet_ok normals k dn (by omega)]
    simp only []
    rw [vecSet_ok normals k _ (by omega)]
    simp only []
    rw [vecGet_set normals k _ (by omega), vecGet_ok points k d (by omega)]
    simp only []
    rw [vecSet_ok (normals.set k _) k _ (by simp; omega)]
    simp only []
    have hk : ((k : Int) + 1) = ((k + 1 : Nat) : Int) := by omega
    rw [hk, List.set_set]
    simp only [setRange]
    exact ih (k + 1) _ _ _ _ _ _ _ _ _ _ _ _ _ _ (by simp; omega) (by simp; omega) (by omega)

/-- `compute(points, pointsKdTree, normals, curvatures)` for `h3d` as translated: with output vectors of the size of the cloud it returns (never
    `none`) the per-point values, index by index — for every value the oracle functions `ev*` / `e**` (what `planeEstimation_` leaves in
    `eigenValues_` / `eigenVectors_` at each index) may take and whatever the members and the output vectors held before -/
theorem compute_c_h3d_bridge (ev0 ev1 ev2 e00 e01 e02 e10 e11 e12 e20 e21 e22 : Int → α) (points : List (α × α × α × α)) (d : α × α × α × α) (dn : α × α × α × α)
    (curv : List α) (a0 a1 a2 b00 b01 b02 b10 b11 b12 b20 b21 b22 : α) (normals : List (α × α × α × α))
    (h1 : curv.length = points.length) (h2 : normals.length = points.length) :
    (Src.C09.NormalAndCurvatureEstimation.compute_c_h3d curv a0 a1 a2 b00 b01 b02 b10 b11 b12 b20 b21 b22 normals ev0 ev1 ev2 e00 e01 e02 e10 e11 e12 e20 e21 e22 points).map (fun r => (r.1, r.2.2.2.2.2.2.2.2.2.2.2.2.2))
      = some ((List.range points.length).map (fun i : Nat => ev0 (i : Int) / ((ev0 (i : Int) + ev1 (i : Int)) + ev2 (i : Int))), (List.range points.length).map (fun i : Nat => Src.C09.flipNormalTowardOriginCoordinate_h3d (e00 (i : Int)) (e10 (i : Int)) (e20 (i : Int)) (points.getD i d).1 (points.getD i d).2.1 (points.getD i d).2.2.1 (points.getD i d).2.2.2)) := by
  unfold Src.C09.NormalAndCurvatureEstimation.compute_c_h3d
  simp only []
  have hN : Int.toNat ((points.length : Int) - 0) = points.length := by omega
  rw [hN]
  have hl := compute_c_h3d_loop (points.length : Int) ev0 ev1 ev2 e00 e01 e02 e10 e11 e12 e20 e21 e22 points d dn points.length 0 curv a0 a1 a2 b00 b01 b02 b10 b11 b12 b20 b21 b22 normals (by omega) (by omega) (by omega)
  rw [← h1, setRange_all, h1, ← h2, setRange_all, h2] at hl
  cases hc : Src.C09.NormalAndCurvatureEstimation.compute_c_h3d.loop1 (points.length : Int) ev0 ev1 ev2 e00 e01 e02 e10 e11 e12 e20 e21 e22 points points.length curv a0 a1 a2 b00 b01 b02 b10 b11 b12 b20 b21 b22 0 normals with
  | none => rw [show ((0 : Nat) : Int) = 0 from rfl] at hl; rw [hc] at hl; exact absurd hl (by simp)
  | some r => rw [show ((0 : Nat) : Int) = 0 from rfl] at hl; rw [hc] at hl; simpa using hl


/-- the loop of `compute(points, pointsKdTree, normals, curvatures, normalsReliability)` for `h3d`, `cnt` passes from index `k`: entries `k … k + cnt - 1` of the
    output vectors are overwritten with the per-point values (the oracle `planeEstimation_` read at each index), never `none` -/
theorem compute_r_h3d_loop (N : Int) (ev0 ev1 ev2 e00 e01 e02 e10 e11 e12 e20 e21 e22 : Int → α) (points : List (α × α × α × α)) (d : α × α × α × α) (dn : α × α × α × α) (cnt : Nat) :
    ∀ (k : Nat) (curv : List α) (a0 a1 a2 b00 b01 b02 b10 b11 b12 b20 b21 b22 : α) (normals : List (α × α × α × α)) (rel : List α),
    k + cnt ≤ curv.length → k + cnt ≤ normals.length → k + cnt ≤ rel.length → k + cnt ≤ points.length →
    (Src.C09.NormalAndCurvatureEstimation.compute_r_h3d.loop1 N ev0 ev1 ev2 e00 e01 e02 e10 e11 e12 e20 e21 e22 points cnt curv a0 a1 a2 b00 b01 b02 b10 b11 b12 b20 b21 b22 (k : Int) normals rel).map (fun r => (r.1, r.2.2.2.2.2.2.2.2.2.2.2.2.2.2.1, r.2.2.2.2.2.2.2.2.2.2.2.2.2.2.2))
      = some (setRange (fun i : Nat => ev0 (i : Int) / ((ev0 (i : Int) + ev1 (i : Int)) + ev2 (i : Int))) k cnt curv, setRange (fun i : Nat => Src.C09.flipNormalTowardOriginCoordinate_h3d (e00 (i : Int)) (e10 (i : Int)) (e20 (i : Int)) (points.getD i d).1 (points.getD i d).2.1 (points.getD i d).2.2.1 (points.getD i d).2.2.2) k cnt normals, setRange (fun i : Nat => Src.C09.NormalAndCurvatureEstimation.computeNormalReliability_h3d (ev0 (i : Int)) (ev1 (i : Int)) (ev2 (i : Int))) k cnt rel) := by
  induction cnt with
  | zero => intros; rfl
  | succ cnt ih =>
    intro k curv a0 a1 a2 b00 b01 b02 b10 b11 b12 b20 b21 b22 normals rel h0 h1 h2 h3
    unfold Src.C09.NormalAndCurvatureEstimation.compute_r_h3d.loop1
    simp only []
    rw [vecSet_ok curv k _ (by omega)]
    simp only []
    rw [vecGet_ok normals k dn (by omega)]
    simp only []
    rw [vecSet_ok normals k _ (by omega)]
    simp only []
    rw [vecGet_set normals k _ (by omega), vecGet_ok points k d (by omega)]
    simp only []
    rw [vecSet_ok (normals.set k _) k _ (by simp; omega)]
    simp only []
    rw [vecSet_ok rel k _ (by omega)]
    simp only []
    have hk : ((k : Int) + 1) = ((k + 1 : Nat) : Int) := by omega
    rw [hk, List.set_set]
    simp only [setRange]
    exact ih (k + 1) _ _ _ _ _ _ _ _ _ _ _ _ _ _ _ (by simp; omega) (by simp; omega) (by simp; omega) (by omega)

/-- `compute(points, pointsKdTree, normals, curvatures, normalsReliability)` for `h3d` as translated: with output vectors of the size of the cloud it returns (never
    `none`) the per-point values, index by index — for every value the oracle functions `ev*` / `e**` (what `planeEstimation_` leaves in
    `eigenValues_` / `eigenVectors_` at each index) may take and whatever the members and the output vectors held before -/
theorem compute_r_h3d_bridge (ev0 ev1 ev2 e00 e01 e02 e10 e11 e12 e20 e21 e22 : Int → α) (points : List (α × α × α × α)) (d : α × α × α × α) (dn : α × α × α × α)
    (curv : List α) (a0 a1 a2 b00 b01 b02 b10 b11 b12 b20 b21 b22 : α) (normals : List (α × α × α × α)) (rel : List α)
    (h1 : curv.length = points.length) (h2 : normals.length = points.length) (h3 : rel.length = points.length) :
    (Src.C09.NormalAndCurvatureEstimation.compute_r_h3d curv a0 a1 a2 b00 b01 b02 b10 b11 b12 b20 b21 b22 normals rel ev0 ev1 ev2 e00 e01 e02 e10 e11 e12 e20 e21 e22 points).map (fun r => (r.1, r.2.2.2.2.2.2.2.2.2.2.2.2.2.1, r.2.2.2.2.2.2.2.2.2.2.2.2.2.2))
      = some ((List.range points.length).map (fun i : Nat => ev0 (i : Int) / ((ev0 (i : Int) + ev1 (i : Int)) + ev2 (i : Int))), (List.range points.length).map (fun i : Nat => Src.C09.flipNormalTowardOriginCoordinate_h3d (e00 (i : Int)) (e10 (i : Int)) (e20 (i : Int)) (points.getD i d).1 (points.getD i d).2.1 (points.getD i d).2.2.1 (points.getD i d).2.2.2), (List.range points.length).map (fun i : Nat => Src.C09.NormalAndCurvatureEstimation.computeNormalReliability_h3d (ev0 (i : Int)) (ev1 (i : Int)) (ev2 (i : Int)))) := by
  unfold Src.C09.NormalAndCurvatureEstimation.compute_r_h3d
  simp only []
  have hN : Int.toNat ((points.length : Int) - 0) = points.length := by omega
  rw [hN]
  have hl := compute_r_h3d_loop (points.length : Int) ev0 ev1 ev2 e00 e01 e02 e10 e11 e12 e20 e21 e22 points d dn points.length 0 curv a0 a1 a2 b00 b01 b02 b10 b11 b12 b20 b21 b22 normals rel (by omega) (by omega) (by omega) (by omega)
  rw [← h1, setRange_all, h1, ← h2, setRange_all, h2, ← h3, setRange_all, h3] at hl
  cases hc : Src.C09.NormalAndCurvatureEstimation.compute_r_h3d.loop1 (points.length : Int) ev0 ev1 ev2 e00 e01 e02 e10 e11 e12 e20 e21 e22 points points.length curv a0 a1 a2 b00 b01 b02 b10 b11 b12 b20 b21 b22 0 normals rel with
  | none => rw [show ((0 : Nat) : Int) = 0 from rfl] at hl; rw [hc] at hl; exact absurd hl (by simp)
  | some r => rw [show ((0 : Nat) : Int) = 0 from rfl] at hl; rw [hc] at hl; simpa using hl


end
end Romea.Bridge.C09
