import RomeaProofs.Bridge.C20Homog
import RomeaProofs.Bridge.C20Cor
import RomeaProofs.Properties.C20

/-!
# Bridge C20, part 4: `C20.pointset_extents_limits` restated about the translated HOMOGENEOUS instantiation
`PointSetPreconditioner<HomogeneousCoordinates2d>::compute` (`Romea.Src.C20.PointSetPreconditioner.compute_h2d`), at ℝ: for every non-empty
set of homogeneous points `(x, y, w)` with coordinates in `[-max(), max()]` the translated code terminates normally and the
`pointSetMin_` / `pointSetMax_` it writes are the true componentwise extrema — of ALL THREE coordinates, the homogeneous one included —
and the translation is formed from the first two means only.
-/
namespace Romea.Bridge.C20
open Romea Romea.BBox Romea.C20

theorem src_pointset_extents_h2d (L : Limits ℝ) (hL : L.lowest = -L.maxVal) (pts : List (ℝ × ℝ × ℝ)) (hne : pts ≠ [])
    (hM : ∀ p ∈ pts, (-L.maxVal ≤ p.1 ∧ p.1 ≤ L.maxVal) ∧ (-L.maxVal ≤ p.2.1 ∧ p.2.1 ≤ L.maxVal) ∧
      (-L.maxVal ≤ p.2.2 ∧ p.2.2 ≤ L.maxVal)) :
    ∃ mx0 mx1 mx2 me0 me1 me2 mn0 mn1 mn2 sc t0 t1,
      (letI := L; Src.C20.PointSetPreconditioner.compute_h2d pts) = some (mx0, mx1, mx2, me0, me1, me2, mn0, mn1, mn2, sc, t0, t1) ∧
      (∀ p ∈ pts, mn0 ≤ p.1 ∧ p.1 ≤ mx0 ∧ mn1 ≤ p.2.1 ∧ p.2.1 ≤ mx1 ∧ mn2 ≤ p.2.2 ∧ p.2.2 ≤ mx2) ∧
      (∃ p ∈ pts, mn0 = p.1) ∧ (∃ p ∈ pts, mx0 = p.1) ∧ (∃ p ∈ pts, mn1 = p.2.1) ∧ (∃ p ∈ pts, mx1 = p.2.1) ∧
      (∃ p ∈ pts, mn2 = p.2.2) ∧ (∃ p ∈ pts, mx2 = p.2.2) ∧
      t0 = -me0 * sc ∧ t1 = -me1 * sc := by
  let _ := L
  let q : List (Vec 3 ℝ) := pts.map (fun p => v3 p.1 p.2.1 p.2.2)
  have hq : q ≠ [] := by simpa [q] using hne
  have hMq : ∀ p ∈ q, ∀ i, -L.maxVal ≤ p i ∧ p i ≤ L.maxVal := by
    intro p hp i
    obtain ⟨p', hp', rfl⟩ := List.mem_map.mp hp
    match i with
    | ⟨0, _⟩ => exact (hM p' hp').1
    | ⟨1, _⟩ => exact (hM p' hp').2.1
    | ⟨2, _⟩ => exact (hM p' hp').2.2
  obtain ⟨hmin, hmax⟩ := pointset_extents_limits (cart := 2) (by decide : 2 ≤ 3) L.maxVal q hq hMq
  have hcomp : Precond.compute (cart := 2) (by decide : 2 ≤ 3) q = Precond.computeWith (by decide : 2 ≤ 3) L.maxVal (-L.maxVal) q := by
    unfold Precond.compute; rw [← hL]
  refine ⟨_, _, _, _, _, _, _, _, _, _, _, _, precond_compute_h2d_bridge hc_real pts, ?_⟩
  rw [show Precond.compute (sz := 3) (cart := 2) (by decide) (pts.map (fun p => v3 p.1 p.2.1 p.2.2))
    = Precond.computeWith (by decide : 2 ≤ 3) L.maxVal (-L.maxVal) q from hcomp]
  have lift : ∀ (i : Fin 3) (f : ℝ × ℝ × ℝ → ℝ), (∀ p : ℝ × ℝ × ℝ, (v3 p.1 p.2.1 p.2.2 : Vec 3 ℝ) i = f p) →
      ∀ m, (∃ p ∈ q, m = p i) → ∃ p ∈ pts, m = f p := by
    intro i f hf m ⟨p, hp, hm⟩
    obtain ⟨p', hp', rfl⟩ := List.mem_map.mp hp
    exact ⟨p', hp', by rw [hm, hf]⟩
  refine ⟨?_, lift 0 (fun p => p.1) (fun _ => rfl) _ (hmin 0).2, lift 0 (fun p => p.1) (fun _ => rfl) _ (hmax 0).2,
    lift 1 (fun p => p.2.1) (fun _ => rfl) _ (hmin 1).2, lift 1 (fun p => p.2.1) (fun _ => rfl) _ (hmax 1).2,
    lift 2 (fun p => p.2.2) (fun _ => rfl) _ (hmin 2).2, lift 2 (fun p => p.2.2) (fun _ => rfl) _ (hmax 2).2, rfl, rfl⟩
  intro p hp
  have hpq : v3 p.1 p.2.1 p.2.2 ∈ q := List.mem_map.mpr ⟨p, hp, rfl⟩
  exact ⟨(hmin 0).1 _ hpq, (hmax 0).1 _ hpq, (hmin 1).1 _ hpq, (hmax 1).1 _ hpq, (hmin 2).1 _ hpq, (hmax 2).1 _ hpq⟩

end Romea.Bridge.C20
