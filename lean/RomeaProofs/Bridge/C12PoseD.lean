import RomeaProofs.Bridge.C12PoseDefs

/-! Bridge C12, part 3D: components 18 … 23 of the 42 scalars returned by the translated `operator*(Affine3d, Pose3D)` = the model's
(`Bridge/C12Pose.lean` assembles the groups; split over several modules so that every group is checked within the default heartbeat
budget and a mismatch fails fast). GENERATED layout, hand-checked statements; `rfl` after removing the model's tabulations. -/
set_option linter.unusedSectionVars false
set_option maxRecDepth 100000

namespace Romea.Bridge.C12
open Romea Romea.Pose Romea.Deriv

variable {α : Type} [Add α] [Sub α] [Mul α] [Div α] [Neg α] [LT α] [DecidableLT α] [NatCast α] [Trans α]

theorem pose_comp_18_20 (rotOf : Mat 3 3 α → Mat 3 3 α) (a00 a01 a02 a10 a11 a12 a20 a21 a22 : α) (t p o : Vec 3 α) (cov : Mat 6 6 α) :
    (Src.C12.operator_mul_pose (rotO rotOf 0 0) (rotO rotOf 0 1) (rotO rotOf 0 2) (rotO rotOf 1 0) (rotO rotOf 1 1) (rotO rotOf 1 2) (rotO rotOf 2 0) (rotO rotOf 2 1) (rotO rotOf 2 2)
      a00 a01 a02 (t 0) a10 a11 a12 (t 1) a20 a21 a22 (t 2)
      (cov 0 0) (cov 0 1) (cov 0 2) (cov 0 3) (cov 0 4) (cov 0 5) (cov 1 0) (cov 1 1) (cov 1 2) (cov 1 3) (cov 1 4) (cov 1 5) (cov 2 0) (cov 2 1) (cov 2 2) (cov 2 3) (cov 2 4) (cov 2 5) (cov 3 0) (cov 3 1) (cov 3 2) (cov 3 3) (cov 3 4) (cov 3 5) (cov 4 0) (cov 4 1) (cov 4 2) (cov 4 3) (cov 4 4) (cov 4 5) (cov 5 0) (cov 5 1) (cov 5 2) (cov 5 3) (cov 5 4) (cov 5 5)
      (o 0) (o 1) (o 2) (p 0) (p 1) (p 2)).2.2.2.2.2.2.2.2.2.2.2.2.2.2.2.2.2.2.1 = (flatPose (poseMul rotOf (m33 a00 a01 a02 a10 a11 a12 a20 a21 a22) t p o cov)).2.2.2.2.2.2.2.2.2.2.2.2.2.2.2.2.2.2.1 ∧
    (Src.C12.operator_mul_pose (rotO rotOf 0 0) (rotO rotOf 0 1) (rotO rotOf 0 2) (rotO rotOf 1 0) (rotO rotOf 1 1) (rotO rotOf 1 2) (rotO rotOf 2 0) (rotO rotOf 2 1) (rotO rotOf 2 2)
      a00 a01 a02 (t 0) a10 a11 a12 (t 1) a20 a21 a22 (t 2)
      (cov 0 0) (cov 0 1) (cov 0 2) (cov 0 3) (cov 0 4) (cov 0 5) (cov 1 0) (cov 1 1) (cov 1 2) (cov 1 3) (cov 1 4) (cov 1 5) (cov 2 0) (cov 2 1) (cov 2 2) (cov 2 3) (cov 2 4) (cov 2 5) (cov 3 0) (cov 3 1) (cov 3 2) (cov 3 3) (cov 3 4) (cov 3 5) (cov 4 0) (cov 4 1) (cov 4 2) (cov 4 3) (cov 4 4) (cov 4 5) (cov 5 0) (cov 5 1) (cov 5 2) (cov 5 3) (cov 5 4) (cov 5 5)
      (o 0) (o 1) (o 2) (p 0) (p 1) (p 2)).2.2.2.2.2.2.2.2.2.2.2.2.2.2.2.2.2.2.2.1 = (flatPose (poseMul rotOf (m33 a00 a01 a02 a10 a11 a12 a20 a21 a22) t p o cov)).2.2.2.2.2.2.2.2.2.2.2.2.2.2.2.2.2.2.2.1 ∧
    (Src.C12.operator_mul_pose (rotO rotOf 0 0) (rotO rotOf 0 1) (rotO rotOf 0 2) (rotO rotOf 1 0) (rotO rotOf 1 1) (rotO rotOf 1 2) (rotO rotOf 2 0) (rotO rotOf 2 1) (rotO rotOf 2 2)
      a00 a01 a02 (t 0) a10 a11 a12 (t 1) a20 a21 a22 (t 2)
      (cov 0 0) (cov 0 1) (cov 0 2) (cov 0 3) (cov 0 4) (cov 0 5) (cov 1 0) (cov 1 1) (cov 1 2) (cov 1 3) (cov 1 4) (cov 1 5) (cov 2 0) (cov 2 1) (cov 2 2) (cov 2 3) (cov 2 4) (cov 2 5) (cov 3 0) (cov 3 1) (cov 3 2) (cov 3 3) (cov 3 4) (cov 3 5) (cov 4 0) (cov 4 1) (cov 4 2) (cov 4 3) (cov 4 4) (cov 4 5) (cov 5 0) (cov 5 1) (cov 5 2) (cov 5 3) (cov 5 4) (cov 5 5)
      (o 0) (o 1) (o 2) (p 0) (p 1) (p 2)).2.2.2.2.2.2.2.2.2.2.2.2.2.2.2.2.2.2.2.2.1 = (flatPose (poseMul rotOf (m33 a00 a01 a02 a10 a11 a12 a20 a21 a22) t p o cov)).2.2.2.2.2.2.2.2.2.2.2.2.2.2.2.2.2.2.2.2.1 := by
  simp only [flatPose, poseMul, propagate, jacobian, dRotation, trueDerivs, smartInit, tab_get, vtab_get]
  refine ⟨?_, ?_, ?_⟩ <;> rfl

theorem pose_comp_21_23 (rotOf : Mat 3 3 α → Mat 3 3 α) (a00 a01 a02 a10 a11 a12 a20 a21 a22 : α) (t p o : Vec 3 α) (cov : Mat 6 6 α) :
    (Src.C12.operator_mul_pose (rotO rotOf 0 0) (rotO rotOf 0 1) (rotO rotOf 0 2) (rotO rotOf 1 0) (rotO rotOf 1 1) (rotO rotOf 1 2) (rotO rotOf 2 0) (rotO rotOf 2 1) (rotO rotOf 2 2)
      a00 a01 a02 (t 0) a10 a11 a12 (t 1) a20 a21 a22 (t 2)
      (cov 0 0) (cov 0 1) (cov 0 2) (cov 0 3) (cov 0 4) (cov 0 5) (cov 1 0) (cov 1 1) (cov 1 2) (cov 1 3) (cov 1 4) (cov 1 5) (cov 2 0) (cov 2 1) (cov 2 2) (cov 2 3) (cov 2 4) (cov 2 5) (cov 3 0) (cov 3 1) (cov 3 2) (cov 3 3) (cov 3 4) (cov 3 5) (cov 4 0) (cov 4 1) (cov 4 2) (cov 4 3) (cov 4 4) (cov 4 5) (cov 5 0) (cov 5 1) (cov 5 2) (cov 5 3) (cov 5 4) (cov 5 5)
      (o 0) (o 1) (o 2) (p 0) (p 1) (p 2)).2.2.2.2.2.2.2.2.2.2.2.2.2.2.2.2.2.2.2.2.2.1 = (flatPose (poseMul rotOf (m33 a00 a01 a02 a10 a11 a12 a20 a21 a22) t p o cov)).2.2.2.2.2.2.2.2.2.2.2.2.2.2.2.2.2.2.2.2.2.1 ∧
    (Src.C12.operator_mul_pose (rotO rotOf 0 0) (rotO rotOf 0 1) (rotO rotOf 0 2) (rotO rotOf 1 0) (rotO rotOf 1 1) (rotO rotOf 1 2) (rotO rotOf 2 0) (rotO rotOf 2 1) (rotO rotOf 2 2)
      a00 a01 a02 (t 0) a10 a11 a12 (t 1) a20 a21 a22 (t 2)
      (cov 0 0) (cov 0 1) (cov 0 2) (cov 0 3) (cov 0 4) (cov 0 5) (cov 1 0) (cov 1 1) (cov 1 2) (cov 1 3) (cov 1 4) (cov 1 5) (cov 2 0) (cov 2 1) (cov 2 2) (cov 2 3) (cov 2 4) (cov 2 5) (cov 3 0) (cov 3 1) (cov 3 2) (cov 3 3) (cov 3 4) (cov 3 5) (cov 4 0) (cov 4 1) (cov 4 2) (cov 4 3) (cov 4 4) (cov 4 5) (cov 5 0) (cov 5 1) (cov 5 2) (cov 5 3) (cov 5 4) (cov 5 5)
      (o 0) (o 1) (o 2) (p 0) (p 1) (p 2)).2.2.2.2.2.2.2.2.2.2.2.2.2.2.2.2.2.2.2.2.2.2.1 = (flatPose (poseMul rotOf (m33 a00 a01 a02 a10 a11 a12 a20 a21 a22) t p o cov)).2.2.2.2.2.2.2.2.2.2.2.2.2.2.2.2.2.2.2.2.2.2.1 ∧
    (Src.C12.operator_mul_pose (rotO rotOf 0 0) (rotO rotOf 0 1) (rotO rotOf 0 2) (rotO rotOf 1 0) (rotO rotOf 1 1) (rotO rotOf 1 2) (rotO rotOf 2 0) (rotO rotOf 2 1) (rotO rotOf 2 2)
      a00 a01 a02 (t 0) a10 a11 a12 (t 1) a20 a21 a22 (t 2)
      (cov 0 0) (cov 0 1) (cov 0 2) (cov 0 3) (cov 0 4) (cov 0 5) (cov 1 0) (cov 1 1) (cov 1 2) (cov 1 3) (cov 1 4) (cov 1 5) (cov 2 0) (cov 2 1) (cov 2 2) (cov 2 3) (cov 2 4) (cov 2 5) (cov 3 0) (cov 3 1) (cov 3 2) (cov 3 3) (cov 3 4) (cov 3 5) (cov 4 0) (cov 4 1) (cov 4 2) (cov 4 3) (cov 4 4) (cov 4 5) (cov 5 0) (cov 5 1) (cov 5 2) (cov 5 3) (cov 5 4) (cov 5 5)
      (o 0) (o 1) (o 2) (p 0) (p 1) (p 2)).2.2.2.2.2.2.2.2.2.2.2.2.2.2.2.2.2.2.2.2.2.2.2.1 = (flatPose (poseMul rotOf (m33 a00 a01 a02 a10 a11 a12 a20 a21 a22) t p o cov)).2.2.2.2.2.2.2.2.2.2.2.2.2.2.2.2.2.2.2.2.2.2.2.1 := by
  simp only [flatPose, poseMul, propagate, jacobian, dRotation, trueDerivs, smartInit, tab_get, vtab_get]
  refine ⟨?_, ?_, ?_⟩ <;> rfl

end Romea.Bridge.C12
