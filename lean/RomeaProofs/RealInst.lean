import RomeaModel.Scalar
import Mathlib.Analysis.SpecialFunctions.Trigonometric.Arctan
import Mathlib.Analysis.SpecialFunctions.Trigonometric.Inverse
import Mathlib.Analysis.SpecialFunctions.Pow.Real
import Mathlib.Analysis.SpecialFunctions.Complex.Arg
import Mathlib.Analysis.SpecialFunctions.Sqrt

/-!
# The scalar interface at `ℝ`

libm functions are interpreted as the mathematical functions (trusted-base idealisation:
no rounding, no overflow).  Mathlib's real functions are *totalised* (`x / 0 = 0`,
`Real.sqrt (-1) = 0`, `Real.log (-x) = Real.log x`, `Real.arcsin` clamps): a theorem over `ℝ` must
therefore carry, and discharge, the guard of every partial operation on its path explicitly
(`RomeaProofs/RN.lean` offers the NaN-absorbing alternative where that is enforced by the type).
-/
namespace Romea

noncomputable instance : Trans ℝ where
  sqrt := Real.sqrt
  sin := Real.sin
  cos := Real.cos
  tan := Real.tan
  atan := Real.arctan
  asin := Real.arcsin
  acos := Real.arccos
  exp := Real.exp
  log := Real.log
  abs := fun x => |x|
  floor := fun x => (⌊x⌋ : ℝ)
  ceil := fun x => (⌈x⌉ : ℝ)
  atan2 := fun y x => Complex.arg ⟨x, y⟩
  pow := fun x y => x ^ y
  pi := Real.pi

noncomputable instance : Trunc ℝ := ⟨fun x => if 0 ≤ x then ⌊x⌋ else ⌈x⌉⟩

@[simp] theorem trans_sqrt (x : ℝ) : Trans.sqrt x = Real.sqrt x := rfl
@[simp] theorem trans_sin (x : ℝ) : Trans.sin x = Real.sin x := rfl
@[simp] theorem trans_cos (x : ℝ) : Trans.cos x = Real.cos x := rfl
@[simp] theorem trans_tan (x : ℝ) : Trans.tan x = Real.tan x := rfl
@[simp] theorem trans_atan (x : ℝ) : Trans.atan x = Real.arctan x := rfl
@[simp] theorem trans_asin (x : ℝ) : Trans.asin x = Real.arcsin x := rfl
@[simp] theorem trans_acos (x : ℝ) : Trans.acos x = Real.arccos x := rfl
@[simp] theorem trans_exp (x : ℝ) : Trans.exp x = Real.exp x := rfl
@[simp] theorem trans_log (x : ℝ) : Trans.log x = Real.log x := rfl
@[simp] theorem trans_abs (x : ℝ) : Trans.abs x = |x| := rfl
@[simp] theorem trans_floor (x : ℝ) : Trans.floor x = (⌊x⌋ : ℝ) := rfl
@[simp] theorem trans_ceil (x : ℝ) : Trans.ceil x = (⌈x⌉ : ℝ) := rfl
@[simp] theorem trans_atan2 (y x : ℝ) : Trans.atan2 y x = Complex.arg ⟨x, y⟩ := rfl
@[simp] theorem trans_pow (x y : ℝ) : Trans.pow x y = x ^ y := rfl
@[simp] theorem trans_pi : (Trans.pi : ℝ) = Real.pi := rfl
theorem trunc_real (x : ℝ) : Trunc.trunc x = if 0 ≤ x then ⌊x⌋ else ⌈x⌉ := rfl

end Romea
