import RomeaProofs.RealInst

/-!
# `RN` — reals with an absorbing NaN

`RN` wraps `Option ℝ`; `nan` plays the role of NaN: it is produced by every operation the C++ must
not hit (`x / 0`, `sqrt` of a negative, `log` of a non-positive, `asin`/`acos` outside [-1, 1], `pow`
with a non-positive base, `atan2 0 0`, `tan` at a pole) and absorbed by every other operation; `<` and
`≤` are false when either side is `nan`, exactly as comparisons with a NaN are.  A theorem of the
form `f (of x) = of y` can only be proved by discharging the guard of every partial operation on the
path (`div_of`, `sqrt_of`, `log_of` … below).  No infinities: an overflow-free idealisation.
-/
namespace Romea

structure RN where
  val : Option ℝ

namespace RN
open Classical

/-- a proper real number -/
def of (a : ℝ) : RN := ⟨some a⟩
/-- the absorbing "NaN" -/
def nan : RN := ⟨none⟩

theorem of_inj {a b : ℝ} : of a = of b ↔ a = b := by simp [of]
theorem of_ne_nan (a : ℝ) : of a ≠ nan := by simp [of, nan]
theorem eq_of_or_nan (x : RN) : x = nan ∨ ∃ a, x = of a := by
  rcases x with ⟨_ | a⟩
  · exact Or.inl rfl
  · exact Or.inr ⟨a, rfl⟩

noncomputable section

def lift1 (f : ℝ → ℝ) (ok : ℝ → Prop) (x : RN) : RN :=
  match x.val with
  | some a => if ok a then of (f a) else nan
  | none => nan

def lift2 (f : ℝ → ℝ → ℝ) (ok : ℝ → ℝ → Prop) (x y : RN) : RN :=
  match x.val, y.val with
  | some a, some b => if ok a b then of (f a b) else nan
  | _, _ => nan

theorem lift1_of (f ok) (a : ℝ) (h : ok a) : lift1 f ok (of a) = of (f a) := by simp [lift1, of, h]
theorem lift1_of_not (f ok) (a : ℝ) (h : ¬ ok a) : lift1 f ok (of a) = nan := by simp [lift1, of, h]
@[simp] theorem lift1_nan (f ok) : lift1 f ok nan = nan := by simp [lift1, nan]
theorem lift2_of (f ok) (a b : ℝ) (h : ok a b) : lift2 f ok (of a) (of b) = of (f a b) := by
  simp [lift2, of, h]
theorem lift2_of_not (f ok) (a b : ℝ) (h : ¬ ok a b) : lift2 f ok (of a) (of b) = nan := by
  simp [lift2, of, h]
@[simp] theorem lift2_nan_left (f ok) (y : RN) : lift2 f ok nan y = nan := by simp [lift2, nan]
@[simp] theorem lift2_nan_right (f ok) (x : RN) : lift2 f ok x nan = nan := by
  rcases x with ⟨_ | a⟩ <;> simp [lift2, nan]

def add : RN → RN → RN := lift2 (· + ·) (fun _ _ => True)
def sub : RN → RN → RN := lift2 (· - ·) (fun _ _ => True)
def mul : RN → RN → RN := lift2 (· * ·) (fun _ _ => True)
def div : RN → RN → RN := lift2 (· / ·) (fun _ b => b ≠ 0)
def neg : RN → RN := lift1 (fun a => -a) (fun _ => True)
def lt (x y : RN) : Prop := match x.val, y.val with | some a, some b => a < b | _, _ => False
def le (x y : RN) : Prop := match x.val, y.val with | some a, some b => a ≤ b | _, _ => False

instance : Add RN := ⟨add⟩
instance : Sub RN := ⟨sub⟩
instance : Mul RN := ⟨mul⟩
instance : Div RN := ⟨div⟩
instance : Neg RN := ⟨neg⟩
instance : NatCast RN := ⟨fun n => of (n : ℝ)⟩
instance : IntCast RN := ⟨fun n => of (n : ℝ)⟩
instance : OfScientific RN := ⟨fun m s e => of (OfScientific.ofScientific m s e : ℝ)⟩
instance : LT RN := ⟨lt⟩
instance : LE RN := ⟨le⟩
instance : DecidableLT RN := fun _ _ => Classical.dec _
instance : DecidableLE RN := fun _ _ => Classical.dec _

instance : Trans RN where
  sqrt := lift1 Real.sqrt (fun a => 0 ≤ a)
  sin := lift1 Real.sin (fun _ => True)
  cos := lift1 Real.cos (fun _ => True)
  tan := lift1 Real.tan (fun a => Real.cos a ≠ 0)
  atan := lift1 Real.arctan (fun _ => True)
  asin := lift1 Real.arcsin (fun a => -1 ≤ a ∧ a ≤ 1)
  acos := lift1 Real.arccos (fun a => -1 ≤ a ∧ a ≤ 1)
  exp := lift1 Real.exp (fun _ => True)
  log := lift1 Real.log (fun a => 0 < a)
  abs := lift1 (fun a => |a|) (fun _ => True)
  floor := lift1 (fun a => (⌊a⌋ : ℝ)) (fun _ => True)
  ceil := lift1 (fun a => (⌈a⌉ : ℝ)) (fun _ => True)
  atan2 := lift2 (fun y x => Complex.arg ⟨x, y⟩) (fun y x => ¬ (x = 0 ∧ y = 0))
  pow := lift2 (fun a b => a ^ b) (fun a _ => 0 < a)
  pi := of Real.pi

/-- unfold the operator instances of `RN` down to `lift1`/`lift2` -/
macro "rn_unfold" : tactic =>
  `(tactic| simp only [HAdd.hAdd, HSub.hSub, HMul.hMul, HDiv.hDiv, Add.add, Sub.sub, Mul.mul, Div.div, Neg.neg,
      add, sub, mul, div, neg, Trans.sqrt, Trans.sin, Trans.cos, Trans.tan, Trans.atan, Trans.asin, Trans.acos,
      Trans.exp, Trans.log, Trans.abs, Trans.atan2, Trans.pow])

@[simp] theorem add_of (a b : ℝ) : of a + of b = of (a + b) := by rn_unfold; exact lift2_of _ _ a b trivial
@[simp] theorem sub_of (a b : ℝ) : of a - of b = of (a - b) := by rn_unfold; exact lift2_of _ _ a b trivial
@[simp] theorem mul_of (a b : ℝ) : of a * of b = of (a * b) := by rn_unfold; exact lift2_of _ _ a b trivial
@[simp] theorem neg_of (a : ℝ) : -of a = of (-a) := by rn_unfold; exact lift1_of _ _ a trivial
theorem div_of (a b : ℝ) (h : b ≠ 0) : of a / of b = of (a / b) := by rn_unfold; exact lift2_of _ _ a b h
theorem div_zero (a : ℝ) : of a / of 0 = nan := by rn_unfold; exact lift2_of_not _ _ a 0 (by simp)
@[simp] theorem add_nan_left (y : RN) : nan + y = nan := by rn_unfold; exact lift2_nan_left _ _ y
@[simp] theorem add_nan_right (x : RN) : x + nan = nan := by rn_unfold; exact lift2_nan_right _ _ x
@[simp] theorem sub_nan_left (y : RN) : nan - y = nan := by rn_unfold; exact lift2_nan_left _ _ y
@[simp] theorem sub_nan_right (x : RN) : x - nan = nan := by rn_unfold; exact lift2_nan_right _ _ x
@[simp] theorem mul_nan_left (y : RN) : nan * y = nan := by rn_unfold; exact lift2_nan_left _ _ y
@[simp] theorem mul_nan_right (x : RN) : x * nan = nan := by rn_unfold; exact lift2_nan_right _ _ x
@[simp] theorem div_nan_left (y : RN) : nan / y = nan := by rn_unfold; exact lift2_nan_left _ _ y
@[simp] theorem div_nan_right (x : RN) : x / nan = nan := by rn_unfold; exact lift2_nan_right _ _ x
@[simp] theorem neg_nan : -nan = nan := by rn_unfold; exact lift1_nan _ _
@[simp] theorem natCast_of (n : ℕ) : ((n : ℕ) : RN) = of (n : ℝ) := rfl
@[simp] theorem intCast_of (n : ℤ) : ((n : ℤ) : RN) = of (n : ℝ) := rfl
@[simp] theorem ofScientific_of (m : ℕ) (s : Bool) (e : ℕ) :
    (OfScientific.ofScientific m s e : RN) = of (OfScientific.ofScientific m s e : ℝ) := rfl
@[simp] theorem lt_of (a b : ℝ) : (of a < of b) ↔ a < b := Iff.rfl
@[simp] theorem le_of (a b : ℝ) : (of a ≤ of b) ↔ a ≤ b := Iff.rfl
@[simp] theorem not_nan_lt (y : RN) : ¬ (nan < y) := fun h => h
@[simp] theorem not_lt_nan (x : RN) : ¬ (x < nan) := by
  rcases x with ⟨_ | a⟩ <;> exact fun h => h
@[simp] theorem not_nan_le (y : RN) : ¬ (nan ≤ y) := fun h => h
@[simp] theorem not_le_nan (x : RN) : ¬ (x ≤ nan) := by
  rcases x with ⟨_ | a⟩ <;> exact fun h => h

theorem sqrt_of (a : ℝ) (h : 0 ≤ a) : Trans.sqrt (of a) = of (Real.sqrt a) := by rn_unfold; exact lift1_of _ _ a h
theorem sqrt_neg (a : ℝ) (h : a < 0) : Trans.sqrt (of a) = nan := by rn_unfold; exact lift1_of_not _ _ a (not_le.mpr h)
@[simp] theorem sin_of (a : ℝ) : Trans.sin (of a) = of (Real.sin a) := by rn_unfold; exact lift1_of _ _ a trivial
@[simp] theorem cos_of (a : ℝ) : Trans.cos (of a) = of (Real.cos a) := by rn_unfold; exact lift1_of _ _ a trivial
theorem tan_of (a : ℝ) (h : Real.cos a ≠ 0) : Trans.tan (of a) = of (Real.tan a) := by rn_unfold; exact lift1_of _ _ a h
@[simp] theorem atan_of (a : ℝ) : Trans.atan (of a) = of (Real.arctan a) := by rn_unfold; exact lift1_of _ _ a trivial
theorem asin_of (a : ℝ) (h : -1 ≤ a ∧ a ≤ 1) : Trans.asin (of a) = of (Real.arcsin a) := by rn_unfold; exact lift1_of _ _ a h
theorem acos_of (a : ℝ) (h : -1 ≤ a ∧ a ≤ 1) : Trans.acos (of a) = of (Real.arccos a) := by rn_unfold; exact lift1_of _ _ a h
@[simp] theorem exp_of (a : ℝ) : Trans.exp (of a) = of (Real.exp a) := by rn_unfold; exact lift1_of _ _ a trivial
theorem log_of (a : ℝ) (h : 0 < a) : Trans.log (of a) = of (Real.log a) := by rn_unfold; exact lift1_of _ _ a h
theorem log_nonpos (a : ℝ) (h : a ≤ 0) : Trans.log (of a) = nan := by rn_unfold; exact lift1_of_not _ _ a (not_lt.mpr h)
@[simp] theorem abs_of (a : ℝ) : Trans.abs (of a) = of |a| := by rn_unfold; exact lift1_of _ _ a trivial
theorem atan2_of (y x : ℝ) (h : ¬ (x = 0 ∧ y = 0)) :
    Trans.atan2 (of y) (of x) = of (Complex.arg ⟨x, y⟩) := by rn_unfold; exact lift2_of _ _ y x h
theorem atan2_zero_zero : Trans.atan2 (of 0) (of 0) = nan := by rn_unfold; exact lift2_of_not _ _ 0 0 (by simp)
theorem pow_of (a b : ℝ) (h : 0 < a) : Trans.pow (of a) (of b) = of (a ^ b) := by rn_unfold; exact lift2_of _ _ a b h
@[simp] theorem pi_of : (Trans.pi : RN) = of Real.pi := rfl
@[simp] theorem sqrt_nan : Trans.sqrt nan = nan := by rn_unfold; exact lift1_nan _ _
@[simp] theorem sin_nan : Trans.sin nan = nan := by rn_unfold; exact lift1_nan _ _
@[simp] theorem cos_nan : Trans.cos nan = nan := by rn_unfold; exact lift1_nan _ _
@[simp] theorem atan_nan : Trans.atan nan = nan := by rn_unfold; exact lift1_nan _ _
@[simp] theorem log_nan : Trans.log nan = nan := by rn_unfold; exact lift1_nan _ _
@[simp] theorem exp_nan : Trans.exp nan = nan := by rn_unfold; exact lift1_nan _ _

end
end RN
end Romea
