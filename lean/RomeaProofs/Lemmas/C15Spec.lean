import RomeaProofs.Lemmas.C15Grid

/-! Abstract side of C15: the per-axis window updates compose to `Spec.translate`; congruence of the
specification on in-range indexes. -/
namespace Romea.C15Spec
open Romea.WrapGrid Romea.C15Arith Romea.C15Grid

variable {T : Type}

theorem translate_cons (n : Nat) (ns : List Nat) (δ0 : Int) (δs : List Int) (e : T) (w : Window T) (i0 : Nat) (is : List Nat) :
    Spec.translate (n :: ns) (δ0 :: δs) e w (i0 :: is) =
      if 0 ≤ (i0 : Int) + δ0 ∧ (i0 : Int) + δ0 < (n : Int)
      then Spec.translate ns δs e (fun tl => w (((i0 : Int) + δ0).toNat :: tl)) is else e := by
  unfold Spec.translate
  simp only [shift, List.zipWith_cons_cons, inWindow, Bool.and_eq_true, decide_eq_true_eq, List.map_cons]
  by_cases h : 0 ≤ (i0 : Int) + δ0 ∧ (i0 : Int) + δ0 < (n : Int)
  · simp only [h, and_self, true_and, if_true]
    rfl
  · simp only [h, false_and, if_false]

theorem specAxis_succ (n : Nat) (ns : List Nat) (a : Nat) (x : Int) (e : T) (W : Window T) (i0 : Nat) (is : List Nat) :
    specAxis (n :: ns) (a + 1) x e W (i0 :: is) = specAxis ns a x e (fun tl => W (i0 :: tl)) is := by
  unfold specAxis
  simp only [List.getD_cons_succ, List.set_cons_succ]

/-- processing axis `a` after a translation that does not move axis `a` is the translation that also moves axis `a` -/
theorem compose_axis (dims : List Nat) (δ' : List Int) (a : Nat) (x : Int) (e : T) (w : Window T) (i : List Nat)
    (hi : InRange dims i) (hlen : δ'.length = dims.length) (ha : a < dims.length) (h0 : δ'.getD a 0 = 0) :
    specAxis dims a x e (Spec.translate dims δ' e w) i = Spec.translate dims (δ'.set a x) e w i := by
  induction a generalizing dims δ' i w with
  | zero =>
    cases dims with
    | nil => simp at ha
    | cons n ns =>
      cases i with
      | nil => simp [InRange] at hi
      | cons i0 is =>
        cases δ' with
        | nil => simp at hlen
        | cons δ0 δs =>
          simp only [List.getD_cons_zero] at h0
          subst h0
          simp only [InRange] at hi
          unfold specAxis
          simp only [List.getD_cons_zero, List.set_cons_zero]
          rw [translate_cons, translate_cons]
          by_cases h : 0 ≤ (i0 : Int) + x ∧ (i0 : Int) + x < (n : Int)
          · have h1 : ((((i0 : Int) + x).toNat : Nat) : Int) = (i0 : Int) + x := Int.toNat_of_nonneg h.1
            simp only [h, and_self, if_true, Int.add_zero, h1]
          · simp only [h, if_false]
  | succ a ih =>
    cases dims with
    | nil => simp at ha
    | cons n ns =>
      cases i with
      | nil => simp [InRange] at hi
      | cons i0 is =>
        cases δ' with
        | nil => simp at hlen
        | cons δ0 δs =>
          simp only [InRange] at hi
          rw [specAxis_succ, List.set_cons_succ, translate_cons]
          by_cases h : 0 ≤ (i0 : Int) + δ0 ∧ (i0 : Int) + δ0 < (n : Int)
          · have hf : (fun tl => Spec.translate (n :: ns) (δ0 :: δs) e w (i0 :: tl)) =
                Spec.translate ns δs e (fun tl => w (((i0 : Int) + δ0).toNat :: tl)) := by
              funext tl; rw [translate_cons, if_pos h]
            rw [hf, if_pos h]
            exact ih ns δs _ is hi.2 (by simpa using hlen) (by simpa using ha) (by simpa using h0)
          · have hf : (fun tl => Spec.translate (n :: ns) (δ0 :: δs) e w (i0 :: tl)) = fun _ => e := by
              funext tl; rw [translate_cons, if_neg h]
            rw [hf, if_neg h]
            unfold specAxis
            simp

/-- the part of the offset vector already processed after `m` axes -/
def partialδ (δ : List Int) (m : Nat) : List Int := δ.take m ++ List.replicate (δ.length - m) 0

theorem partialδ_length (δ : List Int) (m : Nat) (hm : m ≤ δ.length) : (partialδ δ m).length = δ.length := by
  simp [partialδ]; omega

theorem partialδ_getD (δ : List Int) (m : Nat) : (partialδ δ m).getD m 0 = 0 := by
  unfold partialδ
  rw [List.getD_eq_getElem?_getD, List.getElem?_append_right (by simp)]
  by_cases h : m - (List.take m δ).length < δ.length - m
  · rw [List.getElem?_replicate_of_lt h]; rfl
  · rw [List.getElem?_eq_none (by simpa using h)]; rfl

theorem partialδ_succ (δ : List Int) (m : Nat) (hm : m < δ.length) :
    (partialδ δ m).set m (δ.getD m 0) = partialδ δ (m + 1) := by
  unfold partialδ
  have h1 : (List.take m δ).length = m := by simp; omega
  rw [List.set_append_right _ _ (by omega), h1, Nat.sub_self]
  have h2 : δ.length - m = (δ.length - (m + 1)) + 1 := by omega
  rw [h2, List.replicate_succ, List.set_cons_zero, List.take_add_one, List.append_assoc]
  congr 1
  rw [List.getD_eq_getElem?_getD, List.getElem?_eq_getElem hm]
  simp

theorem partialδ_zero (δ : List Int) : partialδ δ 0 = List.replicate δ.length 0 := by
  simp [partialδ]

theorem partialδ_full (δ : List Int) : partialδ δ δ.length = δ := by
  simp [partialδ]

theorem translate_zeros (dims : List Nat) (e : T) (w : Window T) (i : List Nat) (hi : InRange dims i) :
    Spec.translate dims (List.replicate dims.length 0) e w i = w i := by
  induction dims generalizing i w with
  | nil => cases i <;> simp_all [InRange, Spec.translate, shift, inWindow]
  | cons n ns ih =>
    cases i with
    | nil => simp [InRange] at hi
    | cons i0 is =>
      simp only [InRange] at hi
      rw [List.length_cons, List.replicate_succ, translate_cons]
      have h : 0 ≤ (i0 : Int) + 0 ∧ (i0 : Int) + 0 < (n : Int) := ⟨by omega, by omega⟩
      rw [if_pos h, ih _ is hi.2]
      simp

/-- the per-axis update looks at its window only on in-range indexes -/
theorem specAxis_congr (dims : List Nat) (a : Nat) (x : Int) (e : T) (w w' : Window T)
    (h : ∀ i, InRange dims i → w i = w' i) (i : List Nat) (hi : InRange dims i) :
    specAxis dims a x e w i = specAxis dims a x e w' i := by
  unfold specAxis
  split
  · rename_i hc
    apply h
    apply inRange_set a _ hi
    have := hc.2
    omega
  · rfl

end Romea.C15Spec
