import RomeaProofs.Lemmas.C15Spec

/-! The unbounded-map reading of the window (C15): absolute map coordinates = logical index + accumulated
offset, and what it means for a map location to stay under the window. -/
namespace Romea.C15Map
open Romea.WrapGrid Romea.C15Arith Romea.C15Grid Romea.C15Spec

variable {T : Type}

/-- per-axis sum / difference of integer vectors -/
def vadd (a b : List Int) : List Int := List.zipWith (fun x y => x + y) a b
def vsub (a b : List Int) : List Int := List.zipWith (fun x y => x - y) a b

/-- absolute map coordinate of the window cell of logical index `i` when logical cell 0 sits at map coordinate `A`
    (`A` = accumulated offset) -/
def mapCoord (i : List Nat) (A : List Int) : List Int := shift i A

/-- accumulated offset after a history, starting from `A` -/
def accOff (A : List Int) : List (Op T) → List Int
  | [] => A
  | .set _ _ :: rest => accOff A rest
  | .tr δ _ :: rest => accOff (vadd A δ) rest

/-- The map location `c` is not disturbed by the history `ops` (window origin `A` at its start): no write goes to
    that location, and after every translation the location is still under the window. -/
def Undisturbed (dims : List Nat) (c : List Int) : List Int → List (Op T) → Prop
  | _, [] => True
  | A, .set j _ :: rest => mapCoord j A ≠ c ∧ Undisturbed dims c A rest
  | A, .tr δ _ :: rest => inWindow dims (vsub c (vadd A δ)) = true ∧ Undisturbed dims c (vadd A δ) rest

theorem accOff_append (A : List Int) (p q : List (Op T)) : accOff A (p ++ q) = accOff (accOff A p) q := by
  induction p generalizing A with
  | nil => rfl
  | cons op p ih => cases op <;> simp [accOff, ih]

@[simp] theorem vadd_length (a b : List Int) : (vadd a b).length = min a.length b.length := by simp [vadd]
@[simp] theorem vsub_length (a b : List Int) : (vsub a b).length = min a.length b.length := by simp [vsub]
@[simp] theorem shift_length (i : List Nat) (A : List Int) : (shift i A).length = min i.length A.length := by simp [shift]

theorem vadd_vsub_cancel (c B : List Int) (h : c.length = B.length) : vadd (vsub c B) B = c := by
  induction c generalizing B with
  | nil => simp [vadd, vsub]
  | cons x xs ih =>
    cases B with
    | nil => simp at h
    | cons b bs =>
      simp only [vadd, vsub, List.zipWith_cons_cons, List.cons.injEq]
      exact ⟨by omega, ih bs (by simpa using h)⟩

theorem vadd_vsub_vadd (c A δ : List Int) (h1 : c.length = A.length) (h2 : A.length = δ.length) :
    vadd (vsub c (vadd A δ)) δ = vsub c A := by
  induction c generalizing A δ with
  | nil => simp [vadd, vsub]
  | cons x xs ih =>
    cases A with
    | nil => simp at h1
    | cons a As =>
      cases δ with
      | nil => simp at h2
      | cons d ds =>
        simp only [vadd, vsub, List.zipWith_cons_cons, List.cons.injEq]
        exact ⟨by omega, ih As ds (by simpa using h1) (by simpa using h2)⟩

theorem vsub_shift_self (i : List Nat) (A : List Int) (h : i.length = A.length) :
    vsub (shift i A) A = i.map (fun (x : Nat) => (x : Int)) := by
  induction i generalizing A with
  | nil => simp [vsub, shift]
  | cons x xs ih =>
    cases A with
    | nil => simp at h
    | cons a As =>
      simp only [vsub, shift, List.zipWith_cons_cons, List.map_cons, List.cons.injEq]
      exact ⟨by omega, ih As (by simpa using h)⟩

theorem inWindow_natList {dims i : List Nat} (h : InRange dims i) :
    inWindow dims (i.map (fun (x : Nat) => (x : Int))) = true ∧
      (i.map (fun (x : Nat) => (x : Int))).map Int.toNat = i := by
  induction dims generalizing i with
  | nil => cases i <;> simp_all [InRange, inWindow]
  | cons n ns ih =>
    cases i with
    | nil => simp [InRange] at h
    | cons i0 is =>
      simp only [InRange] at h
      obtain ⟨h1, h2⟩ := ih h.2
      simp only [List.map_cons, inWindow, Bool.and_eq_true, decide_eq_true_eq, List.cons.injEq, Int.toNat_natCast, true_and]
      exact ⟨⟨⟨by omega, by omega⟩, h1⟩, h2⟩

/-- an integer multi-index inside the window is a logical index; adding an offset to it is `shift` -/
theorem of_inWindow {dims : List Nat} {x : List Int} (h : inWindow dims x = true) (B : List Int) :
    InRange dims (x.map Int.toNat) ∧ shift (x.map Int.toNat) B = vadd x B ∧ x.length = dims.length := by
  induction dims generalizing x B with
  | nil => cases x <;> simp_all [inWindow, InRange, shift, vadd]
  | cons n ns ih =>
    cases x with
    | nil => simp [inWindow] at h
    | cons x0 xs =>
      simp only [inWindow, Bool.and_eq_true, decide_eq_true_eq] at h
      cases B with
      | nil =>
        obtain ⟨h1, _, h3⟩ := ih h.2 []
        simp only [List.map_cons, InRange, shift, vadd, List.zipWith_nil_right, List.length_cons, h3, and_true]
        exact ⟨by omega, h1⟩
      | cons b bs =>
        obtain ⟨h1, h2, h3⟩ := ih h.2 bs
        simp only [List.map_cons, InRange, shift, vadd, List.zipWith_cons_cons, List.cons.injEq, List.length_cons, h3, and_true]
        refine ⟨⟨by omega, h1⟩, by omega, ?_⟩
        simpa [shift, vadd] using h2

theorem shift_inj {dims i j : List Nat} {A : List Int} (hi : InRange dims i) (hj : InRange dims j)
    (hA : A.length = dims.length) (h : shift i A = shift j A) : i = j := by
  induction dims generalizing i j A with
  | nil => cases i <;> cases j <;> simp_all [InRange]
  | cons n ns ih =>
    cases i with
    | nil => simp [InRange] at hi
    | cons a is =>
      cases j with
      | nil => simp [InRange] at hj
      | cons b js =>
        cases A with
        | nil => simp at hA
        | cons a0 As =>
          simp only [InRange] at hi hj
          simp only [shift, List.zipWith_cons_cons, List.cons.injEq] at h
          have : a = b := by omega
          rw [this, ih hi.2 hj.2 (by simpa using hA) (by simpa [shift] using h.2)]

/-- offset vectors of a history have one entry per axis (the part of the preconditions the map reading needs) -/
def LenOK (dims : List Nat) : Op T → Prop
  | .set j _ => InRange dims j
  | .tr δ _ => δ.length = dims.length

theorem accOff_length (dims : List Nat) (A : List Int) (ops : List (Op T)) (hA : A.length = dims.length)
    (hops : ∀ op ∈ ops, LenOK dims op) : (accOff A ops).length = dims.length := by
  induction ops generalizing A with
  | nil => exact hA
  | cons op rest ih =>
    have h1 : LenOK dims op := hops op (by simp)
    have h2 : ∀ o ∈ rest, LenOK dims o := fun o ho => hops o (by simp [ho])
    cases op with
    | set j v => exact ih A hA h2
    | tr δ e =>
      simp only [accOff]
      exact ih _ (by simp only [LenOK] at h1; simp [hA, h1]) h2

/-- **Staying under the window.** If the map location of cell `i` is not disturbed by the history `post`, then the
    cell that sits at that map location afterwards reads what `i` read before. -/
theorem stay (dims : List Nat) (post : List (Op T)) (A : List Int) (w : Window T) (i : List Nat)
    (hi : InRange dims i) (hA : A.length = dims.length) (hops : ∀ op ∈ post, LenOK dims op)
    (hu : Undisturbed dims (mapCoord i A) A post) :
    ∃ i', InRange dims i' ∧ mapCoord i' (accOff A post) = mapCoord i A ∧
      (post.foldl (Spec.step dims) w) i' = w i := by
  induction post generalizing A w i with
  | nil => exact ⟨i, hi, rfl, rfl⟩
  | cons op rest ih =>
    have h1 : LenOK dims op := hops op (by simp)
    have h2 : ∀ o ∈ rest, LenOK dims o := fun o ho => hops o (by simp [ho])
    cases op with
    | set j v =>
      simp only [Undisturbed] at hu
      obtain ⟨i', hi', hc, hr⟩ := ih A (Spec.set j v w) i hi hA h2 hu.2
      refine ⟨i', hi', hc, ?_⟩
      rw [List.foldl_cons]
      simp only [Spec.step]
      rw [hr]
      unfold Spec.set
      rw [if_neg (fun hij => hu.1 (by rw [hij]))]
    | tr δ e =>
      simp only [Undisturbed] at hu
      simp only [LenOK] at h1
      have hil : i.length = A.length := by rw [inRange_length hi, hA]
      have hcl : (mapCoord i A).length = (vadd A δ).length := by simp [mapCoord, hil, hA, h1]
      obtain ⟨hr1, hs1, _⟩ := of_inWindow hu.1 (vadd A δ)
      obtain ⟨_, hs2, _⟩ := of_inWindow hu.1 δ
      rw [vadd_vsub_cancel _ _ hcl] at hs1
      have hs2' : vadd (vsub (mapCoord i A) (vadd A δ)) δ = i.map (fun (x : Nat) => (x : Int)) := by
        unfold mapCoord
        rw [vadd_vsub_vadd _ _ _ (by simp [hil]) (by rw [hA, h1]), vsub_shift_self _ _ hil]
      rw [hs2'] at hs2
      obtain ⟨hw1, hw2⟩ := inWindow_natList hi
      have hu2 : Undisturbed dims (mapCoord ((vsub (mapCoord i A) (vadd A δ)).map Int.toNat) (vadd A δ)) (vadd A δ) rest := by
        rw [show mapCoord ((vsub (mapCoord i A) (vadd A δ)).map Int.toNat) (vadd A δ) = mapCoord i A from hs1]
        exact hu.2
      obtain ⟨i', hi', hc, hr⟩ := ih (vadd A δ) (Spec.translate dims δ e w) _ hr1 (by simp [hA, h1]) h2 hu2
      refine ⟨i', hi', ?_, ?_⟩
      · simp only [accOff]
        rw [hc]; exact hs1
      · rw [List.foldl_cons]
        simp only [Spec.step]
        rw [hr]
        unfold Spec.translate
        rw [hs2, if_pos hw1, hw2]

end Romea.C15Map
