import RomeaProofs.Lemmas.C10Quat
import Mathlib.LinearAlgebra.Matrix.NonsingularInverse
import Mathlib.Analysis.SpecialFunctions.Trigonometric.Inverse

/-!
# C10 helper lemmas: extraction of the Euler angles from a rotation matrix
-/
namespace Romea.C10
open Romea.Rotation

/-- a proper rotation has unit rows as well, and every coefficient equals its cofactor -/
theorem proper_cofactors (m : Mat3 ℝ) (h : IsProperRotation m) :
    m.m20 * m.m20 + m.m21 * m.m21 + m.m22 * m.m22 = 1 ∧
    m.m00 * m.m00 + m.m10 * m.m10 + m.m20 * m.m20 = 1 ∧
    m.m01 = m.m12 * m.m20 - m.m10 * m.m22 ∧ m.m02 = m.m10 * m.m21 - m.m11 * m.m20 ∧
    m.m11 = m.m00 * m.m22 - m.m02 * m.m20 ∧ m.m12 = m.m01 * m.m20 - m.m00 * m.m21 := by
  obtain ⟨hA, hd⟩ := h
  have hR : toMatrix m * (toMatrix m).transpose = 1 := mul_eq_one_comm.mp hA
  have hadj : (toMatrix m).adjugate = (toMatrix m).transpose := by
    have h1 := Matrix.mul_adjugate (toMatrix m)
    rw [hd, one_smul] at h1
    calc (toMatrix m).adjugate = ((toMatrix m).transpose * toMatrix m) * (toMatrix m).adjugate := by rw [hA, Matrix.one_mul]
      _ = (toMatrix m).transpose * (toMatrix m * (toMatrix m).adjugate) := by rw [Matrix.mul_assoc]
      _ = (toMatrix m).transpose := by rw [h1, Matrix.mul_one]
  have e := fun i j => congrFun (congrFun hadj i) j
  have r := fun i j => congrFun (congrFun hR i) j
  have r22 := r 2 2
  have c00 := congrFun (congrFun hA 0) 0
  have e10 := e 1 0; have e20 := e 2 0; have e11 := e 1 1; have e21 := e 2 1
  simp [toMatrix, Matrix.mul_apply, Fin.sum_univ_three] at r22 c00
  simp [toMatrix] at e10 e20 e11 e21
  refine ⟨by linarith, by linarith, by linarith, by linarith, by linarith, by linarith⟩

/-- pure algebra: the first column, the last row, `cos p > 0` and the cofactor identities determine the
    remaining four coefficients of `Rz Ry Rx` -/
theorem zyx_algebra (m00 m01 m02 m10 m11 m12 m20 m21 m22 cr sr cp sp cy sy : ℝ) (hcp : 0 < cp)
    (h20 : m20 = -sp) (h21 : m21 = cp * sr) (h22 : m22 = cp * cr) (h00 : m00 = cy * cp) (h10 : m10 = sy * cp)
    (hp : cp * cp + sp * sp = 1)
    (c01 : m01 = m12 * m20 - m10 * m22) (c02 : m02 = m10 * m21 - m11 * m20)
    (c11 : m11 = m00 * m22 - m02 * m20) (c12 : m12 = m01 * m20 - m00 * m21) :
    m01 = cy * sp * sr - sy * cr ∧ m02 = cy * sp * cr + sy * sr ∧
    m11 = sy * sp * sr + cy * cr ∧ m12 = sy * sp * cr - cy * sr := by
  subst h20 h21 h22 h00 h10
  have hne : cp * cp ≠ 0 := mul_ne_zero hcp.ne' hcp.ne'
  refine ⟨mul_left_cancel₀ hne ?_, mul_left_cancel₀ hne ?_, mul_left_cancel₀ hne ?_, mul_left_cancel₀ hne ?_⟩
  · linear_combination c01 - sp * c12 + m01 * hp
  · linear_combination c02 + sp * c11 + m02 * hp
  · linear_combination c11 + sp * c02 + m11 * hp
  · linear_combination c12 - sp * c01 + m12 * hp

/-- the raw (un-normalised) angles read off a rotation matrix -/
noncomputable def rawRoll (m : Mat3 ℝ) : ℝ := Complex.arg ⟨m.m22, m.m21⟩
noncomputable def rawPitch (m : Mat3 ℝ) : ℝ := -Real.arcsin m.m20
noncomputable def rawYaw (m : Mat3 ℝ) : ℝ := Complex.arg ⟨m.m00, m.m10⟩

theorem rotation3DToEulerAngles_real (m : Mat3 ℝ) :
    rotation3DToEulerAngles m =
      ⟨between0And2Pi (rawRoll m), between0And2Pi (rawPitch m), between0And2Pi (rawYaw m)⟩ := rfl

theorem rawPitch_range (m : Mat3 ℝ) : -(4 * Real.pi) < rawPitch m ∧ rawPitch m < 4 * Real.pi := by
  have h1 := Real.arcsin_le_pi_div_two m.m20
  have h2 := Real.neg_pi_div_two_le_arcsin m.m20
  have := Real.pi_pos
  unfold rawPitch
  constructor <;> linarith

/-- the extracted angles are the raw ones modulo 2π and lie in `[0, 2π)` -/
theorem fromR_congr (m : Mat3 ℝ) :
    let e := rotation3DToEulerAngles m
    (CongrMod2Pi e.x (rawRoll m) ∧ CongrMod2Pi e.y (rawPitch m) ∧ CongrMod2Pi e.z (rawYaw m)) ∧
    (0 ≤ e.x ∧ e.x < 2 * Real.pi) ∧ (0 ≤ e.y ∧ e.y < 2 * Real.pi) ∧ (0 ≤ e.z ∧ e.z < 2 * Real.pi) := by
  intro e
  obtain ⟨a1, a2, a3⟩ := between0And2Pi_spec _ (arg_range ⟨m.m22, m.m21⟩)
  obtain ⟨b1, b2, b3⟩ := between0And2Pi_spec _ (rawPitch_range m)
  obtain ⟨c1, c2, c3⟩ := between0And2Pi_spec _ (arg_range ⟨m.m00, m.m10⟩)
  exact ⟨⟨a1, b1, c1⟩, ⟨a2, a3⟩, ⟨b2, b3⟩, ⟨c2, c3⟩⟩

theorem rotZYX_congr {r p y r' p' y' : ℝ} (hr : CongrMod2Pi r r') (hp : CongrMod2Pi p p') (hy : CongrMod2Pi y y') :
    rotZYX r p y = rotZYX r' p' y' := by
  rw [rotZYX_entries, rotZYX_entries, hr.sin_eq, hr.cos_eq, hp.sin_eq, hp.cos_eq, hy.sin_eq, hy.cos_eq]

/-- `Rz Ry Rx` of the raw angles of a proper rotation with `|R20| < 1` is that rotation -/
theorem rotZYX_raw (m : Mat3 ℝ) (h : IsProperRotation m) (hlt : |m.m20| < 1) :
    rotZYX (rawRoll m) (rawPitch m) (rawYaw m) = m := by
  obtain ⟨hrow, hcol, c01, c02, c11, c12⟩ := proper_cofactors m h
  rw [abs_lt] at hlt
  have hsp : Real.sin (rawPitch m) = -m.m20 := by
    unfold rawPitch; rw [Real.sin_neg, Real.sin_arcsin hlt.1.le hlt.2.le]
  have hcp : Real.cos (rawPitch m) = Real.sqrt (1 - m.m20 ^ 2) := by
    unfold rawPitch; rw [Real.cos_neg, Real.cos_arcsin]
  have hpos : 0 < Real.cos (rawPitch m) := by
    rw [hcp]; apply Real.sqrt_pos.mpr; nlinarith
  have hr := polar_form m.m22 m.m21
  have hy := polar_form m.m00 m.m10
  have e1 : m.m22 * m.m22 + m.m21 * m.m21 = 1 - m.m20 ^ 2 := by nlinarith
  have e2 : m.m00 * m.m00 + m.m10 * m.m10 = 1 - m.m20 ^ 2 := by nlinarith
  rw [e1, ← hcp] at hr
  rw [e2, ← hcp] at hy
  have hunit := Real.sin_sq_add_cos_sq (rawPitch m)
  obtain ⟨g01, g02, g11, g12⟩ := zyx_algebra m.m00 m.m01 m.m02 m.m10 m.m11 m.m12 m.m20 m.m21 m.m22
    (Real.cos (rawRoll m)) (Real.sin (rawRoll m)) (Real.cos (rawPitch m)) (Real.sin (rawPitch m))
    (Real.cos (rawYaw m)) (Real.sin (rawYaw m)) hpos (by linarith) (by unfold rawRoll; linarith [hr.2])
    (by unfold rawRoll; linarith [hr.1]) (by unfold rawYaw; linarith [hy.1]) (by unfold rawYaw; linarith [hy.2])
    (by nlinarith) c01 c02 c11 c12
  rw [rotZYX_entries]
  apply Mat3.ext' <;> simp only
  · unfold rawYaw; linarith [hy.1]
  · exact g01.symm
  · exact g02.symm
  · unfold rawYaw; linarith [hy.2]
  · exact g11.symm
  · exact g12.symm
  · linarith
  · unfold rawRoll; linarith [hr.2]
  · unfold rawRoll; linarith [hr.1]

end Romea.C10
