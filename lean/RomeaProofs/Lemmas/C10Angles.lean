import RomeaModel.Rotation
import RomeaProofs.RealInst
import Mathlib.Tactic.Linarith
import Mathlib.Tactic.Ring
import Mathlib.Tactic.NormNum
import Mathlib.Tactic.Positivity
import Mathlib.Analysis.SpecialFunctions.Trigonometric.Basic
import Mathlib.Analysis.SpecialFunctions.Complex.Arg

/-!
# C10 helper lemmas: `fmod`, the normalisers and `atan2` over `ℝ`
-/
namespace Romea.C10
open Romea.Rotation

/-- over the reals the `Scalar ↔ double` conversions are the identity -/
instance : DoubleConv ℝ ℝ := ⟨id, id⟩

@[simp] theorem up_real (x : ℝ) : (DoubleConv.up x : ℝ) = x := rfl
@[simp] theorem down_real (x : ℝ) : (DoubleConv.down x : ℝ) = x := rfl
@[simp] theorem m2pi_real : (m2pi : ℝ) = 2 * Real.pi := by simp [m2pi]
@[simp] theorem m4pi_real : (m4pi : ℝ) = 4 * Real.pi := by simp [m4pi]

/-- `a` and `b` differ by an integer number of turns -/
def CongrMod2Pi (a b : ℝ) : Prop := ∃ k : ℤ, a = b + k * (2 * Real.pi)

theorem CongrMod2Pi.refl (a : ℝ) : CongrMod2Pi a a := ⟨0, by simp⟩
theorem CongrMod2Pi.symm {a b : ℝ} (h : CongrMod2Pi a b) : CongrMod2Pi b a := by
  obtain ⟨k, hk⟩ := h
  exact ⟨-k, by rw [hk]; push_cast; ring⟩
theorem CongrMod2Pi.trans {a b c : ℝ} (h1 : CongrMod2Pi a b) (h2 : CongrMod2Pi b c) : CongrMod2Pi a c := by
  obtain ⟨k, hk⟩ := h1
  obtain ⟨l, hl⟩ := h2
  exact ⟨k + l, by rw [hk, hl]; push_cast; ring⟩
theorem CongrMod2Pi.sin_eq {a b : ℝ} (h : CongrMod2Pi a b) : Real.sin a = Real.sin b := by
  obtain ⟨k, hk⟩ := h
  rw [hk]; exact Real.sin_add_int_mul_two_pi b k
theorem CongrMod2Pi.cos_eq {a b : ℝ} (h : CongrMod2Pi a b) : Real.cos a = Real.cos b := by
  obtain ⟨k, hk⟩ := h
  rw [hk]; exact Real.cos_add_int_mul_two_pi b k

theorem fmodAbs_spec (x y : ℝ) (hx : 0 ≤ x) (_hy : 0 < y) (h : x < 3 * y) :
    (∃ k : ℤ, fmodAbs 2 x y = x - k * y) ∧ 0 ≤ fmodAbs 2 x y ∧ fmodAbs 2 x y < y := by
  by_cases h1 : x < y
  · have : fmodAbs 2 x y = x := by simp [fmodAbs, h1]
    rw [this]; exact ⟨⟨0, by simp⟩, hx, h1⟩
  · by_cases h2 : x - y < y
    · have : fmodAbs 2 x y = x - y := by simp [fmodAbs, h1, h2]
      rw [this]; exact ⟨⟨1, by simp⟩, by linarith, h2⟩
    · have : fmodAbs 2 x y = x - y - y := by simp [fmodAbs, h1, h2]
      rw [this]; exact ⟨⟨2, by push_cast; ring⟩, by linarith, by linarith⟩

/-- the model's `fmod` is a remainder carrying the sign of the dividend (for `|x| < 3y`) -/
theorem fmod_spec (x y : ℝ) (hy : 0 < y) (h : |x| < 3 * y) :
    (∃ k : ℤ, fmod x y = x - k * y) ∧ |fmod x y| < y ∧ (0 ≤ x → 0 ≤ fmod x y) ∧ (x < 0 → fmod x y ≤ 0) := by
  rw [abs_lt] at h
  by_cases hx : x < 0
  · have hf : fmod x y = -(fmodAbs 2 (-x) y) := by simp [fmod, hx]
    obtain ⟨⟨k, hk⟩, h0, h1⟩ := fmodAbs_spec (-x) y (by linarith) hy (by linarith)
    rw [hf]
    refine ⟨⟨-k, by rw [hk]; push_cast; ring⟩, by rw [abs_lt]; constructor <;> linarith, fun h => absurd hx (not_lt.mpr h),
      fun _ => by linarith⟩
  · have hf : fmod x y = fmodAbs 2 x y := by simp [fmod, hx]
    have hx' : 0 ≤ x := not_lt.mp hx
    obtain ⟨⟨k, hk⟩, h0, h1⟩ := fmodAbs_spec x y hx' hy (by linarith)
    rw [hf]
    exact ⟨⟨k, hk⟩, by rw [abs_lt]; constructor <;> linarith, fun _ => h0, fun h => absurd h hx⟩

theorem between0And2Pi_spec (x : ℝ) (h : -(4 * Real.pi) < x ∧ x < 4 * Real.pi) :
    CongrMod2Pi (between0And2Pi x) x ∧ 0 ≤ between0And2Pi x ∧ between0And2Pi x < 2 * Real.pi := by
  have hpi := Real.pi_pos
  obtain ⟨⟨k, hk⟩, habs, _, _⟩ := fmod_spec x (2 * Real.pi) (by positivity) (by rw [abs_lt]; constructor <;> linarith)
  rw [abs_lt] at habs
  by_cases hneg : fmod x (2 * Real.pi) < 0
  · have : between0And2Pi x = fmod x (2 * Real.pi) + 2 * Real.pi := by simp [between0And2Pi, hneg]
    rw [this]
    exact ⟨⟨-k + 1, by rw [hk]; push_cast; ring⟩, by linarith, by linarith⟩
  · have : between0And2Pi x = fmod x (2 * Real.pi) := by simp [between0And2Pi, hneg]
    rw [this]
    exact ⟨⟨-k, by rw [hk]; push_cast; ring⟩, not_lt.mp hneg, habs.2⟩

theorem betweenMinusPiAndPi_spec (x : ℝ) (h : -(4 * Real.pi) < x ∧ x < 4 * Real.pi) :
    CongrMod2Pi (betweenMinusPiAndPi x) x ∧ -Real.pi ≤ betweenMinusPiAndPi x ∧ betweenMinusPiAndPi x ≤ Real.pi := by
  have hpi := Real.pi_pos
  obtain ⟨⟨k, hk⟩, habs, _, _⟩ := fmod_spec x (2 * Real.pi) (by positivity) (by rw [abs_lt]; constructor <;> linarith)
  rw [abs_lt] at habs
  by_cases h1 : fmod x (2 * Real.pi) < -Real.pi
  · have : betweenMinusPiAndPi x = fmod x (2 * Real.pi) + 2 * Real.pi := by simp [betweenMinusPiAndPi, h1]
    rw [this]
    exact ⟨⟨-k + 1, by rw [hk]; push_cast; ring⟩, by linarith, by linarith⟩
  · by_cases h2 : Real.pi < fmod x (2 * Real.pi)
    · have : betweenMinusPiAndPi x = fmod x (2 * Real.pi) - 2 * Real.pi := by simp [betweenMinusPiAndPi, h1, h2]
      rw [this]
      exact ⟨⟨-k - 1, by rw [hk]; push_cast; ring⟩, by linarith, by linarith⟩
    · have : betweenMinusPiAndPi x = fmod x (2 * Real.pi) := by simp [betweenMinusPiAndPi, h1, h2]
      rw [this]
      exact ⟨⟨-k, by rw [hk]; push_cast; ring⟩, not_lt.mp h1, not_lt.mp h2⟩

/-! ## `atan2` = `Complex.arg` -/

theorem arg_range (z : ℂ) : -(4 * Real.pi) < Complex.arg z ∧ Complex.arg z < 4 * Real.pi := by
  have := Complex.neg_pi_lt_arg z
  have := Complex.arg_le_pi z
  have := Real.pi_pos
  constructor <;> linarith

/-- `atan2 (r sin θ) (r cos θ) ≡ θ (mod 2π)` for `r > 0` -/
theorem arg_polar (r θ : ℝ) (hr : 0 < r) :
    CongrMod2Pi (Complex.arg ⟨r * Real.cos θ, r * Real.sin θ⟩) θ := by
  have h : (⟨r * Real.cos θ, r * Real.sin θ⟩ : ℂ) = (r : ℂ) * (Complex.cos θ + Complex.sin θ * Complex.I) := by
    apply Complex.ext
    · simp [← Complex.ofReal_cos, ← Complex.ofReal_sin]
    · simp [← Complex.ofReal_cos, ← Complex.ofReal_sin]
  rw [h]
  refine ⟨⌊(Real.pi - θ) / (2 * Real.pi)⌋, ?_⟩
  have := Complex.arg_mul_cos_add_sin_mul_I_sub hr θ
  linarith

/-- `‖x + iy‖ = sqrt (x² + y²)` -/
theorem norm_mk (x y : ℝ) : ‖(⟨x, y⟩ : ℂ)‖ = Real.sqrt (x * x + y * y) := by
  rw [Complex.norm_def, Complex.normSq_mk]

/-- every point is `ρ (cos φ, sin φ)` with `φ = atan2 y x`, `ρ = sqrt (x² + y²)` -/
theorem polar_form (x y : ℝ) :
    Real.sqrt (x * x + y * y) * Real.cos (Complex.arg ⟨x, y⟩) = x ∧
    Real.sqrt (x * x + y * y) * Real.sin (Complex.arg ⟨x, y⟩) = y := by
  rw [← norm_mk]
  exact ⟨Complex.norm_mul_cos_arg ⟨x, y⟩, Complex.norm_mul_sin_arg ⟨x, y⟩⟩

/-- normalising `atan2` of a point on the ray of angle `θ` gives `θ` modulo 2π, inside `[0, 2π)` -/
theorem b02pi_arg_polar (r θ : ℝ) (hr : 0 < r) :
    CongrMod2Pi (between0And2Pi (Complex.arg ⟨r * Real.cos θ, r * Real.sin θ⟩)) θ ∧
    0 ≤ between0And2Pi (Complex.arg ⟨r * Real.cos θ, r * Real.sin θ⟩) ∧
    between0And2Pi (Complex.arg ⟨r * Real.cos θ, r * Real.sin θ⟩) < 2 * Real.pi := by
  obtain ⟨h1, h2, h3⟩ := between0And2Pi_spec _ (arg_range ⟨r * Real.cos θ, r * Real.sin θ⟩)
  exact ⟨h1.trans (arg_polar r θ hr), h2, h3⟩

end Romea.C10
