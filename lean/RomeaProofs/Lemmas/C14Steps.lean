import RomeaProofs.Lemmas.C14Ray

/-!
# C14 helper lemmas, part 3: over ℝ every cell entered contains a point of the segment

The counting argument (`C14Count.lean`) already gives length, adjacency, the index box and the end cell for
every scalar type; its hypotheses (`Fresh`) are discharged here for the reals.  What needs real arithmetic
is `cells_are_crossed`: the traversal is a merge of the per-axis crossing sequences `τ_i(m) = T_i + m δ_i`
in ascending order, restricted to the crossings the ray really makes; the axis selected has the smallest
pending parameter among the axes that still have crossings to make, that parameter is ≤ the ray length, and
the cell entered contains the ray point at that parameter.
-/
set_option linter.unusedSectionVars false

namespace Romea.RayCast
open Romea

variable {d : Nat}

/-- the closed cell `c` contains a point of the segment from `o` to `e` -/
def Crossed (G : Grid d ℝ) (o e : Vec d ℝ) (c : Vec d Int) : Prop :=
  ∃ u : ℝ, 0 ≤ u ∧ u ≤ 1 ∧ ∀ i, InClosed G i (c.at i) (o.at i + u * (e.at i - o.at i))

variable [Big] {G : Grid d ℝ} {o e : Vec d ℝ} {R : ℝ} {s₀ : State d ℝ}

theorem strictOrd_real : StrictOrd ℝ := ⟨fun a => lt_irrefl a, fun _ _ _ => lt_trans⟩

theorem pickOK_of_argmin {sp : Spec d ℝ} (hsp : SpecOK sp) : PickOK sp := by
  intro t M _ ⟨i, hi⟩
  exact lt_of_le_of_lt (hsp.argmin t i) hi

theorem tmaxAfter_real (s₀ : State d ℝ) (i : Fin d) (k : ℕ) :
    tmaxAfter s₀ i k = s₀.tMax.at i + k * s₀.tDelta.at i := by
  unfold tmaxAfter
  induction k with
  | zero => simp
  | succ k ih => rw [Function.iterate_succ_apply', ih]; push_cast; ring

/-- real-arithmetic part of the invariant: every crossing already taken lies at or before every crossing still
    pending on an axis with crossings left, and at or before the end of the ray -/
structure RInv (G : Grid d ℝ) (R : ℝ) (s₀ : State d ℝ) (m : Fin d → ℕ) : Prop where
  taken_le : ∀ b i, 0 < m b → m i < needed s₀ i →
    firstT G s₀ b + ((m b : ℝ) - 1) * s₀.tDelta.at b ≤ firstT G s₀ i + m i * s₀.tDelta.at i
  taken_le_R : ∀ b, 0 < m b → firstT G s₀ b + ((m b : ℝ) - 1) * s₀.tDelta.at b ≤ R

namespace RayFacts
variable (F : RayFacts G o e R s₀)
include F

theorem Mpos : 0 < Big.M := lt_trans F.Rpos F.RltM

theorem moving_of_needed (i : Fin d) (h : 0 < needed s₀ i) : s₀.step.at i ≠ 0 := by
  intro hst
  unfold needed at h
  rw [(F.still i hst).2] at h
  simp at h

theorem tmax_of_needed (i : Fin d) (h : 0 < needed s₀ i) : s₀.tMax.at i = firstT G s₀ i := by
  rw [F.tmax0 i, if_neg (by omega)]

/-- the hypotheses of the counting argument hold over the reals -/
theorem fresh : Fresh s₀ where
  idx := F.idx
  rem0 := F.rem0
  tmax0 := by intro i h; rw [F.tmax0 i, if_pos h]; rfl
  sign := by
    intro i
    rcases F.σ_cases i with h | h | h
    · have := (F.still i h).2
      constructor <;> intro hlt <;> omega
    · have := (F.moving i (by rw [h]; norm_num)).order
      rw [h] at this
      exact ⟨fun _ => h, fun hlt => by have := this.1 rfl; omega⟩
    · have := (F.moving i (by rw [h]; norm_num)).order
      rw [h] at this
      exact ⟨fun hlt => by have := this.2 rfl; omega, fun _ => h⟩
  below := by
    intro i k hk
    rw [tmaxAfter_real, F.tmax_of_needed i (by omega)]
    have := (F.moving i (F.moving_of_needed i (by omega))).needed k hk
    exact lt_of_le_of_lt this F.RltM

theorem rinv_init : RInv G R s₀ (fun _ => 0) :=
  ⟨fun _ _ h _ => absurd h (lt_irrefl 0), fun _ h => absurd h (lt_irrefl 0)⟩

/-- the origin cell is crossed (at parameter 0) -/
theorem crossed_init : Crossed G o e s₀.oIdx :=
  ⟨0, le_refl 0, zero_le_one, fun i => by simpa using F.inK i⟩

/-- the ray point at parameter `t` is in the closed cell described by the counts `m`, provided `t` lies between
    the last crossing taken and the next geometric crossing on every moving axis -/
theorem point_in_cell (m : Fin d → ℕ) (t : ℝ) (ht0 : 0 ≤ t) (htR : t ≤ R)
    (hstill : ∀ i, s₀.step.at i = 0 → m i = 0)
    (hlow : ∀ i, s₀.step.at i ≠ 0 → 0 < m i → firstT G s₀ i + ((m i : ℝ) - 1) * s₀.tDelta.at i ≤ t)
    (hup : ∀ i, s₀.step.at i ≠ 0 → t ≤ firstT G s₀ i + m i * s₀.tDelta.at i) :
    Crossed G o e (build fun i => s₀.oIdx.at i + s₀.step.at i * m i) := by
  have hR := F.Rpos
  refine ⟨t / R, div_nonneg ht0 hR.le, (div_le_one hR).mpr htR, ?_⟩
  intro i
  simp only [at_build]
  by_cases h : s₀.step.at i = 0
  · rw [hstill i h, h, (F.still i h).1]
    simpa using F.inK i
  · have A := F.moving i h
    have hl : firstT G s₀ i + ((m i : ℝ) - 1) * s₀.tDelta.at i ≤ t := by
      rcases Nat.eq_zero_or_pos (m i) with h0 | hpos
      · rw [h0]
        have := A.start.2
        simp only [Nat.cast_zero, zero_sub, neg_mul, one_mul]
        linarith
      · exact hlow i h hpos
    have := A.geom (m i) t hl (hup i h)
    unfold InClosed face
    exact this

end RayFacts

/-- one `next` call while crossings remain, over ℝ: the cell entered contains a point of the segment -/
theorem next_real {sp : Spec d ℝ} (hsp : SpecOK sp) (F : RayFacts G o e R s₀)
    {s : State d ℝ} {c : Vec d Int} {m : Fin d → ℕ} (hI : CInv s₀ s c m) (hR : RInv G R s₀ m)
    (hlt : ∑ i, m i < ∑ i, needed s₀ i) :
    Crossed G o e (next sp s c).2 ∧ RInv G R s₀ (fun i => m i + (if i = sp.pick s.tMax then 1 else 0)) := by
  obtain ⟨hma, hI', -⟩ := next_count strictOrd_real (pickOK_of_argmin hsp) F.fresh hI hlt
  set a := sp.pick s.tMax with ha
  set m' : Fin d → ℕ := fun i => m i + (if i = a then 1 else 0) with hm'
  have hm'a : m' a = m a + 1 := by simp [hm']
  have hm'ne : ∀ i, i ≠ a → m' i = m i := by intro i hi; simp [hm', hi]
  have hδ : ∀ i, s₀.step.at i ≠ 0 → 0 < s₀.tDelta.at i := fun i h => (F.moving i h).δpos
  have hσa : s₀.step.at a ≠ 0 := F.moving_of_needed a (by omega)
  -- the crossing taken
  set τ : ℝ := firstT G s₀ a + m a * s₀.tDelta.at a with hτ
  have htmax_a : s.tMax.at a = τ := by
    rw [hI.htmax a, if_pos hma, tmaxAfter_real, F.tmax_of_needed a (by omega)]
  have hmin : ∀ i, m i < needed s₀ i → τ ≤ firstT G s₀ i + m i * s₀.tDelta.at i := by
    intro i hi
    have := hsp.argmin s.tMax i
    rw [← ha, htmax_a, hI.htmax i, if_pos hi, tmaxAfter_real, F.tmax_of_needed i (by omega)] at this
    exact this
  have hτR : τ ≤ R := (F.moving a hσa).needed (m a) hma
  have hτ0 : 0 ≤ τ := by
    have := (F.moving a hσa).start.1
    have : (0 : ℝ) ≤ m a := Nat.cast_nonneg _
    have := hδ a hσa
    rw [hτ]; nlinarith
  have hcross : Crossed G o e (build fun i => s₀.oIdx.at i + s₀.step.at i * m' i) := by
    apply F.point_in_cell m' τ hτ0 hτR
    · intro i hi
      have hia : i ≠ a := fun h => hσa (h ▸ hi)
      rw [hm'ne i hia]
      have := hI.hm i
      have hN : needed s₀ i = 0 := by unfold needed; rw [(F.still i hi).2]; simp
      omega
    · intro i _ hpos
      by_cases hia : i = a
      · subst hia; rw [hm'a]; push_cast; rw [hτ]; ring_nf; exact le_refl _
      · rw [hm'ne i hia] at hpos ⊢
        exact hR.taken_le i a hpos hma
    · intro i hi
      by_cases hia : i = a
      · subst hia; rw [hm'a, hτ]; push_cast; nlinarith [hδ a hi]
      · rw [hm'ne i hia]
        by_cases hex : m i < needed s₀ i
        · exact hmin i hex
        · have hge : needed s₀ i ≤ m i := by omega
          exact le_trans hτR ((F.moving i hi).unneeded (m i) hge)
  have hcell' : (next sp s c).2 = build fun i => s₀.oIdx.at i + s₀.step.at i * m' i := by
    apply vec_ext
    intro i
    simp only [at_build]
    exact hI'.hcell i
  refine ⟨by rw [hcell']; exact hcross, ?_, ?_⟩
  · intro b i hpos hi
    show firstT G s₀ b + ((m' b : ℝ) - 1) * s₀.tDelta.at b ≤ firstT G s₀ i + m' i * s₀.tDelta.at i
    have hiN : 0 < needed s₀ i := by omega
    have hmi : m i < needed s₀ i := by
      by_cases hia : i = a
      · rw [hia]; exact hma
      · rw [hm'ne i hia] at hi; exact hi
    have hmono : firstT G s₀ i + m i * s₀.tDelta.at i ≤ firstT G s₀ i + m' i * s₀.tDelta.at i := by
      by_cases hia : i = a
      · subst hia; rw [hm'a]; push_cast; nlinarith [hδ a hσa]
      · rw [hm'ne i hia]
    by_cases hba : b = a
    · subst hba
      rw [hm'a]; push_cast
      have := hmin i hmi
      rw [hτ] at this
      linarith
    · rw [hm'ne b hba] at hpos ⊢
      exact le_trans (hR.taken_le b i hpos hmi) hmono
  · intro b hpos
    show firstT G s₀ b + ((m' b : ℝ) - 1) * s₀.tDelta.at b ≤ R
    by_cases hba : b = a
    · subst hba
      rw [hm'a]; push_cast
      rw [hτ] at hτR
      linarith
    · rw [hm'ne b hba] at hpos ⊢
      exact hR.taken_le_R b hpos

/-- `k` `next` calls while at least `k` crossings remain, over ℝ: every cell entered is crossed -/
theorem steps_real {sp : Spec d ℝ} (hsp : SpecOK sp) (F : RayFacts G o e R s₀) (k : ℕ) :
    ∀ (s : State d ℝ) (c : Vec d Int) (m : Fin d → ℕ), CInv s₀ s c m → RInv G R s₀ m →
      ∑ i, m i + k ≤ ∑ i, needed s₀ i →
      ∀ c' ∈ (steps sp k s c).2, Crossed G o e c' := by
  induction k with
  | zero => intro s c m _ _ _ c' hc'; simp [steps] at hc'
  | succ k ih =>
    intro s c m hI hR hle c' hc'
    obtain ⟨-, hI₁, -⟩ := next_count strictOrd_real (pickOK_of_argmin hsp) F.fresh hI (by omega)
    obtain ⟨hcr, hR₁⟩ := next_real hsp F hI hR (by omega)
    have hsum₁ := sum_bump m (sp.pick s.tMax)
    simp only [steps, List.mem_cons] at hc'
    rcases hc' with rfl | h
    · exact hcr
    · exact ih (next sp s c).1 (next sp s c).2 _ hI₁ hR₁ (by omega) c' h

end Romea.RayCast
