import RomeaProofs.Lemmas.C14Ray

/-!
# C14 helper lemmas, part 3: the traversal (`next` repeated) as a merge of the per-axis crossing sequences

The state after some steps is described by how many crossings `m i` have been taken on each axis:
`tMax i = T i + m i * δ i`, `cell i = K i + σ i * m i`.  While fewer than `L1 = Σ N i` steps have been made,
some axis still has a needed crossing (parameter ≤ R < sentinel), so the axis with the smallest `tMax`
is a moving axis and its crossing parameter is ≤ R; the cell entered contains the ray point at that
parameter.  After exactly `L1` steps no axis has a crossing parameter below `R` left.
-/
namespace Romea.RayCast
open Romea

variable {d : Nat}

/-- face-adjacent cells: one coordinate changes by exactly one -/
def Adjacent (c c' : Vec d Int) : Prop :=
  ∃ a, (c'.at a = c.at a + 1 ∨ c'.at a = c.at a - 1) ∧ ∀ i, i ≠ a → c'.at i = c.at i

/-- the closed cell `c` contains a point of the segment from `o` to `e` -/
def Crossed (G : Grid d ℝ) (o e : Vec d ℝ) (c : Vec d Int) : Prop :=
  ∃ u : ℝ, 0 ≤ u ∧ u ≤ 1 ∧ ∀ i, InClosed G i (c.at i) (o.at i + u * (e.at i - o.at i))

/-- consecutive cells of `c :: l` are face-adjacent -/
def ChainAdj : Vec d Int → List (Vec d Int) → Prop
  | _, [] => True
  | c, c' :: l => Adjacent c c' ∧ ChainAdj c' l

/-- last cell of `c :: l` -/
def lastCell : Vec d Int → List (Vec d Int) → Vec d Int
  | c, [] => c
  | _, c' :: l => lastCell c' l

theorem lastCell_eq_getLast (c : Vec d Int) (l : List (Vec d Int)) :
    lastCell c l = (c :: l).getLast (List.cons_ne_nil c l) := by
  induction l generalizing c with
  | nil => rfl
  | cons a l ih => rw [lastCell, ih a, List.getLast_cons (List.cons_ne_nil a l)]

theorem chainAdj_get (c : Vec d Int) (l : List (Vec d Int)) (h : ChainAdj c l) :
    ∀ k (hk : k + 1 < (c :: l).length), Adjacent ((c :: l)[k]'(by omega)) ((c :: l)[k + 1]'hk) := by
  induction l generalizing c with
  | nil => intro k hk; simp at hk
  | cons a l ih =>
    intro k hk
    cases k with
    | zero => exact h.1
    | succ k =>
      have := ih a h.2 k (by simpa using hk)
      simpa using this

variable [Big] {G : Grid d ℝ} {o e : Vec d ℝ} {R : ℝ} {s₀ : State d ℝ}

/-- number of crossings the ray makes on axis `i` -/
def needed (s₀ : State d ℝ) (i : Fin d) : ℕ := (s₀.eIdx.at i - s₀.oIdx.at i).natAbs

/-- the traversal state after some steps, described by the number of crossings taken per axis -/
structure Inv (R : ℝ) (s₀ s : State d ℝ) (c : Vec d Int) (m : Fin d → ℕ) : Prop where
  hstep : s.step = s₀.step
  hdelta : s.tDelta = s₀.tDelta
  htmax : ∀ i, s.tMax.at i = s₀.tMax.at i + m i * s₀.tDelta.at i
  hcell : ∀ i, c.at i = s₀.oIdx.at i + s₀.step.at i * m i
  /-- every crossing already taken lies at or before every crossing still pending -/
  taken_le : ∀ b i, 0 < m b →
    s₀.tMax.at b + ((m b : ℝ) - 1) * s₀.tDelta.at b ≤ s₀.tMax.at i + m i * s₀.tDelta.at i
  /-- … and at or before the end of the ray -/
  taken_le_R : ∀ b, 0 < m b → s₀.tMax.at b + ((m b : ℝ) - 1) * s₀.tDelta.at b ≤ R
  still0 : ∀ i, s₀.step.at i = 0 → m i = 0

namespace RayFacts
variable (F : RayFacts G o e R s₀)
include F

theorem Mpos : 0 < Big.M := lt_trans F.Rpos F.RltM

theorem δpos (i : Fin d) : 0 < s₀.tDelta.at i := by
  by_cases h : s₀.step.at i = 0
  · rw [(F.still i h).2.2.2]; exact F.Mpos
  · exact (F.moving i h).δpos

theorem needed_le (i : Fin d) (m : ℕ) (hm : m < needed s₀ i) :
    s₀.tMax.at i + m * s₀.tDelta.at i ≤ R := by
  by_cases h : s₀.step.at i = 0
  · exfalso
    unfold needed at hm
    rw [(F.still i h).2.1] at hm
    simp at hm
  · exact (F.moving i h).needed m hm

theorem unneeded_ge (i : Fin d) (m : ℕ) (hm : needed s₀ i ≤ m) :
    R ≤ s₀.tMax.at i + m * s₀.tDelta.at i := by
  by_cases h : s₀.step.at i = 0
  · rw [(F.still i h).2.2.1, (F.still i h).2.2.2]
    have := F.Mpos
    have := F.RltM
    have : (0 : ℝ) ≤ m := Nat.cast_nonneg m
    nlinarith
  · exact (F.moving i h).unneeded m hm

theorem still_gt (i : Fin d) (h : s₀.step.at i = 0) (m : ℕ) :
    R < s₀.tMax.at i + m * s₀.tDelta.at i := by
  rw [(F.still i h).2.2.1, (F.still i h).2.2.2]
  have := F.Mpos
  have := F.RltM
  have : (0 : ℝ) ≤ m := Nat.cast_nonneg m
  nlinarith

omit [Big] F in
/-- the initial state satisfies the invariant with no crossing taken -/
theorem inv_init : Inv R s₀ s₀ s₀.oIdx (fun _ => 0) where
  hstep := rfl
  hdelta := rfl
  htmax := by intro i; simp
  hcell := by intro i; simp
  taken_le := by intro b i h; exact absurd h (lt_irrefl 0)
  taken_le_R := by intro b h; exact absurd h (lt_irrefl 0)
  still0 := by intro i _; rfl

/-- the origin cell is crossed (at parameter 0) -/
theorem crossed_init : Crossed G o e s₀.oIdx :=
  ⟨0, le_refl 0, zero_le_one, fun i => by simpa using F.inK i⟩

/-- the ray point at parameter `t` is in the closed cell described by the counts `m`, provided `t` lies between
    the last crossing taken and the next crossing pending on every moving axis -/
theorem point_in_cell (m : Fin d → ℕ) (t : ℝ) (ht0 : 0 ≤ t) (htR : t ≤ R)
    (hstill : ∀ i, s₀.step.at i = 0 → m i = 0)
    (hlow : ∀ i, s₀.step.at i ≠ 0 → 0 < m i → s₀.tMax.at i + ((m i : ℝ) - 1) * s₀.tDelta.at i ≤ t)
    (hup : ∀ i, s₀.step.at i ≠ 0 → t ≤ s₀.tMax.at i + m i * s₀.tDelta.at i) :
    Crossed G o e (build fun i => s₀.oIdx.at i + s₀.step.at i * m i) := by
  have hR := F.Rpos
  refine ⟨t / R, div_nonneg ht0 hR.le, (div_le_one hR).mpr htR, ?_⟩
  intro i
  simp only [at_build]
  by_cases h : s₀.step.at i = 0
  · rw [hstill i h, h, (F.still i h).1]
    simpa using F.inK i
  · have A := F.moving i h
    have hl : s₀.tMax.at i + ((m i : ℝ) - 1) * s₀.tDelta.at i ≤ t := by
      rcases Nat.eq_zero_or_pos (m i) with h0 | hpos
      · rw [h0]
        have := A.start.2
        simp only [Nat.cast_zero, zero_sub, neg_mul, one_mul]
        linarith
      · exact hlow i h hpos
    have := A.geom (m i) t hl (hup i h)
    unfold InClosed face
    exact this

end RayFacts

/-- one `next` call while crossings remain: a moving axis is advanced, the cell entered is face-adjacent to the
    previous one and contains a point of the segment; the invariant is re-established -/
theorem next_lemma {sp : Spec d ℝ} (hsp : SpecOK sp) (F : RayFacts G o e R s₀)
    (hbound : ∀ c, Crossed G o e c → ∀ i, 0 ≤ c.at i ∧ c.at i < 2 ^ 31)
    {s : State d ℝ} {c : Vec d Int} {m : Fin d → ℕ} (hI : Inv R s₀ s c m)
    (hlt : ∑ i, m i < ∑ i, needed s₀ i) :
    ∃ m', Inv R s₀ (next sp s c).1 (next sp s c).2 m' ∧ ∑ i, m' i = ∑ i, m i + 1 ∧
      Adjacent c (next sp s c).2 ∧ Crossed G o e (next sp s c).2 := by
  set a := sp.pick s.tMax with ha
  have hδ := F.δpos
  -- the smallest pending crossing parameter
  set τ : ℝ := s₀.tMax.at a + m a * s₀.tDelta.at a with hτ
  have hmin : ∀ i, τ ≤ s₀.tMax.at i + m i * s₀.tDelta.at i := by
    intro i
    have := hsp.argmin s.tMax i
    rw [← ha, hI.htmax a, hI.htmax i] at this
    exact this
  obtain ⟨b, -, hb⟩ := Finset.exists_lt_of_sum_lt hlt
  have hτR : τ ≤ R := le_trans (hmin b) (F.needed_le b (m b) hb)
  have hσa : s₀.step.at a ≠ 0 := by
    intro h0
    have := F.still_gt a h0 (m a)
    linarith
  have hτ0 : 0 ≤ τ := by
    have := (F.moving a hσa).start.1
    have : (0 : ℝ) ≤ m a := Nat.cast_nonneg _
    have := hδ a
    rw [hτ]; nlinarith
  -- new counts
  set m' : Fin d → ℕ := fun i => m i + (if i = a then 1 else 0) with hm'
  have hm'a : m' a = m a + 1 := by simp [hm']
  have hm'ne : ∀ i, i ≠ a → m' i = m i := by intro i hi; simp [hm', hi]
  have hsum : ∑ i, m' i = ∑ i, m i + 1 := by
    simp [hm', Finset.sum_add_distrib]
  -- the cell entered, as described by the counts
  have hcross : Crossed G o e (build fun i => s₀.oIdx.at i + s₀.step.at i * m' i) := by
    apply F.point_in_cell m' τ hτ0 hτR
    · intro i hi
      have : i ≠ a := fun h => hσa (h ▸ hi)
      rw [hm'ne i this]; exact hI.still0 i hi
    · intro i _ hpos
      by_cases hia : i = a
      · subst hia; rw [hm'a]; push_cast; rw [hτ]; ring_nf; exact le_refl _
      · rw [hm'ne i hia] at hpos ⊢
        exact hI.taken_le i a hpos
    · intro i _
      by_cases hia : i = a
      · subst hia; rw [hm'a, hτ]; push_cast; nlinarith [hδ a]
      · rw [hm'ne i hia]; exact hmin i
  have hcella : (next sp s c).2.at a = s₀.oIdx.at a + s₀.step.at a * m' a := by
    have hb' := (hbound _ hcross a)
    simp only [at_build] at hb'
    simp only [next, at_upd_self, ← ha]
    rw [hI.hcell a, hI.hstep, hm'a]
    have : s₀.oIdx.at a + s₀.step.at a * (m a : ℤ) + s₀.step.at a =
        s₀.oIdx.at a + s₀.step.at a * ((m a + 1 : ℕ) : ℤ) := by push_cast; ring
    rw [this]
    rw [hm'a] at hb'
    exact wrap64_id hb'.1 hb'.2
  have hcellne : ∀ i, i ≠ a → (next sp s c).2.at i = c.at i := by
    intro i hi
    simp only [next, ← ha]
    exact at_upd_ne _ _ hi
  have hcell' : (next sp s c).2 = build fun i => s₀.oIdx.at i + s₀.step.at i * m' i := by
    apply vec_ext
    intro i
    simp only [at_build]
    by_cases hia : i = a
    · subst hia; exact hcella
    · rw [hcellne i hia, hI.hcell i, hm'ne i hia]
  refine ⟨m', ?_, hsum, ?_, ?_⟩
  · constructor
    · exact hI.hstep
    · exact hI.hdelta
    · intro i
      simp only [next, ← ha]
      by_cases hia : i = a
      · subst hia
        rw [at_upd_self, hI.htmax a, hI.hdelta, hm'a]; push_cast; ring
      · rw [at_upd_ne _ _ hia, hI.htmax i, hm'ne i hia]
    · intro i; rw [hcell']; simp
    · intro b' i hpos
      have hmi : s₀.tMax.at i + m i * s₀.tDelta.at i ≤ s₀.tMax.at i + m' i * s₀.tDelta.at i := by
        by_cases hia : i = a
        · subst hia; rw [hm'a]; push_cast; nlinarith [hδ a]
        · rw [hm'ne i hia]
      by_cases hba : b' = a
      · subst hba
        rw [hm'a]; push_cast
        have := hmin i
        rw [hτ] at this
        linarith
      · rw [hm'ne b' hba] at hpos ⊢
        exact le_trans (hI.taken_le b' i hpos) hmi
    · intro b' hpos
      by_cases hba : b' = a
      · subst hba
        rw [hm'a]; push_cast
        rw [hτ] at hτR
        linarith
      · rw [hm'ne b' hba] at hpos ⊢
        exact hI.taken_le_R b' hpos
    · intro i hi
      have : i ≠ a := fun h => hσa (h ▸ hi)
      rw [hm'ne i this]; exact hI.still0 i hi
  · refine ⟨a, ?_, hcellne⟩
    rw [hcella, hI.hcell a, hm'a]
    rcases F.σ_cases a with h | h | h
    · exact absurd h hσa
    · left; rw [h]; push_cast; ring
    · right; rw [h]; push_cast; ring
  · rw [hcell']; exact hcross

/-- `k` `next` calls while at least `k` crossings remain -/
theorem steps_lemma {sp : Spec d ℝ} (hsp : SpecOK sp) (F : RayFacts G o e R s₀)
    (hbound : ∀ c, Crossed G o e c → ∀ i, 0 ≤ c.at i ∧ c.at i < 2 ^ 31) (k : ℕ) :
    ∀ (s : State d ℝ) (c : Vec d Int) (m : Fin d → ℕ), Inv R s₀ s c m →
      ∑ i, m i + k ≤ ∑ i, needed s₀ i →
      ∃ m', Inv R s₀ (steps sp k s c).1 (lastCell c (steps sp k s c).2) m' ∧ ∑ i, m' i = ∑ i, m i + k ∧
        (steps sp k s c).2.length = k ∧ ChainAdj c (steps sp k s c).2 ∧
        ∀ c' ∈ (steps sp k s c).2, Crossed G o e c' := by
  induction k with
  | zero =>
    intro s c m hI _
    exact ⟨m, by simpa [steps, lastCell] using hI, by simp, by simp [steps], by simp [steps, ChainAdj],
      by simp [steps]⟩
  | succ k ih =>
    intro s c m hI hle
    obtain ⟨m₁, hI₁, hsum₁, hadj, hcr⟩ := next_lemma hsp F hbound hI (by omega)
    obtain ⟨m₂, hI₂, hsum₂, hlen, hchain, hall⟩ := ih (next sp s c).1 (next sp s c).2 m₁ hI₁ (by omega)
    refine ⟨m₂, ?_, by omega, ?_, ?_, ?_⟩
    · simpa [steps, lastCell] using hI₂
    · simp [steps, hlen]
    · simp only [steps, ChainAdj]; exact ⟨hadj, hchain⟩
    · intro c' hc'
      simp only [steps, List.mem_cons] at hc'
      rcases hc' with rfl | h
      · exact hcr
      · exact hall c' h

/-- after exactly `L1` steps the closed current cell contains the end point -/
theorem end_in_final_cell (F : RayFacts G o e R s₀) {s : State d ℝ} {c : Vec d Int} {m : Fin d → ℕ}
    (hI : Inv R s₀ s c m) (hsum : ∑ i, m i = ∑ i, needed s₀ i) (i : Fin d) :
    InClosed G i (c.at i) (e.at i) := by
  rw [hI.hcell i]
  by_cases h : s₀.step.at i = 0
  · rw [hI.still0 i h, h, (F.still i h).1]
    simpa using F.inK i
  · have A := F.moving i h
    have hR := F.Rpos
    have hl : s₀.tMax.at i + ((m i : ℝ) - 1) * s₀.tDelta.at i ≤ R := by
      rcases Nat.eq_zero_or_pos (m i) with h0 | hpos
      · rw [h0]
        have := A.start.2
        simp only [Nat.cast_zero, zero_sub, neg_mul, one_mul]
        linarith
      · exact hI.taken_le_R i hpos
    have hu : R ≤ s₀.tMax.at i + m i * s₀.tDelta.at i := by
      by_contra hlt
      rw [not_le] at hlt
      have hmi : m i < needed s₀ i := by
        by_contra hge
        rw [not_lt] at hge
        exact absurd (F.unneeded_ge i (m i) hge) (not_le.mpr hlt)
      -- some axis has taken more crossings than needed
      have : ∃ b, needed s₀ b < m b := by
        by_contra hall
        have hall' : ∀ b, m b ≤ needed s₀ b := by
          intro b
          by_contra hb
          exact hall ⟨b, not_le.mp hb⟩
        have := Finset.sum_lt_sum (s := Finset.univ) (fun b _ => hall' b) ⟨i, Finset.mem_univ i, hmi⟩
        omega
      obtain ⟨b, hb⟩ := this
      have hpos : 0 < m b := by omega
      have h1 := F.unneeded_ge b (m b - 1) (by omega)
      have h2 := hI.taken_le b i hpos
      have hc : (((m b - 1 : ℕ)) : ℝ) = (m b : ℝ) - 1 := by
        rw [Nat.cast_sub (by omega)]; simp
      rw [hc] at h1
      linarith
    have := A.geom (m i) R hl hu
    rw [div_self hR.ne', one_mul] at this
    unfold InClosed face
    have e1 : o.at i + (e.at i - o.at i) = e.at i := by ring
    rw [e1] at this
    exact this

end Romea.RayCast
