import RomeaModel.WrapGrid

/-!
# The odometer induction behind the blanking loop of `WrappableGrid<T,2>::translate` (C15)

`odo` is the shape the translator gives the loop `for (bool done = false; !done;)` of `WrappableGrid.hpp:144-158` for DIM = 2 (the inner
`for (a < DIM)` unrolled): write the cell, increment `cellIndexes[0]` in `size_t`; if it is still below the end of axis 0 go on, otherwise
reset it to the begin of axis 0 and carry into `cellIndexes[1]`; if that reaches its end reset it too and set `done`. It is generic in the
cell-position function `w`, in the value type and in the four range ends, so that the three copies the translator emits
(`translate_2.loop1/2/3`) are instances (`Bridge/C15Loop.lean` proves that by unfolding the generated definitions).

`odo_box`: started at the begin corner `(f0, f1)` of a NON-EMPTY box `[f0, l0) × [f1, l1)` (ends below 2^64) with fuel at least
`(l0 - f0) * (l1 - f1) + 1`, the loop ends (`some`), leaves the indexes at the begin corner with `done = true`, and its buffer is the
fold of `set (w x y) e` over the rows `y = f1 … l1-1`, each row over `x = f0 … l0-1` — the order of the model's `box`.
`box_two` / `foldl_box_two` put the model's `box` of two ranges into that form. Core Lean only.
-/
namespace Romea.C15Odometer
open Romea.WrapGrid

variable {T : Type}

/-- the translated blanking loop, generic in the position function and the ranges (fuel-recursive; `none` = fuel exhausted) -/
def odo (w : Int → Int → Nat) (e : T) (f0 l0 f1 l1 : Int) : Nat → List T → Int → Int → Bool → Option (List T × Int × Int × Bool)
  | 0, _, _, _, _ => none
  | fuel + 1, buf, x0, x1, done =>
    if ¬ (done = true) then
      if (x0 + 1) % 18446744073709551616 < l0 then
        odo w e f0 l0 f1 l1 fuel (buf.set (w x0 x1) e) ((x0 + 1) % 18446744073709551616) x1 false
      else if (x1 + 1) % 18446744073709551616 < l1 then
        odo w e f0 l0 f1 l1 fuel (buf.set (w x0 x1) e) f0 ((x1 + 1) % 18446744073709551616) false
      else
        odo w e f0 l0 f1 l1 fuel (buf.set (w x0 x1) e) f0 f1 true
    else some (buf, x0, x1, done)

/-- blanking of the cells `x0 … x0+k-1` of row `y` -/
def rowFold (w : Int → Int → Nat) (e : T) (y : Nat) (x0 k : Nat) (buf : List T) : List T :=
  (List.range' x0 k).foldl (fun b (x : Nat) => b.set (w (x : Int) (y : Int)) e) buf

/-- blanking of the rows `y0 … y0+j-1`, each over `[f0, f0+k)` -/
def rowsFold (w : Int → Int → Nat) (e : T) (f0 k : Nat) (y0 j : Nat) (buf : List T) : List T :=
  (List.range' y0 j).foldl (fun b (y : Nat) => rowFold w e y f0 k b) buf

theorem odo_done (w : Int → Int → Nat) (e : T) (f0 l0 f1 l1 : Int) (m : Nat) (buf : List T) (x0 x1 : Int) :
    odo w e f0 l0 f1 l1 (m + 1) buf x0 x1 true = some (buf, x0, x1, true) := by
  unfold odo
  simp

theorem odo_step (w : Int → Int → Nat) (e : T) (f0 l0 f1 l1 : Int) (m : Nat) (buf : List T) (x0 x1 : Int) :
    odo w e f0 l0 f1 l1 (m + 1) buf x0 x1 false =
      if (x0 + 1) % 18446744073709551616 < l0 then
        odo w e f0 l0 f1 l1 m (buf.set (w x0 x1) e) ((x0 + 1) % 18446744073709551616) x1 false
      else if (x1 + 1) % 18446744073709551616 < l1 then
        odo w e f0 l0 f1 l1 m (buf.set (w x0 x1) e) f0 ((x1 + 1) % 18446744073709551616) false
      else
        odo w e f0 l0 f1 l1 m (buf.set (w x0 x1) e) f0 f1 true := by
  rw [odo]
  simp only [Bool.false_eq_true, not_false_eq_true, if_true]

private theorem succ_cast (x : Nat) (h : x + 1 < 18446744073709551616) :
    ((x : Int) + 1) % 18446744073709551616 = ((x + 1 : Nat) : Int) := by omega

/-- one row: from `(x0, y)` with `k` cells left in the row the loop writes them and then carries into the next row (or finishes) -/
theorem odo_row (w : Int → Int → Nat) (e : T) (f0 l0 f1 l1 : Nat) (hl0 : l0 < 18446744073709551616) (y : Nat) (k : Nat) :
    ∀ (x0 : Nat) (buf : List T) (m : Nat), x0 + (k + 1) = l0 →
      odo w e f0 l0 f1 l1 (m + (k + 1)) buf x0 y false =
        if ((y : Int) + 1) % 18446744073709551616 < (l1 : Int) then
          odo w e f0 l0 f1 l1 m (rowFold w e y x0 (k + 1) buf) f0 (((y : Int) + 1) % 18446744073709551616) false
        else
          odo w e f0 l0 f1 l1 m (rowFold w e y x0 (k + 1) buf) f0 f1 true := by
  induction k with
  | zero =>
    intro x0 buf m hx
    have hc : ¬ (((x0 : Int) + 1) % 18446744073709551616 < (l0 : Int)) := by omega
    show odo w e f0 l0 f1 l1 (m + 1) buf x0 y false = _
    rw [odo_step, if_neg hc]
    simp only [rowFold, Nat.zero_add, List.range'_one, List.foldl_cons, List.foldl_nil]
  | succ k ih =>
    intro x0 buf m hx
    have hc : ((x0 : Int) + 1) % 18446744073709551616 < (l0 : Int) := by omega
    show odo w e f0 l0 f1 l1 ((m + (k + 1)) + 1) buf x0 y false = _
    rw [odo_step, if_pos hc]
    rw [succ_cast x0 (by omega), ih (x0 + 1) _ m (by omega)]
    have hr : ∀ b : List T, rowFold w e y x0 (k + 1 + 1) b = rowFold w e y (x0 + 1) (k + 1) (b.set (w (x0 : Int) (y : Int)) e) := by
      intro b
      simp only [rowFold]
      rw [List.range'_succ, List.foldl_cons]
    rw [hr]

/-- all rows from `y` on: `j + 1` rows are left, every one starts at `f0` -/
theorem odo_rows (w : Int → Int → Nat) (e : T) (f0 l0 f1 l1 : Nat) (hl0 : l0 < 18446744073709551616)
    (hl1 : l1 < 18446744073709551616) (k : Nat) (hk : f0 + (k + 1) = l0) (j : Nat) :
    ∀ (y : Nat) (buf : List T) (m : Nat), y + (j + 1) = l1 →
      odo w e f0 l0 f1 l1 (m + 1 + (j + 1) * (k + 1)) buf f0 y false =
        some (rowsFold w e f0 (k + 1) y (j + 1) buf, (f0 : Int), (f1 : Int), true) := by
  induction j with
  | zero =>
    intro y buf m hy
    have hc : ¬ (((y : Int) + 1) % 18446744073709551616 < (l1 : Int)) := by omega
    rw [Nat.zero_add, Nat.one_mul, odo_row w e f0 l0 f1 l1 hl0 y k f0 buf (m + 1) hk, if_neg hc, odo_done]
    simp only [rowsFold, List.range'_one, List.foldl_cons, List.foldl_nil]
  | succ j ih =>
    intro y buf m hy
    have hc : ((y : Int) + 1) % 18446744073709551616 < (l1 : Int) := by omega
    have hfuel : m + 1 + (j + 1 + 1) * (k + 1) = (m + 1 + (j + 1) * (k + 1)) + (k + 1) := by
      rw [Nat.succ_mul (j + 1) (k + 1)]; omega
    rw [hfuel, odo_row w e f0 l0 f1 l1 hl0 y k f0 buf _ hk, if_pos hc, succ_cast y (by omega), ih (y + 1) _ m (by omega)]
    have hr : rowsFold w e f0 (k + 1) y (j + 1 + 1) buf = rowsFold w e f0 (k + 1) (y + 1) (j + 1) (rowFold w e y f0 (k + 1) buf) := by
      simp only [rowsFold]
      rw [List.range'_succ, List.foldl_cons]
    rw [hr]

/-- **The odometer induction.** On a non-empty box `[f0, l0) × [f1, l1)` with ends below 2^64, started at its begin corner with
    `done = false` and fuel at least (number of cells of the box) + 1, the translated loop returns `some`: the buffer with exactly the
    box's cells written (row by row, axis 0 fastest), the indexes back at the begin corner, `done = true` -/
theorem odo_box (w : Int → Int → Nat) (e : T) (f0 l0 f1 l1 : Nat) (hl0 : l0 < 18446744073709551616)
    (hl1 : l1 < 18446744073709551616) (h0 : f0 < l0) (h1 : f1 < l1) (buf : List T) (fuel : Nat)
    (hfuel : (l1 - f1) * (l0 - f0) + 1 ≤ fuel) :
    odo w e f0 l0 f1 l1 fuel buf f0 f1 false =
      some (rowsFold w e f0 (l0 - f0) f1 (l1 - f1) buf, (f0 : Int), (f1 : Int), true) := by
  obtain ⟨k, hk⟩ : ∃ k, l0 - f0 = k + 1 := ⟨l0 - f0 - 1, by omega⟩
  obtain ⟨j, hj⟩ : ∃ j, l1 - f1 = j + 1 := ⟨l1 - f1 - 1, by omega⟩
  rw [hk, hj] at hfuel ⊢
  obtain ⟨m, hm⟩ : ∃ m, fuel = m + 1 + (j + 1) * (k + 1) := ⟨fuel - 1 - (j + 1) * (k + 1), by omega⟩
  rw [hm]
  exact odo_rows w e f0 l0 f1 l1 hl0 hl1 k (by omega) j f1 buf m (by omega)

/-! ### the model's `box` of two ranges in the same form -/

theorem box_two (f0 l0 f1 l1 : Nat) :
    box [(f0, l0), (f1, l1)] =
      (List.range' f1 (l1 - f1)).flatMap (fun y => (List.range' f0 (l0 - f0)).map (fun x => [x, y])) := by
  simp only [box, List.flatMap_cons, List.flatMap_nil, List.append_nil, List.flatMap_map]

/-- a fold with a position function that agrees on the members of the list -/
theorem foldl_set_congr {α : Type} (p q : α → Nat) (e : T) (l : List α) (h : ∀ a ∈ l, p a = q a) (buf : List T) :
    l.foldl (fun b a => b.set (p a) e) buf = l.foldl (fun b a => b.set (q a) e) buf := by
  induction l generalizing buf with
  | nil => rfl
  | cons a l ih =>
    rw [List.foldl_cons, List.foldl_cons, h a (by simp), ih (fun b hb => h b (by simp [hb]))]

/-- the model's blanking fold over a two-axis box is the row-by-row fold of `odo_box`, for every position function `w` that agrees with
    the model's `pos` on the cells of the box -/
theorem foldl_box_two (pos : List Nat → Nat) (w : Int → Int → Nat) (e : T) (f0 l0 f1 l1 : Nat)
    (hw : ∀ x y : Nat, f0 ≤ x → x < l0 → f1 ≤ y → y < l1 → w (x : Int) (y : Int) = pos [x, y]) (buf : List T) :
    (box [(f0, l0), (f1, l1)]).foldl (fun b c => b.set (pos c) e) buf = rowsFold w e f0 (l0 - f0) f1 (l1 - f1) buf := by
  rw [box_two, List.foldl_flatMap]
  simp only [rowsFold, rowFold, List.foldl_map]
  have hrow : ∀ y : Nat, f1 ≤ y → y < l1 → ∀ b : List T,
      (List.range' f0 (l0 - f0)).foldl (fun b (x : Nat) => b.set (pos [x, y]) e) b =
        (List.range' f0 (l0 - f0)).foldl (fun b (x : Nat) => b.set (w (x : Int) (y : Int)) e) b := by
    intro y hy1 hy2 b
    apply foldl_set_congr
    intro x hx
    rw [List.mem_range'_1] at hx
    exact (hw x y hx.1 (by omega) hy1 hy2).symm
  have hys : ∀ (ys : List Nat), (∀ y ∈ ys, f1 ≤ y ∧ y < l1) → ∀ b : List T,
      ys.foldl (fun acc (y : Nat) => (List.range' f0 (l0 - f0)).foldl (fun b (x : Nat) => b.set (pos [x, y]) e) acc) b =
        ys.foldl (fun acc (y : Nat) => (List.range' f0 (l0 - f0)).foldl (fun b (x : Nat) => b.set (w (x : Int) (y : Int)) e) acc) b := by
    intro ys
    induction ys with
    | nil => intro _ _; rfl
    | cons y ys ih =>
      intro hm b
      rw [List.foldl_cons, List.foldl_cons, hrow y (hm y (by simp)).1 (hm y (by simp)).2,
        ih (fun z hz => hm z (by simp [hz]))]
  apply hys
  intro y hy
  rw [List.mem_range'_1] at hy
  exact ⟨hy.1, by omega⟩


/-! ## Three levels: the blanking loop of `WrappableGrid<T,3>::translate`

`odo3` is the shape the translator gives the same loop for DIM = 3 (the inner `for (a < DIM)` unrolled three times): write the cell,
increment `cellIndexes[0]`; on reaching its end reset it and carry into `cellIndexes[1]`; on reaching that end reset it and carry into
`cellIndexes[2]`; when that reaches its end too, reset it and set `done`. `odo3_box` is the same statement as `odo_box` for a non-empty
box `[f0, l0) × [f1, l1) × [f2, l2)`: with fuel ≥ (number of cells of the box) + 1 the loop ends with the buffer = the fold of
`set (w x y z) e` plane by plane (`z`), row by row (`y`), cell by cell (`x`) — the order of the model's `box` of three ranges
(`box_three`, `foldl_box_three`). -/

/-- the translated blanking loop for three axes, generic in the position function and the ranges -/
def odo3 (w : Int → Int → Int → Nat) (e : T) (f0 l0 f1 l1 f2 l2 : Int) :
    Nat → List T → Int → Int → Int → Bool → Option (List T × Int × Int × Int × Bool)
  | 0, _, _, _, _, _ => none
  | fuel + 1, buf, x0, x1, x2, done =>
    if ¬ (done = true) then
      if (x0 + 1) % 18446744073709551616 < l0 then
        odo3 w e f0 l0 f1 l1 f2 l2 fuel (buf.set (w x0 x1 x2) e) ((x0 + 1) % 18446744073709551616) x1 x2 false
      else if (x1 + 1) % 18446744073709551616 < l1 then
        odo3 w e f0 l0 f1 l1 f2 l2 fuel (buf.set (w x0 x1 x2) e) f0 ((x1 + 1) % 18446744073709551616) x2 false
      else if (x2 + 1) % 18446744073709551616 < l2 then
        odo3 w e f0 l0 f1 l1 f2 l2 fuel (buf.set (w x0 x1 x2) e) f0 f1 ((x2 + 1) % 18446744073709551616) false
      else
        odo3 w e f0 l0 f1 l1 f2 l2 fuel (buf.set (w x0 x1 x2) e) f0 f1 f2 true
    else some (buf, x0, x1, x2, done)

/-- blanking of the cells `x0 … x0+k-1` of the row `(y, z)` -/
def rowFold3 (w : Int → Int → Int → Nat) (e : T) (y z : Nat) (x0 k : Nat) (buf : List T) : List T :=
  (List.range' x0 k).foldl (fun b (x : Nat) => b.set (w (x : Int) (y : Int) (z : Int)) e) buf

/-- blanking of the rows `y0 … y0+j-1` of the plane `z`, each over `[f0, f0+k)` -/
def planeFold3 (w : Int → Int → Int → Nat) (e : T) (f0 k : Nat) (z : Nat) (y0 j : Nat) (buf : List T) : List T :=
  (List.range' y0 j).foldl (fun b (y : Nat) => rowFold3 w e y z f0 k b) buf

/-- blanking of the planes `z0 … z0+i-1`, each over `[f0, f0+k) × [f1, f1+j)` -/
def planesFold3 (w : Int → Int → Int → Nat) (e : T) (f0 k f1 j : Nat) (z0 i : Nat) (buf : List T) : List T :=
  (List.range' z0 i).foldl (fun b (z : Nat) => planeFold3 w e f0 k z f1 j b) buf

theorem odo3_done (w : Int → Int → Int → Nat) (e : T) (f0 l0 f1 l1 f2 l2 : Int) (m : Nat) (buf : List T) (x0 x1 x2 : Int) :
    odo3 w e f0 l0 f1 l1 f2 l2 (m + 1) buf x0 x1 x2 true = some (buf, x0, x1, x2, true) := by
  unfold odo3
  simp

theorem odo3_step (w : Int → Int → Int → Nat) (e : T) (f0 l0 f1 l1 f2 l2 : Int) (m : Nat) (buf : List T) (x0 x1 x2 : Int) :
    odo3 w e f0 l0 f1 l1 f2 l2 (m + 1) buf x0 x1 x2 false =
      if (x0 + 1) % 18446744073709551616 < l0 then
        odo3 w e f0 l0 f1 l1 f2 l2 m (buf.set (w x0 x1 x2) e) ((x0 + 1) % 18446744073709551616) x1 x2 false
      else if (x1 + 1) % 18446744073709551616 < l1 then
        odo3 w e f0 l0 f1 l1 f2 l2 m (buf.set (w x0 x1 x2) e) f0 ((x1 + 1) % 18446744073709551616) x2 false
      else if (x2 + 1) % 18446744073709551616 < l2 then
        odo3 w e f0 l0 f1 l1 f2 l2 m (buf.set (w x0 x1 x2) e) f0 f1 ((x2 + 1) % 18446744073709551616) false
      else
        odo3 w e f0 l0 f1 l1 f2 l2 m (buf.set (w x0 x1 x2) e) f0 f1 f2 true := by
  rw [odo3]
  simp only [Bool.false_eq_true, not_false_eq_true, if_true]

/-- one row: from `(x0, y, z)` with `k + 1` cells left in the row the loop writes them and then carries -/
theorem odo3_row (w : Int → Int → Int → Nat) (e : T) (f0 l0 f1 l1 f2 l2 : Nat) (hl0 : l0 < 18446744073709551616) (y z : Nat) (k : Nat) :
    ∀ (x0 : Nat) (buf : List T) (m : Nat), x0 + (k + 1) = l0 →
      odo3 w e f0 l0 f1 l1 f2 l2 (m + (k + 1)) buf x0 y z false =
        if ((y : Int) + 1) % 18446744073709551616 < (l1 : Int) then
          odo3 w e f0 l0 f1 l1 f2 l2 m (rowFold3 w e y z x0 (k + 1) buf) f0 (((y : Int) + 1) % 18446744073709551616) z false
        else if ((z : Int) + 1) % 18446744073709551616 < (l2 : Int) then
          odo3 w e f0 l0 f1 l1 f2 l2 m (rowFold3 w e y z x0 (k + 1) buf) f0 f1 (((z : Int) + 1) % 18446744073709551616) false
        else
          odo3 w e f0 l0 f1 l1 f2 l2 m (rowFold3 w e y z x0 (k + 1) buf) f0 f1 f2 true := by
  induction k with
  | zero =>
    intro x0 buf m hx
    have hc : ¬ (((x0 : Int) + 1) % 18446744073709551616 < (l0 : Int)) := by omega
    show odo3 w e f0 l0 f1 l1 f2 l2 (m + 1) buf x0 y z false = _
    rw [odo3_step, if_neg hc]
    simp only [rowFold3, Nat.zero_add, List.range'_one, List.foldl_cons, List.foldl_nil]
  | succ k ih =>
    intro x0 buf m hx
    have hc : ((x0 : Int) + 1) % 18446744073709551616 < (l0 : Int) := by omega
    show odo3 w e f0 l0 f1 l1 f2 l2 ((m + (k + 1)) + 1) buf x0 y z false = _
    rw [odo3_step, if_pos hc]
    rw [succ_cast x0 (by omega), ih (x0 + 1) _ m (by omega)]
    have hr : ∀ b : List T, rowFold3 w e y z x0 (k + 1 + 1) b = rowFold3 w e y z (x0 + 1) (k + 1) (b.set (w (x0 : Int) (y : Int) (z : Int)) e) := by
      intro b
      simp only [rowFold3]
      rw [List.range'_succ, List.foldl_cons]
    rw [hr]

/-- one plane: from `(f0, y, z)` with `j + 1` rows left in the plane the loop writes them and then carries into the next plane -/
theorem odo3_plane (w : Int → Int → Int → Nat) (e : T) (f0 l0 f1 l1 f2 l2 : Nat) (hl0 : l0 < 18446744073709551616)
    (hl1 : l1 < 18446744073709551616) (z : Nat) (k : Nat) (hk : f0 + (k + 1) = l0) (j : Nat) :
    ∀ (y : Nat) (buf : List T) (m : Nat), y + (j + 1) = l1 →
      odo3 w e f0 l0 f1 l1 f2 l2 (m + (j + 1) * (k + 1)) buf f0 y z false =
        if ((z : Int) + 1) % 18446744073709551616 < (l2 : Int) then
          odo3 w e f0 l0 f1 l1 f2 l2 m (planeFold3 w e f0 (k + 1) z y (j + 1) buf) f0 f1 (((z : Int) + 1) % 18446744073709551616) false
        else
          odo3 w e f0 l0 f1 l1 f2 l2 m (planeFold3 w e f0 (k + 1) z y (j + 1) buf) f0 f1 f2 true := by
  induction j with
  | zero =>
    intro y buf m hy
    have hc : ¬ (((y : Int) + 1) % 18446744073709551616 < (l1 : Int)) := by omega
    rw [Nat.zero_add, Nat.one_mul, odo3_row w e f0 l0 f1 l1 f2 l2 hl0 y z k f0 buf m hk, if_neg hc]
    simp only [planeFold3, List.range'_one, List.foldl_cons, List.foldl_nil]
  | succ j ih =>
    intro y buf m hy
    have hc : ((y : Int) + 1) % 18446744073709551616 < (l1 : Int) := by omega
    have hfuel : m + (j + 1 + 1) * (k + 1) = (m + (j + 1) * (k + 1)) + (k + 1) := by
      rw [Nat.succ_mul (j + 1) (k + 1)]; omega
    rw [hfuel, odo3_row w e f0 l0 f1 l1 f2 l2 hl0 y z k f0 buf _ hk, if_pos hc, succ_cast y (by omega), ih (y + 1) _ m (by omega)]
    have hr : planeFold3 w e f0 (k + 1) z y (j + 1 + 1) buf = planeFold3 w e f0 (k + 1) z (y + 1) (j + 1) (rowFold3 w e y z f0 (k + 1) buf) := by
      simp only [planeFold3]
      rw [List.range'_succ, List.foldl_cons]
    rw [hr]

/-- all planes from `z` on: `i + 1` planes are left, every one starts at `(f0, f1)` -/
theorem odo3_planes (w : Int → Int → Int → Nat) (e : T) (f0 l0 f1 l1 f2 l2 : Nat) (hl0 : l0 < 18446744073709551616)
    (hl1 : l1 < 18446744073709551616) (hl2 : l2 < 18446744073709551616) (k : Nat) (hk : f0 + (k + 1) = l0) (j : Nat)
    (hj : f1 + (j + 1) = l1) (i : Nat) :
    ∀ (z : Nat) (buf : List T) (m : Nat), z + (i + 1) = l2 →
      odo3 w e f0 l0 f1 l1 f2 l2 (m + 1 + (i + 1) * ((j + 1) * (k + 1))) buf f0 f1 z false =
        some (planesFold3 w e f0 (k + 1) f1 (j + 1) z (i + 1) buf, (f0 : Int), (f1 : Int), (f2 : Int), true) := by
  induction i with
  | zero =>
    intro z buf m hz
    have hc : ¬ (((z : Int) + 1) % 18446744073709551616 < (l2 : Int)) := by omega
    rw [Nat.zero_add, Nat.one_mul, odo3_plane w e f0 l0 f1 l1 f2 l2 hl0 hl1 z k hk j f1 buf (m + 1) hj, if_neg hc, odo3_done]
    simp only [planesFold3, List.range'_one, List.foldl_cons, List.foldl_nil]
  | succ i ih =>
    intro z buf m hz
    have hc : ((z : Int) + 1) % 18446744073709551616 < (l2 : Int) := by omega
    have hfuel : m + 1 + (i + 1 + 1) * ((j + 1) * (k + 1)) = (m + 1 + (i + 1) * ((j + 1) * (k + 1))) + (j + 1) * (k + 1) := by
      rw [Nat.succ_mul (i + 1) ((j + 1) * (k + 1))]; omega
    rw [hfuel, odo3_plane w e f0 l0 f1 l1 f2 l2 hl0 hl1 z k hk j f1 buf _ hj, if_pos hc, succ_cast z (by omega), ih (z + 1) _ m (by omega)]
    have hr : planesFold3 w e f0 (k + 1) f1 (j + 1) z (i + 1 + 1) buf
        = planesFold3 w e f0 (k + 1) f1 (j + 1) (z + 1) (i + 1) (planeFold3 w e f0 (k + 1) z f1 (j + 1) buf) := by
      simp only [planesFold3]
      rw [List.range'_succ, List.foldl_cons]
    rw [hr]

/-- **The odometer induction, three levels.** On a non-empty box `[f0, l0) × [f1, l1) × [f2, l2)` with ends below 2^64, started at its
    begin corner with `done = false` and fuel at least (number of cells of the box) + 1, the translated loop returns `some`: the buffer
    with exactly the box's cells written (plane by plane, row by row, axis 0 fastest), the indexes back at the begin corner, `done` -/
theorem odo3_box (w : Int → Int → Int → Nat) (e : T) (f0 l0 f1 l1 f2 l2 : Nat) (hl0 : l0 < 18446744073709551616)
    (hl1 : l1 < 18446744073709551616) (hl2 : l2 < 18446744073709551616) (h0 : f0 < l0) (h1 : f1 < l1) (h2 : f2 < l2)
    (buf : List T) (fuel : Nat) (hfuel : (l2 - f2) * ((l1 - f1) * (l0 - f0)) + 1 ≤ fuel) :
    odo3 w e f0 l0 f1 l1 f2 l2 fuel buf f0 f1 f2 false =
      some (planesFold3 w e f0 (l0 - f0) f1 (l1 - f1) f2 (l2 - f2) buf, (f0 : Int), (f1 : Int), (f2 : Int), true) := by
  obtain ⟨k, hk⟩ : ∃ k, l0 - f0 = k + 1 := ⟨l0 - f0 - 1, by omega⟩
  obtain ⟨j, hj⟩ : ∃ j, l1 - f1 = j + 1 := ⟨l1 - f1 - 1, by omega⟩
  obtain ⟨i, hi⟩ : ∃ i, l2 - f2 = i + 1 := ⟨l2 - f2 - 1, by omega⟩
  rw [hk, hj, hi] at hfuel ⊢
  obtain ⟨m, hm⟩ : ∃ m, fuel = m + 1 + (i + 1) * ((j + 1) * (k + 1)) := ⟨fuel - 1 - (i + 1) * ((j + 1) * (k + 1)), by omega⟩
  rw [hm]
  exact odo3_planes w e f0 l0 f1 l1 f2 l2 hl0 hl1 hl2 k (by omega) j (by omega) i f2 buf m (by omega)

/-! ### the model's `box` of three ranges in the same form -/

theorem box_three (f0 l0 f1 l1 f2 l2 : Nat) :
    box [(f0, l0), (f1, l1), (f2, l2)] =
      (List.range' f2 (l2 - f2)).flatMap (fun z => (List.range' f1 (l1 - f1)).flatMap (fun y =>
        (List.range' f0 (l0 - f0)).map (fun x => [x, y, z]))) := by
  simp only [box, List.flatMap_cons, List.flatMap_nil, List.append_nil, List.flatMap_map, List.flatMap_assoc]

/-- the model's blanking fold over a three-axis box is the plane-by-plane fold of `odo3_box`, for every position function `w` that
    agrees with the model's `pos` on the cells of the box -/
theorem foldl_box_three (pos : List Nat → Nat) (w : Int → Int → Int → Nat) (e : T) (f0 l0 f1 l1 f2 l2 : Nat)
    (hw : ∀ x y z : Nat, f0 ≤ x → x < l0 → f1 ≤ y → y < l1 → f2 ≤ z → z < l2 → w (x : Int) (y : Int) (z : Int) = pos [x, y, z])
    (buf : List T) :
    (box [(f0, l0), (f1, l1), (f2, l2)]).foldl (fun b c => b.set (pos c) e) buf
      = planesFold3 w e f0 (l0 - f0) f1 (l1 - f1) f2 (l2 - f2) buf := by
  have hcongr := foldl_set_congr pos (fun c : List Nat => w ((c.getD 0 0 : Nat) : Int) ((c.getD 1 0 : Nat) : Int) ((c.getD 2 0 : Nat) : Int)) e
    (box [(f0, l0), (f1, l1), (f2, l2)]) (by
      intro c hc
      rw [box_three] at hc
      simp only [List.mem_flatMap, List.mem_map, List.mem_range'_1] at hc
      obtain ⟨z, hz, y, hy, x, hx, rfl⟩ := hc
      simp only [List.getD_cons_zero, List.getD_cons_succ]
      exact (hw x y z hx.1 (by omega) hy.1 (by omega) hz.1 (by omega)).symm) buf
  rw [hcongr, box_three, List.foldl_flatMap]
  simp only [List.foldl_flatMap, List.foldl_map, List.getD_cons_zero, List.getD_cons_succ, planesFold3, planeFold3, rowFold3]

end Romea.C15Odometer
