import RomeaModel.WrapGrid

/-!
# The odometer induction behind the blanking loop of `WrappableGrid<T,2>::translate` (C15)

`odo` is the shape the translator gives the loop `for (bool done = false; !done;)` of `WrappableGrid.hpp:144-158` for DIM = 2 (the inner
`for (a < DIM)` unrolled): write the cell, increment `cellIndexes[0]` in `size_t`; if it is still below the end of axis 0 go on, otherwise
reset it to the begin of axis 0 and carry into `cellIndexes[1]`; if that reaches its end reset it too and set `done`. It is generic in the
cell-position function `w`, in the value type and in the four range ends, so that the three copies the translator emits
(`translate_2.loop1/2/3`) are instances (`Bridge/C15Loop.lean` proves that by unfolding the generated definitions).

`odo_box`: started at the begin corner `(f0, f1)` of a NON-EMPTY box `[f0, l0) × [f1, l1)` (ends below 2^64) with fuel at least
`(l0 - f0) * (l1 - f1) + 1`, the loop ends (`some`), leaves the indexes at the begin corner with `done = true`, and its buffer is the
fold of `set (w x y) e` over the rows `y = f1 … l1-1`, each row over `x = f0 … l0-1` — the order of the model's `box`.
`box_two` / `foldl_box_two` put the model's `box` of two ranges into that form. Core Lean only.
-/
namespace Romea.C15Odometer
open Romea.WrapGrid

variable {T : Type}

/-- the translated blanking loop, generic in the position function and the ranges (fuel-recursive; `none` = fuel exhausted) -/
def odo (w : Int → Int → Nat) (e : T) (f0 l0 f1 l1 : Int) : Nat → List T → Int → Int → Bool → Option (List T × Int × Int × Bool)
  | 0, _, _, _, _ => none
  | fuel + 1, buf, x0, x1, done =>
    if ¬ (done = true) then
      if (x0 + 1) % 18446744073709551616 < l0 then
        odo w e f0 l0 f1 l1 fuel (buf.set (w x0 x1) e) ((x0 + 1) % 18446744073709551616) x1 false
      else if (x1 + 1) % 18446744073709551616 < l1 then
        odo w e f0 l0 f1 l1 fuel (buf.set (w x0 x1) e) f0 ((x1 + 1) % 18446744073709551616) false
      else
        odo w e f0 l0 f1 l1 fuel (buf.set (w x0 x1) e) f0 f1 true
    else some (buf, x0, x1, done)

/-- blanking of the cells `x0 … x0+k-1` of row `y` -/
def rowFold (w : Int → Int → Nat) (e : T) (y : Nat) (x0 k : Nat) (buf : List T) : List T :=
  (List.range' x0 k).foldl (fun b (x : Nat) => b.set (w (x : Int) (y : Int)) e) buf

/-- blanking of the rows `y0 … y0+j-1`, each over `[f0, f0+k)` -/
def rowsFold (w : Int → Int → Nat) (e : T) (f0 k : Nat) (y0 j : Nat) (buf : List T) : List T :=
  (List.range' y0 j).foldl (fun b (y : Nat) => rowFold w e y f0 k b) buf

theorem odo_done (w : Int → Int → Nat) (e : T) (f0 l0 f1 l1 : Int) (m : Nat) (buf : List T) (x0 x1 : Int) :
    odo w e f0 l0 f1 l1 (m + 1) buf x0 x1 true = some (buf, x0, x1, true) := by
  unfold odo
  simp

theorem odo_step (w : Int → Int → Nat) (e : T) (f0 l0 f1 l1 : Int) (m : Nat) (buf : List T) (x0 x1 : Int) :
    odo w e f0 l0 f1 l1 (m + 1) buf x0 x1 false =
      if (x0 + 1) % 18446744073709551616 < l0 then
        odo w e f0 l0 f1 l1 m (buf.set (w x0 x1) e) ((x0 + 1) % 18446744073709551616) x1 false
      else if (x1 + 1) % 18446744073709551616 < l1 then
        odo w e f0 l0 f1 l1 m (buf.set (w x0 x1) e) f0 ((x1 + 1) % 18446744073709551616) false
      else
        odo w e f0 l0 f1 l1 m (buf.set (w x0 x1) e) f0 f1 true := by
  rw [odo]
  simp only [Bool.false_eq_true, not_false_eq_true, if_true]

private theorem succ_cast (x : Nat) (h : x + 1 < 18446744073709551616) :
    ((x : Int) + 1) % 18446744073709551616 = ((x + 1 : Nat) : Int) := by omega

/-- one row: from `(x0, y)` with `k` cells left in the row the loop writes them and then carries into the next row (or finishes) -/
theorem odo_row (w : Int → Int → Nat) (e : T) (f0 l0 f1 l1 : Nat) (hl0 : l0 < 18446744073709551616) (y : Nat) (k : Nat) :
    ∀ (x0 : Nat) (buf : List T) (m : Nat), x0 + (k + 1) = l0 →
      odo w e f0 l0 f1 l1 (m + (k + 1)) buf x0 y false =
        if ((y : Int) + 1) % 18446744073709551616 < (l1 : Int) then
          odo w e f0 l0 f1 l1 m (rowFold w e y x0 (k + 1) buf) f0 (((y : Int) + 1) % 18446744073709551616) false
        else
          odo w e f0 l0 f1 l1 m (rowFold w e y x0 (k + 1) buf) f0 f1 true := by
  induction k with
  | zero =>
    intro x0 buf m hx
    have hc : ¬ (((x0 : Int) + 1) % 18446744073709551616 < (l0 : Int)) := by omega
    show odo w e f0 l0 f1 l1 (m + 1) buf x0 y false = _
    rw [odo_step, if_neg hc]
    simp only [rowFold, Nat.zero_add, List.range'_one, List.foldl_cons, List.foldl_nil]
  | succ k ih =>
    intro x0 buf m hx
    have hc : ((x0 : Int) + 1) % 18446744073709551616 < (l0 : Int) := by omega
    show odo w e f0 l0 f1 l1 ((m + (k + 1)) + 1) buf x0 y false = _
    rw [odo_step, if_pos hc]
    rw [succ_cast x0 (by omega), ih (x0 + 1) _ m (by omega)]
    have hr : ∀ b : List T, rowFold w e y x0 (k + 1 + 1) b = rowFold w e y (x0 + 1) (k + 1) (b.set (w (x0 : Int) (y : Int)) e) := by
      intro b
      simp only [rowFold]
      rw [List.range'_succ, List.foldl_cons]
    rw [hr]

/-- all rows from `y` on: `j + 1` rows are left, every one starts at `f0` -/
theorem odo_rows (w : Int → Int → Nat) (e : T) (f0 l0 f1 l1 : Nat) (hl0 : l0 < 18446744073709551616)
    (hl1 : l1 < 18446744073709551616) (k : Nat) (hk : f0 + (k + 1) = l0) (j : Nat) :
    ∀ (y : Nat) (buf : List T) (m : Nat), y + (j + 1) = l1 →
      odo w e f0 l0 f1 l1 (m + 1 + (j + 1) * (k + 1)) buf f0 y false =
        some (rowsFold w e f0 (k + 1) y (j + 1) buf, (f0 : Int), (f1 : Int), true) := by
  induction j with
  | zero =>
    intro y buf m hy
    have hc : ¬ (((y : Int) + 1) % 18446744073709551616 < (l1 : Int)) := by omega
    rw [Nat.zero_add, Nat.one_mul, odo_row w e f0 l0 f1 l1 hl0 y k f0 buf (m + 1) hk, if_neg hc, odo_done]
    simp only [rowsFold, List.range'_one, List.foldl_cons, List.foldl_nil]
  | succ j ih =>
    intro y buf m hy
    have hc : ((y : Int) + 1) % 18446744073709551616 < (l1 : Int) := by omega
    have hfuel : m + 1 + (j + 1 + 1) * (k + 1) = (m + 1 + (j + 1) * (k + 1)) + (k + 1) := by
      rw [Nat.succ_mul (j + 1) (k + 1)]; omega
    rw [hfuel, odo_row w e f0 l0 f1 l1 hl0 y k f0 buf _ hk, if_pos hc, succ_cast y (by omega), ih (y + 1) _ m (by omega)]
    have hr : rowsFold w e f0 (k + 1) y (j + 1 + 1) buf = rowsFold w e f0 (k + 1) (y + 1) (j + 1) (rowFold w e y f0 (k + 1) buf) := by
      simp only [rowsFold]
      rw [List.range'_succ, List.foldl_cons]
    rw [hr]

/-- **The odometer induction.** On a non-empty box `[f0, l0) × [f1, l1)` with ends below 2^64, started at its begin corner with
    `done = false` and fuel at least (number of cells of the box) + 1, the translated loop returns `some`: the buffer with exactly the
    box's cells written (row by row, axis 0 fastest), the indexes back at the begin corner, `done = true` -/
theorem odo_box (w : Int → Int → Nat) (e : T) (f0 l0 f1 l1 : Nat) (hl0 : l0 < 18446744073709551616)
    (hl1 : l1 < 18446744073709551616) (h0 : f0 < l0) (h1 : f1 < l1) (buf : List T) (fuel : Nat)
    (hfuel : (l1 - f1) * (l0 - f0) + 1 ≤ fuel) :
    odo w e f0 l0 f1 l1 fuel buf f0 f1 false =
      some (rowsFold w e f0 (l0 - f0) f1 (l1 - f1) buf, (f0 : Int), (f1 : Int), true) := by
  obtain ⟨k, hk⟩ : ∃ k, l0 - f0 = k + 1 := ⟨l0 - f0 - 1, by omega⟩
  obtain ⟨j, hj⟩ : ∃ j, l1 - f1 = j + 1 := ⟨l1 - f1 - 1, by omega⟩
  rw [hk, hj] at hfuel ⊢
  obtain ⟨m, hm⟩ : ∃ m, fuel = m + 1 + (j + 1) * (k + 1) := ⟨fuel - 1 - (j + 1) * (k + 1), by omega⟩
  rw [hm]
  exact odo_rows w e f0 l0 f1 l1 hl0 hl1 k (by omega) j f1 buf m (by omega)

/-! ### the model's `box` of two ranges in the same form -/

theorem box_two (f0 l0 f1 l1 : Nat) :
    box [(f0, l0), (f1, l1)] =
      (List.range' f1 (l1 - f1)).flatMap (fun y => (List.range' f0 (l0 - f0)).map (fun x => [x, y])) := by
  simp only [box, List.flatMap_cons, List.flatMap_nil, List.append_nil, List.flatMap_map]

/-- a fold with a position function that agrees on the members of the list -/
theorem foldl_set_congr {α : Type} (p q : α → Nat) (e : T) (l : List α) (h : ∀ a ∈ l, p a = q a) (buf : List T) :
    l.foldl (fun b a => b.set (p a) e) buf = l.foldl (fun b a => b.set (q a) e) buf := by
  induction l generalizing buf with
  | nil => rfl
  | cons a l ih =>
    rw [List.foldl_cons, List.foldl_cons, h a (by simp), ih (fun b hb => h b (by simp [hb]))]

/-- the model's blanking fold over a two-axis box is the row-by-row fold of `odo_box`, for every position function `w` that agrees with
    the model's `pos` on the cells of the box -/
theorem foldl_box_two (pos : List Nat → Nat) (w : Int → Int → Nat) (e : T) (f0 l0 f1 l1 : Nat)
    (hw : ∀ x y : Nat, f0 ≤ x → x < l0 → f1 ≤ y → y < l1 → w (x : Int) (y : Int) = pos [x, y]) (buf : List T) :
    (box [(f0, l0), (f1, l1)]).foldl (fun b c => b.set (pos c) e) buf = rowsFold w e f0 (l0 - f0) f1 (l1 - f1) buf := by
  rw [box_two, List.foldl_flatMap]
  simp only [rowsFold, rowFold, List.foldl_map]
  have hrow : ∀ y : Nat, f1 ≤ y → y < l1 → ∀ b : List T,
      (List.range' f0 (l0 - f0)).foldl (fun b (x : Nat) => b.set (pos [x, y]) e) b =
        (List.range' f0 (l0 - f0)).foldl (fun b (x : Nat) => b.set (w (x : Int) (y : Int)) e) b := by
    intro y hy1 hy2 b
    apply foldl_set_congr
    intro x hx
    rw [List.mem_range'_1] at hx
    exact (hw x y hx.1 (by omega) hy1 hy2).symm
  have hys : ∀ (ys : List Nat), (∀ y ∈ ys, f1 ≤ y ∧ y < l1) → ∀ b : List T,
      ys.foldl (fun acc (y : Nat) => (List.range' f0 (l0 - f0)).foldl (fun b (x : Nat) => b.set (pos [x, y]) e) acc) b =
        ys.foldl (fun acc (y : Nat) => (List.range' f0 (l0 - f0)).foldl (fun b (x : Nat) => b.set (w (x : Int) (y : Int)) e) acc) b := by
    intro ys
    induction ys with
    | nil => intro _ _; rfl
    | cons y ys ih =>
      intro hm b
      rw [List.foldl_cons, List.foldl_cons, hrow y (hm y (by simp)).1 (hm y (by simp)).2,
        ih (fun z hz => hm z (by simp [hz]))]
  apply hys
  intro y hy
  rw [List.mem_range'_1] at hy
  exact ⟨hy.1, by omega⟩

end Romea.C15Odometer
