import RomeaModel.LinReport
import RomeaModel.Generated.LockTable
import RomeaModel.Generated.SrcC18
import RomeaProofs.Lemmas.C19Lin
import RomeaProofs.Lemmas.C19Report

/-!
# Check-up reports: a data flow on TODAY's event lists whose written words are computed by the functions TRANSLATED from
today's source (helper definitions and lemmas for `Properties/C19Reports.lean`)

* `Word α`: the word type — one word per scalar LEAF of the translation (`Generated/SrcC18.lean`): a scalar member
  (`num`), the underlying value of the enum `DiagnosticStatus` (`int`), a `std::string` (`str`).
* `repWords`: a report is FOUR words — 0 `diagnostics.front().status`, 1 `diagnostics.front().message`,
  2 `info.begin()->second` (the printed value), 3 `info.begin()->first` (the quantity's name, read by `setDiagnostic_`).
* `RepLayout`, `srcFlow`: the flow for a class of the regenerated table.  The event lists say WHERE the report member is
  touched, not which of its leaves each event writes, and the translation says what the call leaves in every leaf, not
  which statement does it.  `srcFlow` is the flow that is determined by both and by nothing else: every `wr` event
  stores back the words it has just read, except the LAST `wr` event of the report member in `evaluate` (`timeout`),
  which stores the words of the translated function applied to the scalars read by the last reads of the two threshold
  members before it and to the name word it has just read.  Positions are COMPUTED from the regenerated lists
  (`lastIdxOf`), so the flow follows the table.
* `runCall_commit`: the sequential meaning of such a flow on ANY event list.
-/
namespace Romea.Lin
open Romea.Lockset

/-! ### generic: event lists on which all write events but one store back what they read -/

section Generic
variable {V A R : Type}

/-- the micro-steps of a run of events starting at position `i` (`ofEventsFrom` without the final `ret`) -/
def segSteps (W : Nat) (fl : Flow V A R) : Nat → List Ev → List (Step V A R)
  | _, [] => []
  | i, e :: r => evSteps W fl i e ++ segSteps W fl (i + 1) r

theorem ofEventsFrom_append (W : Nat) (fl : Flow V A R) (i : Nat) (a b : List Ev) :
    ofEventsFrom W fl i (a ++ b) = segSteps W fl i a ++ ofEventsFrom W fl (i + a.length) b := by
  induction a generalizing i with
  | nil => simp [segSteps]
  | cons e r ih =>
    simp only [List.cons_append, ofEventsFrom, segSteps, ih, List.append_assoc, List.length_cons]
    congr 3
    omega

/-- the member an event copies word by word -/
def evField : Ev → Option Nat
  | .rd f => some f
  | .wr f => some f
  | .atomic f => some f
  | .escape f => some f
  | _ => none

/-- the locals after an event at position `i` that changed nothing in the store -/
def afterEv (W i : Nat) (e : Ev) (σ : Store V) (l : Locals V) : Locals V :=
  match evField e with
  | some g => fun x => if x.1 = i ∧ x.2 < W then σ (g, x.2) else l x
  | none => l

theorem exec_event_noop (W : Nat) (fl : Flow V A R) (a : A) (i : Nat) (e : Ev)
    (hno : ∀ j l, fl.wr i j l a = l (i, j)) (σ : Store V) (l : Locals V) (r : Option R) :
    execSteps a (σ, l, r) (evSteps W fl i e) = (σ, afterEv W i e σ l, r) := by
  have hw : ∀ f, execSteps a (σ, l, r) (rdWords W f i ++ wrWords W f (fl.wr i) : List (Step V A R)) =
      (σ, (fun x => if x.1 = i ∧ x.2 < W then σ (f, x.2) else l x), r) := by
    intro f
    rw [execSteps_append, exec_rdWords, exec_wrWords]
    congr 1
    funext ad
    obtain ⟨a1, a2⟩ := ad
    by_cases h : a1 = f ∧ a2 < W
    · obtain ⟨rfl, h2⟩ := h
      simp [hno, h2]
    · simp [h]
  cases e with
  | acq m => simp [evSteps, execStep, afterEv, evField]
  | rel m => simp [evSteps, execStep, afterEv, evField]
  | rd f => simp [evSteps, exec_rdWords, afterEv, evField]
  | wr f => simp only [evSteps, afterEv, evField]; exact hw f
  | atomic f => simp only [evSteps, afterEv, evField]; exact hw f
  | escape f => simp [evSteps, exec_rdWords, afterEv, evField]

theorem afterEv_other (W i : Nat) (e : Ev) (σ : Store V) (l : Locals V) (x : Var) (h : x.1 ≠ i) :
    afterEv W i e σ l x = l x := by
  unfold afterEv
  cases evField e with
  | none => rfl
  | some g => simp [h]

/-- a run of events none of which changes the store: the store is unchanged, the locals of the other positions are
    unchanged, and the locals of every position in the run hold the words of the member its event copies -/
theorem exec_seg_noop (W : Nat) (fl : Flow V A R) (a : A) (evs : List Ev) (i0 : Nat)
    (hno : ∀ i, i0 ≤ i → i < i0 + evs.length → ∀ j l, fl.wr i j l a = l (i, j))
    (σ : Store V) (l : Locals V) (r : Option R) :
    ∃ l', execSteps a (σ, l, r) (segSteps W fl i0 evs) = (σ, l', r) ∧
      (∀ x : Var, x.1 < i0 → l' x = l x) ∧ (∀ x : Var, i0 + evs.length ≤ x.1 → l' x = l x) ∧
      (∀ k g, (evs[k]?).bind evField = some g → ∀ j, j < W → l' (i0 + k, j) = σ (g, j)) := by
  induction evs generalizing i0 l with
  | nil => exact ⟨l, by simp [segSteps], fun _ _ => rfl, fun _ _ => rfl, by simp⟩
  | cons e rest ih =>
    have h0 := exec_event_noop W fl a i0 e (hno i0 (Nat.le_refl _) (by simp)) σ l r
    obtain ⟨l', hl', hlt, hge, hk⟩ := ih (i0 + 1)
      (fun i h1 h2 => hno i (by omega) (by simp only [List.length_cons]; omega)) (afterEv W i0 e σ l)
    refine ⟨l', ?_, ?_, ?_, ?_⟩
    · simp only [segSteps, execSteps_append, h0, hl']
    · intro x hx
      rw [hlt x (by omega), afterEv_other W i0 e σ l x (by omega)]
    · intro x hx
      simp only [List.length_cons] at hx
      rw [hge x (by omega), afterEv_other W i0 e σ l x (by omega)]
    · intro k g hg j hj
      cases k with
      | zero =>
        simp only [List.getElem?_cons_zero, Option.bind_some] at hg
        rw [Nat.add_zero, hlt (i0, j) (by simp)]
        simp [afterEv, hg, hj]
      | succ k =>
        simp only [List.getElem?_cons_succ] at hg
        have := hk k g hg j hj
        rw [show i0 + (k + 1) = i0 + 1 + k by omega]
        exact this

variable [Inhabited V]

/-- **sequential meaning of a flow that commits at ONE write event.**  `evs` any event list whose event at position
    `pc` is a write of member `f`; `fl` a flow in which, for the argument `a`, every other write event stores back the
    words it has read.  Run alone from `σ`, the call leaves `σ` with the `W` words of `f` replaced by what the flow
    computes at `pc` from locals `l2` that hold, at every earlier position, the words of the member that position's
    event copies (as they are in `σ`) and at `pc` the words of `f`; the result is computed from locals that agree with
    `l2` up to `pc`. -/
theorem runCall_commit (W f pc : Nat) (fl : Flow V A R) (a : A) (evs : List Ev)
    (hpc : evs[pc]? = some (.wr f))
    (hno : ∀ i, i ≠ pc → ∀ j l, fl.wr i j l a = l (i, j)) (σ : Store V) :
    ∃ l2 l3 : Locals V,
      (∀ k g, k < pc → (evs[k]?).bind evField = some g → ∀ j, j < W → l2 (k, j) = σ (g, j)) ∧
      (∀ j, j < W → l2 (pc, j) = σ (f, j)) ∧
      (∀ x : Var, x.1 ≤ pc → l3 x = l2 x) ∧
      runCall σ ⟨ofEvents W fl evs, a⟩ =
        ((fun ad => if ad.1 = f ∧ ad.2 < W then fl.wr pc ad.2 l2 a else σ ad), some (fl.ret l3 a)) := by
  obtain ⟨hlt, hget⟩ := List.getElem?_eq_some_iff.mp hpc
  have hsplit : evs = evs.take pc ++ Ev.wr f :: evs.drop (pc + 1) := by
    rw [← hget, List.getElem_cons_drop, List.take_append_drop]
  have hlen : (evs.take pc).length = pc := by simp; omega
  -- the events before `pc`
  obtain ⟨l1, hl1, _, _, hk1⟩ := exec_seg_noop W fl a (evs.take pc) 0
    (fun i _ h2 => hno i (by omega)) σ (emptyLoc : Locals V) (none : Option R)
  -- the events after `pc`
  obtain ⟨l3, hl3, hlt3, _, _⟩ := exec_seg_noop W fl a (evs.drop (pc + 1)) (pc + 1)
    (fun i h1 _ => hno i (by omega))
    (fun ad => if ad.1 = f ∧ ad.2 < W then
      fl.wr pc ad.2 (fun x => if x.1 = pc ∧ x.2 < W then σ (f, x.2) else l1 x) a else σ ad)
    (fun x => if x.1 = pc ∧ x.2 < W then σ (f, x.2) else l1 x) (none : Option R)
  refine ⟨fun x => if x.1 = pc ∧ x.2 < W then σ (f, x.2) else l1 x, l3, ?_, ?_, ?_, ?_⟩
  · intro k g hk hg j hj
    have hne : ¬ (k = pc ∧ j < W) := fun h => by omega
    simp only [hne, if_false]
    have := hk1 k g (by rw [List.getElem?_take_of_lt hk]; exact hg) j hj
    simpa using this
  · intro j hj; simp [hj]
  · intro x hx; exact hlt3 x (by omega)
  · have hbody : ofEvents W fl evs = segSteps W fl 0 (evs.take pc) ++
        ((rdWords W f pc ++ wrWords W f (fl.wr pc)) ++
          (segSteps W fl (pc + 1) (evs.drop (pc + 1)) ++ [Step.ret fl.ret])) := by
      have h2 : ofEventsFrom W fl (pc + 1) (evs.drop (pc + 1)) =
          segSteps W fl (pc + 1) (evs.drop (pc + 1)) ++ [Step.ret fl.ret] := by
        have := ofEventsFrom_append W fl (pc + 1) (evs.drop (pc + 1)) []
        simpa [ofEventsFrom] using this
      unfold ofEvents
      rw [congrArg (ofEventsFrom W fl 0) hsplit, ofEventsFrom_append, hlen, Nat.zero_add]
      simp only [ofEventsFrom, evSteps, h2]
    simp only [runCall, hbody, execSteps_append, hl1, exec_rdWords, exec_wrWords, hl3, execSteps_cons, execSteps_nil,
      execStep]

/-- a method whose event list is not empty is a method of the class -/
theorem any_of_evsOf_ne_nil (c : Class) (n : String) (h : c.evsOf n ≠ []) :
    (c.methods.any fun m => m.name == n) = true := by
  unfold Class.evsOf at h
  cases hf : (c.methods.filter fun m => m.name == n) with
  | nil => rw [hf] at h; simp at h
  | cons m r =>
    have : m ∈ (c.methods.filter fun m => m.name == n) := by rw [hf]; simp
    obtain ⟨h1, h2⟩ := List.mem_filter.mp this
    exact List.any_eq_true.mpr ⟨m, h1, h2⟩

end Generic

/-! ### the words of a check-up object and the flow computed by the translated functions -/

/-- one word per scalar leaf of the translation: a scalar member, an enum value, a string -/
inductive Word (α : Type)
  | num (x : α)
  | int (i : Int)
  | str (s : String)
  deriving DecidableEq, Repr

instance {α : Type} : Inhabited (Word α) := ⟨.int 0⟩

/-- the scalar a word holds (`default` if it holds something else) -/
def Word.numD {α : Type} [Inhabited α] : Word α → α
  | .num x => x
  | _ => default

/-- the string a word holds (`""` if it holds something else) -/
def Word.strD {α : Type} : Word α → String
  | .str s => s
  | _ => ""

/-- the four words of a report whose info key is `name` and whose (message, status, info value) are `m` — the order of
    the leaves the translated `evaluate` / `timeout` write.  Injective in `(name, m)`. -/
def repWords {α : Type} (name : String) (m : String × Int × String) : List (Word α) :=
  [.int m.2.1, .str m.1, .str m.2.2, .str name]

theorem repWords_injective {α : Type} (n n' : String) (m m' : String × Int × String)
    (h : (repWords n m : List (Word α)) = repWords n' m') : n = n' ∧ m = m' := by
  obtain ⟨a, b, c⟩ := m
  obtain ⟨a', b', c'⟩ := m'
  simp only [repWords, List.cons.injEq, Word.int.injEq, Word.str.injEq, and_true] at h
  obtain ⟨h1, h2, h3, h4⟩ := h
  subst h1 h2 h3 h4
  exact ⟨rfl, rfl⟩

theorem pad_repWords {α : Type} (name : String) (m : String × Int × String) :
    pad 4 (repWords name m : List (Word α)) = repWords name m := by
  simp [pad, repWords, List.range_succ]

/-- index of the last occurrence of `e` (0 if there is none: the checks below then fail) -/
def lastIdxOf (e : Ev) : List Ev → Nat
  | [] => 0
  | _ :: r => if r.contains e then lastIdxOf e r + 1 else 0

/-- where a check-up class of the lock table keeps its report (`f`) and the two scalar members `evaluate` reads
    (`f1`, `f2`), by the field numbers of the regenerated table -/
structure RepLayout where
  c : Class
  f : Nat
  f1 : Nat
  f2 : Nat

namespace RepLayout
def evE (L : RepLayout) : List Ev := L.c.evsOf "evaluate"
def evT (L : RepLayout) : List Ev := L.c.evsOf "timeout"
/-- position of the last write event of the report in `evaluate` -/
def pe (L : RepLayout) : Nat := lastIdxOf (.wr L.f) L.evE
/-- positions of the last reads of the two scalar members before it -/
def p1 (L : RepLayout) : Nat := lastIdxOf (.rd L.f1) (L.evE.take L.pe)
def p2 (L : RepLayout) : Nat := lastIdxOf (.rd L.f2) (L.evE.take L.pe)
/-- position of the last write event of the report in `timeout` -/
def pt (L : RepLayout) : Nat := lastIdxOf (.wr L.f) L.evT

/-- today's `evaluate` has the events the flow needs: a write event of the report preceded by a read of each of the
    two scalar members (decidable: re-checked on the regenerated table) -/
def okE (L : RepLayout) : Bool :=
  L.evE[L.pe]? == some (.wr L.f) && L.evE[L.p1]? == some (.rd L.f1) && L.evE[L.p2]? == some (.rd L.f2) &&
  decide (L.p1 < L.pe) && decide (L.p2 < L.pe) && decide (L.f1 ≠ L.f) && decide (L.f2 ≠ L.f)

/-- today's `timeout` has a write event of the report -/
def okT (L : RepLayout) : Bool :=
  L.evT[L.pt]? == some (.wr L.f) && decide (L.f1 ≠ L.f) && decide (L.f2 ≠ L.f)
end RepLayout

section Src
variable {α : Type} [Inhabited α]

/-- **the data flow computed by the translated functions** on the event lists of the class `L.c`.  `G a b name x` is the
    translated `evaluate` (returned status, stored message, stored status, stored info string) as a function of the
    scalars held by the members `f1`, `f2`, of the info key and of the argument; `timeout` is
    `Romea.Src.C18.Checkup.timeout`. -/
def srcFlow (L : RepLayout) (G : α → α → String → α → Int × String × Int × String) :
    Flow (Word α) (RepOp α) (List (Word α)) where
  wr := fun i j l a => match a with
    | .evaluate x =>
      if i = L.pe then
        (repWords (l (L.pe, 3)).strD (G (l (L.p1, 0)).numD (l (L.p2, 0)).numD (l (L.pe, 3)).strD x).2).getD j (l (i, j))
      else l (i, j)
    | .timeout =>
      if i = L.pt then (repWords (l (L.pt, 3)).strD (Romea.Src.C18.Checkup.timeout (l (L.pt, 3)).strD)).getD j (l (i, j))
      else l (i, j)
    | .getReport => l (i, j)
  ret := fun l a => match a with
    | .evaluate x => [.int (G (l (L.p1, 0)).numD (l (L.p2, 0)).numD (l (L.pe, 3)).strD x).1]
    | .timeout => []
    | .getReport => locVec 4 1 l

/-- the stable side condition: the two scalar members hold `a`, `b`, the info key is `name` -/
def repK (L : RepLayout) (a b : α) (name : String) (σ : Store (Word α)) : Prop :=
  σ (L.f1, 0) = .num a ∧ σ (L.f2, 0) = .num b ∧ σ (L.f, 3) = .str name

/-- the report words one writer call leaves (`none` = `timeout()`) -/
def srcTriple (G : α → α → String → α → Int × String × Int × String) (a b : α) (name : String) : Option α → List (Word α)
  | some x => repWords name (G a b name x).2
  | none => repWords name (Romea.Src.C18.Checkup.timeout name)

theorem okE_spec (L : RepLayout) (h : L.okE = true) :
    L.evE[L.pe]? = some (.wr L.f) ∧ L.evE[L.p1]? = some (.rd L.f1) ∧ L.evE[L.p2]? = some (.rd L.f2) ∧
    L.p1 < L.pe ∧ L.p2 < L.pe ∧ L.f1 ≠ L.f ∧ L.f2 ≠ L.f := by
  simpa [RepLayout.okE, and_assoc] using h

theorem okT_spec (L : RepLayout) (h : L.okT = true) :
    L.evT[L.pt]? = some (.wr L.f) ∧ L.f1 ≠ L.f ∧ L.f2 ≠ L.f := by
  simpa [RepLayout.okT, and_assoc] using h

/-- **sequential contract, `evaluate`**: run alone from a store satisfying `repK`, `evaluate(x)` on today's event list
    with the flow `srcFlow` keeps `repK`, leaves in the report exactly the words of the translated function's stored
    (message, status, info) for `x`, and returns the translated function's returned status -/
theorem srcFlow_evaluate (L : RepLayout) (G : α → α → String → α → Int × String × Int × String) (hE : L.okE = true)
    (a b : α) (name : String) (x : α) (σ : Store (Word α)) (hK : repK L a b name σ) :
    repK L a b name (runCall σ (repCall L.c 4 (srcFlow L G) (.evaluate x))).1 ∧
    vecOf 4 L.f (runCall σ (repCall L.c 4 (srcFlow L G) (.evaluate x))).1 = repWords name (G a b name x).2 ∧
    (runCall σ (repCall L.c 4 (srcFlow L G) (.evaluate x))).2 = some [.int (G a b name x).1] := by
  obtain ⟨h1, h2, h3, h4, h5, h6, h7⟩ := okE_spec L hE
  obtain ⟨k1, k2, k3⟩ := hK
  obtain ⟨l2, l3, hl2, hl2f, hl3, hrun⟩ := runCall_commit 4 L.f L.pe (srcFlow L G) (RepOp.evaluate x) L.evE h1
    (by intro i hi j l; simp [srcFlow, hi]) σ
  have e1 : l2 (L.p1, 0) = .num a := by
    rw [hl2 L.p1 L.f1 h4 (by rw [h2]; rfl) 0 (by omega), k1]
  have e2 : l2 (L.p2, 0) = .num b := by
    rw [hl2 L.p2 L.f2 h5 (by rw [h3]; rfl) 0 (by omega), k2]
  have e3 : l2 (L.pe, 3) = .str name := by rw [hl2f 3 (by omega), k3]
  have hcall : repCall L.c 4 (srcFlow L G) (.evaluate x) = ⟨ofEvents 4 (srcFlow L G) L.evE, .evaluate x⟩ := rfl
  rw [hcall, hrun]
  refine ⟨⟨?_, ?_, ?_⟩, ?_, ?_⟩
  · simp [h6, k1]
  · simp [h7, k2]
  · simp [srcFlow, e3, repWords, Word.strD]
  · simp [vecOf, List.range_succ, srcFlow, e1, e2, e3, repWords, Word.numD, Word.strD]
  · simp only [srcFlow, hl3 (L.p1, 0) (by simp; omega), hl3 (L.p2, 0) (by simp; omega), hl3 (L.pe, 3) (by simp), e1, e2, e3,
      Word.numD, Word.strD]

/-- **sequential contract, `timeout`** -/
theorem srcFlow_timeout (L : RepLayout) (G : α → α → String → α → Int × String × Int × String) (hT : L.okT = true)
    (a b : α) (name : String) (σ : Store (Word α)) (hK : repK L a b name σ) :
    repK L a b name (runCall σ (repCall L.c 4 (srcFlow L G) .timeout)).1 ∧
    vecOf 4 L.f (runCall σ (repCall L.c 4 (srcFlow L G) .timeout)).1 =
      repWords name (Romea.Src.C18.Checkup.timeout name) := by
  obtain ⟨h1, h6, h7⟩ := okT_spec L hT
  obtain ⟨k1, k2, k3⟩ := hK
  obtain ⟨l2, l3, _, hl2f, _, hrun⟩ := runCall_commit 4 L.f L.pt (srcFlow L G) (RepOp.timeout : RepOp α) L.evT h1
    (by intro i hi j l; simp [srcFlow, hi]) σ
  have e3 : l2 (L.pt, 3) = .str name := by rw [hl2f 3 (by omega), k3]
  have hcall : repCall L.c 4 (srcFlow L G) .timeout = ⟨ofEvents 4 (srcFlow L G) L.evT, .timeout⟩ := rfl
  rw [hcall, hrun]
  refine ⟨⟨?_, ?_, ?_⟩, ?_⟩
  · simp [h6, k1]
  · simp [h7, k2]
  · simp [srcFlow, e3, repWords, Word.strD]
  · simp [vecOf, List.range_succ, srcFlow, e3, repWords, Word.strD]

end Src

end Romea.Lin
