import RomeaModel.Lambert
import RomeaProofs.RealInst
import Mathlib.Analysis.SpecialFunctions.Trigonometric.Deriv
import Mathlib.Analysis.SpecialFunctions.Log.Deriv
import Mathlib.Analysis.SpecialFunctions.Pow.Deriv
import Mathlib.Analysis.SpecialFunctions.Trigonometric.ArctanDeriv
import Mathlib.Analysis.Calculus.Deriv.MeanValue
import Mathlib.Tactic.Linarith
import Mathlib.Tactic.FieldSimp
import Mathlib.Tactic.Ring
import Mathlib.Tactic.Positivity

/-!
# C03 helper lemmas: the Lambert model instantiated at `ℝ`

Closed forms of the model functions at `ℝ` (every libm call is the mathematical function, Mathlib's
totalised operations) and the real-analysis facts used by `RomeaProofs/Properties/C03.lean`.
Every lemma carries the guards of the partial operations on its path as explicit hypotheses.
-/
namespace Romea.Lambert
open Real

/-- latitude strictly between the poles -/
def InDom (φ : ℝ) : Prop := -(π / 2) < φ ∧ φ < π / 2

/-- eccentricity of an ellipse -/
def EccOK (e : ℝ) : Prop := 0 ≤ e ∧ e < 1

@[simp] theorem two_real : (two : ℝ) = 2 := by simp [two]
@[simp] theorem one_real : (one : ℝ) = 1 := by simp [one]

theorem isoLat_real (φ e : ℝ) :
    isoLat φ e = log (tan (π / 4 + φ / 2) * ((1 - e * sin φ) / (1 + e * sin φ)) ^ (e / 2)) := by
  simp [isoLat]

theorem latStep_real (iso e φ : ℝ) :
    latStep iso e φ = 2 * arctan (((1 + e * sin φ) / (1 - e * sin φ)) ^ (e / 2) * exp iso) - π / 2 := by
  simp [latStep]

theorem latInit_real (iso : ℝ) : latInit iso = 2 * arctan (exp iso) - π / 2 := by simp [latInit]

theorem grandeNormale_real (φ a e : ℝ) :
    grandeNormale φ a e = a / sqrt (1 - (e * sin φ) * (e * sin φ)) := by simp [grandeNormale]

theorem toLambert_real (cv : Conv ℝ) (φ lam : ℝ) :
    toLambert cv φ lam =
      (cv.xs + cv.c * exp (-cv.n * isoLat φ cv.e) * sin (cv.n * (lam - cv.lon0)),
       cv.ys - cv.c * exp (-cv.n * isoLat φ cv.e) * cos (cv.n * (lam - cv.lon0))) := by
  simp [toLambert]

theorem invIsoLat_real (cv : Conv ℝ) (x y : ℝ) :
    invIsoLat cv x y =
      -log (sqrt ((x - cv.xs) * (x - cv.xs) + (y - cv.ys) * (y - cv.ys)) / |cv.c|) / cv.n := by
  simp [invIsoLat]

theorem invLon_real (cv : Conv ℝ) (x y : ℝ) :
    invLon cv x y = cv.lon0 + arctan ((x - cv.xs) / (cv.ys - y)) / cv.n := by simp [invLon]

/-! ## elementary bounds -/

theorem esin_abs_lt_one {e : ℝ} (he : EccOK e) (φ : ℝ) : |e * sin φ| < 1 := by
  rw [abs_mul, abs_of_nonneg he.1]
  calc e * |sin φ| ≤ e * 1 := mul_le_mul_of_nonneg_left (abs_sin_le_one φ) he.1
    _ < 1 := by linarith [he.2]

theorem one_add_esin_pos {e : ℝ} (he : EccOK e) (φ : ℝ) : 0 < 1 + e * sin φ := by
  have := abs_lt.mp (esin_abs_lt_one he φ); linarith [this.1]

theorem one_sub_esin_pos {e : ℝ} (he : EccOK e) (φ : ℝ) : 0 < 1 - e * sin φ := by
  have := abs_lt.mp (esin_abs_lt_one he φ); linarith [this.2]

theorem one_sub_esin_sq_pos {e : ℝ} (he : EccOK e) (φ : ℝ) : 0 < 1 - (e * sin φ) * (e * sin φ) := by
  have h1 := one_add_esin_pos he φ
  have h2 := one_sub_esin_pos he φ
  have : 1 - (e * sin φ) * (e * sin φ) = (1 + e * sin φ) * (1 - e * sin φ) := by ring
  rw [this]; positivity

theorem ratio_pos {e : ℝ} (he : EccOK e) (φ : ℝ) : 0 < (1 - e * sin φ) / (1 + e * sin φ) :=
  div_pos (one_sub_esin_pos he φ) (one_add_esin_pos he φ)

theorem ratio_inv_pos {e : ℝ} (he : EccOK e) (φ : ℝ) : 0 < (1 + e * sin φ) / (1 - e * sin φ) :=
  div_pos (one_add_esin_pos he φ) (one_sub_esin_pos he φ)

theorem cos_pos_of_inDom {φ : ℝ} (h : InDom φ) : 0 < cos φ := cos_pos_of_mem_Ioo ⟨h.1, h.2⟩

theorem half_angle_mem {φ : ℝ} (h : InDom φ) : 0 < π / 4 + φ / 2 ∧ π / 4 + φ / 2 < π / 2 := by
  constructor <;> linarith [h.1, h.2]

theorem tan_half_pos {φ : ℝ} (h : InDom φ) : 0 < tan (π / 4 + φ / 2) :=
  tan_pos_of_pos_of_lt_pi_div_two (half_angle_mem h).1 (half_angle_mem h).2

theorem cos_half_pos {φ : ℝ} (h : InDom φ) : 0 < cos (π / 4 + φ / 2) :=
  cos_pos_of_mem_Ioo ⟨by linarith [(half_angle_mem h).1, pi_pos], (half_angle_mem h).2⟩

theorem grandeNormale_pos {φ a e : ℝ} (ha : 0 < a) (he : EccOK e) : 0 < grandeNormale φ a e := by
  rw [grandeNormale_real]
  exact div_pos ha (sqrt_pos.mpr (one_sub_esin_sq_pos he φ))

/-! ## the latitude is a fixed point of the loop body -/

theorem latStep_isoLat {φ e : ℝ} (h : InDom φ) (he : EccOK e) : latStep (isoLat φ e) e φ = φ := by
  rw [latStep_real, isoLat_real]
  have hr := ratio_pos he φ
  have hri := ratio_inv_pos he φ
  have ht := tan_half_pos h
  rw [exp_log (mul_pos ht (rpow_pos_of_pos hr _))]
  have hprod : ((1 + e * sin φ) / (1 - e * sin φ)) ^ (e / 2) * ((1 - e * sin φ) / (1 + e * sin φ)) ^ (e / 2) = 1 := by
    rw [← mul_rpow hri.le hr.le]
    have h1 := (one_add_esin_pos he φ).ne'
    have h2 := (one_sub_esin_pos he φ).ne'
    have : (1 + e * sin φ) / (1 - e * sin φ) * ((1 - e * sin φ) / (1 + e * sin φ)) = 1 := by
      field_simp
    rw [this, one_rpow]
  have : ((1 + e * sin φ) / (1 - e * sin φ)) ^ (e / 2) *
      (tan (π / 4 + φ / 2) * ((1 - e * sin φ) / (1 + e * sin φ)) ^ (e / 2)) = tan (π / 4 + φ / 2) := by
    calc _ = tan (π / 4 + φ / 2) * (((1 + e * sin φ) / (1 - e * sin φ)) ^ (e / 2) *
              ((1 - e * sin φ) / (1 + e * sin φ)) ^ (e / 2)) := by ring
      _ = _ := by rw [hprod, mul_one]
  rw [this, arctan_tan (by linarith [(half_angle_mem h).1, pi_pos]) (half_angle_mem h).2]
  ring

/-! ## derivative of the isometric latitude -/

/-- `L(φ) = log tan(π/4 + φ/2) + (e/2) (log(1 - e sin φ) - log(1 + e sin φ))` between the poles -/
theorem isoLat_split {φ e : ℝ} (h : InDom φ) (he : EccOK e) :
    isoLat φ e = log (tan (π / 4 + φ / 2)) + e / 2 * (log (1 - e * sin φ) - log (1 + e * sin φ)) := by
  rw [isoLat_real, log_mul (tan_half_pos h).ne' (rpow_pos_of_pos (ratio_pos he φ) _).ne',
    log_rpow (ratio_pos he φ), log_div (one_sub_esin_pos he φ).ne' (one_add_esin_pos he φ).ne']

theorem tan_half_deriv_simp {φ : ℝ} (h : InDom φ) :
    (1 / cos (π / 4 + φ / 2) ^ 2 * (1 / 2)) / tan (π / 4 + φ / 2) = 1 / cos φ := by
  have hc := (cos_half_pos h).ne'
  have hs : sin (π / 4 + φ / 2) ≠ 0 := by
    have := tan_half_pos h
    rw [tan_eq_sin_div_cos] at this
    intro h0; rw [h0, zero_div] at this; exact lt_irrefl _ this
  have hcos : cos φ = 2 * sin (π / 4 + φ / 2) * cos (π / 4 + φ / 2) := by
    rw [← sin_two_mul]
    have : 2 * (π / 4 + φ / 2) = φ + π / 2 := by ring
    rw [this, sin_add_pi_div_two]
  rw [tan_eq_sin_div_cos, hcos]
  field_simp

theorem hasDerivAt_isoLat {φ e : ℝ} (h : InDom φ) (he : EccOK e) :
    HasDerivAt (fun x => isoLat x e) ((1 - e ^ 2) / ((1 - e ^ 2 * sin φ ^ 2) * cos φ)) φ := by
  have hu : HasDerivAt (fun x : ℝ => π / 4 + x / 2) (1 / 2) φ := by
    simpa using ((hasDerivAt_id φ).div_const 2).const_add (π / 4)
  have h1 : HasDerivAt (fun x => log (tan (π / 4 + x / 2)))
      ((1 / cos (π / 4 + φ / 2) ^ 2 * (1 / 2)) / tan (π / 4 + φ / 2)) φ := by
    have ht0 : HasDerivAt tan (1 / cos (π / 4 + φ / 2) ^ 2) ((fun x : ℝ => π / 4 + x / 2) φ) :=
      hasDerivAt_tan (cos_half_pos h).ne'
    have ht1 := ht0.comp φ hu
    have ht : HasDerivAt (fun x => tan (π / 4 + x / 2)) (1 / cos (π / 4 + φ / 2) ^ 2 * (1 / 2)) φ := ht1
    exact ht.log (tan_half_pos h).ne'
  have hs : HasDerivAt (fun x => e * sin x) (e * cos φ) φ := (hasDerivAt_sin φ).const_mul e
  have h2 : HasDerivAt (fun x => log (1 - e * sin x)) ((-(e * cos φ)) / (1 - e * sin φ)) φ := by
    have := (hs.const_sub 1).log (one_sub_esin_pos he φ).ne'
    simpa using this
  have h3 : HasDerivAt (fun x => log (1 + e * sin x)) ((e * cos φ) / (1 + e * sin φ)) φ := by
    have := (hs.const_add 1).log (one_add_esin_pos he φ).ne'
    simpa using this
  have hsum := h1.add ((h2.sub h3).const_mul (e / 2))
  have hval : (1 / cos (π / 4 + φ / 2) ^ 2 * (1 / 2)) / tan (π / 4 + φ / 2) +
      e / 2 * ((-(e * cos φ)) / (1 - e * sin φ) - (e * cos φ) / (1 + e * sin φ)) =
      (1 - e ^ 2) / ((1 - e ^ 2 * sin φ ^ 2) * cos φ) := by
    rw [tan_half_deriv_simp h]
    have hc := (cos_pos_of_inDom h).ne'
    have ha := (one_add_esin_pos he φ).ne'
    have hb := (one_sub_esin_pos he φ).ne'
    have hab : (1 - e ^ 2 * sin φ ^ 2) ≠ 0 := by
      have := (one_sub_esin_sq_pos he φ).ne'
      intro h0; apply this; rw [← h0]; ring
    have hcs : cos φ ^ 2 = 1 - sin φ ^ 2 := by rw [← sin_sq_add_cos_sq φ]; ring
    rw [div_add' _ _ _ hc, div_eq_div_iff hc (mul_ne_zero hab hc)]
    have : (1 - e ^ 2 * sin φ ^ 2) = (1 - e * sin φ) * (1 + e * sin φ) := by ring
    field_simp
    rw [hcs]
    ring
  rw [hval] at hsum
  refine hsum.congr_of_eventuallyEq ?_
  have hopen : Set.Ioo (-(π / 2)) (π / 2) ∈ nhds φ := isOpen_Ioo.mem_nhds ⟨h.1, h.2⟩
  filter_upwards [hopen] with x hx
  exact isoLat_split ⟨hx.1, hx.2⟩ he


/-! ## monotonicity: distinct parallels give a well-defined, non-zero cone constant -/

theorem isoLat_deriv_pos {φ e : ℝ} (h : InDom φ) (he : EccOK e) :
    0 < (1 - e ^ 2) / ((1 - e ^ 2 * sin φ ^ 2) * cos φ) := by
  have h1 : 0 < 1 - e ^ 2 := by nlinarith [he.1, he.2]
  have h2 : 0 < 1 - e ^ 2 * sin φ ^ 2 := by
    have := one_sub_esin_sq_pos he φ
    have e2 : 1 - e ^ 2 * sin φ ^ 2 = 1 - (e * sin φ) * (e * sin φ) := by ring
    rw [e2]; exact this
  exact div_pos h1 (mul_pos h2 (cos_pos_of_inDom h))

theorem isoLat_strictMonoOn {e : ℝ} (he : EccOK e) :
    StrictMonoOn (fun x => isoLat x e) (Set.Ioo (-(π / 2)) (π / 2)) := by
  apply strictMonoOn_of_deriv_pos (convex_Ioo _ _)
  · intro x hx
    exact (hasDerivAt_isoLat ⟨hx.1, hx.2⟩ he).continuousAt.continuousWithinAt
  · intro x hx
    rw [interior_Ioo] at hx
    rw [(hasDerivAt_isoLat ⟨hx.1, hx.2⟩ he).deriv]
    exact isoLat_deriv_pos ⟨hx.1, hx.2⟩ he

theorem isoLat_ne {φ₁ φ₂ e : ℝ} (h1 : InDom φ₁) (h2 : InDom φ₂) (he : EccOK e) (hne : φ₁ ≠ φ₂) :
    isoLat φ₁ e ≠ isoLat φ₂ e := by
  intro heq
  exact hne ((isoLat_strictMonoOn he).injOn ⟨h1.1, h1.2⟩ ⟨h2.1, h2.2⟩ heq)

/-- radius of the parallel `N(φ) cos φ` -/
noncomputable def rPar (φ a e : ℝ) : ℝ := grandeNormale φ a e * cos φ

theorem rPar_pos {φ a e : ℝ} (h : InDom φ) (ha : 0 < a) (he : EccOK e) : 0 < rPar φ a e :=
  mul_pos (grandeNormale_pos ha he) (cos_pos_of_inDom h)

theorem rPar_sq (φ : ℝ) {a e : ℝ} (he : EccOK e) :
    rPar φ a e ^ 2 = a ^ 2 * (1 - sin φ ^ 2) / (1 - e ^ 2 * sin φ ^ 2) := by
  have hp := one_sub_esin_sq_pos he φ
  have e2 : 1 - e ^ 2 * sin φ ^ 2 = 1 - (e * sin φ) * (e * sin φ) := by ring
  rw [rPar, grandeNormale_real, mul_pow, div_pow, sq_sqrt hp.le, e2, cos_sq']
  field_simp

theorem sin_sq_ne_of_abs_ne {φ₁ φ₂ : ℝ} (h1 : InDom φ₁) (h2 : InDom φ₂) (hne : |φ₁| ≠ |φ₂|) :
    sin φ₁ ^ 2 ≠ sin φ₂ ^ 2 := by
  intro heq
  apply hne
  have habs : |sin φ₁| = |sin φ₂| := (sq_eq_sq_iff_abs_eq_abs _ _).mp heq
  have b1 : |φ₁| ≤ π / 2 := abs_le.mpr ⟨h1.1.le, h1.2.le⟩
  have b2 : |φ₂| ≤ π / 2 := abs_le.mpr ⟨h2.1.le, h2.2.le⟩
  rw [abs_sin_eq_sin_abs_of_abs_le_pi (by linarith [pi_pos]), abs_sin_eq_sin_abs_of_abs_le_pi (by linarith [pi_pos])] at habs
  exact injOn_sin ⟨by linarith [abs_nonneg φ₁, pi_pos], b1⟩ ⟨by linarith [abs_nonneg φ₂, pi_pos], b2⟩ habs

theorem rPar_ne {φ₁ φ₂ a e : ℝ} (h1 : InDom φ₁) (h2 : InDom φ₂) (ha : 0 < a) (he : EccOK e)
    (hne : |φ₁| ≠ |φ₂|) : rPar φ₁ a e ≠ rPar φ₂ a e := by
  intro heq
  have hs := sin_sq_ne_of_abs_ne h1 h2 hne
  have hsq : rPar φ₁ a e ^ 2 = rPar φ₂ a e ^ 2 := by rw [heq]
  rw [rPar_sq φ₁ he, rPar_sq φ₂ he] at hsq
  have p1 : (1 - e ^ 2 * sin φ₁ ^ 2) ≠ 0 := by
    have := (one_sub_esin_sq_pos he φ₁).ne'
    intro h0; apply this; rw [← h0]; ring
  have p2 : (1 - e ^ 2 * sin φ₂ ^ 2) ≠ 0 := by
    have := (one_sub_esin_sq_pos he φ₂).ne'
    intro h0; apply this; rw [← h0]; ring
  rw [div_eq_div_iff p1 p2] at hsq
  have he2 : 0 < 1 - e ^ 2 := by nlinarith [he.1, he.2]
  have : a ^ 2 * (1 - e ^ 2) * (sin φ₁ ^ 2 - sin φ₂ ^ 2) = 0 := by linear_combination -hsq
  rcases mul_eq_zero.mp this with h | h
  · rcases mul_eq_zero.mp h with h | h
    · exact (pow_pos ha 2).ne' h
    · exact he2.ne' h
  · exact hs (by linarith)


/-! ## inverse of the polar formulas -/

theorem rho_of_toLambert (cv : Conv ℝ) (φ lam : ℝ) :
    sqrt (((toLambert cv φ lam).1 - cv.xs) * ((toLambert cv φ lam).1 - cv.xs) +
          ((toLambert cv φ lam).2 - cv.ys) * ((toLambert cv φ lam).2 - cv.ys)) =
      |cv.c| * exp (-cv.n * isoLat φ cv.e) := by
  rw [toLambert_real]
  simp only
  set E := exp (-cv.n * isoLat φ cv.e) with hE
  set θ := cv.n * (lam - cv.lon0)
  have : (cv.xs + cv.c * E * sin θ - cv.xs) * (cv.xs + cv.c * E * sin θ - cv.xs) +
      (cv.ys - cv.c * E * cos θ - cv.ys) * (cv.ys - cv.c * E * cos θ - cv.ys) = (cv.c * E) ^ 2 := by
    have := sin_sq_add_cos_sq θ
    linear_combination (cv.c * E) ^ 2 * this
  rw [this, sqrt_sq_eq_abs, abs_mul, abs_of_pos (exp_pos _)]

theorem invIsoLat_toLambert (cv : Conv ℝ) (hc : cv.c ≠ 0) (hn : cv.n ≠ 0) (φ lam : ℝ) :
    invIsoLat cv (toLambert cv φ lam).1 (toLambert cv φ lam).2 = isoLat φ cv.e := by
  have hq : |cv.c| * exp (-cv.n * isoLat φ cv.e) / |cv.c| = exp (-cv.n * isoLat φ cv.e) := by
    have := abs_ne_zero.mpr hc
    field_simp
  rw [invIsoLat_real, rho_of_toLambert, hq, log_exp]
  field_simp

theorem invLon_toLambert (cv : Conv ℝ) (hc : cv.c ≠ 0) (hn : cv.n ≠ 0) (φ lam : ℝ)
    (hlam : |cv.n * (lam - cv.lon0)| < π / 2) :
    invLon cv (toLambert cv φ lam).1 (toLambert cv φ lam).2 = lam := by
  rw [invLon_real, toLambert_real]
  simp only
  set E := exp (-cv.n * isoLat φ cv.e) with hE
  set θ := cv.n * (lam - cv.lon0) with hθ
  have hEpos : E ≠ 0 := (exp_pos _).ne'
  have hθ' := abs_lt.mp hlam
  have hcos : cos θ ≠ 0 := (cos_pos_of_mem_Ioo ⟨hθ'.1, hθ'.2⟩).ne'
  have : (cv.xs + cv.c * E * sin θ - cv.xs) / (cv.ys - (cv.ys - cv.c * E * cos θ)) = tan θ := by
    rw [tan_eq_sin_div_cos]
    field_simp
    ring
  rw [this, arctan_tan hθ'.1 hθ'.2, hθ]
  field_simp
  ring

/-- denominators met by `toWGS84 ∘ toLambert`: the point is not the apex and lies below/above it -/
theorem toLambert_guards (cv : Conv ℝ) (hc : cv.c ≠ 0) (φ lam : ℝ)
    (hlam : |cv.n * (lam - cv.lon0)| < π / 2) :
    cv.ys - (toLambert cv φ lam).2 ≠ 0 := by
  rw [toLambert_real]
  simp only
  have hθ' := abs_lt.mp hlam
  have hcos : cos (cv.n * (lam - cv.lon0)) ≠ 0 := (cos_pos_of_mem_Ioo ⟨hθ'.1, hθ'.2⟩).ne'
  have : cv.ys - (cv.ys - cv.c * exp (-cv.n * isoLat φ cv.e) * cos (cv.n * (lam - cv.lon0))) =
      cv.c * exp (-cv.n * isoLat φ cv.e) * cos (cv.n * (lam - cv.lon0)) := by ring
  rw [this]
  exact mul_ne_zero (mul_ne_zero hc (exp_pos _).ne') hcos


/-! ## projection parameters -/

/-- the literal `0.000000001` at `ℝ` -/
theorem poleTol_real : (poleTol : ℝ) = 1e-9 := by
  rfl

theorem epsilon_real_pos : (0 : ℝ) < (epsilon : ℝ) := by
  simp only [epsilon]; norm_num

/-- cone constant of the secant case -/
noncomputable def nSec (P : Secant ℝ) (E : Ellipsoid ℝ) : ℝ :=
  log (rPar P.lat2 E.a E.e / rPar P.lat1 E.a E.e) / (isoLat P.lat1 E.e - isoLat P.lat2 E.e)

/-- radius constant of the secant case -/
noncomputable def cSec (P : Secant ℝ) (E : Ellipsoid ℝ) : ℝ :=
  rPar P.lat1 E.a E.e / nSec P E * exp (nSec P E * isoLat P.lat1 E.e)

theorem paramsSecant_real (P : Secant ℝ) (E : Ellipsoid ℝ) :
    paramsSecant P E =
      { lon0 := P.lon0, n := nSec P E, c := cSec P E, xs := P.x0,
        ys := if (poleTol : ℝ) < |P.lat0 - π / 2| then P.y0 + cSec P E * exp (-nSec P E * isoLat P.lat0 E.e) else P.y0 } := by
  simp [paramsSecant, nSec, cSec, rPar]

noncomputable def cTan (P : Tangent ℝ) (E : Ellipsoid ℝ) : ℝ :=
  P.k0 * grandeNormale P.lat0 E.a E.e * (cos P.lat0 / sin P.lat0) * exp (sin P.lat0 * isoLat P.lat0 E.e)

theorem paramsTangent_real (P : Tangent ℝ) (E : Ellipsoid ℝ) :
    paramsTangent P E =
      { lon0 := P.lon0, n := sin P.lat0, c := cTan P E, xs := P.x0,
        ys := P.y0 + P.k0 * grandeNormale P.lat0 E.a E.e * (cos P.lat0 / sin P.lat0) } := by
  simp [paramsTangent, cTan]

theorem nSec_ne_zero {P : Secant ℝ} {E : Ellipsoid ℝ} (h1 : InDom P.lat1) (h2 : InDom P.lat2)
    (ha : 0 < E.a) (he : EccOK E.e) (hne : |P.lat1| ≠ |P.lat2|) : nSec P E ≠ 0 := by
  have r1 := rPar_pos h1 ha he
  have r2 := rPar_pos h2 ha he
  have hL : isoLat P.lat1 E.e - isoLat P.lat2 E.e ≠ 0 :=
    sub_ne_zero.mpr (isoLat_ne h1 h2 he (fun h => hne (by rw [h])))
  refine div_ne_zero ?_ hL
  intro hlog
  have := (log_eq_zero (x := rPar P.lat2 E.a E.e / rPar P.lat1 E.a E.e)).mp hlog
  have hq : 0 < rPar P.lat2 E.a E.e / rPar P.lat1 E.a E.e := div_pos r2 r1
  rcases this with h | h | h
  · exact hq.ne' h
  · exact rPar_ne h1 h2 ha he hne ((div_eq_one_iff_eq r1.ne').mp h).symm
  · linarith

theorem cSec_ne_zero {P : Secant ℝ} {E : Ellipsoid ℝ} (h1 : InDom P.lat1) (h2 : InDom P.lat2)
    (ha : 0 < E.a) (he : EccOK E.e) (hne : |P.lat1| ≠ |P.lat2|) : cSec P E ≠ 0 :=
  mul_ne_zero (div_ne_zero (rPar_pos h1 ha he).ne' (nSec_ne_zero h1 h2 ha he hne)) (exp_pos _).ne'

/-- scale along the parallel of latitude `φ` (signed polar radius `c exp(-n L)`):
    `k(φ) = n · c exp(-n L(φ)) / (N(φ) cos φ)` -/
noncomputable def scaleAt (cv : Conv ℝ) (a φ : ℝ) : ℝ :=
  cv.n * (cv.c * exp (-cv.n * isoLat φ cv.e)) / rPar φ a cv.e

theorem scale_secant_lat1 {P : Secant ℝ} {E : Ellipsoid ℝ} (h1 : InDom P.lat1) (h2 : InDom P.lat2)
    (ha : 0 < E.a) (he : EccOK E.e) (hne : |P.lat1| ≠ |P.lat2|) :
    scaleAt (Conv.ofParams (paramsSecant P E) E.e) E.a P.lat1 = 1 := by
  have hn := nSec_ne_zero h1 h2 ha he hne
  have r1 := (rPar_pos h1 ha he).ne'
  rw [paramsSecant_real]
  simp only [scaleAt, Conv.ofParams, cSec]
  rw [neg_mul, exp_neg]
  have := (exp_pos (nSec P E * isoLat P.lat1 E.e)).ne'
  field_simp

theorem scale_secant_lat2 {P : Secant ℝ} {E : Ellipsoid ℝ} (h1 : InDom P.lat1) (h2 : InDom P.lat2)
    (ha : 0 < E.a) (he : EccOK E.e) (hne : |P.lat1| ≠ |P.lat2|) :
    scaleAt (Conv.ofParams (paramsSecant P E) E.e) E.a P.lat2 = 1 := by
  have hn := nSec_ne_zero h1 h2 ha he hne
  have r1 := rPar_pos h1 ha he
  have r2 := rPar_pos h2 ha he
  have hL : isoLat P.lat1 E.e - isoLat P.lat2 E.e ≠ 0 :=
    sub_ne_zero.mpr (isoLat_ne h1 h2 he (fun h => hne (by rw [h])))
  rw [paramsSecant_real]
  simp only [scaleAt, Conv.ofParams, cSec]
  have hexp : exp (nSec P E * isoLat P.lat1 E.e) * exp (-nSec P E * isoLat P.lat2 E.e) =
      rPar P.lat2 E.a E.e / rPar P.lat1 E.a E.e := by
    rw [← exp_add]
    have : nSec P E * isoLat P.lat1 E.e + -nSec P E * isoLat P.lat2 E.e =
        log (rPar P.lat2 E.a E.e / rPar P.lat1 E.a E.e) := by
      rw [nSec]; field_simp; ring
    rw [this, exp_log (div_pos r2 r1)]
  have r1' := r1.ne'
  have r2' := r2.ne'
  calc nSec P E * (rPar P.lat1 E.a E.e / nSec P E * exp (nSec P E * isoLat P.lat1 E.e) *
          exp (-nSec P E * isoLat P.lat2 E.e)) / rPar P.lat2 E.a E.e
      = rPar P.lat1 E.a E.e * (exp (nSec P E * isoLat P.lat1 E.e) * exp (-nSec P E * isoLat P.lat2 E.e)) /
          rPar P.lat2 E.a E.e := by field_simp
    _ = 1 := by rw [hexp]; field_simp

theorem scale_tangent {P : Tangent ℝ} {E : Ellipsoid ℝ} (h0 : InDom P.lat0) (hs : P.lat0 ≠ 0)
    (ha : 0 < E.a) (he : EccOK E.e) :
    scaleAt (Conv.ofParams (paramsTangent P E) E.e) E.a P.lat0 = P.k0 := by
  have hsin : sin P.lat0 ≠ 0 := by
    intro h
    have := injOn_sin ⟨h0.1.le, h0.2.le⟩ ⟨by linarith [pi_pos], by linarith [pi_pos]⟩ (h.trans sin_zero.symm)
    exact hs this
  have hcos := (cos_pos_of_inDom h0).ne'
  have hN := (grandeNormale_pos (φ := P.lat0) ha he).ne'
  rw [paramsTangent_real]
  simp only [scaleAt, Conv.ofParams, cTan, rPar]
  rw [neg_mul, exp_neg]
  have := (exp_pos (sin P.lat0 * isoLat P.lat0 E.e)).ne'
  field_simp


/-! ## origin and central meridian -/

theorem origin_secant_real (P : Secant ℝ) (E : Ellipsoid ℝ) (hpole : (poleTol : ℝ) < |P.lat0 - π / 2|) :
    toLambert (Conv.ofParams (paramsSecant P E) E.e) P.lat0 P.lon0 = (P.x0, P.y0) := by
  rw [paramsSecant_real, toLambert_real]
  simp [Conv.ofParams, hpole]

theorem origin_tangent_real (P : Tangent ℝ) (E : Ellipsoid ℝ) :
    toLambert (Conv.ofParams (paramsTangent P E) E.e) P.lat0 P.lon0 = (P.x0, P.y0) := by
  rw [paramsTangent_real, toLambert_real]
  simp only [Conv.ofParams, cTan, sub_self, mul_zero, sin_zero, cos_zero, mul_one, add_zero, neg_mul, exp_neg]
  have := (exp_pos (sin P.lat0 * isoLat P.lat0 E.e)).ne'
  refine Prod.ext rfl ?_
  simp only
  field_simp
  ring

theorem central_meridian_real (cv : Conv ℝ) (φ : ℝ) : (toLambert cv φ cv.lon0).1 = cv.xs := by
  rw [toLambert_real]; simp

/-! ## conformality -/

/-- `dL/dφ` -/
noncomputable def isoLatDeriv (φ e : ℝ) : ℝ := (1 - e ^ 2) / ((1 - e ^ 2 * sin φ ^ 2) * cos φ)

/-- radius of curvature of the meridian, `a (1 - e²) / (1 - e² sin² φ)^(3/2)`
    (`EarthEllipsoid::meridionalRadius`, EarthEllipsoid.cpp:42-45) -/
noncomputable def mRad (φ a e : ℝ) : ℝ :=
  a * (1 - e ^ 2) / ((1 - e ^ 2 * sin φ ^ 2) * sqrt (1 - e ^ 2 * sin φ ^ 2))

theorem w_pos {e : ℝ} (he : EccOK e) (φ : ℝ) : 0 < 1 - e ^ 2 * sin φ ^ 2 := by
  have := one_sub_esin_sq_pos he φ
  have e2 : 1 - e ^ 2 * sin φ ^ 2 = 1 - (e * sin φ) * (e * sin φ) := by ring
  rw [e2]; exact this

theorem mRad_pos {φ a e : ℝ} (ha : 0 < a) (he : EccOK e) : 0 < mRad φ a e := by
  have h1 : 0 < 1 - e ^ 2 := by nlinarith [he.1, he.2]
  have hw := w_pos he φ
  exact div_pos (mul_pos ha h1) (mul_pos hw (sqrt_pos.mpr hw))

/-- the isometric latitude advances by (meridian arc) / (radius of the parallel) -/
theorem isoLatDeriv_eq {φ a e : ℝ} (h : InDom φ) (ha : 0 < a) (he : EccOK e) :
    isoLatDeriv φ e = mRad φ a e / rPar φ a e := by
  have hw := w_pos he φ
  have hs := (sqrt_pos.mpr hw).ne'
  have hc := (cos_pos_of_inDom h).ne'
  have e2 : 1 - (e * sin φ) * (e * sin φ) = 1 - e ^ 2 * sin φ ^ 2 := by ring
  rw [isoLatDeriv, mRad, rPar, grandeNormale_real, e2]
  have hw' := hw.ne'
  have ha' := ha.ne'
  field_simp

/-- `n · c exp(-n L(φ))`: signed length of `∂(x, y)/∂λ` -/
noncomputable def polarRate (cv : Conv ℝ) (φ : ℝ) : ℝ := cv.n * (cv.c * exp (-cv.n * isoLat φ cv.e))

theorem hasDerivAt_toLambert_lat (cv : Conv ℝ) {φ : ℝ} (lam : ℝ) (h : InDom φ) (he : EccOK cv.e) :
    HasDerivAt (fun p => (toLambert cv p lam).1)
      (-(polarRate cv φ * isoLatDeriv φ cv.e) * sin (cv.n * (lam - cv.lon0))) φ ∧
    HasDerivAt (fun p => (toLambert cv p lam).2)
      (polarRate cv φ * isoLatDeriv φ cv.e * cos (cv.n * (lam - cv.lon0))) φ := by
  have hL : HasDerivAt (fun x => isoLat x cv.e) (isoLatDeriv φ cv.e) φ := hasDerivAt_isoLat h he
  have hE : HasDerivAt (fun p => exp (-cv.n * isoLat p cv.e))
      (exp (-cv.n * isoLat φ cv.e) * (-cv.n * isoLatDeriv φ cv.e)) φ := (hL.const_mul (-cv.n)).exp
  constructor
  · have key := (((hE.const_mul cv.c).mul_const (sin (cv.n * (lam - cv.lon0)))).const_add cv.xs)
    have key2 : HasDerivAt (fun p => (toLambert cv p lam).1) _ φ := key
    exact key2.congr_deriv (by rw [polarRate]; ring)
  · have key := (((hE.const_mul cv.c).mul_const (cos (cv.n * (lam - cv.lon0)))).const_sub cv.ys)
    have key2 : HasDerivAt (fun p => (toLambert cv p lam).2) _ φ := key
    exact key2.congr_deriv (by rw [polarRate]; ring)

theorem hasDerivAt_toLambert_lon (cv : Conv ℝ) (φ lam : ℝ) :
    HasDerivAt (fun l => (toLambert cv φ l).1) (polarRate cv φ * cos (cv.n * (lam - cv.lon0))) lam ∧
    HasDerivAt (fun l => (toLambert cv φ l).2) (polarRate cv φ * sin (cv.n * (lam - cv.lon0))) lam := by
  have hθ : HasDerivAt (fun l => cv.n * (l - cv.lon0)) cv.n lam := by
    simpa using ((hasDerivAt_id lam).sub_const cv.lon0).const_mul cv.n
  constructor
  · have key := ((hθ.sin.const_mul (cv.c * exp (-cv.n * isoLat φ cv.e))).const_add cv.xs)
    have key2 : HasDerivAt (fun l => (toLambert cv φ l).1) _ lam := key
    exact key2.congr_deriv (by rw [polarRate]; ring)
  · have key := ((hθ.cos.const_mul (cv.c * exp (-cv.n * isoLat φ cv.e))).const_sub cv.ys)
    have key2 : HasDerivAt (fun l => (toLambert cv φ l).2) _ lam := key
    exact key2.congr_deriv (by rw [polarRate]; ring)

theorem scaleAt_eq (cv : Conv ℝ) (a φ : ℝ) : scaleAt cv a φ = polarRate cv φ / rPar φ a cv.e := rfl


/-! ## the loop body of `computeLatitude` is a contraction -/

/-- derivative of the loop body `g(ψ) = 2 atan(α(ψ) exp L) - π/2` -/
noncomputable def latStepDeriv (iso e ψ : ℝ) : ℝ :=
  let t := ((1 + e * sin ψ) / (1 - e * sin ψ)) ^ (e / 2) * exp iso
  (2 * t / (1 + t ^ 2)) * (e ^ 2 * cos ψ / (1 - e ^ 2 * sin ψ ^ 2))

theorem hasDerivAt_latStep (iso : ℝ) {e : ℝ} (he : EccOK e) (ψ : ℝ) :
    HasDerivAt (fun x => latStep iso e x) (latStepDeriv iso e ψ) ψ := by
  have hp := one_add_esin_pos he ψ
  have hm := one_sub_esin_pos he ψ
  have hr := ratio_inv_pos he ψ
  have hs : HasDerivAt (fun x => e * sin x) (e * cos ψ) ψ := (hasDerivAt_sin ψ).const_mul e
  have hq : HasDerivAt (fun x => (1 + e * sin x) / (1 - e * sin x))
      ((e * cos ψ * (1 - e * sin ψ) - (1 + e * sin ψ) * (-(e * cos ψ))) / (1 - e * sin ψ) ^ 2) ψ :=
    (hs.const_add 1).div (hs.const_sub 1) hm.ne'
  have hα := hq.rpow_const (p := e / 2) (Or.inl hr.ne')
  have ht := hα.mul_const (exp iso)
  have hg := (ht.arctan.const_mul 2).sub_const (π / 2)
  have hfun : (fun x => latStep iso e x) =
      fun x => 2 * arctan (((1 + e * sin x) / (1 - e * sin x)) ^ (e / 2) * exp iso) - π / 2 := by
    funext x; rw [latStep_real]
  rw [hfun]
  refine hg.congr_deriv ?_
  rw [latStepDeriv, rpow_sub_one hr.ne']
  have hw : 1 - e ^ 2 * sin ψ ^ 2 = (1 + e * sin ψ) * (1 - e * sin ψ) := by ring
  rw [hw]
  have h1 := hp.ne'
  have h2 := hm.ne'
  have hden : (1 + (((1 + e * sin ψ) / (1 - e * sin ψ)) ^ (e / 2) * exp iso) ^ 2) ≠ 0 := by positivity
  field_simp
  ring

theorem latStepDeriv_bound (iso : ℝ) {e : ℝ} (he : EccOK e) (ψ : ℝ) :
    |latStepDeriv iso e ψ| ≤ e ^ 2 / (1 - e ^ 2) := by
  have h1 : 0 < 1 - e ^ 2 := by nlinarith [he.1, he.2]
  have hw := w_pos he ψ
  rw [latStepDeriv]
  set t := ((1 + e * sin ψ) / (1 - e * sin ψ)) ^ (e / 2) * exp iso
  rw [abs_mul]
  have ha : |2 * t / (1 + t ^ 2)| ≤ 1 := by
    rw [abs_div, abs_of_pos (by positivity : (0 : ℝ) < 1 + t ^ 2), div_le_one (by positivity)]
    rw [abs_le]; constructor <;> nlinarith [sq_nonneg (t - 1), sq_nonneg (t + 1)]
  have hb : |e ^ 2 * cos ψ / (1 - e ^ 2 * sin ψ ^ 2)| ≤ e ^ 2 / (1 - e ^ 2) := by
    rw [abs_div, abs_of_pos hw, abs_mul, abs_of_nonneg (sq_nonneg e)]
    have hc : |cos ψ| ≤ 1 := abs_cos_le_one ψ
    have hs : sin ψ ^ 2 ≤ 1 := sin_sq_le_one ψ
    rw [div_le_div_iff₀ hw h1]
    have e2 := sq_nonneg e
    nlinarith [mul_nonneg e2 (abs_nonneg (cos ψ)), mul_nonneg e2 (sub_nonneg.mpr hs), mul_nonneg e2 (sub_nonneg.mpr hc),
      mul_nonneg (mul_nonneg e2 e2) (sub_nonneg.mpr hs), abs_nonneg (cos ψ)]
  calc |2 * t / (1 + t ^ 2)| * |e ^ 2 * cos ψ / (1 - e ^ 2 * sin ψ ^ 2)|
      ≤ 1 * (e ^ 2 / (1 - e ^ 2)) := mul_le_mul ha hb (abs_nonneg _) zero_le_one
    _ = _ := one_mul _

/-- for `e ≤ 0.1` the loop body contracts by at least the factor 99 -/
theorem latStep_lipschitz (iso : ℝ) {e : ℝ} (he : EccOK e) (he1 : e ≤ 1 / 10) (x y : ℝ) :
    |latStep iso e x - latStep iso e y| ≤ 1 / 99 * |x - y| := by
  have hq : e ^ 2 / (1 - e ^ 2) ≤ 1 / 99 := by
    have h1 : 0 < 1 - e ^ 2 := by nlinarith [he.1, he.2]
    rw [div_le_div_iff₀ h1 (by norm_num)]
    nlinarith [he.1]
  have := Convex.norm_image_sub_le_of_norm_hasDerivWithin_le (f := fun x => latStep iso e x)
    (f' := fun x => latStepDeriv iso e x) (s := Set.univ) (C := 1 / 99)
    (fun x _ => (hasDerivAt_latStep iso he x).hasDerivWithinAt)
    (fun x _ => by rw [Real.norm_eq_abs]; exact (latStepDeriv_bound iso he x).trans hq)
    convex_univ (Set.mem_univ y) (Set.mem_univ x)
  simpa [Real.norm_eq_abs] using this


/-! ## the loop of `computeLatitude` terminates and is accurate (`e ≤ 0.1`) -/

theorem epsilon_real : (epsilon : ℝ) = 1e-12 := rfl

theorem latLoop_succ (iso e : ℝ) (k : ℕ) (s : ℝ) :
    latLoop iso e (k + 1) s =
      if |latStep iso e s - s| < (epsilon : ℝ) then some (latStep iso e s) else latLoop iso e k (latStep iso e s) := rfl

/-- distance to the fixed point shrinks by 99 per pass -/
theorem latStep_towards {φ e : ℝ} (h : InDom φ) (he : EccOK e) (he1 : e ≤ 1 / 10) (ψ : ℝ) :
    |latStep (isoLat φ e) e ψ - φ| ≤ 1 / 99 * |ψ - φ| := by
  have := latStep_lipschitz (isoLat φ e) he he1 ψ φ
  rwa [latStep_isoLat h he] at this

/-- once the exit test is met, the returned latitude is within `EPSILON / 98` of the true one -/
theorem exit_accuracy {φ e : ℝ} (h : InDom φ) (he : EccOK e) (he1 : e ≤ 1 / 10) {prev : ℝ}
    (hexit : |latStep (isoLat φ e) e prev - prev| < (epsilon : ℝ)) :
    |latStep (isoLat φ e) e prev - φ| ≤ (epsilon : ℝ) / 98 := by
  have h1 := latStep_towards h he he1 prev
  have h2 : |prev - φ| ≤ |latStep (isoLat φ e) e prev - prev| + |latStep (isoLat φ e) e prev - φ| := by
    have : prev - φ = -(latStep (isoLat φ e) e prev - prev) + (latStep (isoLat φ e) e prev - φ) := by ring
    rw [this]
    exact (abs_add_le _ _).trans (by rw [abs_neg])
  linarith

theorem latLoop_accurate {φ e : ℝ} (h : InDom φ) (he : EccOK e) (he1 : e ≤ 1 / 10) :
    ∀ (fuel : ℕ) (start r : ℝ), latLoop (isoLat φ e) e fuel start = some r → |r - φ| ≤ (epsilon : ℝ) / 98
  | 0, _, _, hr => by simp [latLoop] at hr
  | k + 1, start, r, hr => by
    rw [latLoop_succ] at hr
    split_ifs at hr with hc
    · rw [← Option.some.inj hr]
      exact exit_accuracy h he he1 hc
    · exact latLoop_accurate h he he1 k _ r hr

/-- the exit test is met by pass `k + 1` at the latest when the start value is within `ε 99^k (99/100)` of the latitude -/
theorem latLoop_terminates {φ e : ℝ} (h : InDom φ) (he : EccOK e) (he1 : e ≤ 1 / 10) :
    ∀ (k : ℕ) (start : ℝ), (100 / 99) * (1 / 99) ^ k * |start - φ| < (epsilon : ℝ) →
      ∃ r, latLoop (isoLat φ e) e (k + 1) start = some r
  | 0, start, hs => by
    have h1 := latStep_towards h he he1 start
    have hexit : |latStep (isoLat φ e) e start - start| < (epsilon : ℝ) := by
      have : latStep (isoLat φ e) e start - start = (latStep (isoLat φ e) e start - φ) + -(start - φ) := by ring
      rw [this]
      refine lt_of_le_of_lt (abs_add_le _ _) ?_
      rw [abs_neg]
      simp only [pow_zero, mul_one] at hs
      linarith
    refine ⟨latStep (isoLat φ e) e start, ?_⟩
    rw [latLoop_succ, if_pos hexit]
  | k + 1, start, hs => by
    rw [latLoop_succ]
    split_ifs with hc
    · exact ⟨_, rfl⟩
    · apply latLoop_terminates h he he1 k
      have h1 := latStep_towards h he he1 start
      have hp : (0 : ℝ) ≤ 100 / 99 * (1 / 99) ^ k := by positivity
      calc 100 / 99 * (1 / 99) ^ k * |latStep (isoLat φ e) e start - φ|
          ≤ 100 / 99 * (1 / 99) ^ k * (1 / 99 * |start - φ|) := mul_le_mul_of_nonneg_left h1 hp
        _ = 100 / 99 * (1 / 99) ^ (k + 1) * |start - φ| := by ring
        _ < _ := hs

/-- more fuel never turns a result into a failure -/
theorem latLoop_mono (iso e : ℝ) : ∀ (k : ℕ) (start r : ℝ), latLoop iso e k start = some r →
    ∀ m, k ≤ m → latLoop iso e m start = some r
  | 0, _, _, hr, _, _ => by simp [latLoop] at hr
  | k + 1, start, r, hr, m, hm => by
    obtain ⟨m', rfl⟩ : ∃ m', m = m' + 1 := ⟨m - 1, by omega⟩
    rw [latLoop_succ] at hr ⊢
    split_ifs at hr ⊢ with hc
    · exact hr
    · exact latLoop_mono iso e k _ r hr m' (by omega)

theorem latInit_dist {φ : ℝ} (h : InDom φ) (iso : ℝ) : |latInit iso - φ| < π := by
  rw [latInit_real]
  have h1 := arctan_lt_pi_div_two (exp iso)
  have h2 : 0 < arctan (exp iso) := arctan_pos.mpr (exp_pos iso)
  rw [abs_lt]; constructor <;> linarith [h.1, h.2]

/-- `computeLatitude` applied to the isometric latitude of `φ`: with fuel ≥ 8 the loop exits, within 1e-13 rad of `φ` -/
theorem latFromIso_converges {φ e : ℝ} (h : InDom φ) (he : EccOK e) (he1 : e ≤ 1 / 10) {fuel : ℕ} (hf : 8 ≤ fuel) :
    ∃ r, latFromIso fuel (isoLat φ e) e = some r ∧ |r - φ| < 1e-13 := by
  have hd := latInit_dist h (isoLat φ e)
  have hstart : (100 / 99 : ℝ) * (1 / 99) ^ 7 * |latInit (isoLat φ e) - φ| < (epsilon : ℝ) := by
    rw [epsilon_real]
    have hpi : π ≤ 4 := pi_le_four
    have : (100 / 99 : ℝ) * (1 / 99) ^ 7 * |latInit (isoLat φ e) - φ| ≤ (100 / 99 : ℝ) * (1 / 99) ^ 7 * 4 :=
      mul_le_mul_of_nonneg_left (by linarith) (by positivity)
    refine lt_of_le_of_lt this ?_
    norm_num
  obtain ⟨r, hr⟩ := latLoop_terminates h he he1 7 _ hstart
  have hr' := latLoop_mono _ _ _ _ _ hr fuel hf
  refine ⟨r, hr', ?_⟩
  have := latLoop_accurate h he he1 _ _ _ hr
  rw [epsilon_real] at this
  refine lt_of_le_of_lt this ?_
  norm_num


end Romea.Lambert
