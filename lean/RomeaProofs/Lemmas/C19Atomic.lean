import RomeaModel.LinAtomic
import RomeaProofs.Lemmas.C19Lin

/-!
# Serialisability of a class read outside its mutex through one atomic word (helper lemmas for C19, `RateMonitoring`)

Invariant `AInv … s lin`: with `L = serial σ0 prog lin`, every thread is idle, READY (call popped; a writer has not
taken the guard, a reader has not loaded `a`; only constant reads so far), in its critical section BEFORE its
linearization point (`W2`: it still has its one write of `a` ahead; the call is not in `lin`), in its critical section
AFTER it (`W3`: no write of `a` ahead; the call is the last writer of `lin`), or in its tail (constant reads only).
The linearization point of a writer is its write of `a` — or its `acq g` if its critical section does not write `a`;
of a reader, its load.  `lin` grows exactly at these points, and at every moment `s.store a = L.store a`.
-/
namespace Romea.Lin
open Romea.Lockset

variable {V A R : Type}

/-! ### uninterrupted execution: what it cannot change, what it cannot see -/

theorem exec_at_of_nowrite (arg : A) (k : Addr) (b : List (Step V A R)) (hb : ∀ st ∈ b, st.writesTo k = false)
    (σ : Store V) (l : Locals V) (r : Option R) : (execSteps arg (σ, l, r) b).1 k = σ k := by
  induction b generalizing σ l r with
  | nil => rfl
  | cons st b ih =>
    have hst := hb st (by simp)
    have hb' : ∀ s ∈ b, s.writesTo k = false := fun s hs => hb s (by simp [hs])
    cases st with
    | acq m => simp only [execSteps_cons, execStep]; exact ih hb' σ l r
    | rel m => simp only [execSteps_cons, execStep]; exact ih hb' σ l r
    | rd ad v => simp only [execSteps_cons, execStep]; exact ih hb' _ _ _
    | ret e => simp only [execSteps_cons, execStep]; exact ih hb' _ _ _
    | wr ad e =>
      simp only [execSteps_cons, execStep]
      rw [ih hb']
      have : ad ≠ k := by
        intro h; subst h
        simp [Step.writesTo] at hst
      exact upd_other _ _ _ _ (fun h => this h.symm)

theorem constRd_nowrite (C : Addr → Prop) (k : Addr) (st : Step V A R) (h : st.isConstRd C) : st.writesTo k = false := by
  cases st <;> simp [Step.isConstRd] at h <;> rfl

theorem isCS_nowrite (C : Addr → Prop) (k : Addr) (hk : C k) (st : Step V A R) (h : st.isCS C) : st.writesTo k = false := by
  cases st with
  | wr ad e =>
    simp only [Step.isCS] at h
    simp only [Step.writesTo, beq_eq_false_iff_ne, ne_eq]
    intro hh; subst hh; exact h hk
  | acq m => rfl
  | rel m => rfl
  | rd ad v => rfl
  | ret e => rfl

/-- constant reads do not change the store -/
theorem exec_constRd_store (C : Addr → Prop) (arg : A) (b : List (Step V A R)) (hb : ∀ st ∈ b, st.isConstRd C)
    (σ : Store V) (l : Locals V) (r : Option R) : (execSteps arg (σ, l, r) b).1 = σ := by
  funext k
  exact exec_at_of_nowrite arg k b (fun st hst => constRd_nowrite C k st (hb st hst)) σ l r

/-- constant reads see only the constant part of the store -/
theorem exec_constRd_indep (C : Addr → Prop) (arg : A) (b : List (Step V A R)) (hb : ∀ st ∈ b, st.isConstRd C)
    (σ σ' : Store V) (hσ : ∀ k, C k → σ k = σ' k) (l : Locals V) (r : Option R) :
    (execSteps arg (σ, l, r) b).2 = (execSteps arg (σ', l, r) b).2 := by
  induction b generalizing l r with
  | nil => rfl
  | cons st b ih =>
    have hst := hb st (by simp)
    have hb' : ∀ s ∈ b, s.isConstRd C := fun s hs => hb s (by simp [hs])
    cases st with
    | ret e => simp only [execSteps_cons, execStep]; exact ih hb' _ _
    | rd ad v =>
      simp only [Step.isConstRd] at hst
      simp only [execSteps_cons, execStep]
      rw [hσ ad hst]; exact ih hb' _ _
    | acq m => simp [Step.isConstRd] at hst
    | rel m => simp [Step.isConstRd] at hst
    | wr ad e => simp [Step.isConstRd] at hst

theorem wrCount_nil (a : Addr) : wrCount a ([] : List (Step V A R)) = 0 := rfl

theorem wrCount_cons (a : Addr) (st : Step V A R) (b : List (Step V A R)) :
    wrCount a (st :: b) = wrCount a b + (if st.writesTo a then 1 else 0) := by
  simp [wrCount, List.countP_cons]

theorem nowrite_of_wrCount0 (a : Addr) (b : List (Step V A R)) (h : wrCount a b = 0) : ∀ st ∈ b, st.writesTo a = false := by
  intro st hst
  unfold wrCount at h
  rw [List.countP_eq_zero] at h
  simpa using h st hst

/-- the tail of a writer body after its last write of `a`: `cs ++ rel g :: post` does not write `a` -/
theorem tail_nowrite_a (g : Nat) (a : Addr) (C : Addr → Prop) (cs post : List (Step V A R))
    (h0 : wrCount a cs = 0) (hpost : ∀ st ∈ post, st.isConstRd C) :
    ∀ st ∈ cs ++ Step.rel g :: post, st.writesTo a = false := by
  intro st hst
  rcases List.mem_append.mp hst with h | h
  · exact nowrite_of_wrCount0 a cs h0 st h
  · rcases List.mem_cons.mp h with rfl | h
    · rfl
    · exact constRd_nowrite C a st (hpost st h)

/-- … and no part of a writer body writes a constant address -/
theorem tail_nowrite_const (g : Nat) (C : Addr → Prop) (k : Addr) (hk : C k) (cs post : List (Step V A R))
    (hcs : ∀ st ∈ cs, st.isCS C) (hpost : ∀ st ∈ post, st.isConstRd C) :
    ∀ st ∈ cs ++ Step.rel g :: post, st.writesTo k = false := by
  intro st hst
  rcases List.mem_append.mp hst with h | h
  · exact isCS_nowrite C k hk st (hcs st h)
  · rcases List.mem_cons.mp h with rfl | h
    · rfl
    · exact constRd_nowrite C k st (hpost st h)

/-! ### the serial machine, one step -/

theorem serStep_cons (S : SerState V A R) (t : Nat) (c : Call V A R) (r : List (Call V A R)) [Inhabited V]
    (h : S.todo t = c :: r) :
    (serStep S t).store = (runCall S.store c).1 ∧ (serStep S t).todo = upd S.todo t r ∧
    (serStep S t).res = upd S.res t (S.res t ++ [(runCall S.store c).2]) ∧
    (serStep S t).hist = S.hist ++ [(t, c, (runCall S.store c).2)] ∧ (serStep S t).ok = S.ok := by
  simp [serStep, h]

theorem wOrder_snoc (g : Nat) (h : List (Nat × Call V A R × Option R)) (t : Nat) (c : Call V A R) (r : Option R) :
    wOrder g (h ++ [(t, c, r)]) = wOrder g h ++ (if c.guarded g then [t] else []) := by
  unfold wOrder
  rw [List.filter_append, List.map_append]
  cases hc : c.guarded g <;> simp [hc]

/-! ### the invariant -/

variable [Inhabited V]

/-- the constant part of store `σ` is that of the initial store -/
def AgreeC (C : Addr → Prop) (σ0 σ : Store V) : Prop := ∀ k, C k → σ k = σ0 k

/-- phase of thread `t` and its tie to the serial machine `L` -/
def AThreadInv (g : Nat) (a : Addr) (C : Addr → Prop) (σ0 : Store V) (s : State V A R) (L : SerState V A R) (t : Nat) : Prop :=
  match (s.thr t).cur with
  | none => s.locks g ≠ some t ∧ L.todo t = (s.thr t).todo ∧ L.res t = (s.thr t).done
  | some fr =>
      -- READY: before the linearization point and before the guard; only constant reads so far
      (s.locks g ≠ some t ∧ ∃ c : Call V A R, L.todo t = c :: (s.thr t).todo ∧ L.res t = (s.thr t).done ∧ fr.arg = c.arg ∧
          (∃ pre1, c.body = pre1 ++ fr.pc ∧ ∀ st ∈ pre1, st.isConstRd C) ∧
          (∀ σ, AgreeC C σ0 σ → fr.finish σ = execSteps c.arg (σ, emptyLoc, none) c.body) ∧
          ∃ pre, (∀ st ∈ pre, st.isConstRd C) ∧
            ((∃ cs post, fr.pc = pre ++ Step.acq g :: (cs ++ Step.rel g :: post) ∧ (∀ st ∈ cs, st.isCS C) ∧
                wrCount a cs ≤ 1 ∧ (∀ st ∈ post, st.isConstRd C)) ∨
             (∃ x post, fr.pc = pre ++ Step.rd a x :: post ∧ (∀ st ∈ post, st.isConstRd C))))
      -- W2: in the critical section, its one write of `a` still ahead; the call is NOT in `lin` yet
    ∨ (s.locks g = some t ∧ ∃ c : Call V A R, L.todo t = c :: (s.thr t).todo ∧ L.res t = (s.thr t).done ∧
          (∃ cs post, fr.pc = cs ++ Step.rel g :: post ∧ (∀ st ∈ cs, st.isCS C) ∧ wrCount a cs = 1 ∧
              (∀ st ∈ post, st.isConstRd C)) ∧
          (fr.finish s.store).1 = (runCall L.store c).1 ∧ (fr.finish s.store).2.2 = (runCall L.store c).2 ∧
          wOrder g L.hist ++ [t] = acqOrder g s ∧ c.guarded g = true)
      -- W3: in the critical section, no write of `a` ahead; the call is the last writer of `lin`
    ∨ (s.locks g = some t ∧ L.todo t = (s.thr t).todo ∧ L.res t = (s.thr t).done ++ [(fr.finish s.store).2.2] ∧
          L.store = (fr.finish s.store).1 ∧
          (∃ cs post, fr.pc = cs ++ Step.rel g :: post ∧ (∀ st ∈ cs, st.isCS C) ∧ wrCount a cs = 0 ∧
              (∀ st ∈ post, st.isConstRd C)) ∧
          wOrder g L.hist = acqOrder g s)
      -- TAIL: after the release (writer) / after the load (reader): constant reads only
    ∨ (s.locks g ≠ some t ∧ (∀ st ∈ fr.pc, st.isConstRd C) ∧ L.todo t = (s.thr t).todo ∧
          ∀ σ, AgreeC C σ0 σ → L.res t = (s.thr t).done ++ [(fr.finish σ).2.2])

structure AInv (g : Nat) (a : Addr) (C : Addr → Prop) (σ0 : Store V) (prog : Nat → List (Call V A R)) (s : State V A R)
    (lin : List Nat) : Prop where
  thr : ∀ t, AThreadInv g a C σ0 s (serial σ0 prog lin) t
  free : s.locks g = none → s.store = (serial σ0 prog lin).store ∧ wOrder g (serial σ0 prog lin).hist = acqOrder g s
  ok : (serial σ0 prog lin).ok = true
  sh : ∀ t, ∀ c ∈ (s.thr t).todo, AShape g a C c.body
  cs : AgreeC C σ0 s.store
  cL : AgreeC C σ0 (serial σ0 prog lin).store
  atom : s.store a = (serial σ0 prog lin).store a

/-- a thread other than the one that moved keeps its invariant -/
theorem athreadInv_other (g : Nat) (a : Addr) (C : Addr → Prop) (σ0 : Store V) (s s' : State V A R) (L L' : SerState V A R)
    (t' : Nat)
    (hthr : s'.thr t' = s.thr t')
    (hlk : s'.locks g = some t' ↔ s.locks g = some t')
    (htodo : L'.todo t' = L.todo t') (hres : L'.res t' = L.res t')
    (hst : s.locks g = some t' → s'.store = s.store ∧ L'.store = L.store ∧ wOrder g L'.hist = wOrder g L.hist ∧
        acqOrder g s' = acqOrder g s)
    (h : AThreadInv g a C σ0 s L t') : AThreadInv g a C σ0 s' L' t' := by
  unfold AThreadInv at h ⊢
  rw [hthr]
  cases hc : (s.thr t').cur with
  | none =>
    rw [hc] at h
    simp only at h ⊢
    exact ⟨fun hh => h.1 (hlk.mp hh), by rw [htodo]; exact h.2.1, by rw [hres]; exact h.2.2⟩
  | some fr =>
    rw [hc] at h
    simp only at h ⊢
    rcases h with ⟨hn, c, ht, hr, ha, hsuf, hfin, hpc⟩ | ⟨hh, c, ht, hr, hpc, hf1, hf2, ho, hg⟩ | ⟨hh, ht, hr, hs, hpc, ho⟩ | ⟨hn, hl, ht, hr⟩
    · exact Or.inl ⟨fun hh => hn (hlk.mp hh), c, by rw [htodo]; exact ht, by rw [hres]; exact hr, ha, hsuf, hfin, hpc⟩
    · obtain ⟨e1, e2, e3, e4⟩ := hst hh
      refine Or.inr (Or.inl ⟨hlk.mpr hh, c, by rw [htodo]; exact ht, by rw [hres]; exact hr, hpc, ?_, ?_, ?_, hg⟩)
      · rw [e1, e2]; exact hf1
      · rw [e1, e2]; exact hf2
      · rw [e3, e4]; exact ho
    · obtain ⟨e1, e2, e3, e4⟩ := hst hh
      refine Or.inr (Or.inr (Or.inl ⟨hlk.mpr hh, by rw [htodo]; exact ht, ?_, ?_, hpc, ?_⟩))
      · rw [hres, e1]; exact hr
      · rw [e1, e2]; exact hs
      · rw [e3, e4]; exact ho
    · exact Or.inr (Or.inr (Or.inr ⟨fun hh => hn (hlk.mp hh), hl, by rw [htodo]; exact ht, fun σ hσ => by rw [hres]; exact hr σ hσ⟩))

/-! ### re-assembling the invariant after a step of thread `t` -/

theorem ainv_assemble (g : Nat) (a : Addr) (C : Addr → Prop) (σ0 : Store V) (prog : Nat → List (Call V A R))
    (s s' : State V A R) (lin lin' : List Nat) (t : Nat) (th' : Thread V A R)
    (hI : AInv g a C σ0 prog s lin)
    (hthr : s'.thr = upd s.thr t th')
    (hlk : ∀ t', t' ≠ t → (s'.locks g = some t' ↔ s.locks g = some t'))
    (hLtodo : ∀ t', t' ≠ t → (serial σ0 prog lin').todo t' = (serial σ0 prog lin).todo t')
    (hLres : ∀ t', t' ≠ t → (serial σ0 prog lin').res t' = (serial σ0 prog lin).res t')
    (hoth : ∀ t', t' ≠ t → s.locks g = some t' → s'.store = s.store ∧
        (serial σ0 prog lin').store = (serial σ0 prog lin).store ∧
        wOrder g (serial σ0 prog lin').hist = wOrder g (serial σ0 prog lin).hist ∧ acqOrder g s' = acqOrder g s)
    (hT : AThreadInv g a C σ0 s' (serial σ0 prog lin') t)
    (hfree : s'.locks g = none → s'.store = (serial σ0 prog lin').store ∧
        wOrder g (serial σ0 prog lin').hist = acqOrder g s')
    (hok : (serial σ0 prog lin').ok = true)
    (htodo : ∀ c ∈ th'.todo, AShape g a C c.body)
    (hcs : AgreeC C σ0 s'.store) (hcL : AgreeC C σ0 (serial σ0 prog lin').store)
    (hat : s'.store a = (serial σ0 prog lin').store a) : AInv g a C σ0 prog s' lin' := by
  refine ⟨fun t' => ?_, hfree, hok, ?_, hcs, hcL, hat⟩
  · by_cases ht' : t' = t
    · subst ht'; exact hT
    · refine athreadInv_other g a C σ0 s s' _ _ t' ?_ (hlk t' ht') (hLtodo t' ht') (hLres t' ht') (hoth t' ht') (hI.thr t')
      rw [hthr]; exact upd_other _ _ _ _ ht'
  · intro t' c hc'
    by_cases ht' : t' = t
    · subst ht'
      rw [hthr, upd_same] at hc'
      exact htodo c hc'
    · rw [hthr, upd_other _ _ _ _ ht'] at hc'
      exact hI.sh t' c hc'

/-- a step of thread `t` that changes neither the store, nor the locks, nor the log, nor `lin` -/
theorem ainv_quiet (g : Nat) (a : Addr) (C : Addr → Prop) (σ0 : Store V) (prog : Nat → List (Call V A R))
    (s s' : State V A R) (lin : List Nat) (t : Nat) (th' : Thread V A R)
    (hI : AInv g a C σ0 prog s lin)
    (e1 : s'.store = s.store) (e2 : s'.locks = s.locks) (e3 : s'.log = s.log) (e4 : s'.thr = upd s.thr t th')
    (htodo : ∀ c ∈ th'.todo, AShape g a C c.body)
    (hT : AThreadInv g a C σ0 s' (serial σ0 prog lin) t) : AInv g a C σ0 prog s' lin := by
  have hA : acqOrder g s' = acqOrder g s := acqOrder_log_same g s s' e3
  refine ainv_assemble g a C σ0 prog s s' lin lin t th' hI e4 (fun t' _ => by rw [e2]) (fun _ _ => rfl) (fun _ _ => rfl)
    (fun _ _ _ => ⟨e1, rfl, rfl, hA⟩) hT ?_ hI.ok htodo (by rw [e1]; exact hI.cs) hI.cL (by rw [e1]; exact hI.atom)
  intro h
  rw [e1, hA]
  exact hI.free (by rw [← e2]; exact h)

/-! ### every micro-step preserves the invariant, phase by phase -/

theorem ainv_step_idle (g : Nat) (a : Addr) (C : Addr → Prop) (σ0 : Store V) (prog : Nat → List (Call V A R))
    (s : State V A R) (lin : List Nat) (t : Nat) (hI : AInv g a C σ0 prog s lin) (hc : (s.thr t).cur = none) :
    AInv g a C σ0 prog (step s t) lin := by
  have hT := hI.thr t
  unfold AThreadInv at hT
  rw [hc] at hT
  simp only at hT
  obtain ⟨hn, htodo, hres⟩ := hT
  cases htd : (s.thr t).todo with
  | nil => rw [step_idle s t hc htd]; exact hI
  | cons c r =>
    obtain ⟨e1, e2, e3, e4⟩ := step_call s t c r hc htd
    refine ainv_quiet g a C σ0 prog s _ lin t _ hI e1 e2 e3 e4 ?_ ?_
    · intro c' hc'
      exact hI.sh t c' (by rw [htd]; simp [hc'])
    · unfold AThreadInv
      rw [e4, upd_same, e2]
      simp only
      refine Or.inl ⟨hn, c, by rw [htodo, htd], hres, rfl, ⟨[], by simp, by simp⟩, fun σ _ => rfl, ?_⟩
      rcases hI.sh t c (by rw [htd]; simp) with ⟨pre, cs, post, hb, hpre, hcs, hw, hpost⟩ | ⟨pre, x, post, hb, hpre, hpost⟩
      · exact ⟨pre, hpre, Or.inl ⟨cs, post, hb, hcs, hw, hpost⟩⟩
      · exact ⟨pre, hpre, Or.inr ⟨x, post, hb, hpost⟩⟩

theorem ainv_step_tail (g : Nat) (a : Addr) (C : Addr → Prop) (σ0 : Store V) (prog : Nat → List (Call V A R))
    (s : State V A R) (lin : List Nat) (t : Nat) (hI : AInv g a C σ0 prog s lin) (fr : Frame V A R)
    (hc : (s.thr t).cur = some fr)
    (hn : s.locks g ≠ some t) (hl : ∀ st ∈ fr.pc, st.isConstRd C)
    (ht : (serial σ0 prog lin).todo t = (s.thr t).todo)
    (hr : ∀ σ, AgreeC C σ0 σ → (serial σ0 prog lin).res t = (s.thr t).done ++ [(fr.finish σ).2.2]) :
    AInv g a C σ0 prog (step s t) lin := by
  cases hp : fr.pc with
  | nil =>
    obtain ⟨e1, e2, e3, e4⟩ := step_return s t fr hc hp
    refine ainv_quiet g a C σ0 prog s _ lin t _ hI e1 e2 e3 e4 (fun c' hc' => hI.sh t c' hc') ?_
    unfold AThreadInv
    rw [e4, upd_same, e2]
    simp only
    refine ⟨hn, ht, ?_⟩
    have := hr s.store hI.cs
    simpa [Frame.finish, hp] using this
  | cons st pc =>
    have hd := hl st (by rw [hp]; simp)
    have hl' : ∀ x ∈ pc, x.isConstRd C := fun x hx => hl x (by rw [hp]; simp [hx])
    cases st with
    | acq m => simp [Step.isConstRd] at hd
    | rel m => simp [Step.isConstRd] at hd
    | wr ad e => simp [Step.isConstRd] at hd
    | ret e =>
      obtain ⟨e1, e2, e3, e4⟩ := step_ret s t fr e pc hc hp
      refine ainv_quiet g a C σ0 prog s _ lin t _ hI e1 e2 e3 e4 (fun c' hc' => hI.sh t c' hc') ?_
      unfold AThreadInv
      rw [e4, upd_same, e2]
      simp only
      refine Or.inr (Or.inr (Or.inr ⟨hn, hl', ht, fun σ hσ => ?_⟩))
      rw [hr σ hσ, finish_cons σ fr _ _ hp]; rfl
    | rd k x =>
      simp only [Step.isConstRd] at hd
      obtain ⟨e1, e2, e3, e4⟩ := step_rd s t fr k x pc hc hp
      refine ainv_quiet g a C σ0 prog s _ lin t _ hI e1 e2 e3 e4 (fun c' hc' => hI.sh t c' hc') ?_
      unfold AThreadInv
      rw [e4, upd_same, e2]
      simp only
      refine Or.inr (Or.inr (Or.inr ⟨hn, hl', ht, fun σ hσ => ?_⟩))
      rw [hr σ hσ, finish_cons σ fr _ _ hp]
      simp only [execStep, Frame.finish]
      rw [hσ k hd, hI.cs k hd]

theorem ainv_step_w3 (g : Nat) (a : Addr) (C : Addr → Prop) (σ0 : Store V) (prog : Nat → List (Call V A R))
    (s : State V A R) (lin : List Nat) (t : Nat) (hI : AInv g a C σ0 prog s lin) (fr : Frame V A R)
    (hc : (s.thr t).cur = some fr)
    (hh : s.locks g = some t) (ht : (serial σ0 prog lin).todo t = (s.thr t).todo)
    (hr : (serial σ0 prog lin).res t = (s.thr t).done ++ [(fr.finish s.store).2.2])
    (hs : (serial σ0 prog lin).store = (fr.finish s.store).1)
    (cs post : List (Step V A R)) (hpc : fr.pc = cs ++ Step.rel g :: post) (hcs : ∀ st ∈ cs, st.isCS C)
    (hw : wrCount a cs = 0) (hpost : ∀ st ∈ post, st.isConstRd C)
    (ho : wOrder g (serial σ0 prog lin).hist = acqOrder g s) :
    AInv g a C σ0 prog (step s t) lin := by
  have hothers : ∀ t', t' ≠ t → s.locks g = some t' → False := by
    intro t' ht' h; rw [hh] at h; injection h with h; exact ht' h.symm
  cases cs with
  | nil =>
    -- the release
    simp only [List.nil_append] at hpc
    obtain ⟨e1, e2, e3, e4⟩ := step_rel s t fr g post hc hpc hh
    have hA : acqOrder g (step s t) = acqOrder g s := acqOrder_log_same g s _ e3
    have hfs : fr.finish s.store = execSteps fr.arg (s.store, fr.loc, fr.ret) post := by
      rw [finish_cons s.store fr _ _ hpc]; rfl
    refine ainv_assemble g a C σ0 prog s _ lin lin t _ hI e4 ?_ (fun _ _ => rfl) (fun _ _ => rfl)
      (fun t' ht' h => (hothers t' ht' h).elim) ?_ ?_ hI.ok (fun c' hc' => hI.sh t c' hc') (by rw [e1]; exact hI.cs) hI.cL
      (by rw [e1]; exact hI.atom)
    · intro t' ht'
      rw [e2, upd_same, hh]
      constructor
      · intro h; cases h
      · intro h; injection h with h; exact absurd h.symm ht'
    · unfold AThreadInv
      rw [e4, upd_same, e2, upd_same]
      simp only
      refine Or.inr (Or.inr (Or.inr ⟨by simp, hpost, ht, fun σ hσ => ?_⟩))
      rw [hr, hfs]
      simp only [Frame.finish]
      have := exec_constRd_indep C fr.arg post hpost s.store σ (fun k hk => by rw [hI.cs k hk, hσ k hk]) fr.loc fr.ret
      rw [this]
    · intro _
      rw [e1, hA, hs, hfs]
      exact ⟨(exec_constRd_store C fr.arg post hpost s.store fr.loc fr.ret).symm, ho⟩
  | cons st cs' =>
    simp only [List.cons_append] at hpc
    have hd := hcs st (by simp)
    have hcs' : ∀ x ∈ cs', x.isCS C := fun x hx => hcs x (by simp [hx])
    have hw' : wrCount a cs' = 0 ∧ st.writesTo a = false := by
      rw [wrCount_cons] at hw
      cases hwt : st.writesTo a <;> simp [hwt] at hw ⊢ <;> omega
    cases st with
    | acq m => simp [Step.isCS] at hd
    | rel m => simp [Step.isCS] at hd
    | rd ad x =>
      obtain ⟨e1, e2, e3, e4⟩ := step_rd s t fr ad x _ hc hpc
      refine ainv_quiet g a C σ0 prog s _ lin t _ hI e1 e2 e3 e4 (fun c' hc' => hI.sh t c' hc') ?_
      unfold AThreadInv
      rw [e4, upd_same, e2, e1]
      simp only
      refine Or.inr (Or.inr (Or.inl ⟨hh, ht, ?_, ?_, ⟨cs', post, rfl, hcs', hw'.1, hpost⟩, ?_⟩))
      · rw [hr, finish_cons s.store fr _ _ hpc]; rfl
      · rw [hs, finish_cons s.store fr _ _ hpc]; rfl
      · rw [acqOrder_log_same g s _ e3]; exact ho
    | ret e =>
      obtain ⟨e1, e2, e3, e4⟩ := step_ret s t fr e _ hc hpc
      refine ainv_quiet g a C σ0 prog s _ lin t _ hI e1 e2 e3 e4 (fun c' hc' => hI.sh t c' hc') ?_
      unfold AThreadInv
      rw [e4, upd_same, e2, e1]
      simp only
      refine Or.inr (Or.inr (Or.inl ⟨hh, ht, ?_, ?_, ⟨cs', post, rfl, hcs', hw'.1, hpost⟩, ?_⟩))
      · rw [hr, finish_cons s.store fr _ _ hpc]; rfl
      · rw [hs, finish_cons s.store fr _ _ hpc]; rfl
      · rw [acqOrder_log_same g s _ e3]; exact ho
    | wr ad e =>
      obtain ⟨e1, e2, e3, e4⟩ := step_wr s t fr ad e _ hc hpc
      have hA : acqOrder g (step s t) = acqOrder g s := acqOrder_log_same g s _ e3
      simp only [Step.isCS] at hd
      have hne : ad ≠ a := by
        have := hw'.2
        simpa [Step.writesTo] using this
      refine ainv_assemble g a C σ0 prog s _ lin lin t _ hI e4 (fun t' _ => by rw [e2]) (fun _ _ => rfl) (fun _ _ => rfl)
        (fun t' ht' h => (hothers t' ht' h).elim) ?_ (fun h => by rw [e2, hh] at h; cases h) hI.ok
        (fun c' hc' => hI.sh t c' hc') ?_ hI.cL ?_
      · unfold AThreadInv
        rw [e4, upd_same, e2, e1]
        simp only
        refine Or.inr (Or.inr (Or.inl ⟨hh, ht, ?_, ?_, ⟨cs', post, rfl, hcs', hw'.1, hpost⟩, ?_⟩))
        · rw [hr, finish_cons s.store fr _ _ hpc]; rfl
        · rw [hs, finish_cons s.store fr _ _ hpc]; rfl
        · rw [hA]; exact ho
      · intro k hk
        rw [e1, upd_other _ _ _ _ (fun h : k = ad => hd (h ▸ hk))]
        exact hI.cs k hk
      · rw [e1, upd_other _ _ _ _ (fun h => hne h.symm)]
        exact hI.atom

theorem ainv_step_w2 (g : Nat) (a : Addr) (C : Addr → Prop) (σ0 : Store V) (prog : Nat → List (Call V A R))
    (s : State V A R) (lin : List Nat) (t : Nat) (hI : AInv g a C σ0 prog s lin) (fr : Frame V A R)
    (hc : (s.thr t).cur = some fr)
    (hh : s.locks g = some t) (c : Call V A R) (ht : (serial σ0 prog lin).todo t = c :: (s.thr t).todo)
    (hr : (serial σ0 prog lin).res t = (s.thr t).done)
    (cs post : List (Step V A R)) (hpc : fr.pc = cs ++ Step.rel g :: post) (hcs : ∀ st ∈ cs, st.isCS C)
    (hw : wrCount a cs = 1) (hpost : ∀ st ∈ post, st.isConstRd C)
    (hf1 : (fr.finish s.store).1 = (runCall (serial σ0 prog lin).store c).1)
    (hf2 : (fr.finish s.store).2.2 = (runCall (serial σ0 prog lin).store c).2)
    (ho : wOrder g (serial σ0 prog lin).hist ++ [t] = acqOrder g s) (hg : c.guarded g = true) :
    ∃ lin', AInv g a C σ0 prog (step s t) lin' := by
  have hothers : ∀ t', t' ≠ t → s.locks g = some t' → False := by
    intro t' ht' h; rw [hh] at h; injection h with h; exact ht' h.symm
  cases cs with
  | nil => simp [wrCount_nil] at hw
  | cons st cs' =>
    simp only [List.cons_append] at hpc
    have hd := hcs st (by simp)
    have hcs' : ∀ x ∈ cs', x.isCS C := fun x hx => hcs x (by simp [hx])
    rw [wrCount_cons] at hw
    cases st with
    | acq m => simp [Step.isCS] at hd
    | rel m => simp [Step.isCS] at hd
    | rd ad x =>
      have hw' : wrCount a cs' = 1 := by simpa [Step.writesTo] using hw
      obtain ⟨e1, e2, e3, e4⟩ := step_rd s t fr ad x _ hc hpc
      refine ⟨lin, ainv_quiet g a C σ0 prog s _ lin t _ hI e1 e2 e3 e4 (fun c' hc' => hI.sh t c' hc') ?_⟩
      unfold AThreadInv
      rw [e4, upd_same, e2, e1]
      simp only
      refine Or.inr (Or.inl ⟨hh, c, ht, hr, ⟨cs', post, rfl, hcs', hw', hpost⟩, ?_, ?_, ?_, hg⟩)
      · rw [← hf1, finish_cons s.store fr _ _ hpc]; rfl
      · rw [← hf2, finish_cons s.store fr _ _ hpc]; rfl
      · rw [acqOrder_log_same g s _ e3]; exact ho
    | ret e =>
      have hw' : wrCount a cs' = 1 := by simpa [Step.writesTo] using hw
      obtain ⟨e1, e2, e3, e4⟩ := step_ret s t fr e _ hc hpc
      refine ⟨lin, ainv_quiet g a C σ0 prog s _ lin t _ hI e1 e2 e3 e4 (fun c' hc' => hI.sh t c' hc') ?_⟩
      unfold AThreadInv
      rw [e4, upd_same, e2, e1]
      simp only
      refine Or.inr (Or.inl ⟨hh, c, ht, hr, ⟨cs', post, rfl, hcs', hw', hpost⟩, ?_, ?_, ?_, hg⟩)
      · rw [← hf1, finish_cons s.store fr _ _ hpc]; rfl
      · rw [← hf2, finish_cons s.store fr _ _ hpc]; rfl
      · rw [acqOrder_log_same g s _ e3]; exact ho
    | wr ad e =>
      obtain ⟨e1, e2, e3, e4⟩ := step_wr s t fr ad e _ hc hpc
      have hA : acqOrder g (step s t) = acqOrder g s := acqOrder_log_same g s _ e3
      simp only [Step.isCS] at hd
      have hfin : fr.finish s.store =
          execSteps fr.arg (upd s.store ad (e fr.loc fr.arg), fr.loc, fr.ret) (cs' ++ Step.rel g :: post) := by
        rw [finish_cons s.store fr _ _ hpc]; rfl
      have hcs1 : AgreeC C σ0 (step s t).store := by
        intro k hk
        rw [e1, upd_other _ _ _ _ (fun h : k = ad => hd (h ▸ hk))]
        exact hI.cs k hk
      by_cases hne : ad = a
      · -- the write of `a`: the linearization point
        subst hne
        have hw' : wrCount ad cs' = 0 := by simpa [Step.writesTo] using hw
        obtain ⟨s1, s2, s3, s4, s5⟩ := serStep_cons (serial σ0 prog lin) t c _ ht
        have hSer : serial σ0 prog (lin ++ [t]) = serStep (serial σ0 prog lin) t := serial_snoc σ0 prog lin t
        have hstore' : (serial σ0 prog (lin ++ [t])).store = (fr.finish s.store).1 := by rw [hSer, s1, hf1]
        refine ⟨lin ++ [t], ainv_assemble g ad C σ0 prog s _ lin (lin ++ [t]) t _ hI e4 (fun t' _ => by rw [e2]) ?_ ?_
          (fun t' ht' h => (hothers t' ht' h).elim) ?_ (fun h => by rw [e2, hh] at h; cases h) (by rw [hSer, s5]; exact hI.ok)
          (fun c' hc' => hI.sh t c' hc') hcs1 ?_ ?_⟩
        · intro t' ht'; rw [hSer, s2, upd_other _ _ _ _ ht']
        · intro t' ht'; rw [hSer, s3, upd_other _ _ _ _ ht']
        · unfold AThreadInv
          rw [e4, upd_same, e2, e1]
          simp only
          refine Or.inr (Or.inr (Or.inl ⟨hh, ?_, ?_, ?_, ⟨cs', post, rfl, hcs', hw', hpost⟩, ?_⟩))
          · rw [hSer, s2, upd_same]
          · rw [hSer, s3, upd_same, hr, ← hf2, hfin]; rfl
          · rw [hstore', hfin]; rfl
          · rw [hSer, s4, wOrder_snoc, hg, hA]; exact ho
        · intro k hk
          rw [hstore', hfin, exec_at_of_nowrite fr.arg k _ (tail_nowrite_const g C k hk cs' post hcs' hpost)]
          have := hcs1 k hk
          rw [e1] at this; exact this
        · rw [hstore', hfin, exec_at_of_nowrite fr.arg ad _ (tail_nowrite_a g ad C cs' post hw' hpost), e1]
      · have hw' : wrCount a cs' = 1 := by simpa [Step.writesTo, hne] using hw
        refine ⟨lin, ainv_assemble g a C σ0 prog s _ lin lin t _ hI e4 (fun t' _ => by rw [e2]) (fun _ _ => rfl) (fun _ _ => rfl)
          (fun t' ht' h => (hothers t' ht' h).elim) ?_ (fun h => by rw [e2, hh] at h; cases h) hI.ok
          (fun c' hc' => hI.sh t c' hc') hcs1 hI.cL ?_⟩
        · unfold AThreadInv
          rw [e4, upd_same, e2, e1]
          simp only
          refine Or.inr (Or.inl ⟨hh, c, ht, hr, ⟨cs', post, rfl, hcs', hw', hpost⟩, ?_, ?_, ?_, hg⟩)
          · rw [← hf1, hfin]; rfl
          · rw [← hf2, hfin]; rfl
          · rw [hA]; exact ho
        · rw [e1, upd_other _ _ _ _ (fun h : a = ad => hne h.symm)]
          exact hI.atom

omit [Inhabited V] in
theorem guarded_of_suffix (g : Nat) (c : Call V A R) (pre1 rest : List (Step V A R)) (h : c.body = pre1 ++ Step.acq g :: rest) :
    c.guarded g = true := by
  unfold Call.guarded
  rw [h, List.any_append]
  simp [Step.isAcq]

omit [Inhabited V] in
theorem not_guarded_reader (g : Nat) (a : Addr) (C : Addr → Prop) (c : Call V A R) (pre x post)
    (h : c.body = pre ++ Step.rd a x :: post) (hpre : ∀ st ∈ pre, st.isConstRd C) (hpost : ∀ st ∈ post, st.isConstRd C) :
    c.guarded g = false := by
  unfold Call.guarded
  rw [h, List.any_eq_false]
  intro st hst
  have hcr : ∀ st : Step V A R, st.isConstRd C → ¬ (st.isAcq g = true) := by
    intro st h; cases st <;> simp [Step.isConstRd] at h <;> simp [Step.isAcq]
  rcases List.mem_append.mp hst with h1 | h1
  · exact hcr st (hpre st h1)
  · rcases List.mem_cons.mp h1 with rfl | h1
    · simp [Step.isAcq]
    · exact hcr st (hpost st h1)

omit [Inhabited V] in
theorem reader_nowrite (a : Addr) (C : Addr → Prop) (k : Addr) (pre : List (Step V A R)) (x : Var) (post : List (Step V A R))
    (hpre : ∀ st ∈ pre, st.isConstRd C) (hpost : ∀ st ∈ post, st.isConstRd C) :
    ∀ st ∈ pre ++ Step.rd a x :: post, st.writesTo k = false := by
  intro st hst
  rcases List.mem_append.mp hst with h1 | h1
  · exact constRd_nowrite C k st (hpre st h1)
  · rcases List.mem_cons.mp h1 with rfl | h1
    · rfl
    · exact constRd_nowrite C k st (hpost st h1)

theorem ainv_step_ready (g : Nat) (a : Addr) (C : Addr → Prop) (σ0 : Store V) (prog : Nat → List (Call V A R))
    (s : State V A R) (lin : List Nat) (t : Nat) (hI : AInv g a C σ0 prog s lin) (fr : Frame V A R)
    (hc : (s.thr t).cur = some fr)
    (hn : s.locks g ≠ some t) (c : Call V A R) (ht : (serial σ0 prog lin).todo t = c :: (s.thr t).todo)
    (hr : (serial σ0 prog lin).res t = (s.thr t).done) (ha : fr.arg = c.arg)
    (pre1 : List (Step V A R)) (hsuf : c.body = pre1 ++ fr.pc) (hpre1 : ∀ st ∈ pre1, st.isConstRd C)
    (hfin : ∀ σ, AgreeC C σ0 σ → fr.finish σ = execSteps c.arg (σ, emptyLoc, none) c.body)
    (pre : List (Step V A R)) (hpre : ∀ st ∈ pre, st.isConstRd C)
    (hpc : (∃ cs post, fr.pc = pre ++ Step.acq g :: (cs ++ Step.rel g :: post) ∧ (∀ st ∈ cs, st.isCS C) ∧
                wrCount a cs ≤ 1 ∧ (∀ st ∈ post, st.isConstRd C)) ∨
           (∃ x post, fr.pc = pre ++ Step.rd a x :: post ∧ (∀ st ∈ post, st.isConstRd C))) :
    ∃ lin', AInv g a C σ0 prog (step s t) lin' := by
  cases pre with
  | cons p pre' =>
    -- a constant read / local step before the guard or the load
    have hp : ∃ pc, fr.pc = p :: pc ∧
        ((∃ cs post, pc = pre' ++ Step.acq g :: (cs ++ Step.rel g :: post) ∧ (∀ st ∈ cs, st.isCS C) ∧
                wrCount a cs ≤ 1 ∧ (∀ st ∈ post, st.isConstRd C)) ∨
         (∃ x post, pc = pre' ++ Step.rd a x :: post ∧ (∀ st ∈ post, st.isConstRd C))) := by
      rcases hpc with ⟨cs, post, h, h2⟩ | ⟨x, post, h, h2⟩
      · exact ⟨_, by rw [h]; rfl, Or.inl ⟨cs, post, rfl, h2⟩⟩
      · exact ⟨_, by rw [h]; rfl, Or.inr ⟨x, post, rfl, h2⟩⟩
    obtain ⟨pc, hp, hpc'⟩ := hp
    have hd := hpre p (by simp)
    have hpre' : ∀ x ∈ pre', x.isConstRd C := fun x hx => hpre x (by simp [hx])
    have hsuf' : c.body = (pre1 ++ [p]) ++ pc := by rw [hsuf, hp]; simp
    have hpre1' : ∀ st ∈ pre1 ++ [p], st.isConstRd C := by
      intro st hst
      rcases List.mem_append.mp hst with h | h
      · exact hpre1 st h
      · simp only [List.mem_singleton] at h; subst h; exact hd
    cases p with
    | acq m => simp [Step.isConstRd] at hd
    | rel m => simp [Step.isConstRd] at hd
    | wr ad e => simp [Step.isConstRd] at hd
    | ret e =>
      obtain ⟨e1, e2, e3, e4⟩ := step_ret s t fr e pc hc hp
      refine ⟨lin, ainv_quiet g a C σ0 prog s _ lin t _ hI e1 e2 e3 e4 (fun c' hc' => hI.sh t c' hc') ?_⟩
      unfold AThreadInv
      rw [e4, upd_same, e2]
      simp only
      refine Or.inl ⟨hn, c, ht, hr, ha, ⟨pre1 ++ [Step.ret e], hsuf', hpre1'⟩, fun σ hσ => ?_, pre', hpre', hpc'⟩
      rw [← hfin σ hσ, finish_cons σ fr _ _ hp]; rfl
    | rd k x =>
      simp only [Step.isConstRd] at hd
      obtain ⟨e1, e2, e3, e4⟩ := step_rd s t fr k x pc hc hp
      refine ⟨lin, ainv_quiet g a C σ0 prog s _ lin t _ hI e1 e2 e3 e4 (fun c' hc' => hI.sh t c' hc') ?_⟩
      unfold AThreadInv
      rw [e4, upd_same, e2]
      simp only
      refine Or.inl ⟨hn, c, ht, hr, ha, ⟨pre1 ++ [Step.rd k x], hsuf', hpre1'⟩, fun σ hσ => ?_, pre', hpre', hpc'⟩
      rw [← hfin σ hσ, finish_cons σ fr _ _ hp]
      simp only [execStep, Frame.finish]
      rw [hσ k hd, hI.cs k hd]
  | nil =>
    simp only [List.nil_append] at hpc
    rcases hpc with ⟨cs, post, hp, hcs, hw, hpost⟩ | ⟨x, post, hp, hpost⟩
    · -- a writer at its `acq g`
      by_cases hfree : s.locks g = none
      · obtain ⟨e1, e2, e3, e4⟩ := step_acq s t fr g _ hc hp hfree
        have hA : acqOrder g (step s t) = acqOrder g s ++ [t] := acqOrder_log_snoc g s _ t e3
        obtain ⟨hst0, hord0⟩ := hI.free hfree
        have hguard : c.guarded g = true := guarded_of_suffix g c pre1 _ (by rw [hsuf, hp])
        have hK : fr.finish s.store = execSteps c.arg (s.store, emptyLoc, none) c.body := hfin s.store hI.cs
        have hK' : fr.finish s.store = execSteps fr.arg (s.store, fr.loc, fr.ret) (cs ++ Step.rel g :: post) := by
          rw [finish_cons s.store fr _ _ hp]; rfl
        have hrun : runCall (serial σ0 prog lin).store c = ((fr.finish s.store).1, (fr.finish s.store).2.2) := by
          rw [hK, ← hst0]; rfl
        have hlk : ∀ t', t' ≠ t → ((step s t).locks g = some t' ↔ s.locks g = some t') := by
          intro t' ht'
          rw [e2, upd_same, hfree]
          constructor
          · intro h; injection h with h; exact absurd h.symm ht'
          · intro h; cases h
        have hoth : ∀ t', t' ≠ t → s.locks g = some t' → False := by
          intro t' _ h; rw [hfree] at h; cases h
        by_cases hw0 : wrCount a cs = 0
        · -- no write of `a` in the critical section: linearized at the acquisition
          obtain ⟨s1, s2, s3, s4, s5⟩ := serStep_cons (serial σ0 prog lin) t c _ ht
          have hSer : serial σ0 prog (lin ++ [t]) = serStep (serial σ0 prog lin) t := serial_snoc σ0 prog lin t
          have hstore' : (serial σ0 prog (lin ++ [t])).store = (fr.finish s.store).1 := by rw [hSer, s1, hrun]
          refine ⟨lin ++ [t], ainv_assemble g a C σ0 prog s _ lin (lin ++ [t]) t _ hI e4 hlk ?_ ?_
            (fun t' ht' h => (hoth t' ht' h).elim) ?_ (fun h => by rw [e2, upd_same] at h; cases h)
            (by rw [hSer, s5]; exact hI.ok) (fun c' hc' => hI.sh t c' hc') (by rw [e1]; exact hI.cs) ?_ ?_⟩
          · intro t' ht'; rw [hSer, s2, upd_other _ _ _ _ ht']
          · intro t' ht'; rw [hSer, s3, upd_other _ _ _ _ ht']
          · unfold AThreadInv
            rw [e4, upd_same, e2, e1]
            simp only [upd_same]
            refine Or.inr (Or.inr (Or.inl ⟨trivial, ?_, ?_, ?_, ⟨cs, post, rfl, hcs, hw0, hpost⟩, ?_⟩))
            · rw [hSer, s2, upd_same]
            · rw [hSer, s3, upd_same, hr, hrun, hK']; rfl
            · rw [hstore', hK']; rfl
            · rw [hSer, s4, wOrder_snoc, hguard, hA, hord0]; rfl
          · intro k hk
            rw [hstore', hK', exec_at_of_nowrite fr.arg k _ (tail_nowrite_const g C k hk cs post hcs hpost)]
            exact hI.cs k hk
          · rw [hstore', hK', exec_at_of_nowrite fr.arg a _ (tail_nowrite_a g a C cs post hw0 hpost), e1]
        · -- one write of `a` ahead: not linearized yet
          have hw1 : wrCount a cs = 1 := by omega
          refine ⟨lin, ainv_assemble g a C σ0 prog s _ lin lin t _ hI e4 hlk (fun _ _ => rfl) (fun _ _ => rfl)
            (fun t' ht' h => (hoth t' ht' h).elim) ?_ (fun h => by rw [e2, upd_same] at h; cases h) hI.ok
            (fun c' hc' => hI.sh t c' hc') (by rw [e1]; exact hI.cs) hI.cL (by rw [e1]; exact hI.atom)⟩
          unfold AThreadInv
          rw [e4, upd_same, e2, e1]
          simp only [upd_same]
          refine Or.inr (Or.inl ⟨trivial, c, ht, hr, ⟨cs, post, rfl, hcs, hw1, hpost⟩, ?_, ?_, ?_, hguard⟩)
          · rw [hrun, hK']; rfl
          · rw [hrun, hK']; rfl
          · rw [hA, hord0]
      · rw [step_acq_blocked s t fr g _ hc hp hfree]; exact ⟨lin, hI⟩
    · -- a reader at its load of `a`: linearized here
      obtain ⟨e1, e2, e3, e4⟩ := step_rd s t fr a x post hc hp
      have hA : acqOrder g (step s t) = acqOrder g s := acqOrder_log_same g s _ e3
      obtain ⟨s1, s2, s3, s4, s5⟩ := serStep_cons (serial σ0 prog lin) t c _ ht
      have hSer : serial σ0 prog (lin ++ [t]) = serStep (serial σ0 prog lin) t := serial_snoc σ0 prog lin t
      have hbody : c.body = pre1 ++ Step.rd a x :: post := by rw [hsuf, hp]
      have hstore' : (serial σ0 prog (lin ++ [t])).store = (serial σ0 prog lin).store := by
        rw [hSer, s1]
        funext k
        show (execSteps c.arg ((serial σ0 prog lin).store, emptyLoc, none) c.body).1 k = _
        rw [hbody]
        exact exec_at_of_nowrite c.arg k _ (reader_nowrite a C k pre1 x post hpre1 hpost) _ _ _
      have hng : c.guarded g = false := not_guarded_reader g a C c pre1 x post hbody hpre1 hpost
      have hhist : wOrder g (serial σ0 prog (lin ++ [t])).hist = wOrder g (serial σ0 prog lin).hist := by
        rw [hSer, s4, wOrder_snoc, hng]; simp
      refine ⟨lin ++ [t], ainv_assemble g a C σ0 prog s _ lin (lin ++ [t]) t _ hI e4 (fun t' _ => by rw [e2]) ?_ ?_
        (fun _ _ _ => ⟨e1, hstore', hhist, hA⟩) ?_ ?_ (by rw [hSer, s5]; exact hI.ok) (fun c' hc' => hI.sh t c' hc')
        (by rw [e1]; exact hI.cs) (by rw [hstore']; exact hI.cL) (by rw [hstore', e1]; exact hI.atom)⟩
      · intro t' ht'; rw [hSer, s2, upd_other _ _ _ _ ht']
      · intro t' ht'; rw [hSer, s3, upd_other _ _ _ _ ht']
      · unfold AThreadInv
        rw [e4, upd_same, e2]
        simp only
        refine Or.inr (Or.inr (Or.inr ⟨hn, hpost, by rw [hSer, s2, upd_same], fun σ hσ => ?_⟩))
        rw [hSer, s3, upd_same, hr]
        have h1 : (runCall (serial σ0 prog lin).store c).2 = (fr.finish (serial σ0 prog lin).store).2.2 := by
          rw [hfin _ hI.cL]; rfl
        rw [h1, finish_cons _ fr _ _ hp]
        simp only [execStep, Frame.finish]
        rw [← hI.atom]
        have := exec_constRd_indep C fr.arg post hpost (serial σ0 prog lin).store σ
          (fun k hk => by rw [hI.cL k hk, hσ k hk]) (upd fr.loc x (s.store a)) fr.ret
        rw [this]
      · intro h
        obtain ⟨h1, h2⟩ := hI.free (by rw [← e2]; exact h)
        rw [e1, hstore', hhist, hA]
        exact ⟨h1, h2⟩

theorem ainv_step (g : Nat) (a : Addr) (C : Addr → Prop) (σ0 : Store V) (prog : Nat → List (Call V A R))
    (s : State V A R) (lin : List Nat) (t : Nat) (hI : AInv g a C σ0 prog s lin) :
    ∃ lin', AInv g a C σ0 prog (step s t) lin' := by
  have hT := hI.thr t
  unfold AThreadInv at hT
  cases hc : (s.thr t).cur with
  | none => exact ⟨lin, ainv_step_idle g a C σ0 prog s lin t hI hc⟩
  | some fr =>
    rw [hc] at hT
    simp only at hT
    rcases hT with ⟨hn, c, ht, hr, ha, ⟨pre1, hsuf, hpre1⟩, hfin, pre, hpre, hpc⟩ |
        ⟨hh, c, ht, hr, ⟨cs, post, hpc, hcs, hw, hpost⟩, hf1, hf2, ho, hg⟩ |
        ⟨hh, ht, hr, hs, ⟨cs, post, hpc, hcs, hw, hpost⟩, ho⟩ | ⟨hn, hl, ht, hr⟩
    · exact ainv_step_ready g a C σ0 prog s lin t hI fr hc hn c ht hr ha pre1 hsuf hpre1 hfin pre hpre hpc
    · exact ainv_step_w2 g a C σ0 prog s lin t hI fr hc hh c ht hr cs post hpc hcs hw hpost hf1 hf2 ho hg
    · exact ⟨lin, ainv_step_w3 g a C σ0 prog s lin t hI fr hc hh ht hr hs cs post hpc hcs hw hpost ho⟩
    · exact ⟨lin, ainv_step_tail g a C σ0 prog s lin t hI fr hc hn hl ht hr⟩

theorem ainv_init (g : Nat) (a : Addr) (C : Addr → Prop) (σ0 : Store V) (prog : Nat → List (Call V A R))
    (hsh : ∀ t, ∀ c ∈ prog t, AShape g a C c.body) : AInv g a C σ0 prog (init σ0 prog) [] := by
  refine ⟨fun t => ?_, fun _ => ⟨rfl, rfl⟩, rfl, hsh, fun _ _ => rfl, fun _ _ => rfl, rfl⟩
  unfold AThreadInv
  simp [init, serial, serInit]

theorem ainv_run (g : Nat) (a : Addr) (C : Addr → Prop) (σ0 : Store V) (prog : Nat → List (Call V A R))
    (s : State V A R) (sch : List Nat) (lin : List Nat) (hI : AInv g a C σ0 prog s lin) :
    ∃ lin', AInv g a C σ0 prog (run s sch) lin' := by
  induction sch generalizing s lin with
  | nil => exact ⟨lin, hI⟩
  | cons t r ih =>
    obtain ⟨lin1, h1⟩ := ainv_step g a C σ0 prog s lin t hI
    exact ih (step s t) lin1 h1

/-! ### what the invariant says, in the form used by the property theorems -/

theorem serialised_of_ainv (g : Nat) (a : Addr) (C : Addr → Prop) (σ0 : Store V) (prog : Nat → List (Call V A R))
    (s : State V A R) (lin : List Nat) (hI : AInv g a C σ0 prog s lin) : Serialised g a σ0 prog s lin := by
  obtain ⟨f1, f2⟩ := serial_facts σ0 prog lin
  refine ⟨hI.ok, f2, f1, ?_, fun t => ?_, fun t hc => ?_, fun h => (hI.free h).1, hI.atom, fun h hh => ?_⟩
  · -- guard order
    cases hl : s.locks g with
    | none => exact ⟨[], by simpa using (hI.free hl).2, by simp, fun _ => rfl⟩
    | some h =>
      have hT := hI.thr h
      unfold AThreadInv at hT
      cases hc : (s.thr h).cur with
      | none => rw [hc] at hT; simp only at hT; exact absurd hl hT.1
      | some fr =>
        rw [hc] at hT; simp only at hT
        rcases hT with ⟨hn, _⟩ | ⟨_, c, _, _, _, _, _, ho, _⟩ | ⟨_, _, _, _, _, ho⟩ | ⟨hn, _⟩
        · exact absurd hl hn
        · exact ⟨[h], ho, by simp, fun hc => by cases hc⟩
        · exact ⟨[], by simpa using ho, by simp, fun _ => rfl⟩
        · exact absurd hl hn
  · have hT := hI.thr t
    unfold AThreadInv at hT
    cases hc : (s.thr t).cur with
    | none =>
      rw [hc] at hT; simp only at hT
      rw [hT.2.2]; exact ⟨List.prefix_refl _, by omega⟩
    | some fr =>
      rw [hc] at hT; simp only at hT
      rcases hT with ⟨_, c, _, hr, _⟩ | ⟨_, c, _, hr, _⟩ | ⟨_, _, hr, _⟩ | ⟨_, _, _, hr⟩
      · rw [hr]; exact ⟨List.prefix_refl _, by omega⟩
      · rw [hr]; exact ⟨List.prefix_refl _, by omega⟩
      · rw [hr]; exact ⟨List.prefix_append _ _, by simp⟩
      · rw [hr s.store hI.cs]; exact ⟨List.prefix_append _ _, by simp⟩
  · have hT := hI.thr t
    unfold AThreadInv at hT
    rw [hc] at hT; simp only at hT
    exact ⟨hT.2.2, hT.2.1, hT.1⟩
  · have hT := hI.thr h
    unfold AThreadInv at hT
    cases hc : (s.thr h).cur with
    | none => rw [hc] at hT; simp only at hT; exact absurd hh hT.1
    | some fr =>
      rw [hc] at hT; simp only at hT
      rcases hT with ⟨hn, _⟩ | ⟨_, c, ht, hr, _, hf1, hf2, _, _⟩ | ⟨_, _, hr, hs, _⟩ | ⟨hn, _⟩
      · exact absurd hh hn
      · obtain ⟨s1, _, s3, _, _⟩ := serStep_cons (serial σ0 prog lin) h c _ ht
        refine ⟨fr, rfl, Or.inr ⟨?_, ?_⟩⟩
        · rw [serial_snoc, s1, hf1]
        · rw [serial_snoc, s3, upd_same, hr, hf2]
      · exact ⟨fr, rfl, Or.inl ⟨hs, hr⟩⟩
      · exact absurd hh hn

/-! ### bodies built from extended event lists have the shape -/

/-- the constant addresses of a class: the words of the fields no in-scope method writes -/
def constOf (wrt : List Nat) : Addr → Prop := fun ad => ad.1 ∉ wrt

omit [Inhabited V] in
theorem wrCount_append (a : Addr) (b c : List (Step V A R)) : wrCount a (b ++ c) = wrCount a b + wrCount a c := by
  simp [wrCount, List.countP_append]

omit [Inhabited V] in
theorem wrCount_zero_of (a : Addr) (b : List (Step V A R)) (h : ∀ st ∈ b, st.writesTo a = false) : wrCount a b = 0 := by
  unfold wrCount
  rw [List.countP_eq_zero]
  intro st hst
  simp [h st hst]

omit [Inhabited V] in
theorem rdWords_constRd (wrt : List Nat) (W f i : Nat) (hf : f ∉ wrt) :
    ∀ st ∈ (rdWords W f i : List (Step V A R)), st.isConstRd (constOf wrt) := by
  intro st hst
  simp only [rdWords, List.mem_map] at hst
  obtain ⟨j, _, rfl⟩ := hst
  exact hf

omit [Inhabited V] in
theorem rdWords_isCS (C : Addr → Prop) (W f i : Nat) : ∀ st ∈ (rdWords W f i : List (Step V A R)), st.isCS C := by
  intro st hst
  simp only [rdWords, List.mem_map] at hst
  obtain ⟨j, _, rfl⟩ := hst
  trivial

omit [Inhabited V] in
theorem rdWords_nowrite (a : Addr) (W f i : Nat) : ∀ st ∈ (rdWords W f i : List (Step V A R)), st.writesTo a = false := by
  intro st hst
  simp only [rdWords, List.mem_map] at hst
  obtain ⟨j, _, rfl⟩ := hst
  rfl

omit [Inhabited V] in
theorem wrWords_isCS (wrt : List Nat) (W f : Nat) (e : Nat → Locals V → A → V) (hf : f ∈ wrt) :
    ∀ st ∈ (wrWords W f e : List (Step V A R)), st.isCS (constOf wrt) := by
  intro st hst
  simp only [wrWords, List.mem_map] at hst
  obtain ⟨j, _, rfl⟩ := hst
  exact fun h => h hf

omit [Inhabited V] in
theorem wrWords_nowrite (fa W f : Nat) (e : Nat → Locals V → A → V) (hf : f ≠ fa) :
    ∀ st ∈ (wrWords W f e : List (Step V A R)), st.writesTo (fa, 0) = false := by
  intro st hst
  simp only [wrWords, List.mem_map] at hst
  obtain ⟨j, _, rfl⟩ := hst
  simp [Step.writesTo, hf]

omit [Inhabited V] in
/-- after the release: only reads of fields no in-scope method writes, then the result -/
theorem xpost_steps (wrt : List Nat) (W : Nat) (fl : Flow V A R) (evs : List XEv) (i : Nat) (h : evs.all (xConst wrt) = true) :
    ∀ st ∈ xofEventsFrom W fl i evs, st.isConstRd (constOf wrt) := by
  induction evs generalizing i with
  | nil => intro st hst; simp only [xofEventsFrom, List.mem_singleton] at hst; subst hst; trivial
  | cons e r ih =>
    simp only [List.all_cons, Bool.and_eq_true] at h
    obtain ⟨he, hr⟩ := h
    intro st hst
    simp only [xofEventsFrom, List.mem_append] at hst
    rcases hst with h1 | h1
    · cases e with
      | rd f =>
        have hf : f ∉ wrt := by simpa [xConst] using he
        exact rdWords_constRd wrt W f i hf st h1
      | ald f =>
        have hf : f ∉ wrt := by simpa [xConst] using he
        simp only [xevSteps, List.mem_singleton] at h1; subst h1; exact hf
      | acq m => simp [xConst] at he
      | rel m => simp [xConst] at he
      | wr f => simp [xConst] at he
      | ast f => simp [xConst] at he
      | armw f => simp [xConst] at he
      | escape f => simp [xConst] at he
    · exact ih (i + 1) hr st h1

omit [Inhabited V] in
/-- the critical section of a writer, from an event list that passes `xCS` -/
theorem xcs_steps (g fa : Nat) (wrt : List Nat) (W : Nat) (fl : Flow V A R) (evs : List XEv) (n i : Nat)
    (h : xCS g fa wrt n evs = true) :
    ∃ cs post, xofEventsFrom W fl i evs = cs ++ Step.rel g :: post ∧ (∀ st ∈ cs, st.isCS (constOf wrt)) ∧
      wrCount (fa, 0) cs ≤ n ∧ (∀ st ∈ post, st.isConstRd (constOf wrt)) := by
  induction evs generalizing n i with
  | nil => simp [xCS] at h
  | cons e r ih =>
    cases e with
    | acq m => simp [xCS] at h
    | armw f => simp [xCS] at h
    | escape f => simp [xCS] at h
    | rel m =>
      simp only [xCS, Bool.and_eq_true, beq_iff_eq] at h
      obtain ⟨rfl, hr⟩ := h
      exact ⟨[], xofEventsFrom W fl (i + 1) r, by simp [xofEventsFrom, xevSteps], by simp, by simp [wrCount_nil],
        xpost_steps wrt W fl r (i + 1) hr⟩
    | rd f =>
      simp only [xCS] at h
      obtain ⟨cs, post, hb, hcs, hw, hpost⟩ := ih n (i + 1) h
      refine ⟨rdWords W f i ++ cs, post, by simp [xofEventsFrom, xevSteps, hb], ?_, ?_, hpost⟩
      · intro st hst
        rcases List.mem_append.mp hst with h1 | h1
        · exact rdWords_isCS _ W f i st h1
        · exact hcs st h1
      · rw [wrCount_append, wrCount_zero_of _ _ (rdWords_nowrite _ W f i)]; omega
    | ald f =>
      simp only [xCS] at h
      obtain ⟨cs, post, hb, hcs, hw, hpost⟩ := ih n (i + 1) h
      refine ⟨Step.rd (f, 0) (i, 0) :: cs, post, by simp [xofEventsFrom, xevSteps, hb], ?_, ?_, hpost⟩
      · intro st hst
        rcases List.mem_cons.mp hst with rfl | h1
        · trivial
        · exact hcs st h1
      · rw [wrCount_cons]; simpa [Step.writesTo] using hw
    | wr f =>
      simp only [xCS, Bool.and_eq_true, bne_iff_ne, ne_eq, List.contains_iff_mem] at h
      obtain ⟨⟨hne, hmem⟩, hr⟩ := h
      obtain ⟨cs, post, hb, hcs, hw, hpost⟩ := ih n (i + 1) hr
      refine ⟨rdWords W f i ++ wrWords W f (fl.wr i) ++ cs, post, by simp [xofEventsFrom, xevSteps, hb], ?_, ?_, hpost⟩
      · intro st hst
        rcases List.mem_append.mp hst with h1 | h1
        · rcases List.mem_append.mp h1 with h2 | h2
          · exact rdWords_isCS _ W f i st h2
          · exact wrWords_isCS wrt W f _ hmem st h2
        · exact hcs st h1
      · rw [wrCount_append, wrCount_append, wrCount_zero_of _ _ (rdWords_nowrite _ W f i),
          wrCount_zero_of _ _ (wrWords_nowrite fa W f _ hne)]
        omega
    | ast f =>
      simp only [xCS, Bool.and_eq_true, List.contains_iff_mem] at h
      obtain ⟨hmem, hr⟩ := h
      by_cases hf : f = fa
      · subst hf
        simp only [beq_self_eq_true, if_true, Bool.and_eq_true, bne_iff_ne, ne_eq] at hr
        obtain ⟨hn, hr⟩ := hr
        obtain ⟨cs, post, hb, hcs, hw, hpost⟩ := ih (n - 1) (i + 1) hr
        refine ⟨Step.rd (f, 0) (i, 0) :: Step.wr (f, 0) (fl.wr i 0) :: cs, post, by simp [xofEventsFrom, xevSteps, hb], ?_, ?_, hpost⟩
        · intro st hst
          rcases List.mem_cons.mp hst with rfl | h1
          · trivial
          · rcases List.mem_cons.mp h1 with rfl | h2
            · exact fun h => h hmem
            · exact hcs st h2
        · rw [wrCount_cons, wrCount_cons]
          simp only [Step.writesTo, beq_self_eq_true, if_true]
          simp
          omega
      · have hb' : (f == fa) = false := by simp [hf]
        simp only [hb', Bool.false_eq_true, if_false] at hr
        obtain ⟨cs, post, hb, hcs, hw, hpost⟩ := ih n (i + 1) hr
        refine ⟨Step.rd (f, 0) (i, 0) :: Step.wr (f, 0) (fl.wr i 0) :: cs, post, by simp [xofEventsFrom, xevSteps, hb], ?_, ?_, hpost⟩
        · intro st hst
          rcases List.mem_cons.mp hst with rfl | h1
          · trivial
          · rcases List.mem_cons.mp h1 with rfl | h2
            · exact fun h => h hmem
            · exact hcs st h2
        · rw [wrCount_cons, wrCount_cons]
          simp only [Step.writesTo]
          simp [hf]
          exact hw

omit [Inhabited V] in
theorem xwriter_steps (g fa : Nat) (wrt : List Nat) (W : Nat) (fl : Flow V A R) (evs : List XEv) (i : Nat)
    (h : xWriter g fa wrt evs = true) : WShape g (fa, 0) (constOf wrt) (xofEventsFrom W fl i evs) := by
  induction evs generalizing i with
  | nil => simp [xWriter] at h
  | cons e r ih =>
    have hconst : xConst wrt e = true → xWriter g fa wrt r = true →
        WShape g (fa, 0) (constOf wrt) (xofEventsFrom W fl i (e :: r)) := by
      intro he hr
      obtain ⟨pre, cs, post, hb, hpre, hcs, hw, hpost⟩ := ih (i + 1) hr
      refine ⟨xevSteps W fl i e ++ pre, cs, post, by simp [xofEventsFrom, hb], ?_, hcs, hw, hpost⟩
      intro st hst
      rcases List.mem_append.mp hst with h1 | h1
      · have := xpost_steps wrt W fl [e] i (by simp [he]) st
        apply this
        simp [xofEventsFrom, h1]
      · exact hpre st h1
    cases e with
    | acq m =>
      simp only [xWriter, Bool.and_eq_true, beq_iff_eq] at h
      obtain ⟨rfl, hr⟩ := h
      obtain ⟨cs, post, hb, hcs, hw, hpost⟩ := xcs_steps m fa wrt W fl r 1 (i + 1) hr
      exact ⟨[], cs, post, by simp [xofEventsFrom, xevSteps, hb], by simp, hcs, hw, hpost⟩
    | rel m => simp [xWriter, xConst] at h
    | wr f => simp [xWriter, xConst] at h
    | ast f => simp [xWriter, xConst] at h
    | armw f => simp [xWriter, xConst] at h
    | escape f => simp [xWriter, xConst] at h
    | rd f =>
      simp only [xWriter, Bool.and_eq_true] at h
      exact hconst h.1 h.2
    | ald f =>
      simp only [xWriter, Bool.and_eq_true] at h
      exact hconst h.1 h.2

omit [Inhabited V] in
theorem xreader_steps (fa : Nat) (C : Addr → Prop) (W : Nat) (fl : Flow V A R) (evs : List XEv) (h : xReader fa evs = true) :
    RShape (fa, 0) C (xofEvents W fl evs) := by
  match evs, h with
  | [.ald f], h =>
    simp only [xReader, beq_iff_eq] at h
    subst h
    exact ⟨[], (0, 0), [Step.ret fl.ret], rfl, by simp, by intro st hst; simp only [List.mem_singleton] at hst; subst hst; trivial⟩

omit [Inhabited V] in
/-- **the decidable check on an extended event list gives the shape**, for every width and every data flow -/
theorem ashape_xofEvents (g fa : Nat) (wrt : List Nat) (W : Nat) (fl : Flow V A R) (evs : List XEv)
    (h : (xWriter g fa wrt evs || xReader fa evs) = true) : AShape g (fa, 0) (constOf wrt) (xofEvents W fl evs) := by
  rw [Bool.or_eq_true] at h
  rcases h with h | h
  · exact Or.inl (xwriter_steps g fa wrt W fl evs 0 h)
  · exact Or.inr (xreader_steps fa _ W fl evs h)

/-- the parameters chosen for a class with the shape shape every method -/
theorem rateParams_spec (c : XClass) (g fa : Nat) (h : c.rateParams = some (g, fa)) :
    ∀ m ∈ c.methods, (xWriter g fa c.written m.evs || xReader fa m.evs) = true := by
  unfold XClass.rateParams at h
  have hmem := List.mem_of_mem_head? h
  have := (List.mem_filter.mp hmem).2
  simp only [XClass.rateShapedWith, List.all_eq_true] at this
  exact this

/-- a method name that occurs in the class names one of its methods -/
theorem xevsOf_mem (c : XClass) (n : String) (h : (c.methods.any fun m => m.name == n) = true) :
    ∃ m ∈ c.methods, c.evsOf n = m.evs := by
  unfold XClass.evsOf
  rw [List.any_eq_true] at h
  obtain ⟨m, hm, hn⟩ := h
  cases hf : (c.methods.filter fun m => m.name == n) with
  | nil =>
    have : m ∈ (c.methods.filter fun m => m.name == n) := List.mem_filter.mpr ⟨hm, hn⟩
    rw [hf] at this; simp at this
  | cons m' r =>
    have : m' ∈ (c.methods.filter fun m => m.name == n) := by rw [hf]; simp
    exact ⟨m', (List.mem_filter.mp this).1, by simp⟩

end Romea.Lin
