import RomeaModel.WrapGrid
import RomeaProofs.Lemmas.C15Arith
import Mathlib.Data.List.Basic

/-! List-level lemmas for the scrolling grid (C15): mixed-radix linearisation, wrapping, boxes of
multi-indexes, blanking folds. -/
namespace Romea.C15Grid
open Romea.WrapGrid Romea.C15Arith

variable {T : Type}

/-! ### generic list facts -/

theorem getD_set_nat {α} (l : List α) (m a : Nat) (v d : α) :
    (l.set m v).getD a d = if a = m ∧ m < l.length then v else l.getD a d := by
  induction l generalizing m a with
  | nil => simp
  | cons x t ih =>
    cases m with
    | zero => cases a <;> simp
    | succ m =>
      cases a with
      | zero => simp
      | succ a => simpa using ih m a

theorem set_getD_self {α} (l : List α) (a : Nat) (d : α) : l.set a (l.getD a d) = l := by
  induction l generalizing a with
  | nil => simp
  | cons x t ih =>
    cases a with
    | zero => simp
    | succ a => simpa using ih a

theorem foldl_set_length (ps : List Nat) (buf : List T) (e : T) :
    (ps.foldl (fun b q => b.set q e) buf).length = buf.length := by
  induction ps generalizing buf with
  | nil => rfl
  | cons q ps ih => simp [List.foldl_cons, ih]

/-- blanking a list of positions only changes those positions -/
theorem getD_foldl_set (ps : List Nat) (buf : List T) (e d : T) (p : Nat) :
    (ps.foldl (fun b q => b.set q e) buf).getD p d = if p ∈ ps ∧ p < buf.length then e else buf.getD p d := by
  induction ps generalizing buf with
  | nil => simp
  | cons q ps ih =>
    rw [List.foldl_cons, ih, List.length_set, getD_set_nat]
    by_cases h1 : p ∈ ps
    · by_cases h2 : p < buf.length <;> simp [h1, h2]
      intro h; omega
    · by_cases h2 : p = q
      · subst h2; by_cases h3 : p < buf.length <;> simp [h1, h3]
      · have : ¬ q = p := fun h => h2 h.symm
        simp [h1, h2]

/-! ### linearisation -/

theorem dot_map_mul (n : Nat) (is cs : List Nat) : dot is (cs.map (n * ·)) = n * dot is cs := by
  induction is generalizing cs with
  | nil => simp [dot]
  | cons i is ih =>
    cases cs with
    | nil => simp [dot]
    | cons c cs => simp only [List.map_cons, dot, ih]; ring

/-- the mixed-radix (Horner) form of `cellIndexes.dot(indexCoefficients_)` -/
theorem dot_coeffs_cons (n i : Nat) (ns is : List Nat) :
    dot (i :: is) (coeffs (n :: ns)) = i + n * dot is (coeffs ns) := by
  simp only [coeffs, dot, dot_map_mul]; ring

theorem inRange_length {dims idx : List Nat} (h : InRange dims idx) : idx.length = dims.length := by
  induction dims generalizing idx with
  | nil => cases idx <;> simp_all [InRange]
  | cons n ns ih =>
    cases idx with
    | nil => simp [InRange] at h
    | cons i is => simp [InRange] at h; simp [ih h.2]

theorem lin_lt {dims idx : List Nat} (h : InRange dims idx) : dot idx (coeffs dims) < cellCount dims := by
  induction dims generalizing idx with
  | nil => cases idx <;> simp_all [InRange, dot, cellCount]
  | cons n ns ih =>
    cases idx with
    | nil => simp [InRange] at h
    | cons i is =>
      simp only [InRange] at h
      rw [dot_coeffs_cons, cellCount]
      have := ih h.2
      calc i + n * dot is (coeffs ns) < n + n * dot is (coeffs ns) := by omega
        _ = n * (dot is (coeffs ns) + 1) := by ring
        _ ≤ n * cellCount ns := Nat.mul_le_mul_left n this

theorem lin_inj {dims i j : List Nat} (hi : InRange dims i) (hj : InRange dims j)
    (h : dot i (coeffs dims) = dot j (coeffs dims)) : i = j := by
  induction dims generalizing i j with
  | nil => cases i <;> cases j <;> simp_all [InRange]
  | cons n ns ih =>
    cases i with
    | nil => simp [InRange] at hi
    | cons a is =>
      cases j with
      | nil => simp [InRange] at hj
      | cons b js =>
        simp only [InRange] at hi hj
        rw [dot_coeffs_cons, dot_coeffs_cons] at h
        have h1 : (a + n * dot is (coeffs ns)) % n = (b + n * dot js (coeffs ns)) % n := by rw [h]
        rw [Nat.add_mul_mod_self_left, Nat.add_mul_mod_self_left, Nat.mod_eq_of_lt hi.1, Nat.mod_eq_of_lt hj.1] at h1
        subst h1
        have h2 : n * dot is (coeffs ns) = n * dot js (coeffs ns) := by omega
        have h3 := Nat.eq_of_mul_eq_mul_left (by omega : 0 < n) h2
        rw [ih hi.2 hj.2 h3]

/-! ### wrapping -/

theorem wrap_inRange {dims off idx : List Nat} (ho : InRange dims off) (hi : InRange dims idx) :
    InRange dims (wrap dims off idx) := by
  induction dims generalizing off idx with
  | nil => cases off <;> cases idx <;> simp_all [InRange, wrap]
  | cons n ns ih =>
    cases off with
    | nil => simp [InRange] at ho
    | cons o os =>
      cases idx with
      | nil => simp [InRange] at hi
      | cons i is =>
        simp only [InRange] at ho hi
        simp only [wrap, InRange]
        exact ⟨Nat.mod_lt _ (by omega), ih ho.2 hi.2⟩

theorem wrap_inj {dims off i j : List Nat} (ho : InRange dims off) (hi : InRange dims i) (hj : InRange dims j)
    (h : wrap dims off i = wrap dims off j) : i = j := by
  induction dims generalizing off i j with
  | nil => cases i <;> cases j <;> simp_all [InRange]
  | cons n ns ih =>
    cases off with
    | nil => simp [InRange] at ho
    | cons o os =>
      cases i with
      | nil => simp [InRange] at hi
      | cons a is =>
        cases j with
        | nil => simp [InRange] at hj
        | cons b js =>
          simp only [InRange] at ho hi hj
          simp only [wrap, List.cons.injEq] at h
          have h1 := h.1
          rw [nat_mod_two (a + o) n (by omega), nat_mod_two (b + o) n (by omega)] at h1
          have : a = b := by
            split at h1 <;> split at h1 <;> omega
          rw [this, ih ho.2 hi.2 hj.2 h.2]

/-- moving the offset of one axis is the same as re-indexing that axis -/
theorem wrap_set_axis (dims off i : List Nat) (a o' x : Nat)
    (h : (i.getD a 0 + o') % dims.getD a 0 = (x + off.getD a 0) % dims.getD a 0) :
    wrap dims (off.set a o') i = wrap dims off (i.set a x) := by
  induction a generalizing dims off i with
  | zero =>
    cases dims <;> cases off <;> cases i <;> simp_all [wrap]
  | succ a ih =>
    cases dims with
    | nil => cases off <;> cases i <;> simp [wrap]
    | cons n ns =>
      cases off with
      | nil => cases i <;> simp [wrap]
      | cons o os =>
        cases i with
        | nil => simp [wrap]
        | cons i0 is =>
          simp only [List.set_cons_succ, wrap, List.cons.injEq, true_and]
          exact ih ns os is (by simpa using h)

theorem inRange_set {dims i : List Nat} (a x : Nat) (hi : InRange dims i) (hx : x < dims.getD a 0) :
    InRange dims (i.set a x) := by
  induction a generalizing dims i with
  | zero =>
    cases dims <;> cases i <;> simp_all [InRange]
  | succ a ih =>
    cases dims with
    | nil => cases i <;> simp_all
    | cons n ns =>
      cases i with
      | nil => simp [InRange] at hi
      | cons i0 is =>
        simp only [InRange] at hi
        simp only [List.set_cons_succ, InRange]
        exact ⟨hi.1, ih hi.2 (by simpa using hx)⟩

theorem inRange_getD {dims i : List Nat} (a : Nat) (hi : InRange dims i) (ha : a < dims.length) :
    i.getD a 0 < dims.getD a 0 := by
  induction a generalizing dims i with
  | zero =>
    cases dims <;> cases i <;> simp_all [InRange]
  | succ a ih =>
    cases dims with
    | nil => simp at ha
    | cons n ns =>
      cases i with
      | nil => simp [InRange] at hi
      | cons i0 is =>
        simp only [InRange] at hi
        simp only [List.getD_cons_succ]
        exact ih hi.2 (by simpa using ha)

/-! ### boxes of multi-indexes -/

/-- membership predicate of `box` -/
def InBox : List (Nat × Nat) → List Nat → Prop
  | [], [] => True
  | (lo, hi) :: rs, c :: cs => (lo ≤ c ∧ c < hi) ∧ InBox rs cs
  | _, _ => False

theorem mem_box (rs : List (Nat × Nat)) (c : List Nat) : c ∈ box rs ↔ InBox rs c := by
  induction rs generalizing c with
  | nil => cases c <;> simp [box, InBox]
  | cons r rs ih =>
    obtain ⟨lo, hi⟩ := r
    cases c with
    | nil => simp [box, InBox]
    | cons c cs =>
      simp only [box, InBox, List.mem_flatMap, List.mem_map, List.cons.injEq, List.mem_range'_1]
      constructor
      · rintro ⟨tl, htl, x, hx, rfl, rfl⟩
        exact ⟨⟨hx.1, by omega⟩, (ih _).mp htl⟩
      · rintro ⟨hc, hcs⟩
        exact ⟨cs, (ih _).mpr hcs, c, ⟨hc.1, by omega⟩, rfl, rfl⟩

theorem inBox_full (ns is : List Nat) : InBox (ns.map (fun n => (0, n))) is ↔ InRange ns is := by
  induction ns generalizing is with
  | nil => cases is <;> simp [InBox, InRange]
  | cons n ns ih =>
    cases is with
    | nil => simp [InBox, InRange]
    | cons i is => simp [InBox, InRange, ih]

/-- a cell of the slab box is in range (the slab lies inside the axis) -/
theorem inRange_of_inBox_slab {dims c : List Nat} (a f l : Nat) (hl : l ≤ dims.getD a 0)
    (h : InBox (slabRanges dims a f l) c) : InRange dims c := by
  induction a generalizing dims c with
  | zero =>
    cases dims with
    | nil => cases c <;> simp_all [slabRanges, InBox, InRange]
    | cons n ns =>
      cases c with
      | nil => simp [slabRanges, InBox] at h
      | cons c cs =>
        simp only [slabRanges, InBox] at h
        simp only [InRange]
        exact ⟨by simp at hl; omega, (inBox_full ns cs).mp h.2⟩
  | succ a ih =>
    cases dims with
    | nil => cases c <;> simp_all [slabRanges, InBox, InRange]
    | cons n ns =>
      cases c with
      | nil => simp [slabRanges, InBox] at h
      | cons c cs =>
        simp only [slabRanges, InBox] at h
        simp only [InRange]
        exact ⟨h.1.2, ih (by simpa using hl) h.2⟩

/-- an in-range cell lies in the slab box iff its coordinate along the axis lies in the slab -/
theorem inBox_slab_iff {dims j : List Nat} (a f l : Nat) (hj : InRange dims j) (ha : a < dims.length) :
    InBox (slabRanges dims a f l) j ↔ (f ≤ j.getD a 0 ∧ j.getD a 0 < l) := by
  induction a generalizing dims j with
  | zero =>
    cases dims with
    | nil => simp at ha
    | cons n ns =>
      cases j with
      | nil => simp [InRange] at hj
      | cons j0 js =>
        simp only [InRange] at hj
        simp only [slabRanges, InBox, List.getD_cons_zero]
        constructor
        · intro h; exact h.1
        · intro h; exact ⟨h, (inBox_full ns js).mpr hj.2⟩
  | succ a ih =>
    cases dims with
    | nil => simp at ha
    | cons n ns =>
      cases j with
      | nil => simp [InRange] at hj
      | cons j0 js =>
        simp only [InRange] at hj
        simp only [slabRanges, InBox, List.getD_cons_succ]
        rw [ih hj.2 (by simpa using ha)]
        constructor
        · intro h; exact h.2
        · intro h; exact ⟨⟨by omega, hj.1⟩, h⟩

/-! ### the grid: position function, well-formedness -/

/-- well-formedness: every offset is below its (hence positive) number of cells and the buffer has one slot per cell -/
structure WF (g : WGrid T) : Prop where
  off_lt : InRange g.dims g.off
  buf_len : g.buf.length = cellCount g.dims

theorem pos_lt {g : WGrid T} (h : WF g) {i : List Nat} (hi : InRange g.dims i) : g.linIdx i < g.buf.length := by
  rw [h.buf_len]
  exact lin_lt (wrap_inRange h.off_lt hi)

theorem pos_inj {g : WGrid T} (h : WF g) {i j : List Nat} (hi : InRange g.dims i) (hj : InRange g.dims j)
    (e : g.linIdx i = g.linIdx j) : i = j :=
  wrap_inj h.off_lt hi hj (lin_inj (wrap_inRange h.off_lt hi) (wrap_inRange h.off_lt hj) e)

/-! ### one axis of `translate` -/

/-- abstract effect of one iteration of the axis loop on a window -/
def specAxis (dims : List Nat) (a : Nat) (x : Int) (e : T) (w : Window T) : Window T :=
  fun i =>
    if 0 ≤ (i.getD a 0 : Int) + x ∧ (i.getD a 0 : Int) + x < (dims.getD a 0 : Int)
    then w (i.set a ((i.getD a 0 : Int) + x).toNat) else e

/-- every axis has fewer than 2^62 cells (a `std::vector` cannot be larger; keeps the `long long` / `size_t`
    arithmetic of `translate` exact) -/
def SizeOK (dims : List Nat) : Prop := ∀ a, dims.getD a 0 < 2 ^ 62

/-- reported offset after one axis iteration -/
def offAfter (n o : Nat) (d : Int) : Nat := if d = 0 then o else newOffset n o d

theorem offAfter_eq (n o : Nat) (d : Int) (hn2 : n < 2 ^ 62) (ho : o < n) :
    ((offAfter n o d : Nat) : Int) = ((o : Int) + d) % (n : Int) ∧ offAfter n o d < n := by
  unfold offAfter
  split
  · subst_vars
    refine ⟨?_, ho⟩
    rw [Int.add_zero, Int.emod_eq_of_lt (by omega) (by exact_mod_cast ho)]
  · exact newOffset_eq n o d (by omega) hn2 ho

theorem translateAxis_dims (g : WGrid T) (a : Nat) (d : Int) (e : T) : (g.translateAxis a d e).dims = g.dims := by
  unfold WGrid.translateAxis
  split <;> rfl

theorem translateAxis_off (g : WGrid T) (a : Nat) (d : Int) (e : T) :
    (g.translateAxis a d e).off = g.off.set a (offAfter (g.dims.getD a 0) (g.off.getD a 0) d) := by
  unfold WGrid.translateAxis offAfter
  split
  · exact (set_getD_self g.off a 0).symm
  · rfl

theorem translateAxis_wf {g : WGrid T} (h : WF g) (hs : SizeOK g.dims) (a : Nat) (ha : a < g.dims.length) (d : Int) (e : T) :
    WF (g.translateAxis a d e) := by
  have ho : g.off.getD a 0 < g.dims.getD a 0 := inRange_getD a h.off_lt ha
  constructor
  · rw [translateAxis_dims, translateAxis_off]
    exact inRange_set a _ h.off_lt (offAfter_eq _ _ d (hs a) ho).2
  · rw [translateAxis_dims, ← h.buf_len]
    unfold WGrid.translateAxis
    split
    · rfl
    · simp only [← List.foldl_map (f := g.linIdx) (g := fun (b : List T) q => b.set q e)]
      exact foldl_set_length _ _ _

/-- **One axis refines.** After the iteration of the axis loop for axis `a` with offset `d`, the cell of logical index
    `i` reads what the cell with coordinate `i_a + d` along that axis read before, or `e` if that is outside. -/
theorem translateAxis_get [Inhabited T] {g : WGrid T} (h : WF g) (hs : SizeOK g.dims) (a : Nat) (ha : a < g.dims.length)
    (d : Int) (e : T) {i : List Nat} (hi : InRange g.dims i) :
    (g.translateAxis a d e).get i = specAxis g.dims a d e g.get i := by
  have ho : g.off.getD a 0 < g.dims.getD a 0 := inRange_getD a h.off_lt ha
  have hia : i.getD a 0 < g.dims.getD a 0 := inRange_getD a hi ha
  have hai : a < i.length := by rw [inRange_length hi]; exact ha
  by_cases hd : d = 0
  · subst hd
    have hn' : ((i.getD a 0 : Nat) : Int) < (g.dims.getD a 0 : Nat) := by exact_mod_cast hia
    unfold specAxis WGrid.translateAxis
    simp only [if_true, Int.add_zero, Int.toNat_natCast, set_getD_self]
    rw [if_pos ⟨by omega, hn'⟩]
  · obtain ⟨hjn, hslot, hblank, hsurv⟩ := circular (g.dims.getD a 0) (g.off.getD a 0) (i.getD a 0) d (by omega) (hs a) ho hia hd
    generalize hjdef : (((i.getD a 0 : Nat) : Int) + d) % ((g.dims.getD a 0 : Nat) : Int) = jI at hjn hslot hblank hsurv
    -- J: the old logical index whose slot the new logical index i occupies
    have hJ : InRange g.dims (i.set a jI.toNat) := inRange_set a _ hi hjn
    have hJa : (i.set a jI.toNat).getD a 0 = jI.toNat := by rw [getD_set_nat]; simp [hai]
    have hwrap : wrap g.dims (g.off.set a (newOffset (g.dims.getD a 0) (g.off.getD a 0) d)) i
        = wrap g.dims g.off (i.set a jI.toNat) := wrap_set_axis _ _ _ _ _ _ hslot
    have hget : (g.translateAxis a d e).get i =
        ((box (slabRanges g.dims a (firstSlab (g.dims.getD a 0) d) (lastSlab (g.dims.getD a 0) d))).foldl
          (fun b c => b.set (g.linIdx c) e) g.buf).getD (g.linIdx (i.set a jI.toNat)) default := by
      unfold WGrid.translateAxis
      rw [if_neg hd]
      simp only [WGrid.get, WGrid.linIdx]
      rw [hwrap]
    rw [hget, ← List.foldl_map (f := g.linIdx) (g := fun (b : List T) q => b.set q e), getD_foldl_set]
    have hlast : lastSlab (g.dims.getD a 0) d ≤ g.dims.getD a 0 := by
      by_cases hpos : 0 < d
      · rw [(slab_pos _ d (hs a) hpos).2]; omega
      · rw [(slab_neg _ d (hs a) (by omega)).2]
    have hmem : g.linIdx (i.set a jI.toNat) ∈ (box (slabRanges g.dims a (firstSlab (g.dims.getD a 0) d)
        (lastSlab (g.dims.getD a 0) d))).map g.linIdx ↔
        (firstSlab (g.dims.getD a 0) d ≤ jI.toNat ∧ jI.toNat < lastSlab (g.dims.getD a 0) d) := by
      have hb := inBox_slab_iff a (firstSlab (g.dims.getD a 0) d) (lastSlab (g.dims.getD a 0) d) hJ ha
      rw [hJa] at hb
      rw [← hb, ← mem_box, List.mem_map]
      constructor
      · rintro ⟨c, hc, hce⟩
        have hcr : InRange g.dims c := inRange_of_inBox_slab a _ _ hlast ((mem_box _ _).mp hc)
        rw [← pos_inj h hcr hJ hce]; exact hc
      · intro hc; exact ⟨_, hc, rfl⟩
    unfold specAxis
    by_cases hin : 0 ≤ ((i.getD a 0 : Nat) : Int) + d ∧ ((i.getD a 0 : Nat) : Int) + d < ((g.dims.getD a 0 : Nat) : Int)
    · rw [if_pos hin, if_neg (fun hb => (hblank.mp (hmem.mp hb.1)) hin), hsurv hin]
      rfl
    · rw [if_neg hin, if_pos ⟨hmem.mpr (hblank.mpr hin), pos_lt h hJ⟩]

end Romea.C15Grid
