import RomeaProofs.Lemmas.C08ResultSet

/-!
# C08 helper lemmas, part 3: what the exhaustive scan returns

Bookkeeping invariant of `addPoint` over a whole scan: the kept entries together with the entries
that were ever dropped are a permutation of everything offered; kept entries are sorted worst-first;
nothing that was dropped is better than anything kept; entries are only dropped from a full set.
-/
namespace Romea.KdTree

set_option linter.unusedSectionVars false

variable {α : Type} [CommRing α] [LinearOrder α] [IsStrictOrderedRing α]

/-- `S` = everything offered so far, `dropped` = what `addPoint` discarded -/
def Inv (k : Nat) (rs : ResultSet α) (S dropped : List (α × Nat)) : Prop :=
  rs.capacity = k ∧ (rs.items ++ dropped).Perm S ∧ Desc rs.items ∧
  (∀ y ∈ dropped, ∀ it ∈ rs.items, it.1 ≤ y.1) ∧ (dropped ≠ [] → rs.items.length = k) ∧
  rs.items.length ≤ k

theorem inv_init (k : Nat) : Inv k (ResultSet.init k : ResultSet α) [] [] := by
  simp [Inv, ResultSet.init, Desc]

theorem inv_step (k : Nat) (rs : ResultSet α) (S dr : List (α × Nat)) (h : Inv k rs S dr)
    (dist : α) (i : Nat) : ∃ dr', Inv k (rs.addPoint dist i) ((dist, i) :: S) dr' := by
  obtain ⟨hcap, hperm, hdesc, hdrop, hfull, hlen⟩ := h
  have hp := insertBack_perm dist i rs.items
  have hd := insertBack_desc dist i rs.items hdesc
  have hl := insertBack_length dist i rs.items
  by_cases hgt : (insertBack dist i rs.items).length > rs.capacity
  · -- the head (worst) of the extended list is dropped
    cases hins : insertBack dist i rs.items with
    | nil => rw [hins] at hl; simp at hl
    | cons hd0 tl =>
      rw [hins] at hp hd hl
      have hitems : (rs.addPoint dist i).items = tl := by
        rw [addPoint_items, if_pos hgt, hins]; rfl
      have hlk : rs.items.length = k := by
        rw [hins] at hgt; simp only [List.length_cons] at hgt hl; omega
      have htl : tl.length = k := by simp only [List.length_cons] at hl; omega
      refine ⟨hd0 :: dr, ?_, ?_, ?_, ?_, ?_, ?_⟩
      · rw [addPoint_capacity]; exact hcap
      · rw [hitems]
        have h1 : (tl ++ hd0 :: dr).Perm (hd0 :: tl ++ dr) := by
          simp
        have h2 : (hd0 :: tl ++ dr).Perm (((dist, i) :: rs.items) ++ dr) := hp.append_right dr
        exact h1.trans (h2.trans (by simpa using hperm.cons (dist, i)))
      · rw [hitems]; exact (List.pairwise_cons.mp hd).2
      · rw [hitems]
        intro y hy it hit
        have hit_le : it.1 ≤ hd0.1 := (List.pairwise_cons.mp hd).1 it hit
        rcases List.mem_cons.mp hy with rfl | hy
        · exact hit_le
        · by_cases hhead : hd0 = (dist, i)
          · -- the new entry itself was dropped: the tail is the old list
            have : tl.Perm rs.items := by
              rw [hhead] at hp; exact hp.cons_inv
            exact hdrop y hy it (this.mem_iff.mp hit)
          · have hmem : hd0 ∈ (dist, i) :: rs.items := hp.mem_iff.mp (by simp)
            rcases List.mem_cons.mp hmem with h | h
            · exact absurd h hhead
            · exact le_trans hit_le (hdrop y hy hd0 h)
      · intro _; rw [hitems]; exact htl
      · rw [hitems]; omega
  · -- room left: nothing is dropped (and nothing had been dropped before)
    have hitems : (rs.addPoint dist i).items = insertBack dist i rs.items := by
      rw [addPoint_items, if_neg hgt]
    have hdr : dr = [] := by
      by_contra hne
      have := hfull hne
      omega
    subst hdr
    refine ⟨[], ?_, ?_, ?_, ?_, ?_, ?_⟩
    · rw [addPoint_capacity]; exact hcap
    · rw [hitems]
      simp only [List.append_nil] at hperm ⊢
      exact hp.trans (hperm.cons _)
    · rw [hitems]; exact hd
    · intro y hy; simp at hy
    · intro h; exact absurd rfl h
    · rw [hitems]; omega

section scan
variable (dim : Nat) (P : Nat → Nat → α) (q : Nat → α)

/-- the entry `addPoint` receives for point `x` -/
def tag (x : Nat) : α × Nat := (sqDist dim q P x, x)

theorem scan_inv (k : Nat) (L : List Nat) :
    ∀ (rs : ResultSet α) (S dr : List (α × Nat)), Inv k rs S dr →
      ∃ S' dr', Inv k (scan dim P q rs L) S' dr' ∧ S'.Perm (L.map (tag dim P q) ++ S) := by
  induction L with
  | nil => intro rs S dr h; exact ⟨S, dr, h, by simp⟩
  | cons x L ih =>
    intro rs S dr h
    obtain ⟨dr1, h1⟩ := inv_step k rs S dr h (sqDist dim q P x) x
    obtain ⟨S', dr', h2, hp⟩ := ih _ _ dr1 h1
    refine ⟨S', dr', by rw [scan_cons]; exact h2, ?_⟩
    refine hp.trans ?_
    simp only [List.map_cons, List.cons_append]
    exact List.perm_middle

/-- **What the scan returns** (`r` in ascending order): for a duplicate-free list `L` of point
    indices, the `min k |L|` entries with the smallest squared distances, ascending, each carrying
    the squared distance of its own index, indices distinct; every point left out is at least as
    far as every point returned; and the list of returned distances is the `k`-prefix of the
    sorted list of ALL squared distances. -/
theorem scan_spec (k : Nat) (L : List Nat) (hnd : L.Nodup) :
    let r := (scan dim P q (ResultSet.init k) L).items.reverse
    r.length = min k L.length ∧
    r.Pairwise (fun a b => a.1 ≤ b.1) ∧
    (∀ it ∈ r, it.2 ∈ L ∧ it.1 = sqDist dim q P it.2) ∧
    (r.map (·.2)).Nodup ∧
    (∀ x ∈ L, x ∉ r.map (·.2) → r.length = k ∧ ∀ it ∈ r, it.1 ≤ sqDist dim q P x) ∧
    r.map (·.1) = ((L.map (sqDist dim q P)).insertionSort (· ≤ ·)).take k := by
  intro r
  obtain ⟨S, dr, ⟨hcap, hperm, hdesc, hdrop, hfull, hlen⟩, hS⟩ :=
    scan_inv dim P q k L (ResultSet.init k) [] [] (inv_init k)
  simp only [List.append_nil] at hS
  set items := (scan dim P q (ResultSet.init k) L).items with hitems
  have hr : r = items.reverse := rfl
  have hall : (items ++ dr).Perm (L.map (tag dim P q)) := hperm.trans hS
  have hmem_items : ∀ it ∈ items, it.2 ∈ L ∧ it.1 = sqDist dim q P it.2 := by
    intro it hit
    have : it ∈ L.map (tag dim P q) := hall.mem_iff.mp (List.mem_append_left _ hit)
    obtain ⟨x, hx, rfl⟩ := List.mem_map.mp this
    exact ⟨hx, rfl⟩
  have hsnd : ((items ++ dr).map (·.2)).Perm L := by
    have := hall.map (·.2)
    simpa [tag, Function.comp_def] using this
  have hnd_all : ((items ++ dr).map (·.2)).Nodup := hsnd.nodup_iff.mpr hnd
  have hlen_all : items.length + dr.length = L.length := by
    have := hall.length_eq; simpa using this
  have hlen_r : r.length = min k L.length := by
    rw [hr, List.length_reverse]
    by_cases hdr : dr = []
    · subst hdr; simp only [List.length_nil, Nat.add_zero] at hlen_all; omega
    · have := hfull hdr
      have : 0 < dr.length := List.length_pos_of_ne_nil hdr
      omega
  refine ⟨hlen_r, ?_, ?_, ?_, ?_, ?_⟩
  · rw [hr, List.pairwise_reverse]; exact hdesc
  · intro it hit; exact hmem_items it (by rw [hr] at hit; exact List.mem_reverse.mp hit)
  · rw [hr, List.map_reverse, List.nodup_reverse]
    rw [List.map_append] at hnd_all
    exact (List.nodup_append.mp hnd_all).1
  · intro x hx hnot
    have hx' : tag dim P q x ∈ items ++ dr := hall.mem_iff.mpr (List.mem_map_of_mem hx)
    have hnot' : tag dim P q x ∉ items := by
      intro h
      apply hnot
      rw [hr, List.map_reverse, List.mem_reverse]
      exact List.mem_map.mpr ⟨_, h, rfl⟩
    have hdrx : tag dim P q x ∈ dr := by
      rcases List.mem_append.mp hx' with h | h
      · exact absurd h hnot'
      · exact h
    have hne : dr ≠ [] := List.ne_nil_of_mem hdrx
    refine ⟨by rw [hr, List.length_reverse]; exact hfull hne, ?_⟩
    intro it hit
    exact hdrop _ hdrx it (by rw [hr] at hit; exact List.mem_reverse.mp hit)
  · -- `r.map fst ++ sort (dropped.map fst)` is sorted and a permutation of all distances
    set A := r.map (·.1) with hA
    set B := (dr.map (·.1)).insertionSort (· ≤ ·) with hB
    have hApw : A.Pairwise (· ≤ ·) := by
      rw [hA, hr, List.map_reverse, List.pairwise_reverse, List.pairwise_map]
      exact hdesc
    have hBpw : B.Pairwise (· ≤ ·) := List.pairwise_insertionSort _ _
    have hAB : (A ++ B).Pairwise (· ≤ ·) := by
      rw [List.pairwise_append]
      refine ⟨hApw, hBpw, ?_⟩
      intro a ha b hb
      have hb' : b ∈ dr.map (·.1) := (List.perm_insertionSort _ _).mem_iff.mp hb
      obtain ⟨y, hy, rfl⟩ := List.mem_map.mp hb'
      obtain ⟨it, hit, rfl⟩ := List.mem_map.mp ha
      exact hdrop y hy it (by rw [hr] at hit; exact List.mem_reverse.mp hit)
    have hpermAB : (A ++ B).Perm (L.map (sqDist dim q P)) := by
      have h1 : A.Perm (items.map (·.1)) := by
        rw [hA, hr, List.map_reverse]; exact List.reverse_perm _
      have h2 : B.Perm (dr.map (·.1)) := List.perm_insertionSort _ _
      have h3 : ((items ++ dr).map (·.1)).Perm (L.map (sqDist dim q P)) := by
        have := hall.map (·.1)
        simpa [tag, Function.comp_def] using this
      rw [List.map_append] at h3
      exact (h1.append h2).trans h3
    have hsorted : A ++ B = (L.map (sqDist dim q P)).insertionSort (· ≤ ·) :=
      (hpermAB.trans (List.perm_insertionSort _ _).symm).eq_of_pairwise' hAB
        (List.pairwise_insertionSort _ _)
    rw [← hsorted]
    have hAk : A.length ≤ k := by rw [hA, List.length_map, hlen_r]; exact Nat.min_le_left _ _
    by_cases hdr : dr = []
    · have hBn : B = [] := by rw [hB, hdr]; rfl
      rw [hBn, List.append_nil, List.take_of_length_le hAk]
    · have hAk' : A.length = k := by
        rw [hA, List.length_map, hr, List.length_reverse]; exact hfull hdr
      rw [← hAk', List.take_left']
      rfl

end scan

end Romea.KdTree
