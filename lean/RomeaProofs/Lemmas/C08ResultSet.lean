import RomeaModel.KdTree
import Mathlib.Algebra.Order.Ring.Defs
import Mathlib.Tactic.Linarith
import Mathlib.Data.List.Sort
import Mathlib.Data.List.Perm.Basic

/-!
# C08 helper lemmas, part 1: the `KNNResultSet` model and the exhaustive linear scan

Everything is over an arbitrary linearly ordered commutative ring `α` (so also over `ℝ`, `ℚ`, `ℤ`).
`M` is the sentinel `numeric_limits::max()`; all squared distances are assumed to be below it.
-/
namespace Romea.KdTree

set_option linter.unusedSectionVars false

variable {α : Type} [CommRing α] [LinearOrder α] [IsStrictOrderedRing α]

/-- worst-first order of the result set: squared distances descend (weakly) -/
def Desc (l : List (α × Nat)) : Prop := l.Pairwise (fun a b => b.1 ≤ a.1)

theorem insertBack_perm (dist : α) (i : Nat) (l : List (α × Nat)) :
    (insertBack dist i l).Perm ((dist, i) :: l) := by
  induction l with
  | nil => simp [insertBack]
  | cons a l ih =>
    obtain ⟨d, j⟩ := a
    simp only [insertBack]
    split
    · exact (ih.cons _).trans (List.Perm.swap _ _ _)
    · exact List.Perm.refl _

theorem insertBack_length (dist : α) (i : Nat) (l : List (α × Nat)) :
    (insertBack dist i l).length = l.length + 1 := by
  simpa using (insertBack_perm dist i l).length_eq

theorem mem_insertBack {dist : α} {i : Nat} {l : List (α × Nat)} {it : α × Nat} :
    it ∈ insertBack dist i l ↔ it = (dist, i) ∨ it ∈ l := by
  rw [(insertBack_perm dist i l).mem_iff]; simp

theorem insertBack_desc (dist : α) (i : Nat) (l : List (α × Nat)) (h : Desc l) :
    Desc (insertBack dist i l) := by
  induction l with
  | nil => simp [insertBack, Desc]
  | cons a l ih =>
    obtain ⟨d, j⟩ := a
    have hh := List.pairwise_cons.mp h
    simp only [insertBack]
    split
    · rename_i hgt
      refine List.pairwise_cons.mpr ⟨?_, ih hh.2⟩
      intro b hb
      rcases mem_insertBack.mp hb with rfl | hb
      · exact le_of_lt hgt
      · exact hh.1 b hb
    · rename_i hgt
      have hle : d ≤ dist := not_lt.mp hgt
      refine List.pairwise_cons.mpr ⟨?_, h⟩
      intro b hb
      rcases List.mem_cons.mp hb with rfl | hb
      · exact hle
      · exact le_trans (hh.1 b hb) hle

/-- a usable result set: at most `capacity` entries, worst first, all below the sentinel -/
def Valid (M : α) (rs : ResultSet α) : Prop :=
  rs.items.length ≤ rs.capacity ∧ Desc rs.items ∧ ∀ it ∈ rs.items, it.1 < M

theorem valid_init (M : α) (k : Nat) : Valid M (ResultSet.init k : ResultSet α) := by
  simp [Valid, ResultSet.init, Desc]

@[simp] theorem addPoint_capacity (rs : ResultSet α) (dist : α) (i : Nat) :
    (rs.addPoint dist i).capacity = rs.capacity := rfl

theorem addPoint_items (rs : ResultSet α) (dist : α) (i : Nat) :
    (rs.addPoint dist i).items =
      if (insertBack dist i rs.items).length > rs.capacity then (insertBack dist i rs.items).drop 1
      else insertBack dist i rs.items := rfl

theorem worstDist_not_full (M : α) (rs : ResultSet α) (h : rs.items.length ≠ rs.capacity) :
    rs.worstDist M = M := by
  simp [ResultSet.worstDist, h]

theorem worstDist_full_cons (M : α) (cap : Nat) (d : α) (i : Nat) (rest : List (α × Nat))
    (h : ((d, i) :: rest).length = cap) :
    (⟨cap, (d, i) :: rest⟩ : ResultSet α).worstDist M = d := by
  simp only [ResultSet.worstDist]
  rw [if_pos h]

theorem worstDist_le_sentinel (M : α) (rs : ResultSet α) (hv : Valid M rs) : rs.worstDist M ≤ M := by
  obtain ⟨cap, items⟩ := rs
  by_cases hf : items.length = cap
  · cases items with
    | nil => simp [ResultSet.worstDist]
    | cons a rest =>
      obtain ⟨d, i⟩ := a
      rw [worstDist_full_cons M cap d i rest hf]
      exact le_of_lt (hv.2.2 (d, i) (by simp))
  · rw [worstDist_not_full M _ hf]

theorem addPoint_valid (M : α) (rs : ResultSet α) (dist : α) (i : Nat) (hv : Valid M rs)
    (hd : dist < M) : Valid M (rs.addPoint dist i) := by
  obtain ⟨hlen, hdesc, hM⟩ := hv
  have hins := insertBack_desc dist i rs.items hdesc
  have hl := insertBack_length dist i rs.items
  have hmem : ∀ it ∈ insertBack dist i rs.items, it.1 < M := by
    intro it hit
    rcases mem_insertBack.mp hit with rfl | hit
    · exact hd
    · exact hM it hit
  refine ⟨?_, ?_, ?_⟩
  · rw [addPoint_items, addPoint_capacity]
    split
    · simp only [List.length_drop, hl]; omega
    · omega
  · rw [addPoint_items]
    split
    · exact List.Pairwise.sublist (List.drop_sublist _ _) hins
    · exact hins
  · rw [addPoint_items]
    split
    · intro it hit; exact hmem it (List.mem_of_mem_drop hit)
    · exact hmem

/-- a candidate that is not better than the worst entry of a FULL set leaves the set unchanged
    (strict `>` in `addPoint`: it is placed behind the worst entry, i.e. in the slot that is not stored) -/
theorem addPoint_noop (M : α) (rs : ResultSet α) (dist : α) (i : Nat)
    (hfull : rs.items.length = rs.capacity) (hw : rs.worstDist M ≤ dist) :
    rs.addPoint dist i = rs := by
  obtain ⟨cap, items⟩ := rs
  cases items with
  | nil =>
    simp only [List.length_nil] at hfull
    subst hfull
    simp [ResultSet.addPoint, insertBack]
  | cons a rest =>
    obtain ⟨d, j⟩ := a
    simp only at hfull
    rw [worstDist_full_cons M cap d j rest hfull] at hw
    have hng : ¬ d > dist := not_lt.mpr hw
    simp only [ResultSet.addPoint, insertBack, hng, if_false]
    have : ((dist, i) :: (d, j) :: rest).length > cap := by
      simp only [List.length_cons] at hfull ⊢; omega
    rw [if_pos this]
    rfl

/-- `worstDist` never increases -/
theorem addPoint_worst_le (M : α) (rs : ResultSet α) (dist : α) (i : Nat) (hv : Valid M rs)
    (hd : dist < M) : (rs.addPoint dist i).worstDist M ≤ rs.worstDist M := by
  have hv' := addPoint_valid M rs dist i hv hd
  by_cases hfull : rs.items.length = rs.capacity
  · by_cases hw : rs.worstDist M ≤ dist
    · rw [addPoint_noop M rs dist i hfull hw]
    · have hw : dist < rs.worstDist M := not_le.mp hw
      obtain ⟨cap, items⟩ := rs
      cases items with
      | nil =>
        -- capacity 0: the set stays empty
        have := worstDist_le_sentinel M _ hv'
        simpa [ResultSet.worstDist] using this
      | cons a rest =>
        obtain ⟨d, j⟩ := a
        simp only at hfull
        rw [worstDist_full_cons M cap d j rest hfull] at hw ⊢
        have hgt : d > dist := hw
        have hl := insertBack_length dist i rest
        have hitems : (ResultSet.addPoint ⟨cap, (d, j) :: rest⟩ dist i).items = insertBack dist i rest := by
          simp only [ResultSet.addPoint, insertBack, hgt, if_true]
          have : ((d, j) :: insertBack dist i rest).length > cap := by
            simp only [List.length_cons] at hfull ⊢; omega
          rw [if_pos this]; rfl
        have hdesc := List.pairwise_cons.mp hv.2.1
        -- the new worst entry is the head of `insertBack dist i rest`
        cases hins : insertBack dist i rest with
        | nil => rw [hins] at hl; simp at hl
        | cons b tl =>
          obtain ⟨db, jb⟩ := b
          have hlen : ((db, jb) :: tl).length = cap := by
            rw [← hins, hl]; simp only [List.length_cons] at hfull; omega
          have hrs : ResultSet.addPoint ⟨cap, (d, j) :: rest⟩ dist i = ⟨cap, (db, jb) :: tl⟩ := by
            have h1 : (ResultSet.addPoint ⟨cap, (d, j) :: rest⟩ dist i).capacity = cap := rfl
            cases hr : ResultSet.addPoint ⟨cap, (d, j) :: rest⟩ dist i with
            | mk c its =>
              rw [hr] at h1 hitems
              simp only at h1 hitems
              rw [h1, hitems, hins]
          rw [hrs, worstDist_full_cons M cap db jb tl hlen]
          have hb : (db, jb) ∈ insertBack dist i rest := by rw [hins]; simp
          rcases mem_insertBack.mp hb with hb | hb
          · have : db = dist := congrArg Prod.fst hb
            rw [this]; exact le_of_lt hgt
          · exact hdesc.1 (db, jb) hb
  · rw [worstDist_not_full M rs hfull]
    exact worstDist_le_sentinel M _ hv'

/-! ## The exhaustive scan: every point is offered to `addPoint`, in list order -/

section scan
variable (dim : Nat) (P : Nat → Nat → α) (q : Nat → α)

/-- the linear scan with the same result set: no tree, no pruning, no filter -/
def scan (rs : ResultSet α) (L : List Nat) : ResultSet α :=
  L.foldl (fun rs x => rs.addPoint (sqDist dim q P x) x) rs

@[simp] theorem scan_nil (rs : ResultSet α) : scan dim P q rs [] = rs := rfl
@[simp] theorem scan_cons (rs : ResultSet α) (x : Nat) (L : List Nat) :
    scan dim P q rs (x :: L) = scan dim P q (rs.addPoint (sqDist dim q P x) x) L := rfl
theorem scan_append (rs : ResultSet α) (L₁ L₂ : List Nat) :
    scan dim P q rs (L₁ ++ L₂) = scan dim P q (scan dim P q rs L₁) L₂ := by
  simp [scan, List.foldl_append]

@[simp] theorem scan_capacity (rs : ResultSet α) (L : List Nat) :
    (scan dim P q rs L).capacity = rs.capacity := by
  induction L generalizing rs with
  | nil => rfl
  | cons x L ih => rw [scan_cons, ih, addPoint_capacity]

theorem scan_valid (M : α) (rs : ResultSet α) (L : List Nat) (hv : Valid M rs)
    (hM : ∀ x ∈ L, sqDist dim q P x < M) : Valid M (scan dim P q rs L) := by
  induction L generalizing rs with
  | nil => exact hv
  | cons x L ih =>
    rw [scan_cons]
    exact ih _ (addPoint_valid M rs _ x hv (hM x (by simp))) (fun y hy => hM y (by simp [hy]))

/-- scanning points none of which beats the current worst distance changes nothing
    (this is what justifies pruning a subtree) -/
theorem scan_noop (M : α) (rs : ResultSet α) (L : List Nat)
    (hM : ∀ x ∈ L, sqDist dim q P x < M) (hw : ∀ x ∈ L, rs.worstDist M ≤ sqDist dim q P x) :
    scan dim P q rs L = rs := by
  induction L with
  | nil => rfl
  | cons x L ih =>
    rw [scan_cons]
    have hx : rs.addPoint (sqDist dim q P x) x = rs := by
      by_cases hfull : rs.items.length = rs.capacity
      · exact addPoint_noop M rs _ x hfull (hw x (by simp))
      · have h1 := hw x (by simp)
        rw [worstDist_not_full M rs hfull] at h1
        exact absurd (hM x (by simp)) (not_lt.mpr h1)
    rw [hx]
    exact ih (fun y hy => hM y (by simp [hy])) (fun y hy => hw y (by simp [hy]))

/-- the leaf loop (stale `worst_dist`, filter `dist < worst_dist`) is the plain scan of the leaf -/
theorem leafLoop_eq_scan (M : α) (vind : Array Nat) (w : α) (slots : List Nat) (rs : ResultSet α)
    (hv : Valid M rs) (hw : rs.worstDist M ≤ w)
    (hM : ∀ s ∈ slots, sqDist dim q P vind[s]! < M) :
    leafLoop dim P vind q w slots rs = scan dim P q rs (slots.map (fun s => vind[s]!)) := by
  induction slots generalizing rs with
  | nil => rfl
  | cons s slots ih =>
    have hs := hM s (by simp)
    have hrest : ∀ t ∈ slots, sqDist dim q P vind[t]! < M := fun t ht => hM t (by simp [ht])
    simp only [leafLoop, List.map_cons, scan_cons]
    by_cases hlt : sqDist dim q P vind[s]! < w
    · rw [if_pos hlt]
      exact ih _ (addPoint_valid M rs _ _ hv hs) (le_trans (addPoint_worst_le M rs _ _ hv hs) hw) hrest
    · rw [if_neg hlt]
      have hle : rs.worstDist M ≤ sqDist dim q P vind[s]! := le_trans hw (not_lt.mp hlt)
      have hx : rs.addPoint (sqDist dim q P vind[s]!) vind[s]! = rs := by
        by_cases hfull : rs.items.length = rs.capacity
        · exact addPoint_noop M rs _ _ hfull hle
        · rw [worstDist_not_full M rs hfull] at hle
          exact absurd hs (not_lt.mpr hle)
      rw [hx]
      exact ih rs hv hw hrest

end scan

end Romea.KdTree
