import RomeaProofs.RN
import RomeaProofs.Lemmas.C14Ray

/-!
# C14 helper: the scalar interface of the ray caster at `RN` (reals with an absorbing NaN)

Only what the coincident-points statement needs: `Trunc` (float → integer conversion; the NaN case is
undefined behaviour in C++ and totalised to 0 here, it is never reached by the statement) and `Limits`
(the sentinel, taken from `Big`).
-/
namespace Romea.RayCast
open Romea

noncomputable instance : Trunc RN := ⟨fun x => match x.val with | some a => Trunc.trunc a | none => 0⟩

noncomputable instance instLimitsRN [b : Big] : Limits RN := ⟨RN.of b.M, RN.of (-b.M), RN.of 0, RN.of 0⟩

theorem RN.zero_cast : ((0 : Nat) : RN) = RN.of 0 := by simp

theorem RN.not_nan_gt (y : RN) : ¬ (RN.nan > y) := RN.not_lt_nan y

end Romea.RayCast
