import RomeaProofs.Lemmas.C03Real
import RomeaProofs.RN

/-!
# C03 helper lemmas: evaluating the Lambert model at `RN`

`RN` (reals with an absorbing NaN) only returns a proper number when the guard of every partial
operation on the path holds.  Each lemma here shows, for one model function, that under the stated
domain hypotheses the `RN` instance evaluates to `of` (the same model function at `ℝ`): every
division, `tan`, `pow`, `log` and `sqrt` guard is discharged explicitly (the `have g… :` lines).
-/
namespace Romea.Lambert
open Real RN

/-- evaluation rules of `RN` (conditional ones discharged by `assumption`) + literal normalisation -/
macro "rn_eval" : tactic =>
  `(tactic| (try simp only [two, one, epsilon, poleTol, natCast_of, ofScientific_of]
             simp (disch := assumption) only [Nat.cast_ofNat, Nat.cast_one, pi_of, sin_of, cos_of,
               mul_of, add_of, sub_of, neg_of, exp_of, atan_of, abs_of, div_of, tan_of, pow_of, log_of, sqrt_of]))

def Ellipsoid.toRN (E : Ellipsoid ℝ) : Ellipsoid RN := ⟨of E.a, of E.b, of E.e2, of E.e⟩
def Secant.toRN (P : Secant ℝ) : Secant RN := ⟨of P.lon0, of P.lat0, of P.lat1, of P.lat2, of P.x0, of P.y0⟩
def Tangent.toRN (P : Tangent ℝ) : Tangent RN := ⟨of P.lat0, of P.lon0, of P.k0, of P.x0, of P.y0⟩
def Params.toRN (p : Params ℝ) : Params RN := ⟨of p.lon0, of p.n, of p.c, of p.xs, of p.ys⟩
def Conv.toRN (cv : Conv ℝ) : Conv RN := ⟨of cv.lon0, of cv.n, of cv.c, of cv.xs, of cv.ys, of cv.e⟩

theorem Conv.ofParams_toRN (p : Params ℝ) (e : ℝ) : Conv.ofParams p.toRN (of e) = (Conv.ofParams p e).toRN := rfl

theorem g2 : (2 : ℝ) ≠ 0 := by norm_num
theorem g4 : (4 : ℝ) ≠ 0 := by norm_num

theorem isoLat_of {φ e : ℝ} (h : InDom φ) (he : EccOK e) : isoLat (of φ) (of e) = of (isoLat φ e) := by
  have g4 := g4
  have g2 := g2
  have gt : cos (π / 4 + φ / 2) ≠ 0 := (cos_half_pos h).ne'
  have gd : 1 + e * sin φ ≠ 0 := (one_add_esin_pos he φ).ne'
  have gp : 0 < (1 - e * sin φ) / (1 + e * sin φ) := ratio_pos he φ
  have gl : 0 < tan (π / 4 + φ / 2) * ((1 - e * sin φ) / (1 + e * sin φ)) ^ (e / 2) :=
    mul_pos (tan_half_pos h) (rpow_pos_of_pos gp _)
  rw [isoLat_real]
  unfold isoLat
  rn_eval

theorem grandeNormale_of (φ a : ℝ) {e : ℝ} (he : EccOK e) :
    grandeNormale (of φ) (of a) (of e) = of (grandeNormale φ a e) := by
  have gs : 0 ≤ 1 - e * sin φ * (e * sin φ) := (one_sub_esin_sq_pos he φ).le
  have gd : sqrt (1 - e * sin φ * (e * sin φ)) ≠ 0 := (sqrt_pos.mpr (one_sub_esin_sq_pos he φ)).ne'
  rw [grandeNormale_real]
  unfold grandeNormale
  rn_eval

theorem latStep_of (iso φ : ℝ) {e : ℝ} (he : EccOK e) :
    latStep (of iso) (of e) (of φ) = of (latStep iso e φ) := by
  have g2 := g2
  have gd : 1 - e * sin φ ≠ 0 := (one_sub_esin_pos he φ).ne'
  have gp : 0 < (1 + e * sin φ) / (1 - e * sin φ) := ratio_inv_pos he φ
  rw [latStep_real]
  unfold latStep
  rn_eval

theorem latInit_of (iso : ℝ) : latInit (of iso) = of (latInit iso) := by
  have g2 := g2
  rw [latInit_real]
  unfold latInit
  rn_eval

theorem toLambert_of (cv : Conv ℝ) {φ : ℝ} (lam : ℝ) (h : InDom φ) (he : EccOK cv.e) :
    toLambert cv.toRN (of φ) (of lam) = (of (toLambert cv φ lam).1, of (toLambert cv φ lam).2) := by
  rw [toLambert_real]
  unfold toLambert
  simp only [Conv.toRN, isoLat_of h he]
  rn_eval

theorem invIsoLat_of (cv : Conv ℝ) {x y : ℝ} (hc : cv.c ≠ 0) (hn : cv.n ≠ 0)
    (hxy : 0 < (x - cv.xs) * (x - cv.xs) + (y - cv.ys) * (y - cv.ys)) :
    invIsoLat cv.toRN (of x) (of y) = of (invIsoLat cv x y) := by
  have gs : 0 ≤ (x - cv.xs) * (x - cv.xs) + (y - cv.ys) * (y - cv.ys) := hxy.le
  have gc : |cv.c| ≠ 0 := abs_ne_zero.mpr hc
  have gl : 0 < sqrt ((x - cv.xs) * (x - cv.xs) + (y - cv.ys) * (y - cv.ys)) / |cv.c| :=
    div_pos (sqrt_pos.mpr hxy) (abs_pos.mpr hc)
  rw [invIsoLat_real]
  unfold invIsoLat
  simp only [Conv.toRN]
  rn_eval

theorem invLon_of (cv : Conv ℝ) {x y : ℝ} (hn : cv.n ≠ 0) (hy : cv.ys - y ≠ 0) :
    invLon cv.toRN (of x) (of y) = of (invLon cv x y) := by
  rw [invLon_real]
  unfold invLon
  simp only [Conv.toRN]
  rn_eval

/-- the loop of `computeLatitude` takes the same branches over `RN` and over `ℝ` -/
theorem latLoop_of (iso : ℝ) {e : ℝ} (he : EccOK e) (fuel : ℕ) (φ : ℝ) :
    latLoop (of iso) (of e) fuel (of φ) = (latLoop iso e fuel φ).map of := by
  induction fuel generalizing φ with
  | zero => rfl
  | succ k ih =>
    simp only [latLoop, latStep_of iso φ he]
    have hcond : (Trans.abs (of (latStep iso e φ) - of φ) < (epsilon : RN)) ↔
        (Trans.abs (latStep iso e φ - φ) < (epsilon : ℝ)) := by
      simp only [epsilon, sub_of, abs_of, ofScientific_of, lt_of, trans_abs]
    by_cases hc : Trans.abs (latStep iso e φ - φ) < (epsilon : ℝ)
    · rw [if_pos (hcond.mpr hc), if_pos hc]; rfl
    · rw [if_neg (fun h => hc (hcond.mp h)), if_neg hc]; exact ih _

theorem latFromIso_of (fuel : ℕ) (iso : ℝ) {e : ℝ} (he : EccOK e) :
    latFromIso fuel (of iso) (of e) = (latFromIso fuel iso e).map of := by
  unfold latFromIso
  rw [latInit_of, latLoop_of iso he]

/-! ### the constructors -/

theorem Ellipsoid.make_of {a b : ℝ} (ha : 0 < a) (hb : 0 ≤ b) (hab : b ≤ a) :
    Ellipsoid.make (of a) (of b) = (Ellipsoid.make a b).toRN := by
  have gd : a * a ≠ 0 := (mul_pos ha ha).ne'
  have gs : 0 ≤ (a * a - b * b) / (a * a) :=
    div_nonneg (by nlinarith) (mul_pos ha ha).le
  unfold Ellipsoid.make Ellipsoid.toRN
  simp only [trans_sqrt]
  rn_eval

/-- `0 < b ≤ a` gives an eccentricity in `[0, 1)` -/
theorem Ellipsoid.make_eccOK {a b : ℝ} (hb : 0 < b) (hab : b ≤ a) : EccOK (Ellipsoid.make a b).e := by
  have ha : 0 < a := lt_of_lt_of_le hb hab
  simp only [Ellipsoid.make, trans_sqrt]
  refine ⟨sqrt_nonneg _, ?_⟩
  rw [sqrt_lt' one_pos, div_lt_iff₀ (mul_pos ha ha)]
  nlinarith

theorem paramsTangent_of (P : Tangent ℝ) (E : Ellipsoid ℝ) (h0 : InDom P.lat0) (hs : sin P.lat0 ≠ 0)
    (he : EccOK E.e) : paramsTangent P.toRN E.toRN = (paramsTangent P E).toRN := by
  rw [paramsTangent_real]
  unfold paramsTangent
  simp only [Tangent.toRN, Ellipsoid.toRN, Params.toRN, isoLat_of h0 he, grandeNormale_of _ _ he, cTan]
  rn_eval

theorem paramsSecant_of (P : Secant ℝ) (E : Ellipsoid ℝ) (h0 : InDom P.lat0) (h1 : InDom P.lat1)
    (h2 : InDom P.lat2) (ha : 0 < E.a) (he : EccOK E.e) (hne : |P.lat1| ≠ |P.lat2|) :
    paramsSecant P.toRN E.toRN = (paramsSecant P E).toRN := by
  have hn := nSec_ne_zero h1 h2 ha he hne
  have r1 := rPar_pos h1 ha he
  have r2 := rPar_pos h2 ha he
  have gr : grandeNormale P.lat1 E.a E.e * cos P.lat1 ≠ 0 := r1.ne'
  have gl : 0 < grandeNormale P.lat2 E.a E.e * cos P.lat2 / (grandeNormale P.lat1 E.a E.e * cos P.lat1) :=
    div_pos r2 r1
  have gL : isoLat P.lat1 E.e - isoLat P.lat2 E.e ≠ 0 :=
    sub_ne_zero.mpr (isoLat_ne h1 h2 he (fun h => hne (by rw [h])))
  have gn : log (grandeNormale P.lat2 E.a E.e * cos P.lat2 / (grandeNormale P.lat1 E.a E.e * cos P.lat1)) /
      (isoLat P.lat1 E.e - isoLat P.lat2 E.e) ≠ 0 := hn
  have g2 := g2
  rw [paramsSecant_real]
  unfold paramsSecant
  simp only [Secant.toRN, Ellipsoid.toRN, Params.toRN, isoLat_of h0 he, isoLat_of h1 he, isoLat_of h2 he,
    grandeNormale_of _ _ he, nSec, cSec, rPar]
  rn_eval
  simp only [lt_of]
  by_cases hp : (OfScientific.ofScientific 1 true 9 : ℝ) < |P.lat0 - π / 2|
  · simp only [hp, ↓reduceIte]
  · simp only [hp, ↓reduceIte]

end Romea.Lambert
