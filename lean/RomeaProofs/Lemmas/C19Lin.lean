import RomeaModel.Linearize

/-!
# Reduction of the interleaving semantics to the serial machine (helper lemmas for C19)

Invariant `Inv`: with `L` the serial machine run in the order in which the guard was acquired so far,
every thread is in one of four phases — idle, ready (call popped, guard not yet taken), inside its critical
section, after the release — and in each phase its private state is tied to `L`: "letting the thread finish its
current call alone from the present state yields exactly the serial machine's store and result".  Every
micro-step of every thread preserves it (`inv_step`), hence every schedule does (`inv_run`).
-/
namespace Romea.Lin
open Romea.Lockset

variable {V A R : Type}

/-! ### basic facts about `upd`, `execSteps` -/

@[simp] theorem upd_same {κ β : Type} [DecidableEq κ] (f : κ → β) (a : κ) (b : β) : upd f a b a = b := by
  simp [upd]

theorem upd_other {κ β : Type} [DecidableEq κ] (f : κ → β) (a : κ) (b : β) (x : κ) (h : x ≠ a) :
    upd f a b x = f x := by
  simp [upd, h]

@[simp] theorem execSteps_nil (a : A) (x : Store V × Locals V × Option R) : execSteps a x [] = x := rfl

@[simp] theorem execSteps_cons (a : A) (x : Store V × Locals V × Option R) (st : Step V A R) (b : List (Step V A R)) :
    execSteps a x (st :: b) = execSteps a (execStep a x st) b := rfl

theorem execSteps_append (a : A) (x : Store V × Locals V × Option R) (b c : List (Step V A R)) :
    execSteps a x (b ++ c) = execSteps a (execSteps a x b) c := by
  simp [execSteps, List.foldl_append]

/-- local steps neither read nor change the store -/
theorem execSteps_local (a : A) (b : List (Step V A R)) (hb : ∀ st ∈ b, st.isLocal = true)
    (σ : Store V) (l : Locals V) (r : Option R) :
    (execSteps a (σ, l, r) b).1 = σ ∧ ∀ σ' : Store V, (execSteps a (σ', l, r) b).2 = (execSteps a (σ, l, r) b).2 := by
  induction b generalizing l r with
  | nil => simp
  | cons st b ih =>
    have hst := hb st (by simp)
    have hb' : ∀ st ∈ b, st.isLocal = true := fun s hs => hb s (by simp [hs])
    cases st with
    | ret e =>
      simp only [execSteps_cons, execStep]
      exact ih hb' l (some (e l a))
    | acq m => simp [Step.isLocal] at hst
    | rel m => simp [Step.isLocal] at hst
    | rd ad v => simp [Step.isLocal] at hst
    | wr ad e => simp [Step.isLocal] at hst

/-! ### the invariant -/

variable [Inhabited V]

/-- phase of thread `t` and its tie to the serial machine `L` -/
def ThreadInv (g : Nat) (s : State V A R) (L : SerState V A R) (t : Nat) : Prop :=
  match (s.thr t).cur with
  | none => s.locks g ≠ some t ∧ L.todo t = (s.thr t).todo ∧ L.res t = (s.thr t).done
  | some fr =>
      (s.locks g ≠ some t ∧ ∃ c : Call V A R, Shape g c.body ∧ L.todo t = c :: (s.thr t).todo ∧
          fr = ⟨c.body, c.arg, emptyLoc, none⟩ ∧ L.res t = (s.thr t).done)
    ∨ (s.locks g = some t ∧
          (∃ cs post, fr.pc = cs ++ Step.rel g :: post ∧ (∀ st ∈ cs, st.isData = true) ∧ (∀ st ∈ post, st.isLocal = true)) ∧
          L.todo t = (s.thr t).todo ∧ L.res t = (s.thr t).done ++ [(fr.finish s.store).2.2] ∧
          L.store = (fr.finish s.store).1)
    ∨ (s.locks g ≠ some t ∧ (∀ st ∈ fr.pc, st.isLocal = true) ∧ L.todo t = (s.thr t).todo ∧
          ∀ σ : Store V, L.res t = (s.thr t).done ++ [(fr.finish σ).2.2])

structure Inv (g : Nat) (σ0 : Store V) (prog : Nat → List (Call V A R)) (s : State V A R) : Prop where
  thr : ∀ t, ThreadInv g s (serial σ0 prog (acqOrder g s)) t
  free : s.locks g = none → s.store = (serial σ0 prog (acqOrder g s)).store
  ok : (serial σ0 prog (acqOrder g s)).ok = true
  sh : ∀ t, ∀ c ∈ (s.thr t).todo, Shape g c.body

/-- a thread other than the one that moved keeps its invariant -/
theorem threadInv_other (g : Nat) (s s' : State V A R) (L L' : SerState V A R) (t' : Nat)
    (hthr : s'.thr t' = s.thr t')
    (hlk : s'.locks g = some t' ↔ s.locks g = some t')
    (htodo : L'.todo t' = L.todo t') (hres : L'.res t' = L.res t')
    (hst : s.locks g = some t' → s'.store = s.store ∧ L'.store = L.store)
    (h : ThreadInv g s L t') : ThreadInv g s' L' t' := by
  unfold ThreadInv at h ⊢
  rw [hthr]
  cases hc : (s.thr t').cur with
  | none =>
    rw [hc] at h
    simp only at h ⊢
    exact ⟨fun hh => h.1 (hlk.mp hh), by rw [htodo]; exact h.2.1, by rw [hres]; exact h.2.2⟩
  | some fr =>
    rw [hc] at h
    simp only at h ⊢
    rcases h with ⟨hn, c, hsh, ht, hf, hr⟩ | ⟨hh, hpc, ht, hr, hs⟩ | ⟨hn, hl, ht, hr⟩
    · exact Or.inl ⟨fun hh => hn (hlk.mp hh), c, hsh, by rw [htodo]; exact ht, hf, by rw [hres]; exact hr⟩
    · obtain ⟨e1, e2⟩ := hst hh
      refine Or.inr (Or.inl ⟨hlk.mpr hh, hpc, by rw [htodo]; exact ht, ?_, ?_⟩)
      · rw [hres, e1]; exact hr
      · rw [e1, e2]; exact hs
    · exact Or.inr (Or.inr ⟨fun hh => hn (hlk.mp hh), hl, by rw [htodo]; exact ht, fun σ => by rw [hres]; exact hr σ⟩)

/-! ### equations of `step`, one per kind of micro-step (componentwise) -/

theorem step_idle (s : State V A R) (t : Nat) (hc : (s.thr t).cur = none) (ht : (s.thr t).todo = []) :
    step s t = s := by
  simp [step, hc, ht]

theorem step_call (s : State V A R) (t : Nat) (c : Call V A R) (r : List (Call V A R))
    (hc : (s.thr t).cur = none) (ht : (s.thr t).todo = c :: r) :
    (step s t).store = s.store ∧ (step s t).locks = s.locks ∧ (step s t).log = s.log ∧
    (step s t).thr = upd s.thr t ⟨some ⟨c.body, c.arg, emptyLoc, none⟩, r, (s.thr t).done⟩ := by
  refine ⟨?_, ?_, ?_, ?_⟩ <;> simp [step, hc, ht]

theorem step_return (s : State V A R) (t : Nat) (fr : Frame V A R)
    (hc : (s.thr t).cur = some fr) (hp : fr.pc = []) :
    (step s t).store = s.store ∧ (step s t).locks = s.locks ∧ (step s t).log = s.log ∧
    (step s t).thr = upd s.thr t ⟨none, (s.thr t).todo, (s.thr t).done ++ [fr.ret]⟩ := by
  refine ⟨?_, ?_, ?_, ?_⟩ <;> simp [step, hc, hp]

theorem step_acq_blocked (s : State V A R) (t : Nat) (fr : Frame V A R) (m : Nat) (pc : List (Step V A R))
    (hc : (s.thr t).cur = some fr) (hp : fr.pc = Step.acq m :: pc) (hl : s.locks m ≠ none) :
    step s t = s := by
  have : (s.locks m).isNone = false := by
    cases h : s.locks m with
    | none => exact absurd h hl
    | some x => rfl
  simp [step, hc, hp, this]

theorem step_acq (s : State V A R) (t : Nat) (fr : Frame V A R) (m : Nat) (pc : List (Step V A R))
    (hc : (s.thr t).cur = some fr) (hp : fr.pc = Step.acq m :: pc) (hl : s.locks m = none) :
    (step s t).store = s.store ∧ (step s t).locks = upd s.locks m (some t) ∧ (step s t).log = s.log ++ [(t, m)] ∧
    (step s t).thr = upd s.thr t ⟨some ⟨pc, fr.arg, fr.loc, fr.ret⟩, (s.thr t).todo, (s.thr t).done⟩ := by
  refine ⟨?_, ?_, ?_, ?_⟩ <;> simp [step, hc, hp, hl]

theorem step_rel_blocked (s : State V A R) (t : Nat) (fr : Frame V A R) (m : Nat) (pc : List (Step V A R))
    (hc : (s.thr t).cur = some fr) (hp : fr.pc = Step.rel m :: pc) (hl : s.locks m ≠ some t) :
    step s t = s := by
  simp [step, hc, hp, hl]

theorem step_rel (s : State V A R) (t : Nat) (fr : Frame V A R) (m : Nat) (pc : List (Step V A R))
    (hc : (s.thr t).cur = some fr) (hp : fr.pc = Step.rel m :: pc) (hl : s.locks m = some t) :
    (step s t).store = s.store ∧ (step s t).locks = upd s.locks m none ∧ (step s t).log = s.log ∧
    (step s t).thr = upd s.thr t ⟨some ⟨pc, fr.arg, fr.loc, fr.ret⟩, (s.thr t).todo, (s.thr t).done⟩ := by
  refine ⟨?_, ?_, ?_, ?_⟩ <;> simp [step, hc, hp, hl]

theorem step_rd (s : State V A R) (t : Nat) (fr : Frame V A R) (a : Addr) (x : Var) (pc : List (Step V A R))
    (hc : (s.thr t).cur = some fr) (hp : fr.pc = Step.rd a x :: pc) :
    (step s t).store = s.store ∧ (step s t).locks = s.locks ∧ (step s t).log = s.log ∧
    (step s t).thr = upd s.thr t ⟨some ⟨pc, fr.arg, upd fr.loc x (s.store a), fr.ret⟩, (s.thr t).todo, (s.thr t).done⟩ := by
  refine ⟨?_, ?_, ?_, ?_⟩ <;> simp [step, hc, hp]

theorem step_wr (s : State V A R) (t : Nat) (fr : Frame V A R) (a : Addr) (e : Locals V → A → V) (pc : List (Step V A R))
    (hc : (s.thr t).cur = some fr) (hp : fr.pc = Step.wr a e :: pc) :
    (step s t).store = upd s.store a (e fr.loc fr.arg) ∧ (step s t).locks = s.locks ∧ (step s t).log = s.log ∧
    (step s t).thr = upd s.thr t ⟨some ⟨pc, fr.arg, fr.loc, fr.ret⟩, (s.thr t).todo, (s.thr t).done⟩ := by
  refine ⟨?_, ?_, ?_, ?_⟩ <;> simp [step, hc, hp]

theorem step_ret (s : State V A R) (t : Nat) (fr : Frame V A R) (e : Locals V → A → R) (pc : List (Step V A R))
    (hc : (s.thr t).cur = some fr) (hp : fr.pc = Step.ret e :: pc) :
    (step s t).store = s.store ∧ (step s t).locks = s.locks ∧ (step s t).log = s.log ∧
    (step s t).thr = upd s.thr t ⟨some ⟨pc, fr.arg, fr.loc, some (e fr.loc fr.arg)⟩, (s.thr t).todo, (s.thr t).done⟩ := by
  refine ⟨?_, ?_, ?_, ?_⟩ <;> simp [step, hc, hp]

/-! ### the serial machine grows with the acquisition log -/

theorem serial_snoc (σ0 : Store V) (prog : Nat → List (Call V A R)) (lin : List Nat) (t : Nat) :
    serial σ0 prog (lin ++ [t]) = serStep (serial σ0 prog lin) t := by
  simp [serial, List.foldl_append]

theorem acqOrder_log_snoc (g : Nat) (s s' : State V A R) (t : Nat) (h : s'.log = s.log ++ [(t, g)]) :
    acqOrder g s' = acqOrder g s ++ [t] := by
  unfold acqOrder
  rw [h, List.filterMap_append]
  simp

theorem acqOrder_log_same (g : Nat) (s s' : State V A R) (h : s'.log = s.log) : acqOrder g s' = acqOrder g s := by
  unfold acqOrder; rw [h]

/-- a step that leaves the acquisition log alone: the invariant of the moving thread, plus frame conditions -/
theorem inv_same_log (g : Nat) (σ0 : Store V) (prog : Nat → List (Call V A R)) (s s' : State V A R) (t : Nat)
    (th' : Thread V A R)
    (hlog : s'.log = s.log) (hthr : s'.thr = upd s.thr t th')
    (hlk : ∀ t', t' ≠ t → (s'.locks g = some t' ↔ s.locks g = some t'))
    (hst : ∀ t', t' ≠ t → s.locks g = some t' → s'.store = s.store)
    (hfree : s'.locks g = none → s'.store = (serial σ0 prog (acqOrder g s)).store)
    (htodo : ∀ c ∈ th'.todo, Shape g c.body)
    (hT : ThreadInv g s' (serial σ0 prog (acqOrder g s)) t)
    (hI : Inv g σ0 prog s) : Inv g σ0 prog s' := by
  have hL := acqOrder_log_same g s s' hlog
  refine ⟨fun t' => ?_, ?_, ?_, ?_⟩
  · rw [hL]
    by_cases ht' : t' = t
    · subst ht'; exact hT
    · refine threadInv_other g s s' _ _ t' ?_ (hlk t' ht') rfl rfl (fun hh => ⟨hst t' ht' hh, rfl⟩) (hI.thr t')
      rw [hthr]; exact upd_other _ _ _ _ ht'
  · rw [hL]; exact hfree
  · rw [hL]; exact hI.ok
  · intro t' c hc'
    by_cases ht' : t' = t
    · subst ht'
      rw [hthr, upd_same] at hc'
      exact htodo c hc'
    · rw [hthr, upd_other _ _ _ _ ht'] at hc'
      exact hI.sh t' c hc'

/-! ### every micro-step preserves the invariant -/

theorem finish_cons (σ : Store V) (fr : Frame V A R) (st : Step V A R) (pc : List (Step V A R)) (hp : fr.pc = st :: pc) :
    fr.finish σ = execSteps fr.arg (execStep fr.arg (σ, fr.loc, fr.ret) st) pc := by
  simp [Frame.finish, hp]

theorem inv_step (g : Nat) (σ0 : Store V) (prog : Nat → List (Call V A R)) (s : State V A R) (t : Nat)
    (hI : Inv g σ0 prog s) : Inv g σ0 prog (step s t) := by
  have hT := hI.thr t
  unfold ThreadInv at hT
  cases hc : (s.thr t).cur with
  | none =>
    rw [hc] at hT
    simp only at hT
    obtain ⟨hn, htodo, hres⟩ := hT
    cases htd : (s.thr t).todo with
    | nil => rw [step_idle s t hc htd]; exact hI
    | cons c r =>
      obtain ⟨e1, e2, e3, e4⟩ := step_call s t c r hc htd
      refine inv_same_log g σ0 prog s _ t _ e3 e4 (fun t' _ => by rw [e2]) (fun _ _ _ => e1)
        (fun h => by rw [e1]; exact hI.free (by rw [← e2]; exact h)) ?_ ?_ hI
      · intro c' hc'
        exact hI.sh t c' (by rw [htd]; simp [hc'])
      · unfold ThreadInv
        rw [e4, upd_same, e2]
        refine Or.inl ⟨hn, c, hI.sh t c (by rw [htd]; simp), ?_, rfl, hres⟩
        rw [htodo, htd]
  | some fr =>
    rw [hc] at hT
    simp only at hT
    cases hp : fr.pc with
    | nil =>
      obtain ⟨e1, e2, e3, e4⟩ := step_return s t fr hc hp
      rcases hT with ⟨hn, c, hsh, ht, hf, hr⟩ | ⟨hh, ⟨cs, post, hpc, _, _⟩, ht, hr, hs⟩ | ⟨hn, hl, ht, hr⟩
      · obtain ⟨cs, post, hb, _, _⟩ := hsh
        rw [hf] at hp; simp only at hp; rw [hb] at hp; cases hp
      · rw [hp] at hpc; cases cs <;> simp at hpc
      · refine inv_same_log g σ0 prog s _ t _ e3 e4 (fun t' _ => by rw [e2]) (fun _ _ _ => e1)
          (fun h => by rw [e1]; exact hI.free (by rw [← e2]; exact h)) (fun c' hc' => hI.sh t c' hc') ?_ hI
        unfold ThreadInv
        rw [e4, upd_same, e2]
        refine ⟨hn, ht, ?_⟩
        have := hr s.store
        simpa [Frame.finish, hp] using this
    | cons st pc =>
      rcases hT with ⟨hn, c, hsh, ht, hf, hr⟩ | ⟨hh, ⟨cs, post, hpc, hcs, hpost⟩, ht, hr, hs⟩ | ⟨hn, hl, ht, hr⟩
      · -- ready: the next step is `acq g`
        obtain ⟨cs, post, hb, hcs, hpost⟩ := hsh
        have hpc : fr.pc = Step.acq g :: (cs ++ Step.rel g :: post) := by rw [hf]; exact hb
        rw [hp] at hpc
        injection hpc with h1 h2
        subst h1; subst h2
        by_cases hfree : s.locks g = none
        · obtain ⟨e1, e2, e3, e4⟩ := step_acq s t fr g _ hc hp hfree
          have hL : acqOrder g (step s t) = acqOrder g s ++ [t] := acqOrder_log_snoc g s _ t e3
          have hSer : serial σ0 prog (acqOrder g (step s t)) = serStep (serial σ0 prog (acqOrder g s)) t := by
            rw [hL, serial_snoc]
          have hStep : serStep (serial σ0 prog (acqOrder g s)) t =
              { (serial σ0 prog (acqOrder g s)) with
                store := (runCall (serial σ0 prog (acqOrder g s)).store c).1,
                todo := upd (serial σ0 prog (acqOrder g s)).todo t (s.thr t).todo,
                res := upd (serial σ0 prog (acqOrder g s)).res t
                  ((serial σ0 prog (acqOrder g s)).res t ++ [(runCall (serial σ0 prog (acqOrder g s)).store c).2]),
                hist := (serial σ0 prog (acqOrder g s)).hist ++ [(t, c, (runCall (serial σ0 prog (acqOrder g s)).store c).2)] } := by
            simp [serStep, ht]
          have hrun : runCall s.store c =
              ((execSteps c.arg (s.store, emptyLoc, none) (cs ++ Step.rel g :: post)).1,
               (execSteps c.arg (s.store, emptyLoc, none) (cs ++ Step.rel g :: post)).2.2) := by
            simp [runCall, hb, execStep]
          have hstore := hI.free hfree
          refine ⟨fun t' => ?_, ?_, ?_, ?_⟩
          · rw [hSer, hStep]
            by_cases ht' : t' = t
            · subst ht'
              unfold ThreadInv
              rw [e4, upd_same, e2, e1]
              simp only [upd_same]
              refine Or.inr (Or.inl ⟨trivial, ⟨cs, post, rfl, hcs, hpost⟩, trivial, ?_, ?_⟩)
              · rw [hr, ← hstore, hrun]
                simp [Frame.finish, hf]
              · rw [← hstore, hrun]
                simp [Frame.finish, hf]
            · refine threadInv_other g s _ _ _ t' ?_ ?_ ?_ ?_ ?_ (hI.thr t')
              · rw [e4]; exact upd_other _ _ _ _ ht'
              · rw [e2, upd_same, hfree]
                constructor
                · intro h; injection h with h; exact absurd h.symm ht'
                · intro h; cases h
              · simp [upd_other _ _ _ _ ht']
              · simp [upd_other _ _ _ _ ht']
              · intro h; rw [hfree] at h; cases h
          · intro h; rw [e2, upd_same] at h; cases h
          · rw [hSer, hStep]; exact hI.ok
          · intro t' c' hc'
            by_cases ht' : t' = t
            · subst ht'
              rw [e4, upd_same] at hc'
              exact hI.sh t' c' hc'
            · rw [e4, upd_other _ _ _ _ ht'] at hc'
              exact hI.sh t' c' hc'
        · rw [step_acq_blocked s t fr g _ hc hp hfree]; exact hI
      · -- inside the critical section
        rw [hp] at hpc
        cases cs with
        | nil =>
          -- the release
          simp only [List.nil_append] at hpc
          injection hpc with h1 h2
          subst h1; subst h2
          obtain ⟨e1, e2, e3, e4⟩ := step_rel s t fr g _ hc hp hh
          have hfin := execSteps_local fr.arg pc hpost s.store fr.loc fr.ret
          have hfs : fr.finish s.store = execSteps fr.arg (s.store, fr.loc, fr.ret) pc := by
            rw [finish_cons s.store fr _ _ hp]; rfl
          refine inv_same_log g σ0 prog s _ t _ e3 e4 ?_ (fun _ _ _ => e1) ?_ (fun c' hc' => hI.sh t c' hc') ?_ hI
          · intro t' ht'
            rw [e2, upd_same, hh]
            constructor
            · intro h; cases h
            · intro h; injection h with h; exact absurd h.symm ht'
          · intro _
            rw [e1, hs, hfs]; exact hfin.1.symm
          · unfold ThreadInv
            rw [e4, upd_same, e2, upd_same]
            refine Or.inr (Or.inr ⟨by simp, hpost, ht, fun σ => ?_⟩)
            rw [hr, hfs]
            simp only [Frame.finish]
            rw [hfin.2 σ]
        | cons st' cs' =>
          simp only [List.cons_append] at hpc
          injection hpc with h1 h2
          subst h1
          have hd := hcs st (by simp)
          have hcs' : ∀ x ∈ cs', x.isData = true := fun x hx => hcs x (by simp [hx])
          have hothers : ∀ t', t' ≠ t → s.locks g = some t' → False := by
            intro t' ht' h; rw [hh] at h; injection h with h; exact ht' h.symm
          cases st with
          | acq m => simp [Step.isData] at hd
          | rel m => simp [Step.isData] at hd
          | rd a x =>
            obtain ⟨e1, e2, e3, e4⟩ := step_rd s t fr a x pc hc hp
            refine inv_same_log g σ0 prog s _ t _ e3 e4 (fun t' _ => by rw [e2]) (fun _ _ _ => e1)
              (fun h => by rw [e2, hh] at h; cases h) (fun c' hc' => hI.sh t c' hc') ?_ hI
            unfold ThreadInv
            rw [e4, upd_same, e2, e1]
            refine Or.inr (Or.inl ⟨hh, ⟨cs', post, h2, hcs', hpost⟩, ht, ?_, ?_⟩)
            · rw [hr, finish_cons s.store fr _ _ hp]; rfl
            · rw [hs, finish_cons s.store fr _ _ hp]; rfl
          | wr a e =>
            obtain ⟨e1, e2, e3, e4⟩ := step_wr s t fr a e pc hc hp
            refine inv_same_log g σ0 prog s _ t _ e3 e4 (fun t' _ => by rw [e2]) (fun t' ht' h => (hothers t' ht' h).elim)
              (fun h => by rw [e2, hh] at h; cases h) (fun c' hc' => hI.sh t c' hc') ?_ hI
            unfold ThreadInv
            rw [e4, upd_same, e2, e1]
            refine Or.inr (Or.inl ⟨hh, ⟨cs', post, h2, hcs', hpost⟩, ht, ?_, ?_⟩)
            · rw [hr, finish_cons s.store fr _ _ hp]; rfl
            · rw [hs, finish_cons s.store fr _ _ hp]; rfl
          | ret e =>
            obtain ⟨e1, e2, e3, e4⟩ := step_ret s t fr e pc hc hp
            refine inv_same_log g σ0 prog s _ t _ e3 e4 (fun t' _ => by rw [e2]) (fun _ _ _ => e1)
              (fun h => by rw [e2, hh] at h; cases h) (fun c' hc' => hI.sh t c' hc') ?_ hI
            unfold ThreadInv
            rw [e4, upd_same, e2, e1]
            refine Or.inr (Or.inl ⟨hh, ⟨cs', post, h2, hcs', hpost⟩, ht, ?_, ?_⟩)
            · rw [hr, finish_cons s.store fr _ _ hp]; rfl
            · rw [hs, finish_cons s.store fr _ _ hp]; rfl
      · -- after the release: local steps only
        have hd := hl st (by rw [hp]; simp)
        have hl' : ∀ x ∈ pc, x.isLocal = true := fun x hx => hl x (by rw [hp]; simp [hx])
        cases st with
        | acq m => simp [Step.isLocal] at hd
        | rel m => simp [Step.isLocal] at hd
        | rd a x => simp [Step.isLocal] at hd
        | wr a e => simp [Step.isLocal] at hd
        | ret e =>
          obtain ⟨e1, e2, e3, e4⟩ := step_ret s t fr e pc hc hp
          refine inv_same_log g σ0 prog s _ t _ e3 e4 (fun t' _ => by rw [e2]) (fun _ _ _ => e1)
            (fun h => by rw [e1]; exact hI.free (by rw [← e2]; exact h)) (fun c' hc' => hI.sh t c' hc') ?_ hI
          unfold ThreadInv
          rw [e4, upd_same, e2]
          refine Or.inr (Or.inr ⟨hn, hl', ht, fun σ => ?_⟩)
          rw [hr σ, finish_cons σ fr _ _ hp]; rfl

theorem inv_init (g : Nat) (σ0 : Store V) (prog : Nat → List (Call V A R))
    (hsh : ∀ t, ∀ c ∈ prog t, Shape g c.body) : Inv g σ0 prog (init σ0 prog) := by
  refine ⟨fun t => ?_, fun _ => rfl, rfl, hsh⟩
  unfold ThreadInv
  simp [init, acqOrder, serial, serInit]

theorem inv_run (g : Nat) (σ0 : Store V) (prog : Nat → List (Call V A R)) (s : State V A R) (sch : List Nat)
    (hI : Inv g σ0 prog s) : Inv g σ0 prog (run s sch) := by
  induction sch generalizing s with
  | nil => exact hI
  | cons t r ih => exact ih (step s t) (inv_step g σ0 prog s t hI)

/-! ### facts about the serial machine -/

theorem histRes_append (h1 h2 : List (Nat × Call V A R × Option R)) (t : Nat) :
    histRes (h1 ++ h2) t = histRes h1 t ++ histRes h2 t := by
  simp [histRes, List.filter_append]

theorem histCalls_append (h1 h2 : List (Nat × Call V A R × Option R)) (t : Nat) :
    histCalls (h1 ++ h2) t = histCalls h1 t ++ histCalls h2 t := by
  simp [histCalls, List.filter_append]

/-- facts that hold along any continuation of the serial machine -/
theorem serFold_facts (lin : List Nat) (S0 : SerState V A R) :
    let S := lin.foldl serStep S0
    (∃ H, S.hist = S0.hist ++ H ∧
      (∀ t, S.res t = S0.res t ++ histRes H t) ∧
      (∀ t, histCalls H t ++ S.todo t = S0.todo t)) ∧
    (S.ok = true → S0.ok = true) := by
  induction lin generalizing S0 with
  | nil => exact ⟨⟨[], by simp, by simp [histRes], by simp [histCalls]⟩, id⟩
  | cons u r ih =>
    simp only [List.foldl_cons]
    obtain ⟨⟨H, hH, hres, hcalls⟩, hok⟩ := ih (serStep S0 u)
    cases htd : S0.todo u with
    | nil =>
      have e : serStep S0 u = { S0 with ok := false } := by simp [serStep, htd]
      rw [e] at hH hres hcalls hok ⊢
      refine ⟨⟨H, hH, hres, hcalls⟩, fun h => ?_⟩
      have := hok h
      simp at this
    | cons c rest =>
      have e : serStep S0 u = { S0 with
              store := (runCall S0.store c).1,
              todo := upd S0.todo u rest,
              res := upd S0.res u (S0.res u ++ [(runCall S0.store c).2]),
              hist := S0.hist ++ [(u, c, (runCall S0.store c).2)] } := by simp [serStep, htd]
      rw [e] at hH hres hcalls hok ⊢
      simp only at hH hres hcalls hok
      refine ⟨⟨(u, c, (runCall S0.store c).2) :: H, by rw [hH]; simp, fun t => ?_, fun t => ?_⟩, hok⟩
      · rw [hres t]
        by_cases ht : t = u
        · subst ht; simp [histRes]
        · have : (u == t) = false := by simp; exact fun h => ht h.symm
          simp [upd_other _ _ _ _ ht, histRes, this]
      · have := hcalls t
        by_cases ht : t = u
        · subst ht; rw [upd_same] at this; simp [histCalls, htd] at this ⊢; exact this
        · have hb : (u == t) = false := by simp; exact fun h => ht h.symm
          rw [upd_other _ _ _ _ ht] at this
          simp [histCalls, hb] at this ⊢; exact this

theorem serial_facts (σ0 : Store V) (prog : Nat → List (Call V A R)) (lin : List Nat) :
    (∀ t, (serial σ0 prog lin).res t = histRes (serial σ0 prog lin).hist t) ∧
    (∀ t, histCalls (serial σ0 prog lin).hist t ++ (serial σ0 prog lin).todo t = prog t) := by
  obtain ⟨⟨H, hH, hres, hcalls⟩, _⟩ := serFold_facts lin (serInit σ0 prog)
  have hH' : (serial σ0 prog lin).hist = H := by
    have : (serial σ0 prog lin).hist = (serInit σ0 prog).hist ++ H := hH
    simpa [serInit] using this
  refine ⟨fun t => ?_, fun t => ?_⟩
  · rw [hH']; have := hres t; simpa [serial, serInit] using this
  · rw [hH']; exact hcalls t

/-- the history of the serial machine is a legal history of every sequential object the calls refine -/
theorem serFold_legal {S Op : Type} (o : SeqObj S Op R) (abs : Store V → S) (dec : Call V A R → Op)
    (P : Call V A R → Prop)
    (href : ∀ c, P c → ∀ σ, abs (runCall σ c).1 = (o.step (abs σ) (dec c)).1 ∧ (runCall σ c).2 = (o.step (abs σ) (dec c)).2)
    (lin : List Nat) (S0 : SerState V A R) (hP : ∀ t, ∀ c ∈ S0.todo t, P c) :
    ∃ H, (lin.foldl serStep S0).hist = S0.hist ++ H ∧
      o.runList (abs S0.store) (H.map fun e => dec e.2.1) = (abs (lin.foldl serStep S0).store, H.map fun e => e.2.2) := by
  induction lin generalizing S0 with
  | nil => exact ⟨[], by simp, by simp [SeqObj.runList]⟩
  | cons u r ih =>
    simp only [List.foldl_cons]
    cases htd : S0.todo u with
    | nil =>
      have e : serStep S0 u = { S0 with ok := false } := by simp [serStep, htd]
      rw [e]
      exact ih { S0 with ok := false } hP
    | cons c rest =>
      have e : serStep S0 u = { S0 with
              store := (runCall S0.store c).1,
              todo := upd S0.todo u rest,
              res := upd S0.res u (S0.res u ++ [(runCall S0.store c).2]),
              hist := S0.hist ++ [(u, c, (runCall S0.store c).2)] } := by simp [serStep, htd]
      rw [e]
      have hPc : P c := hP u c (by rw [htd]; simp)
      obtain ⟨H, hH, hrun⟩ := ih { S0 with
              store := (runCall S0.store c).1,
              todo := upd S0.todo u rest,
              res := upd S0.res u (S0.res u ++ [(runCall S0.store c).2]),
              hist := S0.hist ++ [(u, c, (runCall S0.store c).2)] } (by
        intro t c' hc'
        by_cases ht : t = u
        · subst ht; simp only [upd_same] at hc'; exact hP t c' (by rw [htd]; simp [hc'])
        · simp only [upd_other _ _ _ _ ht] at hc'; exact hP t c' hc')
      refine ⟨(u, c, (runCall S0.store c).2) :: H, by rw [hH]; simp, ?_⟩
      obtain ⟨r1, r2⟩ := href c hPc S0.store
      simp only [List.map_cons, SeqObj.runList]
      simp only at hrun
      rw [← r1, hrun, r2]

/-- a predicate on stores that every call preserves holds of every store of the serial machine, and every
    result in its history was computed by running the call alone from a store satisfying it -/
theorem serFold_inv (I : Store V → Prop) (P : Call V A R → Prop)
    (hpres : ∀ c, P c → ∀ σ, I σ → I (runCall σ c).1)
    (lin : List Nat) (S0 : SerState V A R) (hP : ∀ t, ∀ c ∈ S0.todo t, P c) (hI : I S0.store) :
    I (lin.foldl serStep S0).store ∧
    ∃ H, (lin.foldl serStep S0).hist = S0.hist ++ H ∧
      ∀ e ∈ H, P e.2.1 ∧ ∃ σ, I σ ∧ e.2.2 = (runCall σ e.2.1).2 := by
  induction lin generalizing S0 with
  | nil => exact ⟨hI, [], by simp, by simp⟩
  | cons u r ih =>
    simp only [List.foldl_cons]
    cases htd : S0.todo u with
    | nil =>
      have e : serStep S0 u = { S0 with ok := false } := by simp [serStep, htd]
      rw [e]
      exact ih { S0 with ok := false } hP hI
    | cons c rest =>
      have e : serStep S0 u = { S0 with
              store := (runCall S0.store c).1,
              todo := upd S0.todo u rest,
              res := upd S0.res u (S0.res u ++ [(runCall S0.store c).2]),
              hist := S0.hist ++ [(u, c, (runCall S0.store c).2)] } := by simp [serStep, htd]
      rw [e]
      have hPc : P c := hP u c (by rw [htd]; simp)
      obtain ⟨hI', H, hH, hall⟩ := ih { S0 with
              store := (runCall S0.store c).1,
              todo := upd S0.todo u rest,
              res := upd S0.res u (S0.res u ++ [(runCall S0.store c).2]),
              hist := S0.hist ++ [(u, c, (runCall S0.store c).2)] } (by
        intro t c' hc'
        by_cases ht : t = u
        · subst ht; simp only [upd_same] at hc'; exact hP t c' (by rw [htd]; simp [hc'])
        · simp only [upd_other _ _ _ _ ht] at hc'; exact hP t c' hc') (hpres c hPc _ hI)
      refine ⟨hI', (u, c, (runCall S0.store c).2) :: H, by rw [hH]; simp, ?_⟩
      intro e' he'
      simp only [List.mem_cons] at he'
      rcases he' with rfl | he'
      · exact ⟨hPc, S0.store, hI, rfl⟩
      · exact hall e' he'

/-! ### bodies built from event lists have the shape -/

theorem rdWords_data (W f i : Nat) : ∀ st ∈ (rdWords W f i : List (Step V A R)), st.isData = true := by
  intro st hst
  simp only [rdWords, List.mem_map] at hst
  obtain ⟨j, _, rfl⟩ := hst
  rfl

theorem wrWords_data (W f : Nat) (e : Nat → Locals V → A → V) :
    ∀ st ∈ (wrWords W f e : List (Step V A R)), st.isData = true := by
  intro st hst
  simp only [wrWords, List.mem_map] at hst
  obtain ⟨j, _, rfl⟩ := hst
  rfl

theorem evShapeCS_steps (g W : Nat) (fl : Flow V A R) (evs : List Ev) (i : Nat) (h : evShapeCS g evs = true) :
    ∃ cs, ofEventsFrom W fl i evs = cs ++ [Step.rel g, Step.ret fl.ret] ∧ ∀ st ∈ cs, st.isData = true := by
  induction evs generalizing i with
  | nil => simp [evShapeCS] at h
  | cons e r ih =>
    cases e with
    | rel m =>
      cases r with
      | nil =>
        simp only [evShapeCS, beq_iff_eq] at h
        subst h
        exact ⟨[], by simp [ofEventsFrom, evSteps], by simp⟩
      | cons e' r' => simp [evShapeCS] at h
    | rd f =>
      simp only [evShapeCS] at h
      obtain ⟨cs, hcs, hd⟩ := ih (i + 1) h
      refine ⟨rdWords W f i ++ cs, by simp [ofEventsFrom, evSteps, hcs], ?_⟩
      intro st hst
      rcases List.mem_append.mp hst with h1 | h1
      · exact rdWords_data W f i st h1
      · exact hd st h1
    | wr f =>
      simp only [evShapeCS] at h
      obtain ⟨cs, hcs, hd⟩ := ih (i + 1) h
      refine ⟨rdWords W f i ++ wrWords W f (fl.wr i) ++ cs, by simp [ofEventsFrom, evSteps, hcs], ?_⟩
      intro st hst
      rcases List.mem_append.mp hst with h1 | h1
      · rcases List.mem_append.mp h1 with h2 | h2
        · exact rdWords_data W f i st h2
        · exact wrWords_data W f _ st h2
      · exact hd st h1
    | acq m => simp [evShapeCS] at h
    | atomic f => simp [evShapeCS] at h
    | escape f => simp [evShapeCS] at h

/-- **the decidable check on an event list gives the shape**, for every width and every data flow -/
theorem shape_ofEvents (g W : Nat) (fl : Flow V A R) (evs : List Ev) (h : evShape g evs = true) :
    Shape g (ofEvents W fl evs) := by
  cases evs with
  | nil => simp [evShape] at h
  | cons e r =>
    cases e with
    | acq m =>
      simp only [evShape, Bool.and_eq_true, beq_iff_eq] at h
      obtain ⟨rfl, h2⟩ := h
      obtain ⟨cs, hcs, hd⟩ := evShapeCS_steps m W fl r 1 h2
      refine ⟨cs, [Step.ret fl.ret], ?_, hd, by simp [Step.isLocal]⟩
      simp [ofEvents, ofEventsFrom, evSteps, hcs]
    | rel m => simp [evShape] at h
    | rd f => simp [evShape] at h
    | wr f => simp [evShape] at h
    | atomic f => simp [evShape] at h
    | escape f => simp [evShape] at h

/-! ### what the invariant says, in the form used by the property theorems -/

theorem linearized_of_inv (g : Nat) (σ0 : Store V) (prog : Nat → List (Call V A R)) (s : State V A R)
    (hI : Inv g σ0 prog s) : Linearized g σ0 prog s := by
  obtain ⟨f1, f2⟩ := serial_facts σ0 prog (acqOrder g s)
  refine ⟨hI.ok, f2, f1, fun t => ?_, hI.free, fun h hh => ?_, fun t hc => ?_⟩
  · have hT := hI.thr t
    unfold ThreadInv at hT
    cases hc : (s.thr t).cur with
    | none =>
      rw [hc] at hT; simp only at hT
      rw [hT.2.2]; exact ⟨List.prefix_refl _, by omega⟩
    | some fr =>
      rw [hc] at hT; simp only at hT
      rcases hT with ⟨_, c, _, _, _, hr⟩ | ⟨_, _, _, hr, _⟩ | ⟨_, _, _, hr⟩
      · rw [hr]; exact ⟨List.prefix_refl _, by omega⟩
      · rw [hr]; exact ⟨List.prefix_append _ _, by simp⟩
      · rw [hr s.store]; exact ⟨List.prefix_append _ _, by simp⟩
  · have hT := hI.thr h
    unfold ThreadInv at hT
    cases hc : (s.thr h).cur with
    | none => rw [hc] at hT; simp only at hT; exact absurd hh hT.1
    | some fr =>
      rw [hc] at hT; simp only at hT
      rcases hT with ⟨hn, _⟩ | ⟨_, _, _, hr, hs⟩ | ⟨hn, _⟩
      · exact absurd hh hn
      · exact ⟨fr, rfl, hs, hr⟩
      · exact absurd hh hn
  · have hT := hI.thr t
    unfold ThreadInv at hT
    rw [hc] at hT; simp only at hT
    exact ⟨hT.2.2, hT.2.1, hT.1⟩

/-- the guard chosen for a `linShaped` class shapes every method -/
theorem guard_spec (c : Class) (h : c.linShaped = true) : ∀ m ∈ c.methods, evShape c.guard m.evs = true := by
  unfold Class.linShaped at h
  unfold Class.guard
  rw [List.any_eq_true] at h
  obtain ⟨g, hg, hall⟩ := h
  cases hf : (c.mutexes.filter fun g => c.methods.all fun m => evShape g m.evs) with
  | nil =>
    have : g ∈ (c.mutexes.filter fun g => c.methods.all fun m => evShape g m.evs) := List.mem_filter.mpr ⟨hg, hall⟩
    rw [hf] at this; simp at this
  | cons g' r =>
    have : g' ∈ (c.mutexes.filter fun g => c.methods.all fun m => evShape g m.evs) := by rw [hf]; simp
    have := (List.mem_filter.mp this).2
    simp only [List.head?_cons, Option.getD_some]
    intro m hm
    exact List.all_eq_true.mp this m hm

/-- a method name that occurs in the class names one of its methods -/
theorem evsOf_mem (c : Class) (n : String) (h : (c.methods.any fun m => m.name == n) = true) :
    ∃ m ∈ c.methods, c.evsOf n = m.evs := by
  unfold Class.evsOf
  rw [List.any_eq_true] at h
  obtain ⟨m, hm, hn⟩ := h
  cases hf : (c.methods.filter fun m => m.name == n) with
  | nil =>
    have : m ∈ (c.methods.filter fun m => m.name == n) := List.mem_filter.mpr ⟨hm, hn⟩
    rw [hf] at this; simp at this
  | cons m' r =>
    have : m' ∈ (c.methods.filter fun m => m.name == n) := by rw [hf]; simp
    exact ⟨m', (List.mem_filter.mp this).1, by simp⟩

/-- **from the reduction to linearizability w.r.t. a sequential object**: if every call, run alone, refines the
    object's operation, every schedule is linearizable to the object -/
theorem linearizableTo_of_refines {S Op : Type} (g : Nat) (o : SeqObj S Op R) (abs : Store V → S)
    (impl : Op → Call V Op R) (himpl : ∀ op, (impl op).arg = op)
    (hshape : ∀ op, Shape g (impl op).body)
    (href : ∀ op σ, abs (runCall σ (impl op)).1 = (o.step (abs σ) op).1 ∧ (runCall σ (impl op)).2 = (o.step (abs σ) op).2)
    (σ0 : Store V) (oprog : Nat → List Op) (s : State V Op R)
    (hI : Inv g σ0 (fun t => (oprog t).map impl) s) :
    LinearizableTo o (abs σ0) oprog s := by
  have hL := linearized_of_inv g σ0 _ s hI
  obtain ⟨Hs, hHs, hlegal⟩ := serFold_legal o abs (fun c => c.arg) (fun c => ∃ op, c = impl op)
    (by rintro c ⟨op, rfl⟩ σ; rw [himpl]; exact href op σ)
    (acqOrder g s) (serInit σ0 (fun t => (oprog t).map impl))
    (by intro t c hc; simp only [serInit, List.mem_map] at hc; obtain ⟨op, _, rfl⟩ := hc; exact ⟨op, rfl⟩)
  have hH : (serial σ0 (fun t => (oprog t).map impl) (acqOrder g s)).hist = Hs := by
    have : (serial σ0 (fun t => (oprog t).map impl) (acqOrder g s)).hist = (serInit σ0 (fun t => (oprog t).map impl)).hist ++ Hs := hHs
    simpa [serInit] using this
  have hfil : ∀ t, (Hs.map fun e => (e.1, e.2.1.arg, e.2.2)).filter (fun e => e.1 == t) =
      (Hs.filter fun e => e.1 == t).map fun e => (e.1, e.2.1.arg, e.2.2) := by
    intro t; rw [List.filter_map]; rfl
  have hres : ∀ t, ((Hs.map fun e => (e.1, e.2.1.arg, e.2.2)).filter (fun e => e.1 == t)).map (fun e => e.2.2) =
      (serial σ0 (fun t => (oprog t).map impl) (acqOrder g s)).res t := by
    intro t; rw [hfil, hL.res_hist t, hH]; simp [histRes]
  have hops : ∀ t, ((Hs.map fun e => (e.1, e.2.1.arg, e.2.2)).filter (fun e => e.1 == t)).map (fun e => e.2.1) =
      (histCalls (serial σ0 (fun t => (oprog t).map impl) (acqOrder g s)).hist t).map fun c => c.arg := by
    intro t; rw [hfil, hH]; simp [histCalls]
  have hprog : ∀ t, ((histCalls (serial σ0 (fun t => (oprog t).map impl) (acqOrder g s)).hist t).map fun c => c.arg) ++
      ((serial σ0 (fun t => (oprog t).map impl) (acqOrder g s)).todo t).map (fun c => c.arg) = oprog t := by
    intro t
    rw [← List.map_append, hL.program_order t, List.map_map]
    have : ((fun c : Call V Op R => c.arg) ∘ impl) = id := by funext op; exact himpl op
    rw [this]; simp
  refine ⟨Hs.map fun e => (e.1, e.2.1.arg, e.2.2), ?_, fun t => ?_, fun t => ?_, fun t hc => ?_⟩
  · simp only [List.map_map]
    have := congrArg Prod.snd hlegal
    simpa [Function.comp_def, serInit] using this
  · exact ⟨_, by rw [hops t]; exact hprog t⟩
  · rw [hres t]; exact hL.returns t
  · obtain ⟨h1, h2, _⟩ := hL.idle t hc
    rw [hres t, hops t, ← h2]
    exact ⟨h1.symm, hprog t⟩

/-- the `k`-th completed call of thread `t` is the `k`-th call of its program, and it is in the serial history
    with the value it returned -/
theorem result_of_call (g : Nat) (σ0 : Store V) (prog : Nat → List (Call V A R)) (s : State V A R)
    (hL : Linearized g σ0 prog s) (t k : Nat) (r : Option R) (hk : (s.thr t).done[k]? = some r) :
    ∃ c, (prog t)[k]? = some c ∧ (t, c, r) ∈ (serial σ0 prog (acqOrder g s)).hist := by
  obtain ⟨rest, hrest⟩ := (hL.returns t).1
  have hklt : k < (s.thr t).done.length := by
    rcases Nat.lt_or_ge k (s.thr t).done.length with h | h
    · exact h
    · rw [List.getElem?_eq_none h] at hk; cases hk
  have h1 : ((serial σ0 prog (acqOrder g s)).res t)[k]? = some r := by
    rw [← hrest, List.getElem?_append_left hklt]; exact hk
  rw [hL.res_hist t] at h1
  simp only [histRes, List.getElem?_map, Option.map_eq_some_iff] at h1
  obtain ⟨e, he, her⟩ := h1
  have hmem : e ∈ ((serial σ0 prog (acqOrder g s)).hist.filter fun e => e.1 == t) := List.mem_of_getElem? he
  obtain ⟨hmemH, het⟩ := List.mem_filter.mp hmem
  have hkl : k < (histCalls (serial σ0 prog (acqOrder g s)).hist t).length := by
    simp only [histCalls, List.length_map]
    rcases Nat.lt_or_ge k ((serial σ0 prog (acqOrder g s)).hist.filter fun e => e.1 == t).length with h | h
    · exact h
    · rw [List.getElem?_eq_none h] at he; cases he
  have h2 : (histCalls (serial σ0 prog (acqOrder g s)).hist t)[k]? = some e.2.1 := by
    simp [histCalls, List.getElem?_map, he]
  have h3 : (prog t)[k]? = some e.2.1 := by
    rw [← hL.program_order t, List.getElem?_append_left hkl]; exact h2
  refine ⟨e.2.1, h3, ?_⟩
  have : e = (t, e.2.1, r) := by
    obtain ⟨e1, e2, e3⟩ := e
    simp only [beq_iff_eq] at het
    simp only at her
    rw [← het, ← her]
  rw [← this]; exact hmemH

end Romea.Lin
