import Mathlib.Data.Matrix.Mul
import Mathlib.LinearAlgebra.Matrix.NonsingularInverse
import Mathlib.LinearAlgebra.Matrix.DotProduct
import Mathlib.Analysis.Real.Sqrt
import Mathlib.Algebra.Order.BigOperators.Ring.Finset
import Mathlib.Algebra.Order.Star.Real

/-!
# C05 — Euclidean-norm lemmas for the least-squares error bound

Pure matrix facts over `ℝ` (no model involved), used by `RomeaProofs/Properties/C05.lean`:

* `ls_energy_le`: if `Jᵀ(J d − r) = 0` then `‖J d‖² ≤ ‖r‖²` (Pythagoras);
* `dot_self_le_of_abs_le`: `‖r‖² ≤ n ρ²` when every entry is bounded by `ρ`;
* `sqrt_bound`: the final square-root step;
* `mulVec_dot_le_frob`: `‖M w‖² ≤ ‖M‖_F² ‖w‖²`;
* `exists_sigma`: an invertible normal matrix gives a positive lower bound `σ` with `σ²‖v‖² ≤ ‖J v‖²`.
-/
namespace Romea.C05
open Matrix

theorem dot_self_nonneg' {n : Nat} (v : Fin n → ℝ) : 0 ≤ v ⬝ᵥ v :=
  Finset.sum_nonneg fun i _ => mul_self_nonneg (v i)

/-- Pythagoras for the normal equations: if `d` solves the least-squares problem with right-hand side `r`
    then `‖J d‖² ≤ ‖r‖²` -/
theorem ls_energy_le {n e : Nat} (J : Matrix (Fin n) (Fin e) ℝ) (r : Fin n → ℝ) (d : Fin e → ℝ)
    (h : Jᵀ *ᵥ (J *ᵥ d - r) = 0) : (J *ᵥ d) ⬝ᵥ (J *ᵥ d) ≤ r ⬝ᵥ r := by
  have hcross : (J *ᵥ d - r) ⬝ᵥ (J *ᵥ d) = 0 := by
    rw [Matrix.dotProduct_mulVec, ← Matrix.mulVec_transpose, h, zero_dotProduct]
  have key : ∀ u w : Fin n → ℝ, w ⬝ᵥ u = 0 → (u - w) ⬝ᵥ (u - w) = u ⬝ᵥ u + w ⬝ᵥ w := by
    intro u w huw
    rw [sub_dotProduct, dotProduct_sub, dotProduct_sub, huw, dotProduct_comm u w, huw]
    ring
  have hexp := key (J *ᵥ d) (J *ᵥ d - r) hcross
  rw [sub_sub_cancel] at hexp
  rw [hexp]
  linarith [dot_self_nonneg' (J *ᵥ d - r)]

/-- entries bounded by `ρ` ⇒ `‖r‖² ≤ n ρ²` -/
theorem dot_self_le_of_abs_le {n : Nat} (r : Fin n → ℝ) (ρ : ℝ) (h : ∀ k, |r k| ≤ ρ) :
    r ⬝ᵥ r ≤ n * ρ ^ 2 := by
  have hk : ∀ k, r k * r k ≤ ρ ^ 2 := by
    intro k
    have h1 := h k
    have h0 := abs_nonneg (r k)
    rw [← abs_mul_abs_self]
    nlinarith
  calc r ⬝ᵥ r = ∑ k, r k * r k := rfl
    _ ≤ ∑ _k : Fin n, ρ ^ 2 := Finset.sum_le_sum fun k _ => hk k
    _ = n * ρ ^ 2 := by simp

/-- the square-root step: `σ² D ≤ n ρ²` ⇒ `√D ≤ √n ρ / σ` (with no row at all both sides vanish) -/
theorem sqrt_bound (D σ ρ : ℝ) (n : Nat) (hσ : 0 < σ) (h : σ ^ 2 * D ≤ n * ρ ^ 2) (hρ : n = 0 ∨ 0 ≤ ρ) :
    √D ≤ √(n : ℝ) * ρ / σ := by
  rcases hρ with rfl | hρ
  · have hD : D ≤ 0 := by
      by_contra hD
      rw [not_le] at hD
      have := mul_pos (pow_pos hσ 2) hD
      simp at h
      linarith
    rw [Real.sqrt_eq_zero'.2 hD]
    simp
  · rw [Real.sqrt_le_left (by positivity)]
    rw [div_pow, mul_pow, Real.sq_sqrt (Nat.cast_nonneg n), le_div_iff₀ (by positivity)]
    linarith

/-- `‖M w‖² ≤ ‖M‖_F² ‖w‖²` (Cauchy–Schwarz row by row) -/
theorem mulVec_dot_le_frob {n e : Nat} (M : Matrix (Fin n) (Fin e) ℝ) (w : Fin e → ℝ) :
    (M *ᵥ w) ⬝ᵥ (M *ᵥ w) ≤ (∑ i, ∑ j, M i j ^ 2) * (w ⬝ᵥ w) := by
  have h : ∀ i, (M *ᵥ w) i * (M *ᵥ w) i ≤ (∑ j, M i j ^ 2) * (w ⬝ᵥ w) := by
    intro i
    have hcs := Finset.sum_mul_sq_le_sq_mul_sq Finset.univ (M i) w
    have e1 : (M *ᵥ w) i = ∑ j, M i j * w j := rfl
    have e2 : w ⬝ᵥ w = ∑ j, w j ^ 2 := Finset.sum_congr rfl fun j _ => (pow_two (w j)).symm
    rw [e1, e2, ← pow_two]
    exact hcs
  calc (M *ᵥ w) ⬝ᵥ (M *ᵥ w) = ∑ i, (M *ᵥ w) i * (M *ᵥ w) i := rfl
    _ ≤ ∑ i, (∑ j, M i j ^ 2) * (w ⬝ᵥ w) := Finset.sum_le_sum fun i _ => h i
    _ = (∑ i, ∑ j, M i j ^ 2) * (w ⬝ᵥ w) := by rw [Finset.sum_mul]

/-- an invertible normal matrix bounds `‖v‖` by `‖J v‖`: with `K = ‖(JᵀJ)⁻¹‖_F² ‖Jᵀ‖_F²`, `‖v‖² ≤ K ‖J v‖²` -/
theorem dot_le_frob_mul {n e : Nat} (J : Matrix (Fin n) (Fin e) ℝ) (hfull : IsUnit (Jᵀ * J).det) (v : Fin e → ℝ) :
    v ⬝ᵥ v ≤ ((∑ i, ∑ j, (Jᵀ * J)⁻¹ i j ^ 2) * (∑ i, ∑ j, Jᵀ i j ^ 2)) * ((J *ᵥ v) ⬝ᵥ (J *ᵥ v)) := by
  have hv : v = (Jᵀ * J)⁻¹ *ᵥ (Jᵀ *ᵥ (J *ᵥ v)) := by
    rw [Matrix.mulVec_mulVec v Jᵀ J, Matrix.mulVec_mulVec v _ (Jᵀ * J), Matrix.nonsing_inv_mul _ hfull,
      Matrix.one_mulVec]
  have h1 := mulVec_dot_le_frob (Jᵀ * J)⁻¹ (Jᵀ *ᵥ (J *ᵥ v))
  have h2 := mulVec_dot_le_frob Jᵀ (J *ᵥ v)
  have hB : 0 ≤ ∑ i, ∑ j, (Jᵀ * J)⁻¹ i j ^ 2 :=
    Finset.sum_nonneg fun i _ => Finset.sum_nonneg fun j _ => sq_nonneg _
  rw [← hv] at h1
  calc v ⬝ᵥ v ≤ (∑ i, ∑ j, (Jᵀ * J)⁻¹ i j ^ 2) * ((Jᵀ *ᵥ (J *ᵥ v)) ⬝ᵥ (Jᵀ *ᵥ (J *ᵥ v))) := h1
    _ ≤ (∑ i, ∑ j, (Jᵀ * J)⁻¹ i j ^ 2) * ((∑ i, ∑ j, Jᵀ i j ^ 2) * ((J *ᵥ v) ⬝ᵥ (J *ᵥ v))) :=
        mul_le_mul_of_nonneg_left h2 hB
    _ = _ := by ring

/-- a full-rank design matrix has a positive lower singular-value bound -/
theorem exists_sigma {n e : Nat} (J : Matrix (Fin n) (Fin e) ℝ) (hfull : IsUnit (Jᵀ * J).det) :
    ∃ σ : ℝ, 0 < σ ∧ ∀ v : Fin e → ℝ, σ ^ 2 * (v ⬝ᵥ v) ≤ (J *ᵥ v) ⬝ᵥ (J *ᵥ v) := by
  set K : ℝ := (∑ i, ∑ j, (Jᵀ * J)⁻¹ i j ^ 2) * (∑ i, ∑ j, Jᵀ i j ^ 2) with hK
  have hK0 : 0 ≤ K :=
    mul_nonneg (Finset.sum_nonneg fun i _ => Finset.sum_nonneg fun j _ => sq_nonneg _)
      (Finset.sum_nonneg fun i _ => Finset.sum_nonneg fun j _ => sq_nonneg _)
  have hK1 : 0 < K + 1 := by linarith
  refine ⟨1 / (K + 1), by positivity, fun v => ?_⟩
  have hv := dot_le_frob_mul J hfull v
  rw [← hK] at hv
  have ha := dot_self_nonneg' (J *ᵥ v)
  have hd := dot_self_nonneg' v
  have hs : (1 / (K + 1)) ^ 2 ≤ 1 / (K + 1) := by
    rw [div_pow, one_pow, div_le_div_iff₀ (by positivity) hK1]
    nlinarith
  calc (1 / (K + 1)) ^ 2 * (v ⬝ᵥ v) ≤ 1 / (K + 1) * (v ⬝ᵥ v) := mul_le_mul_of_nonneg_right hs hd
    _ ≤ 1 / (K + 1) * ((K + 1) * ((J *ᵥ v) ⬝ᵥ (J *ᵥ v))) := by
        apply mul_le_mul_of_nonneg_left _ (by positivity)
        nlinarith
    _ = (J *ᵥ v) ⬝ᵥ (J *ᵥ v) := by field_simp

end Romea.C05
