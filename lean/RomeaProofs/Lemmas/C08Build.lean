import RomeaProofs.Lemmas.C08Search
import Mathlib.Algebra.Order.Field.Basic

/-!
# C08 helper lemmas, part 4: `buildIndex` produces a well-formed index

Only order properties of the scalar are used (the split value is clamped to the data, so the
arithmetic of `middleSplit_` — spans, `EPS`, the mid-point — has no influence on well-formedness).
-/
namespace Romea.KdTree

set_option linter.unusedSectionVars false

/-! ## Slices of `vind` and permutations confined to a range -/

/-- the indices stored at positions `l … r-1` -/
def slice (v : Array Nat) (l r : Nat) : List Nat := (List.range' l (r - l)).map (fun s => v[s]!)

theorem mem_slice {v : Array Nat} {l r x : Nat} :
    x ∈ slice v l r ↔ ∃ i, l ≤ i ∧ i < r ∧ v[i]! = x := by
  simp only [slice, List.mem_map, List.mem_range'_1]
  constructor
  · rintro ⟨i, ⟨h1, h2⟩, rfl⟩; exact ⟨i, h1, by omega, rfl⟩
  · rintro ⟨i, h1, h2, rfl⟩; exact ⟨i, ⟨h1, by omega⟩, rfl⟩

theorem slice_append (v : Array Nat) {l m r : Nat} (h1 : l ≤ m) (h2 : m ≤ r) :
    slice v l m ++ slice v m r = slice v l r := by
  simp only [slice, ← List.map_append]
  congr 1
  have e1 : m = l + (m - l) := by omega
  have e2 : r - l = (m - l) + (r - m) := by omega
  rw [e2]
  conv_lhs => rw [show List.range' m (r - m) = List.range' (l + (m - l)) (r - m) from by rw [← e1]]
  exact List.range'_append_1

theorem slice_congr {v w : Array Nat} {l r : Nat} (h : ∀ i, l ≤ i → i < r → w[i]! = v[i]!) :
    slice w l r = slice v l r := by
  simp only [slice]
  apply List.map_congr_left
  intro i hi
  rw [List.mem_range'_1] at hi
  exact h i hi.1 (by omega)

theorem slice_full (v : Array Nat) : slice v 0 v.size = v.toList := by
  apply List.ext_getElem
  · simp [slice]
  · intro i h1 h2
    simp only [slice, List.getElem_map, List.getElem_range', Nat.zero_add, Nat.one_mul]
    have : i < v.size := by simpa using h2
    rw [getElem!_pos v i this]
    simp

theorem slice_length (v : Array Nat) (l r : Nat) : (slice v l r).length = r - l := by
  simp [slice]

/-- `w` is `v` with the entries at positions `[l, r)` permuted among themselves -/
def PermOn (v w : Array Nat) (l r : Nat) : Prop :=
  w.size = v.size ∧ (∀ i, i < l ∨ r ≤ i → w[i]! = v[i]!) ∧ w.toList.Perm v.toList

theorem PermOn.refl (v : Array Nat) (l r : Nat) : PermOn v v l r :=
  ⟨rfl, fun _ _ => rfl, List.Perm.refl _⟩

theorem PermOn.trans {u v w : Array Nat} {l r : Nat} (h1 : PermOn u v l r) (h2 : PermOn v w l r) :
    PermOn u w l r :=
  ⟨h2.1.trans h1.1, fun i hi => (h2.2.1 i hi).trans (h1.2.1 i hi), h2.2.2.trans h1.2.2⟩

theorem PermOn.mono {v w : Array Nat} {l r l' r' : Nat} (h : PermOn v w l r) (hl : l' ≤ l)
    (hr : r ≤ r') : PermOn v w l' r' :=
  ⟨h.1, fun i hi => h.2.1 i (by omega), h.2.2⟩

theorem get!_swap (v : Array Nat) {a b : Nat} (ha : a < v.size) (hb : b < v.size) (k : Nat) :
    (v.swapIfInBounds a b)[k]! = if k = a then v[b]! else if k = b then v[a]! else v[k]! := by
  by_cases hk : k < v.size
  · have hk' : k < (v.swapIfInBounds a b).size := by simpa using hk
    rw [getElem!_pos _ k hk', Array.getElem_swapIfInBounds hk']
    by_cases h1 : k = a
    · subst h1; simp [hb]
    · by_cases h2 : k = b
      · subst h2; simp [h1, ha]
      · simp [h1, h2, getElem!_pos v k hk]
  · have hk' : ¬ k < (v.swapIfInBounds a b).size := by simpa using hk
    have h1 : k ≠ a := by omega
    have h2 : k ≠ b := by omega
    simp only [h1, h2, if_false]
    rw [getElem!_neg _ k hk', getElem!_neg v k hk]

theorem PermOn.swap (v : Array Nat) {l r a b : Nat} (hla : l ≤ a) (har : a < r) (hlb : l ≤ b)
    (hbr : b < r) (hr : r ≤ v.size) : PermOn v (v.swapIfInBounds a b) l r := by
  have ha : a < v.size := by omega
  have hb : b < v.size := by omega
  refine ⟨by simp, ?_, ?_⟩
  · intro i hi
    rw [get!_swap v ha hb]
    have h1 : i ≠ a := by omega
    have h2 : i ≠ b := by omega
    simp [h1, h2]
  · rw [Array.swapIfInBounds_def, dif_pos ha, dif_pos hb]
    exact Array.perm_iff_toList_perm.mp (Array.swap_perm ha hb)

/-- inside the range the entries are permuted -/
theorem PermOn.slice_perm {v w : Array Nat} {l r : Nat} (h : PermOn v w l r) (hlr : l ≤ r)
    (hr : r ≤ v.size) : (slice w l r).Perm (slice v l r) := by
  obtain ⟨hsz, hframe, hperm⟩ := h
  have hv : v.toList = slice v 0 l ++ slice v l r ++ slice v r v.size := by
    rw [slice_append v (Nat.zero_le l) hlr, slice_append v (Nat.zero_le r) hr, slice_full]
  have hw : w.toList = slice w 0 l ++ slice w l r ++ slice w r w.size := by
    rw [slice_append w (Nat.zero_le l) hlr, slice_append w (Nat.zero_le r) (by omega), slice_full]
  have e1 : slice w 0 l = slice v 0 l := slice_congr (fun i _ hi => hframe i (Or.inl hi))
  have e2 : slice w r w.size = slice v r v.size := by
    rw [hsz]; exact slice_congr (fun i hi _ => hframe i (Or.inr hi))
  rw [hv, hw, e1, e2] at hperm
  exact (List.perm_append_left_iff _).mp ((List.perm_append_right_iff _).mp hperm)

theorem PermOn.mem_slice_iff {v w : Array Nat} {l r : Nat} (h : PermOn v w l r) (hlr : l ≤ r)
    (hr : r ≤ v.size) (x : Nat) : x ∈ slice w l r ↔ x ∈ slice v l r :=
  (h.slice_perm hlr hr).mem_iff

/-- a property of all entries in the range survives the permutation -/
theorem PermOn.forall_range {v w : Array Nat} {l r : Nat} (h : PermOn v w l r) (hlr : l ≤ r)
    (hr : r ≤ v.size) (Q : Nat → Prop) (hQ : ∀ i, l ≤ i → i < r → Q v[i]!) :
    ∀ i, l ≤ i → i < r → Q w[i]! := by
  intro i h1 h2
  have : w[i]! ∈ slice w l r := mem_slice.mpr ⟨i, h1, h2, rfl⟩
  obtain ⟨j, hj1, hj2, hj3⟩ := mem_slice.mp ((h.mem_slice_iff hlr hr _).mp this)
  rw [← hj3]; exact hQ j hj1 hj2

/-! ## The partition loops of `planeSplit` -/

theorem scanLeft_spec (pred : Nat → Bool) :
    ∀ fuel left right, right + 1 ≤ fuel + left →
      left ≤ scanLeft pred fuel left right ∧
      (left ≤ right + 1 → scanLeft pred fuel left right ≤ right + 1) ∧
      (∀ i, left ≤ i → i < scanLeft pred fuel left right → pred i = true) ∧
      (scanLeft pred fuel left right ≤ right → pred (scanLeft pred fuel left right) = false) := by
  intro fuel
  induction fuel with
  | zero =>
    intro left right h
    simp only [scanLeft]
    refine ⟨le_refl _, fun h' => h', fun i h1 h2 => by omega, fun h' => by omega⟩
  | succ fuel ih =>
    intro left right h
    simp only [scanLeft]
    by_cases hc : left ≤ right ∧ pred left = true
    · rw [if_pos hc]
      obtain ⟨h1, h2, h3, h4⟩ := ih (left + 1) right (by omega)
      refine ⟨by omega, fun _ => h2 (by omega), ?_, h4⟩
      intro i hi1 hi2
      by_cases hil : i = left
      · subst hil; exact hc.2
      · exact h3 i (by omega) hi2
    · rw [if_neg hc]
      refine ⟨le_refl _, fun h' => h', fun i h1 h2 => by omega, ?_⟩
      intro hle
      by_contra hp
      exact hc ⟨hle, by simpa using hp⟩

theorem scanRight_spec (pred : Nat → Bool) :
    ∀ fuel left right, right ≤ fuel →
      scanRight pred fuel left right ≤ right ∧
      (left ≤ right + 1 → left ≤ scanRight pred fuel left right + 1) ∧
      (∀ i, scanRight pred fuel left right < i → i ≤ right → pred i = true) ∧
      (scanRight pred fuel left right ≠ 0 → left ≤ scanRight pred fuel left right →
        pred (scanRight pred fuel left right) = false) := by
  intro fuel
  induction fuel with
  | zero =>
    intro left right h
    simp only [scanRight]
    refine ⟨le_refl _, fun h' => h', fun i h1 h2 => by omega, fun h' => by omega⟩
  | succ fuel ih =>
    intro left right h
    simp only [scanRight]
    by_cases hc : right ≠ 0 ∧ left ≤ right ∧ pred right = true
    · rw [if_pos hc]
      obtain ⟨h1, h2, h3, h4⟩ := ih left (right - 1) (by omega)
      refine ⟨by omega, fun _ => h2 (by omega), ?_, h4⟩
      intro i hi1 hi2
      by_cases hir : i = right
      · subst hir; exact hc.2.2
      · exact h3 i hi1 (by omega)
    · rw [if_neg hc]
      refine ⟨le_refl _, fun h' => h', fun i h1 h2 => by omega, ?_⟩
      intro hne hle
      by_contra hp
      exact hc ⟨hne, hle, by simpa using hp⟩

section partition
variable {α : Type} [LinearOrder α] (P : Nat → Nat → α) (off cutfeat : Nat)

/-- the coordinate `planeSplit` looks at for relative position `i` -/
def key (v : Array Nat) (i : Nat) : α := P v[off + i]! cutfeat

/-- One `for(;;)` loop of `planeSplit` partitions by `pL`: on exit every position below the
    returned limit satisfies `pL`, every position from the limit on does not, and the array was
    only permuted inside the scanned window. -/
theorem planeLoop_spec (pL pR : α → Bool) (hneg : ∀ a, pR a = !pL a) (count : Nat) :
    ∀ (fuel : Nat) (v : Array Nat) (left right : Nat),
      off + count ≤ v.size → right < count → left ≤ right + 1 → right + 2 ≤ fuel + left →
      (∀ i, i < left → pL (key P off cutfeat v i) = true) →
      (∀ i, right < i → i < count → pL (key P off cutfeat v i) = false) →
      (planeLoop P off cutfeat pL pR fuel v left right).2.2 = true ∧
      PermOn v (planeLoop P off cutfeat pL pR fuel v left right).1 (off + left) (off + right + 1) ∧
      left ≤ (planeLoop P off cutfeat pL pR fuel v left right).2.1 ∧
      (planeLoop P off cutfeat pL pR fuel v left right).2.1 ≤ right + 1 ∧
      (∀ i, i < (planeLoop P off cutfeat pL pR fuel v left right).2.1 →
        pL (key P off cutfeat (planeLoop P off cutfeat pL pR fuel v left right).1 i) = true) ∧
      (∀ i, (planeLoop P off cutfeat pL pR fuel v left right).2.1 ≤ i → i < count →
        pL (key P off cutfeat (planeLoop P off cutfeat pL pR fuel v left right).1 i) = false) := by
  intro fuel
  induction fuel with
  | zero => intro v left right _ _ h3 h4; omega
  | succ fuel ih =>
    intro v left right hsz hrc hlr hfuel hpreL hpreR
    simp only [planeLoop]
    have hsl := scanLeft_spec (fun i => pL (P v[off + i]! cutfeat)) (v.size + 1) left right (by omega)
    set l1 := scanLeft (fun i => pL (P v[off + i]! cutfeat)) (v.size + 1) left right with hl1
    obtain ⟨hl_ge, hl_le, hl_all, hl_stop⟩ := hsl
    have hl_le := hl_le hlr
    have hsr := scanRight_spec (fun i => pR (P v[off + i]! cutfeat)) (v.size + 1) l1 right (by omega)
    set r1 := scanRight (fun i => pR (P v[off + i]! cutfeat)) (v.size + 1) l1 right with hr1
    obtain ⟨hr_le, hr_ge, hr_all, hr_stop⟩ := hsr
    have hr_ge := hr_ge hl_le
    -- facts in terms of `key`
    have hbelow : ∀ i, i < l1 → pL (key P off cutfeat v i) = true := by
      intro i hi
      by_cases h : i < left
      · exact hpreL i h
      · exact hl_all i (by omega) hi
    have habove : ∀ i, r1 < i → i < count → pL (key P off cutfeat v i) = false := by
      intro i hi hic
      by_cases h : i ≤ right
      · have := hr_all i hi h
        simp only [hneg] at this
        simpa [key] using this
      · exact hpreR i (by omega) hic
    by_cases hexit : l1 > r1 ∨ r1 = 0
    · rw [if_pos hexit]
      dsimp only
      refine ⟨rfl, PermOn.refl _ _ _, hl_ge, hl_le, hbelow, ?_⟩
      intro i hi hic
      rcases hexit with h | h
      · exact habove i (by omega) hic
      · by_cases hi0 : i = 0
        · -- position 0 stopped `scanLeft`
          have hl0 : l1 = 0 := by omega
          subst hi0
          have := hl_stop (by omega)
          rw [hl0] at this
          simpa [key] using this
        · exact habove i (by omega) hic
    · rw [if_neg hexit]
      have hlr1 : l1 ≤ r1 := by omega
      have hr0 : r1 ≠ 0 := by omega
      have hkl : pL (key P off cutfeat v l1) = false := hl_stop (by omega)
      have hkr : pL (key P off cutfeat v r1) = true := by
        have := hr_stop hr0 hlr1
        simp only [hneg] at this
        simpa [key] using this
      have hne : l1 ≠ r1 := by
        intro h; rw [h] at hkl; rw [hkl] at hkr; exact Bool.noConfusion hkr
      have hlt : l1 < r1 := by omega
      have ha : off + l1 < v.size := by omega
      have hb : off + r1 < v.size := by omega
      set v2 := v.swapIfInBounds (off + l1) (off + r1) with hv2
      have hkey2 : ∀ i, key P off cutfeat v2 i =
          if i = l1 then key P off cutfeat v r1 else if i = r1 then key P off cutfeat v l1
          else key P off cutfeat v i := by
        intro i
        simp only [key, hv2, get!_swap v ha hb]
        by_cases h1 : i = l1
        · simp [h1]
        · by_cases h2 : i = r1
          · have h3 : r1 ≠ l1 := by omega
            simp [h2, h3]
          · simp [h1, h2]
      have hperm1 : PermOn v v2 (off + left) (off + right + 1) :=
        PermOn.swap v (by omega) (by omega) (by omega) (by omega) (by omega)
      have hsz2 : off + count ≤ v2.size := by rw [hperm1.1]; exact hsz
      obtain ⟨i1, i2, i3, i4, i5, i6⟩ := ih v2 (l1 + 1) (r1 - 1) hsz2 (by omega) (by omega) (by omega)
        (by
          intro i hi
          rw [hkey2]
          by_cases h1 : i = l1
          · simp [h1, hkr]
          · have h2 : i ≠ r1 := by omega
            simp only [h1, h2, if_false]
            exact hbelow i (by omega))
        (by
          intro i hi hic
          rw [hkey2]
          have h1 : i ≠ l1 := by omega
          by_cases h2 : i = r1
          · have h3 : r1 ≠ l1 := by omega
            simp [h2, h3, hkl]
          · simp only [h1, h2, if_false]
            exact habove i (by omega) hic)
      refine ⟨i1, ?_, by omega, by omega, i5, i6⟩
      exact hperm1.trans (i2.mono (by omega) (by omega))

/-- `planeSplit`: afterwards positions `[0, lim1)` are `< cutval`, `[lim1, count)` are `≥ cutval`,
    `[0, lim2)` are `≤ cutval`, `[lim2, count)` are `> cutval`. -/
theorem planeSplit_spec (v : Array Nat) (count : Nat) (cutval : α) (hc : 0 < count)
    (hsz : off + count ≤ v.size) (v' : Array Nat) (lim1 lim2 : Nat) (ok : Bool)
    (h : planeSplit P v off count cutfeat cutval = (v', lim1, lim2, ok)) :
    ok = true ∧ PermOn v v' off (off + count) ∧ lim1 ≤ lim2 ∧ lim2 ≤ count ∧
    (∀ i, i < lim1 → key P off cutfeat v' i < cutval) ∧
    (∀ i, lim1 ≤ i → i < count → cutval ≤ key P off cutfeat v' i) ∧
    (∀ i, i < lim2 → key P off cutfeat v' i ≤ cutval) ∧
    (∀ i, lim2 ≤ i → i < count → cutval < key P off cutfeat v' i) := by
  unfold planeSplit at h
  have s1 := planeLoop_spec P off cutfeat (fun a => decide (a < cutval)) (fun a => decide (a ≥ cutval))
    (by intro a; by_cases ha : a < cutval <;> simp [ha, not_le.mpr, not_lt.mp])
    count (count + 1) v 0 (count - 1) hsz (by omega) (by omega) (by omega)
    (by intro i hi; omega) (by intro i h1 h2; omega)
  rcases h1 : planeLoop P off cutfeat (fun a => decide (a < cutval)) (fun a => decide (a ≥ cutval))
    (count + 1) v 0 (count - 1) with ⟨v1, l1, ok1⟩
  rw [h1] at h s1
  simp only at h s1
  obtain ⟨a1, a2, _, a4, a5, a6⟩ := s1
  have hsz1 : off + count ≤ v1.size := by rw [a2.1]; exact hsz
  have s2 := planeLoop_spec P off cutfeat (fun a => decide (a ≤ cutval)) (fun a => decide (a > cutval))
    (by intro a; by_cases ha : a ≤ cutval <;> simp [ha, not_lt.mpr, not_le.mp])
    count (count + 1) v1 l1 (count - 1) hsz1 (by omega) (by omega) (by omega)
    (by
      intro i hi
      have := a5 i hi
      simp only [decide_eq_true_eq] at this ⊢
      exact le_of_lt this)
    (by intro i h1 h2; omega)
  rcases h2 : planeLoop P off cutfeat (fun a => decide (a ≤ cutval)) (fun a => decide (a > cutval))
    (count + 1) v1 l1 (count - 1) with ⟨v2, l2, ok2⟩
  rw [h2] at h s2
  simp only [Prod.mk.injEq] at h s2
  obtain ⟨rfl, rfl, rfl, rfl⟩ := h
  obtain ⟨b1, b2, b3, b4, b5, b6⟩ := s2
  have e1 : off + 0 = off := rfl
  have e2 : off + (count - 1) + 1 = off + count := by omega
  rw [e2] at a2 b2
  refine ⟨by simp [a1, b1], (a2.mono (by omega) (le_refl _)).trans (b2.mono (by omega) (le_refl _)),
    b3, by omega, ?_, ?_, ?_, ?_⟩
  · intro i hi
    have := a5 i hi
    simp only [decide_eq_true_eq] at this
    simp only [key] at this ⊢
    rw [b2.2.1 (off + i) (Or.inl (by omega))]
    exact this
  · intro i hi hic
    have hQ := b2.forall_range (by omega) hsz1 (fun x => cutval ≤ P x cutfeat) (by
      intro j hj1 hj2
      have := not_lt.mp (of_decide_eq_false (a6 (j - off) (by omega) (by omega)))
      simp only [key] at this
      have e : off + (j - off) = j := by omega
      rw [e] at this
      exact this)
    exact hQ (off + i) (by omega) (by omega)
  · intro i hi
    have := b5 i hi
    simpa using this
  · intro i hi hic
    have := b6 i hi hic
    simpa using this

theorem foldl_minmax (f : Nat → α) (L : List Nat) :
    ∀ (a b : α),
      (L.foldl (fun (mm : α × α) i =>
        ((if f i < mm.1 then f i else mm.1), (if f i > mm.2 then f i else mm.2))) (a, b)).1 ≤ a ∧
      b ≤ (L.foldl (fun (mm : α × α) i =>
        ((if f i < mm.1 then f i else mm.1), (if f i > mm.2 then f i else mm.2))) (a, b)).2 ∧
      (∀ i ∈ L, (L.foldl (fun (mm : α × α) i =>
        ((if f i < mm.1 then f i else mm.1), (if f i > mm.2 then f i else mm.2))) (a, b)).1 ≤ f i ∧
        f i ≤ (L.foldl (fun (mm : α × α) i =>
        ((if f i < mm.1 then f i else mm.1), (if f i > mm.2 then f i else mm.2))) (a, b)).2) ∧
      ((L.foldl (fun (mm : α × α) i =>
        ((if f i < mm.1 then f i else mm.1), (if f i > mm.2 then f i else mm.2))) (a, b)).1 = a ∨
        ∃ i ∈ L, (L.foldl (fun (mm : α × α) i =>
        ((if f i < mm.1 then f i else mm.1), (if f i > mm.2 then f i else mm.2))) (a, b)).1 = f i) ∧
      ((L.foldl (fun (mm : α × α) i =>
        ((if f i < mm.1 then f i else mm.1), (if f i > mm.2 then f i else mm.2))) (a, b)).2 = b ∨
        ∃ i ∈ L, (L.foldl (fun (mm : α × α) i =>
        ((if f i < mm.1 then f i else mm.1), (if f i > mm.2 then f i else mm.2))) (a, b)).2 = f i) := by
  induction L with
  | nil => intro a b; simp
  | cons x L ih =>
    intro a b
    simp only [List.foldl_cons]
    obtain ⟨h1, h2, h3, h4, h5⟩ := ih (if f x < a then f x else a) (if f x > b then f x else b)
    have ha : (if f x < a then f x else a) ≤ a := by split <;> [exact le_of_lt ‹_›; exact le_refl _]
    have ha' : (if f x < a then f x else a) ≤ f x := by split <;> [exact le_refl _; exact not_lt.mp ‹_›]
    have hb : b ≤ (if f x > b then f x else b) := by split <;> [exact le_of_lt ‹_›; exact le_refl _]
    have hb' : f x ≤ (if f x > b then f x else b) := by split <;> [exact le_refl _; exact not_lt.mp ‹_›]
    refine ⟨le_trans h1 ha, le_trans hb h2, ?_, ?_, ?_⟩
    · intro i hi
      rcases List.mem_cons.mp hi with rfl | hi
      · exact ⟨le_trans h1 ha', le_trans hb' h2⟩
      · exact h3 i hi
    · rcases h4 with h4 | ⟨i, hi, h4⟩
      · by_cases hx : f x < a
        · right; exact ⟨x, by simp, by rw [h4, if_pos hx]⟩
        · left; rw [h4, if_neg hx]
      · right; exact ⟨i, by simp [hi], h4⟩
    · rcases h5 with h5 | ⟨i, hi, h5⟩
      · by_cases hx : f x > b
        · right; exact ⟨x, by simp, by rw [h5, if_pos hx]⟩
        · left; rw [h5, if_neg hx]
      · right; exact ⟨i, by simp [hi], h5⟩

/-- `computeMinMax` returns the smallest and the largest coordinate among the `count` positions -/
theorem computeMinMax_spec (v : Array Nat) (count : Nat) (hc : 0 < count) :
    (∀ i, i < count → (computeMinMax P v off count cutfeat).1 ≤ key P off cutfeat v i ∧
      key P off cutfeat v i ≤ (computeMinMax P v off count cutfeat).2) ∧
    (∃ i, i < count ∧ (computeMinMax P v off count cutfeat).1 = key P off cutfeat v i) ∧
    (∃ i, i < count ∧ (computeMinMax P v off count cutfeat).2 = key P off cutfeat v i) := by
  obtain ⟨h1, h2, h3, h4, h5⟩ := foldl_minmax (fun i => P v[off + i]! cutfeat)
    (List.range' 1 (count - 1)) (P v[off]! cutfeat) (P v[off]! cutfeat)
  have hk0 : key P off cutfeat v 0 = P v[off]! cutfeat := rfl
  refine ⟨?_, ?_, ?_⟩
  · intro i hi
    by_cases hi0 : i = 0
    · subst hi0; rw [hk0]; exact ⟨h1, h2⟩
    · exact h3 i (List.mem_range'_1.mpr ⟨by omega, by omega⟩)
  · rcases h4 with h4 | ⟨i, hi, h4⟩
    · exact ⟨0, hc, h4⟩
    · exact ⟨i, by have := List.mem_range'_1.mp hi; omega, h4⟩
  · rcases h5 with h5 | ⟨i, hi, h5⟩
    · exact ⟨0, hc, h5⟩
    · exact ⟨i, by have := List.mem_range'_1.mp hi; omega, h5⟩

end partition

/-! ## `middleSplit_` -/

section build
variable {α : Type} [Field α] [LinearOrder α] [IsStrictOrderedRing α]
variable (dim : Nat) (P : Nat → Nat → α)

theorem PermOn.exists_pos {v w : Array Nat} {l r : Nat} (h : PermOn v w l r) (hr : r ≤ v.size)
    {i : Nat} (h1 : l ≤ i) (h2 : i < r) : ∃ j, l ≤ j ∧ j < r ∧ w[j]! = v[i]! := by
  have : v[i]! ∈ slice v l r := mem_slice.mpr ⟨i, h1, h2, rfl⟩
  exact mem_slice.mp ((h.mem_slice_iff (by omega) hr _).mpr this)

theorem selectCutfeat_lt (v : Array Nat) (off count : Nat) (bbox : List (α × α)) (maxSpan : α) :
    ∀ (L : List Nat) (acc : Nat × α), acc.1 < dim → (∀ i ∈ L, i < dim) →
      (selectCutfeat P v off count bbox maxSpan L acc).1 < dim := by
  intro L
  induction L with
  | nil => intro acc h _; simpa [selectCutfeat] using h
  | cons i rest ih =>
    intro acc h hL
    obtain ⟨cf, ms⟩ := acc
    have hi : i < dim := hL i (by simp)
    have hrest : ∀ j ∈ rest, j < dim := fun j hj => hL j (by simp [hj])
    simp only [selectCutfeat]
    split
    · split
      · exact ih _ hi hrest
      · exact ih _ h hrest
    · exact ih _ h hrest

/-- the split dimension `middleSplit_` chooses -/
def cutfeatOf (v : Array Nat) (off count : Nat) (bbox : List (α × α)) : Nat :=
  (selectCutfeat P v off count bbox
    ((List.range' 1 (dim - 1)).foldl (fun (m : α) i =>
      let span := getHigh bbox i - getLow bbox i
      if span > m then span else m) (getHigh bbox 0 - getLow bbox 0))
    (List.range dim) (0, -((1 : Nat) : α))).1

/-- the split value `middleSplit_` chooses: the mid-point of the box clamped to the data -/
def cutvalOf (v : Array Nat) (off count : Nat) (bbox : List (α × α)) : α :=
  let cf := cutfeatOf dim P v off count bbox
  let splitVal := (getLow bbox cf + getHigh bbox cf) / ((2 : Nat) : α)
  let mm := computeMinMax P v off count cf
  if splitVal < mm.1 then mm.1 else if splitVal > mm.2 then mm.2 else splitVal

theorem middleSplit_eq (v : Array Nat) (off count : Nat) (bbox : List (α × α)) :
    middleSplit dim P v off count bbox =
      ((planeSplit P v off count (cutfeatOf dim P v off count bbox) (cutvalOf dim P v off count bbox)).1,
       (if (planeSplit P v off count (cutfeatOf dim P v off count bbox) (cutvalOf dim P v off count bbox)).2.1 > count / 2
        then (planeSplit P v off count (cutfeatOf dim P v off count bbox) (cutvalOf dim P v off count bbox)).2.1
        else if (planeSplit P v off count (cutfeatOf dim P v off count bbox) (cutvalOf dim P v off count bbox)).2.2.1 < count / 2
        then (planeSplit P v off count (cutfeatOf dim P v off count bbox) (cutvalOf dim P v off count bbox)).2.2.1
        else count / 2),
       cutfeatOf dim P v off count bbox, cutvalOf dim P v off count bbox,
       (planeSplit P v off count (cutfeatOf dim P v off count bbox) (cutvalOf dim P v off count bbox)).2.2.2) := rfl

/-- `middleSplit_`: the chosen feature is a dimension, the split index is strictly inside the
    range, positions before it hold coordinates `≤ cutval`, positions from it on `≥ cutval`. -/
theorem middleSplit_spec (hdim : 0 < dim) (v : Array Nat) (off count : Nat) (bbox : List (α × α))
    (hc : 2 ≤ count) (hsz : off + count ≤ v.size) (v' : Array Nat) (idx cutfeat : Nat) (cutval : α)
    (ok : Bool) (h : middleSplit dim P v off count bbox = (v', idx, cutfeat, cutval, ok)) :
    ok = true ∧ PermOn v v' off (off + count) ∧ cutfeat < dim ∧ 0 < idx ∧ idx < count ∧
    (∀ i, i < idx → P v'[off + i]! cutfeat ≤ cutval) ∧
    (∀ i, idx ≤ i → i < count → cutval ≤ P v'[off + i]! cutfeat) := by
  rw [middleSplit_eq] at h
  have hcflt : cutfeatOf dim P v off count bbox < dim :=
    selectCutfeat_lt dim P v off count bbox _ (List.range dim) _ hdim (fun i hi => List.mem_range.mp hi)
  obtain ⟨hmm, ⟨imin, himin, hmin⟩, ⟨imax, himax, hmax⟩⟩ :=
    computeMinMax_spec P off (cutfeatOf dim P v off count bbox) v count (by omega)
  have hcv : (computeMinMax P v off count (cutfeatOf dim P v off count bbox)).1 ≤ cutvalOf dim P v off count bbox ∧
      cutvalOf dim P v off count bbox ≤ (computeMinMax P v off count (cutfeatOf dim P v off count bbox)).2 := by
    have h0 := hmm 0 (by omega)
    have hle := le_trans h0.1 h0.2
    simp only [cutvalOf]
    split_ifs with h1 h2
    · exact ⟨le_refl _, hle⟩
    · exact ⟨hle, le_refl _⟩
    · exact ⟨not_lt.mp h1, not_lt.mp h2⟩
  rw [hmin] at hcv
  rw [hmax] at hcv
  generalize cutvalOf dim P v off count bbox = cv at h hcv
  generalize cutfeatOf dim P v off count bbox = cf at h hcv hcflt hmin hmax
  rcases hps : planeSplit P v off count cf cv with ⟨v1, l1, l2, ok1⟩
  rw [hps] at h
  simp only [Prod.mk.injEq] at h
  obtain ⟨rfl, hidx, rfl, rfl, rfl⟩ := h
  obtain ⟨s1, s2, s3, s4, s5, s6, s7, s8⟩ := planeSplit_spec P off cf v count cv (by omega) hsz v1 l1 l2 ok1 hps
  -- the largest element is `≥ cutval`, so not everything is `< cutval`
  have hl1 : l1 < count := by
    obtain ⟨j, hj1, hj2, hj3⟩ := s2.exists_pos hsz (i := off + imax) (by omega) (by omega)
    by_contra hcon
    have := s5 (j - off) (by omega)
    simp only [key] at this
    have e : off + (j - off) = j := by omega
    rw [e, hj3] at this
    exact absurd hcv.2 (not_le.mpr this)
  -- the smallest element is `≤ cutval`, so not everything is `> cutval`
  have hl2 : 0 < l2 := by
    obtain ⟨j, hj1, hj2, hj3⟩ := s2.exists_pos hsz (i := off + imin) (by omega) (by omega)
    by_contra hcon
    have := s8 (j - off) (by omega) (by omega)
    simp only [key] at this
    have e : off + (j - off) = j := by omega
    rw [e, hj3] at this
    exact absurd hcv.1 (not_le.mpr this)
  have hbetween : l1 ≤ idx ∧ idx ≤ l2 ∧ 0 < idx ∧ idx < count := by
    rw [← hidx]
    split_ifs with h1 h2
    · exact ⟨le_refl _, s3, by omega, hl1⟩
    · exact ⟨s3, le_refl _, hl2, by omega⟩
    · refine ⟨by omega, by omega, ?_, ?_⟩
      · exact Nat.div_pos hc (by decide)
      · exact Nat.div_lt_self (by omega) (by decide)
  refine ⟨s1, s2, hcflt, hbetween.2.2.1, hbetween.2.2.2, ?_, ?_⟩
  · intro i hi
    exact s7 i (by omega)
  · intro i hi hic
    exact s6 i (by omega) hic

/-! ## Bounding boxes -/

/-- `b` is the exact bounding box of the points `S`: one interval per dimension, containing every
    point, and tight (no larger than any other containing interval) -/
def BoxOK (S : List Nat) (b : List (α × α)) : Prop :=
  b.length = dim ∧ ∀ j, j < dim →
    (∀ x ∈ S, getLow b j ≤ P x j ∧ P x j ≤ getHigh b j) ∧
    (∀ u, (∀ x ∈ S, P x j ≤ u) → getHigh b j ≤ u) ∧
    (∀ u, (∀ x ∈ S, u ≤ P x j) → u ≤ getLow b j)

theorem getLow_eq {b : List (α × α)} {j : Nat} {p : α × α} (h : b[j]? = some p) : getLow b j = p.1 := by
  simp [getLow, List.getD_eq_getElem?_getD, h]

theorem getHigh_eq {b : List (α × α)} {j : Nat} {p : α × α} (h : b[j]? = some p) : getHigh b j = p.2 := by
  simp [getHigh, List.getD_eq_getElem?_getD, h]

/-- a fold that updates every entry of a list with its own index, entry by entry -/
theorem foldl_zipIdx_map {β : Type} (g : Nat → Nat → β → β) (L : List Nat) :
    ∀ (b : List β) (j : Nat),
      (L.foldl (fun bb k => bb.zipIdx.map (fun x => g k x.2 x.1)) b)[j]? =
        (b[j]?).map (fun p => L.foldl (fun p k => g k j p) p) := by
  induction L with
  | nil => intro b j; simp
  | cons k L ih =>
    intro b j
    simp only [List.foldl_cons]
    rw [ih]
    simp only [List.getElem?_map, List.getElem?_zipIdx, Option.map_map, Nat.zero_add]
    rfl

theorem leafBox_getElem? (v : Array Nat) (left right j : Nat) (hj : j < dim) :
    (leafBox dim P v left right)[j]? = some
      ((List.range' (left + 1) (right - (left + 1))).foldl (fun (mm : α × α) k =>
        ((if P v[k]! j < mm.1 then P v[k]! j else mm.1), (if P v[k]! j > mm.2 then P v[k]! j else mm.2)))
        (P v[left]! j, P v[left]! j)) := by
  have h := foldl_zipIdx_map (β := α × α)
    (fun k i p => ((if p.1 > P v[k]! i then P v[k]! i else p.1), (if p.2 < P v[k]! i then P v[k]! i else p.2)))
    (List.range' (left + 1) (right - (left + 1)))
    ((List.range dim).map (fun i => (P v[left]! i, P v[left]! i))) j
  have h0 : ((List.range dim).map (fun i => (P v[left]! i, P v[left]! i)))[j]? = some (P v[left]! j, P v[left]! j) := by
    simp [List.getElem?_map, List.getElem?_range hj]
  rw [h0] at h
  exact h

theorem leafBox_length (v : Array Nat) (left right : Nat) : (leafBox dim P v left right).length = dim := by
  unfold leafBox
  generalize (List.range' (left + 1) (right - (left + 1))) = L
  have : ∀ (b : List (α × α)), b.length = dim → (L.foldl (fun bbox k =>
      bbox.zipIdx.map (fun x => match x with
        | ((lo, hi), i) =>
          let val := P v[k]! i
          ((if lo > val then val else lo), (if hi < val then val else hi)))) b).length = dim := by
    induction L with
    | nil => intro b hb; simpa using hb
    | cons k L ih => intro b hb; simp only [List.foldl_cons]; apply ih; simpa using hb
  exact this _ (by simp)

theorem leafBox_ok (v : Array Nat) (left right : Nat) (hlr : left < right) :
    BoxOK dim P (slice v left right) (leafBox dim P v left right) := by
  refine ⟨leafBox_length dim P v left right, ?_⟩
  intro j hj
  have hget := leafBox_getElem? dim P v left right j hj
  rw [getLow_eq hget, getHigh_eq hget]
  obtain ⟨h1, h2, h3, h4, h5⟩ := foldl_minmax (fun k => P v[k]! j)
    (List.range' (left + 1) (right - (left + 1))) (P v[left]! j) (P v[left]! j)
  have hmem : ∀ x ∈ slice v left right, x = v[left]! ∨
      ∃ k ∈ List.range' (left + 1) (right - (left + 1)), x = v[k]! := by
    intro x hx
    obtain ⟨i, hi1, hi2, rfl⟩ := mem_slice.mp hx
    by_cases hil : i = left
    · left; rw [hil]
    · right; exact ⟨i, List.mem_range'_1.mpr ⟨by omega, by omega⟩, rfl⟩
  have hin : ∀ k ∈ List.range' (left + 1) (right - (left + 1)), v[k]! ∈ slice v left right := by
    intro k hk
    have := List.mem_range'_1.mp hk
    exact mem_slice.mpr ⟨k, by omega, by omega, rfl⟩
  have hin0 : v[left]! ∈ slice v left right := mem_slice.mpr ⟨left, le_refl _, hlr, rfl⟩
  refine ⟨?_, ?_, ?_⟩
  · intro x hx
    rcases hmem x hx with rfl | ⟨k, hk, rfl⟩
    · exact ⟨h1, h2⟩
    · exact h3 k hk
  · intro u hu
    rcases h5 with h5 | ⟨k, hk, h5⟩
    · rw [h5]; exact hu _ hin0
    · rw [h5]; exact hu _ (hin k hk)
  · intro u hu
    rcases h4 with h4 | ⟨k, hk, h4⟩
    · rw [h4]; exact hu _ hin0
    · rw [h4]; exact hu _ (hin k hk)

/-- the union step at the end of `divideTree` -/
theorem unionBox_ok (S1 S2 : List Nat) (lb rb : List (α × α)) (h1 : BoxOK dim P S1 lb)
    (h2 : BoxOK dim P S2 rb) :
    BoxOK dim P (S1 ++ S2) (List.zipWith (fun (l : α × α) (r : α × α) =>
      ((if r.1 < l.1 then r.1 else l.1), (if l.2 < r.2 then r.2 else l.2))) lb rb) := by
  refine ⟨by simp [h1.1, h2.1], ?_⟩
  intro j hj
  have hl : lb[j]? = some (lb[j]'(by rw [h1.1]; exact hj)) := List.getElem?_eq_getElem _
  have hr : rb[j]? = some (rb[j]'(by rw [h2.1]; exact hj)) := List.getElem?_eq_getElem _
  have hz : (List.zipWith (fun (l : α × α) (r : α × α) =>
      ((if r.1 < l.1 then r.1 else l.1), (if l.2 < r.2 then r.2 else l.2))) lb rb)[j]? =
      some ((if (rb[j]'(by rw [h2.1]; exact hj)).1 < (lb[j]'(by rw [h1.1]; exact hj)).1
        then (rb[j]'(by rw [h2.1]; exact hj)).1 else (lb[j]'(by rw [h1.1]; exact hj)).1),
        (if (lb[j]'(by rw [h1.1]; exact hj)).2 < (rb[j]'(by rw [h2.1]; exact hj)).2
        then (rb[j]'(by rw [h2.1]; exact hj)).2 else (lb[j]'(by rw [h1.1]; exact hj)).2)) := by
    simp [List.getElem?_zipWith, hl, hr]
  rw [getLow_eq hz, getHigh_eq hz]
  obtain ⟨a1, a2, a3⟩ := h1.2 j hj
  obtain ⟨b1, b2, b3⟩ := h2.2 j hj
  rw [getLow_eq hl, getHigh_eq hl] at a1
  rw [getHigh_eq hl] at a2
  rw [getLow_eq hl] at a3
  rw [getLow_eq hr, getHigh_eq hr] at b1
  rw [getHigh_eq hr] at b2
  rw [getLow_eq hr] at b3
  simp only
  refine ⟨?_, ?_, ?_⟩
  · intro x hx
    rcases List.mem_append.mp hx with hx | hx
    · have := a1 x hx
      constructor
      · split_ifs with hc
        · exact le_trans (le_of_lt hc) this.1
        · exact this.1
      · split_ifs with hc
        · exact le_trans this.2 (le_of_lt hc)
        · exact this.2
    · have := b1 x hx
      constructor
      · split_ifs with hc
        · exact this.1
        · exact le_trans (not_lt.mp hc) this.1
      · split_ifs with hc
        · exact this.2
        · exact le_trans this.2 (not_lt.mp hc)
  · intro u hu
    split_ifs
    · exact b2 u (fun x hx => hu x (List.mem_append_right _ hx))
    · exact a2 u (fun x hx => hu x (List.mem_append_left _ hx))
  · intro u hu
    split_ifs
    · exact b3 u (fun x hx => hu x (List.mem_append_right _ hx))
    · exact a3 u (fun x hx => hu x (List.mem_append_left _ hx))


/-! ## `divideTree` -/

/-- all leaf ranges of the tree lie inside `[l, r)` -/
def InRange (l r : Nat) : Tree α → Prop
  | .leaf a b => l ≤ a ∧ b ≤ r
  | .node _ _ _ t1 t2 => InRange l r t1 ∧ InRange l r t2

theorem InRange.mono {l r l' r' : Nat} {t : Tree α} (h : InRange l r t) (hl : l' ≤ l) (hr : r ≤ r') :
    InRange l' r' t := by
  induction t with
  | leaf a b => exact ⟨le_trans hl h.1, le_trans h.2 hr⟩
  | node f lo hi t1 t2 ih1 ih2 => exact ⟨ih1 h.1, ih2 h.2⟩

theorem points_congr {v w : Array Nat} {l r : Nat} (t : Tree α) (h : InRange l r t)
    (hvw : ∀ i, l ≤ i → i < r → w[i]! = v[i]!) : points w t = points v t := by
  induction t with
  | leaf a b =>
    simp only [points]
    apply List.map_congr_left
    intro i hi
    have := List.mem_range'_1.mp hi
    have h1 := h.1
    have h2 := h.2
    exact hvw i (by omega) (by omega)
  | node f lo hi t1 t2 ih1 ih2 =>
    simp only [points, ih1 h.1, ih2 h.2]

theorem WF_congr {v w : Array Nat} {l r : Nat} (t : Tree α) (h : InRange l r t)
    (hvw : ∀ i, l ≤ i → i < r → w[i]! = v[i]!) : WF dim P w t ↔ WF dim P v t := by
  induction t with
  | leaf a b => simp [WF]
  | node f lo hi t1 t2 ih1 ih2 =>
    simp only [WF, points_congr t1 h.1 hvw, points_congr t2 h.2 hvw, ih1 h.1, ih2 h.2]

theorem divideTree_leaf (leafMax fuel : Nat) (v : Array Nat) (left right : Nat) (bbox : List (α × α))
    (h : right - left ≤ leafMax) :
    divideTree leafMax dim P (fuel + 1) v left right bbox =
      (v, .leaf left right, leafBox dim P v left right, true) := by
  rw [divideTree, if_pos h]

theorem divideTree_split (leafMax fuel : Nat) (v : Array Nat) (left right : Nat) (bbox : List (α × α))
    (h : ¬ right - left ≤ leafMax) {v1 v2 v3 : Array Nat} {idx cf : Nat} {cv : α} {ok0 ok1 ok2 : Bool}
    {c1 c2 : Tree α} {lb rb : List (α × α)}
    (hms : middleSplit dim P v left (right - left) bbox = (v1, idx, cf, cv, ok0))
    (h1 : divideTree leafMax dim P fuel v1 left (left + idx) (setHigh bbox cf cv) = (v2, c1, lb, ok1))
    (h2 : divideTree leafMax dim P fuel v2 (left + idx) right (setLow bbox cf cv) = (v3, c2, rb, ok2)) :
    divideTree leafMax dim P (fuel + 1) v left right bbox =
      (v3, .node cf (getHigh lb cf) (getLow rb cf) c1 c2,
       List.zipWith (fun (l : α × α) (r : α × α) =>
          ((if r.1 < l.1 then r.1 else l.1), (if l.2 < r.2 then r.2 else l.2))) lb rb,
       ok0 && ok1 && ok2) := by
  rw [divideTree, if_neg h, hms]
  simp only
  rw [h1]
  simp only
  rw [h2]

/-- **`divideTree` is correct**: it ends (`ok`), only permutes `vind` inside its range, its leaves
    are exactly the positions of the range in order, the tree is well formed and the returned box
    is the exact bounding box of the points of the range. -/
theorem divideTree_spec (leafMax : Nat) (hleaf : 1 ≤ leafMax) (hdim : 0 < dim) :
    ∀ (fuel : Nat) (v : Array Nat) (left right : Nat) (bbox : List (α × α)),
      left < right → right ≤ v.size → right - left ≤ fuel →
      ∀ (v' : Array Nat) (t : Tree α) (b' : List (α × α)) (ok : Bool),
        divideTree leafMax dim P fuel v left right bbox = (v', t, b', ok) →
        ok = true ∧ PermOn v v' left right ∧ points v' t = slice v' left right ∧
        InRange left right t ∧ WF dim P v' t ∧ BoxOK dim P (slice v' left right) b' := by
  intro fuel
  induction fuel with
  | zero => intro v left right bbox h1 _ h3; omega
  | succ fuel ih =>
    intro v left right bbox hlr hsz hfuel v' t b' ok h
    by_cases hleafc : right - left ≤ leafMax
    · rw [divideTree_leaf dim P leafMax fuel v left right bbox hleafc] at h
      simp only [Prod.mk.injEq] at h
      obtain ⟨rfl, rfl, rfl, rfl⟩ := h
      exact ⟨rfl, PermOn.refl _ _ _, rfl, ⟨le_refl _, le_refl _⟩, trivial,
        leafBox_ok dim P v left right hlr⟩
    · rcases hms : middleSplit dim P v left (right - left) bbox with ⟨v1, idx, cf, cv, ok0⟩
      rcases h1 : divideTree leafMax dim P fuel v1 left (left + idx) (setHigh bbox cf cv) with
        ⟨v2, c1, lb, ok1⟩
      rcases h2 : divideTree leafMax dim P fuel v2 (left + idx) right (setLow bbox cf cv) with
        ⟨v3, c2, rb, ok2⟩
      rw [divideTree_split dim P leafMax fuel v left right bbox hleafc hms h1 h2] at h
      simp only [Prod.mk.injEq] at h
      obtain ⟨rfl, rfl, rfl, rfl⟩ := h
      have hcount : 2 ≤ right - left := by omega
      have hsz0 : left + (right - left) ≤ v.size := by omega
      obtain ⟨m1, m2, m3, m4, m5, m6, m7⟩ :=
        middleSplit_spec dim P hdim v left (right - left) bbox hcount hsz0 v1 idx cf cv ok0 hms
      have e0 : left + (right - left) = right := by omega
      rw [e0] at m2
      have hsz1 : right ≤ v1.size := by rw [m2.1]; exact hsz
      obtain ⟨a1, a2, a3, a4, a5, a6⟩ :=
        ih v1 left (left + idx) (setHigh bbox cf cv) (by omega) (by omega) (by omega) v2 c1 lb ok1 h1
      have hsz2 : right ≤ v2.size := by rw [a2.1]; exact hsz1
      obtain ⟨b1, b2, b3, b4, b5, b6⟩ :=
        ih v2 (left + idx) right (setLow bbox cf cv) (by omega) hsz2 (by omega) v3 c2 rb ok2 h2
      have hframe : ∀ i, left ≤ i → i < left + idx → v3[i]! = v2[i]! :=
        fun i _ hi => b2.2.1 i (Or.inl hi)
      have hpts1 : points v3 c1 = slice v3 left (left + idx) := by
        rw [points_congr c1 a4 hframe, a3]; exact (slice_congr hframe).symm
      have hslice : slice v3 left (left + idx) ++ slice v3 (left + idx) right = slice v3 left right :=
        slice_append v3 (by omega) (by omega)
      have hleft_le : ∀ x ∈ slice v3 left (left + idx), P x cf ≤ cv := by
        intro x hx
        rw [slice_congr hframe] at hx
        have := (a2.mem_slice_iff (by omega) (by omega) x).mp hx
        obtain ⟨i, hi1, hi2, rfl⟩ := mem_slice.mp this
        have := m6 (i - left) (by omega)
        have e : left + (i - left) = i := by omega
        rw [e] at this; exact this
      have hright_ge : ∀ x ∈ slice v3 (left + idx) right, cv ≤ P x cf := by
        intro x hx
        have := (b2.mem_slice_iff (by omega) hsz2 x).mp hx
        obtain ⟨i, hi1, hi2, rfl⟩ := mem_slice.mp this
        rw [a2.2.1 i (Or.inr hi1)]
        have := m7 (i - left) (by omega) (by omega)
        have e : left + (i - left) = i := by omega
        rw [e] at this; exact this
      have hbl : BoxOK dim P (slice v3 left (left + idx)) lb := by
        rw [slice_congr hframe]; exact a6
      refine ⟨by simp [m1, a1, b1], ?_, ?_, ?_, ?_, ?_⟩
      · exact (m2.trans (a2.mono (le_refl _) (by omega))).trans (b2.mono (by omega) (le_refl _))
      · simp only [points]; rw [hpts1, b3, hslice]
      · exact ⟨a4.mono (le_refl _) (by omega), b4.mono (by omega) (le_refl _)⟩
      · refine ⟨m3, ?_, ?_, ?_, ?_, b5⟩
        · exact le_trans ((hbl.2 cf m3).2.1 cv hleft_le) ((b6.2 cf m3).2.2 cv hright_ge)
        · intro x hx; rw [hpts1] at hx; exact ((hbl.2 cf m3).1 x hx).2
        · intro x hx; rw [b3] at hx; exact ((b6.2 cf m3).1 x hx).1
        · exact (WF_congr dim P c1 a4 hframe).mpr a5
      · rw [← hslice]; exact unionBox_ok dim P _ _ lb rb hbl b6


end build

end Romea.KdTree
