import RomeaProofs.Lemmas.C04Polar

/-!
# C04: `estimate` = `specOf` of the list of corresponding pairs

`specOf svd P = [R  t̄ − R s̄; 0 1]` with `R = rotationOf svd (covL P)`.  `estimate_cart` / `estimate_hom` show that the
model returns exactly this for Cartesian resp. homogeneous points (the latter whenever the extra coordinate has the
same mean in both sets, e.g. is constant).
-/
namespace Romea.Registration
open Matrix

variable {d : Nat}

/-- the rotation the model extracts from a cross-covariance -/
noncomputable def rotM (svd : Mat d d ℝ → SVD d ℝ) (C : Matrix (Fin d) (Fin d) ℝ) : Matrix (Fin d) (Fin d) ℝ :=
  Matrix.of (rotationOf d svd (Matrix.of.symm C)).toFn

/-- what `estimate_` computes, as a function of the list of corresponding (source, target) pairs -/
noncomputable def specOf (svd : Mat d d ℝ → SVD d ℝ) (P : List ((Fin d → ℝ) × (Fin d → ℝ))) :
    Matrix (Fin (d + 1)) (Fin (d + 1)) ℝ :=
  homMat (rotM svd (covL P))
    (fun i => meanL (P.map Prod.snd) i - (rotM svd (covL P) *ᵥ meanL (P.map Prod.fst)) i)

theorem castLE_succ_eq (i : Fin d) : Fin.castLE (Nat.le_succ d) i = i.castSucc := rfl

theorem assemble_cart (R : Tab2 d d ℝ) (sm tm : Tab d ℝ) :
    Matrix.of (assemble d d (Nat.le_succ d) R sm tm).toFn =
      homMat (Matrix.of R.toFn) (fun i => tm.get i - (Matrix.of R.toFn *ᵥ sm.get) i) := by
  ext i j
  simp only [assemble, Tab2.toFn, Matrix.of_apply, Tab2.get_get_ofFn, Tab.get_ofFn, homMat, sumFin_eq, zero_real, one_real,
    Matrix.mulVec, dotProduct, castLE_succ_eq, Fin.val_castSucc, Fin.is_lt, and_true, dite_true]
  have hi := i.2
  have hj := j.2
  split_ifs <;> first | (exfalso; omega) | rfl | simp

theorem assemble_hom (R : Tab2 d d ℝ) (sm tm : Tab (d + 1) ℝ) (hlast : tm.get (Fin.last d) = sm.get (Fin.last d)) :
    Matrix.of (assemble d (d + 1) (Nat.le_refl _) R sm tm).toFn =
      homMat (Matrix.of R.toFn)
        (fun i => tm.get i.castSucc - (Matrix.of R.toFn *ᵥ (fun k => sm.get k.castSucc)) i) := by
  ext i j
  simp only [assemble, Tab2.toFn, Matrix.of_apply, Tab2.get_get_ofFn, Tab.get_ofFn, homMat, sumFin_eq, zero_real, one_real,
    Matrix.mulVec, dotProduct, Fin.castLE_refl, Fin.sum_univ_castSucc, Fin.val_castSucc, Fin.is_lt, and_true, dite_true,
    Fin.val_last, lt_irrefl]
  have hi := i.2
  have hj := j.2
  split_ifs <;> first | (exfalso; omega) | rfl | (exfalso; tauto) | skip
  all_goals first
    | (have hx : ∀ x : Fin d, ¬ (i.1 = x.1) := fun x => by have := x.2; omega
       have hil : (⟨i.1, hi⟩ : Fin (d + 1)) = Fin.last d := Fin.ext (by simp; omega)
       simp [hx, hil, hlast]; done)
    | (simp; done)

theorem estimate_cart (svd : Mat d d ℝ → SVD d ℝ) (src tgt : Array (Tab d ℝ)) (corr : List (Nat × Nat)) :
    Matrix.of (estimate d d (Nat.le_refl d) (Nat.le_succ d) svd src tgt corr).toFn =
      specOf svd (pairsOf (Nat.le_refl d) src tgt corr) := by
  unfold estimate specOf rotM
  simp only []
  rw [assemble_cart, cov_block_eq (Nat.le_refl d) src tgt corr]
  congr 1
  funext i
  have h1 := mean_tgt_eq (Nat.le_refl d) src tgt corr i
  simp only [Fin.castLE_refl] at h1
  rw [h1]
  congr 2
  funext k
  have h2 := mean_src_eq (Nat.le_refl d) src tgt corr k
  simpa only [Fin.castLE_refl] using h2

theorem estimate_hom (svd : Mat d d ℝ → SVD d ℝ) (src tgt : Array (Tab (d + 1) ℝ)) (corr : List (Nat × Nat))
    (hlast : (meanOf (d + 1) tgt (corr.map (·.2))).get (Fin.last d) = (meanOf (d + 1) src (corr.map (·.1))).get (Fin.last d)) :
    Matrix.of (estimate d (d + 1) (Nat.le_succ d) (Nat.le_refl _) svd src tgt corr).toFn =
      specOf svd (pairsOf (Nat.le_succ d) src tgt corr) := by
  unfold estimate specOf rotM
  simp only []
  rw [assemble_hom _ _ _ hlast, cov_block_eq (Nat.le_succ d) src tgt corr]
  congr 1
  funext i
  have h1 := mean_tgt_eq (Nat.le_succ d) src tgt corr i
  rw [castLE_succ_eq] at h1
  rw [h1]
  congr 2
  funext k
  have h2 := mean_src_eq (Nat.le_succ d) src tgt corr k
  rwa [castLE_succ_eq] at h2

/-- the linear part of the result is the model's rotation, for Cartesian and homogeneous points alike -/
theorem linPart_assemble (p : Nat) (hp : p ≤ d + 1) (R : Tab2 d d ℝ) (sm tm : Tab p ℝ) :
    linPart (Matrix.of (assemble d p hp R sm tm).toFn) = Matrix.of R.toFn := by
  ext i j
  unfold assemble linPart
  have hi := i.2
  have hj := j.2
  simp [Tab2.toFn, hi, hj]
  intro h; omega

theorem estimateAll_eq (p : Nat) (hdp : d ≤ p) (hp : p ≤ d + 1) (svd : Mat d d ℝ → SVD d ℝ) (src tgt : Array (Tab p ℝ))
    (hsize : src.size = tgt.size) :
    estimateAll d p hdp hp svd src tgt = estimate d p hdp hp svd src tgt ((List.range src.size).map (fun n => (n, n))) := by
  unfold estimateAll estimate
  simp [List.map_map, Function.comp_def, hsize]

end Romea.Registration
