import RomeaModel.PointToPlane
import RomeaProofs.Lemmas.C07Bridge

/-!
# Helper lemmas for C05: what the row-filling loop leaves in the solver's buffers
-/
namespace Romea.PointToPlane
open Romea.LeastSquares

theorem fillRows_succ (s : State ℝ) (m : Nat) (row : Nat → Vec ℝ) (rhs : Nat → ℝ) :
    fillRows s (m + 1) row rhs = writeRow (fillRows s m row rhs) m (row m) (rhs m) := by
  simp [fillRows, List.range_succ, List.foldl_append]

/-- the loop only uses `row k`, `rhs k` for `k < n` -/
theorem fillRows_congr (s : State ℝ) (n : Nat) (row row' : Nat → Vec ℝ) (rhs rhs' : Nat → ℝ)
    (h : ∀ k < n, row k = row' k ∧ rhs k = rhs' k) : fillRows s n row rhs = fillRows s n row' rhs' := by
  induction n with
  | zero => rfl
  | succ m ih =>
    rw [fillRows_succ, fillRows_succ, ih (fun k hk => h k (by omega)), (h m (by omega)).1, (h m (by omega)).2]

/-- everything the loop leaves unchanged, and the entries it writes -/
theorem fillRows_spec (s : State ℝ) (m : Nat) (row : Nat → Vec ℝ) (rhs : Nat → ℝ) :
    let s' := fillRows s m row rhs
    s'.est = s.est ∧ s'.dataSize = s.dataSize ∧ s'.Ac = s.Ac ∧ s'.Bc = s.Bc ∧ s'.W = s.W ∧ s'.inv = s.inv ∧
    s'.J.size = s.J.size ∧ s'.Y.size = s.Y.size ∧ (∀ k, rowSize s' k = rowSize s k) ∧
    (∀ k c, s'.J.get k c = if k < m ∧ k < s.J.size ∧ c < rowSize s k ∧ c < s.est then (row k).get c else s.J.get k c) ∧
    (∀ k, s'.Y.get k = if k < m ∧ k < s.Y.size then rhs k else s.Y.get k) := by
  induction m with
  | zero =>
    refine ⟨rfl, rfl, rfl, rfl, rfl, rfl, rfl, rfl, fun _ => rfl, fun k c => ?_, fun k => ?_⟩
    · simp [fillRows]
    · simp [fillRows]
  | succ m ih =>
    obtain ⟨h1, h2, h3, h4, h5, h6, h7, h8, h9, h10, h11⟩ := ih
    intro s'
    have hs' : s' = writeRow (fillRows s m row rhs) m (row m) (rhs m) := fillRows_succ s m row rhs
    obtain ⟨z1, z2, z3, z4⟩ := writeRow_sizes (fillRows s m row rhs) m (row m) (rhs m)
    rw [hs']
    refine ⟨h1, h2, h3, h4, z3.trans h5, h6, z1.trans h7, z2.trans h8, fun k => (z4 k).trans (h9 k), fun k c => ?_, fun k => ?_⟩
    · rw [writeRow_J_get, h10 k c, h7, h9 m, h1]
      by_cases hk : k = m
      · subst hk
        by_cases hc : k < s.J.size ∧ c < rowSize s k ∧ c < s.est
        · rw [if_pos ⟨rfl, hc⟩, if_pos ⟨by omega, hc⟩]
        · rw [if_neg (fun h => hc h.2), if_neg (fun h => absurd h.1 (by omega))]
          rw [if_neg (fun h => hc h.2)]
      · rw [if_neg (fun h => hk h.1)]
        by_cases hc : k < m ∧ k < s.J.size ∧ c < rowSize s k ∧ c < s.est
        · rw [if_pos hc, if_pos ⟨by omega, hc.2⟩]
        · rw [if_neg hc, if_neg (fun h => hc ⟨by omega, h.2⟩)]
    · rw [writeRow_Y_get, h11 k, h8]
      by_cases hk : k = m
      · subst hk
        by_cases hc : k < s.Y.size
        · rw [if_pos ⟨rfl, hc⟩, if_pos ⟨by omega, hc⟩]
        · rw [if_neg (fun h => hc h.2), if_neg (fun h => absurd h.1 (by omega)), if_neg (fun h => hc h.2)]
      · rw [if_neg (fun h => hk h.1)]
        by_cases hc : k < m ∧ k < s.Y.size
        · rw [if_pos hc, if_pos ⟨by omega, hc.2⟩]
        · rw [if_neg hc, if_neg (fun h => hc ⟨by omega, h.2⟩)]

end Romea.PointToPlane
