import RomeaModel.RegistrationObjects

/-!
# C04: the buffer of a `PreconditionedPointSet` after `allocate_` + the overwrite loop

Helper lemmas for section 7 of `Properties/C04.lean`; every scalar type (no arithmetic is used: the statements
are about which array cells are written).
-/
namespace Romea.Registration

section
variable {β : Type}

/-- after the loop over `k < m` on a buffer of `n ≥ m` cells: the size is unchanged, the cells below `m` hold the
    new values, the others are untouched -/
theorem foldl_set_spec (g : Nat → β) (n : Nat) : ∀ (m : Nat) (buf : Array β), buf.size = n → m ≤ n →
    ((List.range m).foldl (fun b k => b.setIfInBounds k (g k)) buf).size = n ∧
    ∀ k, k < n → ((List.range m).foldl (fun b k => b.setIfInBounds k (g k)) buf)[k]? =
      if k < m then some (g k) else buf[k]? := by
  intro m
  induction m with
  | zero => intro buf hb _; simp [hb]
  | succ m ih =>
    intro buf hb hm
    obtain ⟨hs, hg⟩ := ih buf hb (Nat.le_of_succ_le hm)
    rw [List.range_succ, List.foldl_append]
    simp only [List.foldl_cons, List.foldl_nil, Array.size_setIfInBounds]
    refine ⟨hs, ?_⟩
    intro k hk
    rw [Array.getElem?_setIfInBounds]
    by_cases hkm : m = k
    · subst hkm
      simp [hs, hk]
    · simp only [hkm, if_false]
      rw [hg k hk]
      by_cases h1 : k < m
      · simp [h1, Nat.lt_succ_of_lt h1]
      · have : ¬ k < m + 1 := by omega
        simp [h1, this]

/-- the loop over the whole buffer replaces every cell -/
theorem foldl_set_all (g : Nat → β) (buf : Array β) :
    (List.range buf.size).foldl (fun b k => b.setIfInBounds k (g k)) buf = Array.ofFn (fun i : Fin buf.size => g i.1) := by
  obtain ⟨hs, hg⟩ := foldl_set_spec g buf.size buf.size buf rfl (Nat.le_refl _)
  apply Array.ext
  · simp [hs]
  · intro i h1 h2
    have hi : i < buf.size := by simpa [hs] using h1
    have := hg i hi
    simp only [hi, if_true] at this
    rw [Array.getElem?_eq_getElem h1] at this
    simp only [Option.some.injEq] at this
    simp [this]

end

section
variable {α : Type}

/-- `allocate_(n)` leaves exactly `n` points in the buffer, whatever it held before -/
theorem size_allocate (p : Nat) (fill : Tab p α) (pts : Array (Tab p α)) (n : Nat) :
    (allocate p fill pts n).size = n := by
  unfold allocate
  split
  · simp; omega
  · simp; omega

/-- `allocate_` followed by the loop of `compute`: the buffer is the image of the input, nothing of the previous
    contents (and nothing of the value-initialised filler) survives -/
theorem overwrite_allocate [NatCast α] (p : Nat) (f : Tab p α → Tab p α) (fill : Tab p α) (old input : Array (Tab p α)) :
    overwrite p f input (allocate p fill old input.size) = input.map f := by
  unfold overwrite
  have hs := size_allocate p fill old input.size
  have h := foldl_set_all (fun n => f (getPt p input n)) (allocate p fill old input.size)
  rw [hs] at h
  rw [h]
  apply Array.ext
  · simp
  · intro i h1 h2
    have hi : i < input.size := by simpa using h2
    simp [getPt, Array.getD]

end
end Romea.Registration
