import RomeaModel.RayCast
import RomeaProofs.RealInst
import Mathlib.Algebra.BigOperators.Fin
import Mathlib.Algebra.Order.BigOperators.Group.Finset
import Mathlib.Algebra.Order.Floor.Ring
import Mathlib.Tactic.Linarith
import Mathlib.Tactic.NormNum
import Mathlib.Tactic.Ring
import Mathlib.Tactic.FieldSimp
import Mathlib.Tactic.Positivity

/-!
# C14 helper lemmas, part 1: vectors, fixed-width integers, the grid index map over ℝ
-/
namespace Romea.RayCast
open Romea

/-! ### vectors -/
section vec
variable {d : Nat} {α : Type}

@[simp] theorem at_build (f : Fin d → α) (i : Fin d) : (build f).at i = f i := by
  simp [build, Vec.at]

theorem at_upd (v : Vec d α) (i j : Fin d) (x : α) :
    (upd v i x).at j = if j = i then x else v.at j := by
  unfold upd Vec.at
  by_cases h : j = i
  · subst h; simp
  · have : i.1 ≠ j.1 := fun e => h (Fin.ext e.symm)
    simp [h, Vector.getElem_set_ne, this]

@[simp] theorem at_upd_self (v : Vec d α) (i : Fin d) (x : α) : (upd v i x).at i = x := by
  simp [at_upd]

theorem at_upd_ne (v : Vec d α) {i j : Fin d} (x : α) (h : j ≠ i) : (upd v i x).at j = v.at j := by
  simp [at_upd, h]

theorem vec_ext {v w : Vec d α} (h : ∀ i, v.at i = w.at i) : v = w := by
  apply Vector.ext
  intro i hi
  exact h ⟨i, hi⟩

theorem build_at (v : Vec d α) : build (fun i => v.at i) = v := vec_ext (fun i => by simp)

end vec

/-! ### sums -/

theorem sumFrom_eq {d : Nat} {β : Type} [AddCommMonoid β] (z : β) (f : Fin d → β) :
    sumFrom z f = z + ∑ i, f i := by
  unfold sumFrom
  rw [Fin.sum_univ_def]
  generalize List.finRange d = l
  induction l generalizing z with
  | nil => simp
  | cons a l ih => simp [ih, add_assoc]

/-! ### fixed-width integers -/

theorem wrap64_id {x : Int} (h0 : 0 ≤ x) (h1 : x < 2 ^ 31) : wrap64 x = x := by
  unfold wrap64 two64
  exact Int.emod_eq_of_lt h0 (by omega)

theorem toInt32_id {x : Int} (h0 : 0 ≤ x) (h1 : x < 2 ^ 31) : toInt32 x = x := by
  unfold toInt32
  omega

theorem iabs_eq (x : Int) : iabs x = |x| := by
  unfold iabs
  split
  · rw [abs_of_neg ‹_›]
  · rw [abs_of_nonneg (by omega)]

/-! ### literals over ℝ -/

@[simp] theorem half_real : (half : ℝ) = 1 / 2 := by unfold half; norm_num

/-! ### the grid index map over ℝ -/
section grid
variable {d : Nat}

/-- hypotheses on the grid: positive resolution, ordered extent, cell counts that fit the `int` used by
    `computeRayNumberOfCells` even when three axes are added up (2^29 per axis; the property has 2000) -/
structure GridOK (lo hi : Vec d ℝ) (r : ℝ) : Prop where
  hr : 0 < r
  hle : ∀ i, lo.at i ≤ hi.at i
  hfit : ∀ i, ⌈hi.at i / r⌉ - ⌊lo.at i / r⌋ + 1 < 2 ^ 29

/-- `lo ≤ p ≤ hi` on every axis -/
def InExtent (lo hi p : Vec d ℝ) : Prop := ∀ i, lo.at i ≤ p.at i ∧ p.at i ≤ hi.at i

/-- lower face of cell `k` on axis `i` (the upper face is `face G i (k + 1)`) -/
noncomputable def face (G : Grid d ℝ) (i : Fin d) (k : Int) : ℝ := G.fmin.at i + (k : ℝ) * G.r

/-- `x` lies in the closed cell `k` of axis `i` -/
def InClosed (G : Grid d ℝ) (i : Fin d) (k : Int) (x : ℝ) : Prop := face G i k ≤ x ∧ x ≤ face G i (k + 1)

variable {lo hi : Vec d ℝ} {r : ℝ}

theorem mkGrid_r : (mkGrid lo hi r).r = r := rfl

theorem mkGrid_fmin (i : Fin d) : (mkGrid lo hi r).fmin.at i = r * ((⌊lo.at i / r⌋ : ℝ) - 1 / 2) := by
  simp [mkGrid]

theorem trunc_of_nonneg {x : ℝ} (h : 0 ≤ x) : Trunc.trunc x = ⌊x⌋ := by
  rw [trunc_real]; simp [h]

theorem mkGrid_n (h : GridOK lo hi r) (i : Fin d) :
    (mkGrid lo hi r).n.at i = ⌈hi.at i / r⌉ - ⌊lo.at i / r⌋ + 1 := by
  have hle : lo.at i / r ≤ hi.at i / r := div_le_div_of_nonneg_right (h.hle i) h.hr.le
  have h1 : ⌊lo.at i / r⌋ ≤ ⌈hi.at i / r⌉ := by
    have := Int.floor_le (lo.at i / r)
    have := Int.le_ceil (hi.at i / r)
    exact_mod_cast (by linarith : ((⌊lo.at i / r⌋ : Int) : ℝ) ≤ ((⌈hi.at i / r⌉ : Int) : ℝ))
  have hx : (Trans.ceil (hi.at i / r) - Trans.floor (lo.at i / r) + ((1 : Nat) : ℝ) : ℝ)
      = ((⌈hi.at i / r⌉ - ⌊lo.at i / r⌋ + 1 : Int) : ℝ) := by
    simp
  simp only [mkGrid, at_build]
  rw [hx, trunc_of_nonneg (by exact_mod_cast (by omega : (0 : Int) ≤ ⌈hi.at i / r⌉ - ⌊lo.at i / r⌋ + 1)),
    Int.floor_intCast]
  exact wrap64_id (by omega) (lt_trans (h.hfit i) (by norm_num))

theorem centre1_eq (G : Grid d ℝ) (i : Fin d) (k : Int) :
    centre1 G i k = face G i k + G.r / 2 := by
  unfold centre1 face; simp; ring

theorem face_succ (G : Grid d ℝ) (i : Fin d) (k : Int) : face G i (k + 1) = face G i k + G.r := by
  unfold face; push_cast; ring

theorem face_add (G : Grid d ℝ) (i : Fin d) (k m : Int) : face G i (k + m) = face G i k + (m : ℝ) * G.r := by
  unfold face; push_cast; ring

/-- a closed cell that meets the extent is a cell of the grid (the grid has a margin of half a cell) -/
theorem closed_cell_in_grid (h : GridOK lo hi r) (i : Fin d) (k : Int) (x : ℝ)
    (hx : lo.at i ≤ x ∧ x ≤ hi.at i) (hk : InClosed (mkGrid lo hi r) i k x) :
    0 ≤ k ∧ k < (mkGrid lo hi r).n.at i := by
  rw [mkGrid_n h]
  obtain ⟨h1, h2⟩ := hk
  unfold face at h1 h2
  rw [mkGrid_fmin, mkGrid_r] at h1 h2
  have hr := h.hr
  have hfl : (⌊lo.at i / r⌋ : ℝ) * r ≤ lo.at i := by
    have := Int.floor_le (lo.at i / r)
    calc (⌊lo.at i / r⌋ : ℝ) * r ≤ lo.at i / r * r := by nlinarith
      _ = lo.at i := by field_simp
  have hce : hi.at i ≤ (⌈hi.at i / r⌉ : ℝ) * r := by
    have := Int.le_ceil (hi.at i / r)
    calc hi.at i = hi.at i / r * r := by field_simp
      _ ≤ (⌈hi.at i / r⌉ : ℝ) * r := by nlinarith
  constructor
  · -- r (fl - 1/2) + (k+1) r ≥ x ≥ lo ≥ fl r
    have : (0 : ℝ) < ((k : ℝ) + 1) := by
      push_cast at h2
      have : (⌊lo.at i / r⌋ : ℝ) * r ≤ r * ((⌊lo.at i / r⌋ : ℝ) - 1 / 2) + ((k : ℝ) + 1) * r := by linarith
      have : 0 ≤ r * ((k : ℝ) + 1 / 2) := by nlinarith
      have : 0 ≤ (k : ℝ) + 1 / 2 := by
        by_contra hneg
        rw [not_le] at hneg
        nlinarith
      linarith
    have : (0 : Int) < k + 1 := by exact_mod_cast this
    omega
  · have : r * ((⌊lo.at i / r⌋ : ℝ) - 1 / 2) + (k : ℝ) * r ≤ (⌈hi.at i / r⌉ : ℝ) * r := by linarith
    have : r * ((⌊lo.at i / r⌋ : ℝ) - 1 / 2 + (k : ℝ) - (⌈hi.at i / r⌉ : ℝ)) ≤ 0 := by nlinarith
    have : (⌊lo.at i / r⌋ : ℝ) - 1 / 2 + (k : ℝ) - (⌈hi.at i / r⌉ : ℝ) ≤ 0 := by
      by_contra hpos
      rw [not_le] at hpos
      nlinarith
    have : ((k : ℝ)) < ((⌈hi.at i / r⌉ - ⌊lo.at i / r⌋ + 1 : Int) : ℝ) := by
      push_cast; linarith
    exact_mod_cast this

/-- `computeCellIndexes` of a point of the extent: the floor cell, inside the grid -/
theorem cellIndexes_spec (h : GridOK lo hi r) (p : Vec d ℝ) (hp : InExtent lo hi p) (i : Fin d) :
    let k := (cellIndexes (mkGrid lo hi r) p).at i
    face (mkGrid lo hi r) i k ≤ p.at i ∧ p.at i < face (mkGrid lo hi r) i (k + 1) ∧
      0 ≤ k ∧ k < (mkGrid lo hi r).n.at i := by
  intro k
  have hr := h.hr
  set G := mkGrid lo hi r with hG
  set x : ℝ := (p.at i - G.fmin.at i) / G.r with hx
  have hGr : G.r = r := rfl
  have hfl : (⌊lo.at i / r⌋ : ℝ) * r ≤ lo.at i := by
    have := Int.floor_le (lo.at i / r)
    calc (⌊lo.at i / r⌋ : ℝ) * r ≤ lo.at i / r * r := by nlinarith
      _ = lo.at i := by field_simp
  have hxpos : 0 < x := by
    rw [hx, hGr]
    apply div_pos _ hr
    rw [hG, mkGrid_fmin]
    have := (hp i).1
    nlinarith
  have hfloor1 : (⌊x⌋ : ℝ) * r ≤ p.at i - G.fmin.at i := by
    have := Int.floor_le x
    calc (⌊x⌋ : ℝ) * r ≤ x * r := by nlinarith
      _ = p.at i - G.fmin.at i := by rw [hx, hGr]; field_simp
  have hfloor2 : p.at i - G.fmin.at i < ((⌊x⌋ : ℝ) + 1) * r := by
    have := Int.lt_floor_add_one x
    calc p.at i - G.fmin.at i = x * r := by rw [hx, hGr]; field_simp
      _ < ((⌊x⌋ : ℝ) + 1) * r := by nlinarith
  have hclosed : InClosed G i ⌊x⌋ (p.at i) := by
    unfold InClosed face
    rw [hGr]; push_cast
    constructor <;> linarith
  have hin := closed_cell_in_grid h i ⌊x⌋ (p.at i) (hp i) hclosed
  have hk : k = ⌊x⌋ := by
    show (cellIndexes G p).at i = ⌊x⌋
    simp only [cellIndexes, at_build]
    rw [← hx, trunc_of_nonneg hxpos.le]
    refine wrap64_id hin.1 (lt_trans hin.2 ?_)
    rw [mkGrid_n h]; exact lt_trans (h.hfit i) (by norm_num)
  rw [hk]
  refine ⟨?_, ?_, hin.1, hin.2⟩
  · unfold face; rw [hGr]; linarith
  · unfold face; rw [hGr]; push_cast; linarith

end grid
end Romea.RayCast
