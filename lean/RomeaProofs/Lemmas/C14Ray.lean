import RomeaProofs.Lemmas.C14Basic
import RomeaProofs.Lemmas.C14Axis
import RomeaProofs.Lemmas.C14Count
import Mathlib.Analysis.SpecialFunctions.Sqrt

/-!
# C14 helper lemmas, part 2: the freshly initialised ray over ℝ
-/
namespace Romea.RayCast
open Romea

/-- the sentinel `std::numeric_limits<Scalar>::max()` of the real-number instance: any real `M`;
    the theorems assume it exceeds the length of the ray -/
class Big where
  M : ℝ

noncomputable instance instLimitsReal [b : Big] : Limits ℝ := ⟨b.M, -b.M, 0, 0⟩

theorem maxVal_real [b : Big] : (Limits.maxVal : ℝ) = b.M := rfl

variable {d : Nat} [Big]

/-- what the theorems need of the per-instantiation parts: the decision tree returns an axis with a
    minimal crossing parameter, the squared norm of a non-zero vector is positive -/
structure SpecOK (sp : Spec d ℝ) : Prop where
  argmin : ∀ (t : Vec d ℝ) (i : Fin d), t.at (sp.pick t) ≤ t.at i
  sq_pos : ∀ v : Vec d ℝ, (∃ i, v.at i ≠ 0) → 0 < sp.sqNorm v

/-- `direction.norm()` -/
noncomputable def range (sp : Spec d ℝ) (o e : Vec d ℝ) : ℝ :=
  Real.sqrt (sp.sqNorm (build fun j => e.at j - o.at j))

/-- sign as computed at RayTracing.cpp:110-116 -/
noncomputable def sgn (x : ℝ) : Int := if x > 0 then 1 else if x < 0 then -1 else 0

section fields
variable (sp : Spec d ℝ) (G : Grid d ℝ) (s : State d ℝ) (p : Vec d ℝ)

theorem setEnd_o : (setEnd sp G s p).o = s.o := rfl
theorem setEnd_oIdx : (setEnd sp G s p).oIdx = s.oIdx := rfl
theorem setEnd_e : (setEnd sp G s p).e = p := rfl
theorem setEnd_eIdx : (setEnd sp G s p).eIdx = cellIndexes G p := rfl

theorem setEnd_dir (i : Fin d) :
    (setEnd sp G s p).dir.at i = (p.at i - s.o.at i) / range sp s.o p := by
  simp [setEnd, range]

theorem setEnd_step (i : Fin d) :
    (setEnd sp G s p).step.at i = sgn ((setEnd sp G s p).dir.at i) := by
  simp [setEnd, sgn]

/-- the geometric first crossing parameter `(voxelBorder - origin) / direction` of RayTracing.cpp:122-124 -/
noncomputable def firstT (G : Grid d ℝ) (s₀ : State d ℝ) (i : Fin d) : ℝ :=
  (centre1 G i (s₀.oIdx.at i) + ((s₀.step.at i : Int) : ℝ) * G.r * (1 / 2) - s₀.o.at i) / s₀.dir.at i

theorem setEnd_rem (i : Fin d) :
    (setEnd sp G s p).rem.at i = iabs (toInt32 ((cellIndexes G p).at i) - toInt32 (s.oIdx.at i)) := by
  simp [setEnd]

theorem setEnd_tMax (i : Fin d) :
    (setEnd sp G s p).tMax.at i =
      if (setEnd sp G s p).rem.at i = 0 then Big.M
      else if (setEnd sp G s p).step.at i ≠ 0 then firstT G (setEnd sp G s p) i
      else Big.M := by
  simp [setEnd, centre, maxVal_real, firstT]

theorem setEnd_tDelta (i : Fin d) :
    (setEnd sp G s p).tDelta.at i =
      if (setEnd sp G s p).step.at i ≠ 0 then G.r / |(setEnd sp G s p).dir.at i| else Big.M := by
  simp [setEnd, maxVal_real]

end fields

/-- the facts about a freshly initialised ray (`setOriginPoint` + `setEndPoint`) that the traversal argument uses -/
structure RayFacts (G : Grid d ℝ) (o e : Vec d ℝ) (R : ℝ) (s₀ : State d ℝ) : Prop where
  Rpos : 0 < R
  RltM : R < Big.M
  σ_cases : ∀ i, s₀.step.at i = 0 ∨ s₀.step.at i = 1 ∨ s₀.step.at i = -1
  moving : ∀ i, s₀.step.at i ≠ 0 →
    AxisFacts (G.fmin.at i) G.r (o.at i) (e.at i) R (firstT G s₀ i) (s₀.tDelta.at i)
      (s₀.step.at i) (s₀.oIdx.at i) (s₀.eIdx.at i)
  still : ∀ i, s₀.step.at i = 0 → e.at i = o.at i ∧ s₀.eIdx.at i = s₀.oIdx.at i
  idx : ∀ i, 0 ≤ s₀.oIdx.at i ∧ s₀.oIdx.at i < 2 ^ 29 ∧ 0 ≤ s₀.eIdx.at i ∧ s₀.eIdx.at i < 2 ^ 29
  rem0 : ∀ i, s₀.rem.at i = needed s₀ i
  tmax0 : ∀ i, s₀.tMax.at i = if needed s₀ i = 0 then Big.M else firstT G s₀ i
  inK : ∀ i, InClosed G i (s₀.oIdx.at i) (o.at i)

omit [Big] in
theorem range_pos {sp : Spec d ℝ} (hsp : SpecOK sp) {o e : Vec d ℝ} (hne : o ≠ e) : 0 < range sp o e := by
  unfold range
  apply Real.sqrt_pos.mpr
  apply hsp.sq_pos
  by_contra hall
  apply hne
  apply vec_ext
  intro i
  by_contra hi
  apply hall
  refine ⟨i, ?_⟩
  simp only [at_build]
  intro h0
  apply hi
  linarith

theorem fresh_facts {lo hi : Vec d ℝ} {r : ℝ} (hG : GridOK lo hi r) {sp : Spec d ℝ} (hsp : SpecOK sp)
    (s : State d ℝ) {o e : Vec d ℝ} (ho : InExtent lo hi o) (he : InExtent lo hi e) (hne : o ≠ e)
    (hM : range sp o e < Big.M) :
    RayFacts (mkGrid lo hi r) o e (range sp o e) (setEnd sp (mkGrid lo hi r) (setOrigin (mkGrid lo hi r) s o) e) := by
  set G := mkGrid lo hi r with hGdef
  set s₁ := setOrigin G s o with hs₁
  set s₀ := setEnd sp G s₁ e with hs₀
  set R := range sp o e with hR
  have hRpos : 0 < R := range_pos hsp hne
  have hs₁o : s₁.o = o := rfl
  have hs₁K : s₁.oIdx = cellIndexes G o := rfl
  have hK : ∀ i, s₀.oIdx.at i = (cellIndexes G o).at i := fun i => rfl
  have hE : ∀ i, s₀.eIdx.at i = (cellIndexes G e).at i := fun i => rfl
  have hdir : ∀ i, s₀.dir.at i = (e.at i - o.at i) / R := fun i => by
    rw [hs₀, setEnd_dir, hs₁o]
  have hstep : ∀ i, s₀.step.at i = sgn (s₀.dir.at i) := fun i => setEnd_step sp G s₁ e i
  have hspecK := fun i => cellIndexes_spec hG o ho i
  have hspecE := fun i => cellIndexes_spec hG e he i
  have hGr : G.r = r := rfl
  have hidx : ∀ i, 0 ≤ s₀.oIdx.at i ∧ s₀.oIdx.at i < 2 ^ 29 ∧ 0 ≤ s₀.eIdx.at i ∧ s₀.eIdx.at i < 2 ^ 29 := by
    intro i
    have hk := hspecK i
    have he' := hspecE i
    simp only [] at hk he'
    rw [hK i, hE i]
    refine ⟨hk.2.2.1, lt_trans hk.2.2.2 ?_, he'.2.2.1, lt_trans he'.2.2.2 ?_⟩ <;>
      (rw [mkGrid_n hG]; exact hG.hfit i)
  have hstill : ∀ i, s₀.step.at i = 0 → e.at i = o.at i ∧ s₀.eIdx.at i = s₀.oIdx.at i := by
    intro i hst
    have hD0 : s₀.dir.at i = 0 := by
      have := hstep i
      rw [hst] at this
      unfold sgn at this
      by_contra hne0
      rcases lt_or_gt_of_ne hne0 with h | h
      · simp [h, not_lt.mpr h.le] at this
      · simp [h] at this
    have heq : e.at i = o.at i := by
      have := hdir i
      rw [hD0] at this
      have : e.at i - o.at i = 0 := by
        rcases div_eq_zero_iff.mp this.symm with h | h
        · exact h
        · exact absurd h hRpos.ne'
      linarith
    refine ⟨heq, ?_⟩
    rw [hK i, hE i]
    simp only [cellIndexes, at_build, heq]
  have hrem : ∀ i, s₀.rem.at i = needed s₀ i := by
    intro i
    have := setEnd_rem sp G s₁ e i
    rw [← hs₀] at this
    rw [this]
    obtain ⟨h1, h2, h3, h4⟩ := hidx i
    have e1 : (cellIndexes G e).at i = s₀.eIdx.at i := (hE i).symm
    have e2 : s₁.oIdx.at i = s₀.oIdx.at i := rfl
    rw [e1, e2, toInt32_id h3 (lt_trans h4 (by norm_num)), toInt32_id h1 (lt_trans h2 (by norm_num)), iabs_eq]
    unfold needed
    simp
  refine ⟨hRpos, hM, ?_, ?_, hstill, hidx, hrem, ?_, ?_⟩
  · intro i
    rw [hstep i]; unfold sgn
    split_ifs <;> simp
  · intro i hmov
    have hδ := setEnd_tDelta sp G s₁ e i
    rw [← hs₀, if_pos hmov] at hδ
    have hT : firstT G s₀ i = (centre1 G i (s₀.oIdx.at i) + ((s₀.step.at i : Int) : ℝ) * G.r * (1 / 2) - o.at i)
        / s₀.dir.at i := rfl
    rw [centre1_eq] at hT
    have hk := hspecK i
    have he' := hspecE i
    simp only [] at hk he'
    rw [← hGdef] at hk he'
    unfold face at hk he' hT
    by_cases hpos : 0 < s₀.dir.at i
    · have hσ : s₀.step.at i = 1 := by rw [hstep i]; unfold sgn; simp [hpos]
      rw [hσ] at hT ⊢
      refine axis_pos (D := s₀.dir.at i) hG.hr hRpos (hdir i) hpos ?_ hδ ?_ ?_
      · rw [hT]
      · rw [hK i]; exact ⟨hk.1, by push_cast at hk; exact hk.2.1⟩
      · rw [hE i]; exact ⟨he'.1, by push_cast at he'; exact he'.2.1⟩
    · have hneg : s₀.dir.at i < 0 := by
        rcases lt_trichotomy (s₀.dir.at i) 0 with h | h | h
        · exact h
        · exfalso; apply hmov; rw [hstep i]; unfold sgn; simp [h]
        · exact absurd h hpos
      have hσ : s₀.step.at i = -1 := by
        rw [hstep i]; unfold sgn; simp [hneg, not_lt.mpr hneg.le]
      rw [hσ] at hT ⊢
      refine axis_neg (D := s₀.dir.at i) hG.hr hRpos (hdir i) hneg ?_ hδ ?_ ?_
      · rw [hT]
      · rw [hK i]; exact ⟨hk.1, by push_cast at hk; exact hk.2.1⟩
      · rw [hE i]; exact ⟨he'.1, by push_cast at he'; exact he'.2.1⟩
  · intro i
    have hT := setEnd_tMax sp G s₁ e i
    rw [← hs₀, hrem i] at hT
    rw [hT]
    by_cases h0 : needed s₀ i = 0
    · simp [h0]
    · have hmov : s₀.step.at i ≠ 0 := by
        intro hst
        apply h0
        unfold needed
        rw [(hstill i hst).2]; simp
      simp [h0, hmov]
  · intro i
    have hk := hspecK i
    simp only [] at hk
    rw [← hGdef] at hk
    rw [hK i]
    exact ⟨hk.1, hk.2.1.le⟩

end Romea.RayCast
