import RomeaProofs.Lemmas.C04Bridge
import Mathlib.Analysis.Matrix.Order
import Mathlib.LinearAlgebra.Matrix.NonsingularInverse

/-!
# C04: the SVD contract and what the estimator's rotation step makes of it

`IsSVD A r` is the contract under which `Eigen::JacobiSVD` enters the theorems (DESIGN 2.3): `U`, `V` orthogonal,
`S` non-negative and descending, `A = U · diag S · Vᵀ`.  Everything here holds for EVERY `r` with the contract.
-/
namespace Romea.Registration
open Matrix
open scoped MatrixOrder

variable {d : Nat}

/-- the contract of the singular value decomposition oracle -/
structure IsSVD (A : Matrix (Fin d) (Fin d) ℝ) (r : SVD d ℝ) : Prop where
  U_orth : (Matrix.of r.U)ᵀ * Matrix.of r.U = 1
  V_orth : (Matrix.of r.V)ᵀ * Matrix.of r.V = 1
  S_nonneg : ∀ i, 0 ≤ r.S i
  S_antitone : ∀ i j, i ≤ j → r.S j ≤ r.S i
  factor : A = Matrix.of r.U * Matrix.diagonal r.S * (Matrix.of r.V)ᵀ

/-- `diag(1, …, 1, -1)`: right multiplication negates the last column -/
def flipLast (d : Nat) : Matrix (Fin d) (Fin d) ℝ := Matrix.diagonal (fun j => if j.1 + 1 = d then -1 else 1)

/-- `v` after the determinant correction (cpp:121-123) -/
noncomputable def corrected (U V : Matrix (Fin d) (Fin d) ℝ) : Matrix (Fin d) (Fin d) ℝ :=
  if U.det * V.det < 0 then V * flipLast d else V

/-- the rotation step of the model in matrix form: `R = V' Uᵀ` -/
theorem rotationOf_eq (svd : Mat d d ℝ → SVD d ℝ) (C : Mat d d ℝ) :
    Matrix.of (rotationOf d svd C).toFn =
      corrected (Matrix.of (svd C).U) (Matrix.of (svd C).V) * (Matrix.of (svd C).U)ᵀ := by
  ext i j
  unfold rotationOf corrected
  simp only [Tab2.toFn_ofFn, det_eq, zero_real, one_real, Matrix.of_apply]
  by_cases h : (Matrix.of (svd C).U).det * (Matrix.of (svd C).V).det < 0
  · simp only [h, if_true, Tab2.get_get_ofFn, sumFin_eq]
    rw [Matrix.mul_apply]
    apply Finset.sum_congr rfl
    intro k _
    rw [flipLast, Matrix.mul_diagonal]
    by_cases hk : k.1 + 1 = d <;> simp [hk]
  · simp only [h, if_false, Tab2.get_get_ofFn, sumFin_eq, Matrix.mul_apply, Matrix.transpose_apply, Matrix.of_apply]

theorem orth_mul_transpose {X : Matrix (Fin d) (Fin d) ℝ} (h : Xᵀ * X = 1) : X * Xᵀ = 1 :=
  mul_eq_one_comm.mp h

theorem orth_det_sq {X : Matrix (Fin d) (Fin d) ℝ} (h : Xᵀ * X = 1) : X.det * X.det = 1 := by
  have := congrArg Matrix.det h
  simpa [Matrix.det_mul, Matrix.det_transpose] using this

theorem orth_det_cases {X : Matrix (Fin d) (Fin d) ℝ} (h : Xᵀ * X = 1) : X.det = 1 ∨ X.det = -1 := by
  have h2 := orth_det_sq h
  have : (X.det - 1) * (X.det + 1) = 0 := by ring_nf; nlinarith
  rcases mul_eq_zero.mp this with h1 | h1
  · left; linarith
  · right; linarith

theorem flipLast_orth : (flipLast d)ᵀ * flipLast d = 1 := by
  unfold flipLast
  rw [Matrix.diagonal_transpose, Matrix.diagonal_mul_diagonal, ← Matrix.diagonal_one]
  congr 1
  funext j
  by_cases hj : j.1 + 1 = d <;> simp [hj]

theorem flipLast_det (hd : 0 < d) : (flipLast d).det = -1 := by
  unfold flipLast
  rw [Matrix.det_diagonal]
  have hlt : d - 1 < d := by omega
  rw [Finset.prod_eq_single (⟨d - 1, hlt⟩ : Fin d)]
  · simp; omega
  · intro b _ hb
    have : b.1 + 1 ≠ d := by
      intro h; apply hb; apply Fin.ext; simp; omega
    simp [this]
  · intro h; exact absurd (Finset.mem_univ _) h

theorem det_pos_of_dim_zero (hd : d = 0) (X : Matrix (Fin d) (Fin d) ℝ) : X.det = 1 := by
  subst hd; simp

/-- the corrected `V` is orthogonal and `det (V' Uᵀ) = 1` -/
theorem corrected_spec {U V : Matrix (Fin d) (Fin d) ℝ} (hU : Uᵀ * U = 1) (hV : Vᵀ * V = 1) :
    (corrected U V)ᵀ * corrected U V = 1 ∧ (corrected U V).det * U.det = 1 := by
  unfold corrected
  by_cases h : U.det * V.det < 0
  · simp only [h, if_true]
    have hd : 0 < d := by
      rcases Nat.eq_zero_or_pos d with h0 | h0
      · rw [det_pos_of_dim_zero h0 U, det_pos_of_dim_zero h0 V] at h; norm_num at h
      · exact h0
    constructor
    · rw [Matrix.transpose_mul, Matrix.mul_assoc, ← Matrix.mul_assoc Vᵀ, hV, Matrix.one_mul, flipLast_orth]
    · rw [Matrix.det_mul, flipLast_det hd]
      rcases orth_det_cases hU with hu | hu <;> rcases orth_det_cases hV with hv | hv <;>
        (rw [hu, hv] at h ⊢; first | (exfalso; norm_num at h; done) | norm_num)
  · simp only [h, if_false]
    refine ⟨hV, ?_⟩
    rcases orth_det_cases hU with hu | hu <;> rcases orth_det_cases hV with hv | hv <;>
        (rw [hu, hv] at h ⊢; first | (exfalso; norm_num at h; done) | norm_num)

/-- Theorem 1 in matrix form: `R = V' Uᵀ` is orthogonal with determinant `+1`, for every oracle with the contract -/
theorem rotation_proper {U V : Matrix (Fin d) (Fin d) ℝ} (hU : Uᵀ * U = 1) (hV : Vᵀ * V = 1) :
    (corrected U V * Uᵀ)ᵀ * (corrected U V * Uᵀ) = 1 ∧ (corrected U V * Uᵀ).det = 1 := by
  obtain ⟨h1, h2⟩ := corrected_spec hU hV
  constructor
  · rw [Matrix.transpose_mul, Matrix.transpose_transpose, Matrix.mul_assoc, ← Matrix.mul_assoc (corrected U V)ᵀ, h1,
      Matrix.one_mul, orth_mul_transpose hU]
  · rw [Matrix.det_mul, Matrix.det_transpose, h2]

/-- columns other than the last are untouched by the correction -/
theorem corrected_col {U V : Matrix (Fin d) (Fin d) ℝ} (i j : Fin d) (hj : j.1 + 1 ≠ d) : corrected U V i j = V i j := by
  unfold corrected
  by_cases h : U.det * V.det < 0
  · simp [h, flipLast, Matrix.mul_diagonal, hj]
  · simp [h]

end Romea.Registration
