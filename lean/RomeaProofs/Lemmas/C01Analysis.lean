import Mathlib.Analysis.SpecialFunctions.Trigonometric.Arctan
import Mathlib.Analysis.SpecialFunctions.Trigonometric.Bounds
import Mathlib.Analysis.SpecialFunctions.Trigonometric.Deriv
import Mathlib.Analysis.SpecialFunctions.Sqrt
import Mathlib.Analysis.Calculus.MeanValue
import Mathlib.Analysis.Real.Pi.Bounds
import Mathlib.Tactic.Linarith
import Mathlib.Tactic.Ring
import Mathlib.Tactic.FieldSimp
import Mathlib.Tactic.Positivity
import Mathlib.Tactic.LinearCombination

/-!
# Real-analysis lemmas for C01 (contraction of the latitude iteration)

Pure statements about real functions; no model definitions here.
-/
namespace Romea.C01Analysis
open Real

/-- `|arctan z| ≤ |z|` -/
theorem abs_arctan_le (z : ℝ) : |arctan z| ≤ |z| := by
  have key : ∀ z : ℝ, 0 ≤ z → arctan z ≤ z := by
    intro z hz
    have h0 : 0 ≤ arctan z := by rw [← arctan_zero]; exact arctan_strictMono.monotone hz
    have := le_tan h0 (arctan_lt_pi_div_two z)
    rwa [tan_arctan] at this
  rcases le_total 0 z with hz | hz
  · have h0 : 0 ≤ arctan z := by rw [← arctan_zero]; exact arctan_strictMono.monotone hz
    rw [abs_of_nonneg h0, abs_of_nonneg hz]; exact key z hz
  · have h0 : arctan z ≤ 0 := by rw [← arctan_zero]; exact arctan_strictMono.monotone hz
    rw [abs_of_nonpos h0, abs_of_nonpos hz, ← arctan_neg]; exact key (-z) (by linarith)

/-- difference of two arctangents whose arguments have the same sign -/
theorem abs_arctan_sub_le {x y : ℝ} (h : 0 ≤ x * y) : |arctan x - arctan y| ≤ |x - y| / (1 + x * y) := by
  have h1 : x * -y < 1 := by nlinarith
  have := arctan_add h1
  rw [arctan_neg] at this
  have e : arctan x - arctan y = arctan ((x - y) / (1 + x * y)) := by
    rw [sub_eq_add_neg, this]; congr 1; ring
  rw [e]
  refine le_trans (abs_arctan_le _) ?_
  rw [abs_div, abs_of_pos (by linarith : (0 : ℝ) < 1 + x * y)]

/-- `w e2 φ = cos φ / sqrt (1 - e2 sin² φ)` (cosine of the reduced latitude) -/
noncomputable def w (e2 φ : ℝ) : ℝ := cos φ / Real.sqrt (1 - e2 * (sin φ * sin φ))

theorem radicand_ge {e2 : ℝ} (h0 : 0 ≤ e2) (φ : ℝ) : 1 - e2 ≤ 1 - e2 * (sin φ * sin φ) := by
  have hs : sin φ * sin φ ≤ 1 := by nlinarith [sin_sq_add_cos_sq φ, sq_nonneg (cos φ)]
  nlinarith

theorem radicand_le_one {e2 : ℝ} (h0 : 0 ≤ e2) (φ : ℝ) : 1 - e2 * (sin φ * sin φ) ≤ 1 := by
  nlinarith [mul_self_nonneg (sin φ)]

theorem hasDerivAt_w {e2 : ℝ} (h0 : 0 ≤ e2) (h1 : e2 < 1) (φ : ℝ) :
    HasDerivAt (w e2) (-(sin φ * (1 - e2)) / Real.sqrt (1 - e2 * (sin φ * sin φ)) ^ 3) φ := by
  have hw : 0 < 1 - e2 * (sin φ * sin φ) := lt_of_lt_of_le (by linarith) (radicand_ge h0 φ)
  have hs := hasDerivAt_sin φ
  have hc := hasDerivAt_cos φ
  have d1 : HasDerivAt (fun x => 1 - e2 * (sin x * sin x)) (-(e2 * (cos φ * sin φ + sin φ * cos φ))) φ :=
    ((hs.mul hs).const_mul e2).const_sub 1
  have d2 := d1.sqrt hw.ne'
  have hW : Real.sqrt (1 - e2 * (sin φ * sin φ)) ≠ 0 := (Real.sqrt_pos.mpr hw).ne'
  have d3 := hc.div d2 hW
  have hW2 : Real.sqrt (1 - e2 * (sin φ * sin φ)) ^ 2 = 1 - e2 * (sin φ * sin φ) := Real.sq_sqrt hw.le
  have h1' := sin_sq_add_cos_sq φ
  have d4 : HasDerivAt (w e2) _ φ := d3
  refine d4.congr_deriv ?_
  generalize Real.sqrt (1 - e2 * (sin φ * sin φ)) = W at *
  field_simp
  linear_combination (-(2 * sin φ)) * hW2 + (2 * sin φ * e2) * h1'

/-- `w` is Lipschitz with constant `1 / sqrt (1 - e2)` -/
theorem w_lipschitz {e2 : ℝ} (h0 : 0 ≤ e2) (h1 : e2 < 1) (x y : ℝ) :
    |w e2 x - w e2 y| ≤ |x - y| / Real.sqrt (1 - e2) := by
  have hk : 0 < 1 - e2 := by linarith
  have hsk := Real.sqrt_pos.mpr hk
  have bound : ∀ φ ∈ (Set.univ : Set ℝ), ‖deriv (w e2) φ‖ ≤ 1 / Real.sqrt (1 - e2) := by
    intro φ _
    rw [(hasDerivAt_w h0 h1 φ).deriv, Real.norm_eq_abs]
    have hw : 0 < 1 - e2 * (sin φ * sin φ) := lt_of_lt_of_le hk (radicand_ge h0 φ)
    have hW := Real.sqrt_pos.mpr hw
    have hWge : Real.sqrt (1 - e2) ≤ Real.sqrt (1 - e2 * (sin φ * sin φ)) := Real.sqrt_le_sqrt (radicand_ge h0 φ)
    rw [abs_div, abs_of_pos (pow_pos hW 3), div_le_div_iff₀ (pow_pos hW 3) hsk, one_mul]
    have hs : |sin φ| ≤ 1 := abs_sin_le_one φ
    have : |-(sin φ * (1 - e2))| ≤ 1 - e2 := by
      rw [abs_neg, abs_mul, abs_of_pos hk]; nlinarith [abs_nonneg (sin φ)]
    have h3 : Real.sqrt (1 - e2) ^ 3 ≤ Real.sqrt (1 - e2 * (sin φ * sin φ)) ^ 3 :=
      pow_le_pow_left₀ hsk.le hWge 3
    have h4 : Real.sqrt (1 - e2) ^ 3 = (1 - e2) * Real.sqrt (1 - e2) := by
      have := Real.sq_sqrt hk.le
      calc Real.sqrt (1 - e2) ^ 3 = Real.sqrt (1 - e2) ^ 2 * Real.sqrt (1 - e2) := by ring
        _ = (1 - e2) * Real.sqrt (1 - e2) := by rw [this]
    calc |-(sin φ * (1 - e2))| * Real.sqrt (1 - e2) ≤ (1 - e2) * Real.sqrt (1 - e2) :=
          mul_le_mul_of_nonneg_right this hsk.le
      _ = Real.sqrt (1 - e2) ^ 3 := h4.symm
      _ ≤ _ := h3
  have := convex_univ.norm_image_sub_le_of_norm_deriv_le
    (fun φ _ => (hasDerivAt_w h0 h1 φ).differentiableAt) bound (Set.mem_univ y) (Set.mem_univ x)
  rw [Real.norm_eq_abs, Real.norm_eq_abs] at this
  calc |w e2 x - w e2 y| ≤ 1 / Real.sqrt (1 - e2) * |x - y| := this
    _ = |x - y| / Real.sqrt (1 - e2) := by ring

/-- `|w| ≤ |cos φ| / sqrt (1 - e2)` -/
theorem abs_w_le {e2 : ℝ} (h0 : 0 ≤ e2) (h1 : e2 < 1) (φ : ℝ) : |w e2 φ| ≤ |cos φ| / Real.sqrt (1 - e2) := by
  have hk : 0 < 1 - e2 := by linarith
  have hw : 0 < 1 - e2 * (sin φ * sin φ) := lt_of_lt_of_le hk (radicand_ge h0 φ)
  unfold w
  rw [abs_div, abs_of_pos (Real.sqrt_pos.mpr hw)]
  exact div_le_div_of_nonneg_left (abs_nonneg _) (Real.sqrt_pos.mpr hk) (Real.sqrt_le_sqrt (radicand_ge h0 φ))

/-- `|w| ≤ 1` -/
theorem abs_w_le_one {e2 : ℝ} (h0 : 0 ≤ e2) (h1 : e2 < 1) (φ : ℝ) : |w e2 φ| ≤ 1 := by
  have hk : 0 < 1 - e2 := by linarith
  have hw : 0 < 1 - e2 * (sin φ * sin φ) := lt_of_lt_of_le hk (radicand_ge h0 φ)
  unfold w
  rw [abs_div, abs_of_pos (Real.sqrt_pos.mpr hw), div_le_one (Real.sqrt_pos.mpr hw)]
  apply Real.le_sqrt_of_sq_le
  rw [sq_abs]
  nlinarith [sin_sq_add_cos_sq φ, mul_self_nonneg (sin φ)]

/-- the latitude iteration map in normal form: `g φ = arctan (t / (1 - c · w φ))` -/
noncomputable def g (e2 c t φ : ℝ) : ℝ := arctan (t / (1 - c * w e2 φ))

/-- core Lipschitz estimate: if both denominators are at least `Dmin > 0` and `|t| c ≤ K (Dmin² + t²)`,
    then `|g x - g y| ≤ K / sqrt(1 - e2) · |x - y|` -/
theorem g_lipschitz_core {e2 c t Dmin K x y : ℝ} (h0 : 0 ≤ e2) (h1 : e2 < 1) (hc : 0 ≤ c)
    (hDmin : 0 < Dmin) (hx : Dmin ≤ 1 - c * w e2 x) (hy : Dmin ≤ 1 - c * w e2 y)
    (hK0 : 0 ≤ K) (hK : |t| * c ≤ K * (Dmin ^ 2 + t ^ 2)) :
    |g e2 c t x - g e2 c t y| ≤ K / Real.sqrt (1 - e2) * |x - y| := by
  unfold g
  set Dx := 1 - c * w e2 x with hDx
  set Dy := 1 - c * w e2 y with hDy
  have hDx0 : 0 < Dx := lt_of_lt_of_le hDmin hx
  have hDy0 : 0 < Dy := lt_of_lt_of_le hDmin hy
  have hprod : 0 ≤ t / Dx * (t / Dy) := by
    have : t / Dx * (t / Dy) = t ^ 2 / (Dx * Dy) := by field_simp
    rw [this]; positivity
  refine le_trans (abs_arctan_sub_le hprod) ?_
  have e1 : t / Dx - t / Dy = t * c * (w e2 x - w e2 y) / (Dx * Dy) := by
    field_simp; rw [hDx, hDy]; ring
  have e2' : 1 + t / Dx * (t / Dy) = (Dx * Dy + t ^ 2) / (Dx * Dy) := by field_simp
  have hden : 0 < Dx * Dy + t ^ 2 := by positivity
  have hDD : Dmin ^ 2 ≤ Dx * Dy := by nlinarith
  rw [e1, e2', abs_div, abs_of_pos (mul_pos hDx0 hDy0), div_div_div_cancel_right₀ (mul_pos hDx0 hDy0).ne',
    abs_mul, abs_mul, abs_of_nonneg hc]
  have hw := w_lipschitz h0 h1 x y
  have hsk : 0 < Real.sqrt (1 - e2) := Real.sqrt_pos.mpr (by linarith)
  rw [div_le_iff₀ hden]
  have h3 : |t| * c ≤ K * (Dx * Dy + t ^ 2) := le_trans hK (by nlinarith)
  calc |t| * c * |w e2 x - w e2 y| ≤ K * (Dx * Dy + t ^ 2) * |w e2 x - w e2 y| :=
        mul_le_mul_of_nonneg_right h3 (abs_nonneg _)
    _ ≤ K * (Dx * Dy + t ^ 2) * (|x - y| / Real.sqrt (1 - e2)) :=
        mul_le_mul_of_nonneg_left hw (by positivity)
    _ = K / Real.sqrt (1 - e2) * |x - y| * (Dx * Dy + t ^ 2) := by ring

/-- two arctangents `arctan (t / D)` with both denominators in [0.993, 1] differ by at most 0.01 -/
theorem arctan_div_close {t D0 Ds : ℝ} (h0lo : 0.993 ≤ D0) (h0hi : D0 ≤ 1) (hslo : 0.993 ≤ Ds) (hshi : Ds ≤ 1) :
    |arctan (t / D0) - arctan (t / Ds)| ≤ 0.01 := by
  have hD0pos : 0 < D0 := by linarith
  have hDspos : 0 < Ds := by linarith
  have hprod : 0 ≤ t / D0 * (t / Ds) := by
    have : t / D0 * (t / Ds) = t ^ 2 / (D0 * Ds) := by field_simp
    rw [this]; positivity
  refine le_trans (abs_arctan_sub_le hprod) ?_
  have e1 : t / D0 - t / Ds = t * (Ds - D0) / (D0 * Ds) := by field_simp
  have e2' : 1 + t / D0 * (t / Ds) = (D0 * Ds + t ^ 2) / (D0 * Ds) := by field_simp
  rw [e1, e2', abs_div, abs_of_pos (mul_pos hD0pos hDspos),
    div_div_div_cancel_right₀ (mul_pos hD0pos hDspos).ne', abs_mul, div_le_iff₀ (by positivity)]
  have hdD : |Ds - D0| ≤ 0.007 := by rw [abs_le]; constructor <;> linarith
  have hDD : 0.95 ^ 2 ≤ D0 * Ds := by nlinarith
  have h3 : 1.9 * |t| ≤ D0 * Ds + t ^ 2 := by
    have := sq_nonneg (|t| - 0.95); rw [← sq_abs t]; nlinarith
  nlinarith [abs_nonneg t, abs_nonneg (Ds - D0)]

/-- `cos` of an angle within 89.9° of the equator is at least 0.001745 -/
theorem cos_ge_of_abs_le {lat : ℝ} (h : |lat| ≤ 89.9 * π / 180) : 0.001745 ≤ cos lat := by
  have hpi := pi_gt_d4
  have hpi' := pi_lt_d4
  rw [← cos_abs]
  have h0 : 0 ≤ |lat| := abs_nonneg _
  have hle : cos (89.9 * π / 180) ≤ cos |lat| :=
    cos_le_cos_of_nonneg_of_le_pi h0 (by nlinarith) h
  have e : cos (89.9 * π / 180) = sin (π / 1800) := by
    rw [← sin_pi_div_two_sub]; congr 1; ring
  have hx : 0 ≤ π / 1800 := by positivity
  have := sin_ge_sub_cube hx
  have hx1 : π / 1800 ≥ 3.1415 / 1800 := by linarith
  have hx2 : π / 1800 ≤ 3.1416 / 1800 := by linarith
  have hcube : (π / 1800) ^ 3 ≤ (3.1416 / 1800) ^ 3 := pow_le_pow_left₀ hx hx2 3
  rw [e] at hle
  have : (0.001745 : ℝ) ≤ π / 1800 - (π / 1800) ^ 3 / 6 := by
    have : (3.1416 / 1800 : ℝ) ^ 3 / 6 ≤ 1e-9 := by norm_num
    have h4 : (3.1415 / 1800 : ℝ) ≥ 0.0017452 := by norm_num
    linarith
  linarith

/-- near a latitude with `cos lat ≥ 0.001745`, a perturbation of at most `1e-13 rad` keeps the cosine above
    0.001744 and changes `1 / cos` by a relative `5.74e-11` at most -/
theorem inv_cos_close {lat φ : ℝ} (hC : 0.001745 ≤ cos lat) (hδ : |φ - lat| ≤ 1e-13) :
    0.001744 ≤ cos φ ∧ |cos lat / cos φ - 1| ≤ 5.74e-11 ∧ |sin (φ - lat)| / cos φ ≤ 5.74e-11 := by
  have h1 := abs_cos_sub_cos_le φ lat
  have h2 : |cos φ - cos lat| ≤ 1e-13 := le_trans h1 hδ
  obtain ⟨h3, h4⟩ := abs_le.mp h2
  have hc : 0.001744 ≤ cos φ := by linarith
  have hcpos : 0 < cos φ := by linarith
  refine ⟨hc, ?_, ?_⟩
  · have : cos lat / cos φ - 1 = (cos lat - cos φ) / cos φ := by field_simp
    rw [this, abs_div, abs_of_pos hcpos, div_le_iff₀ hcpos, abs_sub_comm]
    nlinarith
  · rw [div_le_iff₀ hcpos]
    have : |sin (φ - lat)| ≤ 1e-13 := le_trans abs_sin_le_abs hδ
    nlinarith

/-- `1 / sqrt (1 - e2 sin²)` changes by at most `1e-15` under a latitude perturbation of `1e-13 rad` -/
theorem inv_W_close {e2 lat φ : ℝ} (h0 : 0 ≤ e2) (he : e2 ≤ 579 / 84100) (hδ : |φ - lat| ≤ 1e-13) :
    |1 / Real.sqrt (1 - e2 * (sin φ * sin φ)) - 1 / Real.sqrt (1 - e2 * (sin lat * sin lat))| ≤ 1e-15 := by
  have hk : (0.9965 : ℝ) ^ 2 ≤ 1 - e2 := by nlinarith
  have hr : ∀ x : ℝ, 0.9965 ≤ Real.sqrt (1 - e2 * (sin x * sin x)) := fun x =>
    Real.le_sqrt_of_sq_le (le_trans hk (radicand_ge h0 x))
  have hw : ∀ x : ℝ, 0 < 1 - e2 * (sin x * sin x) := fun x =>
    lt_of_lt_of_le (by nlinarith) (radicand_ge h0 x)
  set W1 := Real.sqrt (1 - e2 * (sin φ * sin φ)) with hW1
  set W2 := Real.sqrt (1 - e2 * (sin lat * sin lat)) with hW2
  have h1 : 0.9965 ≤ W1 := hr φ
  have h2 : 0.9965 ≤ W2 := hr lat
  have s1 : W1 ^ 2 = 1 - e2 * (sin φ * sin φ) := Real.sq_sqrt (hw φ).le
  have s2 : W2 ^ 2 = 1 - e2 * (sin lat * sin lat) := Real.sq_sqrt (hw lat).le
  have hss : |sin φ * sin φ - sin lat * sin lat| ≤ 2e-13 := by
    have : sin φ * sin φ - sin lat * sin lat = (sin φ - sin lat) * (sin φ + sin lat) := by ring
    rw [this, abs_mul]
    have ha : |sin φ - sin lat| ≤ 1e-13 := le_trans (abs_sin_sub_sin_le φ lat) hδ
    have hb : |sin φ + sin lat| ≤ 2 := by
      have := abs_add_le (sin φ) (sin lat)
      linarith [abs_sin_le_one φ, abs_sin_le_one lat]
    calc |sin φ - sin lat| * |sin φ + sin lat| ≤ 1e-13 * 2 :=
          mul_le_mul ha hb (abs_nonneg _) (by norm_num)
      _ = 2e-13 := by norm_num
  have hdiff : 1 / W1 - 1 / W2 = (W2 ^ 2 - W1 ^ 2) / ((W2 + W1) * W1 * W2) := by
    have : W1 ≠ 0 := by linarith
    have : W2 ≠ 0 := by linarith
    have : W2 + W1 ≠ 0 := by linarith
    field_simp; ring
  have hnum : |W2 ^ 2 - W1 ^ 2| ≤ 579 / 84100 * 2e-13 := by
    rw [s1, s2]
    have : 1 - e2 * (sin lat * sin lat) - (1 - e2 * (sin φ * sin φ)) = e2 * (sin φ * sin φ - sin lat * sin lat) := by ring
    rw [this, abs_mul, abs_of_nonneg h0]
    exact mul_le_mul he hss (abs_nonneg _) (by norm_num)
  have hden : 1.97 ≤ (W2 + W1) * W1 * W2 := by
    have : 1.993 ≤ W2 + W1 := by linarith
    nlinarith
  rw [hdiff, abs_div, abs_of_pos (by linarith : (0 : ℝ) < (W2 + W1) * W1 * W2), div_le_iff₀ (by linarith)]
  nlinarith

end Romea.C01Analysis
