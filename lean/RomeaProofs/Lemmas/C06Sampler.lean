import RomeaModel.Sampler
import RomeaProofs.RealInst
import RomeaProofs.RN
import Mathlib.Tactic.Linarith
import Mathlib.Tactic.NormNum
import Mathlib.Tactic.Positivity
import Mathlib.Algebra.BigOperators.Group.List.Basic
import Mathlib.Algebra.Order.BigOperators.Group.List

/-!
# Lemmas about the RANSAC sampler model (`RomeaModel/Sampler.lean`) — helpers of `Properties/C06.lean`
-/
namespace Romea.C06
open Romea.Sampler

/-- the point scalar and `double` are both `ℝ` in the theorems: the conversions are the identity -/
instance instWidenReal : Widen ℝ ℝ := ⟨id, id⟩

@[simp] theorem widen_up_real (x : ℝ) : (Widen.up x : ℝ) = x := rfl
@[simp] theorem widen_down_real (x : ℝ) : (Widen.down x : ℝ) = x := rfl
@[simp] theorem zero_real : (Sampler.zero : ℝ) = 0 := by simp [Sampler.zero]
@[simp] theorem one_real : (Sampler.one : ℝ) = 1 := by simp [Sampler.one]

/-! ## The engine -/

/-- a legitimate state of `minstd_rand0`: `1 ≤ x ≤ 2^31 − 2` -/
def InRange (x : Nat) : Prop := 1 ≤ x ∧ x ≤ lcgM - 1

theorem lcg_coprime : Nat.Coprime lcgM lcgA := by decide

theorem next_inRange {x : Nat} (h : InRange x) : InRange (next x) := by
  obtain ⟨h1, h2⟩ := h
  have hM : lcgM = 2147483647 := rfl
  unfold InRange next
  constructor
  · rw [Nat.one_le_iff_ne_zero]
    intro h0
    have hd : lcgM ∣ lcgA * x := Nat.dvd_of_mod_eq_zero h0
    have hx : lcgM ∣ x := (Nat.Coprime.dvd_mul_left lcg_coprime).mp hd
    have := Nat.le_of_dvd (by omega) hx
    omega
  · have := Nat.mod_lt (lcgA * x) (show 0 < lcgM by decide)
    omega

theorem iterate_next_inRange {x : Nat} (h : InRange x) (n : Nat) : InRange (next^[n] x) := by
  induction n generalizing x with
  | zero => simpa using h
  | succ n ih => rw [Function.iterate_succ_apply]; exact ih (next_inRange h)

theorem seed_inRange (s : Nat) : InRange (seed s) := by
  unfold seed InRange
  have hM : lcgM = 2147483647 := rfl
  split_ifs with h
  · omega
  · have := Nat.mod_lt s (show 0 < lcgM by decide)
    omega

theorem engineInit_eq : engineInit = 1 := by decide

theorem next_one : next 1 = 16807 := by decide

theorem canonCalls_eq : canonCalls = 2 := by decide
theorem canonR_eq : canonR = 2147483646 := by decide

/-! ## `generate_canonical` over the reals -/

/-- closed form of the two-call loop -/
theorem canonLoop_two (x : Nat) :
    canonLoop (α := ℝ) 2 x 0 1 =
      (next (next x), ((next x - 1 : Nat) : ℝ) + ((next (next x) - 1 : Nat) : ℝ) * 2147483646, 2147483646 * 2147483646) := by
  simp [canonLoop, engineMin, canonR_eq]

theorem canon_sum_bounds {x : Nat} (h : InRange x) :
    0 < ((next x - 1 : Nat) : ℝ) + ((next (next x) - 1 : Nat) : ℝ) * 2147483646 ∧
    ((next x - 1 : Nat) : ℝ) + ((next (next x) - 1 : Nat) : ℝ) * 2147483646 < 2147483646 * 2147483646 := by
  have h1 := next_inRange h
  have h2 := next_inRange h1
  have hM : lcgM = 2147483647 := rfl
  obtain ⟨a1, a2⟩ := h1
  obtain ⟨b1, b2⟩ := h2
  have ha : ((next x - 1 : Nat) : ℝ) ≤ 2147483645 := by
    have : next x - 1 ≤ 2147483645 := by omega
    exact_mod_cast this
  have hb : ((next (next x) - 1 : Nat) : ℝ) ≤ 2147483645 := by
    have : next (next x) - 1 ≤ 2147483645 := by omega
    exact_mod_cast this
  have ha0 : (0 : ℝ) ≤ ((next x - 1 : Nat) : ℝ) := Nat.cast_nonneg _
  have hb0 : (0 : ℝ) ≤ ((next (next x) - 1 : Nat) : ℝ) := Nat.cast_nonneg _
  constructor
  · -- not both outputs equal to `min() = 1`: the successor of 1 is 16807
    by_cases hx : next x = 1
    · have : next (next x) = 16807 := by rw [hx]; exact next_one
      rw [this]; norm_num; positivity
    · have : 1 ≤ next x - 1 := by omega
      have : (1 : ℝ) ≤ ((next x - 1 : Nat) : ℝ) := by exact_mod_cast this
      nlinarith
  · nlinarith

/-- `generate_canonical<double,53>` over the reals, from a legitimate engine state: two engine steps, the value is
    `((g₁ − 1) + (g₂ − 1)·r) / r²` with `r = 2^31 − 2`, the `nextafter` clamp is not taken -/
theorem generateCanonical_real {x : Nat} (h : InRange x) :
    generateCanonical (α := ℝ) x =
      (next (next x), (((next x - 1 : Nat) : ℝ) + ((next (next x) - 1 : Nat) : ℝ) * 2147483646) / (2147483646 * 2147483646)) := by
  obtain ⟨hp, hl⟩ := canon_sum_bounds h
  unfold generateCanonical
  simp only [canonCalls_eq, zero_real, one_real, canonLoop_two]
  have : ¬ ((1 : ℝ) ≤ (((next x - 1 : Nat) : ℝ) + ((next (next x) - 1 : Nat) : ℝ) * 2147483646) / (2147483646 * 2147483646)) := by
    rw [not_le, div_lt_one (by norm_num)]
    exact hl
  rw [if_neg this]

theorem uniform01_real {x : Nat} (h : InRange x) :
    uniform01 (α := ℝ) x =
      (next (next x), (((next x - 1 : Nat) : ℝ) + ((next (next x) - 1 : Nat) : ℝ) * 2147483646) / (2147483646 * 2147483646)) := by
  unfold uniform01
  simp [generateCanonical_real h]

theorem uniform01_range {x : Nat} (h : InRange x) :
    0 < (uniform01 (α := ℝ) x).2 ∧ (uniform01 (α := ℝ) x).2 < 1 ∧ (uniform01 (α := ℝ) x).1 = next (next x) := by
  obtain ⟨hp, hl⟩ := canon_sum_bounds h
  rw [uniform01_real h]
  refine ⟨div_pos hp (by norm_num), ?_, rfl⟩
  rw [div_lt_one (by norm_num)]
  exact hl

/-! ## Partial sums and cumulative weights over the reals -/

theorem psFrom_length {α : Type} [Add α] (acc : α) (l : List α) : (psFrom acc l).length = l.length := by
  induction l generalizing acc with
  | nil => rfl
  | cons y ys ih => simp [psFrom, ih]

theorem partialSums_length {α : Type} [Add α] (l : List α) : (partialSums l).length = l.length := by
  cases l with
  | nil => rfl
  | cons x xs => simp [partialSums, psFrom_length]

theorem psFrom_getElem (acc : ℝ) (l : List ℝ) (i : Nat) (h : i < l.length) :
    (psFrom acc l)[i]'(by rw [psFrom_length]; exact h) = acc + (l.take (i + 1)).sum := by
  induction l generalizing acc i with
  | nil => simp at h
  | cons y ys ih =>
    cases i with
    | zero => simp [psFrom]
    | succ j =>
      simp only [psFrom, List.getElem_cons_succ, List.take_succ_cons, List.sum_cons]
      rw [ih (acc + y) j (by simpa using h)]
      ring

/-- the `i`-th partial sum is the sum of the first `i + 1` weights -/
theorem partialSums_getElem (l : List ℝ) (i : Nat) (h : i < l.length) :
    (partialSums l)[i]'(by rw [partialSums_length]; exact h) = (l.take (i + 1)).sum := by
  cases l with
  | nil => simp at h
  | cons x xs =>
    cases i with
    | zero => simp [partialSums]
    | succ j =>
      simp only [partialSums, List.getElem_cons_succ, List.take_succ_cons, List.sum_cons]
      exact psFrom_getElem x xs j (by simpa using h)

theorem partialSums_getLast? (l : List ℝ) (h : l ≠ []) : (partialSums l).getLast? = some l.sum := by
  have hl : 0 < l.length := List.length_pos_iff.mpr h
  have hp : (partialSums l).length = l.length := partialSums_length l
  rw [List.getLast?_eq_getElem?, hp]
  rw [List.getElem?_eq_getElem (by rw [hp]; omega)]
  rw [partialSums_getElem l (l.length - 1) (by omega)]
  congr 1
  rw [show l.length - 1 + 1 = l.length by omega, List.take_length]

theorem cumSum_nil : cumSum ([] : List ℝ) = [] := rfl

theorem cumSum_eq (l : List ℝ) (h : l ≠ []) : cumSum l = (partialSums l).map (fun s => s / l.sum) := by
  unfold cumSum
  simp only [partialSums_getLast? l h]

theorem cumSum_length (l : List ℝ) : (cumSum l).length = l.length := by
  by_cases h : l = []
  · subst h; rfl
  · rw [cumSum_eq l h, List.length_map, partialSums_length]

theorem cumSum_getElem (l : List ℝ) (i : Nat) (h : i < l.length) :
    (cumSum l)[i]'(by rw [cumSum_length]; exact h) = (l.take (i + 1)).sum / l.sum := by
  have hne : l ≠ [] := by intro e; subst e; simp at h
  simp only [cumSum_eq l hne, List.getElem_map]
  rw [partialSums_getElem l i h]

theorem sum_take_nonneg (l : List ℝ) (hl : ∀ x ∈ l, 0 ≤ x) (i : Nat) : 0 ≤ (l.take i).sum :=
  List.sum_nonneg (fun x hx => hl x (List.mem_of_mem_take hx))

theorem sum_take_succ' (l : List ℝ) (i : Nat) (h : i < l.length) :
    (l.take (i + 1)).sum = (l.take i).sum + l[i] := by
  exact List.sum_take_succ l i h

theorem sum_take_mono (l : List ℝ) (hl : ∀ x ∈ l, 0 ≤ x) {i j : Nat} (hij : i ≤ j) :
    (l.take i).sum ≤ (l.take j).sum := by
  induction j with
  | zero => have : i = 0 := by omega
            subst this; exact le_refl _
  | succ k ih =>
    rcases Nat.lt_or_ge i (k + 1) with h | h
    · have hik : i ≤ k := by omega
      by_cases hk : k < l.length
      · rw [sum_take_succ' l k hk]
        have := hl l[k] (List.getElem_mem hk)
        linarith [ih hik]
      · have e1 : l.take (k + 1) = l := List.take_of_length_le (by omega)
        have e2 : l.take k = l := List.take_of_length_le (by omega)
        rw [e1]; rw [e2] at ih; exact ih hik
    · have : i = k + 1 := by omega
      subst this; exact le_refl _

theorem sum_take_le_sum (l : List ℝ) (hl : ∀ x ∈ l, 0 ≤ x) (i : Nat) : (l.take i).sum ≤ l.sum := by
  have := sum_take_mono l hl (show i ≤ max i l.length from le_max_left _ _)
  rwa [List.take_of_length_le (le_max_right _ _)] at this

/-! ## `std::lower_bound` returns the partition point of any "true then false" predicate `cum[j] < u` -/

section Search
variable {α : Type} [LT α] [DecidableLT α]

/-- the comparison `*middle < val` at position `j` -/
def Below (cum : List α) (u : α) (j : Nat) : Prop := cum.getD j u < u

theorem lowerBoundFrom_unfold (cum : List α) (u : α) (first len : Nat) :
    lowerBoundFrom cum u first len =
      if len = 0 then first
      else if cum.getD (first + len / 2) u < u then lowerBoundFrom cum u (first + len / 2 + 1) (len - len / 2 - 1)
      else lowerBoundFrom cum u first (len / 2) := by
  rw [lowerBoundFrom]
  by_cases h0 : len = 0
  · simp [h0]
  · simp [h0]

theorem lowerBoundFrom_spec (cum : List α) (u : α)
    (hdown : ∀ i j, i ≤ j → j < cum.length → Below cum u j → Below cum u i)
    (len : Nat) : ∀ first, first + len ≤ cum.length →
      (∀ j, j < first → Below cum u j) → (∀ j, first + len ≤ j → j < cum.length → ¬ Below cum u j) →
      first ≤ lowerBoundFrom cum u first len ∧ lowerBoundFrom cum u first len ≤ first + len ∧
      (∀ j, j < lowerBoundFrom cum u first len → Below cum u j) ∧
      (∀ j, lowerBoundFrom cum u first len ≤ j → j < cum.length → ¬ Below cum u j) := by
  induction len using Nat.strong_induction_on with
  | _ len ih =>
    intro first hle hlo hhi
    rw [lowerBoundFrom_unfold]
    split_ifs with h0 hlt
    · subst h0
      exact ⟨le_refl _, by omega, hlo, fun j hj hjl => hhi j (by omega) hjl⟩
    · -- `*middle < val`: continue right of `middle`
      have hmid : first + len / 2 < cum.length := by omega
      have hB : Below cum u (first + len / 2) := hlt
      obtain ⟨a, b, c, d⟩ := ih (len - len / 2 - 1) (by omega) (first + len / 2 + 1) (by omega)
        (fun j hj => hdown j (first + len / 2) (by omega) hmid hB)
        (fun j hj hjl => hhi j (by omega) hjl)
      exact ⟨by omega, by omega, c, d⟩
    · -- `!(*middle < val)`: continue left of `middle`
      have hmid : first + len / 2 < cum.length := by omega
      have hB : ¬ Below cum u (first + len / 2) := hlt
      obtain ⟨a, b, c, d⟩ := ih (len / 2) (by omega) first (by omega) hlo
        (fun j hj hjl hBj => hB (hdown (first + len / 2) j hj hjl hBj))
      exact ⟨a, by omega, c, d⟩

/-- **the search is correct**: on a list on which `cum[j] < u` is downward closed (in particular a non-decreasing one)
    `std::lower_bound` returns the partition point: every position before it compares below `u`, no position from it
    on does; the result is at most the length. -/
theorem lowerBound_spec (cum : List α) (u : α)
    (hdown : ∀ i j, i ≤ j → j < cum.length → Below cum u j → Below cum u i) :
    lowerBound cum u ≤ cum.length ∧ (∀ j, j < lowerBound cum u → Below cum u j) ∧
    (∀ j, lowerBound cum u ≤ j → j < cum.length → ¬ Below cum u j) := by
  obtain ⟨_, b, c, d⟩ := lowerBoundFrom_spec cum u hdown cum.length 0 (by omega) (fun j hj => absurd hj (by omega))
    (fun j hj hjl => absurd hjl (by omega))
  exact ⟨by simpa [lowerBound] using b, c, d⟩

/-- if no position compares below `u` (every comparison with a NaN is false) the search returns 0 -/
theorem lowerBound_eq_zero_of_none_below (cum : List α) (u : α) (h : ∀ j, j < cum.length → ¬ Below cum u j) :
    lowerBound cum u = 0 := by
  obtain ⟨a, b, _⟩ := lowerBound_spec cum u (fun i j hij hj hB => absurd hB (h j hj))
  by_contra hne
  have hpos : 0 < lowerBound cum u := Nat.pos_of_ne_zero hne
  exact h 0 (by omega) (b 0 hpos)

end Search

/-! ## The drawn index over the reals: in bounds, positive weight -/

theorem cumSum_below_iff (w : List ℝ) (u : ℝ) (j : Nat) (hj : j < w.length) :
    Below (cumSum w) u j ↔ (w.take (j + 1)).sum / w.sum < u := by
  unfold Below
  have hj' : j < (cumSum w).length := by rw [cumSum_length]; exact hj
  have e : (cumSum w).getD j u = (cumSum w)[j] := by simp [List.getD_eq_getElem?_getD, hj']
  rw [e, cumSum_getElem w j hj]

theorem cumSum_down_closed (w : List ℝ) (hw : ∀ x ∈ w, 0 ≤ x) (hs : 0 < w.sum) (u : ℝ) :
    ∀ i j, i ≤ j → j < (cumSum w).length → Below (cumSum w) u j → Below (cumSum w) u i := by
  intro i j hij hj hB
  rw [cumSum_length] at hj
  rw [cumSum_below_iff w u j hj] at hB
  rw [cumSum_below_iff w u i (by omega)]
  refine lt_of_le_of_lt ?_ hB
  exact div_le_div_of_nonneg_right (sum_take_mono w hw (by omega)) (le_of_lt hs)

/-- the index drawn for a variate `u ∈ (0, 1)` from non-negative weights with positive total -/
theorem drawIndex_spec (w : List ℝ) (hw : ∀ x ∈ w, 0 ≤ x) (hs : 0 < w.sum) (u : ℝ) (hu0 : 0 < u) (hu1 : u < 1) :
    ∃ h : lowerBound (cumSum w) u < w.length,
      0 < w[lowerBound (cumSum w) u] ∧
      (w.take (lowerBound (cumSum w) u)).sum / w.sum < u ∧
      u ≤ (w.take (lowerBound (cumSum w) u + 1)).sum / w.sum := by
  obtain ⟨a, b, c⟩ := lowerBound_spec (cumSum w) u (cumSum_down_closed w hw hs u)
  rw [cumSum_length] at a c
  have hne : w ≠ [] := by intro e; subst e; simp at hs
  have hlen : 0 < w.length := List.length_pos_iff.mpr hne
  -- the last cumulative weight is 1 ≥ u: the result cannot be the length
  have hlt : lowerBound (cumSum w) u < w.length := by
    by_contra hge
    have hB := b (w.length - 1) (by omega)
    rw [cumSum_below_iff w u _ (by omega), show w.length - 1 + 1 = w.length by omega, List.take_length,
      div_self (ne_of_gt hs)] at hB
    linarith
  refine ⟨hlt, ?_, ?_, ?_⟩
  · -- positive weight
    have hnb := c _ (le_refl _) hlt
    rw [cumSum_below_iff w u _ hlt, not_lt, sum_take_succ' w _ hlt] at hnb
    by_cases h0 : lowerBound (cumSum w) u = 0
    · have e : (w.take (lowerBound (cumSum w) u)).sum = 0 := by rw [h0]; simp
      rw [e, zero_add] at hnb
      have : 0 < w[lowerBound (cumSum w) u] / w.sum := lt_of_lt_of_le hu0 hnb
      exact (div_pos_iff_of_pos_right hs).mp this
    · have hB := b (lowerBound (cumSum w) u - 1) (by omega)
      rw [cumSum_below_iff w u _ (by omega),
        show lowerBound (cumSum w) u - 1 + 1 = lowerBound (cumSum w) u by omega] at hB
      have hlt' : (w.take (lowerBound (cumSum w) u)).sum / w.sum <
          ((w.take (lowerBound (cumSum w) u)).sum + w[lowerBound (cumSum w) u]) / w.sum := lt_of_lt_of_le hB hnb
      rw [div_lt_div_iff_of_pos_right hs] at hlt'
      linarith
  · by_cases h0 : lowerBound (cumSum w) u = 0
    · rw [h0]; simpa using hu0
    · have hB := b (lowerBound (cumSum w) u - 1) (by omega)
      rwa [cumSum_below_iff w u _ (by omega),
        show lowerBound (cumSum w) u - 1 + 1 = lowerBound (cumSum w) u by omega] at hB
  · have hnb := c _ (le_refl _) hlt
    rwa [cumSum_below_iff w u _ hlt, not_lt] at hnb

theorem drawIndex_spec' (w : List ℝ) (hw : ∀ x ∈ w, 0 ≤ x) (hs : 0 < w.sum) (u : ℝ) (hu0 : 0 < u) (hu1 : u < 1) :
    lowerBound (cumSum w) u < w.length ∧ 0 < w.getD (lowerBound (cumSum w) u) 0 := by
  obtain ⟨h, hp, _, _⟩ := drawIndex_spec w hw hs u hu0 hu1
  refine ⟨h, ?_⟩
  have e : w.getD (lowerBound (cumSum w) u) 0 = w[lowerBound (cumSum w) u] := by
    simp [List.getD_eq_getElem?_getD, h]
  rw [e]; exact hp

/-- a variate `u ≤ 0` selects index 0 whatever its weight (the only way to draw a zero-weight correspondence while
    the total is positive; `uniform01_range` shows the engine never produces it) -/
theorem drawIndex_of_nonpos (w : List ℝ) (hw : ∀ x ∈ w, 0 ≤ x) (hs : 0 < w.sum) (u : ℝ) (hu : u ≤ 0) :
    lowerBound (cumSum w) u = 0 := by
  apply lowerBound_eq_zero_of_none_below
  intro j hj
  rw [cumSum_length] at hj
  rw [cumSum_below_iff w u j hj, not_lt]
  exact le_trans hu (div_nonneg (sum_take_nonneg w hw _) (le_of_lt hs))

/-! ## The down-weighting factor and `updateWeights_` over the reals -/

/-- over the reals the three association orders give the plain sum -/
theorem sumOrdered_eq_sum (o : SumOrder) (l : List ℝ) : sumOrdered o l = l.sum := by
  induction l with
  | nil => simp [sumOrdered]
  | cons a t ih =>
    match t, ih with
    | [], _ => simp [sumOrdered]
    | [b], _ => simp [sumOrdered]
    | [b, c], _ => cases o <;> simp [sumOrdered] <;> ring
    | [b, c, d], _ => cases o <;> simp [sumOrdered] <;> ring
    | b :: c :: d :: e :: r, ih => simp only [sumOrdered, ih, List.sum_cons]

theorem scaledSquares_nonneg (scale p q : List ℝ) : ∀ x ∈ scaledSquares scale p q, 0 ≤ x := by
  intro x hx
  unfold scaledSquares at hx
  rw [List.mem_iff_getElem] at hx
  obtain ⟨i, hi, rfl⟩ := hx
  rw [List.getElem_zipWith]
  exact mul_self_nonneg _

/-- the factor `1 − exp(−Σ((p − q)·scale)²)` lies in `[0, 1)` -/
theorem downWeight_range (o : SumOrder) (scale p q : List ℝ) :
    0 ≤ downWeight (α := ℝ) o scale p q ∧ downWeight (α := ℝ) o scale p q < 1 := by
  unfold downWeight
  simp only [widen_up_real, one_real, trans_exp, sumOrdered_eq_sum]
  have h0 : 0 ≤ (scaledSquares scale p q).sum := List.sum_nonneg (scaledSquares_nonneg scale p q)
  have h1 : Real.exp (-(scaledSquares scale p q).sum) ≤ 1 := Real.exp_le_one_iff.mpr (by linarith)
  have h2 : 0 < Real.exp (-(scaledSquares scale p q).sum) := Real.exp_pos _
  constructor <;> linarith

/-- the factor vanishes exactly when the scaled difference does (coincident source points, or differing only along an axis
    whose scale is 0) -/
theorem downWeight_pos_iff (o : SumOrder) (scale p q : List ℝ) :
    0 < downWeight (α := ℝ) o scale p q ↔ 0 < (scaledSquares scale p q).sum := by
  unfold downWeight
  simp only [widen_up_real, one_real, trans_exp, sumOrdered_eq_sum]
  rw [sub_pos, Real.exp_lt_one_iff]
  constructor <;> intro h <;> linarith

/-- target index of the `i`-th correspondence (0 out of range) -/
def tgtAt (corrs : List (Corr ℝ)) (i : Nat) : Nat := match corrs[i]? with
  | some c => c.tgt
  | none => 0
/-- source index of the `i`-th correspondence (0 out of range) -/
def srcAt (corrs : List (Corr ℝ)) (i : Nat) : Nat := match corrs[i]? with
  | some c => c.src
  | none => 0

theorem tgtAt_of_lt (corrs : List (Corr ℝ)) (i : Nat) (h : i < corrs.length) : tgtAt corrs i = corrs[i].tgt := by
  simp [tgtAt, h]
theorem srcAt_of_lt (corrs : List (Corr ℝ)) (i : Nat) (h : i < corrs.length) : srcAt corrs i = corrs[i].src := by
  simp [srcAt, h]

theorem updateWeights_length (o : SumOrder) (scale : List ℝ) (pts : Array (List ℝ)) (corrs : List (Corr ℝ))
    (idx : Nat) (w : List ℝ) (hl : w.length = corrs.length) :
    (updateWeights o scale pts corrs idx w).length = corrs.length := by
  unfold updateWeights
  cases h : corrs[idx]? with
  | none => simpa using hl
  | some d => simp [hl]

/-- entry `n` of the updated weights, for a draw `idx` in range -/
theorem updateWeights_getElem (o : SumOrder) (scale : List ℝ) (pts : Array (List ℝ)) (corrs : List (Corr ℝ))
    (idx : Nat) (w : List ℝ) (hl : w.length = corrs.length) (hidx : idx < corrs.length) (n : Nat) (hn : n < corrs.length) :
    (updateWeights o scale pts corrs idx w)[n]'(by rw [updateWeights_length o scale pts corrs idx w hl]; exact hn) =
      if corrs[n].tgt = corrs[idx].tgt then 0
      else w[n] * downWeight (α := ℝ) o scale (pointAt pts corrs[n].src) (pointAt pts corrs[idx].src) := by
  unfold updateWeights
  have h : corrs[idx]? = some corrs[idx] := List.getElem?_eq_getElem hidx
  simp only [h, List.getElem_zipWith, zero_real]

/-- an out-of-range draw leaves the weights alone (undefined behaviour in C++; never reached, `drawIndex_spec`) -/
theorem updateWeights_oob (o : SumOrder) (scale : List ℝ) (pts : Array (List ℝ)) (corrs : List (Corr ℝ))
    (idx : Nat) (w : List ℝ) (hidx : corrs.length ≤ idx) : updateWeights o scale pts corrs idx w = w := by
  unfold updateWeights
  have h : corrs[idx]? = none := List.getElem?_eq_none hidx
  simp only [h]

/-- every updated weight lies between 0 and its previous value -/
theorem updateWeights_bounds (o : SumOrder) (scale : List ℝ) (pts : Array (List ℝ)) (corrs : List (Corr ℝ))
    (idx : Nat) (w : List ℝ) (hl : w.length = corrs.length) (hw : ∀ x ∈ w, 0 ≤ x) (n : Nat) (hn : n < corrs.length) :
    0 ≤ (updateWeights o scale pts corrs idx w)[n]'(by rw [updateWeights_length o scale pts corrs idx w hl]; exact hn) ∧
    (updateWeights o scale pts corrs idx w)[n]'(by rw [updateWeights_length o scale pts corrs idx w hl]; exact hn) ≤
      w[n]'(by rw [hl]; exact hn) := by
  have hwn : 0 ≤ w[n]'(by rw [hl]; exact hn) := hw _ (List.getElem_mem _)
  rcases Nat.lt_or_ge idx corrs.length with hidx | hidx
  · rw [updateWeights_getElem o scale pts corrs idx w hl hidx n hn]
    split_ifs
    · exact ⟨le_refl _, hwn⟩
    · obtain ⟨d0, d1⟩ := downWeight_range o scale (pointAt pts corrs[n].src) (pointAt pts corrs[idx].src)
      exact ⟨mul_nonneg hwn d0, by nlinarith⟩
  · simp only [updateWeights_oob o scale pts corrs idx w hidx]
    exact ⟨hwn, le_refl _⟩

/-! ## Invariants of the drawing loop -/

theorem getD_of_lt (l : List ℝ) (n : Nat) (h : n < l.length) : l.getD n 0 = l[n] := by
  simp [List.getD_eq_getElem?_getD, h]

/-- what every pass of the loop preserves, collapsed or not: a legitimate engine state, the sizes, the cumulative weights
    in step with the weights, every weight between 0 and the value loaded from its correspondence (`W0`) -/
structure Base (corrs : List (Corr ℝ)) (W0 : List ℝ) (st : State ℝ ℝ) : Prop where
  eng : InRange st.engine
  len : st.weights.length = corrs.length
  cum : st.cum = cumSum st.weights
  bnd : ∀ n, n < corrs.length → 0 ≤ st.weights.getD n 0 ∧ st.weights.getD n 0 ≤ W0.getD n 0

/-- every correspondence sharing its target index with a drawn one (`D`) has weight 0 -/
def Zeroed (corrs : List (Corr ℝ)) (D : List Nat) (st : State ℝ ℝ) : Prop :=
  ∀ d ∈ D, d < corrs.length ∧ ∀ n, n < corrs.length → tgtAt corrs n = tgtAt corrs d → st.weights.getD n 0 = 0

theorem Base.nonneg {corrs : List (Corr ℝ)} {W0 : List ℝ} {st : State ℝ ℝ} (h : Base corrs W0 st) :
    ∀ x ∈ st.weights, 0 ≤ x := by
  intro x hx
  rw [List.mem_iff_getElem] at hx
  obtain ⟨i, hi, rfl⟩ := hx
  have := (h.bnd i (by rw [← h.len]; exact hi)).1
  rwa [getD_of_lt _ _ hi] at this

theorem drawStep_fst (o : SumOrder) (pts : Array (List ℝ)) (corrs : List (Corr ℝ)) (st : State ℝ ℝ) :
    (drawStep o pts corrs st).1 =
      { st with engine := (uniform01 (α := ℝ) st.engine).1,
                weights := updateWeights o st.scale pts corrs (drawStep o pts corrs st).2 st.weights,
                cum := cumSum (updateWeights o st.scale pts corrs (drawStep o pts corrs st).2 st.weights) } := rfl

theorem drawStep_snd (o : SumOrder) (pts : Array (List ℝ)) (corrs : List (Corr ℝ)) (st : State ℝ ℝ) :
    (drawStep o pts corrs st).2 = lowerBound st.cum (uniform01 (α := ℝ) st.engine).2 := rfl

theorem drawStep_scale (o : SumOrder) (pts : Array (List ℝ)) (corrs : List (Corr ℝ)) (st : State ℝ ℝ) :
    (drawStep o pts corrs st).1.scale = st.scale := rfl

theorem drawStep_engine (o : SumOrder) (pts : Array (List ℝ)) (corrs : List (Corr ℝ)) (st : State ℝ ℝ)
    (h : InRange st.engine) : (drawStep o pts corrs st).1.engine = next (next st.engine) := by
  rw [drawStep_fst]; exact (uniform01_range h).2.2

/-- one pass preserves `Base` (whether or not the weights have collapsed) -/
theorem drawStep_base (o : SumOrder) (pts : Array (List ℝ)) (corrs : List (Corr ℝ)) (W0 : List ℝ) (st : State ℝ ℝ)
    (h : Base corrs W0 st) : Base corrs W0 (drawStep o pts corrs st).1 := by
  have hlen := updateWeights_length o st.scale pts corrs (drawStep o pts corrs st).2 st.weights h.len
  refine ⟨?_, ?_, ?_, ?_⟩
  · rw [drawStep_engine o pts corrs st h.eng]; exact next_inRange (next_inRange h.eng)
  · rw [drawStep_fst]; exact hlen
  · rw [drawStep_fst]
  · intro n hn
    rw [drawStep_fst]
    simp only
    obtain ⟨b0, b1⟩ := updateWeights_bounds o st.scale pts corrs (drawStep o pts corrs st).2 st.weights h.len h.nonneg n hn
    rw [getD_of_lt _ _ (by rw [hlen]; exact hn)]
    refine ⟨b0, le_trans b1 ?_⟩
    have := (h.bnd n hn).2
    rwa [getD_of_lt _ _ (by rw [h.len]; exact hn)] at this

/-- zeros stay zeros: `Zeroed D` survives any pass -/
theorem drawStep_zeroed_old (o : SumOrder) (pts : Array (List ℝ)) (corrs : List (Corr ℝ)) (W0 : List ℝ) (D : List Nat)
    (st : State ℝ ℝ) (h : Base corrs W0 st) (hz : Zeroed corrs D st) : Zeroed corrs D (drawStep o pts corrs st).1 := by
  intro d hd
  obtain ⟨hdl, hdz⟩ := hz d hd
  refine ⟨hdl, fun n hn ht => ?_⟩
  have hlen := updateWeights_length o st.scale pts corrs (drawStep o pts corrs st).2 st.weights h.len
  obtain ⟨b0, b1⟩ := updateWeights_bounds o st.scale pts corrs (drawStep o pts corrs st).2 st.weights h.len h.nonneg n hn
  have hz0 := hdz n hn ht
  rw [getD_of_lt _ _ (by rw [h.len]; exact hn)] at hz0
  rw [drawStep_fst]
  simp only
  rw [getD_of_lt _ _ (by rw [hlen]; exact hn)]
  linarith

/-- one pass while some weight is still positive: the drawn index is in range, its weight was positive (so its target
    differs from every target drawn before, and its loaded weight was positive), and afterwards every correspondence
    sharing its target has weight 0 -/
theorem drawStep_alive (o : SumOrder) (pts : Array (List ℝ)) (corrs : List (Corr ℝ)) (W0 : List ℝ) (D : List Nat)
    (st : State ℝ ℝ) (h : Base corrs W0 st) (hz : Zeroed corrs D st) (hs : 0 < st.weights.sum) :
    (drawStep o pts corrs st).2 < corrs.length ∧
    0 < st.weights.getD (drawStep o pts corrs st).2 0 ∧
    (∀ d ∈ D, tgtAt corrs (drawStep o pts corrs st).2 ≠ tgtAt corrs d) ∧
    Zeroed corrs (D ++ [(drawStep o pts corrs st).2]) (drawStep o pts corrs st).1 := by
  obtain ⟨u0, u1, _⟩ := uniform01_range h.eng
  have hidx : (drawStep o pts corrs st).2 = lowerBound (cumSum st.weights) (uniform01 (α := ℝ) st.engine).2 := by
    rw [drawStep_snd, h.cum]
  obtain ⟨hlt, hposD⟩ := drawIndex_spec' st.weights h.nonneg hs _ u0 u1
  rw [← hidx] at hlt hposD
  have hlt' : (drawStep o pts corrs st).2 < corrs.length := by rw [← h.len]; exact hlt
  refine ⟨hlt', hposD, ?_, ?_⟩
  · intro d hd heq
    have := (hz d hd).2 _ hlt' heq
    linarith
  · intro d hd
    rcases List.mem_append.mp hd with hd | hd
    · exact drawStep_zeroed_old o pts corrs W0 D st h hz d hd
    · have hd' : d = (drawStep o pts corrs st).2 := by simpa using hd
      subst hd'
      refine ⟨hlt', fun n hn ht => ?_⟩
      have hlen := updateWeights_length o st.scale pts corrs (drawStep o pts corrs st).2 st.weights h.len
      rw [drawStep_fst]
      simp only
      rw [getD_of_lt _ _ (by rw [hlen]; exact hn),
        updateWeights_getElem o st.scale pts corrs _ st.weights h.len hlt' n hn]
      rw [tgtAt_of_lt corrs n hn, tgtAt_of_lt corrs _ hlt'] at ht
      rw [if_pos ht]

/-- "no collapse during the next `k` draws": before each of them some weight is still positive -/
def NoCollapse (o : SumOrder) (pts : Array (List ℝ)) (corrs : List (Corr ℝ)) : Nat → State ℝ ℝ → Prop
  | 0, _ => True
  | k + 1, st => 0 < st.weights.sum ∧ NoCollapse o pts corrs k (drawStep o pts corrs st).1

theorem drawLoop_succ (o : SumOrder) (pts : Array (List ℝ)) (corrs : List (Corr ℝ)) (k : Nat) (st : State ℝ ℝ) :
    drawLoop o pts corrs (k + 1) st =
      ((drawLoop o pts corrs k (drawStep o pts corrs st).1).1,
        (drawStep o pts corrs st).2 :: (drawLoop o pts corrs k (drawStep o pts corrs st).1).2) := rfl

theorem drawLoop_length (o : SumOrder) (pts : Array (List ℝ)) (corrs : List (Corr ℝ)) (k : Nat) (st : State ℝ ℝ) :
    (drawLoop o pts corrs k st).2.length = k := by
  induction k generalizing st with
  | zero => rfl
  | succ k ih => rw [drawLoop_succ]; simp [ih]

theorem drawLoop_base (o : SumOrder) (pts : Array (List ℝ)) (corrs : List (Corr ℝ)) (W0 : List ℝ) (k : Nat)
    (st : State ℝ ℝ) (h : Base corrs W0 st) : Base corrs W0 (drawLoop o pts corrs k st).1 := by
  induction k generalizing st with
  | zero => exact h
  | succ k ih => rw [drawLoop_succ]; exact ih _ (drawStep_base o pts corrs W0 st h)

theorem drawLoop_engine (o : SumOrder) (pts : Array (List ℝ)) (corrs : List (Corr ℝ)) (k : Nat)
    (st : State ℝ ℝ) (h : InRange st.engine) : (drawLoop o pts corrs k st).1.engine = next^[2 * k] st.engine := by
  induction k generalizing st with
  | zero => rfl
  | succ k ih =>
    rw [drawLoop_succ]
    simp only
    rw [ih _ (by rw [drawStep_engine o pts corrs st h]; exact next_inRange (next_inRange h)),
      drawStep_engine o pts corrs st h, show 2 * (k + 1) = 2 * k + 1 + 1 by ring,
      Function.iterate_succ_apply, Function.iterate_succ_apply]

theorem drawLoop_scale (o : SumOrder) (pts : Array (List ℝ)) (corrs : List (Corr ℝ)) (k : Nat) (st : State ℝ ℝ) :
    (drawLoop o pts corrs k st).1.scale = st.scale := by
  induction k generalizing st with
  | zero => rfl
  | succ k ih => rw [drawLoop_succ]; simp only; rw [ih, drawStep_scale]

/-- the loop while no collapse occurs: all drawn indexes in range with positive loaded weight, their targets distinct from
    each other and from the targets drawn before (`D`), and `Zeroed` for all of them at the end -/
theorem drawLoop_alive (o : SumOrder) (pts : Array (List ℝ)) (corrs : List (Corr ℝ)) (W0 : List ℝ) (k : Nat) :
    ∀ (D : List Nat) (st : State ℝ ℝ), Base corrs W0 st → Zeroed corrs D st → NoCollapse o pts corrs k st →
      (∀ i ∈ (drawLoop o pts corrs k st).2, i < corrs.length ∧ 0 < W0.getD i 0 ∧ ∀ d ∈ D, tgtAt corrs i ≠ tgtAt corrs d) ∧
      ((drawLoop o pts corrs k st).2.map (tgtAt corrs)).Nodup ∧
      Zeroed corrs (D ++ (drawLoop o pts corrs k st).2) (drawLoop o pts corrs k st).1 := by
  induction k with
  | zero =>
    intro D st _ hz _
    simp only [drawLoop, List.not_mem_nil, false_imp_iff, implies_true, List.map_nil, List.nodup_nil, List.append_nil,
      true_and]
    exact hz
  | succ k ih =>
    intro D st hb hz hn
    obtain ⟨hs, hn'⟩ := hn
    obtain ⟨a1, a2, a3, a4⟩ := drawStep_alive o pts corrs W0 D st hb hz hs
    obtain ⟨b1, b2, b3⟩ := ih (D ++ [(drawStep o pts corrs st).2]) _ (drawStep_base o pts corrs W0 st hb) a4 hn'
    rw [drawLoop_succ]
    refine ⟨?_, ?_, ?_⟩
    · intro i hi
      rcases List.mem_cons.mp hi with rfl | hi
      · refine ⟨a1, ?_, a3⟩
        have := (hb.bnd _ a1).2
        linarith
      · obtain ⟨c1, c2, c3⟩ := b1 i hi
        exact ⟨c1, c2, fun d hd => c3 d (List.mem_append_left _ hd)⟩
    · simp only [List.map_cons, List.nodup_cons]
      refine ⟨?_, b2⟩
      intro hmem
      obtain ⟨i, hi, he⟩ := List.mem_map.mp hmem
      exact (b1 i hi).2.2 _ (List.mem_append_right _ (List.mem_singleton.mpr rfl)) he
    · simpa [List.append_assoc] using b3

/-! ## `drawPoints`: the reloaded state -/

/-- the state `drawPoints` starts its loop from (:63-68): weights reloaded from the correspondences -/
noncomputable def reload (st : State ℝ ℝ) (corrs : List (Corr ℝ)) : State ℝ ℝ :=
  { st with weights := corrs.map (·.weight), cum := cumSum (corrs.map (·.weight)) }

theorem drawPoints_eq (o : SumOrder) (st : State ℝ ℝ) (pts : Array (List ℝ)) (corrs : List (Corr ℝ)) (k : Nat) :
    st.drawPoints o pts corrs k = drawLoop o pts corrs k (reload st corrs) := rfl

theorem reload_base (st : State ℝ ℝ) (corrs : List (Corr ℝ)) (he : InRange st.engine)
    (hw : ∀ c ∈ corrs, 0 ≤ c.weight) : Base corrs (corrs.map (·.weight)) (reload st corrs) := by
  refine ⟨he, by simp [reload], rfl, ?_⟩
  intro n hn
  have hl : n < (corrs.map (·.weight)).length := by simpa using hn
  simp only [reload]
  rw [getD_of_lt _ _ hl]
  refine ⟨?_, le_refl _⟩
  simp only [List.getElem_map]
  exact hw _ (List.getElem_mem _)

theorem zeroed_nil (corrs : List (Corr ℝ)) (st : State ℝ ℝ) : Zeroed corrs [] st := by
  intro d hd; simp at hd

/-! ## One-to-one lists with distinct (scaled) source positions never collapse -/

theorem exists_not_mem_of_length_lt (D : List Nat) (n : Nat) (hlt : D.length < n) :
    ∃ i, i < n ∧ i ∉ D := by
  by_contra hcon
  have hsub : List.range n ⊆ D := fun i hi => by
    by_contra h
    exact hcon ⟨i, List.mem_range.mp hi, h⟩
  have := (List.subperm_of_subset List.nodup_range hsub).length_le
  rw [List.length_range] at this
  omega

theorem sum_pos_of_getD_pos (w : List ℝ) (hw : ∀ x ∈ w, 0 ≤ x) (i : Nat) (hi : i < w.length) (hp : 0 < w.getD i 0) :
    0 < w.sum := by
  rw [getD_of_lt w i hi] at hp
  exact lt_of_lt_of_le hp (List.single_le_sum hw _ (List.getElem_mem hi))

/-- hypotheses on the input of one `drawPoints` call under which the weights cannot collapse -/
structure WellSpread (scale : List ℝ) (pts : Array (List ℝ)) (corrs : List (Corr ℝ)) : Prop where
  /-- every correspondence has a positive weight -/
  wpos : ∀ c ∈ corrs, 0 < c.weight
  /-- pairwise distinct target indexes -/
  tgt_inj : ∀ i j, i < corrs.length → j < corrs.length → tgtAt corrs i = tgtAt corrs j → i = j
  /-- the source points of two different correspondences differ along an axis on which `scale_` is non-zero -/
  spread : ∀ i j, i < corrs.length → j < corrs.length → i ≠ j →
    0 < (scaledSquares scale (pointAt pts (srcAt corrs i)) (pointAt pts (srcAt corrs j))).sum

/-- every correspondence not drawn yet still has a positive weight -/
def Alive (corrs : List (Corr ℝ)) (D : List Nat) (st : State ℝ ℝ) : Prop :=
  ∀ n, n < corrs.length → n ∉ D → 0 < st.weights.getD n 0

theorem noCollapse_of_wellSpread (o : SumOrder) (pts : Array (List ℝ)) (corrs : List (Corr ℝ)) (W0 scale : List ℝ)
    (hws : WellSpread scale pts corrs) (k : Nat) :
    ∀ (D : List Nat) (st : State ℝ ℝ), Base corrs W0 st → Zeroed corrs D st → Alive corrs D st → st.scale = scale →
      D.Nodup → D.length + k ≤ corrs.length → NoCollapse o pts corrs k st := by
  induction k with
  | zero => intros; trivial
  | succ k ih =>
    intro D st hb hz ha hsc hD hlen
    obtain ⟨i, hi, hiD⟩ := exists_not_mem_of_length_lt D corrs.length (by omega)
    have hs : 0 < st.weights.sum := sum_pos_of_getD_pos st.weights hb.nonneg i (by rw [hb.len]; exact hi) (ha i hi hiD)
    obtain ⟨a1, a2, a3, a4⟩ := drawStep_alive o pts corrs W0 D st hb hz hs
    refine ⟨hs, ih (D ++ [(drawStep o pts corrs st).2]) _ (drawStep_base o pts corrs W0 st hb) a4 ?_ ?_ ?_ ?_⟩
    · -- still alive outside the drawn set
      intro n hn hnD
      have hn1 : n ∉ D := fun h => hnD (List.mem_append_left _ h)
      have hn2 : n ≠ (drawStep o pts corrs st).2 := fun h => hnD (List.mem_append_right _ (by simp [h]))
      have hlen' := updateWeights_length o st.scale pts corrs (drawStep o pts corrs st).2 st.weights hb.len
      rw [drawStep_fst]
      simp only
      rw [getD_of_lt _ _ (by rw [hlen']; exact hn),
        updateWeights_getElem o st.scale pts corrs _ st.weights hb.len a1 n hn]
      have ht : ¬ corrs[n].tgt = corrs[(drawStep o pts corrs st).2].tgt := by
        intro he
        apply hn2
        apply hws.tgt_inj n _ hn a1
        rw [tgtAt_of_lt corrs n hn, tgtAt_of_lt corrs _ a1]; exact he
      rw [if_neg ht]
      have hwn := ha n hn hn1
      rw [getD_of_lt _ _ (by rw [hb.len]; exact hn)] at hwn
      apply mul_pos hwn
      rw [downWeight_pos_iff, hsc]
      have := hws.spread n _ hn a1 hn2
      rwa [srcAt_of_lt corrs n hn, srcAt_of_lt corrs _ a1] at this
    · rw [drawStep_scale]; exact hsc
    · rw [List.nodup_append]
      refine ⟨hD, List.nodup_singleton _, ?_⟩
      intro a ha' b hb' hab
      have hb'' : b = (drawStep o pts corrs st).2 := by simpa using hb'
      subst hb''
      subst hab
      have := (hz _ ha').2 _ a1 rfl
      linarith
    · simp only [List.length_append, List.length_singleton]; omega

theorem scaledSquares_self (scale p : List ℝ) : (scaledSquares scale p p).sum = 0 := by
  apply List.sum_eq_zero
  intro x hx
  unfold scaledSquares at hx
  rw [List.mem_iff_getElem] at hx
  obtain ⟨i, hi, rfl⟩ := hx
  simp [List.getElem_zipWith]

theorem WellSpread.src_inj {scale : List ℝ} {pts : Array (List ℝ)} {corrs : List (Corr ℝ)}
    (h : WellSpread scale pts corrs) :
    ∀ i j, i < corrs.length → j < corrs.length → srcAt corrs i = srcAt corrs j → i = j := by
  intro i j hi hj he
  by_contra hne
  have := h.spread i j hi hj hne
  rw [he, scaledSquares_self] at this
  exact lt_irrefl _ this

/-! ## The collapsed case at `RN`: `0/0` cumulative weights, every comparison false, index 0 -/

theorem psFrom_zero_RN (l : List RN) (h : ∀ x ∈ l, x = RN.of 0) : psFrom (RN.of 0) l = l := by
  induction l with
  | nil => rfl
  | cons y ys ih =>
    have hy : y = RN.of 0 := h y List.mem_cons_self
    subst hy
    simp only [psFrom, RN.add_of, add_zero]
    rw [ih (fun x hx => h x (List.mem_cons_of_mem _ hx))]

theorem partialSums_zero_RN (l : List RN) (h : ∀ x ∈ l, x = RN.of 0) : partialSums l = l := by
  cases l with
  | nil => rfl
  | cons y ys =>
    have hy : y = RN.of 0 := h y List.mem_cons_self
    subst hy
    simp only [partialSums]
    rw [psFrom_zero_RN ys (fun x hx => h x (List.mem_cons_of_mem _ hx))]

/-- all weights zero: every cumulative weight is `0/0 = NaN` -/
theorem cumSum_zero_RN (l : List RN) (h : ∀ x ∈ l, x = RN.of 0) :
    (cumSum l).length = l.length ∧ ∀ x ∈ cumSum l, x = RN.nan := by
  cases hl : l with
  | nil => simp [cumSum, partialSums]
  | cons y ys =>
    rw [← hl]
    have hne : l ≠ [] := by rw [hl]; simp
    have hlast : l.getLast? = some (RN.of 0) := by
      rw [List.getLast?_eq_some_getLast hne]
      rw [h _ (List.getLast_mem hne)]
    unfold cumSum
    simp only [partialSums_zero_RN l h, hlast, List.length_map, true_and]
    intro x hx
    obtain ⟨a, ha, rfl⟩ := List.mem_map.mp hx
    rw [h a ha]
    exact RN.div_zero 0

/-- … and `std::lower_bound` answers 0 for every `u` (NaN included) -/
theorem lowerBound_collapsed_RN (l : List RN) (h : ∀ x ∈ l, x = RN.of 0) (u : RN) :
    lowerBound (cumSum l) u = 0 := by
  obtain ⟨hlen, hnan⟩ := cumSum_zero_RN l h
  apply lowerBound_eq_zero_of_none_below
  intro j hj
  unfold Below
  have e : (cumSum l).getD j u = (cumSum l)[j] := by simp [List.getD_eq_getElem?_getD, hj]
  rw [e, hnan _ (List.getElem_mem hj)]
  exact RN.not_nan_lt u

/-! ## Determinism: what a call can depend on -/

section Determinism
set_option linter.unusedSectionVars false
variable {α β : Type}
variable [Add α] [Sub α] [Mul α] [Div α] [LT α] [DecidableLT α] [LE α] [DecidableLE α] [NatCast α] [Trans α]
variable [Add β] [Sub β] [Mul β] [Div β] [Neg β] [NatCast β] [Trans β] [Widen β α]

/-- `drawPoints` reloads the weights: whatever `weights_` / `cumSumWeights_` held before the call is irrelevant -/
theorem drawPoints_stale (o : SumOrder) (st : State α β) (w' c' : List α) (pts : Array (List β))
    (corrs : List (Corr α)) (k : Nat) :
    ({ st with weights := w', cum := c' } : State α β).drawPoints o pts corrs k = st.drawPoints o pts corrs k := rfl

theorem drawPoints_congr (o : SumOrder) (s1 s2 : State α β) (he : s1.engine = s2.engine) (hs : s1.scale = s2.scale)
    (pts : Array (List β)) (corrs : List (Corr α)) (k : Nat) :
    s1.drawPoints o pts corrs k = s2.drawPoints o pts corrs k := by
  have : s2 = { s1 with weights := s2.weights, cum := s2.cum } := by
    cases s1; cases s2; simp only at he hs; subst he hs; rfl
  rw [this]; rfl

/-- the engine component of `generate_canonical` does not depend on the floating-point type at all -/
theorem canonLoop_engine (k x : Nat) (s t : α) : (canonLoop k x s t).1 = next^[k] x := by
  induction k generalizing x s t with
  | zero => rfl
  | succ k ih => simp only [canonLoop]; rw [ih, Function.iterate_succ_apply]

theorem uniform01_engine (x : Nat) : (uniform01 (α := α) x).1 = next (next x) := by
  unfold uniform01 generateCanonical
  simp only [canonLoop_engine, canonCalls_eq]
  rfl

theorem drawStep_engine_scale (o : SumOrder) (pts : Array (List β)) (corrs : List (Corr α)) (st : State α β) :
    (drawStep o pts corrs st).1.engine = (uniform01 (α := α) st.engine).1 ∧
    (drawStep o pts corrs st).1.scale = st.scale := ⟨rfl, rfl⟩

theorem drawLoop_engine_scale (o : SumOrder) (pts : Array (List β)) (corrs : List (Corr α)) (k : Nat) (st : State α β) :
    (drawLoop o pts corrs k st).1.engine = (fun e => (uniform01 (α := α) e).1)^[k] st.engine ∧
    (drawLoop o pts corrs k st).1.scale = st.scale := by
  induction k generalizing st with
  | zero => exact ⟨rfl, rfl⟩
  | succ k ih =>
    have h := ih (drawStep o pts corrs st).1
    constructor
    · show (drawLoop o pts corrs k (drawStep o pts corrs st).1).1.engine = _
      rw [h.1, Function.iterate_succ_apply]; rfl
    · show (drawLoop o pts corrs k (drawStep o pts corrs st).1).1.scale = _
      rw [h.2]; rfl

/-- what a call leaves in the engine and in `scale_` is a function of what it found there and of the call -/
theorem call_engine_scale (o : SumOrder) (s1 s2 : State α β) (he : s1.engine = s2.engine) (hs : s1.scale = s2.scale)
    (c : Call α β) :
    (s1.call o c).2 = (s2.call o c).2 ∧ (s1.call o c).1.engine = (s2.call o c).1.engine ∧
    (s1.call o c).1.scale = (s2.call o c).1.scale := by
  cases c with
  | scale lo hi => exact ⟨rfl, he, rfl⟩
  | draw pts corrs k =>
    simp only [State.call]
    rw [drawPoints_congr o s1 s2 he hs]
    exact ⟨rfl, rfl, rfl⟩
  | reset => exact ⟨rfl, he, hs⟩

theorem run_engine_scale (o : SumOrder) (cs : List (Call α β)) (s1 s2 : State α β)
    (he : s1.engine = s2.engine) (hs : s1.scale = s2.scale) :
    (s1.run o cs).2 = (s2.run o cs).2 ∧ (s1.run o cs).1.engine = (s2.run o cs).1.engine ∧
    (s1.run o cs).1.scale = (s2.run o cs).1.scale := by
  induction cs generalizing s1 s2 with
  | nil => exact ⟨rfl, he, hs⟩
  | cons c cs ih =>
    obtain ⟨a, b, d⟩ := call_engine_scale o s1 s2 he hs c
    obtain ⟨a', b', d'⟩ := ih (s1.call o c).1 (s2.call o c).1 b d
    simp only [State.run]
    exact ⟨by rw [a, a'], b', d'⟩

/-- at every scalar type (the executed `Float` / `Float32` included): `k` drawn points advance the engine by `2k` steps -/
theorem drawLoop_engine_any (o : SumOrder) (pts : Array (List β)) (corrs : List (Corr α)) (k : Nat) (st : State α β) :
    (drawLoop o pts corrs k st).1.engine = next^[2 * k] st.engine := by
  induction k generalizing st with
  | zero => rfl
  | succ k ih =>
    show (drawLoop o pts corrs k (drawStep o pts corrs st).1).1.engine = _
    rw [ih, (drawStep_engine_scale o pts corrs st).1, uniform01_engine, show 2 * (k + 1) = 2 * k + 1 + 1 by ring,
      Function.iterate_succ_apply, Function.iterate_succ_apply]

theorem drawPoints_engine_any (o : SumOrder) (st : State α β) (pts : Array (List β)) (corrs : List (Corr α)) (k : Nat) :
    (st.drawPoints o pts corrs k).1.engine = next^[2 * k] st.engine :=
  drawLoop_engine_any o pts corrs k _

/-- number of points a call draws -/
def callDraws : Call α β → Nat
  | .draw _ _ k => k
  | _ => 0

/-- number of points drawn by a whole history -/
def totalDraws (cs : List (Call α β)) : Nat := (cs.map callDraws).sum

theorem call_engine (o : SumOrder) (st : State α β) (c : Call α β) :
    (st.call o c).1.engine = next^[2 * callDraws c] st.engine := by
  cases c with
  | scale lo hi => rfl
  | draw pts corrs k => exact drawPoints_engine_any o st pts corrs k
  | reset => rfl

theorem run_engine (o : SumOrder) (cs : List (Call α β)) (st : State α β) :
    (st.run o cs).1.engine = next^[2 * totalDraws cs] st.engine := by
  induction cs generalizing st with
  | nil => rfl
  | cons c cs ih =>
    show ((st.call o c).1.run o cs).1.engine = _
    rw [ih, call_engine]
    simp only [totalDraws, List.map_cons, List.sum_cons]
    rw [show 2 * (callDraws c + (cs.map callDraws).sum) = 2 * (cs.map callDraws).sum + 2 * callDraws c by ring,
      Function.iterate_add_apply]

end Determinism

end Romea.C06
