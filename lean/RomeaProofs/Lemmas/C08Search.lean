import RomeaProofs.Lemmas.C08ResultSet
import Mathlib.Tactic.Ring

/-!
# C08 helper lemmas, part 2: the tree search equals the exhaustive scan

`searchLevel` on a well-formed tree returns exactly what the linear scan of the same points (in the
order the leaves are visited) returns: the per-dimension lower bounds `dists` make `mindistsq` a
lower bound of every squared distance in the subtree, so a pruned subtree could not have changed
the result set.
-/
namespace Romea.KdTree

set_option linter.unusedSectionVars false

variable {α : Type} [CommRing α] [LinearOrder α] [IsStrictOrderedRing α]

/-! ## Sums over the dimensions -/

/-- `Σ_{j<n} f j`, in the association of the C++ loops -/
def sumTo (f : Nat → α) : Nat → α
  | 0 => 0
  | n + 1 => sumTo f n + f n

theorem sqDistTo_eq (q : Nat → α) (P : Nat → Nat → α) (b n : Nat) :
    sqDistTo q P b n = sumTo (fun j => (q j - P b j) * (q j - P b j)) n := by
  induction n with
  | zero => simp [sqDistTo, sumTo]
  | succ n ih => simp only [sqDistTo, sumTo, ih]

theorem sqDist_eq (dim : Nat) (q : Nat → α) (P : Nat → Nat → α) (b : Nat) :
    sqDist dim q P b = sumTo (fun j => (q j - P b j) * (q j - P b j)) dim := sqDistTo_eq q P b dim

theorem sumTo_mono (f g : Nat → α) (n : Nat) (h : ∀ j < n, f j ≤ g j) : sumTo f n ≤ sumTo g n := by
  induction n with
  | zero => simp [sumTo]
  | succ n ih =>
    simp only [sumTo]
    exact add_le_add (ih (fun j hj => h j (Nat.lt_succ_of_lt hj))) (h n (Nat.lt_succ_self n))

theorem sumTo_congr (f g : Nat → α) (n : Nat) (h : ∀ j < n, f j = g j) : sumTo f n = sumTo g n := by
  induction n with
  | zero => simp [sumTo]
  | succ n ih =>
    simp only [sumTo]
    rw [ih (fun j hj => h j (Nat.lt_succ_of_lt hj)), h n (Nat.lt_succ_self n)]

theorem sumTo_upd_ge (f : Nat → α) (i : Nat) (v : α) (n : Nat) (h : n ≤ i) :
    sumTo (upd f i v) n = sumTo f n := by
  apply sumTo_congr
  intro j hj
  have : j ≠ i := by omega
  simp [upd, this]

theorem sumTo_upd (f : Nat → α) (i : Nat) (v : α) (n : Nat) (h : i < n) :
    sumTo (upd f i v) n = sumTo f n - f i + v := by
  induction n with
  | zero => omega
  | succ n ih =>
    simp only [sumTo]
    by_cases hi : i = n
    · subst hi
      rw [sumTo_upd_ge f i v i (le_refl i)]
      simp only [upd, if_true]
      ring
    · have hlt : i < n := by omega
      rw [ih hlt]
      have : n ≠ i := fun h => hi h.symm
      simp only [upd, this, if_false]
      ring

/-! ## Points under a tree, visiting order, well-formedness -/

/-- the data-set indices stored under a tree, leaves left to right -/
def points (vind : Array Nat) : Tree α → List Nat
  | .leaf l r => (List.range' l (r - l)).map (fun s => vind[s]!)
  | .node _ _ _ left right => points vind left ++ points vind right

/-- the order in which `searchLevel` reaches the points when nothing is pruned (near child first) -/
def visit (vind : Array Nat) (q : Nat → α) : Tree α → List Nat
  | .leaf l r => (List.range' l (r - l)).map (fun s => vind[s]!)
  | .node feat lo hi left right =>
      if (q feat - lo) + (q feat - hi) < ((0 : Nat) : α) then visit vind q left ++ visit vind q right
      else visit vind q right ++ visit vind q left

theorem visit_perm (vind : Array Nat) (q : Nat → α) (t : Tree α) :
    (visit vind q t).Perm (points vind t) := by
  induction t with
  | leaf l r => exact List.Perm.refl _
  | node feat lo hi left right ihl ihr =>
    simp only [visit, points]
    split
    · exact ihl.append ihr
    · exact List.perm_append_comm.trans (ihl.append ihr)

theorem mem_visit {vind : Array Nat} {q : Nat → α} {t : Tree α} {x : Nat} :
    x ∈ visit vind q t ↔ x ∈ points vind t := (visit_perm vind q t).mem_iff

/-- Well-formed tree: the split feature is a dimension, `divlow ≤ divhigh`, every point under
    `left` has coordinate `≤ divlow` and every point under `right` has coordinate `≥ divhigh` on the
    split feature. (That the leaves partition the index set is the separate hypothesis
    `(points vind t).Perm (List.range n)` of the main theorems.) -/
def WF (dim : Nat) (P : Nat → Nat → α) (vind : Array Nat) : Tree α → Prop
  | .leaf _ _ => True
  | .node feat lo hi left right =>
      feat < dim ∧ lo ≤ hi ∧ (∀ x ∈ points vind left, P x feat ≤ lo) ∧
      (∀ x ∈ points vind right, hi ≤ P x feat) ∧ WF dim P vind left ∧ WF dim P vind right

/-! ## The search -/

section search
variable (M : α) (dim : Nat) (P : Nat → Nat → α) (vind : Array Nat) (q : Nat → α)

/-- hypotheses under which a subtree is entered: per-dimension lower bounds whose sum dominates `mindistsq` -/
def Bounds (t : Tree α) (mind : α) (dists : Nat → α) : Prop :=
  (∀ x ∈ points vind t, ∀ j < dim, dists j ≤ (q j - P x j) * (q j - P x j)) ∧ mind ≤ sumTo dists dim

theorem bounds_le_sqDist {t : Tree α} {mind : α} {dists : Nat → α}
    (hb : Bounds dim P vind q t mind dists) {x : Nat} (hx : x ∈ points vind t) :
    mind ≤ sqDist dim q P x := by
  rw [sqDist_eq]
  exact le_trans hb.2 (sumTo_mono _ _ dim (fun j hj => hb.1 x hx j hj))

/-- The far child: entered with the updated bound, or skipped — either way the scan of its points. -/
theorem far_child (far : Tree α) (feat : Nat) (cut mind : α) (dists : Nat → α) (rs : ResultSet α)
    (hfeat : feat < dim)
    (ih : ∀ (mind : α) (dists : Nat → α) (rs : ResultSet α), Valid M rs →
      Bounds dim P vind q far mind dists →
      searchLevel M dim P vind q far mind dists rs = scan dim P q rs (visit vind q far))
    (hv : Valid M rs)
    (hM : ∀ x ∈ points vind far, sqDist dim q P x < M)
    (hold : (∀ x ∈ points vind far, ∀ j < dim, dists j ≤ (q j - P x j) * (q j - P x j)) ∧
      mind ≤ sumTo dists dim)
    (hcut : ∀ x ∈ points vind far, cut ≤ (q feat - P x feat) * (q feat - P x feat)) :
    (if (mind + cut - dists feat) * (epsError : α) ≤ rs.worstDist M then
        searchLevel M dim P vind q far (mind + cut - dists feat) (upd dists feat cut) rs
      else rs) = scan dim P q rs (visit vind q far) := by
  have hb : Bounds dim P vind q far (mind + cut - dists feat) (upd dists feat cut) := by
    refine ⟨?_, ?_⟩
    · intro x hx j hj
      by_cases hjf : j = feat
      · subst hjf; simp only [upd, if_true]; exact hcut x hx
      · simp only [upd, hjf, if_false]; exact hold.1 x hx j hj
    · rw [sumTo_upd dists feat cut dim hfeat]
      linarith [hold.2]
  split
  · exact ih _ _ rs hv hb
  · rename_i hprune
    have hlt : rs.worstDist M < mind + cut - dists feat := by
      have := not_le.mp hprune
      simpa [epsError] using this
    symm
    apply scan_noop dim P q M rs
    · intro x hx; exact hM x (mem_visit.mp hx)
    · intro x hx
      exact le_of_lt (lt_of_lt_of_le hlt (bounds_le_sqDist dim P vind q hb (mem_visit.mp hx)))

/-- **Search = scan.**  On a well-formed tree, entered with valid lower bounds, `searchLevel`
    computes exactly the exhaustive scan of the subtree's points in visiting order. -/
theorem searchLevel_eq_scan (t : Tree α) :
    ∀ (mind : α) (dists : Nat → α) (rs : ResultSet α),
      WF dim P vind t → Valid M rs → (∀ x ∈ points vind t, sqDist dim q P x < M) →
      Bounds dim P vind q t mind dists →
      searchLevel M dim P vind q t mind dists rs = scan dim P q rs (visit vind q t) := by
  induction t with
  | leaf l r =>
    intro mind dists rs _ hv hM _
    simp only [searchLevel, visit]
    apply leafLoop_eq_scan dim P q M vind _ _ rs hv (le_refl _)
    intro s hs
    exact hM _ (by simp only [points]; exact List.mem_map_of_mem hs)
  | node feat lo hi left right ihl ihr =>
    intro mind dists rs hwf hv hM hb
    obtain ⟨hfeat, hlohi, hleft, hright, hwl, hwr⟩ := hwf
    have hMl : ∀ x ∈ points vind left, sqDist dim q P x < M :=
      fun x hx => hM x (by simp only [points]; exact List.mem_append_left _ hx)
    have hMr : ∀ x ∈ points vind right, sqDist dim q P x < M :=
      fun x hx => hM x (by simp only [points]; exact List.mem_append_right _ hx)
    have hbl : Bounds dim P vind q left mind dists :=
      ⟨fun x hx => hb.1 x (by simp only [points]; exact List.mem_append_left _ hx), hb.2⟩
    have hbr : Bounds dim P vind q right mind dists :=
      ⟨fun x hx => hb.1 x (by simp only [points]; exact List.mem_append_right _ hx), hb.2⟩
    have ihl' := fun mind dists rs hv hb => ihl mind dists rs hwl hv hMl hb
    have ihr' := fun mind dists rs hv hb => ihr mind dists rs hwr hv hMr hb
    simp only [searchLevel, visit]
    by_cases hnear : (q feat - lo) + (q feat - hi) < ((0 : Nat) : α)
    · -- near child = left, far child = right, cut plane at `divhigh`
      rw [if_pos hnear, if_pos hnear, scan_append, ← ihl' mind dists rs hv hbl]
      have hv1 : Valid M (searchLevel M dim P vind q left mind dists rs) := by
        rw [ihl' mind dists rs hv hbl]
        exact scan_valid dim P q M rs _ hv (fun x hx => hMl x (mem_visit.mp hx))
      apply far_child M dim P vind q right feat _ mind dists _ hfeat ihr' hv1 hMr ⟨hbr.1, hbr.2⟩
      intro x hx
      have h1 : hi ≤ P x feat := hright x hx
      have h0 : (q feat - lo) + (q feat - hi) < 0 := by simpa using hnear
      have h2 : q feat < hi := by linarith
      have ha : 0 ≤ hi - q feat := by linarith
      have hab : hi - q feat ≤ P x feat - q feat := by linarith
      have := mul_self_le_mul_self ha hab
      calc (q feat - hi) * (q feat - hi) = (hi - q feat) * (hi - q feat) := by ring
        _ ≤ (P x feat - q feat) * (P x feat - q feat) := this
        _ = (q feat - P x feat) * (q feat - P x feat) := by ring
    · -- near child = right, far child = left, cut plane at `divlow`
      rw [if_neg hnear, if_neg hnear, scan_append, ← ihr' mind dists rs hv hbr]
      have hv1 : Valid M (searchLevel M dim P vind q right mind dists rs) := by
        rw [ihr' mind dists rs hv hbr]
        exact scan_valid dim P q M rs _ hv (fun x hx => hMr x (mem_visit.mp hx))
      apply far_child M dim P vind q left feat _ mind dists _ hfeat ihl' hv1 hMl ⟨hbl.1, hbl.2⟩
      intro x hx
      have h1 : P x feat ≤ lo := hleft x hx
      have h0 : ¬ (q feat - lo) + (q feat - hi) < 0 := by simpa using hnear
      have h0' : 0 ≤ (q feat - lo) + (q feat - hi) := not_lt.mp h0
      have h2 : lo ≤ q feat := by linarith
      have ha : 0 ≤ q feat - lo := by linarith
      have hab : q feat - lo ≤ q feat - P x feat := by linarith
      exact mul_self_le_mul_self ha hab

end search

/-! ## `computeInitialDistances` -/

section initial
variable (dim : Nat) (P : Nat → Nat → α) (q : Nat → α) (pts : List Nat)

/-- invariant of the loop of `computeInitialDistances` after dimensions `0 … i-1` -/
def InitInv (i : Nat) (acc : α × (Nat → α)) : Prop :=
  acc.1 ≤ sumTo acc.2 i ∧ (∀ j, i ≤ j → acc.2 j = 0) ∧
  ∀ j < i, ∀ x ∈ pts, acc.2 j ≤ (q j - P x j) * (q j - P x j)

theorem computeInitialDistances_inv (hne : pts ≠ []) :
    ∀ (bb : List (α × α)) (i : Nat) (acc : α × (Nat → α)),
      (∀ m (h : m < bb.length), ∀ x ∈ pts, (bb[m]).1 ≤ P x (i + m) ∧ P x (i + m) ≤ (bb[m]).2) →
      InitInv P q pts i acc →
      InitInv P q pts (i + bb.length) (computeInitialDistances q bb i acc) := by
  intro bb
  induction bb with
  | nil => intro i acc _ h; simpa [computeInitialDistances] using h
  | cons b bb ih =>
    intro i acc hbox hinv
    obtain ⟨low, high⟩ := b
    obtain ⟨s, ds⟩ := acc
    obtain ⟨x0, hx0⟩ := List.exists_mem_of_ne_nil pts hne
    have hb0 : ∀ x ∈ pts, low ≤ P x i ∧ P x i ≤ high := by
      intro x hx
      have := hbox 0 (by simp) x hx
      simp only [List.getElem_cons_zero, Nat.add_zero] at this
      exact this
    have hlh : low ≤ high := le_trans (hb0 x0 hx0).1 (hb0 x0 hx0).2
    have hrest : ∀ m (h : m < bb.length), ∀ x ∈ pts,
        (bb[m]).1 ≤ P x (i + 1 + m) ∧ P x (i + 1 + m) ≤ (bb[m]).2 := by
      intro m hm x hx
      have := hbox (m + 1) (by simp only [List.length_cons]; omega) x hx
      simp only [List.getElem_cons_succ] at this
      have e : i + (m + 1) = i + 1 + m := by omega
      rw [e] at this; exact this
    obtain ⟨hsum, hzero, hbound⟩ := hinv
    simp only at hsum hzero hbound
    have hlen : i + (((low, high) :: bb).length) = i + 1 + bb.length := by
      simp only [List.length_cons]; omega
    rw [hlen]
    simp only [computeInitialDistances]
    apply ih (i + 1) _ hrest
    -- the invariant after dimension `i`
    by_cases h1 : q i < low
    · have h2 : ¬ q i > high := not_lt.mpr (le_of_lt (lt_of_lt_of_le h1 hlh))
      simp only [h1, h2, if_true, if_false]
      refine ⟨?_, ?_, ?_⟩
      · simp only [sumTo]
        rw [sumTo_upd_ge ds i _ i (le_refl i)]
        simp only [upd, if_true]
        linarith
      · intro j hj
        have : j ≠ i := by omega
        simp only [upd, this, if_false]
        exact hzero j (by omega)
      · intro j hj x hx
        by_cases hji : j = i
        · subst hji
          simp only [upd, if_true]
          have hx1 := (hb0 x hx).1
          have ha : 0 ≤ low - q j := by linarith
          have hab : low - q j ≤ P x j - q j := by linarith
          have := mul_self_le_mul_self ha hab
          calc (q j - low) * (q j - low) = (low - q j) * (low - q j) := by ring
            _ ≤ (P x j - q j) * (P x j - q j) := this
            _ = (q j - P x j) * (q j - P x j) := by ring
        · simp only [upd, hji, if_false]
          exact hbound j (by omega) x hx
    · by_cases h2 : q i > high
      · simp only [h1, h2, if_true, if_false]
        refine ⟨?_, ?_, ?_⟩
        · simp only [sumTo]
          rw [sumTo_upd_ge ds i _ i (le_refl i)]
          simp only [upd, if_true]
          linarith
        · intro j hj
          have : j ≠ i := by omega
          simp only [upd, this, if_false]
          exact hzero j (by omega)
        · intro j hj x hx
          by_cases hji : j = i
          · subst hji
            simp only [upd, if_true]
            have hx1 := (hb0 x hx).2
            have ha : 0 ≤ q j - high := by linarith
            have hab : q j - high ≤ q j - P x j := by linarith
            exact mul_self_le_mul_self ha hab
          · simp only [upd, hji, if_false]
            exact hbound j (by omega) x hx
      · simp only [h1, h2, if_false]
        refine ⟨?_, ?_, ?_⟩
        · simp only [sumTo]
          rw [hzero i (le_refl i)]
          linarith
        · intro j hj; exact hzero j (by omega)
        · intro j hj x hx
          by_cases hji : j = i
          · subst hji
            show ds j ≤ _
            rw [hzero j (le_refl j)]
            exact mul_self_nonneg _
          · exact hbound j (by omega) x hx

end initial

end Romea.KdTree
