import RomeaProofs.Lemmas.C04Svd
import Mathlib.LinearAlgebra.Matrix.Rank

/-!
# C04: uniqueness of what the estimator extracts from an SVD

* `psd_sq_unique`: positive semidefinite square roots are unique (`CFC.sq_eq_sq_iff`).
* `svd_cols_agree`: if the decomposed matrix is `M Qᵀ` with `M` positive semidefinite and `Q` orthogonal,
  every column `j` of `V` with `S j ≠ 0` is the column `j` of `Q U`.
* `orth_eq_of_cols`: two orthogonal matrices with the same determinant that agree on all columns but the
  last are equal.
* `recover_rotation`: hence `V' Uᵀ = Q` as soon as `S j ≠ 0` for every `j` but the last and `det Q = 1`
  (this is where the determinant correction is needed when the last singular value vanishes).
-/
namespace Romea.Registration
open Matrix
open scoped MatrixOrder

variable {d : Nat}

theorem psd_sq_unique (P P' : Matrix (Fin d) (Fin d) ℝ) (hP : P.PosSemidef) (hP' : P'.PosSemidef)
    (h : P * P = P' * P') : P = P' :=
  (CFC.sq_eq_sq_iff P P' hP.nonneg hP'.nonneg).mp (by simpa [sq] using h)

theorem psd_transpose_eq {M : Matrix (Fin d) (Fin d) ℝ} (hM : M.PosSemidef) : Mᵀ = M := by
  have := hM.isHermitian
  rwa [Matrix.IsHermitian, Matrix.conjTranspose_eq_transpose_of_trivial] at this

theorem usu_psd (U : Matrix (Fin d) (Fin d) ℝ) (S : Fin d → ℝ) (hS : ∀ i, 0 ≤ S i) :
    (U * Matrix.diagonal S * Uᵀ).PosSemidef := by
  have hD : (Matrix.diagonal S).PosSemidef := Matrix.PosSemidef.diagonal (fun i => hS i)
  have := hD.mul_mul_conjTranspose_same U
  rwa [Matrix.conjTranspose_eq_transpose_of_trivial] at this

/-- `P = U S Uᵀ` squares to `A Aᵀ` -/
theorem usu_sq {U V : Matrix (Fin d) (Fin d) ℝ} (S : Fin d → ℝ) (hU : Uᵀ * U = 1) (hV : Vᵀ * V = 1) :
    (U * Matrix.diagonal S * Uᵀ) * (U * Matrix.diagonal S * Uᵀ) =
      (U * Matrix.diagonal S * Vᵀ) * (U * Matrix.diagonal S * Vᵀ)ᵀ := by
  have e1 : (U * Matrix.diagonal S * Uᵀ) * (U * Matrix.diagonal S * Uᵀ) =
      U * Matrix.diagonal S * (Uᵀ * U) * Matrix.diagonal S * Uᵀ := by
    simp only [Matrix.mul_assoc]
  have e2 : (U * Matrix.diagonal S * Vᵀ) * (U * Matrix.diagonal S * Vᵀ)ᵀ =
      U * Matrix.diagonal S * (Vᵀ * V) * Matrix.diagonal S * Uᵀ := by
    simp only [Matrix.transpose_mul, Matrix.transpose_transpose, Matrix.diagonal_transpose, Matrix.mul_assoc]
  rw [e1, e2, hU, hV]

/-- the symmetric factor of the decomposed matrix is `M` itself -/
theorem usu_eq_M {U V M Q : Matrix (Fin d) (Fin d) ℝ} {S : Fin d → ℝ} (hU : Uᵀ * U = 1) (hV : Vᵀ * V = 1)
    (hS : ∀ i, 0 ≤ S i) (hM : M.PosSemidef) (hQ : Qᵀ * Q = 1)
    (hA : M * Qᵀ = U * Matrix.diagonal S * Vᵀ) : U * Matrix.diagonal S * Uᵀ = M := by
  apply psd_sq_unique _ _ (usu_psd U S hS) hM
  rw [usu_sq S hU hV, ← hA, Matrix.transpose_mul, Matrix.transpose_transpose, psd_transpose_eq hM, Matrix.mul_assoc,
    ← Matrix.mul_assoc Qᵀ, hQ, Matrix.one_mul]

theorem svd_cols_agree {U V M Q : Matrix (Fin d) (Fin d) ℝ} {S : Fin d → ℝ} (hU : Uᵀ * U = 1) (hV : Vᵀ * V = 1)
    (hS : ∀ i, 0 ≤ S i) (hM : M.PosSemidef) (hQ : Qᵀ * Q = 1)
    (hA : M * Qᵀ = U * Matrix.diagonal S * Vᵀ) (i j : Fin d) (hj : S j ≠ 0) : V i j = (Q * U) i j := by
  have hP := usu_eq_M hU hV hS hM hQ hA
  -- U S Vᵀ = A = M Qᵀ = U S Uᵀ Qᵀ, cancel U on the left
  have h1 : U * Matrix.diagonal S * Vᵀ = U * Matrix.diagonal S * Uᵀ * Qᵀ := by rw [hP, hA]
  have h2 : Matrix.diagonal S * Vᵀ = Matrix.diagonal S * (Q * U)ᵀ := by
    have := congrArg (fun X => Uᵀ * X) h1
    simp only [Matrix.mul_assoc] at this
    rw [← Matrix.mul_assoc Uᵀ U, ← Matrix.mul_assoc Uᵀ U, hU, Matrix.one_mul, Matrix.one_mul] at this
    rw [Matrix.transpose_mul]
    exact this
  have h3 := congrFun (congrFun h2 j) i
  rw [Matrix.diagonal_mul, Matrix.diagonal_mul, Matrix.transpose_apply, Matrix.transpose_apply] at h3
  exact mul_left_cancel₀ hj h3

/-- two orthogonal matrices of equal determinant agreeing on all columns but the last are equal -/
theorem orth_eq_of_cols {X Y : Matrix (Fin d) (Fin d) ℝ} (hX : Xᵀ * X = 1) (hY : Yᵀ * Y = 1)
    (hcol : ∀ i j, j.1 + 1 ≠ d → X i j = Y i j) (hdet : X.det = Y.det) : X = Y := by
  -- M = Xᵀ Y is the identity
  have hMdiag : Xᵀ * Y = Matrix.diagonal (fun j => if j.1 + 1 = d then (Xᵀ * Y) j j else 1) := by
    ext a b
    by_cases hb : b.1 + 1 = d
    · by_cases ha : a.1 + 1 = d
      · have hab : a = b := Fin.ext (by omega)
        subst hab; simp [ha]
      · have hab : a ≠ b := by intro h; apply ha; rw [h]; exact hb
        rw [Matrix.diagonal_apply_ne _ hab]
        have : (Xᵀ * Y) a b = (Yᵀ * Y) a b := by
          simp only [Matrix.mul_apply, Matrix.transpose_apply]
          apply Finset.sum_congr rfl; intro k _; rw [hcol k a ha]
        rw [this, hY, Matrix.one_apply_ne hab]
    · have : (Xᵀ * Y) a b = (Xᵀ * X) a b := by
        simp only [Matrix.mul_apply, Matrix.transpose_apply]
        apply Finset.sum_congr rfl; intro k _; rw [hcol k b hb]
      rw [this, hX]
      by_cases hab : a = b
      · subst hab; simp [hb]
      · rw [Matrix.one_apply_ne hab, Matrix.diagonal_apply_ne _ hab]
  have hMdet : (Xᵀ * Y).det = 1 := by
    rw [Matrix.det_mul, Matrix.det_transpose, hdet]; exact orth_det_sq hY
  have hM1 : Xᵀ * Y = 1 := by
    rw [hMdiag, ← Matrix.diagonal_one]
    congr 1
    funext j
    by_cases hj : j.1 + 1 = d
    · simp only [hj, if_true]
      rw [hMdiag, Matrix.det_diagonal, Finset.prod_eq_single j] at hMdet
      · simpa [hj] using hMdet
      · intro b _ hb
        have : b.1 + 1 ≠ d := by intro h; apply hb; exact Fin.ext (by omega)
        simp [this]
      · intro h; exact absurd (Finset.mem_univ _) h
    · simp [hj]
  calc X = X * (Xᵀ * Y) := by rw [hM1, Matrix.mul_one]
    _ = (X * Xᵀ) * Y := by rw [Matrix.mul_assoc]
    _ = Y := by rw [orth_mul_transpose hX, Matrix.one_mul]

/-- the estimator's rotation is `Q` whenever all singular values but possibly the last are non-zero -/
theorem recover_rotation {U V M Q : Matrix (Fin d) (Fin d) ℝ} {S : Fin d → ℝ} (hU : Uᵀ * U = 1) (hV : Vᵀ * V = 1)
    (hS : ∀ i, 0 ≤ S i) (hM : M.PosSemidef) (hQ : Qᵀ * Q = 1) (hQd : Q.det = 1)
    (hA : M * Qᵀ = U * Matrix.diagonal S * Vᵀ) (hpos : ∀ j : Fin d, j.1 + 1 ≠ d → S j ≠ 0) :
    corrected U V * Uᵀ = Q := by
  obtain ⟨hX, hXd⟩ := corrected_spec hU hV
  have hY : (Q * U)ᵀ * (Q * U) = 1 := by
    rw [Matrix.transpose_mul, Matrix.mul_assoc, ← Matrix.mul_assoc Qᵀ, hQ, Matrix.one_mul, hU]
  have hcol : ∀ i j, j.1 + 1 ≠ d → corrected U V i j = (Q * U) i j := by
    intro i j hj
    rw [corrected_col i j hj]
    exact svd_cols_agree hU hV hS hM hQ hA i j (hpos j hj)
  have hdet : (corrected U V).det = (Q * U).det := by
    rw [Matrix.det_mul, hQd, one_mul]
    have h2 := orth_det_sq hU
    have hne : U.det ≠ 0 := by intro h; rw [h] at h2; norm_num at h2
    exact mul_right_cancel₀ hne (by rw [hXd, h2])
  have := orth_eq_of_cols hX hY hcol hdet
  rw [this, Matrix.mul_assoc, orth_mul_transpose hU, Matrix.mul_one]

/-- rank at least `d - 1` of `U S Uᵀ` with `S` non-negative descending: only the last `S` can vanish -/
theorem S_ne_zero_of_rank {U : Matrix (Fin d) (Fin d) ℝ} {S : Fin d → ℝ} (hU : Uᵀ * U = 1)
    (hS : ∀ i, 0 ≤ S i) (hanti : ∀ i j, i ≤ j → S j ≤ S i)
    (hrank : d - 1 ≤ (U * Matrix.diagonal S * Uᵀ).rank) : ∀ j : Fin d, j.1 + 1 ≠ d → S j ≠ 0 := by
  classical
  intro j hj hSj
  have hUdet : IsUnit U.det := by
    have h2 := orth_det_sq hU
    exact IsUnit.of_mul_eq_one _ h2
  have hUtdet : IsUnit Uᵀ.det := by rwa [Matrix.det_transpose]
  rw [Matrix.rank_mul_eq_left_of_isUnit_det _ _ hUtdet, Matrix.rank_mul_eq_right_of_isUnit_det _ _ hUdet,
    Matrix.rank_diagonal] at hrank
  -- every index ≥ j has S = 0: at least two of them
  have hlt : d - 1 < d := by have := j.2; omega
  let l : Fin d := ⟨d - 1, hlt⟩
  have hjl : j ≠ l := by intro h; apply hj; rw [h]; simp [l]; omega
  have hSl : S l = 0 := by
    have h1 : S l ≤ S j := hanti j l (by simp [Fin.le_def, l]; have := j.2; omega)
    have h2 := hS l
    linarith
  have hsub : (Finset.univ.filter (fun i => S i ≠ 0)) ⊆ (Finset.univ.erase j).erase l := by
    intro i hi
    simp only [Finset.mem_filter, Finset.mem_univ, true_and] at hi
    simp only [Finset.mem_erase, Finset.mem_univ, and_true]
    constructor
    · intro h; rw [h] at hi; exact hi hSl
    · intro h; rw [h] at hi; exact hi hSj
  have hcard : Fintype.card {i // S i ≠ 0} = (Finset.univ.filter (fun i => S i ≠ 0)).card :=
    Fintype.card_subtype _
  have h1 := Finset.card_le_card hsub
  rw [Finset.card_erase_of_mem (by simp [Ne.symm hjl]), Finset.card_erase_of_mem (Finset.mem_univ _),
    Finset.card_univ, Fintype.card_fin] at h1
  have := j.2
  omega

end Romea.Registration

namespace Romea.Registration
open Matrix
open scoped MatrixOrder

variable {d : Nat}

theorem svd_det {A U V : Matrix (Fin d) (Fin d) ℝ} {S : Fin d → ℝ} (hA : A = U * Matrix.diagonal S * Vᵀ) :
    A.det = U.det * (∏ i, S i) * V.det := by
  rw [hA, Matrix.det_mul, Matrix.det_mul, Matrix.det_diagonal, Matrix.det_transpose]

theorem S_ne_zero_of_det_ne_zero {A U V : Matrix (Fin d) (Fin d) ℝ} {S : Fin d → ℝ}
    (hA : A = U * Matrix.diagonal S * Vᵀ) (h : A.det ≠ 0) (j : Fin d) : S j ≠ 0 := by
  intro hj
  apply h
  rw [svd_det hA, Finset.prod_eq_zero (Finset.mem_univ j) hj]; ring

/-- for a cross-covariance of positive determinant the extracted rotation does not depend on the oracle, nor on a
    positive rescaling of the matrix (it is the orthogonal polar factor) -/
theorem rotation_of_det_pos {C U V U' V' : Matrix (Fin d) (Fin d) ℝ} {S S' : Fin d → ℝ} {c : ℝ} (hc : 0 < c)
    (hU : Uᵀ * U = 1) (hV : Vᵀ * V = 1) (hS : ∀ i, 0 ≤ S i) (hA : C = U * Matrix.diagonal S * Vᵀ)
    (hU' : U'ᵀ * U' = 1) (hV' : V'ᵀ * V' = 1) (hS' : ∀ i, 0 ≤ S' i) (hA' : c • C = U' * Matrix.diagonal S' * V'ᵀ)
    (hdet : 0 < C.det) : corrected U' V' * U'ᵀ = corrected U V * Uᵀ := by
  -- no correction for (U, V): det U · det V > 0
  have hprod : 0 ≤ ∏ i, S i := Finset.prod_nonneg (fun i _ => hS i)
  have hd := svd_det hA
  have huv : 0 < U.det * V.det := by
    have h1 : 0 < (U.det * V.det) * ∏ i, S i := by rw [hd] at hdet; linarith [hdet, mul_comm (U.det * V.det) (∏ i, S i), (by ring : U.det * (∏ i, S i) * V.det = (U.det * V.det) * ∏ i, S i)]
    rcases lt_or_ge 0 (U.det * V.det) with h | h
    · exact h
    · exfalso; nlinarith
  have hcorr : corrected U V = V := by
    unfold corrected; rw [if_neg (not_lt.mpr huv.le)]
  obtain ⟨hQ, hQd⟩ := rotation_proper hU hV
  rw [hcorr] at hQ hQd ⊢
  -- C = (U S Uᵀ) (V Uᵀ)ᵀ
  have hfac : (c • (U * Matrix.diagonal S * Uᵀ)) * (V * Uᵀ)ᵀ = U' * Matrix.diagonal S' * V'ᵀ := by
    rw [← hA', hA, Matrix.smul_mul]
    congr 1
    rw [Matrix.transpose_mul, Matrix.transpose_transpose, Matrix.mul_assoc, ← Matrix.mul_assoc Uᵀ, hU, Matrix.one_mul]
  have hM : (c • (U * Matrix.diagonal S * Uᵀ)).PosSemidef := (usu_psd U S hS).smul hc.le
  have hdet' : (c • C).det ≠ 0 := by
    rw [Matrix.det_smul]; exact (mul_pos (pow_pos hc _) hdet).ne'
  exact recover_rotation hU' hV' hS' hM hQ hQd hfac (fun j _ => S_ne_zero_of_det_ne_zero hA' hdet' j)

end Romea.Registration
