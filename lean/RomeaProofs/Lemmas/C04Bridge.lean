import RomeaModel.Registration
import Mathlib.LinearAlgebra.Matrix.Determinant.Basic
import Mathlib.LinearAlgebra.Matrix.Notation
import Mathlib.Data.Real.Basic
import Mathlib.Algebra.BigOperators.Fin
import Mathlib.Tactic.Ring
import Mathlib.Tactic.FieldSimp
import Mathlib.Tactic.Linarith

/-!
# C04 bridge: the executable model at `ℝ` in Mathlib's vocabulary

`Tab.get (Tab.ofFn f) = f`, folds are sums, the Laplace determinant is `Matrix.det`, and the whole of
`estimate` is characterised by `estimate_cart` / `estimate_hom` below:
the result is `homMat R (t̄ − R s̄)` with `R = rotationOf svd (covL pairs)`.
-/
namespace Romea.Registration
open Matrix

variable {α : Type}

@[simp] theorem Tab.get_ofFn {n : Nat} (f : Fin n → α) (i : Fin n) : (Tab.ofFn f).get i = f i := by
  simp [Tab.ofFn, Tab.get]

@[simp] theorem Tab2.toFn_ofFn {n m : Nat} (f : Fin n → Fin m → α) : (Tab2.ofFn f).toFn = f := by
  funext i j; simp [Tab2.toFn, Tab2.ofFn]

@[simp] theorem Tab2.get_get_ofFn {n m : Nat} (f : Fin n → Fin m → α) (i : Fin n) (j : Fin m) :
    ((Tab2.ofFn f).get i).get j = f i j := by
  simp [Tab2.ofFn]

theorem Tab.ext {n : Nat} {a b : Tab n α} (h : ∀ i, a.get i = b.get i) : a = b := by
  rcases a with ⟨a, ha⟩
  rcases b with ⟨b, hb⟩
  have : a = b := by
    apply Array.ext (by rw [ha, hb])
    intro i h1 h2
    have := h ⟨i, by rw [← ha]; exact h1⟩
    simpa [Tab.get] using this
  subst this; rfl

theorem Tab2.ext {n m : Nat} {a b : Tab2 n m α} (h : a.toFn = b.toFn) : a = b := by
  apply Tab.ext; intro i; apply Tab.ext; intro j
  exact congrFun (congrFun h i) j

@[simp] theorem zero_real : (zero : ℝ) = 0 := by simp [zero]
@[simp] theorem one_real : (one : ℝ) = 1 := by simp [one]

theorem sumFin_eq (n : Nat) (f : Fin n → ℝ) : sumFin n f = ∑ i, f i := by
  unfold sumFin
  induction n with
  | zero => simp [Fin.foldl_zero]
  | succ n ih =>
    rw [Fin.foldl_succ_last, Fin.sum_univ_castSucc]
    simp only [ih (fun i => f i.castSucc)]

theorem skip_eq {n : Nat} (j : Fin (n + 1)) (b : Fin n) : skip j b = j.succAbove b := by
  unfold skip Fin.succAbove
  by_cases h : b.1 < j.1
  · have : b.castSucc < j := by simpa [Fin.lt_def] using h
    simp [h, this]; rfl
  · have : ¬ b.castSucc < j := by simpa [Fin.lt_def] using h
    simp [h, this]; rfl

theorem det_eq : ∀ (d : Nat) (m : Mat d d ℝ), Romea.Registration.det d m = Matrix.det (Matrix.of m)
  | 0, m => by simp [Romea.Registration.det]
  | d + 1, m => by
    rw [Romea.Registration.det.eq_2, sumFin_eq, Matrix.det_succ_row_zero]
    apply Finset.sum_congr rfl
    intro j _
    have hsub : Matrix.of (fun a b => m a.succ (skip j b)) = (Matrix.of m).submatrix Fin.succ j.succAbove := by
      ext a b; simp [skip_eq]
    simp only [det_eq d, hsub, Matrix.of_apply]
    rcases Nat.even_or_odd (j : ℕ) with he | ho
    · have : (j : ℕ) % 2 = 0 := Nat.even_iff.mp he
      simp [this, he.neg_one_pow]
    · have : (j : ℕ) % 2 = 1 := Nat.odd_iff.mp ho
      simp [this, ho.neg_one_pow]

/-! ### sums over the correspondence list -/

theorem foldl_get {β : Type} {p : Nat} (step : Tab p ℝ → β → Tab p ℝ) (term : β → ℝ) (i : Fin p)
    (h : ∀ acc c, (step acc c).get i = acc.get i + term c) (l : List β) (acc : Tab p ℝ) :
    (l.foldl step acc).get i = acc.get i + (l.map term).sum := by
  induction l generalizing acc with
  | nil => simp
  | cons c cs ih => simp only [List.foldl_cons, List.map_cons, List.sum_cons, ih, h]; ring

theorem foldl_get2 {β : Type} {p q : Nat} (step : Tab2 p q ℝ → β → Tab2 p q ℝ) (term : β → ℝ) (i : Fin p) (j : Fin q)
    (h : ∀ acc c, ((step acc c).get i).get j = (acc.get i).get j + term c) (l : List β) (acc : Tab2 p q ℝ) :
    ((l.foldl step acc).get i).get j = (acc.get i).get j + (l.map term).sum := by
  induction l generalizing acc with
  | nil => simp
  | cons c cs ih => simp only [List.foldl_cons, List.map_cons, List.sum_cons, ih, h]; ring

theorem sumPts_get (p : Nat) (pts : Array (Tab p ℝ)) (idx : List Nat) (i : Fin p) :
    (sumPts p pts idx).get i = (idx.map (fun k => (getPt p pts k).get i)).sum := by
  unfold sumPts
  rw [foldl_get _ (fun k => (getPt p pts k).get i) i (by intro acc c; simp)]
  simp

theorem meanOf_get (p : Nat) (pts : Array (Tab p ℝ)) (idx : List Nat) (i : Fin p) :
    (meanOf p pts idx).get i = (idx.map (fun k => (getPt p pts k).get i)).sum / (idx.length : ℝ) := by
  simp [meanOf, sumPts_get]

theorem crossCov_get (p : Nat) (src tgt : Array (Tab p ℝ)) (sm tm : Tab p ℝ) (corr : List (Nat × Nat)) (i j : Fin p) :
    ((crossCov p src tgt sm tm corr).get i).get j =
      (corr.map (fun c => ((getPt p src c.1).get i - sm.get i) * ((getPt p tgt c.2).get j - tm.get j))).sum := by
  unfold crossCov
  rw [foldl_get2 _ (fun c => ((getPt p src c.1).get i - sm.get i) * ((getPt p tgt c.2).get j - tm.get j)) i j
    (by intro acc c; simp)]
  simp

/-! ### the specification vocabulary -/

/-- first `d` coordinates of a point of size `p ≥ d` -/
def trunc {d p : Nat} (hdp : d ≤ p) (v : Fin p → ℝ) : Fin d → ℝ := fun i => v (Fin.castLE hdp i)

/-- the (source, target) pairs of Cartesian coordinates named by the correspondences -/
def pairsOf {d p : Nat} (hdp : d ≤ p) (src tgt : Array (Tab p ℝ)) (corr : List (Nat × Nat)) :
    List ((Fin d → ℝ) × (Fin d → ℝ)) :=
  corr.map (fun c => (trunc hdp (getPt p src c.1).get, trunc hdp (getPt p tgt c.2).get))

/-- mean of a list of points -/
noncomputable def meanL {d : Nat} (l : List (Fin d → ℝ)) : Fin d → ℝ :=
  fun i => (l.map (fun x => x i)).sum / (l.length : ℝ)

/-- cross-covariance `Σ (s - s̄)(t - t̄)ᵀ` of a list of pairs -/
noncomputable def covL {d : Nat} (P : List ((Fin d → ℝ) × (Fin d → ℝ))) : Matrix (Fin d) (Fin d) ℝ :=
  Matrix.of fun i j => (P.map (fun q => (q.1 i - meanL (P.map Prod.fst) i) * (q.2 j - meanL (P.map Prod.snd) j))).sum

/-- the homogeneous matrix `[R t; 0 1]` -/
def homMat {d : Nat} (R : Matrix (Fin d) (Fin d) ℝ) (t : Fin d → ℝ) : Matrix (Fin (d + 1)) (Fin (d + 1)) ℝ :=
  fun i j =>
    if hi : i.1 < d then (if hj : j.1 < d then R ⟨i.1, hi⟩ ⟨j.1, hj⟩ else t ⟨i.1, hi⟩)
    else (if j.1 < d then 0 else 1)

/-- upper-left `d × d` block -/
def linPart {d : Nat} (H : Matrix (Fin (d + 1)) (Fin (d + 1)) ℝ) : Matrix (Fin d) (Fin d) ℝ :=
  fun i j => H i.castSucc j.castSucc

/-- last column, first `d` rows -/
def transPart {d : Nat} (H : Matrix (Fin (d + 1)) (Fin (d + 1)) ℝ) : Fin d → ℝ :=
  fun i => H i.castSucc (Fin.last d)

@[simp] theorem linPart_homMat {d : Nat} (R : Matrix (Fin d) (Fin d) ℝ) (t : Fin d → ℝ) : linPart (homMat R t) = R := by
  funext i j; simp [linPart, homMat]

@[simp] theorem transPart_homMat {d : Nat} (R : Matrix (Fin d) (Fin d) ℝ) (t : Fin d → ℝ) : transPart (homMat R t) = t := by
  funext i; simp [transPart, homMat]

theorem homMat_injective {d : Nat} {R R' : Matrix (Fin d) (Fin d) ℝ} {t t' : Fin d → ℝ}
    (hR : R = R') (ht : t = t') : homMat R t = homMat R' t' := by rw [hR, ht]

/-! ### means and covariance of the model are those of the pair list -/

theorem mean_src_eq {d p : Nat} (hdp : d ≤ p) (src tgt : Array (Tab p ℝ)) (corr : List (Nat × Nat)) (i : Fin d) :
    (meanOf p src (corr.map (·.1))).get (Fin.castLE hdp i) = meanL ((pairsOf hdp src tgt corr).map Prod.fst) i := by
  simp [meanOf_get, meanL, pairsOf, trunc, List.map_map, Function.comp_def]

theorem mean_tgt_eq {d p : Nat} (hdp : d ≤ p) (src tgt : Array (Tab p ℝ)) (corr : List (Nat × Nat)) (i : Fin d) :
    (meanOf p tgt (corr.map (·.2))).get (Fin.castLE hdp i) = meanL ((pairsOf hdp src tgt corr).map Prod.snd) i := by
  simp [meanOf_get, meanL, pairsOf, trunc, List.map_map, Function.comp_def]

theorem cov_block_eq {d p : Nat} (hdp : d ≤ p) (src tgt : Array (Tab p ℝ)) (corr : List (Nat × Nat)) :
    (fun i j => ((crossCov p src tgt (meanOf p src (corr.map (·.1))) (meanOf p tgt (corr.map (·.2))) corr).get
        (Fin.castLE hdp i)).get (Fin.castLE hdp j)) = Matrix.of.symm (covL (pairsOf hdp src tgt corr)) := by
  funext i j
  rw [crossCov_get, mean_src_eq hdp src tgt, mean_tgt_eq hdp src tgt]
  simp [covL, pairsOf, trunc, List.map_map, Function.comp_def]

end Romea.Registration
