import RomeaProofs.Lemmas.C10Angles
import Mathlib.Tactic.LinearCombination
import Mathlib.Tactic.FinCases
import Mathlib.LinearAlgebra.Matrix.Determinant.Basic
import Mathlib.LinearAlgebra.Matrix.Notation
import Mathlib.LinearAlgebra.Matrix.Adjugate

/-!
# C10 helper lemmas: quaternions and 3×3 rotations over `ℝ`
-/
namespace Romea.C10
open Romea.Rotation

theorem Mat3.ext' {a b : Mat3 ℝ} (h00 : a.m00 = b.m00) (h01 : a.m01 = b.m01) (h02 : a.m02 = b.m02)
    (h10 : a.m10 = b.m10) (h11 : a.m11 = b.m11) (h12 : a.m12 = b.m12)
    (h20 : a.m20 = b.m20) (h21 : a.m21 = b.m21) (h22 : a.m22 = b.m22) : a = b := by
  cases a; cases b; simp_all

theorem Quat.ext' {a b : Quat ℝ} (hw : a.w = b.w) (hx : a.x = b.x) (hy : a.y = b.y) (hz : a.z = b.z) : a = b := by
  cases a; cases b; simp_all

theorem Vec3.ext' {a b : Vec3 ℝ} (hx : a.x = b.x) (hy : a.y = b.y) (hz : a.z = b.z) : a = b := by
  cases a; cases b; simp_all

/-- the record as a Mathlib matrix -/
def toMatrix (m : Mat3 ℝ) : Matrix (Fin 3) (Fin 3) ℝ :=
  !![m.m00, m.m01, m.m02; m.m10, m.m11, m.m12; m.m20, m.m21, m.m22]

theorem toMatrix_injective {a b : Mat3 ℝ} (h : toMatrix a = toMatrix b) : a = b := by
  have e := fun i j => congrFun (congrFun h i) j
  apply Mat3.ext'
  · exact e 0 0
  · exact e 0 1
  · exact e 0 2
  · exact e 1 0
  · exact e 1 1
  · exact e 1 2
  · exact e 2 0
  · exact e 2 1
  · exact e 2 2

theorem toMatrix_mul (a b : Mat3 ℝ) : toMatrix (Mat3.mul a b) = toMatrix a * toMatrix b := by
  ext i j
  fin_cases i <;> fin_cases j <;> simp [toMatrix, Mat3.mul, Matrix.mul_apply, Fin.sum_univ_three]

theorem toMatrix_identity : toMatrix (Mat3.identity : Mat3 ℝ) = 1 := by
  ext i j
  fin_cases i <;> fin_cases j <;> simp [toMatrix, Mat3.identity]

/-- elementary rotations -/
noncomputable def rotX (a : ℝ) : Mat3 ℝ := ⟨1, 0, 0, 0, Real.cos a, -Real.sin a, 0, Real.sin a, Real.cos a⟩
noncomputable def rotY (a : ℝ) : Mat3 ℝ := ⟨Real.cos a, 0, Real.sin a, 0, 1, 0, -Real.sin a, 0, Real.cos a⟩
noncomputable def rotZ (a : ℝ) : Mat3 ℝ := ⟨Real.cos a, -Real.sin a, 0, Real.sin a, Real.cos a, 0, 0, 0, 1⟩

/-- `Rz(yaw) * Ry(pitch) * Rx(roll)` -/
noncomputable def rotZYX (roll pitch yaw : ℝ) : Mat3 ℝ := Mat3.mul (Mat3.mul (rotZ yaw) (rotY pitch)) (rotX roll)

theorem rotZYX_entries (r p y : ℝ) :
    rotZYX r p y =
      ⟨Real.cos y * Real.cos p, Real.cos y * Real.sin p * Real.sin r - Real.sin y * Real.cos r,
        Real.cos y * Real.sin p * Real.cos r + Real.sin y * Real.sin r,
       Real.sin y * Real.cos p, Real.sin y * Real.sin p * Real.sin r + Real.cos y * Real.cos r,
        Real.sin y * Real.sin p * Real.cos r - Real.cos y * Real.sin r,
       -Real.sin p, Real.cos p * Real.sin r, Real.cos p * Real.cos r⟩ := by
  apply Mat3.ext' <;> simp [rotZYX, Mat3.mul, rotX, rotY, rotZ] <;> ring

/-- a proper rotation: orthogonal with determinant one -/
def IsProperRotation (m : Mat3 ℝ) : Prop :=
  (toMatrix m).transpose * toMatrix m = 1 ∧ (toMatrix m).det = 1

theorem isProper_mul {a b : Mat3 ℝ} (ha : IsProperRotation a) (hb : IsProperRotation b) :
    IsProperRotation (Mat3.mul a b) := by
  constructor
  · rw [toMatrix_mul, Matrix.transpose_mul, Matrix.mul_assoc, ← Matrix.mul_assoc _ (toMatrix a), ha.1, Matrix.one_mul, hb.1]
  · rw [toMatrix_mul, Matrix.det_mul, ha.2, hb.2, one_mul]

theorem isProper_iff (m : Mat3 ℝ) : IsProperRotation m ↔
    (m.m00 * m.m00 + m.m10 * m.m10 + m.m20 * m.m20 = 1 ∧ m.m01 * m.m01 + m.m11 * m.m11 + m.m21 * m.m21 = 1 ∧
     m.m02 * m.m02 + m.m12 * m.m12 + m.m22 * m.m22 = 1 ∧ m.m00 * m.m01 + m.m10 * m.m11 + m.m20 * m.m21 = 0 ∧
     m.m00 * m.m02 + m.m10 * m.m12 + m.m20 * m.m22 = 0 ∧ m.m01 * m.m02 + m.m11 * m.m12 + m.m21 * m.m22 = 0) ∧
    m.m00 * (m.m11 * m.m22 - m.m12 * m.m21) - m.m01 * (m.m10 * m.m22 - m.m12 * m.m20)
      + m.m02 * (m.m10 * m.m21 - m.m11 * m.m20) = 1 := by
  unfold IsProperRotation
  constructor
  · rintro ⟨h, hd⟩
    have e := fun i j => congrFun (congrFun h i) j
    have e00 := e 0 0; have e11 := e 1 1; have e22 := e 2 2; have e01 := e 0 1; have e02 := e 0 2; have e12 := e 1 2
    simp [toMatrix, Matrix.mul_apply, Fin.sum_univ_three] at e00 e11 e22 e01 e02 e12
    rw [Matrix.det_fin_three] at hd
    simp [toMatrix] at hd
    refine ⟨⟨by linarith, by linarith, by linarith, by linarith, by linarith, by linarith⟩, by linarith⟩
  · rintro ⟨⟨h0, h1, h2, h3, h4, h5⟩, hd⟩
    constructor
    · ext i j
      fin_cases i <;> fin_cases j <;> simp [toMatrix, Matrix.mul_apply, Fin.sum_univ_three] <;> linarith
    · rw [Matrix.det_fin_three]; simp [toMatrix]; linarith

theorem isProper_rotX (a : ℝ) : IsProperRotation (rotX a) := by
  rw [isProper_iff]; simp only [rotX]
  have := Real.sin_sq_add_cos_sq a
  refine ⟨⟨?_, ?_, ?_, ?_, ?_, ?_⟩, ?_⟩ <;> nlinarith
theorem isProper_rotY (a : ℝ) : IsProperRotation (rotY a) := by
  rw [isProper_iff]; simp only [rotY]
  have := Real.sin_sq_add_cos_sq a
  refine ⟨⟨?_, ?_, ?_, ?_, ?_, ?_⟩, ?_⟩ <;> nlinarith
theorem isProper_rotZ (a : ℝ) : IsProperRotation (rotZ a) := by
  rw [isProper_iff]; simp only [rotZ]
  have := Real.sin_sq_add_cos_sq a
  refine ⟨⟨?_, ?_, ?_, ?_, ?_, ?_⟩, ?_⟩ <;> nlinarith

theorem isProper_rotZYX (r p y : ℝ) : IsProperRotation (rotZYX r p y) :=
  isProper_mul (isProper_mul (isProper_rotZ y) (isProper_rotY p)) (isProper_rotX r)

end Romea.C10
