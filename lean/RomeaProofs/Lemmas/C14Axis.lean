import RomeaProofs.Lemmas.C14Basic

/-!
# C14 helper lemmas: one moving axis of a ray, in plain real numbers

`f + k r` is the lower face of cell `k`; the origin coordinate `o` is in cell `K`, the end coordinate `e` in
cell `E`; `D = (e - o) / R` is the direction component (`R > 0` the length of the ray);
`T = (face in the direction of travel - o) / D` and `δ = r / |D|` are `rayTMax_` / `rayTDelta_`.
-/
namespace Romea.RayCast

/-- everything the merge argument needs to know about one moving axis -/
structure AxisFacts (f r o e R T δ : ℝ) (σ K E : ℤ) : Prop where
  δpos : 0 < δ
  /-- the step sign agrees with the order of the cells -/
  order : (σ = 1 → K ≤ E) ∧ (σ = -1 → E ≤ K)
  /-- the crossings the ray really makes on this axis lie before the end of the ray -/
  needed : ∀ m : ℕ, m < (E - K).natAbs → T + m * δ ≤ R
  /-- all later ones lie at or beyond the end -/
  unneeded : ∀ m : ℕ, (E - K).natAbs ≤ m → R ≤ T + m * δ
  /-- the origin is inside its cell: the exit parameter is ≥ 0, the entry parameter ≤ 0 -/
  start : 0 ≤ T ∧ T - δ ≤ 0
  /-- between its entry and exit parameters the ray is inside the closed cell `K + σ m` -/
  geom : ∀ (m : ℕ) (t : ℝ), T + ((m : ℝ) - 1) * δ ≤ t → t ≤ T + m * δ →
    f + ((K + σ * m : ℤ) : ℝ) * r ≤ o + t / R * (e - o) ∧ o + t / R * (e - o) ≤ f + ((K + σ * m + 1 : ℤ) : ℝ) * r

private theorem mul_le_of_pos {a b D : ℝ} (hD : 0 < D) : a ≤ b ↔ a * D ≤ b * D :=
  (mul_le_mul_iff_of_pos_right hD).symm

theorem axis_pos {f r o e R D T δ : ℝ} {K E : ℤ} (hr : 0 < r) (hR : 0 < R)
    (hD : D = (e - o) / R) (hDpos : 0 < D)
    (hT : T = (f + (K : ℝ) * r + r / 2 + ((1 : ℤ) : ℝ) * r * (1 / 2) - o) / D) (hδ : δ = r / |D|)
    (hK : f + (K : ℝ) * r ≤ o ∧ o < f + ((K : ℝ) + 1) * r)
    (hE : f + (E : ℝ) * r ≤ e ∧ e < f + ((E : ℝ) + 1) * r) :
    AxisFacts f r o e R T δ 1 K E := by
  have hDne : D ≠ 0 := hDpos.ne'
  have habs : |D| = D := abs_of_pos hDpos
  have hRD : R * D = e - o := by rw [hD]; field_simp
  have htau : ∀ x : ℝ, (T + x * δ) * D = f + ((K : ℝ) + 1 + x) * r - o := by
    intro x; rw [hT, hδ, habs]; field_simp; push_cast; ring
  have hKE : K ≤ E := by
    have : f + (K : ℝ) * r < f + ((E : ℝ) + 1) * r := by nlinarith [hK.1, hE.2]
    have : (K : ℝ) < (E : ℝ) + 1 := by nlinarith
    have : K < E + 1 := by exact_mod_cast this
    omega
  have hN : ((E - K).natAbs : ℤ) = E - K := by omega
  refine ⟨by rw [hδ, habs]; positivity, ⟨fun _ => hKE, fun h => by omega⟩, ?_, ?_, ?_, ?_⟩
  · intro m hm
    rw [mul_le_of_pos hDpos, htau, hRD]
    have : (K : ℤ) + 1 + m ≤ E := by omega
    have : (K : ℝ) + 1 + m ≤ E := by exact_mod_cast this
    nlinarith [hE.1]
  · intro m hm
    rw [mul_le_of_pos hDpos, htau, hRD]
    have : E + 1 ≤ (K : ℤ) + 1 + m := by omega
    have : (E : ℝ) + 1 ≤ (K : ℝ) + 1 + m := by exact_mod_cast this
    nlinarith [hE.2]
  · constructor
    · have := htau 0
      have h2 : 0 ≤ (T + 0 * δ) * D := by rw [this]; nlinarith [hK.2]
      have : 0 ≤ T * D := by simpa using h2
      by_contra hneg
      rw [not_le] at hneg
      nlinarith
    · have := htau (-1)
      have h2 : (T + (-1) * δ) * D ≤ 0 := by rw [this]; nlinarith [hK.1]
      by_contra hpos
      rw [not_le] at hpos
      nlinarith
  · intro m t h1 h2
    have e1 : o + t / R * (e - o) = o + t * D := by rw [hD]; field_simp
    rw [e1]
    rw [mul_le_of_pos hDpos, htau] at h1 h2
    push_cast
    constructor <;> nlinarith

theorem axis_neg {f r o e R D T δ : ℝ} {K E : ℤ} (hr : 0 < r) (hR : 0 < R)
    (hD : D = (e - o) / R) (hDneg : D < 0)
    (hT : T = (f + (K : ℝ) * r + r / 2 + ((-1 : ℤ) : ℝ) * r * (1 / 2) - o) / D) (hδ : δ = r / |D|)
    (hK : f + (K : ℝ) * r ≤ o ∧ o < f + ((K : ℝ) + 1) * r)
    (hE : f + (E : ℝ) * r ≤ e ∧ e < f + ((E : ℝ) + 1) * r) :
    AxisFacts f r o e R T δ (-1) K E := by
  have hDne : D ≠ 0 := hDneg.ne
  have habs : |D| = -D := abs_of_neg hDneg
  have hRD : R * D = e - o := by rw [hD]; field_simp
  have hD' : 0 < -D := by linarith
  -- work with the positive quantity -D
  have htau : ∀ x : ℝ, (T + x * δ) * (-D) = o - (f + ((K : ℝ) - x) * r) := by
    intro x; rw [hT, hδ, habs]; field_simp; push_cast; ring
  have hKE : E ≤ K := by
    have : f + (E : ℝ) * r < f + ((K : ℝ) + 1) * r := by nlinarith [hK.2, hE.1]
    have : (E : ℝ) < (K : ℝ) + 1 := by nlinarith
    have : E < K + 1 := by exact_mod_cast this
    omega
  have hN : ((E - K).natAbs : ℤ) = K - E := by omega
  refine ⟨by rw [hδ, habs]; positivity, ⟨fun h => by omega, fun _ => hKE⟩, ?_, ?_, ?_, ?_⟩
  · intro m hm
    rw [mul_le_of_pos hD', htau]
    have : E + 1 ≤ (K : ℤ) - m := by omega
    have : (E : ℝ) + 1 ≤ (K : ℝ) - m := by exact_mod_cast this
    nlinarith [hE.2]
  · intro m hm
    rw [mul_le_of_pos hD', htau]
    have : (K : ℤ) - m ≤ E := by omega
    have : (K : ℝ) - m ≤ E := by exact_mod_cast this
    nlinarith [hE.1]
  · constructor
    · have := htau 0
      have h2 : 0 ≤ (T + 0 * δ) * (-D) := by rw [this]; nlinarith [hK.1]
      have : 0 ≤ T * (-D) := by simpa using h2
      by_contra hneg
      rw [not_le] at hneg
      nlinarith
    · have := htau (-1)
      have h2 : (T + (-1) * δ) * (-D) ≤ 0 := by rw [this]; nlinarith [hK.2]
      by_contra hpos
      rw [not_le] at hpos
      nlinarith
  · intro m t h1 h2
    have e1 : o + t / R * (e - o) = o - t * (-D) := by rw [hD]; field_simp; ring
    rw [e1]
    rw [mul_le_of_pos hD', htau] at h1 h2
    push_cast
    constructor <;> nlinarith

end Romea.RayCast
