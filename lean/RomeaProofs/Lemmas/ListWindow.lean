import Mathlib.Data.List.Rotate
import Mathlib.Algebra.BigOperators.Group.List.Basic
import Mathlib.Tactic.Linarith
import Mathlib.Tactic.Ring

/-! Helper lemmas about circular overwriting of a list (`set` at a moving index) — used by C16/C17. -/
namespace Romea.ListWindow

theorem take_succ_set {α} (l : List α) (i : Nat) (h : i < l.length) (q : α) :
    (l.set i q).take (i + 1) = l.take i ++ [q] := by
  induction l generalizing i with
  | nil => simp at h
  | cons a t ih =>
    cases i with
    | zero => simp
    | succ j => simp at h; simp [ih j h]

theorem drop_succ_set {α} (l : List α) (i : Nat) (q : α) :
    (l.set i q).drop (i + 1) = l.drop (i + 1) := by
  induction l generalizing i with
  | nil => simp
  | cons a t ih =>
    cases i with
    | zero => simp
    | succ j => simp [ih j]

/-- overwriting the slot at the rotation point and rotating one further drops the oldest element and
    appends the new one -/
theorem rotate_set_succ {α} (l : List α) (i : Nat) (h : i < l.length) (q : α) :
    (l.set i q).rotate (i + 1) = (l.rotate i).tail ++ [q] := by
  have h1 : i + 1 ≤ (l.set i q).length := by simp; omega
  rw [List.rotate_eq_drop_append_take h1, List.rotate_eq_drop_append_take (le_of_lt h),
    drop_succ_set, take_succ_set l i h, List.drop_eq_getElem_cons h]
  simp only [List.cons_append, List.tail_cons, List.append_assoc]

theorem sum_set_int (l : List Int) (i : Nat) (h : i < l.length) (q : Int) :
    (l.set i q).sum = l.sum - l.getD i 0 + q := by
  induction l generalizing i with
  | nil => simp at h
  | cons a t ih =>
    cases i with
    | zero => simp; ring
    | succ j => simp at h; simp [ih j h]; ring

theorem abs_sum_le (l : List Int) (B : Int) (h : ∀ x ∈ l, |x| ≤ B) : |l.sum| ≤ l.length * B := by
  induction l with
  | nil => simp
  | cons a t ih =>
    have ha := h a (by simp)
    have ht := ih (fun x hx => h x (by simp [hx]))
    simp only [List.sum_cons, List.length_cons]
    have := abs_add_le a t.sum
    push_cast
    linarith

end Romea.ListWindow
