import RomeaModel.LeastSquares
import Mathlib.Data.Real.Basic
import Mathlib.Data.Matrix.Mul
import Mathlib.Algebra.BigOperators.Fin
import Mathlib.Tactic.Ring
import Mathlib.Tactic.Linarith

/-!
# Bridge between the executable least-squares model and Mathlib matrices (helper lemmas for C07 / C05)

The model stores matrices as arrays of rows and sums by structural recursion; here every model function is
characterised, over `ℝ`, by the corresponding `Matrix` expression (`toM`, `toV` read an array through the
model's own accessor).
-/
namespace Romea.LeastSquares
open Matrix

@[simp] theorem zero_real : (zero : ℝ) = 0 := by simp [zero]
@[simp] theorem one_real : (one : ℝ) = 1 := by simp [one]

theorem Vec.get_tab {α : Type} [NatCast α] (n : Nat) (f : Nat → α) {i : Nat} (h : i < n) :
    (Vec.tab n f).get i = f i := by
  simp [Vec.get, Vec.tab, h]

theorem Vec.get_tab_ge {α : Type} [NatCast α] (n : Nat) (f : Nat → α) {i : Nat} (h : n ≤ i) :
    (Vec.tab n f).get i = zero := by
  have : ¬ i < n := by omega
  simp [Vec.get, Vec.tab, this]

theorem Mat.get_tab {α : Type} [NatCast α] (r c : Nat) (f : Nat → Nat → α) {i j : Nat} (hi : i < r) (hj : j < c) :
    (Mat.tab r c f).get i j = f i j := by
  simp [Mat.get, Mat.tab, hi, hj]

theorem sumTo_eq_sum (n : Nat) (f : Nat → ℝ) : sumTo n f = ∑ k ∈ Finset.range n, f k := by
  induction n with
  | zero => simp [sumTo]
  | succ n ih => simp [sumTo, ih, Finset.sum_range_succ]

theorem sumTo_eq_sum_fin (n : Nat) (f : Nat → ℝ) : sumTo n f = ∑ k : Fin n, f k := by
  rw [sumTo_eq_sum, Finset.sum_range]

theorem sumTo_congr {α : Type} [NatCast α] [Add α] (n : Nat) (f g : Nat → α) (h : ∀ k < n, f k = g k) :
    sumTo n f = sumTo n g := by
  induction n with
  | zero => rfl
  | succ n ih =>
    simp only [sumTo]
    rw [ih (fun k hk => h k (by omega)), h n (by omega)]

/-- an array read as an `r × c` real matrix -/
def toM (r c : Nat) (A : Mat ℝ) : Matrix (Fin r) (Fin c) ℝ := fun i j => A.get i j
/-- an array read as a real vector of length `n` -/
def toV (n : Nat) (v : Vec ℝ) : Fin n → ℝ := fun i => v.get i

@[simp] theorem toM_apply (r c : Nat) (A : Mat ℝ) (i : Fin r) (j : Fin c) : toM r c A i j = A.get i j := rfl
@[simp] theorem toV_apply (n : Nat) (v : Vec ℝ) (i : Fin n) : toV n v i = v.get i := rfl

theorem toM_tab (r c : Nat) (f : Nat → Nat → ℝ) : toM r c (Mat.tab r c f) = fun (i : Fin r) (j : Fin c) => f i j := by
  funext i j; exact Mat.get_tab r c f i.isLt j.isLt

theorem toV_tab (n : Nat) (f : Nat → ℝ) : toV n (Vec.tab n f) = fun (i : Fin n) => f i := by
  funext i; exact Vec.get_tab n f i.isLt

theorem toM_matMul (r m c : Nat) (A B : Mat ℝ) : toM r c (matMul r m c A B) = toM r m A * toM m c B := by
  funext i j
  simp only [matMul, toM_apply, Mat.get_tab _ _ _ i.isLt j.isLt, sumTo_eq_sum_fin, Matrix.mul_apply]

theorem toV_matVec (r c : Nat) (A : Mat ℝ) (v : Vec ℝ) : toV r (matVec r c A v) = toM r c A *ᵥ toV c v := by
  funext i
  simp only [matVec, toV_apply, Vec.get_tab _ _ i.isLt, sumTo_eq_sum_fin, Matrix.mulVec, dotProduct, toM_apply]

theorem toM_transpose (r c : Nat) (A : Mat ℝ) : toM c r (transpose r c A) = (toM r c A)ᵀ := by
  funext i j
  simp only [LeastSquares.transpose, toM_apply, Mat.get_tab _ _ _ i.isLt j.isLt, Matrix.transpose_apply]

theorem toM_identity (n : Nat) : toM n n (identity n) = (1 : Matrix (Fin n) (Fin n) ℝ) := by
  funext i j
  simp only [identity, toM_apply, Mat.get_tab _ _ _ i.isLt j.isLt, Matrix.one_apply, Fin.ext_iff, one_real, zero_real]

/-! ### The current problem of a solver state, and the solver's arithmetic as matrix expressions -/

/-- rows `0 … dataSize-1`, columns `0 … est-1` of the `J_` buffer -/
def JM (s : State ℝ) : Matrix (Fin s.dataSize) (Fin s.est) ℝ := toM s.dataSize s.est s.J
/-- entries `0 … dataSize-1` of the `Y_` buffer -/
def YV (s : State ℝ) : Fin s.dataSize → ℝ := toV s.dataSize s.Y
/-- entries `0 … dataSize-1` of the `W_` buffer -/
def WV (s : State ℝ) : Fin s.dataSize → ℝ := toV s.dataSize s.W
def AcM (s : State ℝ) : Matrix (Fin s.est) (Fin s.est) ℝ := toM s.est s.est s.Ac
def BcV (s : State ℝ) : Fin s.est → ℝ := toV s.est s.Bc
def InvM (s : State ℝ) : Matrix (Fin s.est) (Fin s.est) ℝ := toM s.est s.est s.inv

theorem toM_computeJtJ (s : State ℝ) : toM s.est s.est (computeJtJ s) = (JM s)ᵀ * JM s := by
  funext i j
  simp only [computeJtJ, toM_apply, Mat.get_tab _ _ _ i.isLt j.isLt, Matrix.mul_apply, Matrix.transpose_apply, JM]
  split
  · rw [sumTo_eq_sum_fin]
  · rw [sumTo_eq_sum_fin]; exact Finset.sum_congr rfl fun k _ => mul_comm _ _

theorem toV_computeJtY (s : State ℝ) : toV s.est (computeJtY s) = (JM s)ᵀ *ᵥ YV s := by
  funext i
  simp only [computeJtY, toV_apply, Vec.get_tab _ _ i.isLt, sumTo_eq_sum_fin, Matrix.mulVec, dotProduct,
    Matrix.transpose_apply, JM, YV, toM_apply]

theorem toV_applyPreconditioner (s : State ℝ) (inv : Mat ℝ) (b : Vec ℝ) :
    toV s.est (applyPreconditioner s inv b) = AcM s *ᵥ (toM s.est s.est inv *ᵥ toV s.est b) + BcV s := by
  have hx : toV s.est (matVec s.est s.est (matMul s.est s.est s.est s.Ac inv) b)
      = AcM s *ᵥ (toM s.est s.est inv *ᵥ toV s.est b) := by
    rw [toV_matVec, toM_matMul, ← Matrix.mulVec_mulVec]; rfl
  funext i
  simp only [applyPreconditioner, toV_apply, Vec.get_tab _ _ i.isLt, Pi.add_apply, BcV]
  rw [← hx, toV_apply]

/-- the diagonal of the "pseudo-inverse" as written in `estimateUsingSVD` -/
noncomputable def cutDiag (eps : ℝ) (e : Nat) (S : Vec ℝ) : Fin e → ℝ :=
  fun i => if eps < S.get i then 1 / S.get i else S.get i

theorem toM_pinvCut (eps : ℝ) (e : Nat) (d : SVD ℝ) :
    toM e e (pinvCut eps e d) = toM e e d.V * Matrix.diagonal (cutDiag eps e d.S) * (toM e e d.U)ᵀ := by
  unfold pinvCut
  simp only [toM_matMul, toM_transpose]
  congr 2
  funext i j
  simp only [toM_apply, Mat.get_tab _ _ _ i.isLt j.isLt, Matrix.diagonal_apply, cutDiag, Fin.ext_iff, one_real, zero_real, gt_iff_lt]

theorem toM_covariance (s : State ℝ) (var : ℝ) :
    toM s.est s.est (covariance s var) = var • ((AcM s)ᵀ * InvM s * AcM s) := by
  have hP : toM s.est s.est (matMul s.est s.est s.est (matMul s.est s.est s.est (LeastSquares.transpose s.est s.est s.Ac) s.inv) s.Ac)
      = (AcM s)ᵀ * InvM s * AcM s := by
    rw [toM_matMul, toM_matMul, toM_transpose]; rfl
  funext i j
  simp only [covariance, toM_apply, Mat.get_tab _ _ _ i.isLt j.isLt, Matrix.smul_apply, smul_eq_mul]
  rw [← hP, toM_apply, mul_comm]

/-! ### In-place weighting -/

theorem weightJAndY_Y_get (s : State ℝ) (k : Nat) :
    (weightJAndY s).Y.get k = if k < s.dataSize then s.Y.get k * s.W.get k else s.Y.get k := by
  simp only [weightJAndY, Vec.get, Array.getD_eq_getD_getElem?, Array.getElem?_mapIdx]
  cases h : s.Y[k]? with
  | none => simp
  | some y => by_cases hk : k < s.dataSize <;> simp [hk]

theorem weightJAndY_J_get (s : State ℝ) (k c : Nat) :
    (weightJAndY s).J.get k c = if k < s.dataSize ∧ c < s.est then s.J.get k c * s.W.get k else s.J.get k c := by
  simp only [weightJAndY, Mat.get, Vec.get, Array.getD_eq_getD_getElem?, Array.getElem?_mapIdx]
  cases h : s.J[k]? with
  | none => simp
  | some row =>
    by_cases hk : k < s.dataSize
    · simp only [hk, Option.map_some, if_true, Option.getD_some, Array.getElem?_mapIdx, true_and]
      cases h2 : row[c]? with
      | none => simp
      | some v => by_cases hc : c < s.est <;> simp [hc]
    · simp [hk]

theorem JM_weightJAndY (s : State ℝ) : JM (weightJAndY s) = Matrix.diagonal (WV s) * JM s := by
  refine funext fun (k : Fin s.dataSize) => funext fun (c : Fin s.est) => ?_
  have h : (weightJAndY s).J.get k c = s.J.get k c * s.W.get k := by
    rw [weightJAndY_J_get]; simp only [k.isLt, c.isLt, and_self, if_true]
  have h2 : (Matrix.diagonal (WV s) * JM s) k c = s.W.get k * s.J.get k c := by
    rw [Matrix.diagonal_mul]; rfl
  rw [h2, mul_comm, ← h]; rfl

theorem YV_weightJAndY (s : State ℝ) : YV (weightJAndY s) = fun k => WV s k * YV s k := by
  refine funext fun (k : Fin s.dataSize) => ?_
  have h : (weightJAndY s).Y.get k = s.Y.get k * s.W.get k := by
    rw [weightJAndY_Y_get]; simp only [k.isLt, if_true]
  have h2 : WV s k * YV s k = s.W.get k * s.Y.get k := rfl
  rw [h2, mul_comm, ← h]; rfl

/-! ### Effect of the mutating operations on the buffers (entry by entry) -/

/-- size of buffer row `k` (0 outside the buffer) -/
def rowSize (s : State ℝ) (k : Nat) : Nat := (s.J.getD k #[]).size

theorem getD_eq_get (v : Array ℝ) (c : Nat) : v[c]?.getD zero = Vec.get v c := by simp [Vec.get]

theorem writeRow_Y_get (s : State ℝ) (i : Nat) (r : Vec ℝ) (y : ℝ) (k : Nat) :
    (writeRow s i r y).Y.get k = if k = i ∧ i < s.Y.size then y else s.Y.get k := by
  simp only [writeRow, Vec.get, Array.getD_eq_getD_getElem?, Array.getElem?_setIfInBounds]
  by_cases hk : i = k
  · subst hk
    by_cases hi : i < s.Y.size <;> simp [hi]
  · have : ¬ k = i := fun h => hk h.symm
    simp [hk, this]

theorem writeRow_J_get (s : State ℝ) (i : Nat) (r : Vec ℝ) (y : ℝ) (k c : Nat) :
    (writeRow s i r y).J.get k c =
      if k = i ∧ i < s.J.size ∧ c < rowSize s i ∧ c < s.est then r.get c else s.J.get k c := by
  simp only [writeRow, Mat.get, rowSize, Array.getD_eq_getD_getElem?, Array.getElem?_setIfInBounds]
  by_cases hk : i = k
  · subst hk
    by_cases hi : i < s.J.size
    · simp only [hi, if_true, true_and, Option.getD_some]
      rw [getD_eq_get, getD_eq_get]
      by_cases hc : c < (s.J[i]?.getD #[]).size
      · rw [Vec.get_tab _ _ hc]
        by_cases he : c < s.est <;> simp [hc, he]
      · have hge : (s.J[i]?.getD #[]).size ≤ c := by omega
        rw [Vec.get_tab_ge _ _ hge]
        simp only [hc, false_and, if_false]
        simp [Vec.get, hge, zero]
    · simp [hi]
  · have : ¬ k = i := fun h => hk h.symm
    simp [hk, this]

theorem writeRow_sizes (s : State ℝ) (i : Nat) (r : Vec ℝ) (y : ℝ) :
    (writeRow s i r y).J.size = s.J.size ∧ (writeRow s i r y).Y.size = s.Y.size ∧ (writeRow s i r y).W = s.W ∧
    ∀ k, rowSize (writeRow s i r y) k = rowSize s k := by
  refine ⟨by simp [writeRow], by simp [writeRow], rfl, fun k => ?_⟩
  simp only [writeRow, rowSize, Array.getD_eq_getD_getElem?, Array.getElem?_setIfInBounds]
  by_cases hk : i = k
  · subst hk
    by_cases hi : i < s.J.size
    · simp [hi, Vec.tab]
    · simp [hi]
  · simp [hk]

theorem setW_get (s : State ℝ) (i : Nat) (w : ℝ) (k : Nat) :
    (setW s i w).W.get k = if k = i ∧ i < s.W.size then w else s.W.get k := by
  simp only [setW, Vec.get, Array.getD_eq_getD_getElem?, Array.getElem?_setIfInBounds]
  by_cases hk : i = k
  · subst hk
    by_cases hi : i < s.W.size <;> simp [hi]
  · have : ¬ k = i := fun h => hk h.symm
    simp [hk, this]

theorem weightJAndY_sizes (s : State ℝ) :
    (weightJAndY s).J.size = s.J.size ∧ (weightJAndY s).Y.size = s.Y.size ∧ (weightJAndY s).W = s.W ∧
    ∀ k, rowSize (weightJAndY s) k = rowSize s k := by
  refine ⟨by simp [weightJAndY], by simp [weightJAndY], rfl, fun k => ?_⟩
  simp only [weightJAndY, rowSize, Array.getD_eq_getD_getElem?, Array.getElem?_mapIdx]
  cases h : s.J[k]? with
  | none => simp
  | some row => by_cases hk : k < s.dataSize <;> simp [hk]

theorem rowSize_tab (s : State ℝ) (r c : Nat) (f : Nat → Nat → ℝ) (k : Nat) (hk : k < r) :
    rowSize { s with J := Mat.tab r c f } k = c := by
  simp [rowSize, Mat.tab, hk]


theorem Mat.tab_congr {α : Type} (r c : Nat) (f g : Nat → Nat → α) (h : ∀ i < r, ∀ j < c, f i j = g i j) :
    Mat.tab r c f = Mat.tab r c g := by
  unfold Mat.tab
  congr 1; funext i; congr 1; funext j
  exact h i i.isLt j j.isLt

theorem Vec.tab_congr {α : Type} (n : Nat) (f g : Nat → α) (h : ∀ i < n, f i = g i) : Vec.tab n f = Vec.tab n g := by
  unfold Vec.tab
  congr 1; funext i
  exact h i i.isLt

end Romea.LeastSquares
